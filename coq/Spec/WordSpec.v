(* Spec/WordSpec.v — mathematical definitions of the word primitives, by recursion on the
   binary representation.  These are the right-hand sides of C14 and the meaning given to the
   three std intrinsics (count_ones / trailing_zeros / leading_zeros) the translator maps. *)
From Sucds Require Import Base.Res.
Open Scope N_scope.

Fixpoint popcP (p : positive) : N :=
  match p with xH => 1 | xO q => popcP q | xI q => N.succ (popcP q) end.
Definition popcN (n : N) : N := match n with 0 => 0 | Npos p => popcP p end.

Fixpoint ctzP (p : positive) : N :=
  match p with xO q => N.succ (ctzP q) | _ => 0 end.
(* usize::trailing_zeros; 64 on 0 *)
Definition ctz64 (n : N) : N := match n with 0 => 64 | Npos p => ctzP p end.
(* usize::leading_zeros for n < 2^64; 64 on 0 *)
Definition clz64 (n : N) : N := match n with 0 => 64 | Npos _ => 63 - N.log2 n end.

Definition lsb_spec (x : N) : option N := if x =? 0 then None else Some (ctz64 x).
Definition msb_spec (x : N) : option N := if x =? 0 then None else Some (N.log2 x).

(* position of the k-th (0-based) set bit, counting positions from `pos` *)
Fixpoint selP (p : positive) (k pos : N) : option N :=
  match p with
  | xH => if k =? 0 then Some pos else None
  | xO q => selP q k (pos + 1)
  | xI q => if k =? 0 then Some pos else selP q (k - 1) (pos + 1)
  end.
Definition select_in_word_spec (x k : N) : option N :=
  match x with 0 => None | Npos p => selP p k 0 end.

(* the 64 bits of a word, least significant first *)
Fixpoint bits_n (n : nat) (w : N) : list bool :=
  match n with O => [] | S m => N.odd w :: bits_n m (N.div2 w) end.
Definition word_bits (w : N) : list bool := bits_n 64 w.
