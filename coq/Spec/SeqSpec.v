(* Spec/SeqSpec.v — integer sequences as `list N`: the oracles for Elias-Fano, the integer
   vectors and the wavelet matrix.  Arguments are arbitrary N, compared with lengths first. *)
From Sucds Require Import Base.Res.
Open Scope N_scope.

Definition nth_opt (xs : list N) (i : N) : option N :=
  if i <? lenN xs then nth_error xs (N.to_nat i) else None.

(* --- sorted multisets (Elias-Fano): xs non-decreasing, universe u > last xs --- *)
Definition ef_select (xs : list N) (k : N) : option N := nth_opt xs k.
Definition ef_delta (xs : list N) (k : N) : option N :=
  match nth_opt xs k with
  | None => None
  | Some x => if k =? 0 then Some x else
              match nth_opt xs (k - 1) with Some p => Some (x - p) | None => None end
  end.
(* #{x < p} for p <= u *)
Definition ef_rank (xs : list N) (u p : N) : option N :=
  if p <=? u then Some (lenN (filter (fun x => x <? p) xs)) else None.
(* max{x <= p}, min{x >= p} for p < u *)
Definition ef_pred (xs : list N) (u p : N) : option N :=
  if p <? u then last_opt (filter (fun x => x <=? p) xs) else None.
Definition ef_succ (xs : list N) (u p : N) : option N :=
  if p <? u then hd_error (filter (fun x => p <=? x) xs) else None.
(* iter(k): the elements from index k on *)
Definition ef_iter (xs : list N) (k : N) : list N :=
  if k <? lenN xs then skipn (N.to_nat k) xs else [].
(* binsearch_range(a..b, v) may return any index i in [a,b) with xs[i] = v; None iff there is none
   (or the range is empty or ends beyond the length) *)
Definition occurs_in (xs : list N) (a b v : N) : bool :=
  (a <? b) && (b <=? lenN xs) &&
  existsb (fun x => x =? v) (firstn (N.to_nat (b - a)) (skipn (N.to_nat a) xs)).
Definition binsearch_ok (xs : list N) (a b v : N) (r : option N) : bool :=
  match r with
  | None => negb (occurs_in xs a b v)
  | Some i => (a <=? i) && (i <? b) && (b <=? lenN xs) &&
              match nth_opt xs i with Some x => x =? v | None => false end
  end.

(* builder acceptance (C16): state = accepted values (in order) *)
Definition efb_accepts (u m : N) (acc : list N) (v : N) : bool :=
  (match last_opt acc with Some l => l <=? v | None => true end) && (v <? u) && (lenN acc <? m).

(* --- general sequences (wavelet matrix) --- *)
Definition sub_seq (xs : list N) (a b : N) : list N :=          (* xs[a..b), empty if a >= b *)
  if a <? b then firstn (N.to_nat (b - a)) (skipn (N.to_nat a) xs) else [].
Definition count_val (v : N) (xs : list N) : N := lenN (filter (fun x => x =? v) xs).
(* rank_range(a..b, v): None iff b > n *)
Definition wm_rank_range (xs : list N) (a b v : N) : option N :=
  if lenN xs <? b then None else Some (count_val v (sub_seq xs a b)).
Fixpoint positions_of_from (v : N) (xs : list N) (p : N) : list N :=
  match xs with
  | [] => []
  | x :: r => if x =? v then p :: positions_of_from v r (p + 1) else positions_of_from v r (p + 1)
  end.
Definition wm_select (xs : list N) (k v : N) : option N := nth_opt (positions_of_from v xs 0) k.

Fixpoint insert_sorted (x : N) (l : list N) : list N :=
  match l with [] => [x] | y :: r => if x <=? y then x :: l else y :: insert_sorted x r end.
Definition sort (l : list N) : list N := fold_right insert_sorted [] l.
(* quantile(a..b, k): k-th smallest of xs[a..b) when b <= n and k < b-a *)
Definition wm_quantile (xs : list N) (a b k : N) : option N :=
  if lenN xs <? b then None else nth_opt (sort (sub_seq xs a b)) k.

Fixpoint dedup_sorted (l : list N) : list N :=
  match l with
  | [] => []
  | x :: r => match r with
              | y :: _ => if x =? y then dedup_sorted r else x :: dedup_sorted r
              | [] => [x]
              end
  end.
(* intersect(ranges, k): ascending distinct values occurring in more than k ranges; None iff a range ends beyond n *)
Definition wm_intersect (xs : list N) (ranges : list (N * N)) (k : N) : option (list N) :=
  if existsb (fun r => lenN xs <? snd r) ranges then None else
  let subs := map (fun r => sub_seq xs (fst r) (snd r)) ranges in
  let cands := dedup_sorted (sort (concat subs)) in
  Some (filter (fun v => k <? lenN (filter (fun s => existsb (fun x => x =? v) s) subs)) cands).
