(* Spec/BitSpec.v — the plain bit sequence: every query as a function on `list bool`.
   All arguments are arbitrary N; an argument is compared with the length before it is ever
   converted to nat. *)
From Sucds Require Import Base.Res.
Open Scope N_scope.

Definition access (b : list bool) (i : N) : option bool :=
  if i <? lenN b then nth_error b (N.to_nat i) else None.

Fixpoint count (v : bool) (b : list bool) : N :=
  match b with [] => 0 | x :: r => (if Bool.eqb x v then 1 else 0) + count v r end.

(* number of v-bits in b[0..i) ; None iff i > length *)
Definition rank (v : bool) (b : list bool) (i : N) : option N :=
  if i <=? lenN b then Some (count v (firstn (N.to_nat i) b)) else None.

Fixpoint positions_from (v : bool) (b : list bool) (p : N) : list N :=
  match b with
  | [] => []
  | x :: r => if Bool.eqb x v then p :: positions_from v r (p + 1) else positions_from v r (p + 1)
  end.
Definition positions (v : bool) (b : list bool) : list N := positions_from v b 0.

(* position of the k-th v-bit; None iff k >= count *)
Definition select (v : bool) (b : list bool) (k : N) : option N :=
  let ps := positions v b in
  if k <? lenN ps then nth_error ps (N.to_nat k) else None.

(* largest position <= i holding v / smallest position >= i holding v; None iff i >= length or none *)
Definition pred (v : bool) (b : list bool) (i : N) : option N :=
  if i <? lenN b then last_opt (filter (fun p => p <=? i) (positions v b)) else None.
Definition succ (v : bool) (b : list bool) (i : N) : option N :=
  if i <? lenN b then hd_error (filter (fun p => i <=? p) (positions v b)) else None.

(* value of the bits b[pos .. pos+len) as a number, LSB first; None iff len > 64 or pos+len > length *)
Fixpoint bits_val (l : list bool) : N :=
  match l with [] => 0 | x :: r => b2n x + 2 * bits_val r end.
Definition get_bits (b : list bool) (pos len : N) : option N :=
  if (len <=? 64) && (pos + len <=? lenN b)
  then Some (bits_val (firstn (N.to_nat len) (skipn (N.to_nat pos) b))) else None.
(* the (up to) 64 bits starting at pos; None iff pos >= length *)
Definition get_word64 (b : list bool) (pos : N) : option N :=
  if pos <? lenN b then Some (bits_val (firstn 64 (skipn (N.to_nat pos) b))) else None.

(* ---- mutation histories (C07): the 7 constructors/mutators on the plain list ---- *)
Inductive bvop :=
  | OFromBit (b : bool) (len : N)
  | OFromBits (l : list bool)
  | OPushBit (b : bool)
  | OPushBits (bits len : N)
  | OSetBit (pos : N) (b : bool)
  | OSetBits (pos bits len : N)
  | OExtend (l : list bool).

(* the low n bits of v, least significant first *)
Fixpoint low_bits (n : nat) (v : N) : list bool :=
  match n with O => [] | S m => N.odd v :: low_bits m (N.div2 v) end.
(* replace l[pos .. pos + length new) by new (pos + length new <= length l) *)
Fixpoint overwrite (l : list bool) (pos : nat) (new : list bool) : list bool :=
  match pos, l with
  | O, _ => new ++ skipn (length new) l
  | S p, x :: r => x :: overwrite r p new
  | S _, [] => []
  end.

(* new contents and whether the call is accepted (Ok) or rejected (Err, contents unchanged) *)
Definition apply_op (s : list bool) (o : bvop) : list bool * bool :=
  match o with
  | OFromBit b len => (repeat b (N.to_nat len), true)
  | OFromBits l => (l, true)
  | OPushBit b => (s ++ [b], true)
  | OPushBits bits len =>
      if len <=? 64 then (s ++ low_bits (N.to_nat len) bits, true) else (s, false)
  | OSetBit pos b =>
      if pos <? lenN s then (overwrite s (N.to_nat pos) [b], true) else (s, false)
  | OSetBits pos bits len =>
      if (len <=? 64) && (pos + len <=? lenN s)
      then (overwrite s (N.to_nat pos) (low_bits (N.to_nat len) bits), true) else (s, false)
  | OExtend l => (s ++ l, true)
  end.

Fixpoint run_ops (s : list bool) (ops : list bvop) : list bool * list bool :=
  match ops with
  | [] => (s, [])
  | o :: r => let '(s', ok) := apply_op s o in
              let '(s'', oks) := run_ops s' r in (s'', ok :: oks)
  end.
