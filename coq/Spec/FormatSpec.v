(* Spec/FormatSpec.v — the serialization format as a generic, type-directed codec:
   little-endian fixed-width primitives, 8-byte length prefix for Vec, 1-byte tag for Option,
   structs as the concatenation of their fields.  Bytes are N below 256.  `None` = Err. *)
From Sucds Require Import Base.Res.
From Coq Require Import String.
Open Scope N_scope.

Inductive ty :=
  | TU8 | TU16 | TU64 | TI64 | TBool
  | TVec (t : ty) | TOpt (t : ty) | TStruct (fs : list ty).

Inductive val :=
  | VNum (n : N)                 (* u8 / u16 / usize *)
  | VInt (z : Z)                 (* isize *)
  | VBool (b : bool)
  | VVec (l : list val)
  | VOpt (o : option val)
  | VStruct (l : list val).

(* k bytes of n, least significant first *)
Fixpoint le_bytes (k : nat) (n : N) : list N :=
  match k with O => [] | S m => N.land n 255 :: le_bytes m (N.shiftr n 8) end.
Fixpoint le_val (bs : list N) : N :=
  match bs with [] => 0 | b :: r => b + 256 * le_val r end.

Definition i64_to_n (z : Z) : N := Z.to_N (z mod 18446744073709551616)%Z.
Definition n_to_i64 (n : N) : Z :=
  if n <? 9223372036854775808 then Z.of_N n else (Z.of_N n - 18446744073709551616)%Z.

Fixpoint ser (t : ty) (v : val) {struct t} : list N :=
  match t, v with
  | TU8, VNum n => le_bytes 1 n
  | TU16, VNum n => le_bytes 2 n
  | TU64, VNum n => le_bytes 8 n
  | TI64, VInt z => le_bytes 8 (i64_to_n z)
  | TBool, VBool b => [b2n b]
  | TVec t', VVec l => le_bytes 8 (lenN l) ++ flat_map (ser t') l
  | TOpt t', VOpt None => [0]
  | TOpt t', VOpt (Some x) => 1 :: ser t' x
  | TStruct fs, VStruct l =>
      (fix go (fs : list ty) (l : list val) : list N :=
         match fs, l with
         | f :: fs', x :: l' => ser f x ++ go fs' l'
         | _, _ => []
         end) fs l
  | _, _ => []
  end.

(* read_exact of k bytes *)
Definition read_le (k : nat) (bs : list N) : option (N * list N) :=
  let h := firstn k bs in
  if (List.length h =? k)%nat then Some (le_val h, skipn k bs) else None.

Fixpoint deser (t : ty) (bs : list N) {struct t} : option (val * list N) :=
  match t with
  | TU8 => match read_le 1 bs with Some (n, r) => Some (VNum n, r) | None => None end
  | TU16 => match read_le 2 bs with Some (n, r) => Some (VNum n, r) | None => None end
  | TU64 => match read_le 8 bs with Some (n, r) => Some (VNum n, r) | None => None end
  | TI64 => match read_le 8 bs with Some (n, r) => Some (VInt (n_to_i64 n), r) | None => None end
  | TBool => match read_le 1 bs with Some (n, r) => Some (VBool (negb (n =? 0)), r) | None => None end
  | TVec t' =>
      match read_le 8 bs with
      | None => None
      | Some (n, r) =>
          (* `for _ in 0..len { vec.push(S::deserialize_from(&mut reader)?) }`; every element of
             the supported types occupies at least one byte, so length r + 1 iterations suffice *)
          (fix loop (fuel : nat) (cnt : N) (bs : list N) (acc : list val) : option (val * list N) :=
             if cnt =? 0 then Some (VVec (rev_append acc []), bs) else
             match fuel with
             | O => None
             | S f => match deser t' bs with
                      | None => None
                      | Some (v, bs') => loop f (cnt - 1) bs' (v :: acc)
                      end
             end) (S (List.length r)) n r []
      end
  | TOpt t' =>
      match read_le 1 bs with
      | None => None
      | Some (n, r) =>
          if n =? 0 then Some (VOpt None, r)
          else match deser t' r with Some (v, r') => Some (VOpt (Some v), r') | None => None end
      end
  | TStruct fs =>
      (fix go (fs : list ty) (bs : list N) (acc : list val) : option (val * list N) :=
         match fs with
         | [] => Some (VStruct (rev_append acc []), bs)
         | f :: fs' => match deser f bs with
                       | None => None
                       | Some (v, bs') => go fs' bs' (v :: acc)
                       end
         end) fs bs []
  end.

(* Serializable::size_of(): Some for the primitives only *)
Definition fixed_size (t : ty) : option N :=
  match t with TU8 | TBool => Some 1 | TU16 => Some 2 | TU64 | TI64 => Some 8 | _ => None end.

(* size_in_bytes(), including the `size_of` fast path of Vec *)
Fixpoint size (t : ty) (v : val) {struct t} : N :=
  match t, v with
  | TU8, _ | TBool, _ => 1
  | TU16, _ => 2
  | TU64, _ | TI64, _ => 8
  | TVec t', VVec l =>
      match fixed_size t' with
      | Some m => 8 + m * lenN l
      | None => 8 + fold_left (fun acc x => acc + size t' x) l 0
      end
  | TOpt t', VOpt None => 0 + 1
  | TOpt t', VOpt (Some x) => size t' x + 1
  | TStruct fs, VStruct l =>
      (fix go (fs : list ty) (l : list val) : N :=
         match fs, l with
         | f :: fs', x :: l' => size f x + go fs' l'
         | _, _ => 0
         end) fs l
  | _, _ => 0
  end.

(* value v is a well-formed inhabitant of t (numbers in range, shapes match) *)
Fixpoint wf_val (t : ty) (v : val) {struct t} : bool :=
  match t, v with
  | TU8, VNum n => n <? 256
  | TU16, VNum n => n <? 65536
  | TU64, VNum n => n <? W
  | TI64, VInt z => ((-9223372036854775808 <=? z) && (z <? 9223372036854775808))%Z
  | TBool, VBool _ => true
  | TVec t', VVec l => (lenN l <? W) && forallb (wf_val t') l
  | TOpt t', VOpt None => true
  | TOpt t', VOpt (Some x) => wf_val t' x
  | TStruct fs, VStruct l =>
      (fix go (fs : list ty) (l : list val) : bool :=
         match fs, l with
         | [], [] => true
         | f :: fs', x :: l' => wf_val f x && go fs' l'
         | _, _ => false
         end) fs l
  | _, _ => false
  end.

(* every Vec element type occupies at least one byte *)
Fixpoint min_size (t : ty) : N :=
  match t with
  | TU8 | TBool | TOpt _ => 1
  | TU16 => 2
  | TU64 | TI64 | TVec _ => 8
  | TStruct fs => fold_right (fun f acc => min_size f + acc) 0 fs
  end.
Fixpoint vec_ok (t : ty) : bool :=
  match t with
  | TVec t' => (1 <=? min_size t') && vec_ok t'
  | TOpt t' => vec_ok t'
  | TStruct fs => forallb vec_ok fs
  | _ => true
  end.

(* ---- descriptions of the hand-written `impl Serializable` blocks (filled in by the translator) ---- *)
Inductive size_term := SzField (f : string) | SzPrim (t : ty) (k : N).
Record impl_desc := {
  d_name : string;
  d_fields : list (string * ty);      (* struct declaration order *)
  d_ser : list string;                (* fields in the order serialize_into writes them *)
  d_deser : list (string * ty);       (* (binding, Type) in the order deserialize_from reads them *)
  d_ctor : list string;               (* fields named in `Self { .. }` *)
  d_size : list size_term }.          (* additive terms of size_in_bytes *)
