(* Spec/DacSpec.v — cost model of directly addressable codes (C10, C11, C18). *)
From Sucds Require Import Base.Res.
Open Scope N_scope.

(* bit length with bitlen 0 = 1 (utils::needed_bits) *)
Definition bitlen (x : N) : N := if x =? 0 then 1 else N.log2 x + 1.
Definition max_list (l : list N) : N := fold_left N.max l 0.

(* number of values needing more than j bits *)
Definition reach (vals : list N) (j : N) : N := lenN (filter (fun x => j <? bitlen x) vals).

(* stored bits for level widths ws: level l starting at bit offset o stores reach(o) chunks of
   (w + 1 flag) bits, the last level stores no flags *)
Fixpoint cost_from (vals : list N) (o : N) (ws : list N) : N :=
  match ws with
  | [] => 0
  | [w] => w * reach vals o
  | w :: r => (w + 1) * reach vals o + cost_from vals (o + w) r
  end.
Definition cost (vals : list N) (ws : list N) : N := cost_from vals 0 ws.

(* all lists of positive widths summing to b with at most l parts *)
Fixpoint compositions (l : nat) (b : N) : list (list N) :=
  match l with
  | O => if b =? 0 then [[]] else []
  | S l' =>
      if b =? 0 then [[]] else
      flat_map (fun w => map (cons w) (compositions l' (b - w))) (map (fun i => i + 1) (nseq b))
  end.
Definition sum_list (l : list N) : N := fold_left N.add l 0.

(* ws is an admissible split: positive widths, sum = bitlen(max), at most L levels, at least one *)
Definition admissible (vals ws : list N) (L : N) : bool :=
  (1 <=? lenN ws) && (lenN ws <=? L) && forallb (fun w => 1 <=? w) ws
  && (sum_list ws =? bitlen (max_list vals)).

(* minimum cost over all compositions, by enumeration (used by the driver for small bit lengths) *)
Definition min_cost_brute (vals : list N) (L : N) : N :=
  let b := bitlen (max_list vals) in
  fold_left N.min (map (cost vals) (filter (fun ws => negb (lenN ws =? 0)) (compositions (N.to_nat (N.min L b)) b)))
            (b * lenN vals).

(* DacsByte: ceil(bitlen(max)/8) levels *)
Definition byte_levels (vals : list N) : N :=
  match vals with [] => 1 | _ => (bitlen (max_list vals) + 7) / 8 end.
