
val negb : bool -> bool

type nat =
| O
| S of nat

val option_map : ('a1 -> 'a2) -> 'a1 option -> 'a2 option

type ('a, 'b) sum =
| Inl of 'a
| Inr of 'b

val fst : ('a1 * 'a2) -> 'a1

val snd : ('a1 * 'a2) -> 'a2

val length : 'a1 list -> nat

val app : 'a1 list -> 'a1 list -> 'a1 list

type comparison =
| Eq
| Lt
| Gt

val compOpp : comparison -> comparison

val add : nat -> nat -> nat

type positive =
| XI of positive
| XO of positive
| XH

type n =
| N0
| Npos of positive

type z =
| Z0
| Zpos of positive
| Zneg of positive

val eqb : bool -> bool -> bool

module Nat :
 sig
  val eqb : nat -> nat -> bool
 end

module Pos :
 sig
  type mask =
  | IsNul
  | IsPos of positive
  | IsNeg
 end

module Coq_Pos :
 sig
  val succ : positive -> positive

  val add : positive -> positive -> positive

  val add_carry : positive -> positive -> positive

  val pred_double : positive -> positive

  type mask = Pos.mask =
  | IsNul
  | IsPos of positive
  | IsNeg

  val succ_double_mask : mask -> mask

  val double_mask : mask -> mask

  val double_pred_mask : positive -> mask

  val sub_mask : positive -> positive -> mask

  val sub_mask_carry : positive -> positive -> mask

  val mul : positive -> positive -> positive

  val iter : ('a1 -> 'a1) -> 'a1 -> positive -> 'a1

  val size : positive -> positive

  val compare_cont : comparison -> positive -> positive -> comparison

  val compare : positive -> positive -> comparison

  val eqb : positive -> positive -> bool

  val coq_Nsucc_double : n -> n

  val coq_Ndouble : n -> n

  val coq_lor : positive -> positive -> positive

  val coq_land : positive -> positive -> n

  val coq_lxor : positive -> positive -> n

  val shiftl : positive -> n -> positive

  val iter_op : ('a1 -> 'a1 -> 'a1) -> positive -> 'a1 -> 'a1

  val to_nat : positive -> nat

  val of_succ_nat : nat -> positive
 end

module N :
 sig
  val succ_double : n -> n

  val double : n -> n

  val succ : n -> n

  val add : n -> n -> n

  val sub : n -> n -> n

  val mul : n -> n -> n

  val compare : n -> n -> comparison

  val eqb : n -> n -> bool

  val leb : n -> n -> bool

  val ltb : n -> n -> bool

  val min : n -> n -> n

  val max : n -> n -> n

  val div2 : n -> n

  val even : n -> bool

  val odd : n -> bool

  val log2 : n -> n

  val pos_div_eucl : positive -> n -> n * n

  val div_eucl : n -> n -> n * n

  val div : n -> n -> n

  val modulo : n -> n -> n

  val coq_lor : n -> n -> n

  val coq_land : n -> n -> n

  val coq_lxor : n -> n -> n

  val shiftl : n -> n -> n

  val shiftr : n -> n -> n

  val to_nat : n -> nat

  val of_nat : nat -> n
 end

val hd_error : 'a1 list -> 'a1 option

val tl : 'a1 list -> 'a1 list

val nth : nat -> 'a1 list -> 'a1 -> 'a1

val nth_error : 'a1 list -> nat -> 'a1 option

val rev : 'a1 list -> 'a1 list

val rev_append : 'a1 list -> 'a1 list -> 'a1 list

val concat : 'a1 list list -> 'a1 list

val map : ('a1 -> 'a2) -> 'a1 list -> 'a2 list

val flat_map : ('a1 -> 'a2 list) -> 'a1 list -> 'a2 list

val fold_left : ('a1 -> 'a2 -> 'a1) -> 'a2 list -> 'a1 -> 'a1

val fold_right : ('a2 -> 'a1 -> 'a1) -> 'a1 -> 'a2 list -> 'a1

val existsb : ('a1 -> bool) -> 'a1 list -> bool

val forallb : ('a1 -> bool) -> 'a1 list -> bool

val filter : ('a1 -> bool) -> 'a1 list -> 'a1 list

val combine : 'a1 list -> 'a2 list -> ('a1 * 'a2) list

val firstn : nat -> 'a1 list -> 'a1 list

val skipn : nat -> 'a1 list -> 'a1 list

val repeat : 'a1 -> nat -> 'a1 list

module Z :
 sig
  val double : z -> z

  val succ_double : z -> z

  val pred_double : z -> z

  val pos_sub : positive -> positive -> z

  val add : z -> z -> z

  val opp : z -> z

  val sub : z -> z -> z

  val mul : z -> z -> z

  val compare : z -> z -> comparison

  val leb : z -> z -> bool

  val ltb : z -> z -> bool

  val eqb : z -> z -> bool

  val to_N : z -> n

  val of_N : n -> z

  val pos_div_eucl : positive -> z -> z * z

  val div_eucl : z -> z -> z * z

  val modulo : z -> z -> z
 end

type 'a res =
| Ok of 'a
| Panic

val bind : 'a1 res -> ('a1 -> 'a2 res) -> 'a2 res

type cfg = { dbg : bool; intr : bool }

val w : n

val mASK64 : n

val wrap : n -> n

val add0 : cfg -> n -> n -> n res

val sub0 : cfg -> n -> n -> n res

val mul0 : cfg -> n -> n -> n res

val shl : cfg -> n -> n -> n res

val shr : cfg -> n -> n -> n res

val wmul : n -> n -> n

val wshl : n -> n -> n

val not64 : n -> n

val div_ : n -> n -> n res

val lenN : 'a1 list -> n

val nthN : 'a1 list -> n -> 'a1 -> 'a1

val idx : 'a1 -> 'a1 list -> n -> 'a1 res

val unwrap : 'a1 option -> 'a1 res

val assert_ : bool -> unit res

val dassert : cfg -> bool -> unit res

val fold_res : ('a1 -> 'a2 -> 'a1 res) -> 'a2 list -> 'a1 -> 'a1 res

val map_res : ('a1 -> 'a2 res) -> 'a1 list -> 'a2 list res

val iter_fuel : nat -> ('a1 -> ('a1, 'a2) sum res) -> 'a1 -> 'a2 res

val set_nth : nat -> 'a1 list -> 'a1 -> 'a1 list

val setN : 'a1 list -> n -> 'a1 -> 'a1 list

val b2n : bool -> n

val last_opt : 'a1 list -> 'a1 option

val nseq_from : n -> nat -> n list

val nseq : n -> n list

val popcP : positive -> n

val popcN : n -> n

val ctzP : positive -> n

val ctz64 : n -> n

val clz64 : n -> n

val lsb_spec : n -> n option

val msb_spec : n -> n option

val selP : positive -> n -> n -> n option

val select_in_word_spec : n -> n -> n option

val bits_n : nat -> n -> bool list

val word_bits : n -> bool list

val access : bool list -> n -> bool option

val count : bool -> bool list -> n

val rank : bool -> bool list -> n -> n option

val positions_from : bool -> bool list -> n -> n list

val positions : bool -> bool list -> n list

val select : bool -> bool list -> n -> n option

val pred : bool -> bool list -> n -> n option

val succ0 : bool -> bool list -> n -> n option

val bits_val : bool list -> n

val get_bits : bool list -> n -> n -> n option

val get_word64 : bool list -> n -> n option

val nth_opt : n list -> n -> n option

val ef_select : n list -> n -> n option

val ef_delta : n list -> n -> n option

val ef_rank : n list -> n -> n -> n option

val ef_pred : n list -> n -> n -> n option

val ef_succ : n list -> n -> n -> n option

val ef_iter : n list -> n -> n list

val occurs_in : n list -> n -> n -> n -> bool

val binsearch_ok : n list -> n -> n -> n -> n option -> bool

val efb_accepts : n -> n -> n list -> n -> bool

val sub_seq : n list -> n -> n -> n list

val count_val : n -> n list -> n

val wm_rank_range : n list -> n -> n -> n -> n option

val positions_of_from : n -> n list -> n -> n list

val wm_select : n list -> n -> n -> n option

val insert_sorted : n -> n list -> n list

val sort : n list -> n list

val wm_quantile : n list -> n -> n -> n -> n option

val dedup_sorted : n list -> n list

val wm_intersect : n list -> (n * n) list -> n -> n list option

val bitlen : n -> n

val max_list : n list -> n

val reach : n list -> n -> n

val cost_from : n list -> n -> n list -> n

val cost : n list -> n list -> n

val compositions : nat -> n -> n list list

val sum_list : n list -> n

val admissible : n list -> n list -> n -> bool

val min_cost_brute : n list -> n -> n

val byte_levels : n list -> n

type ty =
| TU8
| TU16
| TU64
| TI64
| TBool
| TVec of ty
| TOpt of ty
| TStruct of ty list

type val0 =
| VNum of n
| VInt of z
| VBool of bool
| VVec of val0 list
| VOpt of val0 option
| VStruct of val0 list

val le_bytes : nat -> n -> n list

val le_val : n list -> n

val i64_to_n : z -> n

val n_to_i64 : n -> z

val ser : ty -> val0 -> n list

val read_le : nat -> n list -> (n * n list) option

val deser : ty -> n list -> (val0 * n list) option

val fixed_size : ty -> n option

val size0 : ty -> val0 -> n

type bitvec = { bv_words : n list; bv_len : n }

val wORD_LEN : n

val bv_empty : bitvec

val words_for : cfg -> n -> n res

val upd_last : ('a1 -> 'a1) -> 'a1 list -> 'a1 list

val len_mask : cfg -> n -> n res

val from_bit : cfg -> bool -> n -> bitvec res

val push_bit : cfg -> bitvec -> bool -> bitvec res

val from_bits : cfg -> bool list -> bitvec res

val extend : cfg -> bitvec -> bool list -> bitvec res

val get_bit : cfg -> bitvec -> n -> bool option res

val access0 : cfg -> bitvec -> n -> bool option res

val set_bit : cfg -> bitvec -> n -> bool -> (bitvec * bool) res

val get_bits0 : cfg -> bitvec -> n -> n -> n option res

val set_bits : cfg -> bitvec -> n -> n -> n -> (bitvec * bool) res

val push_bits : cfg -> bitvec -> n -> n -> (bitvec * bool) res

val pred_scan : cfg -> bool -> n list -> n -> n -> n option res

val predecessor : cfg -> bool -> bitvec -> n -> n option res

val predecessor1 : cfg -> bitvec -> n -> n option res

val predecessor0 : cfg -> bitvec -> n -> n option res

val succ_scan : cfg -> bool -> n -> n list -> n -> n -> n option res

val successor : cfg -> bool -> bitvec -> n -> n option res

val successor1 : cfg -> bitvec -> n -> n option res

val successor0 : cfg -> bitvec -> n -> n option res

val get_word0 : cfg -> bitvec -> n -> n option res

val rank1 : cfg -> bitvec -> n -> n option res

val rank0 : cfg -> bitvec -> n -> n option res

val num_ones : cfg -> bitvec -> n res

val select_scan :
  cfg -> bool -> n list -> n -> n -> n -> ((n * n) * n) option res

val select1 : cfg -> bitvec -> n -> n option res

val select0 : cfg -> bitvec -> n -> n option res

val iter_next : cfg -> bitvec -> n -> (n * bool option) res

val iter_size_hint : cfg -> n -> n -> (n * n) res

val bv_eqb : bitvec -> bitvec -> bool

type uiter = { u_pos : n; u_buf : n }

val unary_new : bitvec -> n -> uiter

val skip_scan :
  cfg -> bool -> n list -> n -> n -> n -> n -> ((n * n) * n) option res

val words_after : bitvec -> n -> n list

val skip1 : cfg -> bitvec -> uiter -> n -> (uiter * n option) res

val skip0 : cfg -> bitvec -> uiter -> n -> (uiter * n option) res

val next_scan : cfg -> n list -> n -> n -> (n * n option) res

val unary_next : cfg -> bitvec -> uiter -> (uiter * n option) res

val bLOCK_LEN : n

val sELECT_ONES_PER_HINT : n

val oNES_STEP_9 : n

val mSBS_STEP_9 : n

val iNV_COUNT_STEP_9 : n

type r9index = { r_len : n; r_brp : n list; r_h1 : n list option;
                 r_h0 : n list option }

type brstate = { s_i : n; s_next : n; s_cur : n; s_sub : n; s_brp : n list }

val build_rank_step : cfg -> brstate -> n -> brstate res

val pad_subranks : cfg -> nat -> n -> n -> n res

val build_rank : cfg -> bitvec -> r9index res

val num_ones0 : cfg -> r9index -> n res

val num_zeros : cfg -> r9index -> n res

val num_blocks : cfg -> r9index -> n res

val block_rank : cfg -> r9index -> n -> n res

val sub_block_ranks : cfg -> r9index -> n -> n res

val sub_block_rank : cfg -> r9index -> n -> n res

val block_rank0 : cfg -> r9index -> n -> n res

val hints_step :
  cfg -> bool -> r9index -> (n list * n) -> n -> (n list * n) res

val build_hints : cfg -> bool -> r9index -> n list res

val select1_hints : cfg -> r9index -> r9index res

val select0_hints : cfg -> r9index -> r9index res

val rank2 : cfg -> r9index -> bitvec -> n -> n option res

val rank3 : cfg -> r9index -> bitvec -> n -> n option res

val uleq_step_9 : cfg -> n -> n -> n res

val bisect_step : cfg -> bool -> r9index -> n -> (n * n) -> (n * n, n) sum res

val select_gen : cfg -> bool -> r9index -> bitvec -> n -> n option res

val select2 : cfg -> r9index -> bitvec -> n -> n option res

val select3 : cfg -> r9index -> bitvec -> n -> n option res

type r9sel = { r9_bv : bitvec; r9_rs : r9index }

val r9_new : cfg -> bitvec -> r9sel res

val r9_select1_hints : cfg -> r9sel -> r9sel res

val r9_select0_hints : cfg -> r9sel -> r9sel res

val r9_build : cfg -> bitvec -> bool -> bool -> r9sel res

val r9_num_bits : r9sel -> n

val r9_num_ones : cfg -> r9sel -> n res

val r9_num_zeros : cfg -> r9sel -> n res

val r9_access : cfg -> r9sel -> n -> bool option res

val r9_rank1 : cfg -> r9sel -> n -> n option res

val r9_rank0 : cfg -> r9sel -> n -> n option res

val r9_select1 : cfg -> r9sel -> n -> n option res

val r9_select0 : cfg -> r9sel -> n -> n option res

val dA_BLOCK_LEN : n

val sUBBLOCK_LEN : n

val mAX_IN_BLOCK_DISTANCE : n

type daindex = { d_block_inv : z list; d_sub_inv : n list;
                 d_overflow : n list; d_num_positions : n; d_over_one : 
                 bool }

type dastate = { t_cur : n list; t_cnt : n; t_binv : z list; t_sinv : 
                 n list; t_ovf : n list; t_num : n }

val step_by32 : nat -> n list -> n list

val flush_cur_block : cfg -> dastate -> dastate res

val word_step :
  cfg -> n -> ((dastate * n) * n) -> ((dastate * n) * n, dastate) sum res

val build_word : cfg -> bool -> n -> (dastate * n) -> n -> (dastate * n) res

val da_build : cfg -> bitvec -> bool -> daindex res

val da_scan : cfg -> bool -> n list -> n -> n -> n -> ((n * n) * n) res

val da_select : cfg -> daindex -> bitvec -> n -> n option res

type darray = { da_bv : bitvec; da_s1 : daindex; da_s0 : daindex option;
                da_r9 : r9index option }

val da_new : cfg -> bitvec -> darray res

val da_from_bits : cfg -> bool list -> darray res

val da_enable_rank : cfg -> darray -> darray res

val da_enable_select0 : cfg -> darray -> darray res

val da_build_cfg : cfg -> bitvec -> bool -> bool -> darray res

val da_num_bits : darray -> n

val da_num_ones : darray -> n

val da_num_zeros : cfg -> darray -> n res

val da_access : cfg -> darray -> n -> bool option res

val da_rank1 : cfg -> darray -> n -> n option res

val da_rank0 : cfg -> darray -> n -> n option res

val da_select1 : cfg -> darray -> n -> n option res

val da_select0 : cfg -> darray -> n -> n option res

val lINEAR_SCAN_THRESHOLD : n

type eliasfano = { ef_high : darray; ef_low : bitvec; ef_low_len : n;
                   ef_universe : n }

type efbuilder = { b_high : bitvec; b_low : bitvec; b_universe : n;
                   b_num_vals : n; b_pos : n; b_last : n; b_low_len : 
                   n }

val efb_new : cfg -> n -> n -> efbuilder option res

val efb_push : cfg -> efbuilder -> n -> (efbuilder * bool) res

val efb_extend : cfg -> efbuilder -> n list -> (efbuilder * bool) res

val bv_bits : cfg -> bitvec -> bool list res

val efb_build : cfg -> efbuilder -> eliasfano res

val ef_enable_rank : cfg -> eliasfano -> eliasfano res

val ef_len : eliasfano -> n

val ef_low_at : cfg -> eliasfano -> n -> n res

val ef_select0 : cfg -> eliasfano -> n -> n option res

val ef_delta0 : cfg -> eliasfano -> n -> n option res

val rank_step : cfg -> eliasfano -> n -> (n * n) -> (n * n, n) sum res

val ef_rank0 : cfg -> eliasfano -> n -> n option res

val ef_predecessor : cfg -> eliasfano -> n -> n option res

val ef_successor : cfg -> eliasfano -> n -> n option res

type efiter = { i_k : n; i_high : uiter option; i_low_buf : n;
                i_low_mask : n; i_chunks_in_word : n; i_chunks_avail : 
                n }

val efi_new : cfg -> eliasfano -> n -> efiter res

val efi_next : cfg -> eliasfano -> efiter -> (efiter * n option) res

val bs_step :
  cfg -> eliasfano -> n -> (n * n) -> (n * n, (n option, n * n) sum) sum res

val bs_linear : cfg -> eliasfano -> n -> nat -> n -> efiter -> n option res

val ef_binsearch_range : cfg -> eliasfano -> n -> n -> n -> n option res

val ef_binsearch : cfg -> eliasfano -> n -> n option res

val ef_from_bits : cfg -> bitvec -> eliasfano option res

type sarray = { sa_ef : eliasfano option; sa_num_bits : n; sa_num_ones : 
                n; sa_has_rank : bool }

val push_ones : cfg -> nat -> bitvec -> uiter -> efbuilder -> efbuilder res

val sa_from_bv : cfg -> bitvec -> sarray res

val sa_enable_rank : cfg -> sarray -> sarray res

val sa_access : cfg -> sarray -> n -> bool option res

val sa_rank1 : cfg -> sarray -> n -> n option res

val sa_rank0 : cfg -> sarray -> n -> n option res

val sa_select1 : cfg -> sarray -> n -> n option res

val sa_predecessor1 : cfg -> sarray -> n -> n option res

val sa_successor1 : cfg -> sarray -> n -> n option res

val needed_bits : cfg -> n -> n res

val ceiled_divide : cfg -> n -> n -> n res

type compvec = { cv_chunks : bitvec; cv_len : n; cv_width : n }

val cv_default : compvec

val width_ok : n -> bool

val cv_new : n -> compvec option

val cv_with_capacity : cfg -> n -> n -> compvec option res

val fits : cfg -> n -> n -> bool res

val cv_push_int : cfg -> compvec -> n -> (compvec * bool) res

val cv_extend : cfg -> compvec -> n list -> (compvec * bool) res

val cv_push_n : cfg -> nat -> compvec -> n -> compvec res

val cv_from_int : cfg -> n -> n -> n -> compvec option res

val cv_from_slice : cfg -> n list -> compvec option res

val cv_get_int : cfg -> compvec -> n -> n option res

val cv_access : cfg -> compvec -> n -> n option res

val cv_set_int : cfg -> compvec -> n -> n -> (compvec * bool) res

val cv_iter_next : cfg -> compvec -> n -> (n * n option) res

val cv_to_list : cfg -> compvec -> n list res

val cv_eqb : compvec -> compvec -> bool

val lEVEL_WIDTH : n

val lEVEL_MASK : n

type dacsbyte = { db_data : n list list; db_flags : r9sel list }

val db_default : dacsbyte

val upd_nth : 'a1 list -> n -> ('a1 -> 'a1) -> 'a1 -> 'a1 list

val db_push_levels :
  cfg -> nat -> n -> n -> n -> n list list -> bitvec list -> (n list
  list * bitvec list) res

val db_from_slice : cfg -> n list -> dacsbyte res

val db_len : cfg -> dacsbyte -> n res

val db_num_levels : dacsbyte -> n

val db_widths : dacsbyte -> n list

val db_access_loop : cfg -> nat -> dacsbyte -> n -> n -> n -> n res

val db_access : cfg -> dacsbyte -> n -> n option res

val db_iter_next : cfg -> dacsbyte -> n -> (n * n option) res

type dacsopt = { do_data : compvec list; do_flags : r9sel list }

val do_default : dacsopt

val nums_ints : cfg -> n -> n list -> n list res

val dp_cell : cfg -> n -> n list -> n list -> n -> (n * n) res

val dp_column : cfg -> n -> n list -> n list -> (n list * n list) res

val dp_columns :
  cfg -> nat -> n -> n list -> n list list -> n list list -> (n list list * n
  list list) res

val walk_widths :
  cfg -> nat -> n -> n -> n list list -> n -> n -> n list -> ((n * n) * n
  list) res

val compute_opt_widths : cfg -> n list -> n -> n list res

val do_push_levels :
  cfg -> n list -> n -> n -> n -> compvec list -> bitvec list -> (compvec
  list * bitvec list) res

val do_build : cfg -> n list -> n list -> dacsopt res

val do_from_slice : cfg -> n list -> n option -> dacsopt option res

val do_len : cfg -> dacsopt -> n res

val do_num_levels : dacsopt -> n

val do_widths : dacsopt -> n list

val do_access_loop : cfg -> nat -> dacsopt -> n -> n -> n -> n -> n res

val do_access : cfg -> dacsopt -> n -> n option res

val do_iter_next : cfg -> dacsopt -> n -> (n * n option) res

type psef =
  eliasfano
  (* singleton inductive, whose constructor was Build_psef *)

val ps_ef : psef -> eliasfano

val ps_from_slice : cfg -> n list -> psef option res

val ps_len : psef -> n

val ps_sum : cfg -> psef -> n res

val ps_access : cfg -> psef -> n -> n option res

val ps_iter_next : cfg -> psef -> n -> (n * n option) res

type bkind =
| KRank9
| KDArray
| KBitVec

type backing =
| BRank9 of r9sel
| BDArray of darray
| BBitVec of bitvec

val b_build : cfg -> bkind -> bitvec -> backing res

val b_num_bits : backing -> n

val b_num_ones : cfg -> backing -> n res

val b_num_zeros : cfg -> backing -> n res

val b_access : cfg -> backing -> n -> bool option res

val b_rank1 : cfg -> backing -> n -> n option res

val b_rank0 : cfg -> backing -> n -> n option res

val b_select1 : cfg -> backing -> n -> n option res

val b_select0 : cfg -> backing -> n -> n option res

type wavelet = { wm_layers : backing list; wm_alph_size : n }

val wm_filter :
  cfg -> n -> n -> ((n list * n list) * bitvec) -> n -> ((n list * n
  list) * bitvec) res

val wm_layers_build :
  cfg -> bkind -> n -> nat -> n -> n list -> n list -> backing list ->
  backing list res

val wm_new : cfg -> bkind -> n list -> wavelet option res

val wm_len : wavelet -> n

val wm_alph_width : wavelet -> n

val wm_access : cfg -> wavelet -> n -> n option res

val get_msb : cfg -> n -> n -> n -> bool res

val wm_rank_range0 : cfg -> wavelet -> n -> n -> n -> n option res

val wm_rank : cfg -> wavelet -> n -> n -> n option res

val select_helper :
  cfg -> n -> backing list -> n -> n -> n -> n -> n option res

val wm_select0 : cfg -> wavelet -> n -> n -> n option res

val wm_quantile0 : cfg -> wavelet -> n -> n -> n -> n option res

val split_ranges :
  cfg -> backing -> (n * n) list -> (n * n) list -> (n * n) list -> ((n * n)
  list * (n * n) list) option res

val intersect_helper :
  cfg -> backing list -> (n * n) list -> n -> n -> n list option res

val wm_intersect0 : cfg -> wavelet -> (n * n) list -> n -> n list option res

val wm_iter_next : cfg -> wavelet -> n -> (n * n option) res

val v_nums : n list -> val0

val v_optnums : n list option -> val0

val v_bitvec : bitvec -> val0

val v_r9index : r9index -> val0

val v_r9sel : r9sel -> val0

val v_daindex : daindex -> val0

val v_darray : darray -> val0

val v_ef : eliasfano -> val0

val v_sarray : sarray -> val0

val v_compvec : compvec -> val0

val v_dacsbyte : dacsbyte -> val0

val v_dacsopt : dacsopt -> val0

val v_psef : psef -> val0

val v_backing : backing -> val0

val v_wavelet : wavelet -> val0

val oNES_STEP_4 : n

val oNES_STEP_8 : n

val mSBS_STEP_8 : n

val dEBRUIJN64 : n

val sELECT_IN_BYTE : n list

val dEBRUIJN64_MAPPING : n list

val intrinsics_popcount : cfg -> n -> n res

val intrinsics_bsf64 : cfg -> n -> n option res

val intrinsics_bsr64 : cfg -> n -> n option res

val byte_counts : cfg -> n -> n res

val bytes_sum : cfg -> n -> n res

val popcount : cfg -> n -> n res

val select_in_word : cfg -> n -> n -> n option res

val bit_position : cfg -> n -> n res

val lsb : cfg -> n -> n option res

val msb : cfg -> n -> n option res

val ty_BitVector : ty

val ty_Rank9SelIndex : ty

val ty_Rank9Sel : ty

val ty_DArrayIndex : ty

val ty_DArray : ty

val ty_EliasFano : ty

val ty_SArray : ty

val ty_CompactVector : ty

val ty_DacsByte : ty

val ty_DacsOpt : ty

val ty_PrefixSummedEliasFano : ty

val ty_WaveletMatrix_Rank9Sel : ty

val ty_WaveletMatrix_DArray : ty

val ty_WaveletMatrix_BitVector : ty

type rv =
| RNone
| RNum of n
| RBool of bool
| RErr
| RPanic
| ROk
| RNums of n list
| RBytes of n list

type sres =
| SExact of rv
| SPred of (rv -> bool)
| SAny

val rv_on : ('a1 -> rv) -> 'a1 option res -> rv

val rv_optnum : n option res -> rv

val rv_optbool : bool option res -> rv

val rv_num : n res -> rv

val sp_on : ('a1 -> rv) -> 'a1 option -> sres

val sp_optnum : n option -> sres

val sp_optbool : bool option -> sres

val arg : n list -> nat -> n

val nz : n -> bool

val bits_of_words : n list -> n -> bool list

val bools : n list -> bool list

type dstate =
| DNone
| DBitVec of bitvec * bool list * uiter * n * n
| DR9 of r9sel * bool list
| DDA of darray * bool list
| DSA of sarray * bool list
| DEFB of efbuilder * n * n * n list
| DEF of eliasfano * n * n list * efiter * n list
| DCV of compvec * n list * n
| DDO of dacsopt * n list * n * n
| DDB of dacsbyte * n list * n
| DPS of psef * n list * n
| DWM of wavelet * bkind * n list * n
| DBroad
| DWrap
| DBig of bitvec * bool
| DSer of dstate * ty * val0 * n list * n

val st_val : dstate -> (ty * val0) option

val val_eqb : val0 -> val0 -> bool

val nums_eqb : n list -> n list -> bool

val lg_floor_ratio : n -> n -> n

val round64 : n -> n

val bound_ok : dstate -> n -> bool

val ser_step :
  dstate -> ty -> val0 -> n list -> n -> n -> n list -> (rv * sres) option

val mut_rv : (bitvec * bool) res -> bitvec -> bitvec * rv

val bits_n_of : nat -> n -> bool list

val overwrite : bool list -> nat -> bool list -> bool list

val step_bitvec :
  cfg -> bitvec -> bool list -> uiter -> n -> n -> n -> n list -> n list list
  -> (dstate * rv) * sres

val step_r9 : cfg -> r9sel -> bool list -> n -> n list -> rv * sres

val step_da : cfg -> darray -> bool list -> n -> n list -> rv * sres

val step_sa : cfg -> sarray -> bool list -> n -> n list -> rv * sres

val step_efb :
  cfg -> efbuilder -> n -> n -> n list -> n -> n list -> n list list ->
  (dstate * rv) * sres

val step_ef :
  cfg -> eliasfano -> n -> n list -> efiter -> n list -> n -> n list ->
  (dstate * rv) * sres

val fitsb : n -> n -> bool

val cv_mut : (compvec * bool) res -> compvec -> compvec * rv

val step_cv :
  cfg -> compvec -> n list -> n -> n -> n list -> n list list ->
  (dstate * rv) * sres

val hint_pred : n -> sres

val hint_rv : cfg -> n -> n -> rv

val widths_ok : n list -> n -> rv -> bool

val step_do :
  cfg -> dacsopt -> n list -> n -> n -> n -> n list -> (dstate * rv) * sres

val step_db :
  cfg -> dacsbyte -> n list -> n -> n -> n list -> (dstate * rv) * sres

val step_ps :
  cfg -> psef -> n list -> n -> n -> n list -> (dstate * rv) * sres

val pairs : n list -> (n * n) list

val step_wm :
  cfg -> wavelet -> bkind -> n list -> n -> n -> n list -> n list list ->
  (dstate * rv) * sres

val step_broad : cfg -> n -> n list -> rv * sres

val init : cfg -> n -> n list -> n list list -> (dstate * rv) * sres

val step1 :
  cfg -> dstate -> n -> n list -> n list list -> (dstate * rv) * sres

val nth_default : cfg -> dstate -> n -> nat -> (dstate * rv) * sres

val drain :
  cfg -> dstate -> n -> nat -> n -> rv -> bool -> (dstate * (n * rv)
  res) * bool

val step : cfg -> dstate -> n -> n list -> n list list -> (dstate * rv) * sres
