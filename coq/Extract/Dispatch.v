(* Extract/Dispatch.v — the correspondence driver's brain (DESIGN.md section 5.2).
   `step` runs one transcript line on the MODEL and on the SPEC; the OCaml driver only parses
   lines, calls `step`, and compares both answers with the implementation's.  Operation codes
   are shared with harness/src/main.rs.  Nothing here is used by a theorem. *)
From Sucds Require Import Base.Res Spec.WordSpec Spec.BitSpec Spec.SeqSpec Spec.DacSpec Spec.FormatSpec
  Model.BitVector Model.Unary Model.Rank9 Model.DArray Model.EliasFano Model.SArray
  Model.CompactVector Model.Dacs Model.Psef Model.Wavelet Model.Serial
  gen.BroadwordGen gen.SerialGen.
Open Scope N_scope.

Inductive rv :=
  | RNone | RNum (n : N) | RBool (b : bool) | RErr | RPanic | ROk
  | RNums (l : list N) | RBytes (l : list N).

Inductive sres := SExact (r : rv) | SPred (p : rv -> bool) | SAny.

Definition rv_on {A} (f : A -> rv) (r : res (option A)) : rv :=
  match r with Panic => RPanic | Ok None => RNone | Ok (Some a) => f a end.
Definition rv_optnum := rv_on RNum.
Definition rv_optbool := rv_on RBool.
Definition rv_num (r : res N) : rv := match r with Panic => RPanic | Ok n => RNum n end.
Definition sp_on {A} (f : A -> rv) (o : option A) : sres :=
  SExact (match o with None => RNone | Some a => f a end).
Definition sp_optnum := sp_on RNum.
Definition sp_optbool := sp_on RBool.

Definition arg (args : list N) (i : nat) : N := nth i args 0.
Definition nz (n : N) : bool := negb (n =? 0).

Definition bits_of_words (ws : list N) (len : N) : list bool :=
  firstn (N.to_nat len) (flat_map word_bits ws).
Definition bools (l : list N) : list bool := map nz l.

Inductive dstate :=
  | DNone
  | DBitVec (m : bitvec) (s : list bool) (ui : uiter) (ucur : N) (itpos : N)
  | DR9 (m : r9sel) (s : list bool)
  | DDA (m : darray) (s : list bool)
  | DSA (m : sarray) (s : list bool)
  | DEFB (m : efbuilder) (u mm : N) (acc : list N)
  | DEF (m : eliasfano) (u : N) (xs : list N) (it : efiter) (itleft : list N)
  | DCV (m : compvec) (xs : list N) (itpos : N)
  | DDO (m : dacsopt) (xs : list N) (ml : N) (itpos : N)
  | DDB (m : dacsbyte) (xs : list N) (itpos : N)
  | DPS (m : psef) (xs : list N) (itpos : N)
  | DWM (m : wavelet) (k : bkind) (xs : list N) (itpos : N)
  | DBroad
  | DWrap                                (* primitive / Option / Vec wrappers: the harness checks them against its own reference encoder *)
  | DBig (m : bitvec) (bit : bool)       (* large from_bit vector: no spec list is materialised *)
  | DSer (inner : dstate) (t : ty) (v : val) (bytes : list N) (sz : N).   (* cached serialization *)

(* ---------------- serialization ops, shared by all kinds ---------------- *)
Definition st_val (st : dstate) : option (ty * val) :=
  match st with
  | DBitVec m _ _ _ _ => Some (ty_BitVector, v_bitvec m)
  | DBig m _ => Some (ty_BitVector, v_bitvec m)
  | DR9 m _ => Some (ty_Rank9Sel, v_r9sel m)
  | DDA m _ => Some (ty_DArray, v_darray m)
  | DSA m _ => Some (ty_SArray, v_sarray m)
  | DEF m _ _ _ _ => Some (ty_EliasFano, v_ef m)
  | DCV m _ _ => Some (ty_CompactVector, v_compvec m)
  | DDO m _ _ _ => Some (ty_DacsOpt, v_dacsopt m)
  | DDB m _ _ => Some (ty_DacsByte, v_dacsbyte m)
  | DPS m _ _ => Some (ty_PrefixSummedEliasFano, v_psef m)
  | DWM m KRank9 _ _ => Some (ty_WaveletMatrix_Rank9Sel, v_wavelet m)
  | DWM m KDArray _ _ => Some (ty_WaveletMatrix_DArray, v_wavelet m)
  | DWM m KBitVec _ _ => Some (ty_WaveletMatrix_BitVector, v_wavelet m)
  | _ => None
  end.

Fixpoint val_eqb (a b : val) {struct a} : bool :=
  match a, b with
  | VNum x, VNum y => x =? y
  | VInt x, VInt y => (x =? y)%Z
  | VBool x, VBool y => Bool.eqb x y
  | VVec l, VVec m | VStruct l, VStruct m =>
      (fix go (l m : list val) : bool :=
         match l, m with
         | [], [] => true
         | x :: l', y :: m' => val_eqb x y && go l' m'
         | _, _ => false
         end) l m
  | VOpt None, VOpt None => true
  | VOpt (Some x), VOpt (Some y) => val_eqb x y
  | _, _ => false
  end.

Fixpoint nums_eqb (a b : list N) : bool :=
  match a, b with
  | [], [] => true
  | x :: a', y :: b' => (x =? y) && nums_eqb a' b'
  | _, _ => false
  end.

(* ---------------- C19: the documented space bounds, constants cleared ---------------- *)
Definition lg_floor_ratio (u n : N) : N :=            (* floor(lg(u/n)), 0 when u < n *)
  if n =? 0 then 0 else match msb_spec (u / n) with Some l => l | None => 0 end.
Definition round64 (b : N) : N := ((b + 63) / 64) * 64.

Definition bound_ok (st : dstate) (bytes : N) : bool :=
  let B := 8 * bytes in
  match st with
  | DBitVec m _ _ _ _ => B <=? round64 (bv_len m) + 256
  | DBig m _ => B <=? round64 (bv_len m) + 256
  | DCV m _ _ => B <=? round64 (cv_len m * cv_width m) + 256
  | DR9 m s => 100 * B <=? 132 * lenN s + 204800
  | DDA m s =>
      let sel := 1 + (match da_s0 m with Some _ => 1 | None => 0 end) in
      let r := match da_r9 m with Some _ => 1 | None => 0 end in
      100 * B <=? lenN s * (100 + 102 * sel + 26 * r) + 409600
  | DSA m s =>
      let n := BitSpec.count true s in
      B <=? n * lg_floor_ratio (lenN s) n + (if sa_has_rank m then 11 else 7) * n + 8192
  | DEF m u xs _ _ =>
      (* n = the number of values the builder was created for (EliasFanoBuilder::new's num_vals; equal to the
         number of stored values whenever the builder was filled, as from_bits / SArray / Psef always do),
         recovered from the length of the high vector: num_vals + 2 + (universe >> low_len) *)
      let n := da_num_bits (ef_high m) - 2 - N.shiftr u (ef_low_len m) in
      B <=? lenN xs * ef_low_len m + (match da_s0 (ef_high m) with Some _ => 11 | None => 7 end) * n + 8192
  | DPS m xs _ =>
      let n := lenN xs in
      B <=? n * ef_low_len (ps_ef m) + 7 * n + 8192
  | DDO m xs _ _ =>
      (* per level 1.32 * (chunk + flag bits stored on the level) + 2048, + 128 *)
      let levels := combine (do_data m) (map Some (do_flags m) ++ [None]) in
      let tot := fold_left (fun acc lv =>
                   let chunk := cv_len (fst lv) * cv_width (fst lv) in
                   let flag := match snd lv with Some f => r9_num_bits f | None => 0 end in
                   acc + 132 * (chunk + flag) + 204800) levels 0 in
      100 * B <=? tot + 12800
  | DDB m xs _ =>
      let levels := combine (db_data m) (map Some (db_flags m) ++ [None]) in
      let tot := fold_left (fun acc lv =>
                   let chunk := 8 * lenN (fst lv) in
                   let flag := match snd lv with Some f => r9_num_bits f | None => 0 end in
                   acc + 132 * (chunk + flag) + 204800) levels 0 in
      100 * B <=? tot + 12800
  | DWM m KRank9 xs _ => 100 * B <=? wm_alph_width m * (132 * lenN xs + 204800) + 12800
  | _ => true
  end.

Definition ser_step (st : dstate) (t : ty) (v : val) (bytes : list N) (sz : N) (code : N) (args : list N)
  : option (rv * sres) :=
      if code =? 99 then Some (RBytes bytes, SAny)
      else if code =? 98 then Some (RNum sz, SPred (fun r => match r with RNum b => bound_ok st b | _ => false end))
      else if code =? 97 then
        let n := arg args 0 in
        let r := match deser t (firstn (N.to_nat n) bytes) with None => RErr | Some _ => ROk end in
        Some (r, SExact (if n <? lenN bytes then RErr else ROk))
      else if code =? 96 then
        let n := arg args 0 in
        let r := if n <? sz then RErr else RNum sz in
        Some (r, SExact (if n <? lenN bytes then RErr else RNum (lenN bytes)))
      else if code =? 95 then
        let junk := [1; 2; 3] in
        let r := match deser t (bytes ++ junk) with
                 | Some (v', rest) => val_eqb v v' && nums_eqb rest junk
                 | None => false end in
        Some (RBool r, SExact (RBool true))
      else if (code =? 94) || (code =? 93) then Some (RBool true, SExact (RBool true))
      else None.

(* ---------------- kind 1: BitVector histories, iterators, unary iterator ---------------- *)
Definition mut_rv (r : res (bitvec * bool)) (old : bitvec) : bitvec * rv :=
  match r with Panic => (old, RPanic) | Ok (b, true) => (b, ROk) | Ok (b, false) => (b, RErr) end.

Fixpoint set_list {A} (n : nat) (l : list A) (x : A) : list A := set_nth n l x.
Fixpoint bits_n_of (n : nat) (v : N) : list bool :=
  match n with O => [] | S m => N.odd v :: bits_n_of m (N.div2 v) end.
Fixpoint overwrite (l : list bool) (pos : nat) (new : list bool) : list bool :=
  match pos, l with
  | O, _ => new ++ skipn (length new) l
  | S p, x :: r => x :: overwrite r p new
  | S _, [] => []
  end.

Definition step_bitvec (c : cfg) (m : bitvec) (s : list bool) (ui : uiter) (ucur itpos : N)
           (code : N) (args : list N) (data : list (list N)) : dstate * rv * sres :=
  let keep r sp := (DBitVec m s ui ucur itpos, r, sp) in
  let d0 := bools (nth 0 data []) in
  match code with
  | 1 => (* from_bit bit len *)
      match from_bit c (nz (arg args 0)) (arg args 1) with
      | Panic => keep RPanic (SExact ROk)
      | Ok m' => (DBitVec m' (repeat (nz (arg args 0)) (N.to_nat (arg args 1))) ui ucur itpos, ROk, SExact ROk)
      end
  | 2 => match from_bits c d0 with
         | Panic => keep RPanic (SExact ROk)
         | Ok m' => (DBitVec m' d0 ui ucur itpos, ROk, SExact ROk) end
  | 3 => match push_bit c m (nz (arg args 0)) with
         | Panic => keep RPanic (SExact ROk)
         | Ok m' => (DBitVec m' (s ++ [nz (arg args 0)]) ui ucur itpos, ROk, SExact ROk) end
  | 4 => (* push_bits bits len *)
      let '(m', r) := mut_rv (push_bits c m (arg args 0) (arg args 1)) m in
      let ok := arg args 1 <=? 64 in
      let s' := if ok then s ++ bits_n_of (N.to_nat (arg args 1)) (arg args 0) else s in
      (DBitVec m' s' ui ucur itpos, r, SExact (if ok then ROk else RErr))
  | 5 => (* set_bit pos bit *)
      let '(m', r) := mut_rv (set_bit c m (arg args 0) (nz (arg args 1))) m in
      let ok := arg args 0 <? lenN s in
      let s' := if ok then set_nth (N.to_nat (arg args 0)) s (nz (arg args 1)) else s in
      (DBitVec m' s' ui ucur itpos, r, SExact (if ok then ROk else RErr))
  | 6 => (* set_bits pos bits len *)
      let '(m', r) := mut_rv (set_bits c m (arg args 0) (arg args 1) (arg args 2)) m in
      let ok := (arg args 2 <=? 64) && (arg args 0 + arg args 2 <=? lenN s) in
      let s' := if ok then overwrite s (N.to_nat (arg args 0)) (bits_n_of (N.to_nat (arg args 2)) (arg args 1)) else s in
      (DBitVec m' s' ui ucur itpos, r, SExact (if ok then ROk else RErr))
  | 7 => match extend c m d0 with
         | Panic => keep RPanic (SExact ROk)
         | Ok m' => (DBitVec m' (s ++ d0) ui ucur itpos, ROk, SExact ROk) end
  | 10 => keep (RNum (bv_len m)) (SExact (RNum (lenN s)))
  | 11 => keep (rv_optbool (get_bit c m (arg args 0))) (sp_optbool (BitSpec.access s (arg args 0)))
  | 12 => keep (rv_optnum (get_bits c m (arg args 0) (arg args 1))) (sp_optnum (BitSpec.get_bits s (arg args 0) (arg args 1)))
  | 13 => keep (rv_optnum (get_word64 c m (arg args 0))) (sp_optnum (BitSpec.get_word64 s (arg args 0)))
  | 14 => keep (rv_optnum (BitVector.rank1 c m (arg args 0))) (sp_optnum (BitSpec.rank true s (arg args 0)))
  | 15 => keep (rv_optnum (BitVector.rank0 c m (arg args 0))) (sp_optnum (BitSpec.rank false s (arg args 0)))
  | 16 => keep (rv_optnum (BitVector.select1 c m (arg args 0))) (sp_optnum (BitSpec.select true s (arg args 0)))
  | 17 => keep (rv_optnum (BitVector.select0 c m (arg args 0))) (sp_optnum (BitSpec.select false s (arg args 0)))
  | 18 => keep (rv_optnum (predecessor1 c m (arg args 0))) (sp_optnum (BitSpec.pred true s (arg args 0)))
  | 19 => keep (rv_optnum (predecessor0 c m (arg args 0))) (sp_optnum (BitSpec.pred false s (arg args 0)))
  | 20 => keep (rv_optnum (successor1 c m (arg args 0))) (sp_optnum (BitSpec.succ true s (arg args 0)))
  | 21 => keep (rv_optnum (successor0 c m (arg args 0))) (sp_optnum (BitSpec.succ false s (arg args 0)))
  | 22 => keep (rv_num (BitVector.num_ones c m)) (SExact (RNum (BitSpec.count true s)))
  | 24 => (* iter().collect() as 0/1 list *)
      keep (match bv_bits c m with Panic => RPanic | Ok l => RNums (map b2n l) end) (SExact (RNums (map b2n s)))
  | 25 => (* self == from_bits(self.iter()) *)
      keep (match from_bits c s with Panic => RPanic | Ok m' => RBool (bv_eqb m m') end) (SExact (RBool true))
  | 30 => (* unary_iter(p), p <= len *)
      (DBitVec m s (unary_new m (arg args 0)) (arg args 0) itpos, ROk, SExact ROk)
  | 31 => (* next *)
      let sp := hd_error (filter (fun p => ucur <=? p) (BitSpec.positions true s)) in
      match unary_next c m ui with
      | Panic => keep RPanic (sp_optnum sp)
      | Ok (ui', r) =>
          (DBitVec m s ui' (match sp with Some q => q + 1 | None => ucur end) itpos,
           match r with Some q => RNum q | None => RNone end, sp_optnum sp)
      end
  | 32 | 33 => (* skip1 k / skip0 k: the k-th set/unset position at or after the cursor *)
      let v := code =? 32 in
      let cands := filter (fun p => ucur <=? p) (BitSpec.positions v s) in
      let sp := SeqSpec.nth_opt cands (arg args 0) in
      match (if v then skip1 c m ui (arg args 0) else skip0 c m ui (arg args 0)) with
      | Panic => keep RPanic (sp_optnum sp)
      | Ok (ui', r) =>
          (DBitVec m s ui' (match sp with Some q => q | None => ucur end) itpos,
           match r with Some q => RNum q | None => RNone end, sp_optnum sp)
      end
  | 40 => (DBitVec m s ui ucur 0, ROk, SExact ROk)
  | 41 => let sp := sp_optbool (BitSpec.access s itpos) in
          match iter_next c m itpos with
          | Panic => keep RPanic sp
          | Ok (p, r) => (DBitVec m s ui ucur p, match r with Some b => RBool b | None => RNone end, sp)
          end
  | 42 => let left := lenN s - itpos in
          keep (match iter_size_hint c (bv_len m) itpos with Panic => RPanic | Ok (a, b) => RNums [a; b] end)
               (SPred (fun r => match r with RNums [a; b] => (a <=? left) && (left <=? b) | _ => false end))
  | _ => keep RPanic SAny
  end.

(* ---------------- kinds 2,3,4: index structures built from a bit vector ---------------- *)
Definition step_r9 (c : cfg) (m : r9sel) (s : list bool) (code : N) (args : list N) : rv * sres :=
  match code with
  | 10 => (RNum (r9_num_bits m), SExact (RNum (lenN s)))
  | 11 => (rv_optbool (r9_access c m (arg args 0)), sp_optbool (BitSpec.access s (arg args 0)))
  | 14 => (rv_optnum (r9_rank1 c m (arg args 0)), sp_optnum (BitSpec.rank true s (arg args 0)))
  | 15 => (rv_optnum (r9_rank0 c m (arg args 0)), sp_optnum (BitSpec.rank false s (arg args 0)))
  | 16 => (rv_optnum (r9_select1 c m (arg args 0)), sp_optnum (BitSpec.select true s (arg args 0)))
  | 17 => (rv_optnum (r9_select0 c m (arg args 0)), sp_optnum (BitSpec.select false s (arg args 0)))
  | 22 => (rv_num (r9_num_ones c m), SExact (RNum (BitSpec.count true s)))
  | 23 => (rv_num (r9_num_zeros c m), SExact (RNum (BitSpec.count false s)))
  | _ => (RPanic, SAny)
  end.

Definition step_da (c : cfg) (m : darray) (s : list bool) (code : N) (args : list N) : rv * sres :=
  match code with
  | 10 => (RNum (da_num_bits m), SExact (RNum (lenN s)))
  | 11 => (rv_optbool (da_access c m (arg args 0)), sp_optbool (BitSpec.access s (arg args 0)))
  | 14 => (rv_optnum (da_rank1 c m (arg args 0)), sp_optnum (BitSpec.rank true s (arg args 0)))
  | 15 => (rv_optnum (da_rank0 c m (arg args 0)), sp_optnum (BitSpec.rank false s (arg args 0)))
  | 16 => (rv_optnum (da_select1 c m (arg args 0)), sp_optnum (BitSpec.select true s (arg args 0)))
  | 17 => (rv_optnum (da_select0 c m (arg args 0)), sp_optnum (BitSpec.select false s (arg args 0)))
  | 22 => (RNum (da_num_ones m), SExact (RNum (BitSpec.count true s)))
  | 23 => (rv_num (da_num_zeros c m), SExact (RNum (BitSpec.count false s)))
  | _ => (RPanic, SAny)
  end.

Definition step_sa (c : cfg) (m : sarray) (s : list bool) (code : N) (args : list N) : rv * sres :=
  match code with
  | 10 => (RNum (sa_num_bits m), SExact (RNum (lenN s)))
  | 11 => (rv_optbool (sa_access c m (arg args 0)), sp_optbool (BitSpec.access s (arg args 0)))
  | 14 => (rv_optnum (sa_rank1 c m (arg args 0)), sp_optnum (BitSpec.rank true s (arg args 0)))
  | 15 => (rv_optnum (sa_rank0 c m (arg args 0)), sp_optnum (BitSpec.rank false s (arg args 0)))
  | 16 => (rv_optnum (sa_select1 c m (arg args 0)), sp_optnum (BitSpec.select true s (arg args 0)))
  | 18 => (rv_optnum (sa_predecessor1 c m (arg args 0)), sp_optnum (BitSpec.pred true s (arg args 0)))
  | 20 => (rv_optnum (sa_successor1 c m (arg args 0)), sp_optnum (BitSpec.succ true s (arg args 0)))
  | 22 => (RNum (sa_num_ones m), SExact (RNum (BitSpec.count true s)))
  | _ => (RPanic, SAny)
  end.

(* ---------------- kind 5: EliasFanoBuilder histories, then the built EliasFano ---------------- *)
Definition step_efb (c : cfg) (m : efbuilder) (u mm : N) (acc : list N)
           (code : N) (args : list N) (data : list (list N)) : dstate * rv * sres :=
  let keep r sp := (DEFB m u mm acc, r, sp) in
  match code with
  | 50 => (* push v *)
      let v := arg args 0 in
      let ok := SeqSpec.efb_accepts u mm acc v in
      match efb_push c m v with
      | Panic => keep RPanic (SExact (if ok then ROk else RErr))
      | Ok (m', b) => (DEFB m' u mm (if ok then acc ++ [v] else acc), if b then ROk else RErr,
                       SExact (if ok then ROk else RErr))
      end
  | 51 => (* extend vs: stops at the first rejected item *)
      let vs := nth 0 data [] in
      (* the acceptance rule of SeqSpec.efb_accepts, with the last value and the count carried along
         (linear instead of quadratic in the number of items) *)
      let fix go (racc : list N) (last cnt : N) (vs : list N) : list N * bool :=
          match vs with
          | [] => (racc, true)
          | v :: r => if (last <=? v) && (v <? u) && (cnt <? mm) then go (v :: racc) v (cnt + 1) r else (racc, false)
          end in
      let go acc vs := let '(racc, ok) := go (rev_append acc []) (match last_opt acc with Some l => l | None => 0 end) (lenN acc) vs in
                       (rev_append racc [], ok) in
      let '(acc', ok) := go acc vs in
      match efb_extend c m vs with
      | Panic => keep RPanic (SExact (if ok then ROk else RErr))
      | Ok (m', b) => (DEFB m' u mm acc', if b then ROk else RErr, SExact (if ok then ROk else RErr))
      end
  | 52 => (* build (+ enable_rank if arg0) *)
      match (e <- efb_build c m ;; if nz (arg args 0) then ef_enable_rank c e else Ok e) with
      | Panic => keep RPanic (SExact ROk)
      | Ok e => match efi_new c e (lenN acc) with
                | Panic => keep RPanic (SExact ROk)
                | Ok it => (DEF e u acc it [], ROk, SExact ROk)
                end
      end
  | _ => keep RPanic SAny
  end.

Definition step_ef (c : cfg) (m : eliasfano) (u : N) (xs : list N) (it : efiter) (itleft : list N)
           (code : N) (args : list N) : dstate * rv * sres :=
  let keep r sp := (DEF m u xs it itleft, r, sp) in
  let a0 := arg args 0 in
  match code with
  | 10 => keep (RNum (ef_len m)) (SExact (RNum (lenN xs)))
  | 60 => keep (RNum (ef_universe m)) (SExact (RNum u))
  | 61 => keep (rv_optnum (ef_select c m a0)) (sp_optnum (SeqSpec.ef_select xs a0))
  | 62 => keep (rv_optnum (ef_delta c m a0)) (sp_optnum (SeqSpec.ef_delta xs a0))
  | 63 => keep (rv_optnum (ef_rank c m a0)) (sp_optnum (SeqSpec.ef_rank xs u a0))
  | 64 => keep (rv_optnum (ef_predecessor c m a0)) (sp_optnum (SeqSpec.ef_pred xs u a0))
  | 65 => keep (rv_optnum (ef_successor c m a0)) (sp_optnum (SeqSpec.ef_succ xs u a0))
  | 66 => keep (rv_optnum (ef_binsearch c m a0))
               (SPred (fun r => match r with
                                | RNone => SeqSpec.binsearch_ok xs 0 (lenN xs) a0 None
                                | RNum i => SeqSpec.binsearch_ok xs 0 (lenN xs) a0 (Some i)
                                | _ => false end))
  | 67 => let '(rs, re, v) := (arg args 0, arg args 1, arg args 2) in
          keep (rv_optnum (ef_binsearch_range c m rs re v))
               (SPred (fun r => match r with
                                | RNone => SeqSpec.binsearch_ok xs rs re v None
                                | RNum i => SeqSpec.binsearch_ok xs rs re v (Some i)
                                | _ => false end))
  | 68 => (* iter(k) *)
      match efi_new c m a0 with
      | Panic => keep RPanic (SExact ROk)
      | Ok it' => (DEF m u xs it' (SeqSpec.ef_iter xs a0), ROk, SExact ROk)
      end
  | 69 => (* next *)
      let sp := sp_optnum (hd_error itleft) in
      match efi_next c m it with
      | Panic => keep RPanic sp
      | Ok (it', r) => (DEF m u xs it' (tl itleft), match r with Some x => RNum x | None => RNone end, sp)
      end
  | _ => keep RPanic SAny
  end.

(* ---------------- kind 6: CompactVector histories ---------------- *)
Definition fitsb (w v : N) : bool := if w =? 64 then true else N.shiftr v w =? 0.
Definition cv_mut (r : res (compvec * bool)) (old : compvec) : compvec * rv :=
  match r with Panic => (old, RPanic) | Ok (b, true) => (b, ROk) | Ok (b, false) => (b, RErr) end.

Definition step_cv (c : cfg) (m : compvec) (xs : list N) (itpos : N)
           (code : N) (args : list N) (data : list (list N)) : dstate * rv * sres :=
  let keep r sp := (DCV m xs itpos, r, sp) in
  let w := cv_width m in
  let a0 := arg args 0 in
  match code with
  | 70 => (* new width *)
      let sp := SExact (if width_ok a0 then ROk else RErr) in
      match cv_new a0 with Some m' => (DCV m' [] 0, ROk, sp) | None => keep RErr sp end
  | 71 => (* with_capacity capa width *)
      let sp := SExact (if width_ok (arg args 1) then ROk else RErr) in
      match cv_with_capacity c a0 (arg args 1) with
      | Panic => keep RPanic sp
      | Ok (Some m') => (DCV m' [] 0, ROk, sp)
      | Ok None => keep RErr sp end
  | 72 => (* from_int val len width *)
      let '(v, l, wd) := (arg args 0, arg args 1, arg args 2) in
      let ok := width_ok wd && fitsb wd v in
      let sp := SExact (if ok then ROk else RErr) in
      match cv_from_int c v l wd with
      | Panic => keep RPanic sp
      | Ok (Some m') => (DCV m' (repeat v (N.to_nat l)) 0, ROk, sp)
      | Ok None => keep RErr sp end
  | 73 => (* from_slice data *)
      let vs := nth 0 data [] in
      match cv_from_slice c vs with
      | Panic => keep RPanic (SExact ROk)
      | Ok (Some m') => (DCV m' vs 0, ROk, SExact ROk)
      | Ok None => keep RErr (SExact ROk) end
  | 74 => (* push_int *)
      let ok := fitsb w a0 in
      let '(m', r) := cv_mut (cv_push_int c m a0) m in
      (DCV m' (if ok then xs ++ [a0] else xs) itpos, r, SExact (if ok then ROk else RErr))
  | 75 => (* set_int pos val *)
      let ok := (a0 <? lenN xs) && fitsb w (arg args 1) in
      let '(m', r) := cv_mut (cv_set_int c m a0 (arg args 1)) m in
      (DCV m' (if ok then set_nth (N.to_nat a0) xs (arg args 1) else xs) itpos, r, SExact (if ok then ROk else RErr))
  | 76 => (* extend data: keeps the items before the first misfit *)
      let vs := nth 0 data [] in
      let fix go (vs : list N) : list N * bool :=
          match vs with [] => ([], true)
          | v :: r => if fitsb w v then (let '(l, b) := go r in (v :: l, b)) else ([], false) end in
      let '(pre, ok) := go vs in
      let '(m', r) := cv_mut (cv_extend c m vs) m in
      (DCV m' (xs ++ pre) itpos, r, SExact (if ok then ROk else RErr))
  | 10 => keep (RNum (cv_len m)) (SExact (RNum (lenN xs)))
  | 77 => keep (RNum (cv_width m)) SAny
  | 78 => keep (rv_optnum (cv_get_int c m a0)) (sp_optnum (SeqSpec.nth_opt xs a0))
  | 79 => keep (match cv_to_list c m with Panic => RPanic | Ok l => RNums l end) (SExact (RNums xs))
  | 25 => (* equality with a vector of the same width and contents built by a fresh history *)
      keep (match (v <- unwrap (cv_new w) ;; r <- cv_extend c v xs ;; Ok (fst r)) with
            | Panic => RPanic | Ok m' => RBool (cv_eqb m m') end) (SExact (RBool true))
  | 40 => (DCV m xs 0, ROk, SExact ROk)
  | 41 => let sp := sp_optnum (SeqSpec.nth_opt xs itpos) in
          match cv_iter_next c m itpos with
          | Panic => keep RPanic sp
          | Ok (p, r) => (DCV m xs p, match r with Some b => RNum b | None => RNone end, sp) end
  | 42 => let left := lenN xs - itpos in
          keep (match iter_size_hint c (cv_len m) itpos with Panic => RPanic | Ok (a, b) => RNums [a; b] end)
               (SPred (fun r => match r with RNums [a; b] => (a <=? left) && (left <=? b) | _ => false end))
  | _ => keep RPanic SAny
  end.

(* ---------------- kinds 7,8,9,10: DacsOpt, DacsByte, Psef, WaveletMatrix ---------------- *)
Definition hint_pred (left : N) : sres :=
  SPred (fun r => match r with RNums [a; b] => (a <=? left) && (left <=? b) | _ => false end).
Definition hint_rv (c : cfg) (len pos : N) : rv :=
  match iter_size_hint c len pos with Panic => RPanic | Ok (a, b) => RNums [a; b] end.

Definition widths_ok (xs : list N) (ml : N) (r : rv) : bool :=
  match r with
  | RNums ws =>
      match xs with
      | [] => true
      | _ => DacSpec.admissible xs ws ml &&
             (if DacSpec.bitlen (DacSpec.max_list xs) <=? 14
              then DacSpec.cost xs ws =? DacSpec.min_cost_brute xs ml else true)
      end
  | _ => false
  end.

Definition step_do (c : cfg) (m : dacsopt) (xs : list N) (ml itpos : N) (code : N) (args : list N)
  : dstate * rv * sres :=
  let keep r sp := (DDO m xs ml itpos, r, sp) in
  let a0 := arg args 0 in
  match code with
  | 10 => keep (rv_num (do_len c m)) (SExact (RNum (lenN xs)))
  | 78 => keep (rv_optnum (do_access c m a0)) (sp_optnum (SeqSpec.nth_opt xs a0))
  | 80 => keep (RNum (do_num_levels m))
               (SPred (fun r => match r with RNum l => (1 <=? l) && (l <=? N.min ml 64) | _ => false end))
  | 81 => (* optimal <-> admissible and as cheap as the model's widths (C18_driver_form); for short bit lengths
             the brute-force minimum is compared as well *)
          let wm := do_widths m in
          keep (RNums wm)
               (SPred (fun r => widths_ok xs ml r &&
                                match r, xs with
                                | RNums ws, _ :: _ => DacSpec.cost xs ws =? DacSpec.cost xs wm
                                | _, _ => true end))
  | 40 => (DDO m xs ml 0, ROk, SExact ROk)
  | 41 => let sp := sp_optnum (SeqSpec.nth_opt xs itpos) in
          match do_iter_next c m itpos with
          | Panic => keep RPanic sp
          | Ok (p, r) => (DDO m xs ml p, match r with Some b => RNum b | None => RNone end, sp) end
  | 42 => keep (match do_len c m with Panic => RPanic | Ok n => hint_rv c n itpos end) (hint_pred (lenN xs - itpos))
  | _ => keep RPanic SAny
  end.

Definition step_db (c : cfg) (m : dacsbyte) (xs : list N) (itpos : N) (code : N) (args : list N)
  : dstate * rv * sres :=
  let keep r sp := (DDB m xs itpos, r, sp) in
  let a0 := arg args 0 in
  match code with
  | 10 => keep (rv_num (db_len c m)) (SExact (RNum (lenN xs)))
  | 78 => keep (rv_optnum (db_access c m a0)) (sp_optnum (SeqSpec.nth_opt xs a0))
  | 80 => keep (RNum (db_num_levels m)) (SExact (RNum (DacSpec.byte_levels xs)))
  | 81 => keep (RNums (db_widths m)) (SExact (RNums (repeat 8 (N.to_nat (DacSpec.byte_levels xs)))))
  | 40 => (DDB m xs 0, ROk, SExact ROk)
  | 41 => let sp := sp_optnum (SeqSpec.nth_opt xs itpos) in
          match db_iter_next c m itpos with
          | Panic => keep RPanic sp
          | Ok (p, r) => (DDB m xs p, match r with Some b => RNum b | None => RNone end, sp) end
  | 42 => keep (match db_len c m with Panic => RPanic | Ok n => hint_rv c n itpos end) (hint_pred (lenN xs - itpos))
  | _ => keep RPanic SAny
  end.

Definition step_ps (c : cfg) (m : psef) (xs : list N) (itpos : N) (code : N) (args : list N)
  : dstate * rv * sres :=
  let keep r sp := (DPS m xs itpos, r, sp) in
  let a0 := arg args 0 in
  match code with
  | 10 => keep (RNum (ps_len m)) (SExact (RNum (lenN xs)))
  | 78 => keep (rv_optnum (ps_access c m a0)) (sp_optnum (SeqSpec.nth_opt xs a0))
  | 82 => keep (rv_num (ps_sum c m)) (SExact (RNum (DacSpec.sum_list xs)))
  | 40 => (DPS m xs 0, ROk, SExact ROk)
  | 41 => let sp := sp_optnum (SeqSpec.nth_opt xs itpos) in
          match ps_iter_next c m itpos with
          | Panic => keep RPanic sp
          | Ok (p, r) => (DPS m xs p, match r with Some b => RNum b | None => RNone end, sp) end
  | 42 => keep (hint_rv c (ps_len m) itpos) (hint_pred (lenN xs - itpos))
  | _ => keep RPanic SAny
  end.

Fixpoint pairs (l : list N) : list (N * N) :=
  match l with a :: b :: r => (a, b) :: pairs r | _ => [] end.

Definition step_wm (c : cfg) (m : wavelet) (k : bkind) (xs : list N) (itpos : N)
           (code : N) (args : list N) (data : list (list N)) : dstate * rv * sres :=
  let keep r sp := (DWM m k xs itpos, r, sp) in
  let a0 := arg args 0 in
  let a1 := arg args 1 in
  match code with
  | 10 => keep (RNum (wm_len m)) (SExact (RNum (lenN xs)))
  | 83 => keep (RNum (wm_alph_size m)) (SExact (RNum (DacSpec.max_list xs + 1)))
  | 78 => keep (rv_optnum (wm_access c m a0)) (sp_optnum (SeqSpec.nth_opt xs a0))
  | 84 => keep (rv_optnum (wm_rank c m a0 a1)) (sp_optnum (SeqSpec.wm_rank_range xs 0 a0 a1))
  | 85 => keep (rv_optnum (wm_rank_range c m a0 a1 (arg args 2))) (sp_optnum (SeqSpec.wm_rank_range xs a0 a1 (arg args 2)))
  | 86 => keep (rv_optnum (wm_select c m a0 a1)) (sp_optnum (SeqSpec.wm_select xs a0 a1))
  | 87 => keep (rv_optnum (wm_quantile c m a0 a1 (arg args 2))) (sp_optnum (SeqSpec.wm_quantile xs a0 a1 (arg args 2)))
  | 88 => let rs := pairs (nth 0 data []) in
          keep (rv_on RNums (wm_intersect c m rs a0)) (sp_on RNums (SeqSpec.wm_intersect xs rs a0))
  | 40 => (DWM m k xs 0, ROk, SExact ROk)
  | 41 => let sp := sp_optnum (SeqSpec.nth_opt xs itpos) in
          match wm_iter_next c m itpos with
          | Panic => keep RPanic sp
          | Ok (p, r) => (DWM m k xs p, match r with Some b => RNum b | None => RNone end, sp) end
  | 42 => keep (hint_rv c (wm_len m) itpos) (hint_pred (lenN xs - itpos))
  | _ => keep RPanic SAny
  end.

(* ---------------- kind 11: broadword primitives (generated code vs. spec) ---------------- *)
Definition step_broad (c : cfg) (code : N) (args : list N) : rv * sres :=
  let x := arg args 0 in
  match code with
  | 90 => (rv_num (popcount c x), SExact (RNum (popcN x)))
  | 91 => (rv_optnum (lsb c x), sp_optnum (lsb_spec x))
  | 92 => (rv_optnum (msb c x), sp_optnum (msb_spec x))
  | 89 => (rv_optnum (select_in_word c x (arg args 1)), sp_optnum (select_in_word_spec x (arg args 1)))
  | _ => (RPanic, SAny)
  end.

(* ---------------- constructors: code 1000 + kind ---------------- *)
Definition init (c : cfg) (kind : N) (args : list N) (data : list (list N)) : dstate * rv * sres :=
  let ws := nth 0 data [] in
  let bvlen := arg args 0 in
  let bv := {| bv_words := ws; bv_len := bvlen |} in
  let bits := fun _ : unit => bits_of_words ws bvlen in
  let bad := (DNone, RPanic, SExact ROk) in
  match kind with
  | 1 => (DBitVec bv_empty [] (unary_new bv_empty 0) 0 0, ROk, SExact ROk)
  | 2 => (* Rank9Sel: args len h1 h0 *)
      match r9_build c bv (nz (arg args 1)) (nz (arg args 2)) with
      | Panic => bad | Ok m => (DR9 m (bits tt), ROk, SExact ROk) end
  | 3 => (* DArray: args len with_rank with_select0 *)
      match da_build_cfg c bv (nz (arg args 1)) (nz (arg args 2)) with
      | Panic => bad | Ok m => (DDA m (bits tt), ROk, SExact ROk) end
  | 4 => (* SArray: args len with_rank *)
      match (s <- sa_from_bv c bv ;; if nz (arg args 1) then sa_enable_rank c s else Ok s) with
      | Panic => bad | Ok m => (DSA m (bits tt), ROk, SExact ROk) end
  | 5 => (* EliasFanoBuilder::new(universe, num_vals) *)
      let sp := SExact (if arg args 1 =? 0 then RErr else ROk) in
      match efb_new c (arg args 0) (arg args 1) with
      | Panic => (DNone, RPanic, sp)
      | Ok None => (DNone, RErr, sp)
      | Ok (Some b) => (DEFB b (arg args 0) (arg args 1) [], ROk, sp) end
  | 6 => (DCV cv_default [] 0, ROk, SExact ROk)
  | 7 => (* DacsOpt::from_slice(vals, max_levels): args has_ml ml *)
      let mlo := if nz (arg args 0) then Some (arg args 1) else None in
      let ml := match mlo with Some x => x | None => 64 end in
      let sp := SExact (if (1 <=? ml) && (ml <=? 64) then ROk else RErr) in
      match do_from_slice c ws mlo with
      | Panic => (DNone, RPanic, sp)
      | Ok None => (DNone, RErr, sp)
      | Ok (Some m) => (DDO m ws ml 0, ROk, sp) end
  | 8 => match db_from_slice c ws with
         | Panic => bad | Ok m => (DDB m ws 0, ROk, SExact ROk) end
  | 9 => let sp := SExact (match ws with [] => RErr | _ => ROk end) in
         match ps_from_slice c ws with
         | Panic => (DNone, RPanic, sp)
         | Ok None => (DNone, RErr, sp)
         | Ok (Some m) => (DPS m ws 0, ROk, sp) end
  | 10 => (* WaveletMatrix: args backing(0 rank9, 1 darray, 2 bitvec) *)
      let k := if arg args 0 =? 0 then KRank9 else if arg args 0 =? 1 then KDArray else KBitVec in
      let sp := SExact (match ws with [] => RErr | _ => ROk end) in
      match wm_new c k ws with
      | Panic => (DNone, RPanic, sp)
      | Ok None => (DNone, RErr, sp)
      | Ok (Some m) => (DWM m k ws 0, ROk, sp) end
  | 11 => (DBroad, ROk, SExact ROk)
  | 14 => (DWrap, ROk, SExact ROk)
  | 13 => (* BitVector::from_bit(bit, len), large *)
      match from_bit c (nz (arg args 0)) (arg args 1) with
      | Panic => bad | Ok m => (DBig m (nz (arg args 0)), ROk, SExact ROk) end
  | 12 => (* EliasFano::from_bits *)
      let sp := SExact (if (bvlen =? 0) || (BitSpec.count true (bits tt) =? 0) then RErr else ROk) in
      match ef_from_bits c bv with
      | Panic => (DNone, RPanic, sp)
      | Ok None => (DNone, RErr, sp)
      | Ok (Some e) =>
          let xs := BitSpec.positions true (bits tt) in
          match efi_new c e (lenN xs) with
          | Panic => (DNone, RPanic, sp)
          | Ok it => (DEF e bvlen xs it [], ROk, sp) end
      end
  | _ => (DNone, RPanic, SAny)
  end.

Definition step1 (c : cfg) (st : dstate) (code : N) (args : list N) (data : list (list N))
  : dstate * rv * sres :=
  if 1000 <=? code then init c (code - 1000) args data else
  if (match st with DWrap => true | _ => false end) then
    (* every wrapper sub-check must hold *)
    (st, RBool true, SExact (RBool true))
  else
  if 93 <=? code then
    let cached := match st with
                  | DSer _ _ _ _ _ => Some st
                  | _ => match st_val st with
                         | Some (t, v) => Some (DSer st t v (ser t v) (size t v))
                         | None => None end
                  end in
    match cached with
    | Some (DSer inner t v bytes sz) =>
        match ser_step inner t v bytes sz code args with
        | Some (r, sp) => (DSer inner t v bytes sz, r, sp)
        | None => (st, RPanic, SAny)
        end
    | _ => (st, RPanic, SAny)
    end
  else
  let st := match st with DSer inner _ _ _ _ => inner | _ => st end in
  match st with
  | DNone => (st, RPanic, SAny)
  | DSer _ _ _ _ _ => (st, RPanic, SAny)
  | DBitVec m s ui ucur itpos => step_bitvec c m s ui ucur itpos code args data
  | DR9 m s => let '(r, sp) := step_r9 c m s code args in (st, r, sp)
  | DDA m s => let '(r, sp) := step_da c m s code args in (st, r, sp)
  | DSA m s => let '(r, sp) := step_sa c m s code args in (st, r, sp)
  | DEFB m u mm acc => step_efb c m u mm acc code args data
  | DEF m u xs it itleft => step_ef c m u xs it itleft code args
  | DCV m xs itpos => step_cv c m xs itpos code args data
  | DDO m xs ml itpos => step_do c m xs ml itpos code args
  | DDB m xs itpos => step_db c m xs itpos code args
  | DPS m xs itpos => step_ps c m xs itpos code args
  | DWM m k xs itpos => step_wm c m k xs itpos code args data
  | DBroad => let '(r, sp) := step_broad c code args in (st, r, sp)
  | DWrap => (st, RBool true, SExact (RBool true))
  | DBig m bit =>
      (* a constant vector: bit i = bit for i < len; rank1 i = (if bit then i else 0) for i <= len *)
      let a0 := arg args 0 in
      match code with
      | 11 => (st, rv_optbool (get_bit c m a0), SExact (if a0 <? bv_len m then RBool bit else RNone))
      | 14 => (st, match (x <- r9_new c m ;; r9_rank1 c x a0) with Panic => RPanic | Ok None => RNone | Ok (Some r) => RNum r end,
               SExact (if a0 <=? bv_len m then RNum (if bit then a0 else 0) else RNone))
      | _ => (st, RPanic, SAny)
      end
  end.

(* The provided methods of `Iterator` that no iterator of the crate overrides (the translator checks that):
   `nth(n)` = up to n calls of next() that stop at the first None, then one more next(); `count()` = the number
   of Some answers before the first None; `last()` = the last Some answer.  They are executed on the model (and
   on the spec) through the `next` operation `nx` of the iterator at hand (41, 69 or 31). *)
Fixpoint nth_default (c : cfg) (st : dstate) (nx : N) (fuel : nat) : dstate * rv * sres :=
  let '(st', r, sp) := step1 c st nx [] [] in
  match fuel with
  | O => (st', r, sp)
  | S f => match r with
           | RNone | RPanic => (st', r, sp)
           | _ => nth_default c st' nx f
           end
  end.

Definition sres_eval (sp : sres) (r : rv) : option rv :=
  match sp with SExact x => Some x | SPred p => if p r then Some r else None | SAny => Some r end.

(* drain: returns (state, model count, model last, spec agreed so far) *)
Fixpoint drain (c : cfg) (st : dstate) (nx : N) (fuel : nat) (cnt : N) (last : rv) (ok : bool)
  : dstate * res (N * rv) * bool :=
  match fuel with
  | O => (st, Panic, ok)
  | S f =>
      let '(st', r, sp) := step1 c st nx [] [] in
      let ok' := ok && match sp with SExact x => match x, r with
                                                  | RNone, RNone => true | RNum a, RNum b => a =? b
                                                  | RBool a, RBool b => Bool.eqb a b | _, _ => false end
                                | _ => true end in
      match r with
      | RNone => (st', Ok (cnt, last), ok')
      | RPanic => (st', Panic, ok')
      | _ => drain c st' nx f (cnt + 1) r ok'
      end
  end.

Definition step (c : cfg) (st : dstate) (code : N) (args : list N) (data : list (list N))
  : dstate * rv * sres :=
  match code with
  | 43 => nth_default c st (arg args 1) (N.to_nat (N.min (arg args 0) 200000))
  | 46 | 47 =>
      (* the model and the spec agree on every element (checked while draining), so the model's count / last
         is the specified one; a disagreement makes the expected answer unsatisfiable *)
      let '(st', r, ok) := drain c st (arg args 0) (N.to_nat 200001) 0 RNone true in
      let m := match r with Panic => RPanic | Ok (n, l) => if code =? 46 then RNum n else l end in
      (st', m, if ok then SExact m else SPred (fun _ => false))
  | _ => step1 c st code args data
  end.
