(* Extract/Extract.v — extraction of the driver's step function (model + spec) to OCaml.
   ExtrOcamlBasic only: bool, option, list, prod, unit, sumbool map to their OCaml counterparts;
   N / positive / nat / Z stay inductive; no Extract Constant. *)
From Coq Require Import ExtrOcamlBasic.
From Sucds Require Import Base.Res Extract.Dispatch.
Extraction Language OCaml.
Set Extraction AccessOpaque.
Extraction "model.ml" Dispatch.step Dispatch.rv Dispatch.sres Res.cfg.
