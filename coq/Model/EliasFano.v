(* Model/EliasFano.v — src/mii_sequences/elias_fano.rs and elias_fano/iter.rs
   (with the repairs of F8: binsearch_range checks its range, and F9: no debug_assert_ne in Iter::new). *)
From Sucds Require Import Base.Res Spec.WordSpec Model.BitVector Model.Unary Model.Rank9 Model.DArray.
Open Scope N_scope.

Definition LINEAR_SCAN_THRESHOLD : N := 64.

Record eliasfano := { ef_high : darray; ef_low : bitvec; ef_low_len : N; ef_universe : N }.

Record efbuilder := {
  b_high : bitvec; b_low : bitvec; b_universe : N; b_num_vals : N;
  b_pos : N; b_last : N; b_low_len : N }.

(* EliasFanoBuilder::new: None = Err *)
Definition efb_new (c : cfg) (universe num_vals : N) : res (option efbuilder) :=
  if num_vals =? 0 then Ok None else
  q <- div_ universe num_vals ;;
  let low_len := match msb_spec q with Some l => l | None => 0 end in
  a <- add c num_vals 1 ;;
  h <- shr c universe low_len ;;
  a <- add c a h ;;
  a <- add c a 1 ;;
  high <- from_bit c false a ;;
  Ok (Some {| b_high := high; b_low := bv_empty; b_universe := universe; b_num_vals := num_vals;
              b_pos := 0; b_last := 0; b_low_len := low_len |}).

Definition efb_push (c : cfg) (b : efbuilder) (val : N) : res (efbuilder * bool) :=
  if val <? b_last b then Ok (b, false) else
  if b_universe b <=? val then Ok (b, false) else
  if b_num_vals b <=? b_pos b then Ok (b, false) else
  t <- shl c 1 (b_low_len b) ;; low_mask <- sub c t 1 ;;
  low <- (if negb (b_low_len b =? 0) then
            (r <- push_bits c (b_low b) (N.land val low_mask) (b_low_len b) ;;
             _ <- assert_ (snd r) ;; Ok (fst r))
          else Ok (b_low b)) ;;
  h <- shr c val (b_low_len b) ;;
  p <- add c h (b_pos b) ;;
  r <- set_bit c (b_high b) p true ;;
  _ <- assert_ (snd r) ;;
  np <- add c (b_pos b) 1 ;;
  Ok ({| b_high := fst r; b_low := low; b_universe := b_universe b; b_num_vals := b_num_vals b;
         b_pos := np; b_last := val; b_low_len := b_low_len b |}, true).

(* extend: stops at the first rejected item *)
Fixpoint efb_extend (c : cfg) (b : efbuilder) (vals : list N) : res (efbuilder * bool) :=
  match vals with
  | [] => Ok (b, true)
  | x :: r => s <- efb_push c b x ;;
              if snd s then efb_extend c (fst s) r else Ok (fst s, false)
  end.

(* bits of a BitVector through its iterator *)
Definition bv_bits (c : cfg) (bv : bitvec) : res (list bool) :=
  map_res (fun i => x <- get_bit c bv i ;; unwrap x) (nseq (bv_len bv)).

Definition efb_build (c : cfg) (b : efbuilder) : res eliasfano :=
  bits <- bv_bits c (b_high b) ;;
  high <- da_from_bits c bits ;;
  Ok {| ef_high := high; ef_low := b_low b; ef_low_len := b_low_len b; ef_universe := b_universe b |}.

Definition ef_enable_rank (c : cfg) (e : eliasfano) : res eliasfano :=
  h <- da_enable_select0 c (ef_high e) ;;
  Ok {| ef_high := h; ef_low := ef_low e; ef_low_len := ef_low_len e; ef_universe := ef_universe e |}.

Definition ef_len (e : eliasfano) : N := da_num_ones (ef_high e).
Definition ef_low_at (c : cfg) (e : eliasfano) (k : N) : res N :=
  p <- mul c k (ef_low_len e) ;;
  x <- get_bits c (ef_low e) p (ef_low_len e) ;; unwrap x.

Definition ef_select (c : cfg) (e : eliasfano) (k : N) : res (option N) :=
  if ef_len e <=? k then Ok None else
  h <- da_select1 c (ef_high e) k ;; h <- unwrap h ;;
  d <- sub c h k ;;
  hi <- shl c d (ef_low_len e) ;;
  lo <- ef_low_at c e k ;;
  Ok (Some (N.lor hi lo)).

Definition ef_delta (c : cfg) (e : eliasfano) (k : N) : res (option N) :=
  if ef_len e <=? k then Ok None else
  h <- da_select1 c (ef_high e) k ;; high_val <- unwrap h ;;
  low_val <- ef_low_at c e k ;;
  if negb (k =? 0) then
    hm1 <- sub c high_val 1 ;;
    p <- predecessor1 c (da_bv (ef_high e)) hm1 ;; p <- unwrap p ;;
    t <- sub c high_val p ;; t <- sub c t 1 ;;
    t <- shl c t (ef_low_len e) ;;
    t <- add c t low_val ;;
    k1 <- sub c k 1 ;;
    prev <- ef_low_at c e k1 ;;
    x <- sub c t prev ;;
    Ok (Some x)
  else
    d <- sub c high_val k ;;
    hi <- shl c d (ef_low_len e) ;;
    Ok (Some (N.lor hi low_val)).

(* the backward scan of `rank` *)
Definition rank_step (c : cfg) (e : eliasfano) (l_pos : N) (st : N * N) : res (N * N + N) :=
  let '(rank, h_pos) := st in
  if 0 <? h_pos then
    hp1 <- sub c h_pos 1 ;;
    a <- da_access c (ef_high e) hp1 ;; a <- unwrap a ;;
    if a : bool then
      r1 <- sub c rank 1 ;;
      lo <- ef_low_at c e r1 ;;
      if l_pos <=? lo then Ok (inl (r1, hp1)) else Ok (inr rank)
    else Ok (inr rank)
  else Ok (inr rank).

Definition ef_rank (c : cfg) (e : eliasfano) (pos : N) : res (option N) :=
  if ef_universe e <? pos then Ok None else
  if ef_universe e =? pos then Ok (Some (ef_len e)) else
  h_rank <- shr c pos (ef_low_len e) ;;
  hp <- da_select0 c (ef_high e) h_rank ;; h_pos <- unwrap hp ;;
  rank <- sub c h_pos h_rank ;;
  t <- shl c 1 (ef_low_len e) ;; m <- sub c t 1 ;;
  let l_pos := N.land pos m in
  r <- iter_fuel (S (S (N.to_nat rank))) (rank_step c e l_pos) (rank, h_pos) ;;
  Ok (Some r).

Definition ef_predecessor (c : cfg) (e : eliasfano) (pos : N) : res (option N) :=
  if ef_universe e <=? pos then Ok None else
  p1 <- add c pos 1 ;;
  r <- ef_rank c e p1 ;; i <- unwrap r ;;
  if 0 <? i then (i1 <- sub c i 1 ;; s <- ef_select c e i1 ;; s <- unwrap s ;; Ok (Some s))
  else Ok None.

Definition ef_successor (c : cfg) (e : eliasfano) (pos : N) : res (option N) :=
  if ef_universe e <=? pos then Ok None else
  r <- ef_rank c e pos ;; i <- unwrap r ;;
  if i <? ef_len e then (s <- ef_select c e i ;; s <- unwrap s ;; Ok (Some s))
  else Ok None.

(* ---- Iter ---- *)
Record efiter := {
  i_k : N; i_high : option uiter; i_low_buf : N; i_low_mask : N;
  i_chunks_in_word : N; i_chunks_avail : N }.

Definition efi_new (c : cfg) (e : eliasfano) (k : N) : res efiter :=
  _ <- dassert c (ef_low_len e <? 64) ;;
  t <- shl c 1 (ef_low_len e) ;; low_mask <- sub c t 1 ;;
  ciw <- (if negb (ef_low_len e =? 0) then div_ 64 (ef_low_len e) else Ok 0) ;;
  let cav := if negb (ef_low_len e =? 0) then 0 else ef_len e in
  hi <- (if k <? ef_len e then
           (p <- da_select1 c (ef_high e) k ;; p <- unwrap p ;;
            Ok (Some (unary_new (da_bv (ef_high e)) p)))
         else Ok None) ;;
  Ok {| i_k := k; i_high := hi; i_low_buf := 0; i_low_mask := low_mask;
        i_chunks_in_word := ciw; i_chunks_avail := cav |}.

Definition efi_next (c : cfg) (e : eliasfano) (it : efiter) : res (efiter * option N) :=
  let hi0 := if i_k it =? ef_len e then None else i_high it in
  match hi0 with
  | None => Ok ({| i_k := i_k it; i_high := None; i_low_buf := i_low_buf it; i_low_mask := i_low_mask it;
                   i_chunks_in_word := i_chunks_in_word it; i_chunks_avail := i_chunks_avail it |}, None)
  | Some hit =>
      st <- (if i_chunks_avail it =? 0 then
               (p <- mul c (i_k it) (ef_low_len e) ;;
                w <- get_word64 c (ef_low e) p ;; w <- unwrap w ;;
                a <- sub c (i_chunks_in_word it) 1 ;; Ok (w, a))
             else (a <- sub c (i_chunks_avail it) 1 ;; Ok (i_low_buf it, a))) ;;
      let '(low_buf, avail) := st in
      r <- unary_next c (da_bv (ef_high e)) hit ;;
      high <- unwrap (snd r) ;;
      let low := N.land low_buf (i_low_mask it) in
      d <- sub c high (i_k it) ;;
      hs <- shl c d (ef_low_len e) ;;
      let ret := N.lor hs low in
      k1 <- add c (i_k it) 1 ;;
      lb <- shr c low_buf (ef_low_len e) ;;
      Ok ({| i_k := k1; i_high := Some (fst r); i_low_buf := lb; i_low_mask := i_low_mask it;
             i_chunks_in_word := i_chunks_in_word it; i_chunks_avail := avail |}, Some ret)
  end.

(* ---- binsearch ---- *)
Definition bs_step (c : cfg) (e : eliasfano) (val : N) (st : N * N) : res (N * N + (option N + N * N)) :=
  let '(lo, hi) := st in
  d <- sub c hi lo ;;
  if LINEAR_SCAN_THRESHOLD <? d then
    s <- add c lo hi ;;
    let mi := s / 2 in
    x <- ef_select c e mi ;; x <- unwrap x ;;
    if val =? x then Ok (inr (inl (Some mi))) else
    if val <? x then Ok (inl (lo, mi)) else (m1 <- add c mi 1 ;; Ok (inl (m1, hi)))
  else Ok (inr (inr (lo, hi))).

Fixpoint bs_linear (c : cfg) (e : eliasfano) (val : N) (n : nat) (i : N) (it : efiter) : res (option N) :=
  match n with
  | O => Ok None
  | S m =>
      r <- efi_next c e it ;;
      x <- unwrap (snd r) ;;
      if val =? x then Ok (Some i) else bs_linear c e val m (i + 1) (fst r)
  end.

Definition ef_binsearch_range (c : cfg) (e : eliasfano) (rs re val : N) : res (option N) :=
  if (re <=? rs) || (ef_len e <? re) then Ok None else
  r <- iter_fuel 66 (bs_step c e val) (rs, re) ;;
  match r with
  | inl found => Ok found
  | inr (lo, hi) =>
      it <- efi_new c e lo ;;
      bs_linear c e val (N.to_nat (hi - lo)) lo it
  end.
Definition ef_binsearch (c : cfg) (e : eliasfano) (val : N) : res (option N) :=
  ef_binsearch_range c e 0 (ef_len e) val.

(* EliasFano::from_bits: None = Err *)
Definition ef_from_bits (c : cfg) (bv : bitvec) : res (option eliasfano) :=
  if bv_len bv =? 0 then Ok None else
  let n := bv_len bv in
  m <- fold_res (fun acc w => add c acc (popcN w)) (bv_words bv) 0 ;;
  if m =? 0 then Ok None else
  b <- efb_new c n m ;; b <- unwrap b ;;
  b <- fold_res (fun b i => x <- BitVector.access c bv i ;; x <- unwrap x ;;
                   if x : bool then (r <- efb_push c b i ;; _ <- assert_ (snd r) ;; Ok (fst r)) else Ok b)
         (nseq n) b ;;
  e <- efb_build c b ;; Ok (Some e).
