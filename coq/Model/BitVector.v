(* Model/BitVector.v — src/bit_vectors/bit_vector.rs, function by function.
   Word primitives are the spec-level ones (C14 proves the generated broadword code equal to
   them for every word and every configuration). *)
From Sucds Require Import Base.Res Spec.WordSpec.
Open Scope N_scope.

Record bitvec := { bv_words : list N; bv_len : N }.

Definition WORD_LEN : N := 64.
Definition bv_empty : bitvec := {| bv_words := []; bv_len := 0 |}.   (* new / default / with_capacity *)

(* (n + WORD_LEN - 1) / WORD_LEN *)
Definition words_for (c : cfg) (n : N) : res N :=
  t <- add c n WORD_LEN ;; t <- sub c t 1 ;; Ok (t / WORD_LEN).

Fixpoint upd_last {A} (f : A -> A) (l : list A) : list A :=
  match l with [] => [] | [x] => [f x] | y :: r => y :: upd_last f r end.

(* 1 << len) - 1 for len < 64, usize::MAX for len = 64 *)
Definition len_mask (c : cfg) (len : N) : res N :=
  if len <? WORD_LEN then (t <- shl c 1 len ;; sub c t 1) else Ok MASK64.

Definition from_bit (c : cfg) (bit : bool) (len : N) : res bitvec :=
  let word := if bit then MASK64 else 0 in
  nw <- words_for c len ;;
  let words := repeat word (N.to_nat nw) in
  let shift := len mod WORD_LEN in
  if negb (shift =? 0) then
    t <- shl c 1 shift ;; mask <- sub c t 1 ;;
    _ <- assert_ (negb (lenN words =? 0)) ;;       (* words.last_mut().unwrap() *)
    Ok {| bv_words := upd_last (fun w => N.land w mask) words; bv_len := len |}
  else Ok {| bv_words := words; bv_len := len |}.

Definition push_bit (c : cfg) (bv : bitvec) (bit : bool) : res bitvec :=
  let piw := bv_len bv mod WORD_LEN in
  words <- (if piw =? 0 then Ok (bv_words bv ++ [b2n bit])
            else (_ <- assert_ (negb (lenN (bv_words bv) =? 0)) ;;
                  t <- shl c (b2n bit) piw ;;
                  Ok (upd_last (fun w => N.lor w t) (bv_words bv)))) ;;
  len <- add c (bv_len bv) 1 ;;
  Ok {| bv_words := words; bv_len := len |}.

Definition from_bits (c : cfg) (bits : list bool) : res bitvec :=
  fold_res (push_bit c) bits bv_empty.
Definition extend (c : cfg) (bv : bitvec) (bits : list bool) : res bitvec :=
  fold_res (push_bit c) bits bv.

Definition get_bit (c : cfg) (bv : bitvec) (pos : N) : res (option bool) :=
  if pos <? bv_len bv then
    w <- idx 0 (bv_words bv) (pos / WORD_LEN) ;;
    t <- shr c w (pos mod WORD_LEN) ;;
    Ok (Some (N.land t 1 =? 1))
  else Ok None.
Definition access := get_bit.

(* mutators return the new state and whether the call returned Ok(()) *)
Definition set_bit (c : cfg) (bv : bitvec) (pos : N) (bit : bool) : res (bitvec * bool) :=
  if bv_len bv <=? pos then Ok (bv, false) else
  let word := pos / WORD_LEN in
  let piw := pos mod WORD_LEN in
  w <- idx 0 (bv_words bv) word ;;
  m <- shl c 1 piw ;;
  let w := N.land w (not64 m) in
  b <- shl c (b2n bit) piw ;;
  let w := N.lor w b in
  Ok ({| bv_words := setN (bv_words bv) word w; bv_len := bv_len bv |}, true).

(* `pos + len` is computed with checked_add (F1 repaired): an unrepresentable sum exceeds every length *)
Definition get_bits (c : cfg) (bv : bitvec) (pos len : N) : res (option N) :=
  if (WORD_LEN <? len) || (bv_len bv <? pos + len) then Ok None else
  if len =? 0 then Ok (Some 0) else
  let block := pos / WORD_LEN in
  let shift := pos mod WORD_LEN in
  mask <- len_mask c len ;;
  sl <- add c shift len ;;
  if sl <=? WORD_LEN then
    w <- idx 0 (bv_words bv) block ;;
    t <- shr c w shift ;;
    Ok (Some (N.land t mask))
  else
    w0 <- idx 0 (bv_words bv) block ;;
    a <- shr c w0 shift ;;
    b1 <- add c block 1 ;;
    w1 <- idx 0 (bv_words bv) b1 ;;
    s <- sub c WORD_LEN shift ;;
    b <- shl c w1 s ;;
    Ok (Some (N.lor a (N.land b mask))).

Definition set_bits (c : cfg) (bv : bitvec) (pos bits len : N) : res (bitvec * bool) :=
  if WORD_LEN <? len then Ok (bv, false) else
  if bv_len bv <? pos + len then Ok (bv, false) else
  if len =? 0 then Ok (bv, true) else
  mask <- len_mask c len ;;
  let bits := N.land bits mask in
  let word := pos / WORD_LEN in
  let piw := pos mod WORD_LEN in
  w <- idx 0 (bv_words bv) word ;;
  m <- shl c mask piw ;;
  let w := N.land w (not64 m) in
  b <- shl c bits piw ;;
  let w := N.lor w b in
  let words := setN (bv_words bv) word w in
  stored <- sub c WORD_LEN piw ;;
  if stored <? len then
    w1i <- add c word 1 ;;
    w1 <- idx 0 words w1i ;;
    m1 <- shr c mask stored ;;
    let w1 := N.land w1 (not64 m1) in
    b1 <- shr c bits stored ;;
    let w1 := N.lor w1 b1 in
    Ok ({| bv_words := setN words w1i w1; bv_len := bv_len bv |}, true)
  else Ok ({| bv_words := words; bv_len := bv_len bv |}, true).

Definition push_bits (c : cfg) (bv : bitvec) (bits len : N) : res (bitvec * bool) :=
  if WORD_LEN <? len then Ok (bv, false) else
  if len =? 0 then Ok (bv, true) else
  mask <- len_mask c len ;;
  let bits := N.land bits mask in
  let piw := bv_len bv mod WORD_LEN in
  words <- (if piw =? 0 then Ok (bv_words bv ++ [bits])
            else (_ <- assert_ (negb (lenN (bv_words bv) =? 0)) ;;
                  t <- shl c bits piw ;;
                  let ws := upd_last (fun w => N.lor w t) (bv_words bv) in
                  room <- sub c WORD_LEN piw ;;
                  if room <? len then (hi <- shr c bits room ;; Ok (ws ++ [hi])) else Ok ws)) ;;
  nl <- add c (bv_len bv) len ;;
  Ok ({| bv_words := words; bv_len := nl |}, true).

(* backward scan over the words below `block` (nearest first) *)
Fixpoint pred_scan (c : cfg) (inv : bool) (below : list N) (block word : N) : res (option N) :=
  match msb_spec word with
  | Some ret => t <- mul c block WORD_LEN ;; t <- add c t ret ;; Ok (Some t)
  | None =>
      match below with
      | [] => Ok None                                   (* block == 0 *)
      | w :: r => b <- sub c block 1 ;; pred_scan c inv r b (if inv then not64 w else w)
      end
  end.

Definition predecessor (c : cfg) (inv : bool) (bv : bitvec) (pos : N) : res (option N) :=
  if bv_len bv <=? pos then Ok None else
  let block := pos / WORD_LEN in
  s <- sub c WORD_LEN (pos mod WORD_LEN) ;; shift <- sub c s 1 ;;
  w <- idx 0 (bv_words bv) block ;;
  let w := if inv then not64 w else w in
  t <- shl c w shift ;; word <- shr c t shift ;;
  pred_scan c inv (rev (firstn (N.to_nat block) (bv_words bv))) block word.
Definition predecessor1 c := predecessor c false.
Definition predecessor0 c := predecessor c true.

(* forward scan over the words after `block` *)
Fixpoint succ_scan (c : cfg) (inv : bool) (len : N) (after : list N) (block word : N) : res (option N) :=
  match lsb_spec word with
  | Some ret => t <- mul c block WORD_LEN ;; t <- add c t ret ;;
                Ok (if t <? len then Some t else None)
  | None =>
      b <- add c block 1 ;;
      match after with
      | [] => Ok None                                   (* block == words.len() *)
      | w :: r => succ_scan c inv len r b (if inv then not64 w else w)
      end
  end.

Definition successor (c : cfg) (inv : bool) (bv : bitvec) (pos : N) : res (option N) :=
  if bv_len bv <=? pos then Ok None else
  let block := pos / WORD_LEN in
  let shift := pos mod WORD_LEN in
  w <- idx 0 (bv_words bv) block ;;
  let w := if inv then not64 w else w in
  t <- shr c w shift ;; word <- shl c t shift ;;
  succ_scan c inv (bv_len bv) (skipn (S (N.to_nat block)) (bv_words bv)) block word.
Definition successor1 c := successor c false.
Definition successor0 c := successor c true.

Definition get_word64 (c : cfg) (bv : bitvec) (pos : N) : res (option N) :=
  if bv_len bv <=? pos then Ok None else
  let block := pos / WORD_LEN in
  let shift := pos mod WORD_LEN in
  w <- idx 0 (bv_words bv) block ;;
  word <- shr c w shift ;;
  b1 <- add c block 1 ;;
  if negb (shift =? 0) && (b1 <? lenN (bv_words bv)) then
    w1 <- idx 0 (bv_words bv) b1 ;;
    s <- sub c 64 shift ;;
    t <- shl c w1 s ;;
    Ok (Some (N.lor word t))
  else Ok (Some word).

Definition rank1 (c : cfg) (bv : bitvec) (pos : N) : res (option N) :=
  if bv_len bv <? pos then Ok None else
  let wpos := pos / WORD_LEN in
  let left := pos mod WORD_LEN in
  _ <- assert_ (wpos <=? lenN (bv_words bv)) ;;              (* &self.words[..wpos] *)
  r <- fold_res (fun r w => add c r (popcN w)) (firstn (N.to_nat wpos) (bv_words bv)) 0 ;;
  if negb (left =? 0) then
    w <- idx 0 (bv_words bv) wpos ;;
    s <- sub c WORD_LEN left ;;
    t <- shl c w s ;;
    r <- add c r (popcN t) ;;
    Ok (Some r)
  else Ok (Some r).

Definition rank0 (c : cfg) (bv : bitvec) (pos : N) : res (option N) :=
  r <- rank1 c bv pos ;;
  match r with None => Ok None | Some r1 => t <- sub c pos r1 ;; Ok (Some t) end.

Definition num_ones (c : cfg) (bv : bitvec) : res N :=
  r <- rank1 c bv (bv_len bv) ;; unwrap r.

(* the `while wpos < words.len()` loop of select1/select0: Some (wpos, cur_rank, word) at the break *)
Fixpoint select_scan (c : cfg) (inv : bool) (ws : list N) (k wpos cur : N) : res (option (N * N * N)) :=
  match ws with
  | [] => Ok None
  | w :: r =>
      let w := if inv then not64 w else w in
      t <- add c cur (popcN w) ;;
      if k <? t then Ok (Some (wpos, cur, w))
      else (wp <- add c wpos 1 ;; select_scan c inv r k wp t)
  end.

Definition select1 (c : cfg) (bv : bitvec) (k : N) : res (option N) :=
  s <- select_scan c false (bv_words bv) k 0 0 ;;
  match s with
  | None => Ok None
  | Some (wpos, cur, w) =>
      a <- mul c wpos WORD_LEN ;; d <- sub c k cur ;;
      p <- unwrap (select_in_word_spec w d) ;;
      t <- add c a p ;; Ok (Some t)
  end.

Definition select0 (c : cfg) (bv : bitvec) (k : N) : res (option N) :=
  s <- select_scan c true (bv_words bv) k 0 0 ;;
  match s with
  | None => Ok None
  | Some (wpos, cur, w) =>
      a <- mul c wpos WORD_LEN ;; d <- sub c k cur ;;
      p <- unwrap (select_in_word_spec w d) ;;
      t <- add c a p ;; Ok (if t <? bv_len bv then Some t else None)
  end.

(* Iter { bv, pos }: next / size_hint (F3 repaired: remaining = len - pos) *)
Definition iter_next (c : cfg) (bv : bitvec) (pos : N) : res (N * option bool) :=
  if pos <? bv_len bv then
    x <- get_bit c bv pos ;; x <- unwrap x ;; p <- add c pos 1 ;; Ok (p, Some x)
  else Ok (pos, None).
Definition iter_size_hint (c : cfg) (len pos : N) : res (N * N) :=
  n <- sub c len pos ;; Ok (n, n).

(* derived PartialEq *)
Definition bv_eqb (a b : bitvec) : bool :=
  (bv_len a =? bv_len b) && (lenN (bv_words a) =? lenN (bv_words b))
  && forallb (fun p => fst p =? snd p) (combine (bv_words a) (bv_words b)).
