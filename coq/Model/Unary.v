(* Model/Unary.v — src/bit_vectors/bit_vector/unary.rs (with the repairs of F2 and F4:
   the start word is read with .get(), and skip1/skip0 commit the cursor only when they
   return a position). *)
From Sucds Require Import Base.Res Spec.WordSpec Model.BitVector.
Open Scope N_scope.

Record uiter := { u_pos : N; u_buf : N }.

Definition unary_new (bv : bitvec) (pos : N) : uiter :=
  let w := if pos / WORD_LEN <? lenN (bv_words bv) then nthN (bv_words bv) (pos / WORD_LEN) 0 else 0 in
  {| u_pos := pos; u_buf := N.land w (wshl MASK64 (pos mod WORD_LEN)) |}.

Definition position (it : uiter) : N := u_pos it.

(* the `loop` of skip1/skip0 over the words after the current one; Some (skipped, buf, pos) at the break *)
Fixpoint skip_scan (c : cfg) (inv : bool) (after : list N) (k skipped buf pos : N)
  : res (option (N * N * N)) :=
  t <- add c skipped (popcN buf) ;;
  if k <? t then Ok (Some (skipped, buf, pos)) else
  p <- add c pos WORD_LEN ;;
  match after with
  | [] => Ok None                                       (* num_words <= word_pos *)
  | x :: r => skip_scan c inv r k t (if inv then not64 x else x) p
  end.

Definition words_after (bv : bitvec) (pos : N) : list N :=
  if pos / WORD_LEN <? lenN (bv_words bv) then skipn (S (N.to_nat (pos / WORD_LEN))) (bv_words bv) else [].

Definition skip1 (c : cfg) (bv : bitvec) (it : uiter) (k : N) : res (uiter * option N) :=
  s <- skip_scan c false (words_after bv (u_pos it)) k 0 (u_buf it) (u_pos it) ;;
  match s with
  | None => Ok (it, None)
  | Some (skipped, buf, pos) =>
      _ <- dassert c (negb (buf =? 0)) ;;
      d <- sub c k skipped ;;
      piw <- unwrap (select_in_word_spec buf d) ;;
      np <- add c (N.land pos (not64 (WORD_LEN - 1))) piw ;;
      Ok ({| u_pos := np; u_buf := N.land buf (wshl MASK64 piw) |}, Some np)
  end.

Definition skip0 (c : cfg) (bv : bitvec) (it : uiter) (k : N) : res (uiter * option N) :=
  let piw0 := u_pos it mod WORD_LEN in
  let buf0 := N.land (not64 (u_buf it)) (wshl MASK64 piw0) in
  s <- skip_scan c true (words_after bv (u_pos it)) k 0 buf0 (u_pos it) ;;
  match s with
  | None => Ok (it, None)
  | Some (skipped, buf, pos) =>
      _ <- dassert c (negb (buf =? 0)) ;;
      d <- sub c k skipped ;;
      piw <- unwrap (select_in_word_spec buf d) ;;
      np <- add c (N.land pos (not64 (WORD_LEN - 1))) piw ;;
      if np <? bv_len bv
      then Ok ({| u_pos := np; u_buf := N.land (not64 buf) (wshl MASK64 piw) |}, Some np)
      else Ok (it, None)
  end.

(* Iterator::next: the `while buf == 0` loop; the advanced position is kept even on None *)
Fixpoint next_scan (c : cfg) (after : list N) (buf pos : N) : res (N * option N) :=
  if buf =? 0 then
    p <- add c pos WORD_LEN ;;
    match after with
    | [] => Ok (p, None)
    | x :: r => next_scan c r x p
    end
  else Ok (pos, Some buf).

Definition unary_next (c : cfg) (bv : bitvec) (it : uiter) : res (uiter * option N) :=
  s <- next_scan c (words_after bv (u_pos it)) (u_buf it) (u_pos it) ;;
  match s with
  | (p, None) => Ok ({| u_pos := p; u_buf := u_buf it |}, None)
  | (p, Some buf) =>
      piw <- unwrap (lsb_spec buf) ;;
      b1 <- sub c buf 1 ;;
      np <- add c (N.land p (not64 (WORD_LEN - 1))) piw ;;
      Ok ({| u_pos := np; u_buf := N.land buf b1 |}, Some np)
  end.
