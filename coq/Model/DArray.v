(* Model/DArray.v — src/bit_vectors/darray/inner.rs and darray.rs. *)
From Sucds Require Import Base.Res Spec.WordSpec Model.BitVector Model.Rank9.
Open Scope N_scope.

Definition DA_BLOCK_LEN : N := 1024.
Definition SUBBLOCK_LEN : N := 32.
Definition MAX_IN_BLOCK_DISTANCE : N := 65536.

Record daindex := {
  d_block_inv : list Z;            (* Vec<isize> *)
  d_sub_inv : list N;              (* Vec<u16> *)
  d_overflow : list N;
  d_num_positions : N;
  d_over_one : bool }.

(* build state; t_cur holds the current block's positions in push order, t_cnt its length *)
Record dastate := {
  t_cur : list N; t_cnt : N;
  t_binv : list Z; t_sinv : list N; t_ovf : list N; t_num : N }.

(* elements at indices 0, 32, 64, ... : (0..len).step_by(SUBBLOCK_LEN) *)
Fixpoint step_by32 (fuel : nat) (l : list N) : list N :=
  match fuel, l with
  | S f, x :: _ => x :: step_by32 f (skipn 32 l)
  | _, _ => []
  end.

Definition flush_cur_block (c : cfg) (s : dastate) : res dastate :=
  first <- unwrap (hd_error (t_cur s)) ;;
  last <- unwrap (last_opt (t_cur s)) ;;
  d <- sub c last first ;;
  let heads := step_by32 (length (t_cur s)) (t_cur s) in
  if d <? MAX_IN_BLOCK_DISTANCE then
    subs <- fold_res (fun acc p => t <- sub c p first ;; Ok (acc ++ [t mod 65536])) heads [] ;;
    Ok {| t_cur := []; t_cnt := 0; t_binv := t_binv s ++ [Z.of_N first];
          t_sinv := t_sinv s ++ subs; t_ovf := t_ovf s; t_num := t_num s |}
  else
    e <- add c (lenN (t_ovf s)) 1 ;;
    Ok {| t_cur := []; t_cnt := 0; t_binv := t_binv s ++ [Z.opp (Z.of_N e)];
          t_sinv := t_sinv s ++ map (fun _ => 65535) heads;
          t_ovf := t_ovf s ++ t_cur s; t_num := t_num s |}.

(* the `while let Some(l) = lsb(cur_word)` loop for one word *)
Definition word_step (c : cfg) (len : N) (st : dastate * N * N) : res (dastate * N * N + dastate) :=
  let '(s, cur_pos, cur_word) := st in
  match lsb_spec cur_word with
  | None => Ok (inr s)
  | Some l =>
      cur_pos <- add c cur_pos l ;;
      cur_word <- shr c cur_word l ;;
      if len <=? cur_pos then Ok (inr s) else
      let s := {| t_cur := t_cur s ++ [cur_pos]; t_cnt := t_cnt s + 1; t_binv := t_binv s;
                  t_sinv := t_sinv s; t_ovf := t_ovf s; t_num := t_num s |} in
      s <- (if t_cnt s =? DA_BLOCK_LEN then flush_cur_block c s else Ok s) ;;
      cur_word <- shr c cur_word 1 ;;
      cur_pos <- add c cur_pos 1 ;;
      n <- add c (t_num s) 1 ;;
      Ok (inl ({| t_cur := t_cur s; t_cnt := t_cnt s; t_binv := t_binv s; t_sinv := t_sinv s;
                  t_ovf := t_ovf s; t_num := n |}, cur_pos, cur_word))
  end.

Definition build_word (c : cfg) (over_one : bool) (len : N) (st : dastate * N) (w : N) : res (dastate * N) :=
  let '(s, word_idx) := st in
  cur_pos <- mul c word_idx 64 ;;
  let cur_word := if over_one then w else not64 w in
  s <- iter_fuel 66 (word_step c len) (s, cur_pos, cur_word) ;;
  Ok (s, word_idx + 1).

Definition da_build (c : cfg) (bv : bitvec) (over_one : bool) : res daindex :=
  st <- fold_res (build_word c over_one (bv_len bv)) (bv_words bv)
          ({| t_cur := []; t_cnt := 0; t_binv := []; t_sinv := []; t_ovf := []; t_num := 0 |}, 0) ;;
  let s := fst st in
  s <- (if negb (t_cnt s =? 0) then flush_cur_block c s else Ok s) ;;
  Ok {| d_block_inv := t_binv s; d_sub_inv := t_sinv s; d_overflow := t_ovf s;
        d_num_positions := t_num s; d_over_one := over_one |}.

(* the popcount scan of `select` over the words after word_idx; running off the end is an index panic *)
Fixpoint da_scan (c : cfg) (inv : bool) (after : list N) (rem word_idx word : N) : res (N * N * N) :=
  let popcnt := popcN word in
  if rem <? popcnt then Ok (rem, word_idx, word) else
  rem <- sub c rem popcnt ;;
  wi <- add c word_idx 1 ;;
  match after with
  | [] => Panic
  | x :: r => da_scan c inv r rem wi (if inv then not64 x else x)
  end.

Definition da_select (c : cfg) (d : daindex) (bv : bitvec) (k : N) : res (option N) :=
  if d_num_positions d <=? k then Ok None else
  let block := k / DA_BLOCK_LEN in
  block_pos <- idx 0%Z (d_block_inv d) block ;;
  if (block_pos <? 0)%Z then
    let overflow_pos := Z.to_N (- block_pos - 1) in
    i <- add c overflow_pos (k mod DA_BLOCK_LEN) ;;
    x <- idx 0 (d_overflow d) i ;; Ok (Some x)
  else
  let subblock := k / SUBBLOCK_LEN in
  let reminder := k mod SUBBLOCK_LEN in
  sb <- idx 0 (d_sub_inv d) subblock ;;
  start_pos <- add c (Z.to_N block_pos) sb ;;
  if reminder =? 0 then Ok (Some start_pos) else
  let inv := negb (d_over_one d) in
  let word_idx := start_pos / 64 in
  let word_shift := start_pos mod 64 in
  w <- idx 0 (bv_words bv) word_idx ;;
  m <- shl c MASK64 word_shift ;;
  let word := N.land (if inv then not64 w else w) m in
  r <- da_scan c inv (skipn (S (N.to_nat word_idx)) (bv_words bv)) reminder word_idx word ;;
  let '(rem, wi, word) := r in
  p <- unwrap (select_in_word_spec word rem) ;;
  a <- mul c 64 wi ;;
  sel <- add c a p ;;
  Ok (Some sel).

(* ---- DArray ---- *)
Record darray := { da_bv : bitvec; da_s1 : daindex; da_s0 : option daindex; da_r9 : option r9index }.

Definition da_new (c : cfg) (bv : bitvec) : res darray :=
  s1 <- da_build c bv true ;;
  Ok {| da_bv := bv; da_s1 := s1; da_s0 := None; da_r9 := None |}.
Definition da_from_bits (c : cfg) (bits : list bool) : res darray :=
  bv <- from_bits c bits ;; da_new c bv.
Definition da_enable_rank (c : cfg) (d : darray) : res darray :=
  r <- build_rank c (da_bv d) ;;
  Ok {| da_bv := da_bv d; da_s1 := da_s1 d; da_s0 := da_s0 d; da_r9 := Some r |}.
Definition da_enable_select0 (c : cfg) (d : darray) : res darray :=
  s0 <- da_build c (da_bv d) false ;;
  Ok {| da_bv := da_bv d; da_s1 := da_s1 d; da_s0 := Some s0; da_r9 := da_r9 d |}.
(* Build::build_from_bits(_, with_rank, _, with_select0) *)
Definition da_build_cfg (c : cfg) (bv : bitvec) (with_rank with_select0 : bool) : res darray :=
  d <- da_new c bv ;;
  d <- (if with_rank then da_enable_rank c d else Ok d) ;;
  if with_select0 then da_enable_select0 c d else Ok d.

Definition da_num_bits (d : darray) : N := bv_len (da_bv d).
Definition da_num_ones (d : darray) : N := d_num_positions (da_s1 d).
Definition da_num_zeros (c : cfg) (d : darray) : res N := sub c (da_num_bits d) (da_num_ones d).
Definition da_access (c : cfg) (d : darray) (pos : N) := BitVector.access c (da_bv d) pos.
Definition da_rank1 (c : cfg) (d : darray) (pos : N) : res (option N) :=
  r9 <- unwrap (da_r9 d) ;; Rank9.rank1 c r9 (da_bv d) pos.
Definition da_rank0 (c : cfg) (d : darray) (pos : N) : res (option N) :=
  r9 <- unwrap (da_r9 d) ;; Rank9.rank0 c r9 (da_bv d) pos.
Definition da_select1 (c : cfg) (d : darray) (k : N) := da_select c (da_s1 d) (da_bv d) k.
Definition da_select0 (c : cfg) (d : darray) (k : N) : res (option N) :=
  s0 <- unwrap (da_s0 d) ;; da_select c s0 (da_bv d) k.
