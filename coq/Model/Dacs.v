(* Model/Dacs.v — src/int_vectors/dacs_byte.rs and dacs_opt.rs. *)
From Sucds Require Import Base.Res Spec.WordSpec Model.BitVector Model.Rank9 Model.CompactVector.
Open Scope N_scope.

Definition LEVEL_WIDTH : N := 8.
Definition LEVEL_MASK : N := 255.

(* ---------------- DacsByte ---------------- *)
Record dacsbyte := { db_data : list (list N); db_flags : list r9sel }.
Definition db_default : dacsbyte := {| db_data := [[]]; db_flags := [] |}.

Definition upd_nth {A} (l : list A) (j : N) (f : A -> A) (d : A) : list A := setN l j (f (nthN l j d)).

(* the per-value inner loop `for j in 0..num_levels` *)
Fixpoint db_push_levels (c : cfg) (fuel : nat) (num_levels j x : N)
         (data : list (list N)) (flags : list bitvec) : res (list (list N) * list bitvec) :=
  match fuel with
  | O => Ok (data, flags)                                  (* j reached num_levels *)
  | S f =>
      _ <- assert_ (j <? lenN data) ;;
      let byte := N.land x LEVEL_MASK in                    (* u8::try_from(..).unwrap() cannot fail *)
      let data := upd_nth data j (fun l => l ++ [byte]) [] in
      x <- shr c x LEVEL_WIDTH ;;
      nl1 <- sub c num_levels 1 ;;
      if j =? nl1 then (_ <- assert_ (x =? 0) ;; Ok (data, flags))
      else
        _ <- assert_ (j <? lenN flags) ;;
        fj <- push_bit c (nthN flags j bv_empty) (negb (x =? 0)) ;;
        let flags := setN flags j fj in
        if x =? 0 then Ok (data, flags)
        else db_push_levels c f num_levels (j + 1) x data flags
  end.

Definition db_from_slice (c : cfg) (vals : list N) : res dacsbyte :=
  match vals with
  | [] => Ok db_default
  | _ =>
      let maxv := fold_left N.max vals 0 in
      num_bits <- needed_bits c maxv ;;
      num_levels <- ceiled_divide c num_bits LEVEL_WIDTH ;;
      _ <- assert_ (negb (num_levels =? 0)) ;;
      if num_levels =? 1 then
        _ <- assert_ (forallb (fun x => x <? 256) vals) ;;   (* u8::try_from(x).unwrap() *)
        Ok {| db_data := [vals]; db_flags := [] |}
      else
        nl1 <- sub c num_levels 1 ;;
        let data0 := repeat ([] : list N) (N.to_nat num_levels) in
        let flags0 := repeat bv_empty (N.to_nat nl1) in
        df <- fold_res (fun df x => db_push_levels c (N.to_nat num_levels) num_levels 0 x (fst df) (snd df))
                vals (data0, flags0) ;;
        flags <- fold_res (fun acc bv => r <- r9_new c bv ;; Ok (acc ++ [r])) (snd df) [] ;;
        Ok {| db_data := fst df; db_flags := flags |}
  end.

Definition db_len (c : cfg) (d : dacsbyte) : res N :=
  l <- idx [] (db_data d) 0 ;; Ok (lenN l).
Definition db_num_levels (d : dacsbyte) : N := lenN (db_data d).
Definition db_widths (d : dacsbyte) : list N := map (fun _ => LEVEL_WIDTH) (db_data d).

Fixpoint db_access_loop (c : cfg) (fuel : nat) (d : dacsbyte) (j pos x : N) : res N :=
  match fuel with
  | O => Ok x
  | S f =>
      lv <- idx [] (db_data d) j ;;
      b <- idx 0 lv pos ;;
      sh <- mul c j LEVEL_WIDTH ;;
      t <- shl c b sh ;;
      let x := N.lor x t in
      nl1 <- sub c (db_num_levels d) 1 ;;
      if j =? nl1 then Ok x else
      fl <- idx {| r9_bv := bv_empty; r9_rs := {| r_len := 0; r_brp := []; r_h1 := None; r_h0 := None |} |}
              (db_flags d) j ;;
      a <- r9_access c fl pos ;; a <- unwrap a ;;
      if negb a then Ok x else
      p <- r9_rank1 c fl pos ;; p <- unwrap p ;;
      db_access_loop c f d (j + 1) p x
  end.

Definition db_access (c : cfg) (d : dacsbyte) (pos : N) : res (option N) :=
  n <- db_len c d ;;
  if n <=? pos then Ok None else
  x <- db_access_loop c (N.to_nat (db_num_levels d)) d 0 pos 0 ;; Ok (Some x).

Definition db_iter_next (c : cfg) (d : dacsbyte) (pos : N) : res (N * option N) :=
  n <- db_len c d ;;
  if pos <? n then (x <- db_access c d pos ;; x <- unwrap x ;; p <- add c pos 1 ;; Ok (p, Some x))
  else Ok (pos, None).

(* ---------------- DacsOpt ---------------- *)
Record dacsopt := { do_data : list compvec; do_flags : list r9sel }.
Definition do_default : dacsopt := {| do_data := [cv_default]; do_flags := [] |}.

(* nums_ints: histogram of needed_bits-1, then suffix sums *)
Definition nums_ints (c : cfg) (num_bits : N) (vals : list N) : res (list N) :=
  nb1 <- add c num_bits 1 ;;
  let h0 := repeat 0 (N.to_nat nb1) in
  h <- fold_res (fun h x => nb <- needed_bits c x ;; i <- sub c nb 1 ;;
                            v <- idx 0 h i ;; v1 <- add c v 1 ;; Ok (setN h i v1)) vals h0 ;;
  (* for j in (0..num_bits).rev() { nums[j] += nums[j+1] } *)
  fold_res (fun h j => a <- idx 0 h j ;; j1 <- add c j 1 ;; b <- idx 0 h j1 ;; s <- add c a b ;; Ok (setN h j s))
           (rev (nseq num_bits)) h.

(* One DP column r >= 1 from column r-1.  Tables are kept as columns: col[j] = dp[j][r]. *)
Definition dp_cell (c : cfg) (num_bits : N) (nums prev_s : list N) (j : N) : res (N * N) :=
  (* dp_s[j][r] = usize::MAX; for b in 1..=num_bits - j { c = (b+1)*nums[j] + dp_s[j+b][r-1]; if c <= best .. } *)
  nj <- idx 0 nums j ;;
  bmax <- sub c num_bits j ;;
  fold_res (fun (sb : N * N) b =>
              b1 <- add c b 1 ;; t <- mul c b1 nj ;;
              jb <- add c j b ;; p <- idx 0 prev_s jb ;;
              cst <- add c t p ;;
              if cst <=? fst sb then Ok (cst, b) else Ok sb)
           (map (fun b => b + 1) (nseq bmax)) (MASK64, 0).

Definition dp_column (c : cfg) (num_bits : N) (nums prev_s : list N) : res (list N * list N) :=
  (* rows j in 0..num_bits; row num_bits keeps its initial 0 *)
  cells <- fold_res (fun acc j => x <- dp_cell c num_bits nums prev_s j ;; Ok (acc ++ [x])) (nseq num_bits) [] ;;
  Ok (map fst cells ++ [0], map snd cells ++ [0]).

Fixpoint dp_columns (c : cfg) (n : nat) (num_bits : N) (nums : list N) (cols_s cols_b : list (list N))
  : res (list (list N) * list (list N)) :=
  match n with
  | O => Ok (cols_s, cols_b)
  | S m =>
      prev <- unwrap (last_opt cols_s) ;;
      cb <- dp_column c num_bits nums prev ;;
      dp_columns c m num_bits nums (cols_s ++ [fst cb]) (cols_b ++ [snd cb])
  end.

(* while j < num_bits { widths[r] = dp_b[j][num_levels - r - 1]; j += widths[r]; r += 1 } *)
Fixpoint walk_widths (c : cfg) (fuel : nat) (num_bits num_levels : N) (cols_b : list (list N))
         (j r : N) (widths : list N) : res (N * N * list N) :=
  match fuel with
  | O => Panic
  | S f =>
      if j <? num_bits then
        _ <- assert_ (r <? lenN widths) ;;                      (* widths[r] = .. *)
        t <- sub c num_levels r ;; ci <- sub c t 1 ;;
        col <- idx [] cols_b ci ;;
        w <- idx 0 col j ;;
        j' <- add c j w ;; r' <- add c r 1 ;;
        walk_widths c f num_bits num_levels cols_b j' r' (setN widths r w)
      else Ok (j, r, widths)
  end.

Definition compute_opt_widths (c : cfg) (vals : list N) (max_levels : N) : res (list N) :=
  _ <- assert_ (negb (lenN vals =? 0)) ;;
  _ <- assert_ (negb (max_levels =? 0)) ;;
  let maxv := fold_left N.max vals 0 in
  num_bits <- needed_bits c maxv ;;
  let max_levels := N.min max_levels num_bits in
  nums <- nums_ints c num_bits vals ;;
  n0 <- idx 0 nums 0 ;;
  _ <- dassert c (n0 =? lenN vals) ;;
  nl <- unwrap (last_opt nums) ;;
  _ <- dassert c (nl =? 0) ;;
  (* column 0: dp_s[j][0] = (num_bits - j) * nums[j], dp_b[j][0] = num_bits - j; row num_bits stays 0 *)
  col0 <- fold_res (fun acc j => d <- sub c num_bits j ;; nj <- idx 0 nums j ;; s <- mul c d nj ;;
                                 Ok (fst acc ++ [s], snd acc ++ [d])) (nseq num_bits) ([], []) ;;
  ml1 <- sub c max_levels 1 ;;
  tabs <- dp_columns c (N.to_nat ml1) num_bits nums [fst col0 ++ [0]] [snd col0 ++ [0]] ;;
  let cols_s := fst tabs in
  let cols_b := snd tabs in
  (* min_level_idx: first strict minimum of dp_s[0][.] *)
  first <- idx [] cols_s 0 ;; best0 <- idx 0 first 0 ;;
  mi <- fold_res (fun (bm : N * N) r => col <- idx [] cols_s r ;; v <- idx 0 col 0 ;;
                    if v <? fst bm then Ok (v, r) else Ok bm)
          (map (fun r => r + 1) (nseq ml1)) (best0, 0) ;;
  num_levels <- add c (snd mi) 1 ;;
  w <- walk_widths c 66 num_bits num_levels cols_b 0 0 (repeat 0 (N.to_nat num_levels)) ;;
  let '(j, r, widths) := w in
  _ <- assert_ (j =? num_bits) ;;
  _ <- assert_ (r =? num_levels) ;;
  s <- fold_res (fun a x => add c a x) widths 0 ;;
  _ <- assert_ (s =? num_bits) ;;
  Ok widths.

Fixpoint do_push_levels (c : cfg) (widths : list N) (nlev j x : N)
         (data : list compvec) (flags : list bitvec) : res (list compvec * list bitvec) :=
  match widths with
  | [] => Ok (data, flags)
  | width :: rest =>
      t <- shl c 1 width ;; mask <- sub c t 1 ;;
      _ <- assert_ (j <? lenN data) ;;
      r <- cv_push_int c (nthN data j cv_default) (N.land x mask) ;;
      _ <- assert_ (snd r) ;;
      let data := setN data j (fst r) in
      x <- shr c x width ;;
      nl1 <- sub c nlev 1 ;;
      if j =? nl1 then (_ <- assert_ (x =? 0) ;; Ok (data, flags))
      else
        _ <- assert_ (j <? lenN flags) ;;
        fj <- push_bit c (nthN flags j bv_empty) (negb (x =? 0)) ;;
        let flags := setN flags j fj in
        if x =? 0 then Ok (data, flags)
        else do_push_levels c rest nlev (j + 1) x data flags
  end.

Definition do_build (c : cfg) (vals widths : list N) : res dacsopt :=
  _ <- assert_ (negb (lenN vals =? 0)) ;;
  _ <- assert_ (negb (lenN widths =? 0)) ;;
  if lenN widths =? 1 then
    w0 <- idx 0 widths 0 ;;
    d <- cv_with_capacity c (lenN vals) w0 ;; d <- unwrap d ;;
    d <- fold_res (fun v x => r <- cv_push_int c v x ;; _ <- assert_ (snd r) ;; Ok (fst r)) vals d ;;
    Ok {| do_data := [d]; do_flags := [] |}
  else
    data0 <- fold_res (fun acc w => v <- unwrap (cv_new w) ;; Ok (acc ++ [v])) widths [] ;;
    nl1 <- sub c (lenN widths) 1 ;;
    let flags0 := repeat bv_empty (N.to_nat nl1) in
    df <- fold_res (fun df x => do_push_levels c widths (lenN widths) 0 x (fst df) (snd df)) vals (data0, flags0) ;;
    flags <- fold_res (fun acc bv => r <- r9_new c bv ;; Ok (acc ++ [r])) (snd df) [] ;;
    Ok {| do_data := fst df; do_flags := flags |}.

(* from_slice(vals, max_levels): None = Err *)
Definition do_from_slice (c : cfg) (vals : list N) (max_levels : option N) : res (option dacsopt) :=
  let ml := match max_levels with Some m => m | None => 64 end in
  if negb ((1 <=? ml) && (ml <=? 64)) then Ok None else
  match vals with
  | [] => Ok (Some do_default)
  | _ => w <- compute_opt_widths c vals ml ;; d <- do_build c vals w ;; Ok (Some d)
  end.

Definition do_len (c : cfg) (d : dacsopt) : res N :=
  v <- idx cv_default (do_data d) 0 ;; Ok (cv_len v).
Definition do_num_levels (d : dacsopt) : N := lenN (do_data d).
Definition do_widths (d : dacsopt) : list N := map cv_width (do_data d).

Fixpoint do_access_loop (c : cfg) (fuel : nat) (d : dacsopt) (j pos x width : N) : res N :=
  match fuel with
  | O => Ok x
  | S f =>
      lv <- idx cv_default (do_data d) j ;;
      b <- cv_access c lv pos ;; b <- unwrap b ;;
      t <- shl c b width ;;
      let x := N.lor x t in
      nl1 <- sub c (do_num_levels d) 1 ;;
      if j =? nl1 then Ok x else
      fl <- idx {| r9_bv := bv_empty; r9_rs := {| r_len := 0; r_brp := []; r_h1 := None; r_h0 := None |} |}
              (do_flags d) j ;;
      a <- r9_access c fl pos ;; a <- unwrap a ;;
      if negb a then Ok x else
      p <- r9_rank1 c fl pos ;; p <- unwrap p ;;
      w <- add c width (cv_width lv) ;;
      do_access_loop c f d (j + 1) p x w
  end.

Definition do_access (c : cfg) (d : dacsopt) (pos : N) : res (option N) :=
  n <- do_len c d ;;
  if n <=? pos then Ok None else
  x <- do_access_loop c (N.to_nat (do_num_levels d)) d 0 pos 0 0 ;; Ok (Some x).

Definition do_iter_next (c : cfg) (d : dacsopt) (pos : N) : res (N * option N) :=
  n <- do_len c d ;;
  if pos <? n then (x <- do_access c d pos ;; x <- unwrap x ;; p <- add c pos 1 ;; Ok (p, Some x))
  else Ok (pos, None).
