(* Model/Wavelet.v — src/char_sequences/wavelet_matrix.rs over the three supported backings
   (with the repairs of F7: values >= alph_size occur nowhere, `pos + k` is checked; and F10:
   rank_range tests the range end before emptiness). *)
From Sucds Require Import Base.Res Spec.WordSpec Model.BitVector Model.Rank9 Model.DArray Model.CompactVector.
Open Scope N_scope.

Inductive bkind := KRank9 | KDArray | KBitVec.
Inductive backing := BRank9 (x : r9sel) | BDArray (x : darray) | BBitVec (x : bitvec).

(* B::build_from_bits(bv.iter(), true, true, true) *)
Definition b_build (c : cfg) (k : bkind) (bv : bitvec) : res backing :=
  match k with
  | KRank9 => x <- r9_build c bv true true ;; Ok (BRank9 x)
  | KDArray => x <- da_build_cfg c bv true true ;; Ok (BDArray x)
  | KBitVec => Ok (BBitVec bv)
  end.
Definition b_num_bits (b : backing) : N :=
  match b with BRank9 x => r9_num_bits x | BDArray x => da_num_bits x | BBitVec x => bv_len x end.
Definition b_num_ones (c : cfg) (b : backing) : res N :=
  match b with BRank9 x => r9_num_ones c x | BDArray x => Ok (da_num_ones x) | BBitVec x => BitVector.num_ones c x end.
Definition b_num_zeros (c : cfg) (b : backing) : res N :=
  o <- b_num_ones c b ;; sub c (b_num_bits b) o.
Definition b_access (c : cfg) (b : backing) (i : N) : res (option bool) :=
  match b with BRank9 x => r9_access c x i | BDArray x => da_access c x i | BBitVec x => BitVector.access c x i end.
Definition b_rank1 (c : cfg) (b : backing) (i : N) : res (option N) :=
  match b with BRank9 x => r9_rank1 c x i | BDArray x => da_rank1 c x i | BBitVec x => BitVector.rank1 c x i end.
Definition b_rank0 (c : cfg) (b : backing) (i : N) : res (option N) :=
  match b with BRank9 x => r9_rank0 c x i | BDArray x => da_rank0 c x i | BBitVec x => BitVector.rank0 c x i end.
Definition b_select1 (c : cfg) (b : backing) (k : N) : res (option N) :=
  match b with BRank9 x => r9_select1 c x k | BDArray x => da_select1 c x k | BBitVec x => BitVector.select1 c x k end.
Definition b_select0 (c : cfg) (b : backing) (k : N) : res (option N) :=
  match b with BRank9 x => r9_select0 c x k | BDArray x => da_select0 c x k | BBitVec x => BitVector.select0 c x k end.

Record wavelet := { wm_layers : list backing; wm_alph_size : N }.

(* filter: one pass over a sequence; CompactVector push_int(val).unwrap() needs val to fit alph_width bits *)
Definition wm_filter (c : cfg) (alph_width shift : N) (st : list N * list N * bitvec) (val : N)
  : res (list N * list N * bitvec) :=
  let '(nz, no, bv) := st in
  t <- shr c val shift ;;
  let bit := N.land t 1 =? 1 in
  bv <- push_bit c bv bit ;;
  f <- fits c alph_width val ;; _ <- assert_ f ;;
  if bit then Ok (nz, no ++ [val], bv) else Ok (nz ++ [val], no, bv).

Fixpoint wm_layers_build (c : cfg) (k : bkind) (alph_width : N) (fuel : nat) (depth : N)
         (zeros ones : list N) (layers : list backing) : res (list backing) :=
  match fuel with
  | O => Ok layers
  | S f =>
      t <- sub c alph_width depth ;; shift <- sub c t 1 ;;
      st <- fold_res (wm_filter c alph_width shift) zeros ([], [], bv_empty) ;;
      st <- fold_res (wm_filter c alph_width shift) ones st ;;
      let '(nz, no, bv) := st in
      (* bv.iter() re-packed by from_bits inside build_from_bits *)
      l <- b_build c k bv ;;
      wm_layers_build c k alph_width f (depth + 1) nz no (layers ++ [l])
  end.

(* WaveletMatrix::new(seq): None = Err (empty).  seq is given by its values. *)
Definition wm_new (c : cfg) (k : bkind) (seq : list N) : res (option wavelet) :=
  match seq with
  | [] => Ok None
  | _ =>
      let mx := fold_left N.max seq 0 in
      alph_size <- add c mx 1 ;;
      alph_width <- needed_bits c alph_size ;;
      layers <- wm_layers_build c k alph_width (N.to_nat alph_width) 0 seq [] [] ;;
      Ok (Some {| wm_layers := layers; wm_alph_size := alph_size |})
  end.

Definition wm_len (w : wavelet) : N :=
  match wm_layers w with [] => 0 | l :: _ => b_num_bits l end.
Definition wm_alph_width (w : wavelet) : N := lenN (wm_layers w).

Definition wm_access (c : cfg) (w : wavelet) (pos : N) : res (option N) :=
  if wm_len w <=? pos then Ok None else
  r <- fold_res (fun (vp : N * N) layer =>
                   let '(val, pos) := vp in
                   val <- shl c val 1 ;;
                   a <- b_access c layer pos ;; a <- unwrap a ;;
                   if a : bool then
                     r <- b_rank1 c layer pos ;; r <- unwrap r ;;
                     z <- b_num_zeros c layer ;;
                     p <- add c r z ;; Ok (N.lor val 1, p)
                   else
                     r <- b_rank0 c layer pos ;; r <- unwrap r ;; Ok (val, r))
         (wm_layers w) (0, pos) ;;
  Ok (Some (fst r)).

(* ((val >> (width - pos - 1)) & 1) == 1 *)
Definition get_msb (c : cfg) (val pos width : N) : res bool :=
  t <- sub c width pos ;; s <- sub c t 1 ;; v <- shr c val s ;; Ok (N.land v 1 =? 1).

Definition wm_rank_range (c : cfg) (w : wavelet) (rs re val : N) : res (option N) :=
  if wm_len w <? re then Ok None else
  if re <=? rs then Ok (Some 0) else
  if wm_alph_size w <=? val then Ok (Some 0) else
  r <- fold_res (fun (st : N * N * N) layer =>
                   let '(depth, sp, ep) := st in
                   bit <- get_msb c val depth (wm_alph_width w) ;;
                   if bit : bool then
                     z <- b_num_zeros c layer ;;
                     a <- b_rank1 c layer sp ;; a <- unwrap a ;; sp <- add c a z ;;
                     b <- b_rank1 c layer ep ;; b <- unwrap b ;; ep <- add c b z ;;
                     Ok (depth + 1, sp, ep)
                   else
                     a <- b_rank0 c layer sp ;; a <- unwrap a ;;
                     b <- b_rank0 c layer ep ;; b <- unwrap b ;;
                     Ok (depth + 1, a, b))
         (wm_layers w) (0, rs, re) ;;
  let '(_, sp, ep) := r in
  Ok (Some (if sp <=? ep then ep - sp else 0)).           (* (start..end).len() *)
Definition wm_rank (c : cfg) (w : wavelet) (pos val : N) := wm_rank_range c w 0 pos val.

(* select_helper: recursion over the remaining layers *)
Fixpoint select_helper (c : cfg) (width : N) (layers : list backing) (k val pos depth : N) : res (option N) :=
  match layers with
  | [] => let s := pos + k in Ok (if s <? W then Some s else None)      (* pos.checked_add(k) *)
  | layer :: rest =>
      bit <- get_msb c val depth width ;;
      if bit : bool then
        zeros <- b_num_zeros c layer ;;
        r <- b_rank1 c layer pos ;; r <- unwrap r ;;
        pos <- add c r zeros ;;
        k' <- select_helper c width rest k val pos (depth + 1) ;;
        match k' with
        | None => Ok None
        | Some k' => d <- sub c k' zeros ;; b_select1 c layer d
        end
      else
        r <- b_rank0 c layer pos ;; pos <- unwrap r ;;
        k' <- select_helper c width rest k val pos (depth + 1) ;;
        match k' with
        | None => Ok None
        | Some k' => b_select0 c layer k'
        end
  end.
Definition wm_select (c : cfg) (w : wavelet) (k val : N) : res (option N) :=
  if wm_alph_size w <=? val then Ok None else
  select_helper c (wm_alph_width w) (wm_layers w) k val 0 0.

Definition wm_quantile (c : cfg) (w : wavelet) (rs re k : N) : res (option N) :=
  let rlen := if rs <=? re then re - rs else 0 in
  if rlen <=? k then Ok None else
  if wm_len w <? re then Ok None else
  r <- fold_res (fun (st : N * N * N * N) layer =>
                   let '(val, k, sp, ep) := st in
                   val <- shl c val 1 ;;
                   zs <- b_rank0 c layer sp ;; zs <- unwrap zs ;;
                   ze <- b_rank0 c layer ep ;; ze <- unwrap ze ;;
                   zeros <- sub c ze zs ;;
                   if k <? zeros then Ok (val, k, zs, ze) else
                   k <- sub c k zeros ;;
                   nz <- b_num_zeros c layer ;;
                   a <- add c nz sp ;; sp' <- sub c a zs ;;
                   b <- add c nz ep ;; ep' <- sub c b ze ;;
                   Ok (N.lor val 1, k, sp', ep'))
         (wm_layers w) (0, k, rs, re) ;;
  let '(val, _, _, _) := r in Ok (Some val).

(* one layer of intersect_helper: split the ranges; None = some range ends beyond the layer *)
Fixpoint split_ranges (c : cfg) (layer : backing) (ranges : list (N * N)) (zr orr : list (N * N))
  : res (option (list (N * N) * list (N * N))) :=
  match ranges with
  | [] => Ok (Some (zr, orr))
  | (sp, ep) :: rest =>
      if b_num_bits layer <? ep then Ok None else
      if ep <=? sp then split_ranges c layer rest zr orr else
      zs <- b_rank0 c layer sp ;; zs <- unwrap zs ;;
      ze <- b_rank0 c layer ep ;; ze <- unwrap ze ;;
      nz <- b_num_zeros c layer ;;
      a <- add c nz sp ;; os <- sub c a zs ;;
      b <- add c nz ep ;; oe <- sub c b ze ;;
      dz <- sub c ze zs ;; d1 <- sub c oe os ;;
      let zr := if 0 <? dz then zr ++ [(zs, ze)] else zr in
      let orr := if 0 <? d1 then orr ++ [(os, oe)] else orr in
      split_ranges c layer rest zr orr
  end.

Fixpoint intersect_helper (c : cfg) (layers : list backing) (ranges : list (N * N)) (k prefix : N)
  : res (option (list N)) :=
  match layers with
  | [] => Ok (Some [prefix])
  | layer :: rest =>
      s <- split_ranges c layer ranges [] [] ;;
      match s with
      | None => Ok None
      | Some (zr, orr) =>
          p2 <- shl c prefix 1 ;;
          a <- (if k <? lenN zr then intersect_helper c rest zr k p2 else Ok (Some [])) ;;
          match a with
          | None => Ok None
          | Some la =>
              b <- (if k <? lenN orr then intersect_helper c rest orr k (N.lor p2 1) else Ok (Some [])) ;;
              match b with
              | None => Ok None
              | Some lb => Ok (Some (la ++ lb))
              end
          end
      end
  end.
Definition wm_intersect (c : cfg) (w : wavelet) (ranges : list (N * N)) (k : N) : res (option (list N)) :=
  intersect_helper c (wm_layers w) ranges k 0.

Definition wm_iter_next (c : cfg) (w : wavelet) (pos : N) : res (N * option N) :=
  if pos <? wm_len w then (x <- wm_access c w pos ;; x <- unwrap x ;; p <- add c pos 1 ;; Ok (p, Some x))
  else Ok (pos, None).
