(* Model/CompactVector.v — src/int_vectors/compact_vector.rs and utils.rs
   (with the repair of F6: get_int checks `pos < len` first). *)
From Sucds Require Import Base.Res Spec.WordSpec Model.BitVector.
Open Scope N_scope.

Definition needed_bits (c : cfg) (x : N) : res N :=
  match msb_spec x with None => Ok 1 | Some n => add c n 1 end.
Definition ceiled_divide (c : cfg) (x y : N) : res N :=
  t <- add c x y ;; t <- sub c t 1 ;; div_ t y.

Record compvec := { cv_chunks : bitvec; cv_len : N; cv_width : N }.
Definition cv_default : compvec := {| cv_chunks := bv_empty; cv_len := 0; cv_width := 0 |}.

Definition width_ok (w : N) : bool := (1 <=? w) && (w <=? 64).

(* new / with_capacity: None = Err.  with_capacity also computes capa * width and, inside
   BitVector::with_capacity, words_for(capa * width). *)
Definition cv_new (width : N) : option compvec :=
  if width_ok width then Some {| cv_chunks := bv_empty; cv_len := 0; cv_width := width |} else None.
Definition cv_with_capacity (c : cfg) (capa width : N) : res (option compvec) :=
  if width_ok width then
    (n <- mul c capa width ;; _ <- words_for c n ;;
     Ok (Some {| cv_chunks := bv_empty; cv_len := 0; cv_width := width |}))
  else Ok None.

Definition fits (c : cfg) (width val : N) : res bool :=
  if negb (width =? 64) then (t <- shr c val width ;; Ok (t =? 0)) else Ok true.

Definition cv_push_int (c : cfg) (v : compvec) (val : N) : res (compvec * bool) :=
  f <- fits c (cv_width v) val ;;
  if negb f then Ok (v, false) else
  r <- push_bits c (cv_chunks v) val (cv_width v) ;;
  _ <- assert_ (snd r) ;;
  l <- add c (cv_len v) 1 ;;
  Ok ({| cv_chunks := fst r; cv_len := l; cv_width := cv_width v |}, true).

Fixpoint cv_extend (c : cfg) (v : compvec) (vals : list N) : res (compvec * bool) :=
  match vals with
  | [] => Ok (v, true)
  | x :: r => s <- cv_push_int c v x ;;
              if snd s then cv_extend c (fst s) r else Ok (fst s, false)
  end.

Fixpoint cv_push_n (c : cfg) (n : nat) (v : compvec) (val : N) : res compvec :=
  match n with
  | O => Ok v
  | S m => r <- cv_push_int c v val ;; _ <- assert_ (snd r) ;; cv_push_n c m (fst r) val
  end.

Definition cv_from_int (c : cfg) (val len width : N) : res (option compvec) :=
  if negb (width_ok width) then Ok None else
  f <- (if width <? 64 then (t <- shr c val width ;; Ok (t =? 0)) else Ok true) ;;
  if negb f then Ok None else
  v <- cv_with_capacity c len width ;; v <- unwrap v ;;
  v <- cv_push_n c (N.to_nat len) v val ;;
  Ok (Some v).

Definition cv_from_slice (c : cfg) (vals : list N) : res (option compvec) :=
  match vals with
  | [] => Ok (Some cv_default)
  | _ =>
      let max_int := fold_left N.max vals 0 in
      w <- needed_bits c max_int ;;
      v <- cv_with_capacity c (lenN vals) w ;;
      match v with
      | None => Ok None
      | Some v =>
          v <- fold_res (fun v x => r <- cv_push_int c v x ;; _ <- assert_ (snd r) ;; Ok (fst r)) vals v ;;
          Ok (Some v)
      end
  end.

Definition cv_get_int (c : cfg) (v : compvec) (pos : N) : res (option N) :=
  if cv_len v <=? pos then Ok None else
  p <- mul c pos (cv_width v) ;;
  get_bits c (cv_chunks v) p (cv_width v).
Definition cv_access := cv_get_int.

Definition cv_set_int (c : cfg) (v : compvec) (pos val : N) : res (compvec * bool) :=
  if cv_len v <=? pos then Ok (v, false) else
  f <- fits c (cv_width v) val ;;
  if negb f then Ok (v, false) else
  p <- mul c pos (cv_width v) ;;
  r <- set_bits c (cv_chunks v) p val (cv_width v) ;;
  _ <- assert_ (snd r) ;;
  Ok ({| cv_chunks := fst r; cv_len := cv_len v; cv_width := cv_width v |}, true).

Definition cv_iter_next (c : cfg) (v : compvec) (pos : N) : res (N * option N) :=
  if pos <? cv_len v then
    x <- cv_access c v pos ;; x <- unwrap x ;; p <- add c pos 1 ;; Ok (p, Some x)
  else Ok (pos, None).

Definition cv_to_list (c : cfg) (v : compvec) : res (list N) :=
  map_res (fun i => x <- cv_get_int c v i ;; unwrap x) (nseq (cv_len v)).

Definition cv_eqb (a b : compvec) : bool :=
  bv_eqb (cv_chunks a) (cv_chunks b) && (cv_len a =? cv_len b) && (cv_width a =? cv_width b).
