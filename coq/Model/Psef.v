(* Model/Psef.v — src/int_vectors/prefix_summed_elias_fano.rs. *)
From Sucds Require Import Base.Res Spec.WordSpec Model.BitVector Model.DArray Model.EliasFano.
Open Scope N_scope.

Record psef := { ps_ef : eliasfano }.

(* from_slice: None = Err *)
Definition ps_from_slice (c : cfg) (vals : list N) : res (option psef) :=
  match vals with
  | [] => Ok None
  | _ =>
      universe <- fold_res (fun u x => add c u x) vals 0 ;;
      u1 <- add c universe 1 ;;
      b <- efb_new c u1 (lenN vals) ;;
      match b with
      | None => Ok None
      | Some b =>
          (* cur += x; b.push(cur)? *)
          st <- fold_res (fun (st : efbuilder * N * bool) x =>
                            let '(b, cur, ok) := st in
                            if negb ok then Ok st else
                            cur <- add c cur x ;;
                            r <- efb_push c b cur ;;
                            Ok (fst r, cur, snd r)) vals (b, 0, true) ;;
          let '(b, _, ok) := st in
          if negb ok then Ok None else
          e <- efb_build c b ;; Ok (Some {| ps_ef := e |})
      end
  end.

Definition ps_len (p : psef) : N := ef_len (ps_ef p).
Definition ps_sum (c : cfg) (p : psef) : res N := sub c (ef_universe (ps_ef p)) 1.
Definition ps_access (c : cfg) (p : psef) (pos : N) : res (option N) := ef_delta c (ps_ef p) pos.
Definition ps_iter_next (c : cfg) (p : psef) (pos : N) : res (N * option N) :=
  if pos <? ps_len p then (x <- ps_access c p pos ;; x <- unwrap x ;; q <- add c pos 1 ;; Ok (q, Some x))
  else Ok (pos, None).
