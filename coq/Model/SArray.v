(* Model/SArray.v — src/bit_vectors/sarray.rs (with the repair of F5: rank1 checks its bound first). *)
From Sucds Require Import Base.Res Spec.WordSpec Model.BitVector Model.Unary Model.DArray Model.EliasFano.
Open Scope N_scope.

Record sarray := { sa_ef : option eliasfano; sa_num_bits : N; sa_num_ones : N; sa_has_rank : bool }.

(* `for i in bv.unary_iter(0) { b.push(i).unwrap() }` *)
Fixpoint push_ones (c : cfg) (fuel : nat) (bv : bitvec) (it : uiter) (b : efbuilder) : res efbuilder :=
  match fuel with
  | O => Panic
  | S f =>
      r <- unary_next c bv it ;;
      match snd r with
      | None => Ok b
      | Some i => s <- efb_push c b i ;; _ <- assert_ (snd s) ;; push_ones c f bv (fst r) (fst s)
      end
  end.

Definition sa_from_bv (c : cfg) (bv : bitvec) : res sarray :=
  let num_bits := bv_len bv in
  num_ones <- fold_res (fun acc w => add c acc (popcN w)) (bv_words bv) 0 ;;
  ef <- (if negb (num_ones =? 0) then
           (b <- efb_new c num_bits num_ones ;; b <- unwrap b ;;
            b <- push_ones c (S (S (N.to_nat num_ones))) bv (unary_new bv 0) b ;;
            e <- efb_build c b ;; Ok (Some e))
         else Ok None) ;;
  Ok {| sa_ef := ef; sa_num_bits := num_bits; sa_num_ones := num_ones; sa_has_rank := false |}.

Definition sa_enable_rank (c : cfg) (s : sarray) : res sarray :=
  ef <- (match sa_ef s with Some e => (e' <- ef_enable_rank c e ;; Ok (Some e')) | None => Ok None end) ;;
  Ok {| sa_ef := ef; sa_num_bits := sa_num_bits s; sa_num_ones := sa_num_ones s; sa_has_rank := true |}.

Definition sa_access (c : cfg) (s : sarray) (pos : N) : res (option bool) :=
  if sa_num_bits s <=? pos then Ok None else
  match sa_ef s with
  | None => Ok (Some false)
  | Some e => r <- ef_binsearch c e pos ;; Ok (Some (match r with Some _ => true | None => false end))
  end.

Definition sa_rank1 (c : cfg) (s : sarray) (pos : N) : res (option N) :=
  _ <- assert_ (sa_has_rank s) ;;
  if sa_num_bits s <? pos then Ok None else
  match sa_ef s with None => Ok (Some 0) | Some e => ef_rank c e pos end.
Definition sa_rank0 (c : cfg) (s : sarray) (pos : N) : res (option N) :=
  r <- sa_rank1 c s pos ;;
  match r with None => Ok None | Some r1 => t <- sub c pos r1 ;; Ok (Some t) end.
Definition sa_select1 (c : cfg) (s : sarray) (k : N) : res (option N) :=
  match sa_ef s with None => Ok None | Some e => ef_select c e k end.
Definition sa_predecessor1 (c : cfg) (s : sarray) (pos : N) : res (option N) :=
  _ <- assert_ (sa_has_rank s) ;;
  match sa_ef s with None => Ok None | Some e => ef_predecessor c e pos end.
Definition sa_successor1 (c : cfg) (s : sarray) (pos : N) : res (option N) :=
  _ <- assert_ (sa_has_rank s) ;;
  match sa_ef s with None => Ok None | Some e => ef_successor c e pos end.
