(* Model/Rank9.v — src/bit_vectors/rank9sel/inner.rs and rank9sel.rs. *)
From Sucds Require Import Base.Res Spec.WordSpec Model.BitVector.
Open Scope N_scope.

Definition BLOCK_LEN : N := 8.
Definition SELECT_ONES_PER_HINT : N := 1024.
Definition SELECT_ZEROS_PER_HINT : N := 1024.
Definition ONES_STEP_9 : N := 18049651735527937.
Definition MSBS_STEP_9 : N := 4620710844295151872.
Definition INV_COUNT_STEP_9 : N := 18084973950274567.

Record r9index := {
  r_len : N;
  r_brp : list N;                  (* block_rank_pairs *)
  r_h1 : option (list N);          (* select1_hints *)
  r_h0 : option (list N) }.        (* select0_hints *)

(* state of the `for i in 0..bv.num_words()` loop *)
Record brstate := { s_i : N; s_next : N; s_cur : N; s_sub : N; s_brp : list N }.

Definition build_rank_step (c : cfg) (s : brstate) (w : N) : res brstate :=
  let word_pop := popcN w in
  let shift := s_i s mod BLOCK_LEN in
  subranks <- (if negb (shift =? 0) then (t <- shl c (s_sub s) 9 ;; Ok (N.lor t (s_cur s)))
               else Ok (s_sub s)) ;;
  next_rank <- add c (s_next s) word_pop ;;
  cur <- add c (s_cur s) word_pop ;;
  if shift =? BLOCK_LEN - 1 then
    Ok {| s_i := s_i s + 1; s_next := next_rank; s_cur := 0; s_sub := 0;
          s_brp := s_brp s ++ [subranks; next_rank] |}
  else
    Ok {| s_i := s_i s + 1; s_next := next_rank; s_cur := cur; s_sub := subranks; s_brp := s_brp s |}.

Fixpoint pad_subranks (c : cfg) (n : nat) (subranks cur : N) : res N :=
  match n with
  | O => Ok subranks
  | S m => t <- shl c subranks 9 ;; pad_subranks c m (N.lor t cur) cur
  end.

Definition build_rank (c : cfg) (bv : bitvec) : res r9index :=
  s <- fold_res (build_rank_step c) (bv_words bv)
         {| s_i := 0; s_next := 0; s_cur := 0; s_sub := 0; s_brp := [0] |} ;;
  let nw := lenN (bv_words bv) in
  left <- sub c BLOCK_LEN (nw mod BLOCK_LEN) ;;
  subranks <- pad_subranks c (N.to_nat left) (s_sub s) (s_cur s) ;;
  let brp := s_brp s ++ [subranks] in
  let brp := if negb (nw mod BLOCK_LEN =? 0) then brp ++ [s_next s; 0] else brp in
  Ok {| r_len := bv_len bv; r_brp := brp; r_h1 := None; r_h0 := None |}.

Definition num_ones (c : cfg) (r : r9index) : res N :=
  i <- sub c (lenN (r_brp r)) 2 ;; idx 0 (r_brp r) i.
Definition num_zeros (c : cfg) (r : r9index) : res N :=
  o <- num_ones c r ;; sub c (r_len r) o.
Definition num_blocks (c : cfg) (r : r9index) : res N := sub c (lenN (r_brp r) / 2) 1.
Definition block_rank (c : cfg) (r : r9index) (block : N) : res N :=
  i <- mul c block 2 ;; idx 0 (r_brp r) i.
Definition sub_block_ranks (c : cfg) (r : r9index) (block : N) : res N :=
  i <- mul c block 2 ;; i <- add c i 1 ;; idx 0 (r_brp r) i.
Definition sub_block_rank (c : cfg) (r : r9index) (sub_bpos : N) : res N :=
  let block := sub_bpos / BLOCK_LEN in
  let left := sub_bpos mod BLOCK_LEN in
  br <- block_rank c r block ;;
  sr <- sub_block_ranks c r block ;;
  l <- sub c 7 left ;; sh <- mul c l 9 ;; t <- shr c sr sh ;;
  add c br (N.land t 511).
Definition block_rank0 (c : cfg) (r : r9index) (block : N) : res N :=
  t <- mul c block BLOCK_LEN ;; t <- mul c t 64 ;; br <- block_rank c r block ;; sub c t br.

(* build_select1 / build_select0: the threshold walk over the blocks *)
Definition hints_step (c : cfg) (zeros : bool) (r : r9index) (st : list N * N) (i : N) : res (list N * N) :=
  let '(hints, thr) := st in
  i1 <- add c i 1 ;;
  x <- (if zeros then block_rank0 c r i1 else block_rank c r i1) ;;
  if thr <? x then (t <- add c thr SELECT_ONES_PER_HINT ;; Ok (hints ++ [i], t)) else Ok (hints, thr).

Definition build_hints (c : cfg) (zeros : bool) (r : r9index) : res (list N) :=
  nb <- num_blocks c r ;;
  st <- fold_res (hints_step c zeros r) (nseq nb) ([], SELECT_ONES_PER_HINT) ;;
  Ok (fst st ++ [nb]).

Definition select1_hints (c : cfg) (r : r9index) : res r9index :=
  h <- build_hints c false r ;;
  Ok {| r_len := r_len r; r_brp := r_brp r; r_h1 := Some h; r_h0 := r_h0 r |}.
Definition select0_hints (c : cfg) (r : r9index) : res r9index :=
  h <- build_hints c true r ;;
  Ok {| r_len := r_len r; r_brp := r_brp r; r_h1 := r_h1 r; r_h0 := Some h |}.

Definition rank1 (c : cfg) (r : r9index) (bv : bitvec) (pos : N) : res (option N) :=
  if bv_len bv <? pos then Ok None else
  if pos =? bv_len bv then (o <- num_ones c r ;; Ok (Some o)) else
  let sub_bpos := pos / 64 in
  let sub_left := pos mod 64 in
  r0 <- sub_block_rank c r sub_bpos ;;
  if negb (sub_left =? 0) then
    w <- idx 0 (bv_words bv) sub_bpos ;;
    s <- sub c 64 sub_left ;;
    t <- shl c w s ;;
    r1 <- add c r0 (popcN t) ;;
    Ok (Some r1)
  else Ok (Some r0).

Definition rank0 (c : cfg) (r : r9index) (bv : bitvec) (pos : N) : res (option N) :=
  x <- rank1 c r bv pos ;;
  match x with None => Ok None | Some r1 => t <- sub c pos r1 ;; Ok (Some t) end.

(* uleq_step_9 of broadword.rs (the generated definition is proved equal in the C14 proofs) *)
Definition uleq_step_9 (c : cfg) (x y : N) : res N :=
  t <- sub c (N.lor y MSBS_STEP_9) (N.land x (not64 MSBS_STEP_9)) ;;
  shr c (N.land (N.lxor (N.lor t (N.lxor x y)) (N.land x (not64 y))) MSBS_STEP_9) 8.

(* `while b - a > 1` bisection over block ranks *)
Definition bisect_step (c : cfg) (zeros : bool) (r : r9index) (k : N) (ab : N * N) : res (N * N + N) :=
  let '(a, b) := ab in
  d <- sub c b a ;;
  if 1 <? d then
    mid <- add c a (d / 2) ;;
    x <- (if zeros then block_rank0 c r mid else block_rank c r mid) ;;
    if x <=? k then Ok (inl (mid, b)) else Ok (inl (a, mid))
  else Ok (inr a).

Definition select_gen (c : cfg) (zeros : bool) (r : r9index) (bv : bitvec) (k : N) : res (option N) :=
  cnt <- (if zeros then num_zeros c r else num_ones c r) ;;
  if cnt <=? k then Ok None else
  nb <- num_blocks c r ;;
  ab <- (match (if zeros then r_h0 r else r_h1 r) with
         | Some hints =>
             let chunk := k / SELECT_ONES_PER_HINT in
             a <- (if negb (chunk =? 0) then (i <- sub c chunk 1 ;; idx 0 hints i) else Ok 0) ;;
             h <- idx 0 hints chunk ;; b <- add c h 1 ;;
             Ok (a, b)
         | None => Ok (0, nb)
         end) ;;
  block <- iter_fuel 66 (bisect_step c zeros r k) ab ;;
  _ <- dassert c (block <? nb) ;;
  block_offset <- mul c block BLOCK_LEN ;;
  cur_rank <- (if zeros then block_rank0 c r block else block_rank c r block) ;;
  _ <- dassert c (cur_rank <=? k) ;;
  d <- sub c k cur_rank ;;
  rank_in_block_parallel <- mul c d ONES_STEP_9 ;;
  sbr <- sub_block_ranks c r block ;;
  sub_ranks <- (if zeros then (t <- mul c 64 INV_COUNT_STEP_9 ;; sub c t sbr) else Ok sbr) ;;
  u <- uleq_step_9 c sub_ranks rank_in_block_parallel ;;
  t <- shr c (wmul u ONES_STEP_9) 54 ;;
  let sub_block_offset := N.land t 7 in
  l <- sub c 7 sub_block_offset ;;
  t <- shr c sub_ranks (wmul l 9) ;;
  cur_rank <- add c cur_rank (N.land t 511) ;;
  _ <- dassert c (cur_rank <=? k) ;;
  word_offset <- add c block_offset sub_block_offset ;;
  w <- idx 0 (bv_words bv) word_offset ;;
  let w := if zeros then not64 w else w in
  d <- sub c k cur_rank ;;
  p <- unwrap (select_in_word_spec w d) ;;
  a <- mul c word_offset 64 ;;
  sel <- add c a p ;;
  Ok (Some sel).

Definition select1 c := select_gen c false.
Definition select0 c := select_gen c true.

(* ---- Rank9Sel ---- *)
Record r9sel := { r9_bv : bitvec; r9_rs : r9index }.

Definition r9_new (c : cfg) (bv : bitvec) : res r9sel :=
  rs <- build_rank c bv ;; Ok {| r9_bv := bv; r9_rs := rs |}.
Definition r9_select1_hints (c : cfg) (x : r9sel) : res r9sel :=
  rs <- select1_hints c (r9_rs x) ;; Ok {| r9_bv := r9_bv x; r9_rs := rs |}.
Definition r9_select0_hints (c : cfg) (x : r9sel) : res r9sel :=
  rs <- select0_hints c (r9_rs x) ;; Ok {| r9_bv := r9_bv x; r9_rs := rs |}.
(* builder methods and Build::build_from_bits(_, _, with_select1, with_select0) are the same function *)
Definition r9_build (c : cfg) (bv : bitvec) (h1 h0 : bool) : res r9sel :=
  x <- r9_new c bv ;;
  x <- (if h1 then r9_select1_hints c x else Ok x) ;;
  if h0 then r9_select0_hints c x else Ok x.

Definition r9_num_bits (x : r9sel) : N := bv_len (r9_bv x).
Definition r9_num_ones (c : cfg) (x : r9sel) : res N := num_ones c (r9_rs x).
Definition r9_num_zeros (c : cfg) (x : r9sel) : res N :=          (* NumBits default method *)
  o <- r9_num_ones c x ;; sub c (r9_num_bits x) o.
Definition r9_access (c : cfg) (x : r9sel) (pos : N) := BitVector.access c (r9_bv x) pos.
Definition r9_rank1 (c : cfg) (x : r9sel) (pos : N) := rank1 c (r9_rs x) (r9_bv x) pos.
Definition r9_rank0 (c : cfg) (x : r9sel) (pos : N) := rank0 c (r9_rs x) (r9_bv x) pos.
Definition r9_select1 (c : cfg) (x : r9sel) (k : N) := select1 c (r9_rs x) (r9_bv x) k.
Definition r9_select0 (c : cfg) (x : r9sel) (k : N) := select0 c (r9_rs x) (r9_bv x) k.
