(* Model/Serial.v — every model value as a `val` of its serialization type (field order = struct order). *)
From Sucds Require Import Base.Res Spec.FormatSpec Model.BitVector Model.Rank9 Model.DArray
  Model.EliasFano Model.SArray Model.CompactVector Model.Dacs Model.Psef Model.Wavelet.
Open Scope N_scope.

Definition v_nums (l : list N) : val := VVec (map VNum l).
Definition v_optnums (o : option (list N)) : val := VOpt (option_map v_nums o).
Definition v_bitvec (b : bitvec) : val := VStruct [v_nums (bv_words b); VNum (bv_len b)].
Definition v_r9index (r : r9index) : val :=
  VStruct [VNum (r_len r); v_nums (r_brp r); v_optnums (r_h1 r); v_optnums (r_h0 r)].
Definition v_r9sel (x : r9sel) : val := VStruct [v_bitvec (r9_bv x); v_r9index (r9_rs x)].
Definition v_daindex (d : daindex) : val :=
  VStruct [VVec (map VInt (d_block_inv d)); v_nums (d_sub_inv d); v_nums (d_overflow d);
           VNum (d_num_positions d); VBool (d_over_one d)].
Definition v_darray (d : darray) : val :=
  VStruct [v_bitvec (da_bv d); v_daindex (da_s1 d); VOpt (option_map v_daindex (da_s0 d));
           VOpt (option_map v_r9index (da_r9 d))].
Definition v_ef (e : eliasfano) : val :=
  VStruct [v_darray (ef_high e); v_bitvec (ef_low e); VNum (ef_low_len e); VNum (ef_universe e)].
Definition v_sarray (s : sarray) : val :=
  VStruct [VOpt (option_map v_ef (sa_ef s)); VNum (sa_num_bits s); VNum (sa_num_ones s); VBool (sa_has_rank s)].
Definition v_compvec (v : compvec) : val :=
  VStruct [v_bitvec (cv_chunks v); VNum (cv_len v); VNum (cv_width v)].
Definition v_dacsbyte (d : dacsbyte) : val :=
  VStruct [VVec (map v_nums (db_data d)); VVec (map v_r9sel (db_flags d))].
Definition v_dacsopt (d : dacsopt) : val :=
  VStruct [VVec (map v_compvec (do_data d)); VVec (map v_r9sel (do_flags d))].
Definition v_psef (p : psef) : val := VStruct [v_ef (ps_ef p)].
Definition v_backing (b : backing) : val :=
  match b with BRank9 x => v_r9sel x | BDArray x => v_darray x | BBitVec x => v_bitvec x end.
Definition v_wavelet (w : wavelet) : val := VStruct [VVec (map v_backing (wm_layers w)); VNum (wm_alph_size w)].
