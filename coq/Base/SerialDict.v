(* Base/SerialDict.v — the vocabulary the regenerated generic `impl Serializable` blocks are written in
   (gen/SerialImplGen.v, produced by tools/translate.py, generator `serialimpl`, from src/serial.rs and
   src/serial/primitive.rs; tied to Spec/FormatSpec.v by Proofs/SerialImplTie.v).

     rio A              the value of a Rust expression of type `Result<A>` inside a function that may also panic:
                        `Panic` = panic (an overflow check), `Ok None` = `Err(e)`, `Ok (Some a)` = `Ok(a)`.
                        `x <-? m ;; k` is the `?` operator.  Plain `res` steps (checked arithmetic, `unwrap`) are
                        sequenced with the `bind` of Base/Res.v (`rio B` is `res (option B)`).
     io_ops Wr Rd       the two std I/O entry points the crate uses, over an abstract writer state `Wr` (the stream
                        behind a `W: Write`, whether owned or borrowed as `&mut W`) and reader state `Rd`:
                        `Write::write_all(&bytes)` answers the new state or fails; `Read::read_exact(&mut buf)`
                        with a buffer of k bytes answers the k bytes and the new state or fails.  Proofs/SerialIO.v
                        proves that the documented std loops behave like this for every schedule of short and
                        interrupted transfers (`read_exact_sched`, `write_all_sched`, `write_all_budget_spec`).
     serdict Wr Rd A    the four trait methods of `Serializable` for a Rust type whose values are modelled by `A`.
                        A function taking `writer: W` (or `&mut writer`) takes the writer state and returns the
                        new one next to its Rust result; likewise for readers.
     fold_rio           `for x in xs { .. ? .. }`: a fold that stops at the first `Err` / panic.
     uint_to_le ..      `to_le_bytes` / `from_le_bytes` of the fixed-width integers (k = byte width).

   Instances: `mem_io` (a `Vec<u8>` writer that cannot fail, a `&[u8]` reader), `budget_io` (a writer that
   accepts a total number of bytes and then fails). *)
From Sucds Require Import Base.Res Base.Loops Spec.FormatSpec.
Open Scope N_scope.

(* ---------------------------------------------------------------------------------------------
   Result<A> in a function that may panic
   --------------------------------------------------------------------------------------------- *)
Definition rio (A : Type) : Type := res (option A).
Definition ok {A} (a : A) : rio A := Ok (Some a).
Definition err {A} : rio A := Ok None.
Definition rbind {A B} (m : rio A) (k : A -> rio B) : rio B :=
  match m with Ok (Some a) => k a | Ok None => Ok None | Panic => Panic end.
Notation "x <-? m ;; k" := (rbind m (fun x => k))
  (at level 61, m at next level, right associativity).
Notation "' pat <-? m ;; k" := (rbind m (fun x => match x with pat => k end))
  (at level 61, pat pattern, m at next level, right associativity).

Lemma rbind_ok {A B} (a : A) (k : A -> rio B) : rbind (ok a) k = k a.
Proof. reflexivity. Qed.
Lemma rbind_err {A B} (k : A -> rio B) : rbind err k = err.
Proof. reflexivity. Qed.

(* `for x in l { body? }` over a loop state s *)
Fixpoint fold_rio {S A} (f : S -> A -> rio S) (l : list A) (s : S) : rio S :=
  match l with
  | [] => ok s
  | x :: r => s' <-? f s x ;; fold_rio f r s'
  end.

(* ---------------------------------------------------------------------------------------------
   I/O
   --------------------------------------------------------------------------------------------- *)
Record io_ops (Wr Rd : Type) : Type := {
  io_write_all : Wr -> list N -> option Wr;
  io_read_exact : Rd -> N -> option (list N * Rd) }.
Arguments io_write_all {Wr Rd} _ _ _.
Arguments io_read_exact {Wr Rd} _ _ _.

(* `writer.write_all(&bs)` and `reader.read_exact(&mut buf)` with `buf.len() = k`, as Result values *)
Definition io_wr {Wr Rd} (io : io_ops Wr Rd) (w : Wr) (bs : list N) : rio Wr := Ok (io_write_all io w bs).
Definition io_rd {Wr Rd} (io : io_ops Wr Rd) (r : Rd) (k : N) : rio (list N * Rd) := Ok (io_read_exact io r k).

(* ---------------------------------------------------------------------------------------------
   the trait
   --------------------------------------------------------------------------------------------- *)
Record serdict (Wr Rd A : Type) : Type := {
  sd_ser : A -> Wr -> rio (Wr * N);          (* serialize_into(&self, writer) -> Result<usize> *)
  sd_deser : Rd -> rio (A * Rd);             (* deserialize_from(reader) -> Result<Self> *)
  sd_size : A -> res N;                      (* size_in_bytes(&self) -> usize *)
  sd_size_of : res (option N) }.             (* size_of() -> Option<usize> *)
Arguments sd_ser {Wr Rd A} _ _ _.
Arguments sd_deser {Wr Rd A} _ _.
Arguments sd_size {Wr Rd A} _ _.
Arguments sd_size_of {Wr Rd A} _.

(* ---------------------------------------------------------------------------------------------
   to_le_bytes / from_le_bytes (k = std::mem::size_of::<T>()); unsigned values are N, signed ones Z
   (two's complement)
   --------------------------------------------------------------------------------------------- *)
Definition uint_to_le (k : N) (n : N) : list N := le_bytes (N.to_nat k) n.
Definition uint_of_le (k : N) (bs : list N) : N := le_val bs.
Definition sint_to_le (k : N) (z : Z) : list N :=
  le_bytes (N.to_nat k) (Z.to_N (z mod 2 ^ (8 * Z.of_N k))%Z).
Definition sint_of_le (k : N) (bs : list N) : Z :=
  let n := le_val bs in
  if n <? 2 ^ (8 * k - 1) then Z.of_N n else (Z.of_N n - 2 ^ (8 * Z.of_N k))%Z.

(* ---------------------------------------------------------------------------------------------
   instances
   --------------------------------------------------------------------------------------------- *)
(* `&[u8]` as Read: read_exact of k bytes takes exactly k bytes or fails *)
Definition slice_read_exact (r : list N) (k : N) : option (list N * list N) :=
  let h := firstn (N.to_nat k) r in
  if lenN h =? k then Some (h, skipn (N.to_nat k) r) else None.

(* `Vec<u8>` as Write: appends, never fails *)
Definition mem_io : io_ops (list N) (list N) :=
  {| io_write_all := fun w bs => Some (w ++ bs); io_read_exact := slice_read_exact |}.

(* a writer that accepts `budget` more bytes in total and then fails: (written so far, budget) *)
Definition budget_io : io_ops (list N * N) (list N) :=
  {| io_write_all := fun w bs =>
       if lenN bs <=? snd w then Some (fst w ++ bs, snd w - lenN bs) else None;
     io_read_exact := slice_read_exact |}.
