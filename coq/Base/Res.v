(* Base/Res.v — results, build configurations and Rust's machine arithmetic on usize.
   A `usize` is an N below W = 2^64.  Every primitive follows DESIGN.md §3.1. *)
From Coq Require Export NArith ZArith List Bool Lia.
Export ListNotations.
Open Scope N_scope.

Inductive res (A : Type) : Type := Ok (a : A) | Panic.
Arguments Ok {A} a.
Arguments Panic {A}.

Definition bind {A B} (m : res A) (k : A -> res B) : res B :=
  match m with Ok a => k a | Panic => Panic end.
Notation "x <- m ;; k" := (bind m (fun x => k))
  (at level 61, m at next level, right associativity).
Notation "' pat <- m ;; k" := (bind m (fun x => match x with pat => k end))
  (at level 61, pat pattern, m at next level, right associativity).

Definition rmap {A B} (f : A -> B) (m : res A) : res B :=
  match m with Ok a => Ok (f a) | Panic => Panic end.

(* overflow-checks + debug-assertions on (dev profile) / off (release); cargo feature intrinsics *)
Record cfg := { dbg : bool; intr : bool }.

Definition W : N := 18446744073709551616.          (* 2^64 *)
Definition MASK64 : N := 18446744073709551615.     (* usize::MAX *)
Definition wrap (x : N) : N := N.land x MASK64.    (* x mod 2^64 *)

Definition add (c : cfg) (a b : N) : res N :=
  let s := a + b in if s <? W then Ok s else if dbg c then Panic else Ok (wrap s).
Definition sub (c : cfg) (a b : N) : res N :=
  if b <=? a then Ok (a - b) else if dbg c then Panic else Ok (wrap (a + W - b)).
Definition mul (c : cfg) (a b : N) : res N :=
  let p := a * b in if p <? W then Ok p else if dbg c then Panic else Ok (wrap p).
Definition shl (c : cfg) (a s : N) : res N :=
  if s <? 64 then Ok (wrap (N.shiftl a s))
  else if dbg c then Panic else Ok (wrap (N.shiftl a (N.land s 63))).
Definition shr (c : cfg) (a s : N) : res N :=
  if s <? 64 then Ok (N.shiftr a s)
  else if dbg c then Panic else Ok (N.shiftr a (N.land s 63)).
Definition wmul (a b : N) : N := wrap (a * b).                       (* wrapping_mul *)
Definition wshl (a s : N) : N := wrap (N.shiftl a (N.land s 63)).    (* wrapping_shl(s as u32): s < 2^32 *)
Definition not64 (a : N) : N := N.lxor a MASK64.                     (* !a, a < 2^64 *)
Definition div_ (a b : N) : res N := if b =? 0 then Panic else Ok (a / b).
Definition rem_ (a b : N) : res N := if b =? 0 then Panic else Ok (a mod b).

Definition lenN {A} (l : list A) : N := N.of_nat (length l).
Definition nthN {A} (l : list A) (i : N) (d : A) : A := nth (N.to_nat i) l d.
(* v[i]: the index is compared in N before any conversion to nat *)
Definition idx {A} (d : A) (l : list A) (i : N) : res A :=
  if i <? lenN l then Ok (nthN l i d) else Panic.
Definition unwrap {A} (o : option A) : res A :=
  match o with Some a => Ok a | None => Panic end.
Definition assert_ (b : bool) : res unit := if b then Ok tt else Panic.
Definition dassert (c : cfg) (b : bool) : res unit :=
  if dbg c then (if b then Ok tt else Panic) else Ok tt.

Fixpoint fold_res {S A} (f : S -> A -> res S) (l : list A) (s : S) : res S :=
  match l with
  | [] => Ok s
  | x :: r => s' <- f s x ;; fold_res f r s'
  end.

Fixpoint map_res {A B} (f : A -> res B) (l : list A) : res (list B) :=
  match l with
  | [] => Ok []
  | x :: r => y <- f x ;; ys <- map_res f r ;; Ok (y :: ys)
  end.

(* `loop`/`while`: step returns inl (next state) or inr (result); out of fuel = Panic *)
Fixpoint iter_fuel {S R} (fuel : nat) (step : S -> res (S + R)) (s : S) : res R :=
  match fuel with
  | O => Panic
  | Datatypes.S n =>
      r <- step s ;;
      match r with inl s' => iter_fuel n step s' | inr v => Ok v end
  end.

(* replace element i of l (i < length l assumed; otherwise unchanged) *)
Fixpoint set_nth {A} (n : nat) (l : list A) (x : A) : list A :=
  match l, n with
  | [], _ => []
  | _ :: r, O => x :: r
  | y :: r, Datatypes.S m => y :: set_nth m r x
  end.
Definition setN {A} (l : list A) (i : N) (x : A) : list A := set_nth (N.to_nat i) l x.

Definition b2n (b : bool) : N := if b then 1 else 0.

Fixpoint last_opt {A} (l : list A) : option A :=
  match l with [] => None | [x] => Some x | _ :: r => last_opt r end.

(* 0, 1, ..., n-1 (counting in N: linear time when extracted; Proofs/ResLemmas.nseq_unfold gives the
   map/seq form) *)
Fixpoint nseq_from (start : N) (k : nat) : list N :=
  match k with O => [] | S m => start :: nseq_from (N.succ start) m end.
Definition nseq (n : N) : list N := nseq_from 0 (N.to_nat n).

Arguments N.add : simpl never.
Arguments N.sub : simpl never.
Arguments N.mul : simpl never.
Arguments N.div : simpl never.
Arguments N.modulo : simpl never.
Arguments N.pow : simpl never.
Arguments N.shiftl : simpl never.
Arguments N.shiftr : simpl never.
Arguments N.land : simpl never.
Arguments N.lor : simpl never.
Arguments N.lxor : simpl never.
Arguments N.ltb : simpl never.
Arguments N.leb : simpl never.
Arguments N.eqb : simpl never.
Arguments N.testbit : simpl never.
Arguments N.of_nat : simpl never.
Arguments N.to_nat : simpl never.
