(* Base/Loops.v — loop combinators used by the generated code of gen/LoopsGen.v (tools/translate.py,
   section "functions with loops").

     loopN n step s     `while` / `loop`: iterate `step` at most n times (n in binary, the translator uses
                        W = 2^64); `step` answers `inl s'` (next iteration) or `inr r` (the loop is left
                        with r); a panicking step or an exhausted bound is `Panic`.  Defined by divide and
                        conquer over the positive n: the evaluation cost is proportional to the number of
                        iterations actually performed (plus the number of bits of n), not to n.
     fold_res_brk f l s `for x in l` with `break` / `return`: `inl s` after the last element, `inr r` at
                        the first early exit.
     nrange a b         the elements of the Rust range `a..b`.
   `for` loops without early exit use `fold_res` of Base/Res.v. *)
From Sucds Require Import Base.Res.
Open Scope N_scope.

(* ---------------------------------------------------------------------------------------------
   sequencing of step results
   --------------------------------------------------------------------------------------------- *)
Definition andthen {S R} (m : res (S + R)) (k : S -> res (S + R)) : res (S + R) :=
  match m with Ok (inl s) => k s | o => o end.

Lemma andthen_assoc {S R} (m : res (S + R)) k1 k2 :
  andthen (andthen m k1) k2 = andthen m (fun s => andthen (k1 s) k2).
Proof. destruct m as [[s|r]|]; reflexivity. Qed.

Lemma andthen_ext {S R} (m : res (S + R)) k1 k2 :
  (forall s, k1 s = k2 s) -> andthen m k1 = andthen m k2.
Proof. intros H. destruct m as [[s|r]|]; cbn; auto. Qed.

(* ---------------------------------------------------------------------------------------------
   loopN
   --------------------------------------------------------------------------------------------- *)
(* at most p iterations: `inl s'` when p iterations were performed without leaving the loop *)
Fixpoint loopP {S R} (p : positive) (step : S -> res (S + R)) (s : S) : res (S + R) :=
  match p with
  | xH => step s
  | xO q => andthen (loopP q step s) (loopP q step)
  | xI q => andthen (step s) (fun s0 => andthen (loopP q step s0) (loopP q step))
  end.

Definition loopN {S R} (n : N) (step : S -> res (S + R)) (s : S) : res R :=
  match n with
  | N0 => Panic
  | Npos p => match loopP p step s with Ok (inr r) => Ok r | _ => Panic end
  end.

Lemma loopP_succ {S R} (step : S -> res (S + R)) p :
  (forall s, loopP (Pos.succ p) step s = andthen (step s) (loopP p step)) /\
  (forall s, loopP (Pos.succ p) step s = andthen (loopP p step s) step).
Proof.
  induction p as [q [IHa IHb]|q [IHa IHb]|].
  - (* xI q: succ = xO (succ q) *)
    assert (Hc : forall s, andthen (loopP (Pos.succ q) step s) (loopP q step) = loopP (xI q) step s).
    { intro s. rewrite IHa, andthen_assoc. reflexivity. }
    assert (Hd : forall s, andthen (loopP q step s) (loopP (Pos.succ q) step) = loopP (xI q) step s).
    { intro s. rewrite (andthen_ext _ _ _ IHa), <- andthen_assoc, <- IHb. apply Hc. }
    split; intro s; change (Pos.succ q~1)%positive with ((Pos.succ q)~0)%positive;
      change (loopP (Pos.succ q)~0 step s)
        with (andthen (loopP (Pos.succ q) step s) (loopP (Pos.succ q) step)).
    + rewrite IHa, andthen_assoc. apply andthen_ext; intro s0. apply Hd.
    + rewrite (andthen_ext _ _ _ IHb), <- andthen_assoc, Hc. reflexivity.
  - (* xO q: succ = xI q *)
    split; intro s; change (Pos.succ q~0)%positive with (q~1)%positive.
    + reflexivity.
    + change (loopP q~0 step s) with (andthen (loopP q step s) (loopP q step)).
      rewrite andthen_assoc.
      rewrite (andthen_ext (loopP q step s) (fun s0 => andthen (loopP q step s0) step) (loopP (Pos.succ q) step))
        by (intro s0; symmetry; apply IHb).
      rewrite (andthen_ext _ _ _ IHa), <- andthen_assoc, <- IHb, IHa, andthen_assoc. reflexivity.
  - split; intro s; reflexivity.
Qed.

Lemma loopN_0 {S R} (step : S -> res (S + R)) s : loopN 0 step s = Panic.
Proof. reflexivity. Qed.

(* the unfolding lemma: one iteration *)
Lemma loopN_step {S R} (n : N) (step : S -> res (S + R)) s : 0 < n ->
  loopN n step s =
  match step s with
  | Panic => Panic
  | Ok (inr r) => Ok r
  | Ok (inl s') => loopN (n - 1) step s'
  end.
Proof.
  intros Hn. destruct n as [|p]; [inversion Hn|]. unfold loopN at 1.
  destruct (Pos.eq_dec p 1) as [->|Hp].
  - cbn [loopP]. destruct (step s) as [[s'|r]|]; reflexivity.
  - destruct (Pos.succ_pred_or p) as [?|E]; [contradiction|].
    rewrite <- E at 1. rewrite (proj1 (loopP_succ step (Pos.pred p))).
    replace (N.pos p - 1) with (N.pos (Pos.pred p)).
    2:{ clear - Hp. lia. }
    destruct (step s) as [[s'|r]|]; reflexivity.
Qed.

(* pointwise equal steps give equal loops (no functional extensionality needed) *)
Lemma loopP_ext {S R} (f g : S -> res (S + R)) : (forall s, f s = g s) ->
  forall p s, loopP p f s = loopP p g s.
Proof.
  intros H. induction p as [q IH|q IH|]; intro s; cbn [loopP].
  - rewrite H. apply andthen_ext; intro s0. rewrite IH. apply andthen_ext, IH.
  - rewrite IH. apply andthen_ext, IH.
  - apply H.
Qed.

Lemma loopN_ext {S R} n (f g : S -> res (S + R)) s : (forall s, f s = g s) -> loopN n f s = loopN n g s.
Proof. intros H. destruct n as [|p]; [reflexivity|]. unfold loopN. now rewrite (loopP_ext f g H). Qed.

(* a loop whose bound is large enough does not depend on it *)
Lemma loopN_mono {S R} (step : S -> res (S + R)) r : forall n m s,
  loopN n step s = Ok r -> n <= m -> loopN m step s = Ok r.
Proof.
  intros n. induction n as [|n IH] using N.peano_ind; intros m s H Hm.
  - discriminate.
  - rewrite loopN_step in H by (apply N.lt_0_succ).
    rewrite loopN_step by (eapply N.lt_le_trans; [apply N.lt_0_succ | exact Hm]).
    destruct (step s) as [[s'|r']|]; auto.
    replace (N.succ n - 1) with n in H by lia.
    apply IH with (m := m - 1) in H; [exact H | lia].
Qed.

(* ---------------------------------------------------------------------------------------------
   for loops with early exit
   --------------------------------------------------------------------------------------------- *)
Fixpoint fold_res_brk {S A R} (f : S -> A -> res (S + R)) (l : list A) (s : S) : res (S + R) :=
  match l with
  | [] => Ok (inl s)
  | x :: r => o <- f s x ;; match o with inl s' => fold_res_brk f r s' | inr v => Ok (inr v) end
  end.

Lemma fold_res_brk_nil {S A R} (f : S -> A -> res (S + R)) s : fold_res_brk f [] s = Ok (inl s).
Proof. reflexivity. Qed.

Lemma fold_res_brk_cons {S A R} (f : S -> A -> res (S + R)) x l s :
  fold_res_brk f (x :: l) s =
  match f s x with
  | Panic => Panic
  | Ok (inr v) => Ok (inr v)
  | Ok (inl s') => fold_res_brk f l s'
  end.
Proof. cbn [fold_res_brk bind]. destruct (f s x) as [[s'|v]|]; reflexivity. Qed.

Lemma fold_res_brk_app {S A R} (f : S -> A -> res (S + R)) l1 l2 s :
  fold_res_brk f (l1 ++ l2) s = andthen (fold_res_brk f l1 s) (fold_res_brk f l2).
Proof.
  revert s; induction l1 as [|x r IH]; intro s; [reflexivity|].
  cbn [app]. rewrite !fold_res_brk_cons. destruct (f s x) as [[s'|v]|]; auto.
Qed.

(* a body that never leaves early is a plain fold *)
Lemma fold_res_brk_noexit {S A R} (f : S -> A -> res (S + R)) (g : S -> A -> res S) l :
  (forall s x, f s x = rmap inl (g s x)) ->
  forall s, fold_res_brk f l s = rmap inl (fold_res g l s).
Proof.
  intros H. induction l as [|x r IH]; intro s; [reflexivity|].
  rewrite fold_res_brk_cons, H. cbn [fold_res bind]. destruct (g s x) as [s'|]; cbn [rmap bind]; auto.
Qed.

Lemma fold_res_ext {S A} (f g : S -> A -> res S) l :
  (forall s x, f s x = g s x) -> forall s, fold_res f l s = fold_res g l s.
Proof.
  intros H. induction l as [|x r IH]; intro s; [reflexivity|].
  cbn [fold_res]. rewrite H. destruct (g s x); cbn [bind]; auto.
Qed.

(* the two ways of leaving a loop that can also be left by `return` *)
Definition either {S} (r : S + S) : S := match r with inl s => s | inr s => s end.
Definition brk_join {S T} (r : S + (S + T)) : S + T := match r with inl s => inl s | inr x => x end.

(* ---------------------------------------------------------------------------------------------
   ranges and slices
   --------------------------------------------------------------------------------------------- *)
Definition nrange (a b : N) : list N := nseq_from a (N.to_nat (b - a)).   (* a..b *)

Lemma nrange_empty a b : b <= a -> nrange a b = [].
Proof. intros H. unfold nrange. replace (b - a) with 0 by (symmetry; now apply N.sub_0_le). reflexivity. Qed.

Lemma nrange_cons a b : a < b -> nrange a b = a :: nrange (N.succ a) b.
Proof.
  intros H. unfold nrange.
  replace (b - a) with (N.succ (b - N.succ a)).
  2:{ rewrite <- N.sub_succ_l by (now apply N.le_succ_l). now rewrite N.sub_succ. }
  rewrite N2Nat.inj_succ. reflexivity.
Qed.

(* (a..b).step_by(s) for s > 0: a, a+s, a+2s, .. below b (the translator emits the `s != 0` assertion of
   `step_by` separately unless s is a non-zero constant) *)
Fixpoint nrange_by_aux (fuel : nat) (a b s : N) : list N :=
  match fuel with
  | O => []
  | Datatypes.S f => if a <? b then a :: nrange_by_aux f (a + s) b s else []
  end.
Definition nrange_by (a b s : N) : list N := nrange_by_aux (N.to_nat (b - a)) a b s.

(* ---------------------------------------------------------------------------------------------
   isize: a Z in [-2^63, 2^63)
   --------------------------------------------------------------------------------------------- *)
Definition ISIZE_MIN : Z := (-9223372036854775808)%Z.
Definition ISIZE_MAX : Z := 9223372036854775807%Z.
Definition isize_ok (z : Z) : bool := ((ISIZE_MIN <=? z) && (z <=? ISIZE_MAX))%Z.
(* two's complement wrap of an out-of-range result (overflow checks off) *)
Definition isize_wrap (z : Z) : Z :=
  ((z - ISIZE_MIN) mod 18446744073709551616 + ISIZE_MIN)%Z.
Definition isize_chk (c : cfg) (z : Z) : res Z :=
  if isize_ok z then Ok z else if dbg c then Panic else Ok (isize_wrap z).
Definition isize_neg (c : cfg) (a : Z) : res Z := isize_chk c (- a)%Z.           (* -a *)
Definition isize_sub (c : cfg) (a b : Z) : res Z := isize_chk c (a - b)%Z.       (* a - b *)
(* `a as isize` (a < 2^64), `z as usize` (z an isize): reinterpretation of the 64 bits *)
Definition usize_as_isize (a : N) : Z :=
  if a <? 9223372036854775808 then Z.of_N a else (Z.of_N a - 18446744073709551616)%Z.
Definition isize_as_usize (z : Z) : N :=
  if (z <? 0)%Z then Z.to_N (z + 18446744073709551616) else Z.to_N z.

(* ---------------------------------------------------------------------------------------------
   an iterator struct passed where an `IntoIterator` is expected (`DArray::from_bits(bv.iter())`): the list of the
   items that repeated calls of its `next` yield, up to the first `None`
   --------------------------------------------------------------------------------------------- *)
Definition iter_collect {S A} (next : S -> res (S * option A)) (it : S) : res (list A) :=
  loopN W (fun '(it, acc) =>
      r <- next it ;;
      match snd r with
      | None => Ok (inr acc)
      | Some a => Ok (inl (fst r, acc ++ [a]))
      end) (it, []).

(* ---------------------------------------------------------------------------------------------
   added for the DACs and the wavelet matrix (Proofs/LoopsTieDW.v)
   --------------------------------------------------------------------------------------------- *)
(* a..=b (the bounds are usize values: b + 1 is computed in N, it cannot wrap) *)
Definition nrange_incl (a b : N) : list N := nrange a (b + 1).

(* v.iter().enumerate(): the pairs (index, element) *)
Definition enumerate_from {A} (start : N) (l : list A) : list (N * A) := combine (nseq_from start (length l)) l.
Definition enumerate {A} (l : list A) : list (N * A) := enumerate_from 0 l.

Lemma enumerate_from_cons {A} start (x : A) l :
  enumerate_from start (x :: l) = (start, x) :: enumerate_from (N.succ start) l.
Proof. reflexivity. Qed.

(* Iterator::max over usize items: None for an empty iterator *)
Definition list_max_opt (l : list N) : option N :=
  match l with [] => None | x :: r => Some (fold_left N.max r x) end.
