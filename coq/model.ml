
(** val negb : bool -> bool **)

let negb = function
| true -> false
| false -> true

type nat =
| O
| S of nat

(** val option_map : ('a1 -> 'a2) -> 'a1 option -> 'a2 option **)

let option_map f = function
| Some a -> Some (f a)
| None -> None

type ('a, 'b) sum =
| Inl of 'a
| Inr of 'b

(** val fst : ('a1 * 'a2) -> 'a1 **)

let fst = function
| (x, _) -> x

(** val snd : ('a1 * 'a2) -> 'a2 **)

let snd = function
| (_, y) -> y

(** val length : 'a1 list -> nat **)

let rec length = function
| [] -> O
| _ :: l' -> S (length l')

(** val app : 'a1 list -> 'a1 list -> 'a1 list **)

let rec app l m =
  match l with
  | [] -> m
  | a :: l1 -> a :: (app l1 m)

type comparison =
| Eq
| Lt
| Gt

(** val compOpp : comparison -> comparison **)

let compOpp = function
| Eq -> Eq
| Lt -> Gt
| Gt -> Lt

module Coq__1 = struct
 (** val add : nat -> nat -> nat **)
 let rec add n0 m =
   match n0 with
   | O -> m
   | S p -> S (add p m)
end
include Coq__1

type positive =
| XI of positive
| XO of positive
| XH

type n =
| N0
| Npos of positive

type z =
| Z0
| Zpos of positive
| Zneg of positive

(** val eqb : bool -> bool -> bool **)

let eqb b1 b2 =
  if b1 then b2 else if b2 then false else true

module Nat =
 struct
  (** val eqb : nat -> nat -> bool **)

  let rec eqb n0 m =
    match n0 with
    | O -> (match m with
            | O -> true
            | S _ -> false)
    | S n' -> (match m with
               | O -> false
               | S m' -> eqb n' m')
 end

module Pos =
 struct
  type mask =
  | IsNul
  | IsPos of positive
  | IsNeg
 end

module Coq_Pos =
 struct
  (** val succ : positive -> positive **)

  let rec succ = function
  | XI p -> XO (succ p)
  | XO p -> XI p
  | XH -> XO XH

  (** val add : positive -> positive -> positive **)

  let rec add x y =
    match x with
    | XI p ->
      (match y with
       | XI q -> XO (add_carry p q)
       | XO q -> XI (add p q)
       | XH -> XO (succ p))
    | XO p ->
      (match y with
       | XI q -> XI (add p q)
       | XO q -> XO (add p q)
       | XH -> XI p)
    | XH -> (match y with
             | XI q -> XO (succ q)
             | XO q -> XI q
             | XH -> XO XH)

  (** val add_carry : positive -> positive -> positive **)

  and add_carry x y =
    match x with
    | XI p ->
      (match y with
       | XI q -> XI (add_carry p q)
       | XO q -> XO (add_carry p q)
       | XH -> XI (succ p))
    | XO p ->
      (match y with
       | XI q -> XO (add_carry p q)
       | XO q -> XI (add p q)
       | XH -> XO (succ p))
    | XH ->
      (match y with
       | XI q -> XI (succ q)
       | XO q -> XO (succ q)
       | XH -> XI XH)

  (** val pred_double : positive -> positive **)

  let rec pred_double = function
  | XI p -> XI (XO p)
  | XO p -> XI (pred_double p)
  | XH -> XH

  type mask = Pos.mask =
  | IsNul
  | IsPos of positive
  | IsNeg

  (** val succ_double_mask : mask -> mask **)

  let succ_double_mask = function
  | IsNul -> IsPos XH
  | IsPos p -> IsPos (XI p)
  | IsNeg -> IsNeg

  (** val double_mask : mask -> mask **)

  let double_mask = function
  | IsPos p -> IsPos (XO p)
  | x0 -> x0

  (** val double_pred_mask : positive -> mask **)

  let double_pred_mask = function
  | XI p -> IsPos (XO (XO p))
  | XO p -> IsPos (XO (pred_double p))
  | XH -> IsNul

  (** val sub_mask : positive -> positive -> mask **)

  let rec sub_mask x y =
    match x with
    | XI p ->
      (match y with
       | XI q -> double_mask (sub_mask p q)
       | XO q -> succ_double_mask (sub_mask p q)
       | XH -> IsPos (XO p))
    | XO p ->
      (match y with
       | XI q -> succ_double_mask (sub_mask_carry p q)
       | XO q -> double_mask (sub_mask p q)
       | XH -> IsPos (pred_double p))
    | XH -> (match y with
             | XH -> IsNul
             | _ -> IsNeg)

  (** val sub_mask_carry : positive -> positive -> mask **)

  and sub_mask_carry x y =
    match x with
    | XI p ->
      (match y with
       | XI q -> succ_double_mask (sub_mask_carry p q)
       | XO q -> double_mask (sub_mask p q)
       | XH -> IsPos (pred_double p))
    | XO p ->
      (match y with
       | XI q -> double_mask (sub_mask_carry p q)
       | XO q -> succ_double_mask (sub_mask_carry p q)
       | XH -> double_pred_mask p)
    | XH -> IsNeg

  (** val mul : positive -> positive -> positive **)

  let rec mul x y =
    match x with
    | XI p -> add y (XO (mul p y))
    | XO p -> XO (mul p y)
    | XH -> y

  (** val iter : ('a1 -> 'a1) -> 'a1 -> positive -> 'a1 **)

  let rec iter f x = function
  | XI n' -> f (iter f (iter f x n') n')
  | XO n' -> iter f (iter f x n') n'
  | XH -> f x

  (** val size : positive -> positive **)

  let rec size = function
  | XI p0 -> succ (size p0)
  | XO p0 -> succ (size p0)
  | XH -> XH

  (** val compare_cont : comparison -> positive -> positive -> comparison **)

  let rec compare_cont r x y =
    match x with
    | XI p ->
      (match y with
       | XI q -> compare_cont r p q
       | XO q -> compare_cont Gt p q
       | XH -> Gt)
    | XO p ->
      (match y with
       | XI q -> compare_cont Lt p q
       | XO q -> compare_cont r p q
       | XH -> Gt)
    | XH -> (match y with
             | XH -> r
             | _ -> Lt)

  (** val compare : positive -> positive -> comparison **)

  let compare =
    compare_cont Eq

  (** val eqb : positive -> positive -> bool **)

  let rec eqb p q =
    match p with
    | XI p0 -> (match q with
                | XI q0 -> eqb p0 q0
                | _ -> false)
    | XO p0 -> (match q with
                | XO q0 -> eqb p0 q0
                | _ -> false)
    | XH -> (match q with
             | XH -> true
             | _ -> false)

  (** val coq_Nsucc_double : n -> n **)

  let coq_Nsucc_double = function
  | N0 -> Npos XH
  | Npos p -> Npos (XI p)

  (** val coq_Ndouble : n -> n **)

  let coq_Ndouble = function
  | N0 -> N0
  | Npos p -> Npos (XO p)

  (** val coq_lor : positive -> positive -> positive **)

  let rec coq_lor p q =
    match p with
    | XI p0 ->
      (match q with
       | XI q0 -> XI (coq_lor p0 q0)
       | XO q0 -> XI (coq_lor p0 q0)
       | XH -> p)
    | XO p0 ->
      (match q with
       | XI q0 -> XI (coq_lor p0 q0)
       | XO q0 -> XO (coq_lor p0 q0)
       | XH -> XI p0)
    | XH -> (match q with
             | XO q0 -> XI q0
             | _ -> q)

  (** val coq_land : positive -> positive -> n **)

  let rec coq_land p q =
    match p with
    | XI p0 ->
      (match q with
       | XI q0 -> coq_Nsucc_double (coq_land p0 q0)
       | XO q0 -> coq_Ndouble (coq_land p0 q0)
       | XH -> Npos XH)
    | XO p0 ->
      (match q with
       | XI q0 -> coq_Ndouble (coq_land p0 q0)
       | XO q0 -> coq_Ndouble (coq_land p0 q0)
       | XH -> N0)
    | XH -> (match q with
             | XO _ -> N0
             | _ -> Npos XH)

  (** val coq_lxor : positive -> positive -> n **)

  let rec coq_lxor p q =
    match p with
    | XI p0 ->
      (match q with
       | XI q0 -> coq_Ndouble (coq_lxor p0 q0)
       | XO q0 -> coq_Nsucc_double (coq_lxor p0 q0)
       | XH -> Npos (XO p0))
    | XO p0 ->
      (match q with
       | XI q0 -> coq_Nsucc_double (coq_lxor p0 q0)
       | XO q0 -> coq_Ndouble (coq_lxor p0 q0)
       | XH -> Npos (XI p0))
    | XH ->
      (match q with
       | XI q0 -> Npos (XO q0)
       | XO q0 -> Npos (XI q0)
       | XH -> N0)

  (** val shiftl : positive -> n -> positive **)

  let shiftl p = function
  | N0 -> p
  | Npos n1 -> iter (fun x -> XO x) p n1

  (** val iter_op : ('a1 -> 'a1 -> 'a1) -> positive -> 'a1 -> 'a1 **)

  let rec iter_op op p a =
    match p with
    | XI p0 -> op a (iter_op op p0 (op a a))
    | XO p0 -> iter_op op p0 (op a a)
    | XH -> a

  (** val to_nat : positive -> nat **)

  let to_nat x =
    iter_op Coq__1.add x (S O)

  (** val of_succ_nat : nat -> positive **)

  let rec of_succ_nat = function
  | O -> XH
  | S x -> succ (of_succ_nat x)
 end

module N =
 struct
  (** val succ_double : n -> n **)

  let succ_double = function
  | N0 -> Npos XH
  | Npos p -> Npos (XI p)

  (** val double : n -> n **)

  let double = function
  | N0 -> N0
  | Npos p -> Npos (XO p)

  (** val succ : n -> n **)

  let succ = function
  | N0 -> Npos XH
  | Npos p -> Npos (Coq_Pos.succ p)

  (** val add : n -> n -> n **)

  let add n0 m =
    match n0 with
    | N0 -> m
    | Npos p -> (match m with
                 | N0 -> n0
                 | Npos q -> Npos (Coq_Pos.add p q))

  (** val sub : n -> n -> n **)

  let sub n0 m =
    match n0 with
    | N0 -> N0
    | Npos n' ->
      (match m with
       | N0 -> n0
       | Npos m' ->
         (match Coq_Pos.sub_mask n' m' with
          | Coq_Pos.IsPos p -> Npos p
          | _ -> N0))

  (** val mul : n -> n -> n **)

  let mul n0 m =
    match n0 with
    | N0 -> N0
    | Npos p -> (match m with
                 | N0 -> N0
                 | Npos q -> Npos (Coq_Pos.mul p q))

  (** val compare : n -> n -> comparison **)

  let compare n0 m =
    match n0 with
    | N0 -> (match m with
             | N0 -> Eq
             | Npos _ -> Lt)
    | Npos n' -> (match m with
                  | N0 -> Gt
                  | Npos m' -> Coq_Pos.compare n' m')

  (** val eqb : n -> n -> bool **)

  let eqb n0 m =
    match n0 with
    | N0 -> (match m with
             | N0 -> true
             | Npos _ -> false)
    | Npos p -> (match m with
                 | N0 -> false
                 | Npos q -> Coq_Pos.eqb p q)

  (** val leb : n -> n -> bool **)

  let leb x y =
    match compare x y with
    | Gt -> false
    | _ -> true

  (** val ltb : n -> n -> bool **)

  let ltb x y =
    match compare x y with
    | Lt -> true
    | _ -> false

  (** val min : n -> n -> n **)

  let min n0 n' =
    match compare n0 n' with
    | Gt -> n'
    | _ -> n0

  (** val max : n -> n -> n **)

  let max n0 n' =
    match compare n0 n' with
    | Gt -> n0
    | _ -> n'

  (** val div2 : n -> n **)

  let div2 = function
  | N0 -> N0
  | Npos p0 -> (match p0 with
                | XI p -> Npos p
                | XO p -> Npos p
                | XH -> N0)

  (** val even : n -> bool **)

  let even = function
  | N0 -> true
  | Npos p -> (match p with
               | XO _ -> true
               | _ -> false)

  (** val odd : n -> bool **)

  let odd n0 =
    negb (even n0)

  (** val log2 : n -> n **)

  let log2 = function
  | N0 -> N0
  | Npos p0 ->
    (match p0 with
     | XI p -> Npos (Coq_Pos.size p)
     | XO p -> Npos (Coq_Pos.size p)
     | XH -> N0)

  (** val pos_div_eucl : positive -> n -> n * n **)

  let rec pos_div_eucl a b =
    match a with
    | XI a' ->
      let (q, r) = pos_div_eucl a' b in
      let r' = succ_double r in
      if leb b r' then ((succ_double q), (sub r' b)) else ((double q), r')
    | XO a' ->
      let (q, r) = pos_div_eucl a' b in
      let r' = double r in
      if leb b r' then ((succ_double q), (sub r' b)) else ((double q), r')
    | XH ->
      (match b with
       | N0 -> (N0, (Npos XH))
       | Npos p -> (match p with
                    | XH -> ((Npos XH), N0)
                    | _ -> (N0, (Npos XH))))

  (** val div_eucl : n -> n -> n * n **)

  let div_eucl a b =
    match a with
    | N0 -> (N0, N0)
    | Npos na -> (match b with
                  | N0 -> (N0, a)
                  | Npos _ -> pos_div_eucl na b)

  (** val div : n -> n -> n **)

  let div a b =
    fst (div_eucl a b)

  (** val modulo : n -> n -> n **)

  let modulo a b =
    snd (div_eucl a b)

  (** val coq_lor : n -> n -> n **)

  let coq_lor n0 m =
    match n0 with
    | N0 -> m
    | Npos p -> (match m with
                 | N0 -> n0
                 | Npos q -> Npos (Coq_Pos.coq_lor p q))

  (** val coq_land : n -> n -> n **)

  let coq_land n0 m =
    match n0 with
    | N0 -> N0
    | Npos p -> (match m with
                 | N0 -> N0
                 | Npos q -> Coq_Pos.coq_land p q)

  (** val coq_lxor : n -> n -> n **)

  let coq_lxor n0 m =
    match n0 with
    | N0 -> m
    | Npos p -> (match m with
                 | N0 -> n0
                 | Npos q -> Coq_Pos.coq_lxor p q)

  (** val shiftl : n -> n -> n **)

  let shiftl a n0 =
    match a with
    | N0 -> N0
    | Npos a0 -> Npos (Coq_Pos.shiftl a0 n0)

  (** val shiftr : n -> n -> n **)

  let shiftr a = function
  | N0 -> a
  | Npos p -> Coq_Pos.iter div2 a p

  (** val to_nat : n -> nat **)

  let to_nat = function
  | N0 -> O
  | Npos p -> Coq_Pos.to_nat p

  (** val of_nat : nat -> n **)

  let of_nat = function
  | O -> N0
  | S n' -> Npos (Coq_Pos.of_succ_nat n')
 end

(** val hd_error : 'a1 list -> 'a1 option **)

let hd_error = function
| [] -> None
| x :: _ -> Some x

(** val tl : 'a1 list -> 'a1 list **)

let tl = function
| [] -> []
| _ :: m -> m

(** val nth : nat -> 'a1 list -> 'a1 -> 'a1 **)

let rec nth n0 l default =
  match n0 with
  | O -> (match l with
          | [] -> default
          | x :: _ -> x)
  | S m -> (match l with
            | [] -> default
            | _ :: t -> nth m t default)

(** val nth_error : 'a1 list -> nat -> 'a1 option **)

let rec nth_error l = function
| O -> (match l with
        | [] -> None
        | x :: _ -> Some x)
| S n1 -> (match l with
           | [] -> None
           | _ :: l0 -> nth_error l0 n1)

(** val rev : 'a1 list -> 'a1 list **)

let rec rev = function
| [] -> []
| x :: l' -> app (rev l') (x :: [])

(** val rev_append : 'a1 list -> 'a1 list -> 'a1 list **)

let rec rev_append l l' =
  match l with
  | [] -> l'
  | a :: l0 -> rev_append l0 (a :: l')

(** val concat : 'a1 list list -> 'a1 list **)

let rec concat = function
| [] -> []
| x :: l0 -> app x (concat l0)

(** val map : ('a1 -> 'a2) -> 'a1 list -> 'a2 list **)

let rec map f = function
| [] -> []
| a :: t -> (f a) :: (map f t)

(** val flat_map : ('a1 -> 'a2 list) -> 'a1 list -> 'a2 list **)

let rec flat_map f = function
| [] -> []
| x :: t -> app (f x) (flat_map f t)

(** val fold_left : ('a1 -> 'a2 -> 'a1) -> 'a2 list -> 'a1 -> 'a1 **)

let rec fold_left f l a0 =
  match l with
  | [] -> a0
  | b :: t -> fold_left f t (f a0 b)

(** val fold_right : ('a2 -> 'a1 -> 'a1) -> 'a1 -> 'a2 list -> 'a1 **)

let rec fold_right f a0 = function
| [] -> a0
| b :: t -> f b (fold_right f a0 t)

(** val existsb : ('a1 -> bool) -> 'a1 list -> bool **)

let rec existsb f = function
| [] -> false
| a :: l0 -> (||) (f a) (existsb f l0)

(** val forallb : ('a1 -> bool) -> 'a1 list -> bool **)

let rec forallb f = function
| [] -> true
| a :: l0 -> (&&) (f a) (forallb f l0)

(** val filter : ('a1 -> bool) -> 'a1 list -> 'a1 list **)

let rec filter f = function
| [] -> []
| x :: l0 -> if f x then x :: (filter f l0) else filter f l0

(** val combine : 'a1 list -> 'a2 list -> ('a1 * 'a2) list **)

let rec combine l l' =
  match l with
  | [] -> []
  | x :: tl0 ->
    (match l' with
     | [] -> []
     | y :: tl' -> (x, y) :: (combine tl0 tl'))

(** val firstn : nat -> 'a1 list -> 'a1 list **)

let rec firstn n0 l =
  match n0 with
  | O -> []
  | S n1 -> (match l with
             | [] -> []
             | a :: l0 -> a :: (firstn n1 l0))

(** val skipn : nat -> 'a1 list -> 'a1 list **)

let rec skipn n0 l =
  match n0 with
  | O -> l
  | S n1 -> (match l with
             | [] -> []
             | _ :: l0 -> skipn n1 l0)

(** val repeat : 'a1 -> nat -> 'a1 list **)

let rec repeat x = function
| O -> []
| S k -> x :: (repeat x k)

module Z =
 struct
  (** val double : z -> z **)

  let double = function
  | Z0 -> Z0
  | Zpos p -> Zpos (XO p)
  | Zneg p -> Zneg (XO p)

  (** val succ_double : z -> z **)

  let succ_double = function
  | Z0 -> Zpos XH
  | Zpos p -> Zpos (XI p)
  | Zneg p -> Zneg (Coq_Pos.pred_double p)

  (** val pred_double : z -> z **)

  let pred_double = function
  | Z0 -> Zneg XH
  | Zpos p -> Zpos (Coq_Pos.pred_double p)
  | Zneg p -> Zneg (XI p)

  (** val pos_sub : positive -> positive -> z **)

  let rec pos_sub x y =
    match x with
    | XI p ->
      (match y with
       | XI q -> double (pos_sub p q)
       | XO q -> succ_double (pos_sub p q)
       | XH -> Zpos (XO p))
    | XO p ->
      (match y with
       | XI q -> pred_double (pos_sub p q)
       | XO q -> double (pos_sub p q)
       | XH -> Zpos (Coq_Pos.pred_double p))
    | XH ->
      (match y with
       | XI q -> Zneg (XO q)
       | XO q -> Zneg (Coq_Pos.pred_double q)
       | XH -> Z0)

  (** val add : z -> z -> z **)

  let add x y =
    match x with
    | Z0 -> y
    | Zpos x' ->
      (match y with
       | Z0 -> x
       | Zpos y' -> Zpos (Coq_Pos.add x' y')
       | Zneg y' -> pos_sub x' y')
    | Zneg x' ->
      (match y with
       | Z0 -> x
       | Zpos y' -> pos_sub y' x'
       | Zneg y' -> Zneg (Coq_Pos.add x' y'))

  (** val opp : z -> z **)

  let opp = function
  | Z0 -> Z0
  | Zpos x0 -> Zneg x0
  | Zneg x0 -> Zpos x0

  (** val sub : z -> z -> z **)

  let sub m n0 =
    add m (opp n0)

  (** val mul : z -> z -> z **)

  let mul x y =
    match x with
    | Z0 -> Z0
    | Zpos x' ->
      (match y with
       | Z0 -> Z0
       | Zpos y' -> Zpos (Coq_Pos.mul x' y')
       | Zneg y' -> Zneg (Coq_Pos.mul x' y'))
    | Zneg x' ->
      (match y with
       | Z0 -> Z0
       | Zpos y' -> Zneg (Coq_Pos.mul x' y')
       | Zneg y' -> Zpos (Coq_Pos.mul x' y'))

  (** val compare : z -> z -> comparison **)

  let compare x y =
    match x with
    | Z0 -> (match y with
             | Z0 -> Eq
             | Zpos _ -> Lt
             | Zneg _ -> Gt)
    | Zpos x' -> (match y with
                  | Zpos y' -> Coq_Pos.compare x' y'
                  | _ -> Gt)
    | Zneg x' ->
      (match y with
       | Zneg y' -> compOpp (Coq_Pos.compare x' y')
       | _ -> Lt)

  (** val leb : z -> z -> bool **)

  let leb x y =
    match compare x y with
    | Gt -> false
    | _ -> true

  (** val ltb : z -> z -> bool **)

  let ltb x y =
    match compare x y with
    | Lt -> true
    | _ -> false

  (** val eqb : z -> z -> bool **)

  let eqb x y =
    match x with
    | Z0 -> (match y with
             | Z0 -> true
             | _ -> false)
    | Zpos p -> (match y with
                 | Zpos q -> Coq_Pos.eqb p q
                 | _ -> false)
    | Zneg p -> (match y with
                 | Zneg q -> Coq_Pos.eqb p q
                 | _ -> false)

  (** val to_N : z -> n **)

  let to_N = function
  | Zpos p -> Npos p
  | _ -> N0

  (** val of_N : n -> z **)

  let of_N = function
  | N0 -> Z0
  | Npos p -> Zpos p

  (** val pos_div_eucl : positive -> z -> z * z **)

  let rec pos_div_eucl a b =
    match a with
    | XI a' ->
      let (q, r) = pos_div_eucl a' b in
      let r' = add (mul (Zpos (XO XH)) r) (Zpos XH) in
      if ltb r' b
      then ((mul (Zpos (XO XH)) q), r')
      else ((add (mul (Zpos (XO XH)) q) (Zpos XH)), (sub r' b))
    | XO a' ->
      let (q, r) = pos_div_eucl a' b in
      let r' = mul (Zpos (XO XH)) r in
      if ltb r' b
      then ((mul (Zpos (XO XH)) q), r')
      else ((add (mul (Zpos (XO XH)) q) (Zpos XH)), (sub r' b))
    | XH -> if leb (Zpos (XO XH)) b then (Z0, (Zpos XH)) else ((Zpos XH), Z0)

  (** val div_eucl : z -> z -> z * z **)

  let div_eucl a b =
    match a with
    | Z0 -> (Z0, Z0)
    | Zpos a' ->
      (match b with
       | Z0 -> (Z0, a)
       | Zpos _ -> pos_div_eucl a' b
       | Zneg b' ->
         let (q, r) = pos_div_eucl a' (Zpos b') in
         (match r with
          | Z0 -> ((opp q), Z0)
          | _ -> ((opp (add q (Zpos XH))), (add b r))))
    | Zneg a' ->
      (match b with
       | Z0 -> (Z0, a)
       | Zpos _ ->
         let (q, r) = pos_div_eucl a' b in
         (match r with
          | Z0 -> ((opp q), Z0)
          | _ -> ((opp (add q (Zpos XH))), (sub b r)))
       | Zneg b' -> let (q, r) = pos_div_eucl a' (Zpos b') in (q, (opp r)))

  (** val modulo : z -> z -> z **)

  let modulo a b =
    let (_, r) = div_eucl a b in r
 end

type 'a res =
| Ok of 'a
| Panic

(** val bind : 'a1 res -> ('a1 -> 'a2 res) -> 'a2 res **)

let bind m k =
  match m with
  | Ok a -> k a
  | Panic -> Panic

type cfg = { dbg : bool; intr : bool }

(** val w : n **)

let w =
  Npos (XO (XO (XO (XO (XO (XO (XO (XO (XO (XO (XO (XO (XO (XO (XO (XO (XO
    (XO (XO (XO (XO (XO (XO (XO (XO (XO (XO (XO (XO (XO (XO (XO (XO (XO (XO
    (XO (XO (XO (XO (XO (XO (XO (XO (XO (XO (XO (XO (XO (XO (XO (XO (XO (XO
    (XO (XO (XO (XO (XO (XO (XO (XO (XO (XO (XO
    XH))))))))))))))))))))))))))))))))))))))))))))))))))))))))))))))))

(** val mASK64 : n **)

let mASK64 =
  Npos (XI (XI (XI (XI (XI (XI (XI (XI (XI (XI (XI (XI (XI (XI (XI (XI (XI
    (XI (XI (XI (XI (XI (XI (XI (XI (XI (XI (XI (XI (XI (XI (XI (XI (XI (XI
    (XI (XI (XI (XI (XI (XI (XI (XI (XI (XI (XI (XI (XI (XI (XI (XI (XI (XI
    (XI (XI (XI (XI (XI (XI (XI (XI (XI (XI
    XH)))))))))))))))))))))))))))))))))))))))))))))))))))))))))))))))

(** val wrap : n -> n **)

let wrap x =
  N.coq_land x mASK64

(** val add0 : cfg -> n -> n -> n res **)

let add0 c a b =
  let s = N.add a b in
  if N.ltb s w then Ok s else if c.dbg then Panic else Ok (wrap s)

(** val sub0 : cfg -> n -> n -> n res **)

let sub0 c a b =
  if N.leb b a
  then Ok (N.sub a b)
  else if c.dbg then Panic else Ok (wrap (N.sub (N.add a w) b))

(** val mul0 : cfg -> n -> n -> n res **)

let mul0 c a b =
  let p = N.mul a b in
  if N.ltb p w then Ok p else if c.dbg then Panic else Ok (wrap p)

(** val shl : cfg -> n -> n -> n res **)

let shl c a s =
  if N.ltb s (Npos (XO (XO (XO (XO (XO (XO XH)))))))
  then Ok (wrap (N.shiftl a s))
  else if c.dbg
       then Panic
       else Ok
              (wrap
                (N.shiftl a (N.coq_land s (Npos (XI (XI (XI (XI (XI XH)))))))))

(** val shr : cfg -> n -> n -> n res **)

let shr c a s =
  if N.ltb s (Npos (XO (XO (XO (XO (XO (XO XH)))))))
  then Ok (N.shiftr a s)
  else if c.dbg
       then Panic
       else Ok (N.shiftr a (N.coq_land s (Npos (XI (XI (XI (XI (XI XH))))))))

(** val wmul : n -> n -> n **)

let wmul a b =
  wrap (N.mul a b)

(** val wshl : n -> n -> n **)

let wshl a s =
  wrap (N.shiftl a (N.coq_land s (Npos (XI (XI (XI (XI (XI XH))))))))

(** val not64 : n -> n **)

let not64 a =
  N.coq_lxor a mASK64

(** val div_ : n -> n -> n res **)

let div_ a b =
  if N.eqb b N0 then Panic else Ok (N.div a b)

(** val lenN : 'a1 list -> n **)

let lenN l =
  N.of_nat (length l)

(** val nthN : 'a1 list -> n -> 'a1 -> 'a1 **)

let nthN l i d =
  nth (N.to_nat i) l d

(** val idx : 'a1 -> 'a1 list -> n -> 'a1 res **)

let idx d l i =
  if N.ltb i (lenN l) then Ok (nthN l i d) else Panic

(** val unwrap : 'a1 option -> 'a1 res **)

let unwrap = function
| Some a -> Ok a
| None -> Panic

(** val assert_ : bool -> unit res **)

let assert_ = function
| true -> Ok ()
| false -> Panic

(** val dassert : cfg -> bool -> unit res **)

let dassert c b =
  if c.dbg then if b then Ok () else Panic else Ok ()

(** val fold_res : ('a1 -> 'a2 -> 'a1 res) -> 'a2 list -> 'a1 -> 'a1 res **)

let rec fold_res f l s =
  match l with
  | [] -> Ok s
  | x :: r -> bind (f s x) (fun s' -> fold_res f r s')

(** val map_res : ('a1 -> 'a2 res) -> 'a1 list -> 'a2 list res **)

let rec map_res f = function
| [] -> Ok []
| x :: r -> bind (f x) (fun y -> bind (map_res f r) (fun ys -> Ok (y :: ys)))

(** val iter_fuel : nat -> ('a1 -> ('a1, 'a2) sum res) -> 'a1 -> 'a2 res **)

let rec iter_fuel fuel step0 s =
  match fuel with
  | O -> Panic
  | S n0 ->
    bind (step0 s) (fun r ->
      match r with
      | Inl s' -> iter_fuel n0 step0 s'
      | Inr v -> Ok v)

(** val set_nth : nat -> 'a1 list -> 'a1 -> 'a1 list **)

let rec set_nth n0 l x =
  match l with
  | [] -> []
  | y :: r -> (match n0 with
               | O -> x :: r
               | S m -> y :: (set_nth m r x))

(** val setN : 'a1 list -> n -> 'a1 -> 'a1 list **)

let setN l i x =
  set_nth (N.to_nat i) l x

(** val b2n : bool -> n **)

let b2n = function
| true -> Npos XH
| false -> N0

(** val last_opt : 'a1 list -> 'a1 option **)

let rec last_opt = function
| [] -> None
| x :: r -> (match r with
             | [] -> Some x
             | _ :: _ -> last_opt r)

(** val nseq_from : n -> nat -> n list **)

let rec nseq_from start = function
| O -> []
| S m -> start :: (nseq_from (N.succ start) m)

(** val nseq : n -> n list **)

let nseq n0 =
  nseq_from N0 (N.to_nat n0)

(** val popcP : positive -> n **)

let rec popcP = function
| XI q -> N.succ (popcP q)
| XO q -> popcP q
| XH -> Npos XH

(** val popcN : n -> n **)

let popcN = function
| N0 -> N0
| Npos p -> popcP p

(** val ctzP : positive -> n **)

let rec ctzP = function
| XO q -> N.succ (ctzP q)
| _ -> N0

(** val ctz64 : n -> n **)

let ctz64 = function
| N0 -> Npos (XO (XO (XO (XO (XO (XO XH))))))
| Npos p -> ctzP p

(** val clz64 : n -> n **)

let clz64 n0 = match n0 with
| N0 -> Npos (XO (XO (XO (XO (XO (XO XH))))))
| Npos _ -> N.sub (Npos (XI (XI (XI (XI (XI XH)))))) (N.log2 n0)

(** val lsb_spec : n -> n option **)

let lsb_spec x =
  if N.eqb x N0 then None else Some (ctz64 x)

(** val msb_spec : n -> n option **)

let msb_spec x =
  if N.eqb x N0 then None else Some (N.log2 x)

(** val selP : positive -> n -> n -> n option **)

let rec selP p k pos =
  match p with
  | XI q ->
    if N.eqb k N0
    then Some pos
    else selP q (N.sub k (Npos XH)) (N.add pos (Npos XH))
  | XO q -> selP q k (N.add pos (Npos XH))
  | XH -> if N.eqb k N0 then Some pos else None

(** val select_in_word_spec : n -> n -> n option **)

let select_in_word_spec x k =
  match x with
  | N0 -> None
  | Npos p -> selP p k N0

(** val bits_n : nat -> n -> bool list **)

let rec bits_n n0 w0 =
  match n0 with
  | O -> []
  | S m -> (N.odd w0) :: (bits_n m (N.div2 w0))

(** val word_bits : n -> bool list **)

let word_bits w0 =
  bits_n (S (S (S (S (S (S (S (S (S (S (S (S (S (S (S (S (S (S (S (S (S (S (S
    (S (S (S (S (S (S (S (S (S (S (S (S (S (S (S (S (S (S (S (S (S (S (S (S
    (S (S (S (S (S (S (S (S (S (S (S (S (S (S (S (S (S
    O)))))))))))))))))))))))))))))))))))))))))))))))))))))))))))))))) w0

(** val access : bool list -> n -> bool option **)

let access b i =
  if N.ltb i (lenN b) then nth_error b (N.to_nat i) else None

(** val count : bool -> bool list -> n **)

let rec count v = function
| [] -> N0
| x :: r -> N.add (if eqb x v then Npos XH else N0) (count v r)

(** val rank : bool -> bool list -> n -> n option **)

let rank v b i =
  if N.leb i (lenN b) then Some (count v (firstn (N.to_nat i) b)) else None

(** val positions_from : bool -> bool list -> n -> n list **)

let rec positions_from v b p =
  match b with
  | [] -> []
  | x :: r ->
    if eqb x v
    then p :: (positions_from v r (N.add p (Npos XH)))
    else positions_from v r (N.add p (Npos XH))

(** val positions : bool -> bool list -> n list **)

let positions v b =
  positions_from v b N0

(** val select : bool -> bool list -> n -> n option **)

let select v b k =
  let ps = positions v b in
  if N.ltb k (lenN ps) then nth_error ps (N.to_nat k) else None

(** val pred : bool -> bool list -> n -> n option **)

let pred v b i =
  if N.ltb i (lenN b)
  then last_opt (filter (fun p -> N.leb p i) (positions v b))
  else None

(** val succ0 : bool -> bool list -> n -> n option **)

let succ0 v b i =
  if N.ltb i (lenN b)
  then hd_error (filter (fun p -> N.leb i p) (positions v b))
  else None

(** val bits_val : bool list -> n **)

let rec bits_val = function
| [] -> N0
| x :: r -> N.add (b2n x) (N.mul (Npos (XO XH)) (bits_val r))

(** val get_bits : bool list -> n -> n -> n option **)

let get_bits b pos len =
  if (&&) (N.leb len (Npos (XO (XO (XO (XO (XO (XO XH))))))))
       (N.leb (N.add pos len) (lenN b))
  then Some (bits_val (firstn (N.to_nat len) (skipn (N.to_nat pos) b)))
  else None

(** val get_word64 : bool list -> n -> n option **)

let get_word64 b pos =
  if N.ltb pos (lenN b)
  then Some
         (bits_val
           (firstn (S (S (S (S (S (S (S (S (S (S (S (S (S (S (S (S (S (S (S
             (S (S (S (S (S (S (S (S (S (S (S (S (S (S (S (S (S (S (S (S (S
             (S (S (S (S (S (S (S (S (S (S (S (S (S (S (S (S (S (S (S (S (S
             (S (S (S
             O))))))))))))))))))))))))))))))))))))))))))))))))))))))))))))))))
             (skipn (N.to_nat pos) b)))
  else None

(** val nth_opt : n list -> n -> n option **)

let nth_opt xs i =
  if N.ltb i (lenN xs) then nth_error xs (N.to_nat i) else None

(** val ef_select : n list -> n -> n option **)

let ef_select =
  nth_opt

(** val ef_delta : n list -> n -> n option **)

let ef_delta xs k =
  match nth_opt xs k with
  | Some x ->
    if N.eqb k N0
    then Some x
    else (match nth_opt xs (N.sub k (Npos XH)) with
          | Some p -> Some (N.sub x p)
          | None -> None)
  | None -> None

(** val ef_rank : n list -> n -> n -> n option **)

let ef_rank xs u p =
  if N.leb p u then Some (lenN (filter (fun x -> N.ltb x p) xs)) else None

(** val ef_pred : n list -> n -> n -> n option **)

let ef_pred xs u p =
  if N.ltb p u then last_opt (filter (fun x -> N.leb x p) xs) else None

(** val ef_succ : n list -> n -> n -> n option **)

let ef_succ xs u p =
  if N.ltb p u then hd_error (filter (fun x -> N.leb p x) xs) else None

(** val ef_iter : n list -> n -> n list **)

let ef_iter xs k =
  if N.ltb k (lenN xs) then skipn (N.to_nat k) xs else []

(** val occurs_in : n list -> n -> n -> n -> bool **)

let occurs_in xs a b v =
  (&&) ((&&) (N.ltb a b) (N.leb b (lenN xs)))
    (existsb (fun x -> N.eqb x v)
      (firstn (N.to_nat (N.sub b a)) (skipn (N.to_nat a) xs)))

(** val binsearch_ok : n list -> n -> n -> n -> n option -> bool **)

let binsearch_ok xs a b v = function
| Some i ->
  (&&) ((&&) ((&&) (N.leb a i) (N.ltb i b)) (N.leb b (lenN xs)))
    (match nth_opt xs i with
     | Some x -> N.eqb x v
     | None -> false)
| None -> negb (occurs_in xs a b v)

(** val efb_accepts : n -> n -> n list -> n -> bool **)

let efb_accepts u m acc v =
  (&&)
    ((&&) (match last_opt acc with
           | Some l -> N.leb l v
           | None -> true) (N.ltb v u)) (N.ltb (lenN acc) m)

(** val sub_seq : n list -> n -> n -> n list **)

let sub_seq xs a b =
  if N.ltb a b
  then firstn (N.to_nat (N.sub b a)) (skipn (N.to_nat a) xs)
  else []

(** val count_val : n -> n list -> n **)

let count_val v xs =
  lenN (filter (fun x -> N.eqb x v) xs)

(** val wm_rank_range : n list -> n -> n -> n -> n option **)

let wm_rank_range xs a b v =
  if N.ltb (lenN xs) b then None else Some (count_val v (sub_seq xs a b))

(** val positions_of_from : n -> n list -> n -> n list **)

let rec positions_of_from v xs p =
  match xs with
  | [] -> []
  | x :: r ->
    if N.eqb x v
    then p :: (positions_of_from v r (N.add p (Npos XH)))
    else positions_of_from v r (N.add p (Npos XH))

(** val wm_select : n list -> n -> n -> n option **)

let wm_select xs k v =
  nth_opt (positions_of_from v xs N0) k

(** val insert_sorted : n -> n list -> n list **)

let rec insert_sorted x l = match l with
| [] -> x :: []
| y :: r -> if N.leb x y then x :: l else y :: (insert_sorted x r)

(** val sort : n list -> n list **)

let sort l =
  fold_right insert_sorted [] l

(** val wm_quantile : n list -> n -> n -> n -> n option **)

let wm_quantile xs a b k =
  if N.ltb (lenN xs) b then None else nth_opt (sort (sub_seq xs a b)) k

(** val dedup_sorted : n list -> n list **)

let rec dedup_sorted = function
| [] -> []
| x :: r ->
  (match r with
   | [] -> x :: []
   | y :: _ -> if N.eqb x y then dedup_sorted r else x :: (dedup_sorted r))

(** val wm_intersect : n list -> (n * n) list -> n -> n list option **)

let wm_intersect xs ranges k =
  if existsb (fun r -> N.ltb (lenN xs) (snd r)) ranges
  then None
  else let subs = map (fun r -> sub_seq xs (fst r) (snd r)) ranges in
       let cands = dedup_sorted (sort (concat subs)) in
       Some
       (filter (fun v ->
         N.ltb k
           (lenN (filter (fun s -> existsb (fun x -> N.eqb x v) s) subs)))
         cands)

(** val bitlen : n -> n **)

let bitlen x =
  if N.eqb x N0 then Npos XH else N.add (N.log2 x) (Npos XH)

(** val max_list : n list -> n **)

let max_list l =
  fold_left N.max l N0

(** val reach : n list -> n -> n **)

let reach vals j =
  lenN (filter (fun x -> N.ltb j (bitlen x)) vals)

(** val cost_from : n list -> n -> n list -> n **)

let rec cost_from vals o = function
| [] -> N0
| w0 :: r ->
  (match r with
   | [] -> N.mul w0 (reach vals o)
   | _ :: _ ->
     N.add (N.mul (N.add w0 (Npos XH)) (reach vals o))
       (cost_from vals (N.add o w0) r))

(** val cost : n list -> n list -> n **)

let cost vals ws =
  cost_from vals N0 ws

(** val compositions : nat -> n -> n list list **)

let rec compositions l b =
  match l with
  | O -> if N.eqb b N0 then [] :: [] else []
  | S l' ->
    if N.eqb b N0
    then [] :: []
    else flat_map (fun w0 ->
           map (fun x -> w0 :: x) (compositions l' (N.sub b w0)))
           (map (fun i -> N.add i (Npos XH)) (nseq b))

(** val sum_list : n list -> n **)

let sum_list l =
  fold_left N.add l N0

(** val admissible : n list -> n list -> n -> bool **)

let admissible vals ws l =
  (&&)
    ((&&) ((&&) (N.leb (Npos XH) (lenN ws)) (N.leb (lenN ws) l))
      (forallb (fun w0 -> N.leb (Npos XH) w0) ws))
    (N.eqb (sum_list ws) (bitlen (max_list vals)))

(** val min_cost_brute : n list -> n -> n **)

let min_cost_brute vals l =
  let b = bitlen (max_list vals) in
  fold_left N.min
    (map (cost vals)
      (filter (fun ws -> negb (N.eqb (lenN ws) N0))
        (compositions (N.to_nat (N.min l b)) b))) (N.mul b (lenN vals))

(** val byte_levels : n list -> n **)

let byte_levels vals = match vals with
| [] -> Npos XH
| _ :: _ ->
  N.div (N.add (bitlen (max_list vals)) (Npos (XI (XI XH)))) (Npos (XO (XO
    (XO XH))))

type ty =
| TU8
| TU16
| TU64
| TI64
| TBool
| TVec of ty
| TOpt of ty
| TStruct of ty list

type val0 =
| VNum of n
| VInt of z
| VBool of bool
| VVec of val0 list
| VOpt of val0 option
| VStruct of val0 list

(** val le_bytes : nat -> n -> n list **)

let rec le_bytes k n0 =
  match k with
  | O -> []
  | S m ->
    (N.coq_land n0 (Npos (XI (XI (XI (XI (XI (XI (XI XH))))))))) :: (le_bytes
                                                                    m
                                                                    (N.shiftr
                                                                    n0 (Npos
                                                                    (XO (XO
                                                                    (XO
                                                                    XH))))))

(** val le_val : n list -> n **)

let rec le_val = function
| [] -> N0
| b :: r ->
  N.add b (N.mul (Npos (XO (XO (XO (XO (XO (XO (XO (XO XH))))))))) (le_val r))

(** val i64_to_n : z -> n **)

let i64_to_n z0 =
  Z.to_N
    (Z.modulo z0 (Zpos (XO (XO (XO (XO (XO (XO (XO (XO (XO (XO (XO (XO (XO
      (XO (XO (XO (XO (XO (XO (XO (XO (XO (XO (XO (XO (XO (XO (XO (XO (XO (XO
      (XO (XO (XO (XO (XO (XO (XO (XO (XO (XO (XO (XO (XO (XO (XO (XO (XO (XO
      (XO (XO (XO (XO (XO (XO (XO (XO (XO (XO (XO (XO (XO (XO (XO
      XH))))))))))))))))))))))))))))))))))))))))))))))))))))))))))))))))))

(** val n_to_i64 : n -> z **)

let n_to_i64 n0 =
  if N.ltb n0 (Npos (XO (XO (XO (XO (XO (XO (XO (XO (XO (XO (XO (XO (XO (XO
       (XO (XO (XO (XO (XO (XO (XO (XO (XO (XO (XO (XO (XO (XO (XO (XO (XO
       (XO (XO (XO (XO (XO (XO (XO (XO (XO (XO (XO (XO (XO (XO (XO (XO (XO
       (XO (XO (XO (XO (XO (XO (XO (XO (XO (XO (XO (XO (XO (XO (XO
       XH))))))))))))))))))))))))))))))))))))))))))))))))))))))))))))))))
  then Z.of_N n0
  else Z.sub (Z.of_N n0) (Zpos (XO (XO (XO (XO (XO (XO (XO (XO (XO (XO (XO
         (XO (XO (XO (XO (XO (XO (XO (XO (XO (XO (XO (XO (XO (XO (XO (XO (XO
         (XO (XO (XO (XO (XO (XO (XO (XO (XO (XO (XO (XO (XO (XO (XO (XO (XO
         (XO (XO (XO (XO (XO (XO (XO (XO (XO (XO (XO (XO (XO (XO (XO (XO (XO
         (XO (XO
         XH)))))))))))))))))))))))))))))))))))))))))))))))))))))))))))))))))

(** val ser : ty -> val0 -> n list **)

let rec ser t v =
  match t with
  | TU8 -> (match v with
            | VNum n0 -> le_bytes (S O) n0
            | _ -> [])
  | TU16 -> (match v with
             | VNum n0 -> le_bytes (S (S O)) n0
             | _ -> [])
  | TU64 ->
    (match v with
     | VNum n0 -> le_bytes (S (S (S (S (S (S (S (S O)))))))) n0
     | _ -> [])
  | TI64 ->
    (match v with
     | VInt z0 -> le_bytes (S (S (S (S (S (S (S (S O)))))))) (i64_to_n z0)
     | _ -> [])
  | TBool -> (match v with
              | VBool b -> (b2n b) :: []
              | _ -> [])
  | TVec t' ->
    (match v with
     | VVec l ->
       app (le_bytes (S (S (S (S (S (S (S (S O)))))))) (lenN l))
         (flat_map (ser t') l)
     | _ -> [])
  | TOpt t' ->
    (match v with
     | VOpt o ->
       (match o with
        | Some x -> (Npos XH) :: (ser t' x)
        | None -> N0 :: [])
     | _ -> [])
  | TStruct fs ->
    (match v with
     | VStruct l ->
       let rec go fs0 l0 =
         match fs0 with
         | [] -> []
         | f :: fs' ->
           (match l0 with
            | [] -> []
            | x :: l' -> app (ser f x) (go fs' l'))
       in go fs l
     | _ -> [])

(** val read_le : nat -> n list -> (n * n list) option **)

let read_le k bs =
  let h = firstn k bs in
  if Nat.eqb (length h) k then Some ((le_val h), (skipn k bs)) else None

(** val deser : ty -> n list -> (val0 * n list) option **)

let rec deser t bs =
  match t with
  | TU8 ->
    (match read_le (S O) bs with
     | Some p -> let (n0, r) = p in Some ((VNum n0), r)
     | None -> None)
  | TU16 ->
    (match read_le (S (S O)) bs with
     | Some p -> let (n0, r) = p in Some ((VNum n0), r)
     | None -> None)
  | TU64 ->
    (match read_le (S (S (S (S (S (S (S (S O)))))))) bs with
     | Some p -> let (n0, r) = p in Some ((VNum n0), r)
     | None -> None)
  | TI64 ->
    (match read_le (S (S (S (S (S (S (S (S O)))))))) bs with
     | Some p -> let (n0, r) = p in Some ((VInt (n_to_i64 n0)), r)
     | None -> None)
  | TBool ->
    (match read_le (S O) bs with
     | Some p -> let (n0, r) = p in Some ((VBool (negb (N.eqb n0 N0))), r)
     | None -> None)
  | TVec t' ->
    (match read_le (S (S (S (S (S (S (S (S O)))))))) bs with
     | Some p ->
       let (n0, r) = p in
       let rec loop fuel cnt bs0 acc =
         if N.eqb cnt N0
         then Some ((VVec (rev_append acc [])), bs0)
         else (match fuel with
               | O -> None
               | S f ->
                 (match deser t' bs0 with
                  | Some p0 ->
                    let (v, bs') = p0 in
                    loop f (N.sub cnt (Npos XH)) bs' (v :: acc)
                  | None -> None))
       in loop (S (length r)) n0 r []
     | None -> None)
  | TOpt t' ->
    (match read_le (S O) bs with
     | Some p ->
       let (n0, r) = p in
       if N.eqb n0 N0
       then Some ((VOpt None), r)
       else (match deser t' r with
             | Some p0 -> let (v, r') = p0 in Some ((VOpt (Some v)), r')
             | None -> None)
     | None -> None)
  | TStruct fs ->
    let rec go fs0 bs0 acc =
      match fs0 with
      | [] -> Some ((VStruct (rev_append acc [])), bs0)
      | f :: fs' ->
        (match deser f bs0 with
         | Some p -> let (v, bs') = p in go fs' bs' (v :: acc)
         | None -> None)
    in go fs bs []

(** val fixed_size : ty -> n option **)

let fixed_size = function
| TU8 -> Some (Npos XH)
| TU16 -> Some (Npos (XO XH))
| TU64 -> Some (Npos (XO (XO (XO XH))))
| TI64 -> Some (Npos (XO (XO (XO XH))))
| TBool -> Some (Npos XH)
| _ -> None

(** val size0 : ty -> val0 -> n **)

let rec size0 t v =
  match t with
  | TU8 -> Npos XH
  | TU16 -> Npos (XO XH)
  | TBool -> Npos XH
  | TVec t' ->
    (match v with
     | VVec l ->
       (match fixed_size t' with
        | Some m -> N.add (Npos (XO (XO (XO XH)))) (N.mul m (lenN l))
        | None ->
          N.add (Npos (XO (XO (XO XH))))
            (fold_left (fun acc x -> N.add acc (size0 t' x)) l N0))
     | _ -> N0)
  | TOpt t' ->
    (match v with
     | VOpt o ->
       (match o with
        | Some x -> N.add (size0 t' x) (Npos XH)
        | None -> N.add N0 (Npos XH))
     | _ -> N0)
  | TStruct fs ->
    (match v with
     | VStruct l ->
       let rec go fs0 l0 =
         match fs0 with
         | [] -> N0
         | f :: fs' ->
           (match l0 with
            | [] -> N0
            | x :: l' -> N.add (size0 f x) (go fs' l'))
       in go fs l
     | _ -> N0)
  | _ -> Npos (XO (XO (XO XH)))

type bitvec = { bv_words : n list; bv_len : n }

(** val wORD_LEN : n **)

let wORD_LEN =
  Npos (XO (XO (XO (XO (XO (XO XH))))))

(** val bv_empty : bitvec **)

let bv_empty =
  { bv_words = []; bv_len = N0 }

(** val words_for : cfg -> n -> n res **)

let words_for c n0 =
  bind (add0 c n0 wORD_LEN) (fun t ->
    bind (sub0 c t (Npos XH)) (fun t0 -> Ok (N.div t0 wORD_LEN)))

(** val upd_last : ('a1 -> 'a1) -> 'a1 list -> 'a1 list **)

let rec upd_last f = function
| [] -> []
| y :: r -> (match r with
             | [] -> (f y) :: []
             | _ :: _ -> y :: (upd_last f r))

(** val len_mask : cfg -> n -> n res **)

let len_mask c len =
  if N.ltb len wORD_LEN
  then bind (shl c (Npos XH) len) (fun t -> sub0 c t (Npos XH))
  else Ok mASK64

(** val from_bit : cfg -> bool -> n -> bitvec res **)

let from_bit c bit len =
  let word = if bit then mASK64 else N0 in
  bind (words_for c len) (fun nw ->
    let words = repeat word (N.to_nat nw) in
    let shift = N.modulo len wORD_LEN in
    if negb (N.eqb shift N0)
    then bind (shl c (Npos XH) shift) (fun t ->
           bind (sub0 c t (Npos XH)) (fun mask0 ->
             bind (assert_ (negb (N.eqb (lenN words) N0))) (fun _ -> Ok
               { bv_words = (upd_last (fun w0 -> N.coq_land w0 mask0) words);
               bv_len = len })))
    else Ok { bv_words = words; bv_len = len })

(** val push_bit : cfg -> bitvec -> bool -> bitvec res **)

let push_bit c bv bit =
  let piw = N.modulo bv.bv_len wORD_LEN in
  bind
    (if N.eqb piw N0
     then Ok (app bv.bv_words ((b2n bit) :: []))
     else bind (assert_ (negb (N.eqb (lenN bv.bv_words) N0))) (fun _ ->
            bind (shl c (b2n bit) piw) (fun t -> Ok
              (upd_last (fun w0 -> N.coq_lor w0 t) bv.bv_words))))
    (fun words ->
    bind (add0 c bv.bv_len (Npos XH)) (fun len -> Ok { bv_words = words;
      bv_len = len }))

(** val from_bits : cfg -> bool list -> bitvec res **)

let from_bits c bits =
  fold_res (push_bit c) bits bv_empty

(** val extend : cfg -> bitvec -> bool list -> bitvec res **)

let extend c bv bits =
  fold_res (push_bit c) bits bv

(** val get_bit : cfg -> bitvec -> n -> bool option res **)

let get_bit c bv pos =
  if N.ltb pos bv.bv_len
  then bind (idx N0 bv.bv_words (N.div pos wORD_LEN)) (fun w0 ->
         bind (shr c w0 (N.modulo pos wORD_LEN)) (fun t -> Ok (Some
           (N.eqb (N.coq_land t (Npos XH)) (Npos XH)))))
  else Ok None

(** val access0 : cfg -> bitvec -> n -> bool option res **)

let access0 =
  get_bit

(** val set_bit : cfg -> bitvec -> n -> bool -> (bitvec * bool) res **)

let set_bit c bv pos bit =
  if N.leb bv.bv_len pos
  then Ok (bv, false)
  else let word = N.div pos wORD_LEN in
       let piw = N.modulo pos wORD_LEN in
       bind (idx N0 bv.bv_words word) (fun w0 ->
         bind (shl c (Npos XH) piw) (fun m ->
           let w1 = N.coq_land w0 (not64 m) in
           bind (shl c (b2n bit) piw) (fun b ->
             let w2 = N.coq_lor w1 b in
             Ok ({ bv_words = (setN bv.bv_words word w2); bv_len =
             bv.bv_len }, true))))

(** val get_bits0 : cfg -> bitvec -> n -> n -> n option res **)

let get_bits0 c bv pos len =
  if (||) (N.ltb wORD_LEN len) (N.ltb bv.bv_len (N.add pos len))
  then Ok None
  else if N.eqb len N0
       then Ok (Some N0)
       else let block = N.div pos wORD_LEN in
            let shift = N.modulo pos wORD_LEN in
            bind (len_mask c len) (fun mask0 ->
              bind (add0 c shift len) (fun sl ->
                if N.leb sl wORD_LEN
                then bind (idx N0 bv.bv_words block) (fun w0 ->
                       bind (shr c w0 shift) (fun t -> Ok (Some
                         (N.coq_land t mask0))))
                else bind (idx N0 bv.bv_words block) (fun w0 ->
                       bind (shr c w0 shift) (fun a ->
                         bind (add0 c block (Npos XH)) (fun b1 ->
                           bind (idx N0 bv.bv_words b1) (fun w1 ->
                             bind (sub0 c wORD_LEN shift) (fun s ->
                               bind (shl c w1 s) (fun b -> Ok (Some
                                 (N.coq_lor a (N.coq_land b mask0)))))))))))

(** val set_bits : cfg -> bitvec -> n -> n -> n -> (bitvec * bool) res **)

let set_bits c bv pos bits len =
  if N.ltb wORD_LEN len
  then Ok (bv, false)
  else if N.ltb bv.bv_len (N.add pos len)
       then Ok (bv, false)
       else if N.eqb len N0
            then Ok (bv, true)
            else bind (len_mask c len) (fun mask0 ->
                   let bits0 = N.coq_land bits mask0 in
                   let word = N.div pos wORD_LEN in
                   let piw = N.modulo pos wORD_LEN in
                   bind (idx N0 bv.bv_words word) (fun w0 ->
                     bind (shl c mask0 piw) (fun m ->
                       let w1 = N.coq_land w0 (not64 m) in
                       bind (shl c bits0 piw) (fun b ->
                         let w2 = N.coq_lor w1 b in
                         let words = setN bv.bv_words word w2 in
                         bind (sub0 c wORD_LEN piw) (fun stored ->
                           if N.ltb stored len
                           then bind (add0 c word (Npos XH)) (fun w1i ->
                                  bind (idx N0 words w1i) (fun w3 ->
                                    bind (shr c mask0 stored) (fun m1 ->
                                      let w4 = N.coq_land w3 (not64 m1) in
                                      bind (shr c bits0 stored) (fun b1 ->
                                        let w5 = N.coq_lor w4 b1 in
                                        Ok ({ bv_words = (setN words w1i w5);
                                        bv_len = bv.bv_len }, true)))))
                           else Ok ({ bv_words = words; bv_len = bv.bv_len },
                                  true))))))

(** val push_bits : cfg -> bitvec -> n -> n -> (bitvec * bool) res **)

let push_bits c bv bits len =
  if N.ltb wORD_LEN len
  then Ok (bv, false)
  else if N.eqb len N0
       then Ok (bv, true)
       else bind (len_mask c len) (fun mask0 ->
              let bits0 = N.coq_land bits mask0 in
              let piw = N.modulo bv.bv_len wORD_LEN in
              bind
                (if N.eqb piw N0
                 then Ok (app bv.bv_words (bits0 :: []))
                 else bind (assert_ (negb (N.eqb (lenN bv.bv_words) N0)))
                        (fun _ ->
                        bind (shl c bits0 piw) (fun t ->
                          let ws =
                            upd_last (fun w0 -> N.coq_lor w0 t) bv.bv_words
                          in
                          bind (sub0 c wORD_LEN piw) (fun room ->
                            if N.ltb room len
                            then bind (shr c bits0 room) (fun hi -> Ok
                                   (app ws (hi :: [])))
                            else Ok ws)))) (fun words ->
                bind (add0 c bv.bv_len len) (fun nl -> Ok ({ bv_words =
                  words; bv_len = nl }, true))))

(** val pred_scan : cfg -> bool -> n list -> n -> n -> n option res **)

let rec pred_scan c inv below block word =
  match msb_spec word with
  | Some ret ->
    bind (mul0 c block wORD_LEN) (fun t ->
      bind (add0 c t ret) (fun t0 -> Ok (Some t0)))
  | None ->
    (match below with
     | [] -> Ok None
     | w0 :: r ->
       bind (sub0 c block (Npos XH)) (fun b ->
         pred_scan c inv r b (if inv then not64 w0 else w0)))

(** val predecessor : cfg -> bool -> bitvec -> n -> n option res **)

let predecessor c inv bv pos =
  if N.leb bv.bv_len pos
  then Ok None
  else let block = N.div pos wORD_LEN in
       bind (sub0 c wORD_LEN (N.modulo pos wORD_LEN)) (fun s ->
         bind (sub0 c s (Npos XH)) (fun shift ->
           bind (idx N0 bv.bv_words block) (fun w0 ->
             let w1 = if inv then not64 w0 else w0 in
             bind (shl c w1 shift) (fun t ->
               bind (shr c t shift) (fun word ->
                 pred_scan c inv (rev (firstn (N.to_nat block) bv.bv_words))
                   block word)))))

(** val predecessor1 : cfg -> bitvec -> n -> n option res **)

let predecessor1 c =
  predecessor c false

(** val predecessor0 : cfg -> bitvec -> n -> n option res **)

let predecessor0 c =
  predecessor c true

(** val succ_scan : cfg -> bool -> n -> n list -> n -> n -> n option res **)

let rec succ_scan c inv len after block word =
  match lsb_spec word with
  | Some ret ->
    bind (mul0 c block wORD_LEN) (fun t ->
      bind (add0 c t ret) (fun t0 -> Ok
        (if N.ltb t0 len then Some t0 else None)))
  | None ->
    bind (add0 c block (Npos XH)) (fun b ->
      match after with
      | [] -> Ok None
      | w0 :: r -> succ_scan c inv len r b (if inv then not64 w0 else w0))

(** val successor : cfg -> bool -> bitvec -> n -> n option res **)

let successor c inv bv pos =
  if N.leb bv.bv_len pos
  then Ok None
  else let block = N.div pos wORD_LEN in
       let shift = N.modulo pos wORD_LEN in
       bind (idx N0 bv.bv_words block) (fun w0 ->
         let w1 = if inv then not64 w0 else w0 in
         bind (shr c w1 shift) (fun t ->
           bind (shl c t shift) (fun word ->
             succ_scan c inv bv.bv_len
               (skipn (S (N.to_nat block)) bv.bv_words) block word)))

(** val successor1 : cfg -> bitvec -> n -> n option res **)

let successor1 c =
  successor c false

(** val successor0 : cfg -> bitvec -> n -> n option res **)

let successor0 c =
  successor c true

(** val get_word0 : cfg -> bitvec -> n -> n option res **)

let get_word0 c bv pos =
  if N.leb bv.bv_len pos
  then Ok None
  else let block = N.div pos wORD_LEN in
       let shift = N.modulo pos wORD_LEN in
       bind (idx N0 bv.bv_words block) (fun w0 ->
         bind (shr c w0 shift) (fun word ->
           bind (add0 c block (Npos XH)) (fun b1 ->
             if (&&) (negb (N.eqb shift N0)) (N.ltb b1 (lenN bv.bv_words))
             then bind (idx N0 bv.bv_words b1) (fun w1 ->
                    bind
                      (sub0 c (Npos (XO (XO (XO (XO (XO (XO XH))))))) shift)
                      (fun s ->
                      bind (shl c w1 s) (fun t -> Ok (Some
                        (N.coq_lor word t)))))
             else Ok (Some word))))

(** val rank1 : cfg -> bitvec -> n -> n option res **)

let rank1 c bv pos =
  if N.ltb bv.bv_len pos
  then Ok None
  else let wpos = N.div pos wORD_LEN in
       let left = N.modulo pos wORD_LEN in
       bind (assert_ (N.leb wpos (lenN bv.bv_words))) (fun _ ->
         bind
           (fold_res (fun r w0 -> add0 c r (popcN w0))
             (firstn (N.to_nat wpos) bv.bv_words) N0) (fun r ->
           if negb (N.eqb left N0)
           then bind (idx N0 bv.bv_words wpos) (fun w0 ->
                  bind (sub0 c wORD_LEN left) (fun s ->
                    bind (shl c w0 s) (fun t ->
                      bind (add0 c r (popcN t)) (fun r0 -> Ok (Some r0)))))
           else Ok (Some r)))

(** val rank0 : cfg -> bitvec -> n -> n option res **)

let rank0 c bv pos =
  bind (rank1 c bv pos) (fun r ->
    match r with
    | Some r1 -> bind (sub0 c pos r1) (fun t -> Ok (Some t))
    | None -> Ok None)

(** val num_ones : cfg -> bitvec -> n res **)

let num_ones c bv =
  bind (rank1 c bv bv.bv_len) unwrap

(** val select_scan :
    cfg -> bool -> n list -> n -> n -> n -> ((n * n) * n) option res **)

let rec select_scan c inv ws k wpos cur =
  match ws with
  | [] -> Ok None
  | w0 :: r ->
    let w1 = if inv then not64 w0 else w0 in
    bind (add0 c cur (popcN w1)) (fun t ->
      if N.ltb k t
      then Ok (Some ((wpos, cur), w1))
      else bind (add0 c wpos (Npos XH)) (fun wp -> select_scan c inv r k wp t))

(** val select1 : cfg -> bitvec -> n -> n option res **)

let select1 c bv k =
  bind (select_scan c false bv.bv_words k N0 N0) (fun s ->
    match s with
    | Some p ->
      let (p0, w0) = p in
      let (wpos, cur) = p0 in
      bind (mul0 c wpos wORD_LEN) (fun a ->
        bind (sub0 c k cur) (fun d ->
          bind (unwrap (select_in_word_spec w0 d)) (fun p1 ->
            bind (add0 c a p1) (fun t -> Ok (Some t)))))
    | None -> Ok None)

(** val select0 : cfg -> bitvec -> n -> n option res **)

let select0 c bv k =
  bind (select_scan c true bv.bv_words k N0 N0) (fun s ->
    match s with
    | Some p ->
      let (p0, w0) = p in
      let (wpos, cur) = p0 in
      bind (mul0 c wpos wORD_LEN) (fun a ->
        bind (sub0 c k cur) (fun d ->
          bind (unwrap (select_in_word_spec w0 d)) (fun p1 ->
            bind (add0 c a p1) (fun t -> Ok
              (if N.ltb t bv.bv_len then Some t else None)))))
    | None -> Ok None)

(** val iter_next : cfg -> bitvec -> n -> (n * bool option) res **)

let iter_next c bv pos =
  if N.ltb pos bv.bv_len
  then bind (get_bit c bv pos) (fun x ->
         bind (unwrap x) (fun x0 ->
           bind (add0 c pos (Npos XH)) (fun p -> Ok (p, (Some x0)))))
  else Ok (pos, None)

(** val iter_size_hint : cfg -> n -> n -> (n * n) res **)

let iter_size_hint c len pos =
  bind (sub0 c len pos) (fun n0 -> Ok (n0, n0))

(** val bv_eqb : bitvec -> bitvec -> bool **)

let bv_eqb a b =
  (&&)
    ((&&) (N.eqb a.bv_len b.bv_len)
      (N.eqb (lenN a.bv_words) (lenN b.bv_words)))
    (forallb (fun p -> N.eqb (fst p) (snd p)) (combine a.bv_words b.bv_words))

type uiter = { u_pos : n; u_buf : n }

(** val unary_new : bitvec -> n -> uiter **)

let unary_new bv pos =
  let w0 =
    if N.ltb (N.div pos wORD_LEN) (lenN bv.bv_words)
    then nthN bv.bv_words (N.div pos wORD_LEN) N0
    else N0
  in
  { u_pos = pos; u_buf =
  (N.coq_land w0 (wshl mASK64 (N.modulo pos wORD_LEN))) }

(** val skip_scan :
    cfg -> bool -> n list -> n -> n -> n -> n -> ((n * n) * n) option res **)

let rec skip_scan c inv after k skipped buf pos =
  bind (add0 c skipped (popcN buf)) (fun t ->
    if N.ltb k t
    then Ok (Some ((skipped, buf), pos))
    else bind (add0 c pos wORD_LEN) (fun p ->
           match after with
           | [] -> Ok None
           | x :: r -> skip_scan c inv r k t (if inv then not64 x else x) p))

(** val words_after : bitvec -> n -> n list **)

let words_after bv pos =
  if N.ltb (N.div pos wORD_LEN) (lenN bv.bv_words)
  then skipn (S (N.to_nat (N.div pos wORD_LEN))) bv.bv_words
  else []

(** val skip1 : cfg -> bitvec -> uiter -> n -> (uiter * n option) res **)

let skip1 c bv it k =
  bind (skip_scan c false (words_after bv it.u_pos) k N0 it.u_buf it.u_pos)
    (fun s ->
    match s with
    | Some p ->
      let (p0, pos) = p in
      let (skipped, buf) = p0 in
      bind (dassert c (negb (N.eqb buf N0))) (fun _ ->
        bind (sub0 c k skipped) (fun d ->
          bind (unwrap (select_in_word_spec buf d)) (fun piw ->
            bind
              (add0 c (N.coq_land pos (not64 (N.sub wORD_LEN (Npos XH)))) piw)
              (fun np -> Ok ({ u_pos = np; u_buf =
              (N.coq_land buf (wshl mASK64 piw)) }, (Some np))))))
    | None -> Ok (it, None))

(** val skip0 : cfg -> bitvec -> uiter -> n -> (uiter * n option) res **)

let skip0 c bv it k =
  let piw0 = N.modulo it.u_pos wORD_LEN in
  let buf0 = N.coq_land (not64 it.u_buf) (wshl mASK64 piw0) in
  bind (skip_scan c true (words_after bv it.u_pos) k N0 buf0 it.u_pos)
    (fun s ->
    match s with
    | Some p ->
      let (p0, pos) = p in
      let (skipped, buf) = p0 in
      bind (dassert c (negb (N.eqb buf N0))) (fun _ ->
        bind (sub0 c k skipped) (fun d ->
          bind (unwrap (select_in_word_spec buf d)) (fun piw ->
            bind
              (add0 c (N.coq_land pos (not64 (N.sub wORD_LEN (Npos XH)))) piw)
              (fun np ->
              if N.ltb np bv.bv_len
              then Ok ({ u_pos = np; u_buf =
                     (N.coq_land (not64 buf) (wshl mASK64 piw)) }, (Some np))
              else Ok (it, None)))))
    | None -> Ok (it, None))

(** val next_scan : cfg -> n list -> n -> n -> (n * n option) res **)

let rec next_scan c after buf pos =
  if N.eqb buf N0
  then bind (add0 c pos wORD_LEN) (fun p ->
         match after with
         | [] -> Ok (p, None)
         | x :: r -> next_scan c r x p)
  else Ok (pos, (Some buf))

(** val unary_next : cfg -> bitvec -> uiter -> (uiter * n option) res **)

let unary_next c bv it =
  bind (next_scan c (words_after bv it.u_pos) it.u_buf it.u_pos) (fun s ->
    let (p, o) = s in
    (match o with
     | Some buf ->
       bind (unwrap (lsb_spec buf)) (fun piw ->
         bind (sub0 c buf (Npos XH)) (fun b1 ->
           bind
             (add0 c (N.coq_land p (not64 (N.sub wORD_LEN (Npos XH)))) piw)
             (fun np -> Ok ({ u_pos = np; u_buf = (N.coq_land buf b1) },
             (Some np)))))
     | None -> Ok ({ u_pos = p; u_buf = it.u_buf }, None)))

(** val bLOCK_LEN : n **)

let bLOCK_LEN =
  Npos (XO (XO (XO XH)))

(** val sELECT_ONES_PER_HINT : n **)

let sELECT_ONES_PER_HINT =
  Npos (XO (XO (XO (XO (XO (XO (XO (XO (XO (XO XH))))))))))

(** val oNES_STEP_9 : n **)

let oNES_STEP_9 =
  Npos (XI (XO (XO (XO (XO (XO (XO (XO (XO (XI (XO (XO (XO (XO (XO (XO (XO
    (XO (XI (XO (XO (XO (XO (XO (XO (XO (XO (XI (XO (XO (XO (XO (XO (XO (XO
    (XO (XI (XO (XO (XO (XO (XO (XO (XO (XO (XI (XO (XO (XO (XO (XO (XO (XO
    (XO XH))))))))))))))))))))))))))))))))))))))))))))))))))))))

(** val mSBS_STEP_9 : n **)

let mSBS_STEP_9 =
  Npos (XO (XO (XO (XO (XO (XO (XO (XO (XI (XO (XO (XO (XO (XO (XO (XO (XO
    (XI (XO (XO (XO (XO (XO (XO (XO (XO (XI (XO (XO (XO (XO (XO (XO (XO (XO
    (XI (XO (XO (XO (XO (XO (XO (XO (XO (XI (XO (XO (XO (XO (XO (XO (XO (XO
    (XI (XO (XO (XO (XO (XO (XO (XO (XO
    XH))))))))))))))))))))))))))))))))))))))))))))))))))))))))))))))

(** val iNV_COUNT_STEP_9 : n **)

let iNV_COUNT_STEP_9 =
  Npos (XI (XI (XI (XO (XO (XO (XO (XO (XO (XO (XI (XI (XO (XO (XO (XO (XO
    (XO (XI (XO (XI (XO (XO (XO (XO (XO (XO (XO (XO (XI (XO (XO (XO (XO (XO
    (XO (XI (XI (XO (XO (XO (XO (XO (XO (XO (XO (XI (XO (XO (XO (XO (XO (XO
    (XO XH))))))))))))))))))))))))))))))))))))))))))))))))))))))

type r9index = { r_len : n; r_brp : n list; r_h1 : n list option;
                 r_h0 : n list option }

type brstate = { s_i : n; s_next : n; s_cur : n; s_sub : n; s_brp : n list }

(** val build_rank_step : cfg -> brstate -> n -> brstate res **)

let build_rank_step c s w0 =
  let word_pop = popcN w0 in
  let shift = N.modulo s.s_i bLOCK_LEN in
  bind
    (if negb (N.eqb shift N0)
     then bind (shl c s.s_sub (Npos (XI (XO (XO XH))))) (fun t -> Ok
            (N.coq_lor t s.s_cur))
     else Ok s.s_sub) (fun subranks ->
    bind (add0 c s.s_next word_pop) (fun next_rank ->
      bind (add0 c s.s_cur word_pop) (fun cur ->
        if N.eqb shift (N.sub bLOCK_LEN (Npos XH))
        then Ok { s_i = (N.add s.s_i (Npos XH)); s_next = next_rank; s_cur =
               N0; s_sub = N0; s_brp =
               (app s.s_brp (subranks :: (next_rank :: []))) }
        else Ok { s_i = (N.add s.s_i (Npos XH)); s_next = next_rank; s_cur =
               cur; s_sub = subranks; s_brp = s.s_brp })))

(** val pad_subranks : cfg -> nat -> n -> n -> n res **)

let rec pad_subranks c n0 subranks cur =
  match n0 with
  | O -> Ok subranks
  | S m ->
    bind (shl c subranks (Npos (XI (XO (XO XH))))) (fun t ->
      pad_subranks c m (N.coq_lor t cur) cur)

(** val build_rank : cfg -> bitvec -> r9index res **)

let build_rank c bv =
  bind
    (fold_res (build_rank_step c) bv.bv_words { s_i = N0; s_next = N0;
      s_cur = N0; s_sub = N0; s_brp = (N0 :: []) }) (fun s ->
    let nw = lenN bv.bv_words in
    bind (sub0 c bLOCK_LEN (N.modulo nw bLOCK_LEN)) (fun left ->
      bind (pad_subranks c (N.to_nat left) s.s_sub s.s_cur) (fun subranks ->
        let brp = app s.s_brp (subranks :: []) in
        let brp0 =
          if negb (N.eqb (N.modulo nw bLOCK_LEN) N0)
          then app brp (s.s_next :: (N0 :: []))
          else brp
        in
        Ok { r_len = bv.bv_len; r_brp = brp0; r_h1 = None; r_h0 = None })))

(** val num_ones0 : cfg -> r9index -> n res **)

let num_ones0 c r =
  bind (sub0 c (lenN r.r_brp) (Npos (XO XH))) (fun i -> idx N0 r.r_brp i)

(** val num_zeros : cfg -> r9index -> n res **)

let num_zeros c r =
  bind (num_ones0 c r) (fun o -> sub0 c r.r_len o)

(** val num_blocks : cfg -> r9index -> n res **)

let num_blocks c r =
  sub0 c (N.div (lenN r.r_brp) (Npos (XO XH))) (Npos XH)

(** val block_rank : cfg -> r9index -> n -> n res **)

let block_rank c r block =
  bind (mul0 c block (Npos (XO XH))) (fun i -> idx N0 r.r_brp i)

(** val sub_block_ranks : cfg -> r9index -> n -> n res **)

let sub_block_ranks c r block =
  bind (mul0 c block (Npos (XO XH))) (fun i ->
    bind (add0 c i (Npos XH)) (fun i0 -> idx N0 r.r_brp i0))

(** val sub_block_rank : cfg -> r9index -> n -> n res **)

let sub_block_rank c r sub_bpos =
  let block = N.div sub_bpos bLOCK_LEN in
  let left = N.modulo sub_bpos bLOCK_LEN in
  bind (block_rank c r block) (fun br ->
    bind (sub_block_ranks c r block) (fun sr ->
      bind (sub0 c (Npos (XI (XI XH))) left) (fun l ->
        bind (mul0 c l (Npos (XI (XO (XO XH))))) (fun sh ->
          bind (shr c sr sh) (fun t ->
            add0 c br
              (N.coq_land t (Npos (XI (XI (XI (XI (XI (XI (XI (XI XH)))))))))))))))

(** val block_rank0 : cfg -> r9index -> n -> n res **)

let block_rank0 c r block =
  bind (mul0 c block bLOCK_LEN) (fun t ->
    bind (mul0 c t (Npos (XO (XO (XO (XO (XO (XO XH)))))))) (fun t0 ->
      bind (block_rank c r block) (fun br -> sub0 c t0 br)))

(** val hints_step :
    cfg -> bool -> r9index -> (n list * n) -> n -> (n list * n) res **)

let hints_step c zeros r st i =
  let (hints, thr) = st in
  bind (add0 c i (Npos XH)) (fun i1 ->
    bind (if zeros then block_rank0 c r i1 else block_rank c r i1) (fun x ->
      if N.ltb thr x
      then bind (add0 c thr sELECT_ONES_PER_HINT) (fun t -> Ok
             ((app hints (i :: [])), t))
      else Ok (hints, thr)))

(** val build_hints : cfg -> bool -> r9index -> n list res **)

let build_hints c zeros r =
  bind (num_blocks c r) (fun nb ->
    bind
      (fold_res (hints_step c zeros r) (nseq nb) ([], sELECT_ONES_PER_HINT))
      (fun st -> Ok (app (fst st) (nb :: []))))

(** val select1_hints : cfg -> r9index -> r9index res **)

let select1_hints c r =
  bind (build_hints c false r) (fun h -> Ok { r_len = r.r_len; r_brp =
    r.r_brp; r_h1 = (Some h); r_h0 = r.r_h0 })

(** val select0_hints : cfg -> r9index -> r9index res **)

let select0_hints c r =
  bind (build_hints c true r) (fun h -> Ok { r_len = r.r_len; r_brp =
    r.r_brp; r_h1 = r.r_h1; r_h0 = (Some h) })

(** val rank2 : cfg -> r9index -> bitvec -> n -> n option res **)

let rank2 c r bv pos =
  if N.ltb bv.bv_len pos
  then Ok None
  else if N.eqb pos bv.bv_len
       then bind (num_ones0 c r) (fun o -> Ok (Some o))
       else let sub_bpos = N.div pos (Npos (XO (XO (XO (XO (XO (XO XH)))))))
            in
            let sub_left =
              N.modulo pos (Npos (XO (XO (XO (XO (XO (XO XH)))))))
            in
            bind (sub_block_rank c r sub_bpos) (fun r0 ->
              if negb (N.eqb sub_left N0)
              then bind (idx N0 bv.bv_words sub_bpos) (fun w0 ->
                     bind
                       (sub0 c (Npos (XO (XO (XO (XO (XO (XO XH)))))))
                         sub_left) (fun s ->
                       bind (shl c w0 s) (fun t ->
                         bind (add0 c r0 (popcN t)) (fun r1 -> Ok (Some r1)))))
              else Ok (Some r0))

(** val rank3 : cfg -> r9index -> bitvec -> n -> n option res **)

let rank3 c r bv pos =
  bind (rank2 c r bv pos) (fun x ->
    match x with
    | Some r1 -> bind (sub0 c pos r1) (fun t -> Ok (Some t))
    | None -> Ok None)

(** val uleq_step_9 : cfg -> n -> n -> n res **)

let uleq_step_9 c x y =
  bind (sub0 c (N.coq_lor y mSBS_STEP_9) (N.coq_land x (not64 mSBS_STEP_9)))
    (fun t ->
    shr c
      (N.coq_land
        (N.coq_lxor (N.coq_lor t (N.coq_lxor x y)) (N.coq_land x (not64 y)))
        mSBS_STEP_9) (Npos (XO (XO (XO XH)))))

(** val bisect_step :
    cfg -> bool -> r9index -> n -> (n * n) -> (n * n, n) sum res **)

let bisect_step c zeros r k = function
| (a, b) ->
  bind (sub0 c b a) (fun d ->
    if N.ltb (Npos XH) d
    then bind (add0 c a (N.div d (Npos (XO XH)))) (fun mid ->
           bind (if zeros then block_rank0 c r mid else block_rank c r mid)
             (fun x ->
             if N.leb x k then Ok (Inl (mid, b)) else Ok (Inl (a, mid))))
    else Ok (Inr a))

(** val select_gen : cfg -> bool -> r9index -> bitvec -> n -> n option res **)

let select_gen c zeros r bv k =
  bind (if zeros then num_zeros c r else num_ones0 c r) (fun cnt ->
    if N.leb cnt k
    then Ok None
    else bind (num_blocks c r) (fun nb ->
           bind
             (match if zeros then r.r_h0 else r.r_h1 with
              | Some hints ->
                let chunk = N.div k sELECT_ONES_PER_HINT in
                bind
                  (if negb (N.eqb chunk N0)
                   then bind (sub0 c chunk (Npos XH)) (fun i ->
                          idx N0 hints i)
                   else Ok N0) (fun a ->
                  bind (idx N0 hints chunk) (fun h ->
                    bind (add0 c h (Npos XH)) (fun b -> Ok (a, b))))
              | None -> Ok (N0, nb)) (fun ab ->
             bind
               (iter_fuel (S (S (S (S (S (S (S (S (S (S (S (S (S (S (S (S (S
                 (S (S (S (S (S (S (S (S (S (S (S (S (S (S (S (S (S (S (S (S
                 (S (S (S (S (S (S (S (S (S (S (S (S (S (S (S (S (S (S (S (S
                 (S (S (S (S (S (S (S (S (S
                 O))))))))))))))))))))))))))))))))))))))))))))))))))))))))))))))))))
                 (bisect_step c zeros r k) ab) (fun block ->
               bind (dassert c (N.ltb block nb)) (fun _ ->
                 bind (mul0 c block bLOCK_LEN) (fun block_offset ->
                   bind
                     (if zeros
                      then block_rank0 c r block
                      else block_rank c r block) (fun cur_rank ->
                     bind (dassert c (N.leb cur_rank k)) (fun _ ->
                       bind (sub0 c k cur_rank) (fun d ->
                         bind (mul0 c d oNES_STEP_9)
                           (fun rank_in_block_parallel ->
                           bind (sub_block_ranks c r block) (fun sbr ->
                             bind
                               (if zeros
                                then bind
                                       (mul0 c (Npos (XO (XO (XO (XO (XO (XO
                                         XH))))))) iNV_COUNT_STEP_9)
                                       (fun t -> sub0 c t sbr)
                                else Ok sbr) (fun sub_ranks ->
                               bind
                                 (uleq_step_9 c sub_ranks
                                   rank_in_block_parallel) (fun u ->
                                 bind
                                   (shr c (wmul u oNES_STEP_9) (Npos (XO (XI
                                     (XI (XO (XI XH))))))) (fun t ->
                                   let sub_block_offset =
                                     N.coq_land t (Npos (XI (XI XH)))
                                   in
                                   bind
                                     (sub0 c (Npos (XI (XI XH)))
                                       sub_block_offset) (fun l ->
                                     bind
                                       (shr c sub_ranks
                                         (wmul l (Npos (XI (XO (XO XH))))))
                                       (fun t0 ->
                                       bind
                                         (add0 c cur_rank
                                           (N.coq_land t0 (Npos (XI (XI (XI
                                             (XI (XI (XI (XI (XI XH)))))))))))
                                         (fun cur_rank0 ->
                                         bind (dassert c (N.leb cur_rank0 k))
                                           (fun _ ->
                                           bind
                                             (add0 c block_offset
                                               sub_block_offset)
                                             (fun word_offset ->
                                             bind
                                               (idx N0 bv.bv_words
                                                 word_offset) (fun w0 ->
                                               let w1 =
                                                 if zeros
                                                 then not64 w0
                                                 else w0
                                               in
                                               bind (sub0 c k cur_rank0)
                                                 (fun d0 ->
                                                 bind
                                                   (unwrap
                                                     (select_in_word_spec w1
                                                       d0)) (fun p ->
                                                   bind
                                                     (mul0 c word_offset
                                                       (Npos (XO (XO (XO (XO
                                                       (XO (XO XH))))))))
                                                     (fun a ->
                                                     bind (add0 c a p)
                                                       (fun sel -> Ok (Some
                                                       sel)))))))))))))))))))))))))

(** val select2 : cfg -> r9index -> bitvec -> n -> n option res **)

let select2 c =
  select_gen c false

(** val select3 : cfg -> r9index -> bitvec -> n -> n option res **)

let select3 c =
  select_gen c true

type r9sel = { r9_bv : bitvec; r9_rs : r9index }

(** val r9_new : cfg -> bitvec -> r9sel res **)

let r9_new c bv =
  bind (build_rank c bv) (fun rs -> Ok { r9_bv = bv; r9_rs = rs })

(** val r9_select1_hints : cfg -> r9sel -> r9sel res **)

let r9_select1_hints c x =
  bind (select1_hints c x.r9_rs) (fun rs -> Ok { r9_bv = x.r9_bv; r9_rs =
    rs })

(** val r9_select0_hints : cfg -> r9sel -> r9sel res **)

let r9_select0_hints c x =
  bind (select0_hints c x.r9_rs) (fun rs -> Ok { r9_bv = x.r9_bv; r9_rs =
    rs })

(** val r9_build : cfg -> bitvec -> bool -> bool -> r9sel res **)

let r9_build c bv h1 h0 =
  bind (r9_new c bv) (fun x ->
    bind (if h1 then r9_select1_hints c x else Ok x) (fun x0 ->
      if h0 then r9_select0_hints c x0 else Ok x0))

(** val r9_num_bits : r9sel -> n **)

let r9_num_bits x =
  x.r9_bv.bv_len

(** val r9_num_ones : cfg -> r9sel -> n res **)

let r9_num_ones c x =
  num_ones0 c x.r9_rs

(** val r9_num_zeros : cfg -> r9sel -> n res **)

let r9_num_zeros c x =
  bind (r9_num_ones c x) (fun o -> sub0 c (r9_num_bits x) o)

(** val r9_access : cfg -> r9sel -> n -> bool option res **)

let r9_access c x pos =
  access0 c x.r9_bv pos

(** val r9_rank1 : cfg -> r9sel -> n -> n option res **)

let r9_rank1 c x pos =
  rank2 c x.r9_rs x.r9_bv pos

(** val r9_rank0 : cfg -> r9sel -> n -> n option res **)

let r9_rank0 c x pos =
  rank3 c x.r9_rs x.r9_bv pos

(** val r9_select1 : cfg -> r9sel -> n -> n option res **)

let r9_select1 c x k =
  select2 c x.r9_rs x.r9_bv k

(** val r9_select0 : cfg -> r9sel -> n -> n option res **)

let r9_select0 c x k =
  select3 c x.r9_rs x.r9_bv k

(** val dA_BLOCK_LEN : n **)

let dA_BLOCK_LEN =
  Npos (XO (XO (XO (XO (XO (XO (XO (XO (XO (XO XH))))))))))

(** val sUBBLOCK_LEN : n **)

let sUBBLOCK_LEN =
  Npos (XO (XO (XO (XO (XO XH)))))

(** val mAX_IN_BLOCK_DISTANCE : n **)

let mAX_IN_BLOCK_DISTANCE =
  Npos (XO (XO (XO (XO (XO (XO (XO (XO (XO (XO (XO (XO (XO (XO (XO (XO
    XH))))))))))))))))

type daindex = { d_block_inv : z list; d_sub_inv : n list;
                 d_overflow : n list; d_num_positions : n; d_over_one : 
                 bool }

type dastate = { t_cur : n list; t_cnt : n; t_binv : z list; t_sinv : 
                 n list; t_ovf : n list; t_num : n }

(** val step_by32 : nat -> n list -> n list **)

let rec step_by32 fuel l =
  match fuel with
  | O -> []
  | S f ->
    (match l with
     | [] -> []
     | x :: _ ->
       x :: (step_by32 f
              (skipn (S (S (S (S (S (S (S (S (S (S (S (S (S (S (S (S (S (S (S
                (S (S (S (S (S (S (S (S (S (S (S (S (S
                O)))))))))))))))))))))))))))))))) l)))

(** val flush_cur_block : cfg -> dastate -> dastate res **)

let flush_cur_block c s =
  bind (unwrap (hd_error s.t_cur)) (fun first ->
    bind (unwrap (last_opt s.t_cur)) (fun last ->
      bind (sub0 c last first) (fun d ->
        let heads = step_by32 (length s.t_cur) s.t_cur in
        if N.ltb d mAX_IN_BLOCK_DISTANCE
        then bind
               (fold_res (fun acc p ->
                 bind (sub0 c p first) (fun t -> Ok
                   (app acc
                     ((N.modulo t (Npos (XO (XO (XO (XO (XO (XO (XO (XO (XO
                        (XO (XO (XO (XO (XO (XO (XO XH)))))))))))))))))) :: []))))
                 heads []) (fun subs -> Ok { t_cur = []; t_cnt = N0; t_binv =
               (app s.t_binv ((Z.of_N first) :: [])); t_sinv =
               (app s.t_sinv subs); t_ovf = s.t_ovf; t_num = s.t_num })
        else bind (add0 c (lenN s.t_ovf) (Npos XH)) (fun e -> Ok { t_cur =
               []; t_cnt = N0; t_binv =
               (app s.t_binv ((Z.opp (Z.of_N e)) :: [])); t_sinv =
               (app s.t_sinv
                 (map (fun _ -> Npos (XI (XI (XI (XI (XI (XI (XI (XI (XI (XI
                   (XI (XI (XI (XI (XI XH)))))))))))))))) heads)); t_ovf =
               (app s.t_ovf s.t_cur); t_num = s.t_num }))))

(** val word_step :
    cfg -> n -> ((dastate * n) * n) -> ((dastate * n) * n, dastate) sum res **)

let word_step c len = function
| (p, cur_word) ->
  let (s, cur_pos) = p in
  (match lsb_spec cur_word with
   | Some l ->
     bind (add0 c cur_pos l) (fun cur_pos0 ->
       bind (shr c cur_word l) (fun cur_word0 ->
         if N.leb len cur_pos0
         then Ok (Inr s)
         else let s0 = { t_cur = (app s.t_cur (cur_pos0 :: [])); t_cnt =
                (N.add s.t_cnt (Npos XH)); t_binv = s.t_binv; t_sinv =
                s.t_sinv; t_ovf = s.t_ovf; t_num = s.t_num }
              in
              bind
                (if N.eqb s0.t_cnt dA_BLOCK_LEN
                 then flush_cur_block c s0
                 else Ok s0) (fun s1 ->
                bind (shr c cur_word0 (Npos XH)) (fun cur_word1 ->
                  bind (add0 c cur_pos0 (Npos XH)) (fun cur_pos1 ->
                    bind (add0 c s1.t_num (Npos XH)) (fun n0 -> Ok (Inl
                      (({ t_cur = s1.t_cur; t_cnt = s1.t_cnt; t_binv =
                      s1.t_binv; t_sinv = s1.t_sinv; t_ovf = s1.t_ovf;
                      t_num = n0 }, cur_pos1), cur_word1))))))))
   | None -> Ok (Inr s))

(** val build_word :
    cfg -> bool -> n -> (dastate * n) -> n -> (dastate * n) res **)

let build_word c over_one len st w0 =
  let (s, word_idx) = st in
  bind (mul0 c word_idx (Npos (XO (XO (XO (XO (XO (XO XH))))))))
    (fun cur_pos ->
    let cur_word = if over_one then w0 else not64 w0 in
    bind
      (iter_fuel (S (S (S (S (S (S (S (S (S (S (S (S (S (S (S (S (S (S (S (S
        (S (S (S (S (S (S (S (S (S (S (S (S (S (S (S (S (S (S (S (S (S (S (S
        (S (S (S (S (S (S (S (S (S (S (S (S (S (S (S (S (S (S (S (S (S (S (S
        O))))))))))))))))))))))))))))))))))))))))))))))))))))))))))))))))))
        (word_step c len) ((s, cur_pos), cur_word)) (fun s0 -> Ok (s0,
      (N.add word_idx (Npos XH)))))

(** val da_build : cfg -> bitvec -> bool -> daindex res **)

let da_build c bv over_one =
  bind
    (fold_res (build_word c over_one bv.bv_len) bv.bv_words ({ t_cur = [];
      t_cnt = N0; t_binv = []; t_sinv = []; t_ovf = []; t_num = N0 }, N0))
    (fun st ->
    let s = fst st in
    bind (if negb (N.eqb s.t_cnt N0) then flush_cur_block c s else Ok s)
      (fun s0 -> Ok { d_block_inv = s0.t_binv; d_sub_inv = s0.t_sinv;
      d_overflow = s0.t_ovf; d_num_positions = s0.t_num; d_over_one =
      over_one }))

(** val da_scan :
    cfg -> bool -> n list -> n -> n -> n -> ((n * n) * n) res **)

let rec da_scan c inv after rem word_idx word =
  let popcnt = popcN word in
  if N.ltb rem popcnt
  then Ok ((rem, word_idx), word)
  else bind (sub0 c rem popcnt) (fun rem0 ->
         bind (add0 c word_idx (Npos XH)) (fun wi ->
           match after with
           | [] -> Panic
           | x :: r -> da_scan c inv r rem0 wi (if inv then not64 x else x)))

(** val da_select : cfg -> daindex -> bitvec -> n -> n option res **)

let da_select c d bv k =
  if N.leb d.d_num_positions k
  then Ok None
  else let block = N.div k dA_BLOCK_LEN in
       bind (idx Z0 d.d_block_inv block) (fun block_pos ->
         if Z.ltb block_pos Z0
         then let overflow_pos = Z.to_N (Z.sub (Z.opp block_pos) (Zpos XH)) in
              bind (add0 c overflow_pos (N.modulo k dA_BLOCK_LEN)) (fun i ->
                bind (idx N0 d.d_overflow i) (fun x -> Ok (Some x)))
         else let subblock = N.div k sUBBLOCK_LEN in
              let reminder = N.modulo k sUBBLOCK_LEN in
              bind (idx N0 d.d_sub_inv subblock) (fun sb ->
                bind (add0 c (Z.to_N block_pos) sb) (fun start_pos ->
                  if N.eqb reminder N0
                  then Ok (Some start_pos)
                  else let inv = negb d.d_over_one in
                       let word_idx =
                         N.div start_pos (Npos (XO (XO (XO (XO (XO (XO
                           XH)))))))
                       in
                       let word_shift =
                         N.modulo start_pos (Npos (XO (XO (XO (XO (XO (XO
                           XH)))))))
                       in
                       bind (idx N0 bv.bv_words word_idx) (fun w0 ->
                         bind (shl c mASK64 word_shift) (fun m ->
                           let word =
                             N.coq_land (if inv then not64 w0 else w0) m
                           in
                           bind
                             (da_scan c inv
                               (skipn (S (N.to_nat word_idx)) bv.bv_words)
                               reminder word_idx word) (fun r ->
                             let (p, word0) = r in
                             let (rem, wi) = p in
                             bind (unwrap (select_in_word_spec word0 rem))
                               (fun p0 ->
                               bind
                                 (mul0 c (Npos (XO (XO (XO (XO (XO (XO
                                   XH))))))) wi) (fun a ->
                                 bind (add0 c a p0) (fun sel -> Ok (Some sel))))))))))

type darray = { da_bv : bitvec; da_s1 : daindex; da_s0 : daindex option;
                da_r9 : r9index option }

(** val da_new : cfg -> bitvec -> darray res **)

let da_new c bv =
  bind (da_build c bv true) (fun s1 -> Ok { da_bv = bv; da_s1 = s1; da_s0 =
    None; da_r9 = None })

(** val da_from_bits : cfg -> bool list -> darray res **)

let da_from_bits c bits =
  bind (from_bits c bits) (fun bv -> da_new c bv)

(** val da_enable_rank : cfg -> darray -> darray res **)

let da_enable_rank c d =
  bind (build_rank c d.da_bv) (fun r -> Ok { da_bv = d.da_bv; da_s1 =
    d.da_s1; da_s0 = d.da_s0; da_r9 = (Some r) })

(** val da_enable_select0 : cfg -> darray -> darray res **)

let da_enable_select0 c d =
  bind (da_build c d.da_bv false) (fun s0 -> Ok { da_bv = d.da_bv; da_s1 =
    d.da_s1; da_s0 = (Some s0); da_r9 = d.da_r9 })

(** val da_build_cfg : cfg -> bitvec -> bool -> bool -> darray res **)

let da_build_cfg c bv with_rank with_select0 =
  bind (da_new c bv) (fun d ->
    bind (if with_rank then da_enable_rank c d else Ok d) (fun d0 ->
      if with_select0 then da_enable_select0 c d0 else Ok d0))

(** val da_num_bits : darray -> n **)

let da_num_bits d =
  d.da_bv.bv_len

(** val da_num_ones : darray -> n **)

let da_num_ones d =
  d.da_s1.d_num_positions

(** val da_num_zeros : cfg -> darray -> n res **)

let da_num_zeros c d =
  sub0 c (da_num_bits d) (da_num_ones d)

(** val da_access : cfg -> darray -> n -> bool option res **)

let da_access c d pos =
  access0 c d.da_bv pos

(** val da_rank1 : cfg -> darray -> n -> n option res **)

let da_rank1 c d pos =
  bind (unwrap d.da_r9) (fun r9 -> rank2 c r9 d.da_bv pos)

(** val da_rank0 : cfg -> darray -> n -> n option res **)

let da_rank0 c d pos =
  bind (unwrap d.da_r9) (fun r9 -> rank3 c r9 d.da_bv pos)

(** val da_select1 : cfg -> darray -> n -> n option res **)

let da_select1 c d k =
  da_select c d.da_s1 d.da_bv k

(** val da_select0 : cfg -> darray -> n -> n option res **)

let da_select0 c d k =
  bind (unwrap d.da_s0) (fun s0 -> da_select c s0 d.da_bv k)

(** val lINEAR_SCAN_THRESHOLD : n **)

let lINEAR_SCAN_THRESHOLD =
  Npos (XO (XO (XO (XO (XO (XO XH))))))

type eliasfano = { ef_high : darray; ef_low : bitvec; ef_low_len : n;
                   ef_universe : n }

type efbuilder = { b_high : bitvec; b_low : bitvec; b_universe : n;
                   b_num_vals : n; b_pos : n; b_last : n; b_low_len : 
                   n }

(** val efb_new : cfg -> n -> n -> efbuilder option res **)

let efb_new c universe num_vals =
  if N.eqb num_vals N0
  then Ok None
  else bind (div_ universe num_vals) (fun q ->
         let low_len = match msb_spec q with
                       | Some l -> l
                       | None -> N0 in
         bind (add0 c num_vals (Npos XH)) (fun a ->
           bind (shr c universe low_len) (fun h ->
             bind (add0 c a h) (fun a0 ->
               bind (add0 c a0 (Npos XH)) (fun a1 ->
                 bind (from_bit c false a1) (fun high -> Ok (Some { b_high =
                   high; b_low = bv_empty; b_universe = universe;
                   b_num_vals = num_vals; b_pos = N0; b_last = N0;
                   b_low_len = low_len })))))))

(** val efb_push : cfg -> efbuilder -> n -> (efbuilder * bool) res **)

let efb_push c b val1 =
  if N.ltb val1 b.b_last
  then Ok (b, false)
  else if N.leb b.b_universe val1
       then Ok (b, false)
       else if N.leb b.b_num_vals b.b_pos
            then Ok (b, false)
            else bind (shl c (Npos XH) b.b_low_len) (fun t ->
                   bind (sub0 c t (Npos XH)) (fun low_mask ->
                     bind
                       (if negb (N.eqb b.b_low_len N0)
                        then bind
                               (push_bits c b.b_low
                                 (N.coq_land val1 low_mask) b.b_low_len)
                               (fun r ->
                               bind (assert_ (snd r)) (fun _ -> Ok (fst r)))
                        else Ok b.b_low) (fun low ->
                       bind (shr c val1 b.b_low_len) (fun h ->
                         bind (add0 c h b.b_pos) (fun p ->
                           bind (set_bit c b.b_high p true) (fun r ->
                             bind (assert_ (snd r)) (fun _ ->
                               bind (add0 c b.b_pos (Npos XH)) (fun np -> Ok
                                 ({ b_high = (fst r); b_low = low;
                                 b_universe = b.b_universe; b_num_vals =
                                 b.b_num_vals; b_pos = np; b_last = val1;
                                 b_low_len = b.b_low_len }, true)))))))))

(** val efb_extend : cfg -> efbuilder -> n list -> (efbuilder * bool) res **)

let rec efb_extend c b = function
| [] -> Ok (b, true)
| x :: r ->
  bind (efb_push c b x) (fun s ->
    if snd s then efb_extend c (fst s) r else Ok ((fst s), false))

(** val bv_bits : cfg -> bitvec -> bool list res **)

let bv_bits c bv =
  map_res (fun i -> bind (get_bit c bv i) unwrap) (nseq bv.bv_len)

(** val efb_build : cfg -> efbuilder -> eliasfano res **)

let efb_build c b =
  bind (bv_bits c b.b_high) (fun bits ->
    bind (da_from_bits c bits) (fun high -> Ok { ef_high = high; ef_low =
      b.b_low; ef_low_len = b.b_low_len; ef_universe = b.b_universe }))

(** val ef_enable_rank : cfg -> eliasfano -> eliasfano res **)

let ef_enable_rank c e =
  bind (da_enable_select0 c e.ef_high) (fun h -> Ok { ef_high = h; ef_low =
    e.ef_low; ef_low_len = e.ef_low_len; ef_universe = e.ef_universe })

(** val ef_len : eliasfano -> n **)

let ef_len e =
  da_num_ones e.ef_high

(** val ef_low_at : cfg -> eliasfano -> n -> n res **)

let ef_low_at c e k =
  bind (mul0 c k e.ef_low_len) (fun p ->
    bind (get_bits0 c e.ef_low p e.ef_low_len) unwrap)

(** val ef_select0 : cfg -> eliasfano -> n -> n option res **)

let ef_select0 c e k =
  if N.leb (ef_len e) k
  then Ok None
  else bind (da_select1 c e.ef_high k) (fun h ->
         bind (unwrap h) (fun h0 ->
           bind (sub0 c h0 k) (fun d ->
             bind (shl c d e.ef_low_len) (fun hi ->
               bind (ef_low_at c e k) (fun lo -> Ok (Some (N.coq_lor hi lo)))))))

(** val ef_delta0 : cfg -> eliasfano -> n -> n option res **)

let ef_delta0 c e k =
  if N.leb (ef_len e) k
  then Ok None
  else bind (da_select1 c e.ef_high k) (fun h ->
         bind (unwrap h) (fun high_val ->
           bind (ef_low_at c e k) (fun low_val ->
             if negb (N.eqb k N0)
             then bind (sub0 c high_val (Npos XH)) (fun hm1 ->
                    bind (predecessor1 c e.ef_high.da_bv hm1) (fun p ->
                      bind (unwrap p) (fun p0 ->
                        bind (sub0 c high_val p0) (fun t ->
                          bind (sub0 c t (Npos XH)) (fun t0 ->
                            bind (shl c t0 e.ef_low_len) (fun t1 ->
                              bind (add0 c t1 low_val) (fun t2 ->
                                bind (sub0 c k (Npos XH)) (fun k1 ->
                                  bind (ef_low_at c e k1) (fun prev ->
                                    bind (sub0 c t2 prev) (fun x -> Ok (Some
                                      x)))))))))))
             else bind (sub0 c high_val k) (fun d ->
                    bind (shl c d e.ef_low_len) (fun hi -> Ok (Some
                      (N.coq_lor hi low_val)))))))

(** val rank_step : cfg -> eliasfano -> n -> (n * n) -> (n * n, n) sum res **)

let rank_step c e l_pos = function
| (rank4, h_pos) ->
  if N.ltb N0 h_pos
  then bind (sub0 c h_pos (Npos XH)) (fun hp1 ->
         bind (da_access c e.ef_high hp1) (fun a ->
           bind (unwrap a) (fun a0 ->
             if a0
             then bind (sub0 c rank4 (Npos XH)) (fun r1 ->
                    bind (ef_low_at c e r1) (fun lo ->
                      if N.leb l_pos lo
                      then Ok (Inl (r1, hp1))
                      else Ok (Inr rank4)))
             else Ok (Inr rank4))))
  else Ok (Inr rank4)

(** val ef_rank0 : cfg -> eliasfano -> n -> n option res **)

let ef_rank0 c e pos =
  if N.ltb e.ef_universe pos
  then Ok None
  else if N.eqb e.ef_universe pos
       then Ok (Some (ef_len e))
       else bind (shr c pos e.ef_low_len) (fun h_rank ->
              bind (da_select0 c e.ef_high h_rank) (fun hp ->
                bind (unwrap hp) (fun h_pos ->
                  bind (sub0 c h_pos h_rank) (fun rank4 ->
                    bind (shl c (Npos XH) e.ef_low_len) (fun t ->
                      bind (sub0 c t (Npos XH)) (fun m ->
                        let l_pos = N.coq_land pos m in
                        bind
                          (iter_fuel (S (S (N.to_nat rank4)))
                            (rank_step c e l_pos) (rank4, h_pos)) (fun r ->
                          Ok (Some r))))))))

(** val ef_predecessor : cfg -> eliasfano -> n -> n option res **)

let ef_predecessor c e pos =
  if N.leb e.ef_universe pos
  then Ok None
  else bind (add0 c pos (Npos XH)) (fun p1 ->
         bind (ef_rank0 c e p1) (fun r ->
           bind (unwrap r) (fun i ->
             if N.ltb N0 i
             then bind (sub0 c i (Npos XH)) (fun i1 ->
                    bind (ef_select0 c e i1) (fun s ->
                      bind (unwrap s) (fun s0 -> Ok (Some s0))))
             else Ok None)))

(** val ef_successor : cfg -> eliasfano -> n -> n option res **)

let ef_successor c e pos =
  if N.leb e.ef_universe pos
  then Ok None
  else bind (ef_rank0 c e pos) (fun r ->
         bind (unwrap r) (fun i ->
           if N.ltb i (ef_len e)
           then bind (ef_select0 c e i) (fun s ->
                  bind (unwrap s) (fun s0 -> Ok (Some s0)))
           else Ok None))

type efiter = { i_k : n; i_high : uiter option; i_low_buf : n;
                i_low_mask : n; i_chunks_in_word : n; i_chunks_avail : 
                n }

(** val efi_new : cfg -> eliasfano -> n -> efiter res **)

let efi_new c e k =
  bind
    (dassert c (N.ltb e.ef_low_len (Npos (XO (XO (XO (XO (XO (XO XH)))))))))
    (fun _ ->
    bind (shl c (Npos XH) e.ef_low_len) (fun t ->
      bind (sub0 c t (Npos XH)) (fun low_mask ->
        bind
          (if negb (N.eqb e.ef_low_len N0)
           then div_ (Npos (XO (XO (XO (XO (XO (XO XH))))))) e.ef_low_len
           else Ok N0) (fun ciw ->
          let cav = if negb (N.eqb e.ef_low_len N0) then N0 else ef_len e in
          bind
            (if N.ltb k (ef_len e)
             then bind (da_select1 c e.ef_high k) (fun p ->
                    bind (unwrap p) (fun p0 -> Ok (Some
                      (unary_new e.ef_high.da_bv p0))))
             else Ok None) (fun hi -> Ok { i_k = k; i_high = hi; i_low_buf =
            N0; i_low_mask = low_mask; i_chunks_in_word = ciw;
            i_chunks_avail = cav })))))

(** val efi_next : cfg -> eliasfano -> efiter -> (efiter * n option) res **)

let efi_next c e it =
  let hi0 = if N.eqb it.i_k (ef_len e) then None else it.i_high in
  (match hi0 with
   | Some hit ->
     bind
       (if N.eqb it.i_chunks_avail N0
        then bind (mul0 c it.i_k e.ef_low_len) (fun p ->
               bind (get_word0 c e.ef_low p) (fun w0 ->
                 bind (unwrap w0) (fun w1 ->
                   bind (sub0 c it.i_chunks_in_word (Npos XH)) (fun a -> Ok
                     (w1, a)))))
        else bind (sub0 c it.i_chunks_avail (Npos XH)) (fun a -> Ok
               (it.i_low_buf, a))) (fun st ->
       let (low_buf, avail) = st in
       bind (unary_next c e.ef_high.da_bv hit) (fun r ->
         bind (unwrap (snd r)) (fun high ->
           let low = N.coq_land low_buf it.i_low_mask in
           bind (sub0 c high it.i_k) (fun d ->
             bind (shl c d e.ef_low_len) (fun hs ->
               let ret = N.coq_lor hs low in
               bind (add0 c it.i_k (Npos XH)) (fun k1 ->
                 bind (shr c low_buf e.ef_low_len) (fun lb -> Ok ({ i_k = k1;
                   i_high = (Some (fst r)); i_low_buf = lb; i_low_mask =
                   it.i_low_mask; i_chunks_in_word = it.i_chunks_in_word;
                   i_chunks_avail = avail }, (Some ret)))))))))
   | None ->
     Ok ({ i_k = it.i_k; i_high = None; i_low_buf = it.i_low_buf;
       i_low_mask = it.i_low_mask; i_chunks_in_word = it.i_chunks_in_word;
       i_chunks_avail = it.i_chunks_avail }, None))

(** val bs_step :
    cfg -> eliasfano -> n -> (n * n) -> (n * n, (n option, n * n) sum) sum res **)

let bs_step c e val1 = function
| (lo, hi) ->
  bind (sub0 c hi lo) (fun d ->
    if N.ltb lINEAR_SCAN_THRESHOLD d
    then bind (add0 c lo hi) (fun s ->
           let mi = N.div s (Npos (XO XH)) in
           bind (ef_select0 c e mi) (fun x ->
             bind (unwrap x) (fun x0 ->
               if N.eqb val1 x0
               then Ok (Inr (Inl (Some mi)))
               else if N.ltb val1 x0
                    then Ok (Inl (lo, mi))
                    else bind (add0 c mi (Npos XH)) (fun m1 -> Ok (Inl (m1,
                           hi))))))
    else Ok (Inr (Inr (lo, hi))))

(** val bs_linear :
    cfg -> eliasfano -> n -> nat -> n -> efiter -> n option res **)

let rec bs_linear c e val1 n0 i it =
  match n0 with
  | O -> Ok None
  | S m ->
    bind (efi_next c e it) (fun r ->
      bind (unwrap (snd r)) (fun x ->
        if N.eqb val1 x
        then Ok (Some i)
        else bs_linear c e val1 m (N.add i (Npos XH)) (fst r)))

(** val ef_binsearch_range :
    cfg -> eliasfano -> n -> n -> n -> n option res **)

let ef_binsearch_range c e rs re val1 =
  if (||) (N.leb re rs) (N.ltb (ef_len e) re)
  then Ok None
  else bind
         (iter_fuel (S (S (S (S (S (S (S (S (S (S (S (S (S (S (S (S (S (S (S
           (S (S (S (S (S (S (S (S (S (S (S (S (S (S (S (S (S (S (S (S (S (S
           (S (S (S (S (S (S (S (S (S (S (S (S (S (S (S (S (S (S (S (S (S (S
           (S (S (S
           O))))))))))))))))))))))))))))))))))))))))))))))))))))))))))))))))))
           (bs_step c e val1) (rs, re)) (fun r ->
         match r with
         | Inl found -> Ok found
         | Inr p ->
           let (lo, hi) = p in
           bind (efi_new c e lo) (fun it ->
             bs_linear c e val1 (N.to_nat (N.sub hi lo)) lo it))

(** val ef_binsearch : cfg -> eliasfano -> n -> n option res **)

let ef_binsearch c e val1 =
  ef_binsearch_range c e N0 (ef_len e) val1

(** val ef_from_bits : cfg -> bitvec -> eliasfano option res **)

let ef_from_bits c bv =
  if N.eqb bv.bv_len N0
  then Ok None
  else let n0 = bv.bv_len in
       bind (fold_res (fun acc w0 -> add0 c acc (popcN w0)) bv.bv_words N0)
         (fun m ->
         if N.eqb m N0
         then Ok None
         else bind (efb_new c n0 m) (fun b ->
                bind (unwrap b) (fun b0 ->
                  bind
                    (fold_res (fun b1 i ->
                      bind (access0 c bv i) (fun x ->
                        bind (unwrap x) (fun x0 ->
                          if x0
                          then bind (efb_push c b1 i) (fun r ->
                                 bind (assert_ (snd r)) (fun _ -> Ok (fst r)))
                          else Ok b1))) (nseq n0) b0) (fun b1 ->
                    bind (efb_build c b1) (fun e -> Ok (Some e))))))

type sarray = { sa_ef : eliasfano option; sa_num_bits : n; sa_num_ones : 
                n; sa_has_rank : bool }

(** val push_ones :
    cfg -> nat -> bitvec -> uiter -> efbuilder -> efbuilder res **)

let rec push_ones c fuel bv it b =
  match fuel with
  | O -> Panic
  | S f ->
    bind (unary_next c bv it) (fun r ->
      match snd r with
      | Some i ->
        bind (efb_push c b i) (fun s ->
          bind (assert_ (snd s)) (fun _ -> push_ones c f bv (fst r) (fst s)))
      | None -> Ok b)

(** val sa_from_bv : cfg -> bitvec -> sarray res **)

let sa_from_bv c bv =
  let num_bits = bv.bv_len in
  bind (fold_res (fun acc w0 -> add0 c acc (popcN w0)) bv.bv_words N0)
    (fun num_ones1 ->
    bind
      (if negb (N.eqb num_ones1 N0)
       then bind (efb_new c num_bits num_ones1) (fun b ->
              bind (unwrap b) (fun b0 ->
                bind
                  (push_ones c (S (S (N.to_nat num_ones1))) bv
                    (unary_new bv N0) b0) (fun b1 ->
                  bind (efb_build c b1) (fun e -> Ok (Some e)))))
       else Ok None) (fun ef -> Ok { sa_ef = ef; sa_num_bits = num_bits;
      sa_num_ones = num_ones1; sa_has_rank = false }))

(** val sa_enable_rank : cfg -> sarray -> sarray res **)

let sa_enable_rank c s =
  bind
    (match s.sa_ef with
     | Some e -> bind (ef_enable_rank c e) (fun e' -> Ok (Some e'))
     | None -> Ok None) (fun ef -> Ok { sa_ef = ef; sa_num_bits =
    s.sa_num_bits; sa_num_ones = s.sa_num_ones; sa_has_rank = true })

(** val sa_access : cfg -> sarray -> n -> bool option res **)

let sa_access c s pos =
  if N.leb s.sa_num_bits pos
  then Ok None
  else (match s.sa_ef with
        | Some e ->
          bind (ef_binsearch c e pos) (fun r -> Ok (Some
            (match r with
             | Some _ -> true
             | None -> false)))
        | None -> Ok (Some false))

(** val sa_rank1 : cfg -> sarray -> n -> n option res **)

let sa_rank1 c s pos =
  bind (assert_ s.sa_has_rank) (fun _ ->
    if N.ltb s.sa_num_bits pos
    then Ok None
    else (match s.sa_ef with
          | Some e -> ef_rank0 c e pos
          | None -> Ok (Some N0)))

(** val sa_rank0 : cfg -> sarray -> n -> n option res **)

let sa_rank0 c s pos =
  bind (sa_rank1 c s pos) (fun r ->
    match r with
    | Some r1 -> bind (sub0 c pos r1) (fun t -> Ok (Some t))
    | None -> Ok None)

(** val sa_select1 : cfg -> sarray -> n -> n option res **)

let sa_select1 c s k =
  match s.sa_ef with
  | Some e -> ef_select0 c e k
  | None -> Ok None

(** val sa_predecessor1 : cfg -> sarray -> n -> n option res **)

let sa_predecessor1 c s pos =
  bind (assert_ s.sa_has_rank) (fun _ ->
    match s.sa_ef with
    | Some e -> ef_predecessor c e pos
    | None -> Ok None)

(** val sa_successor1 : cfg -> sarray -> n -> n option res **)

let sa_successor1 c s pos =
  bind (assert_ s.sa_has_rank) (fun _ ->
    match s.sa_ef with
    | Some e -> ef_successor c e pos
    | None -> Ok None)

(** val needed_bits : cfg -> n -> n res **)

let needed_bits c x =
  match msb_spec x with
  | Some n0 -> add0 c n0 (Npos XH)
  | None -> Ok (Npos XH)

(** val ceiled_divide : cfg -> n -> n -> n res **)

let ceiled_divide c x y =
  bind (add0 c x y) (fun t -> bind (sub0 c t (Npos XH)) (fun t0 -> div_ t0 y))

type compvec = { cv_chunks : bitvec; cv_len : n; cv_width : n }

(** val cv_default : compvec **)

let cv_default =
  { cv_chunks = bv_empty; cv_len = N0; cv_width = N0 }

(** val width_ok : n -> bool **)

let width_ok w0 =
  (&&) (N.leb (Npos XH) w0) (N.leb w0 (Npos (XO (XO (XO (XO (XO (XO XH))))))))

(** val cv_new : n -> compvec option **)

let cv_new width =
  if width_ok width
  then Some { cv_chunks = bv_empty; cv_len = N0; cv_width = width }
  else None

(** val cv_with_capacity : cfg -> n -> n -> compvec option res **)

let cv_with_capacity c capa width =
  if width_ok width
  then bind (mul0 c capa width) (fun n0 ->
         bind (words_for c n0) (fun _ -> Ok (Some { cv_chunks = bv_empty;
           cv_len = N0; cv_width = width })))
  else Ok None

(** val fits : cfg -> n -> n -> bool res **)

let fits c width val1 =
  if negb (N.eqb width (Npos (XO (XO (XO (XO (XO (XO XH))))))))
  then bind (shr c val1 width) (fun t -> Ok (N.eqb t N0))
  else Ok true

(** val cv_push_int : cfg -> compvec -> n -> (compvec * bool) res **)

let cv_push_int c v val1 =
  bind (fits c v.cv_width val1) (fun f ->
    if negb f
    then Ok (v, false)
    else bind (push_bits c v.cv_chunks val1 v.cv_width) (fun r ->
           bind (assert_ (snd r)) (fun _ ->
             bind (add0 c v.cv_len (Npos XH)) (fun l -> Ok ({ cv_chunks =
               (fst r); cv_len = l; cv_width = v.cv_width }, true)))))

(** val cv_extend : cfg -> compvec -> n list -> (compvec * bool) res **)

let rec cv_extend c v = function
| [] -> Ok (v, true)
| x :: r ->
  bind (cv_push_int c v x) (fun s ->
    if snd s then cv_extend c (fst s) r else Ok ((fst s), false))

(** val cv_push_n : cfg -> nat -> compvec -> n -> compvec res **)

let rec cv_push_n c n0 v val1 =
  match n0 with
  | O -> Ok v
  | S m ->
    bind (cv_push_int c v val1) (fun r ->
      bind (assert_ (snd r)) (fun _ -> cv_push_n c m (fst r) val1))

(** val cv_from_int : cfg -> n -> n -> n -> compvec option res **)

let cv_from_int c val1 len width =
  if negb (width_ok width)
  then Ok None
  else bind
         (if N.ltb width (Npos (XO (XO (XO (XO (XO (XO XH)))))))
          then bind (shr c val1 width) (fun t -> Ok (N.eqb t N0))
          else Ok true) (fun f ->
         if negb f
         then Ok None
         else bind (cv_with_capacity c len width) (fun v ->
                bind (unwrap v) (fun v0 ->
                  bind (cv_push_n c (N.to_nat len) v0 val1) (fun v1 -> Ok
                    (Some v1)))))

(** val cv_from_slice : cfg -> n list -> compvec option res **)

let cv_from_slice c vals = match vals with
| [] -> Ok (Some cv_default)
| _ :: _ ->
  let max_int = fold_left N.max vals N0 in
  bind (needed_bits c max_int) (fun w0 ->
    bind (cv_with_capacity c (lenN vals) w0) (fun v ->
      match v with
      | Some v0 ->
        bind
          (fold_res (fun v1 x ->
            bind (cv_push_int c v1 x) (fun r ->
              bind (assert_ (snd r)) (fun _ -> Ok (fst r)))) vals v0)
          (fun v1 -> Ok (Some v1))
      | None -> Ok None))

(** val cv_get_int : cfg -> compvec -> n -> n option res **)

let cv_get_int c v pos =
  if N.leb v.cv_len pos
  then Ok None
  else bind (mul0 c pos v.cv_width) (fun p ->
         get_bits0 c v.cv_chunks p v.cv_width)

(** val cv_access : cfg -> compvec -> n -> n option res **)

let cv_access =
  cv_get_int

(** val cv_set_int : cfg -> compvec -> n -> n -> (compvec * bool) res **)

let cv_set_int c v pos val1 =
  if N.leb v.cv_len pos
  then Ok (v, false)
  else bind (fits c v.cv_width val1) (fun f ->
         if negb f
         then Ok (v, false)
         else bind (mul0 c pos v.cv_width) (fun p ->
                bind (set_bits c v.cv_chunks p val1 v.cv_width) (fun r ->
                  bind (assert_ (snd r)) (fun _ -> Ok ({ cv_chunks = 
                    (fst r); cv_len = v.cv_len; cv_width = v.cv_width },
                    true)))))

(** val cv_iter_next : cfg -> compvec -> n -> (n * n option) res **)

let cv_iter_next c v pos =
  if N.ltb pos v.cv_len
  then bind (cv_access c v pos) (fun x ->
         bind (unwrap x) (fun x0 ->
           bind (add0 c pos (Npos XH)) (fun p -> Ok (p, (Some x0)))))
  else Ok (pos, None)

(** val cv_to_list : cfg -> compvec -> n list res **)

let cv_to_list c v =
  map_res (fun i -> bind (cv_get_int c v i) unwrap) (nseq v.cv_len)

(** val cv_eqb : compvec -> compvec -> bool **)

let cv_eqb a b =
  (&&) ((&&) (bv_eqb a.cv_chunks b.cv_chunks) (N.eqb a.cv_len b.cv_len))
    (N.eqb a.cv_width b.cv_width)

(** val lEVEL_WIDTH : n **)

let lEVEL_WIDTH =
  Npos (XO (XO (XO XH)))

(** val lEVEL_MASK : n **)

let lEVEL_MASK =
  Npos (XI (XI (XI (XI (XI (XI (XI XH)))))))

type dacsbyte = { db_data : n list list; db_flags : r9sel list }

(** val db_default : dacsbyte **)

let db_default =
  { db_data = ([] :: []); db_flags = [] }

(** val upd_nth : 'a1 list -> n -> ('a1 -> 'a1) -> 'a1 -> 'a1 list **)

let upd_nth l j f d =
  setN l j (f (nthN l j d))

(** val db_push_levels :
    cfg -> nat -> n -> n -> n -> n list list -> bitvec list -> (n list
    list * bitvec list) res **)

let rec db_push_levels c fuel num_levels j x data flags =
  match fuel with
  | O -> Ok (data, flags)
  | S f ->
    bind (assert_ (N.ltb j (lenN data))) (fun _ ->
      let byte = N.coq_land x lEVEL_MASK in
      let data0 = upd_nth data j (fun l -> app l (byte :: [])) [] in
      bind (shr c x lEVEL_WIDTH) (fun x0 ->
        bind (sub0 c num_levels (Npos XH)) (fun nl1 ->
          if N.eqb j nl1
          then bind (assert_ (N.eqb x0 N0)) (fun _ -> Ok (data0, flags))
          else bind (assert_ (N.ltb j (lenN flags))) (fun _ ->
                 bind
                   (push_bit c (nthN flags j bv_empty) (negb (N.eqb x0 N0)))
                   (fun fj ->
                   let flags0 = setN flags j fj in
                   if N.eqb x0 N0
                   then Ok (data0, flags0)
                   else db_push_levels c f num_levels (N.add j (Npos XH)) x0
                          data0 flags0)))))

(** val db_from_slice : cfg -> n list -> dacsbyte res **)

let db_from_slice c vals = match vals with
| [] -> Ok db_default
| _ :: _ ->
  let maxv = fold_left N.max vals N0 in
  bind (needed_bits c maxv) (fun num_bits ->
    bind (ceiled_divide c num_bits lEVEL_WIDTH) (fun num_levels ->
      bind (assert_ (negb (N.eqb num_levels N0))) (fun _ ->
        if N.eqb num_levels (Npos XH)
        then bind
               (assert_
                 (forallb (fun x ->
                   N.ltb x (Npos (XO (XO (XO (XO (XO (XO (XO (XO XH))))))))))
                   vals)) (fun _ -> Ok { db_data = (vals :: []); db_flags =
               [] })
        else bind (sub0 c num_levels (Npos XH)) (fun nl1 ->
               let data0 = repeat [] (N.to_nat num_levels) in
               let flags0 = repeat bv_empty (N.to_nat nl1) in
               bind
                 (fold_res (fun df x ->
                   db_push_levels c (N.to_nat num_levels) num_levels N0 x
                     (fst df) (snd df)) vals (data0, flags0)) (fun df ->
                 bind
                   (fold_res (fun acc bv ->
                     bind (r9_new c bv) (fun r -> Ok (app acc (r :: []))))
                     (snd df) []) (fun flags -> Ok { db_data = (fst df);
                   db_flags = flags }))))))

(** val db_len : cfg -> dacsbyte -> n res **)

let db_len _ d =
  bind (idx [] d.db_data N0) (fun l -> Ok (lenN l))

(** val db_num_levels : dacsbyte -> n **)

let db_num_levels d =
  lenN d.db_data

(** val db_widths : dacsbyte -> n list **)

let db_widths d =
  map (fun _ -> lEVEL_WIDTH) d.db_data

(** val db_access_loop : cfg -> nat -> dacsbyte -> n -> n -> n -> n res **)

let rec db_access_loop c fuel d j pos x =
  match fuel with
  | O -> Ok x
  | S f ->
    bind (idx [] d.db_data j) (fun lv ->
      bind (idx N0 lv pos) (fun b ->
        bind (mul0 c j lEVEL_WIDTH) (fun sh ->
          bind (shl c b sh) (fun t ->
            let x0 = N.coq_lor x t in
            bind (sub0 c (db_num_levels d) (Npos XH)) (fun nl1 ->
              if N.eqb j nl1
              then Ok x0
              else bind
                     (idx { r9_bv = bv_empty; r9_rs = { r_len = N0; r_brp =
                       []; r_h1 = None; r_h0 = None } } d.db_flags j)
                     (fun fl ->
                     bind (r9_access c fl pos) (fun a ->
                       bind (unwrap a) (fun a0 ->
                         if negb a0
                         then Ok x0
                         else bind (r9_rank1 c fl pos) (fun p ->
                                bind (unwrap p) (fun p0 ->
                                  db_access_loop c f d (N.add j (Npos XH)) p0
                                    x0))))))))))

(** val db_access : cfg -> dacsbyte -> n -> n option res **)

let db_access c d pos =
  bind (db_len c d) (fun n0 ->
    if N.leb n0 pos
    then Ok None
    else bind (db_access_loop c (N.to_nat (db_num_levels d)) d N0 pos N0)
           (fun x -> Ok (Some x)))

(** val db_iter_next : cfg -> dacsbyte -> n -> (n * n option) res **)

let db_iter_next c d pos =
  bind (db_len c d) (fun n0 ->
    if N.ltb pos n0
    then bind (db_access c d pos) (fun x ->
           bind (unwrap x) (fun x0 ->
             bind (add0 c pos (Npos XH)) (fun p -> Ok (p, (Some x0)))))
    else Ok (pos, None))

type dacsopt = { do_data : compvec list; do_flags : r9sel list }

(** val do_default : dacsopt **)

let do_default =
  { do_data = (cv_default :: []); do_flags = [] }

(** val nums_ints : cfg -> n -> n list -> n list res **)

let nums_ints c num_bits vals =
  bind (add0 c num_bits (Npos XH)) (fun nb1 ->
    let h0 = repeat N0 (N.to_nat nb1) in
    bind
      (fold_res (fun h x ->
        bind (needed_bits c x) (fun nb ->
          bind (sub0 c nb (Npos XH)) (fun i ->
            bind (idx N0 h i) (fun v ->
              bind (add0 c v (Npos XH)) (fun v1 -> Ok (setN h i v1)))))) vals
        h0) (fun h ->
      fold_res (fun h1 j ->
        bind (idx N0 h1 j) (fun a ->
          bind (add0 c j (Npos XH)) (fun j1 ->
            bind (idx N0 h1 j1) (fun b ->
              bind (add0 c a b) (fun s -> Ok (setN h1 j s))))))
        (rev (nseq num_bits)) h))

(** val dp_cell : cfg -> n -> n list -> n list -> n -> (n * n) res **)

let dp_cell c num_bits nums prev_s j =
  bind (idx N0 nums j) (fun nj ->
    bind (sub0 c num_bits j) (fun bmax ->
      fold_res (fun sb b ->
        bind (add0 c b (Npos XH)) (fun b1 ->
          bind (mul0 c b1 nj) (fun t ->
            bind (add0 c j b) (fun jb ->
              bind (idx N0 prev_s jb) (fun p ->
                bind (add0 c t p) (fun cst ->
                  if N.leb cst (fst sb) then Ok (cst, b) else Ok sb))))))
        (map (fun b -> N.add b (Npos XH)) (nseq bmax)) (mASK64, N0)))

(** val dp_column : cfg -> n -> n list -> n list -> (n list * n list) res **)

let dp_column c num_bits nums prev_s =
  bind
    (fold_res (fun acc j ->
      bind (dp_cell c num_bits nums prev_s j) (fun x -> Ok
        (app acc (x :: [])))) (nseq num_bits) []) (fun cells -> Ok
    ((app (map fst cells) (N0 :: [])), (app (map snd cells) (N0 :: []))))

(** val dp_columns :
    cfg -> nat -> n -> n list -> n list list -> n list list -> (n list
    list * n list list) res **)

let rec dp_columns c n0 num_bits nums cols_s cols_b =
  match n0 with
  | O -> Ok (cols_s, cols_b)
  | S m ->
    bind (unwrap (last_opt cols_s)) (fun prev ->
      bind (dp_column c num_bits nums prev) (fun cb ->
        dp_columns c m num_bits nums (app cols_s ((fst cb) :: []))
          (app cols_b ((snd cb) :: []))))

(** val walk_widths :
    cfg -> nat -> n -> n -> n list list -> n -> n -> n list -> ((n * n) * n
    list) res **)

let rec walk_widths c fuel num_bits num_levels cols_b j r widths =
  match fuel with
  | O -> Panic
  | S f ->
    if N.ltb j num_bits
    then bind (assert_ (N.ltb r (lenN widths))) (fun _ ->
           bind (sub0 c num_levels r) (fun t ->
             bind (sub0 c t (Npos XH)) (fun ci ->
               bind (idx [] cols_b ci) (fun col ->
                 bind (idx N0 col j) (fun w0 ->
                   bind (add0 c j w0) (fun j' ->
                     bind (add0 c r (Npos XH)) (fun r' ->
                       walk_widths c f num_bits num_levels cols_b j' r'
                         (setN widths r w0))))))))
    else Ok ((j, r), widths)

(** val compute_opt_widths : cfg -> n list -> n -> n list res **)

let compute_opt_widths c vals max_levels =
  bind (assert_ (negb (N.eqb (lenN vals) N0))) (fun _ ->
    bind (assert_ (negb (N.eqb max_levels N0))) (fun _ ->
      let maxv = fold_left N.max vals N0 in
      bind (needed_bits c maxv) (fun num_bits ->
        let max_levels0 = N.min max_levels num_bits in
        bind (nums_ints c num_bits vals) (fun nums ->
          bind (idx N0 nums N0) (fun n0 ->
            bind (dassert c (N.eqb n0 (lenN vals))) (fun _ ->
              bind (unwrap (last_opt nums)) (fun nl ->
                bind (dassert c (N.eqb nl N0)) (fun _ ->
                  bind
                    (fold_res (fun acc j ->
                      bind (sub0 c num_bits j) (fun d ->
                        bind (idx N0 nums j) (fun nj ->
                          bind (mul0 c d nj) (fun s -> Ok
                            ((app (fst acc) (s :: [])),
                            (app (snd acc) (d :: []))))))) (nseq num_bits)
                      ([], [])) (fun col0 ->
                    bind (sub0 c max_levels0 (Npos XH)) (fun ml1 ->
                      bind
                        (dp_columns c (N.to_nat ml1) num_bits nums
                          ((app (fst col0) (N0 :: [])) :: [])
                          ((app (snd col0) (N0 :: [])) :: [])) (fun tabs ->
                        let cols_s = fst tabs in
                        let cols_b = snd tabs in
                        bind (idx [] cols_s N0) (fun first ->
                          bind (idx N0 first N0) (fun best0 ->
                            bind
                              (fold_res (fun bm r ->
                                bind (idx [] cols_s r) (fun col ->
                                  bind (idx N0 col N0) (fun v ->
                                    if N.ltb v (fst bm)
                                    then Ok (v, r)
                                    else Ok bm)))
                                (map (fun r -> N.add r (Npos XH)) (nseq ml1))
                                (best0, N0)) (fun mi ->
                              bind (add0 c (snd mi) (Npos XH))
                                (fun num_levels ->
                                bind
                                  (walk_widths c (S (S (S (S (S (S (S (S (S
                                    (S (S (S (S (S (S (S (S (S (S (S (S (S (S
                                    (S (S (S (S (S (S (S (S (S (S (S (S (S (S
                                    (S (S (S (S (S (S (S (S (S (S (S (S (S (S
                                    (S (S (S (S (S (S (S (S (S (S (S (S (S (S
                                    (S
                                    O))))))))))))))))))))))))))))))))))))))))))))))))))))))))))))))))))
                                    num_bits num_levels cols_b N0 N0
                                    (repeat N0 (N.to_nat num_levels)))
                                  (fun w0 ->
                                  let (p, widths) = w0 in
                                  let (j, r) = p in
                                  bind (assert_ (N.eqb j num_bits)) (fun _ ->
                                    bind (assert_ (N.eqb r num_levels))
                                      (fun _ ->
                                      bind
                                        (fold_res (fun a x -> add0 c a x)
                                          widths N0) (fun s ->
                                        bind (assert_ (N.eqb s num_bits))
                                          (fun _ -> Ok widths))))))))))))))))))))

(** val do_push_levels :
    cfg -> n list -> n -> n -> n -> compvec list -> bitvec list -> (compvec
    list * bitvec list) res **)

let rec do_push_levels c widths nlev j x data flags =
  match widths with
  | [] -> Ok (data, flags)
  | width :: rest ->
    bind (shl c (Npos XH) width) (fun t ->
      bind (sub0 c t (Npos XH)) (fun mask0 ->
        bind (assert_ (N.ltb j (lenN data))) (fun _ ->
          bind (cv_push_int c (nthN data j cv_default) (N.coq_land x mask0))
            (fun r ->
            bind (assert_ (snd r)) (fun _ ->
              let data0 = setN data j (fst r) in
              bind (shr c x width) (fun x0 ->
                bind (sub0 c nlev (Npos XH)) (fun nl1 ->
                  if N.eqb j nl1
                  then bind (assert_ (N.eqb x0 N0)) (fun _ -> Ok (data0,
                         flags))
                  else bind (assert_ (N.ltb j (lenN flags))) (fun _ ->
                         bind
                           (push_bit c (nthN flags j bv_empty)
                             (negb (N.eqb x0 N0))) (fun fj ->
                           let flags0 = setN flags j fj in
                           if N.eqb x0 N0
                           then Ok (data0, flags0)
                           else do_push_levels c rest nlev
                                  (N.add j (Npos XH)) x0 data0 flags0)))))))))

(** val do_build : cfg -> n list -> n list -> dacsopt res **)

let do_build c vals widths =
  bind (assert_ (negb (N.eqb (lenN vals) N0))) (fun _ ->
    bind (assert_ (negb (N.eqb (lenN widths) N0))) (fun _ ->
      if N.eqb (lenN widths) (Npos XH)
      then bind (idx N0 widths N0) (fun w0 ->
             bind (cv_with_capacity c (lenN vals) w0) (fun d ->
               bind (unwrap d) (fun d0 ->
                 bind
                   (fold_res (fun v x ->
                     bind (cv_push_int c v x) (fun r ->
                       bind (assert_ (snd r)) (fun _ -> Ok (fst r)))) vals d0)
                   (fun d1 -> Ok { do_data = (d1 :: []); do_flags = [] }))))
      else bind
             (fold_res (fun acc w0 ->
               bind (unwrap (cv_new w0)) (fun v -> Ok (app acc (v :: []))))
               widths []) (fun data0 ->
             bind (sub0 c (lenN widths) (Npos XH)) (fun nl1 ->
               let flags0 = repeat bv_empty (N.to_nat nl1) in
               bind
                 (fold_res (fun df x ->
                   do_push_levels c widths (lenN widths) N0 x (fst df)
                     (snd df)) vals (data0, flags0)) (fun df ->
                 bind
                   (fold_res (fun acc bv ->
                     bind (r9_new c bv) (fun r -> Ok (app acc (r :: []))))
                     (snd df) []) (fun flags -> Ok { do_data = (fst df);
                   do_flags = flags }))))))

(** val do_from_slice : cfg -> n list -> n option -> dacsopt option res **)

let do_from_slice c vals max_levels =
  let ml =
    match max_levels with
    | Some m -> m
    | None -> Npos (XO (XO (XO (XO (XO (XO XH))))))
  in
  if negb
       ((&&) (N.leb (Npos XH) ml)
         (N.leb ml (Npos (XO (XO (XO (XO (XO (XO XH)))))))))
  then Ok None
  else (match vals with
        | [] -> Ok (Some do_default)
        | _ :: _ ->
          bind (compute_opt_widths c vals ml) (fun w0 ->
            bind (do_build c vals w0) (fun d -> Ok (Some d))))

(** val do_len : cfg -> dacsopt -> n res **)

let do_len _ d =
  bind (idx cv_default d.do_data N0) (fun v -> Ok v.cv_len)

(** val do_num_levels : dacsopt -> n **)

let do_num_levels d =
  lenN d.do_data

(** val do_widths : dacsopt -> n list **)

let do_widths d =
  map (fun c -> c.cv_width) d.do_data

(** val do_access_loop :
    cfg -> nat -> dacsopt -> n -> n -> n -> n -> n res **)

let rec do_access_loop c fuel d j pos x width =
  match fuel with
  | O -> Ok x
  | S f ->
    bind (idx cv_default d.do_data j) (fun lv ->
      bind (cv_access c lv pos) (fun b ->
        bind (unwrap b) (fun b0 ->
          bind (shl c b0 width) (fun t ->
            let x0 = N.coq_lor x t in
            bind (sub0 c (do_num_levels d) (Npos XH)) (fun nl1 ->
              if N.eqb j nl1
              then Ok x0
              else bind
                     (idx { r9_bv = bv_empty; r9_rs = { r_len = N0; r_brp =
                       []; r_h1 = None; r_h0 = None } } d.do_flags j)
                     (fun fl ->
                     bind (r9_access c fl pos) (fun a ->
                       bind (unwrap a) (fun a0 ->
                         if negb a0
                         then Ok x0
                         else bind (r9_rank1 c fl pos) (fun p ->
                                bind (unwrap p) (fun p0 ->
                                  bind (add0 c width lv.cv_width) (fun w0 ->
                                    do_access_loop c f d (N.add j (Npos XH))
                                      p0 x0 w0)))))))))))

(** val do_access : cfg -> dacsopt -> n -> n option res **)

let do_access c d pos =
  bind (do_len c d) (fun n0 ->
    if N.leb n0 pos
    then Ok None
    else bind (do_access_loop c (N.to_nat (do_num_levels d)) d N0 pos N0 N0)
           (fun x -> Ok (Some x)))

(** val do_iter_next : cfg -> dacsopt -> n -> (n * n option) res **)

let do_iter_next c d pos =
  bind (do_len c d) (fun n0 ->
    if N.ltb pos n0
    then bind (do_access c d pos) (fun x ->
           bind (unwrap x) (fun x0 ->
             bind (add0 c pos (Npos XH)) (fun p -> Ok (p, (Some x0)))))
    else Ok (pos, None))

type psef =
  eliasfano
  (* singleton inductive, whose constructor was Build_psef *)

(** val ps_ef : psef -> eliasfano **)

let ps_ef p =
  p

(** val ps_from_slice : cfg -> n list -> psef option res **)

let ps_from_slice c vals = match vals with
| [] -> Ok None
| _ :: _ ->
  bind (fold_res (fun u x -> add0 c u x) vals N0) (fun universe ->
    bind (add0 c universe (Npos XH)) (fun u1 ->
      bind (efb_new c u1 (lenN vals)) (fun b ->
        match b with
        | Some b0 ->
          bind
            (fold_res (fun st x ->
              let (p, ok) = st in
              let (b1, cur) = p in
              if negb ok
              then Ok st
              else bind (add0 c cur x) (fun cur0 ->
                     bind (efb_push c b1 cur0) (fun r -> Ok (((fst r), cur0),
                       (snd r))))) vals ((b0, N0), true)) (fun st ->
            let (p, ok) = st in
            let (b1, _) = p in
            if negb ok
            then Ok None
            else bind (efb_build c b1) (fun e -> Ok (Some e)))
        | None -> Ok None)))

(** val ps_len : psef -> n **)

let ps_len p =
  ef_len (ps_ef p)

(** val ps_sum : cfg -> psef -> n res **)

let ps_sum c p =
  sub0 c (ps_ef p).ef_universe (Npos XH)

(** val ps_access : cfg -> psef -> n -> n option res **)

let ps_access c p pos =
  ef_delta0 c (ps_ef p) pos

(** val ps_iter_next : cfg -> psef -> n -> (n * n option) res **)

let ps_iter_next c p pos =
  if N.ltb pos (ps_len p)
  then bind (ps_access c p pos) (fun x ->
         bind (unwrap x) (fun x0 ->
           bind (add0 c pos (Npos XH)) (fun q -> Ok (q, (Some x0)))))
  else Ok (pos, None)

type bkind =
| KRank9
| KDArray
| KBitVec

type backing =
| BRank9 of r9sel
| BDArray of darray
| BBitVec of bitvec

(** val b_build : cfg -> bkind -> bitvec -> backing res **)

let b_build c k bv =
  match k with
  | KRank9 -> bind (r9_build c bv true true) (fun x -> Ok (BRank9 x))
  | KDArray -> bind (da_build_cfg c bv true true) (fun x -> Ok (BDArray x))
  | KBitVec -> Ok (BBitVec bv)

(** val b_num_bits : backing -> n **)

let b_num_bits = function
| BRank9 x -> r9_num_bits x
| BDArray x -> da_num_bits x
| BBitVec x -> x.bv_len

(** val b_num_ones : cfg -> backing -> n res **)

let b_num_ones c = function
| BRank9 x -> r9_num_ones c x
| BDArray x -> Ok (da_num_ones x)
| BBitVec x -> num_ones c x

(** val b_num_zeros : cfg -> backing -> n res **)

let b_num_zeros c b =
  bind (b_num_ones c b) (fun o -> sub0 c (b_num_bits b) o)

(** val b_access : cfg -> backing -> n -> bool option res **)

let b_access c b i =
  match b with
  | BRank9 x -> r9_access c x i
  | BDArray x -> da_access c x i
  | BBitVec x -> access0 c x i

(** val b_rank1 : cfg -> backing -> n -> n option res **)

let b_rank1 c b i =
  match b with
  | BRank9 x -> r9_rank1 c x i
  | BDArray x -> da_rank1 c x i
  | BBitVec x -> rank1 c x i

(** val b_rank0 : cfg -> backing -> n -> n option res **)

let b_rank0 c b i =
  match b with
  | BRank9 x -> r9_rank0 c x i
  | BDArray x -> da_rank0 c x i
  | BBitVec x -> rank0 c x i

(** val b_select1 : cfg -> backing -> n -> n option res **)

let b_select1 c b k =
  match b with
  | BRank9 x -> r9_select1 c x k
  | BDArray x -> da_select1 c x k
  | BBitVec x -> select1 c x k

(** val b_select0 : cfg -> backing -> n -> n option res **)

let b_select0 c b k =
  match b with
  | BRank9 x -> r9_select0 c x k
  | BDArray x -> da_select0 c x k
  | BBitVec x -> select0 c x k

type wavelet = { wm_layers : backing list; wm_alph_size : n }

(** val wm_filter :
    cfg -> n -> n -> ((n list * n list) * bitvec) -> n -> ((n list * n
    list) * bitvec) res **)

let wm_filter c alph_width shift st val1 =
  let (p, bv) = st in
  let (nz0, no) = p in
  bind (shr c val1 shift) (fun t ->
    let bit = N.eqb (N.coq_land t (Npos XH)) (Npos XH) in
    bind (push_bit c bv bit) (fun bv0 ->
      bind (fits c alph_width val1) (fun f ->
        bind (assert_ f) (fun _ ->
          if bit
          then Ok ((nz0, (app no (val1 :: []))), bv0)
          else Ok (((app nz0 (val1 :: [])), no), bv0)))))

(** val wm_layers_build :
    cfg -> bkind -> n -> nat -> n -> n list -> n list -> backing list ->
    backing list res **)

let rec wm_layers_build c k alph_width fuel depth zeros ones layers =
  match fuel with
  | O -> Ok layers
  | S f ->
    bind (sub0 c alph_width depth) (fun t ->
      bind (sub0 c t (Npos XH)) (fun shift ->
        bind
          (fold_res (wm_filter c alph_width shift) zeros (([], []), bv_empty))
          (fun st ->
          bind (fold_res (wm_filter c alph_width shift) ones st) (fun st0 ->
            let (p, bv) = st0 in
            let (nz0, no) = p in
            bind (b_build c k bv) (fun l ->
              wm_layers_build c k alph_width f (N.add depth (Npos XH)) nz0 no
                (app layers (l :: [])))))))

(** val wm_new : cfg -> bkind -> n list -> wavelet option res **)

let wm_new c k seq = match seq with
| [] -> Ok None
| _ :: _ ->
  let mx = fold_left N.max seq N0 in
  bind (add0 c mx (Npos XH)) (fun alph_size ->
    bind (needed_bits c alph_size) (fun alph_width ->
      bind
        (wm_layers_build c k alph_width (N.to_nat alph_width) N0 seq [] [])
        (fun layers -> Ok (Some { wm_layers = layers; wm_alph_size =
        alph_size }))))

(** val wm_len : wavelet -> n **)

let wm_len w0 =
  match w0.wm_layers with
  | [] -> N0
  | l :: _ -> b_num_bits l

(** val wm_alph_width : wavelet -> n **)

let wm_alph_width w0 =
  lenN w0.wm_layers

(** val wm_access : cfg -> wavelet -> n -> n option res **)

let wm_access c w0 pos =
  if N.leb (wm_len w0) pos
  then Ok None
  else bind
         (fold_res (fun vp layer ->
           let (val1, pos0) = vp in
           bind (shl c val1 (Npos XH)) (fun val2 ->
             bind (b_access c layer pos0) (fun a ->
               bind (unwrap a) (fun a0 ->
                 if a0
                 then bind (b_rank1 c layer pos0) (fun r ->
                        bind (unwrap r) (fun r0 ->
                          bind (b_num_zeros c layer) (fun z0 ->
                            bind (add0 c r0 z0) (fun p -> Ok
                              ((N.coq_lor val2 (Npos XH)), p)))))
                 else bind (b_rank0 c layer pos0) (fun r ->
                        bind (unwrap r) (fun r0 -> Ok (val2, r0)))))))
           w0.wm_layers (N0, pos)) (fun r -> Ok (Some (fst r)))

(** val get_msb : cfg -> n -> n -> n -> bool res **)

let get_msb c val1 pos width =
  bind (sub0 c width pos) (fun t ->
    bind (sub0 c t (Npos XH)) (fun s ->
      bind (shr c val1 s) (fun v -> Ok
        (N.eqb (N.coq_land v (Npos XH)) (Npos XH)))))

(** val wm_rank_range0 : cfg -> wavelet -> n -> n -> n -> n option res **)

let wm_rank_range0 c w0 rs re val1 =
  if N.ltb (wm_len w0) re
  then Ok None
  else if N.leb re rs
       then Ok (Some N0)
       else if N.leb w0.wm_alph_size val1
            then Ok (Some N0)
            else bind
                   (fold_res (fun st layer ->
                     let (p, ep) = st in
                     let (depth, sp) = p in
                     bind (get_msb c val1 depth (wm_alph_width w0))
                       (fun bit ->
                       if bit
                       then bind (b_num_zeros c layer) (fun z0 ->
                              bind (b_rank1 c layer sp) (fun a ->
                                bind (unwrap a) (fun a0 ->
                                  bind (add0 c a0 z0) (fun sp0 ->
                                    bind (b_rank1 c layer ep) (fun b ->
                                      bind (unwrap b) (fun b0 ->
                                        bind (add0 c b0 z0) (fun ep0 -> Ok
                                          (((N.add depth (Npos XH)), sp0),
                                          ep0))))))))
                       else bind (b_rank0 c layer sp) (fun a ->
                              bind (unwrap a) (fun a0 ->
                                bind (b_rank0 c layer ep) (fun b ->
                                  bind (unwrap b) (fun b0 -> Ok
                                    (((N.add depth (Npos XH)), a0), b0)))))))
                     w0.wm_layers ((N0, rs), re)) (fun r ->
                   let (p, ep) = r in
                   let (_, sp) = p in
                   Ok (Some (if N.leb sp ep then N.sub ep sp else N0)))

(** val wm_rank : cfg -> wavelet -> n -> n -> n option res **)

let wm_rank c w0 pos val1 =
  wm_rank_range0 c w0 N0 pos val1

(** val select_helper :
    cfg -> n -> backing list -> n -> n -> n -> n -> n option res **)

let rec select_helper c width layers k val1 pos depth =
  match layers with
  | [] -> let s = N.add pos k in Ok (if N.ltb s w then Some s else None)
  | layer :: rest ->
    bind (get_msb c val1 depth width) (fun bit ->
      if bit
      then bind (b_num_zeros c layer) (fun zeros ->
             bind (b_rank1 c layer pos) (fun r ->
               bind (unwrap r) (fun r0 ->
                 bind (add0 c r0 zeros) (fun pos0 ->
                   bind
                     (select_helper c width rest k val1 pos0
                       (N.add depth (Npos XH))) (fun k' ->
                     match k' with
                     | Some k'0 ->
                       bind (sub0 c k'0 zeros) (fun d -> b_select1 c layer d)
                     | None -> Ok None)))))
      else bind (b_rank0 c layer pos) (fun r ->
             bind (unwrap r) (fun pos0 ->
               bind
                 (select_helper c width rest k val1 pos0
                   (N.add depth (Npos XH))) (fun k' ->
                 match k' with
                 | Some k'0 -> b_select0 c layer k'0
                 | None -> Ok None))))

(** val wm_select0 : cfg -> wavelet -> n -> n -> n option res **)

let wm_select0 c w0 k val1 =
  if N.leb w0.wm_alph_size val1
  then Ok None
  else select_helper c (wm_alph_width w0) w0.wm_layers k val1 N0 N0

(** val wm_quantile0 : cfg -> wavelet -> n -> n -> n -> n option res **)

let wm_quantile0 c w0 rs re k =
  let rlen = if N.leb rs re then N.sub re rs else N0 in
  if N.leb rlen k
  then Ok None
  else if N.ltb (wm_len w0) re
       then Ok None
       else bind
              (fold_res (fun st layer ->
                let (p, ep) = st in
                let (p0, sp) = p in
                let (val1, k0) = p0 in
                bind (shl c val1 (Npos XH)) (fun val2 ->
                  bind (b_rank0 c layer sp) (fun zs ->
                    bind (unwrap zs) (fun zs0 ->
                      bind (b_rank0 c layer ep) (fun ze ->
                        bind (unwrap ze) (fun ze0 ->
                          bind (sub0 c ze0 zs0) (fun zeros ->
                            if N.ltb k0 zeros
                            then Ok (((val2, k0), zs0), ze0)
                            else bind (sub0 c k0 zeros) (fun k1 ->
                                   bind (b_num_zeros c layer) (fun nz0 ->
                                     bind (add0 c nz0 sp) (fun a ->
                                       bind (sub0 c a zs0) (fun sp' ->
                                         bind (add0 c nz0 ep) (fun b ->
                                           bind (sub0 c b ze0) (fun ep' -> Ok
                                             ((((N.coq_lor val2 (Npos XH)),
                                             k1), sp'), ep'))))))))))))))
                w0.wm_layers (((N0, k), rs), re)) (fun r ->
              let (p, _) = r in
              let (p0, _) = p in let (val1, _) = p0 in Ok (Some val1))

(** val split_ranges :
    cfg -> backing -> (n * n) list -> (n * n) list -> (n * n) list ->
    ((n * n) list * (n * n) list) option res **)

let rec split_ranges c layer ranges zr orr =
  match ranges with
  | [] -> Ok (Some (zr, orr))
  | p :: rest ->
    let (sp, ep) = p in
    if N.ltb (b_num_bits layer) ep
    then Ok None
    else if N.leb ep sp
         then split_ranges c layer rest zr orr
         else bind (b_rank0 c layer sp) (fun zs ->
                bind (unwrap zs) (fun zs0 ->
                  bind (b_rank0 c layer ep) (fun ze ->
                    bind (unwrap ze) (fun ze0 ->
                      bind (b_num_zeros c layer) (fun nz0 ->
                        bind (add0 c nz0 sp) (fun a ->
                          bind (sub0 c a zs0) (fun os ->
                            bind (add0 c nz0 ep) (fun b ->
                              bind (sub0 c b ze0) (fun oe ->
                                bind (sub0 c ze0 zs0) (fun dz ->
                                  bind (sub0 c oe os) (fun d1 ->
                                    let zr0 =
                                      if N.ltb N0 dz
                                      then app zr ((zs0, ze0) :: [])
                                      else zr
                                    in
                                    let orr0 =
                                      if N.ltb N0 d1
                                      then app orr ((os, oe) :: [])
                                      else orr
                                    in
                                    split_ranges c layer rest zr0 orr0)))))))))))

(** val intersect_helper :
    cfg -> backing list -> (n * n) list -> n -> n -> n list option res **)

let rec intersect_helper c layers ranges k prefix =
  match layers with
  | [] -> Ok (Some (prefix :: []))
  | layer :: rest ->
    bind (split_ranges c layer ranges [] []) (fun s ->
      match s with
      | Some p ->
        let (zr, orr) = p in
        bind (shl c prefix (Npos XH)) (fun p2 ->
          bind
            (if N.ltb k (lenN zr)
             then intersect_helper c rest zr k p2
             else Ok (Some [])) (fun a ->
            match a with
            | Some la ->
              bind
                (if N.ltb k (lenN orr)
                 then intersect_helper c rest orr k (N.coq_lor p2 (Npos XH))
                 else Ok (Some [])) (fun b ->
                match b with
                | Some lb -> Ok (Some (app la lb))
                | None -> Ok None)
            | None -> Ok None))
      | None -> Ok None)

(** val wm_intersect0 :
    cfg -> wavelet -> (n * n) list -> n -> n list option res **)

let wm_intersect0 c w0 ranges k =
  intersect_helper c w0.wm_layers ranges k N0

(** val wm_iter_next : cfg -> wavelet -> n -> (n * n option) res **)

let wm_iter_next c w0 pos =
  if N.ltb pos (wm_len w0)
  then bind (wm_access c w0 pos) (fun x ->
         bind (unwrap x) (fun x0 ->
           bind (add0 c pos (Npos XH)) (fun p -> Ok (p, (Some x0)))))
  else Ok (pos, None)

(** val v_nums : n list -> val0 **)

let v_nums l =
  VVec (map (fun x -> VNum x) l)

(** val v_optnums : n list option -> val0 **)

let v_optnums o =
  VOpt (option_map v_nums o)

(** val v_bitvec : bitvec -> val0 **)

let v_bitvec b =
  VStruct ((v_nums b.bv_words) :: ((VNum b.bv_len) :: []))

(** val v_r9index : r9index -> val0 **)

let v_r9index r =
  VStruct ((VNum
    r.r_len) :: ((v_nums r.r_brp) :: ((v_optnums r.r_h1) :: ((v_optnums
                                                               r.r_h0) :: []))))

(** val v_r9sel : r9sel -> val0 **)

let v_r9sel x =
  VStruct ((v_bitvec x.r9_bv) :: ((v_r9index x.r9_rs) :: []))

(** val v_daindex : daindex -> val0 **)

let v_daindex d =
  VStruct ((VVec
    (map (fun x -> VInt x) d.d_block_inv)) :: ((v_nums d.d_sub_inv) :: (
    (v_nums d.d_overflow) :: ((VNum d.d_num_positions) :: ((VBool
    d.d_over_one) :: [])))))

(** val v_darray : darray -> val0 **)

let v_darray d =
  VStruct ((v_bitvec d.da_bv) :: ((v_daindex d.da_s1) :: ((VOpt
    (option_map v_daindex d.da_s0)) :: ((VOpt
    (option_map v_r9index d.da_r9)) :: []))))

(** val v_ef : eliasfano -> val0 **)

let v_ef e =
  VStruct ((v_darray e.ef_high) :: ((v_bitvec e.ef_low) :: ((VNum
    e.ef_low_len) :: ((VNum e.ef_universe) :: []))))

(** val v_sarray : sarray -> val0 **)

let v_sarray s =
  VStruct ((VOpt (option_map v_ef s.sa_ef)) :: ((VNum
    s.sa_num_bits) :: ((VNum s.sa_num_ones) :: ((VBool
    s.sa_has_rank) :: []))))

(** val v_compvec : compvec -> val0 **)

let v_compvec v =
  VStruct ((v_bitvec v.cv_chunks) :: ((VNum v.cv_len) :: ((VNum
    v.cv_width) :: [])))

(** val v_dacsbyte : dacsbyte -> val0 **)

let v_dacsbyte d =
  VStruct ((VVec (map v_nums d.db_data)) :: ((VVec
    (map v_r9sel d.db_flags)) :: []))

(** val v_dacsopt : dacsopt -> val0 **)

let v_dacsopt d =
  VStruct ((VVec (map v_compvec d.do_data)) :: ((VVec
    (map v_r9sel d.do_flags)) :: []))

(** val v_psef : psef -> val0 **)

let v_psef p =
  VStruct ((v_ef (ps_ef p)) :: [])

(** val v_backing : backing -> val0 **)

let v_backing = function
| BRank9 x -> v_r9sel x
| BDArray x -> v_darray x
| BBitVec x -> v_bitvec x

(** val v_wavelet : wavelet -> val0 **)

let v_wavelet w0 =
  VStruct ((VVec (map v_backing w0.wm_layers)) :: ((VNum
    w0.wm_alph_size) :: []))

(** val oNES_STEP_4 : n **)

let oNES_STEP_4 =
  Npos (XI (XO (XO (XO (XI (XO (XO (XO (XI (XO (XO (XO (XI (XO (XO (XO (XI
    (XO (XO (XO (XI (XO (XO (XO (XI (XO (XO (XO (XI (XO (XO (XO (XI (XO (XO
    (XO (XI (XO (XO (XO (XI (XO (XO (XO (XI (XO (XO (XO (XI (XO (XO (XO (XI
    (XO (XO (XO (XI (XO (XO (XO
    XH))))))))))))))))))))))))))))))))))))))))))))))))))))))))))))

(** val oNES_STEP_8 : n **)

let oNES_STEP_8 =
  Npos (XI (XO (XO (XO (XO (XO (XO (XO (XI (XO (XO (XO (XO (XO (XO (XO (XI
    (XO (XO (XO (XO (XO (XO (XO (XI (XO (XO (XO (XO (XO (XO (XO (XI (XO (XO
    (XO (XO (XO (XO (XO (XI (XO (XO (XO (XO (XO (XO (XO (XI (XO (XO (XO (XO
    (XO (XO (XO XH))))))))))))))))))))))))))))))))))))))))))))))))))))))))

(** val mSBS_STEP_8 : n **)

let mSBS_STEP_8 =
  Npos (XO (XO (XO (XO (XO (XO (XO (XI (XO (XO (XO (XO (XO (XO (XO (XI (XO
    (XO (XO (XO (XO (XO (XO (XI (XO (XO (XO (XO (XO (XO (XO (XI (XO (XO (XO
    (XO (XO (XO (XO (XI (XO (XO (XO (XO (XO (XO (XO (XI (XO (XO (XO (XO (XO
    (XO (XO (XI (XO (XO (XO (XO (XO (XO (XO
    XH)))))))))))))))))))))))))))))))))))))))))))))))))))))))))))))))

(** val dEBRUIJN64 : n **)

let dEBRUIJN64 =
  Npos (XO (XI (XO (XO (XO (XO (XI (XI (XO (XO (XO (XI (XO (XI (XO (XO (XO
    (XI (XI (XI (XO (XO (XI (XO (XO (XI (XO (XI (XI (XO (XO (XI (XI (XO (XI
    (XO (XO (XI (XI (XI (XI (XO (XI (XO (XI (XO (XI (XI (XI (XO (XI (XI (XO
    (XI (XI (XI (XI (XI
    XH))))))))))))))))))))))))))))))))))))))))))))))))))))))))))

(** val sELECT_IN_BYTE : n list **)

let sELECT_IN_BYTE =
  (Npos (XO (XO (XO XH)))) :: (N0 :: ((Npos XH) :: (N0 :: ((Npos (XO
    XH)) :: (N0 :: ((Npos XH) :: (N0 :: ((Npos (XI XH)) :: (N0 :: ((Npos
    XH) :: (N0 :: ((Npos (XO XH)) :: (N0 :: ((Npos XH) :: (N0 :: ((Npos (XO
    (XO XH))) :: (N0 :: ((Npos XH) :: (N0 :: ((Npos (XO XH)) :: (N0 :: ((Npos
    XH) :: (N0 :: ((Npos (XI XH)) :: (N0 :: ((Npos XH) :: (N0 :: ((Npos (XO
    XH)) :: (N0 :: ((Npos XH) :: (N0 :: ((Npos (XI (XO XH))) :: (N0 :: ((Npos
    XH) :: (N0 :: ((Npos (XO XH)) :: (N0 :: ((Npos XH) :: (N0 :: ((Npos (XI
    XH)) :: (N0 :: ((Npos XH) :: (N0 :: ((Npos (XO XH)) :: (N0 :: ((Npos
    XH) :: (N0 :: ((Npos (XO (XO XH))) :: (N0 :: ((Npos XH) :: (N0 :: ((Npos
    (XO XH)) :: (N0 :: ((Npos XH) :: (N0 :: ((Npos (XI XH)) :: (N0 :: ((Npos
    XH) :: (N0 :: ((Npos (XO XH)) :: (N0 :: ((Npos XH) :: (N0 :: ((Npos (XO
    (XI XH))) :: (N0 :: ((Npos XH) :: (N0 :: ((Npos (XO XH)) :: (N0 :: ((Npos
    XH) :: (N0 :: ((Npos (XI XH)) :: (N0 :: ((Npos XH) :: (N0 :: ((Npos (XO
    XH)) :: (N0 :: ((Npos XH) :: (N0 :: ((Npos (XO (XO XH))) :: (N0 :: ((Npos
    XH) :: (N0 :: ((Npos (XO XH)) :: (N0 :: ((Npos XH) :: (N0 :: ((Npos (XI
    XH)) :: (N0 :: ((Npos XH) :: (N0 :: ((Npos (XO XH)) :: (N0 :: ((Npos
    XH) :: (N0 :: ((Npos (XI (XO XH))) :: (N0 :: ((Npos XH) :: (N0 :: ((Npos
    (XO XH)) :: (N0 :: ((Npos XH) :: (N0 :: ((Npos (XI XH)) :: (N0 :: ((Npos
    XH) :: (N0 :: ((Npos (XO XH)) :: (N0 :: ((Npos XH) :: (N0 :: ((Npos (XO
    (XO XH))) :: (N0 :: ((Npos XH) :: (N0 :: ((Npos (XO XH)) :: (N0 :: ((Npos
    XH) :: (N0 :: ((Npos (XI XH)) :: (N0 :: ((Npos XH) :: (N0 :: ((Npos (XO
    XH)) :: (N0 :: ((Npos XH) :: (N0 :: ((Npos (XI (XI XH))) :: (N0 :: ((Npos
    XH) :: (N0 :: ((Npos (XO XH)) :: (N0 :: ((Npos XH) :: (N0 :: ((Npos (XI
    XH)) :: (N0 :: ((Npos XH) :: (N0 :: ((Npos (XO XH)) :: (N0 :: ((Npos
    XH) :: (N0 :: ((Npos (XO (XO XH))) :: (N0 :: ((Npos XH) :: (N0 :: ((Npos
    (XO XH)) :: (N0 :: ((Npos XH) :: (N0 :: ((Npos (XI XH)) :: (N0 :: ((Npos
    XH) :: (N0 :: ((Npos (XO XH)) :: (N0 :: ((Npos XH) :: (N0 :: ((Npos (XI
    (XO XH))) :: (N0 :: ((Npos XH) :: (N0 :: ((Npos (XO XH)) :: (N0 :: ((Npos
    XH) :: (N0 :: ((Npos (XI XH)) :: (N0 :: ((Npos XH) :: (N0 :: ((Npos (XO
    XH)) :: (N0 :: ((Npos XH) :: (N0 :: ((Npos (XO (XO XH))) :: (N0 :: ((Npos
    XH) :: (N0 :: ((Npos (XO XH)) :: (N0 :: ((Npos XH) :: (N0 :: ((Npos (XI
    XH)) :: (N0 :: ((Npos XH) :: (N0 :: ((Npos (XO XH)) :: (N0 :: ((Npos
    XH) :: (N0 :: ((Npos (XO (XI XH))) :: (N0 :: ((Npos XH) :: (N0 :: ((Npos
    (XO XH)) :: (N0 :: ((Npos XH) :: (N0 :: ((Npos (XI XH)) :: (N0 :: ((Npos
    XH) :: (N0 :: ((Npos (XO XH)) :: (N0 :: ((Npos XH) :: (N0 :: ((Npos (XO
    (XO XH))) :: (N0 :: ((Npos XH) :: (N0 :: ((Npos (XO XH)) :: (N0 :: ((Npos
    XH) :: (N0 :: ((Npos (XI XH)) :: (N0 :: ((Npos XH) :: (N0 :: ((Npos (XO
    XH)) :: (N0 :: ((Npos XH) :: (N0 :: ((Npos (XI (XO XH))) :: (N0 :: ((Npos
    XH) :: (N0 :: ((Npos (XO XH)) :: (N0 :: ((Npos XH) :: (N0 :: ((Npos (XI
    XH)) :: (N0 :: ((Npos XH) :: (N0 :: ((Npos (XO XH)) :: (N0 :: ((Npos
    XH) :: (N0 :: ((Npos (XO (XO XH))) :: (N0 :: ((Npos XH) :: (N0 :: ((Npos
    (XO XH)) :: (N0 :: ((Npos XH) :: (N0 :: ((Npos (XI XH)) :: (N0 :: ((Npos
    XH) :: (N0 :: ((Npos (XO XH)) :: (N0 :: ((Npos XH) :: (N0 :: ((Npos (XO
    (XO (XO XH)))) :: ((Npos (XO (XO (XO XH)))) :: ((Npos (XO (XO (XO
    XH)))) :: ((Npos XH) :: ((Npos (XO (XO (XO XH)))) :: ((Npos (XO
    XH)) :: ((Npos (XO XH)) :: ((Npos XH) :: ((Npos (XO (XO (XO
    XH)))) :: ((Npos (XI XH)) :: ((Npos (XI XH)) :: ((Npos XH) :: ((Npos (XI
    XH)) :: ((Npos (XO XH)) :: ((Npos (XO XH)) :: ((Npos XH) :: ((Npos (XO
    (XO (XO XH)))) :: ((Npos (XO (XO XH))) :: ((Npos (XO (XO XH))) :: ((Npos
    XH) :: ((Npos (XO (XO XH))) :: ((Npos (XO XH)) :: ((Npos (XO
    XH)) :: ((Npos XH) :: ((Npos (XO (XO XH))) :: ((Npos (XI XH)) :: ((Npos
    (XI XH)) :: ((Npos XH) :: ((Npos (XI XH)) :: ((Npos (XO XH)) :: ((Npos
    (XO XH)) :: ((Npos XH) :: ((Npos (XO (XO (XO XH)))) :: ((Npos (XI (XO
    XH))) :: ((Npos (XI (XO XH))) :: ((Npos XH) :: ((Npos (XI (XO
    XH))) :: ((Npos (XO XH)) :: ((Npos (XO XH)) :: ((Npos XH) :: ((Npos (XI
    (XO XH))) :: ((Npos (XI XH)) :: ((Npos (XI XH)) :: ((Npos XH) :: ((Npos
    (XI XH)) :: ((Npos (XO XH)) :: ((Npos (XO XH)) :: ((Npos XH) :: ((Npos
    (XI (XO XH))) :: ((Npos (XO (XO XH))) :: ((Npos (XO (XO XH))) :: ((Npos
    XH) :: ((Npos (XO (XO XH))) :: ((Npos (XO XH)) :: ((Npos (XO
    XH)) :: ((Npos XH) :: ((Npos (XO (XO XH))) :: ((Npos (XI XH)) :: ((Npos
    (XI XH)) :: ((Npos XH) :: ((Npos (XI XH)) :: ((Npos (XO XH)) :: ((Npos
    (XO XH)) :: ((Npos XH) :: ((Npos (XO (XO (XO XH)))) :: ((Npos (XO (XI
    XH))) :: ((Npos (XO (XI XH))) :: ((Npos XH) :: ((Npos (XO (XI
    XH))) :: ((Npos (XO XH)) :: ((Npos (XO XH)) :: ((Npos XH) :: ((Npos (XO
    (XI XH))) :: ((Npos (XI XH)) :: ((Npos (XI XH)) :: ((Npos XH) :: ((Npos
    (XI XH)) :: ((Npos (XO XH)) :: ((Npos (XO XH)) :: ((Npos XH) :: ((Npos
    (XO (XI XH))) :: ((Npos (XO (XO XH))) :: ((Npos (XO (XO XH))) :: ((Npos
    XH) :: ((Npos (XO (XO XH))) :: ((Npos (XO XH)) :: ((Npos (XO
    XH)) :: ((Npos XH) :: ((Npos (XO (XO XH))) :: ((Npos (XI XH)) :: ((Npos
    (XI XH)) :: ((Npos XH) :: ((Npos (XI XH)) :: ((Npos (XO XH)) :: ((Npos
    (XO XH)) :: ((Npos XH) :: ((Npos (XO (XI XH))) :: ((Npos (XI (XO
    XH))) :: ((Npos (XI (XO XH))) :: ((Npos XH) :: ((Npos (XI (XO
    XH))) :: ((Npos (XO XH)) :: ((Npos (XO XH)) :: ((Npos XH) :: ((Npos (XI
    (XO XH))) :: ((Npos (XI XH)) :: ((Npos (XI XH)) :: ((Npos XH) :: ((Npos
    (XI XH)) :: ((Npos (XO XH)) :: ((Npos (XO XH)) :: ((Npos XH) :: ((Npos
    (XI (XO XH))) :: ((Npos (XO (XO XH))) :: ((Npos (XO (XO XH))) :: ((Npos
    XH) :: ((Npos (XO (XO XH))) :: ((Npos (XO XH)) :: ((Npos (XO
    XH)) :: ((Npos XH) :: ((Npos (XO (XO XH))) :: ((Npos (XI XH)) :: ((Npos
    (XI XH)) :: ((Npos XH) :: ((Npos (XI XH)) :: ((Npos (XO XH)) :: ((Npos
    (XO XH)) :: ((Npos XH) :: ((Npos (XO (XO (XO XH)))) :: ((Npos (XI (XI
    XH))) :: ((Npos (XI (XI XH))) :: ((Npos XH) :: ((Npos (XI (XI
    XH))) :: ((Npos (XO XH)) :: ((Npos (XO XH)) :: ((Npos XH) :: ((Npos (XI
    (XI XH))) :: ((Npos (XI XH)) :: ((Npos (XI XH)) :: ((Npos XH) :: ((Npos
    (XI XH)) :: ((Npos (XO XH)) :: ((Npos (XO XH)) :: ((Npos XH) :: ((Npos
    (XI (XI XH))) :: ((Npos (XO (XO XH))) :: ((Npos (XO (XO XH))) :: ((Npos
    XH) :: ((Npos (XO (XO XH))) :: ((Npos (XO XH)) :: ((Npos (XO
    XH)) :: ((Npos XH) :: ((Npos (XO (XO XH))) :: ((Npos (XI XH)) :: ((Npos
    (XI XH)) :: ((Npos XH) :: ((Npos (XI XH)) :: ((Npos (XO XH)) :: ((Npos
    (XO XH)) :: ((Npos XH) :: ((Npos (XI (XI XH))) :: ((Npos (XI (XO
    XH))) :: ((Npos (XI (XO XH))) :: ((Npos XH) :: ((Npos (XI (XO
    XH))) :: ((Npos (XO XH)) :: ((Npos (XO XH)) :: ((Npos XH) :: ((Npos (XI
    (XO XH))) :: ((Npos (XI XH)) :: ((Npos (XI XH)) :: ((Npos XH) :: ((Npos
    (XI XH)) :: ((Npos (XO XH)) :: ((Npos (XO XH)) :: ((Npos XH) :: ((Npos
    (XI (XO XH))) :: ((Npos (XO (XO XH))) :: ((Npos (XO (XO XH))) :: ((Npos
    XH) :: ((Npos (XO (XO XH))) :: ((Npos (XO XH)) :: ((Npos (XO
    XH)) :: ((Npos XH) :: ((Npos (XO (XO XH))) :: ((Npos (XI XH)) :: ((Npos
    (XI XH)) :: ((Npos XH) :: ((Npos (XI XH)) :: ((Npos (XO XH)) :: ((Npos
    (XO XH)) :: ((Npos XH) :: ((Npos (XI (XI XH))) :: ((Npos (XO (XI
    XH))) :: ((Npos (XO (XI XH))) :: ((Npos XH) :: ((Npos (XO (XI
    XH))) :: ((Npos (XO XH)) :: ((Npos (XO XH)) :: ((Npos XH) :: ((Npos (XO
    (XI XH))) :: ((Npos (XI XH)) :: ((Npos (XI XH)) :: ((Npos XH) :: ((Npos
    (XI XH)) :: ((Npos (XO XH)) :: ((Npos (XO XH)) :: ((Npos XH) :: ((Npos
    (XO (XI XH))) :: ((Npos (XO (XO XH))) :: ((Npos (XO (XO XH))) :: ((Npos
    XH) :: ((Npos (XO (XO XH))) :: ((Npos (XO XH)) :: ((Npos (XO
    XH)) :: ((Npos XH) :: ((Npos (XO (XO XH))) :: ((Npos (XI XH)) :: ((Npos
    (XI XH)) :: ((Npos XH) :: ((Npos (XI XH)) :: ((Npos (XO XH)) :: ((Npos
    (XO XH)) :: ((Npos XH) :: ((Npos (XO (XI XH))) :: ((Npos (XI (XO
    XH))) :: ((Npos (XI (XO XH))) :: ((Npos XH) :: ((Npos (XI (XO
    XH))) :: ((Npos (XO XH)) :: ((Npos (XO XH)) :: ((Npos XH) :: ((Npos (XI
    (XO XH))) :: ((Npos (XI XH)) :: ((Npos (XI XH)) :: ((Npos XH) :: ((Npos
    (XI XH)) :: ((Npos (XO XH)) :: ((Npos (XO XH)) :: ((Npos XH) :: ((Npos
    (XI (XO XH))) :: ((Npos (XO (XO XH))) :: ((Npos (XO (XO XH))) :: ((Npos
    XH) :: ((Npos (XO (XO XH))) :: ((Npos (XO XH)) :: ((Npos (XO
    XH)) :: ((Npos XH) :: ((Npos (XO (XO XH))) :: ((Npos (XI XH)) :: ((Npos
    (XI XH)) :: ((Npos XH) :: ((Npos (XI XH)) :: ((Npos (XO XH)) :: ((Npos
    (XO XH)) :: ((Npos XH) :: ((Npos (XO (XO (XO XH)))) :: ((Npos (XO (XO (XO
    XH)))) :: ((Npos (XO (XO (XO XH)))) :: ((Npos (XO (XO (XO
    XH)))) :: ((Npos (XO (XO (XO XH)))) :: ((Npos (XO (XO (XO
    XH)))) :: ((Npos (XO (XO (XO XH)))) :: ((Npos (XO XH)) :: ((Npos (XO (XO
    (XO XH)))) :: ((Npos (XO (XO (XO XH)))) :: ((Npos (XO (XO (XO
    XH)))) :: ((Npos (XI XH)) :: ((Npos (XO (XO (XO XH)))) :: ((Npos (XI
    XH)) :: ((Npos (XI XH)) :: ((Npos (XO XH)) :: ((Npos (XO (XO (XO
    XH)))) :: ((Npos (XO (XO (XO XH)))) :: ((Npos (XO (XO (XO
    XH)))) :: ((Npos (XO (XO XH))) :: ((Npos (XO (XO (XO XH)))) :: ((Npos (XO
    (XO XH))) :: ((Npos (XO (XO XH))) :: ((Npos (XO XH)) :: ((Npos (XO (XO
    (XO XH)))) :: ((Npos (XO (XO XH))) :: ((Npos (XO (XO XH))) :: ((Npos (XI
    XH)) :: ((Npos (XO (XO XH))) :: ((Npos (XI XH)) :: ((Npos (XI
    XH)) :: ((Npos (XO XH)) :: ((Npos (XO (XO (XO XH)))) :: ((Npos (XO (XO
    (XO XH)))) :: ((Npos (XO (XO (XO XH)))) :: ((Npos (XI (XO XH))) :: ((Npos
    (XO (XO (XO XH)))) :: ((Npos (XI (XO XH))) :: ((Npos (XI (XO
    XH))) :: ((Npos (XO XH)) :: ((Npos (XO (XO (XO XH)))) :: ((Npos (XI (XO
    XH))) :: ((Npos (XI (XO XH))) :: ((Npos (XI XH)) :: ((Npos (XI (XO
    XH))) :: ((Npos (XI XH)) :: ((Npos (XI XH)) :: ((Npos (XO XH)) :: ((Npos
    (XO (XO (XO XH)))) :: ((Npos (XI (XO XH))) :: ((Npos (XI (XO
    XH))) :: ((Npos (XO (XO XH))) :: ((Npos (XI (XO XH))) :: ((Npos (XO (XO
    XH))) :: ((Npos (XO (XO XH))) :: ((Npos (XO XH)) :: ((Npos (XI (XO
    XH))) :: ((Npos (XO (XO XH))) :: ((Npos (XO (XO XH))) :: ((Npos (XI
    XH)) :: ((Npos (XO (XO XH))) :: ((Npos (XI XH)) :: ((Npos (XI
    XH)) :: ((Npos (XO XH)) :: ((Npos (XO (XO (XO XH)))) :: ((Npos (XO (XO
    (XO XH)))) :: ((Npos (XO (XO (XO XH)))) :: ((Npos (XO (XI XH))) :: ((Npos
    (XO (XO (XO XH)))) :: ((Npos (XO (XI XH))) :: ((Npos (XO (XI
    XH))) :: ((Npos (XO XH)) :: ((Npos (XO (XO (XO XH)))) :: ((Npos (XO (XI
    XH))) :: ((Npos (XO (XI XH))) :: ((Npos (XI XH)) :: ((Npos (XO (XI
    XH))) :: ((Npos (XI XH)) :: ((Npos (XI XH)) :: ((Npos (XO XH)) :: ((Npos
    (XO (XO (XO XH)))) :: ((Npos (XO (XI XH))) :: ((Npos (XO (XI
    XH))) :: ((Npos (XO (XO XH))) :: ((Npos (XO (XI XH))) :: ((Npos (XO (XO
    XH))) :: ((Npos (XO (XO XH))) :: ((Npos (XO XH)) :: ((Npos (XO (XI
    XH))) :: ((Npos (XO (XO XH))) :: ((Npos (XO (XO XH))) :: ((Npos (XI
    XH)) :: ((Npos (XO (XO XH))) :: ((Npos (XI XH)) :: ((Npos (XI
    XH)) :: ((Npos (XO XH)) :: ((Npos (XO (XO (XO XH)))) :: ((Npos (XO (XI
    XH))) :: ((Npos (XO (XI XH))) :: ((Npos (XI (XO XH))) :: ((Npos (XO (XI
    XH))) :: ((Npos (XI (XO XH))) :: ((Npos (XI (XO XH))) :: ((Npos (XO
    XH)) :: ((Npos (XO (XI XH))) :: ((Npos (XI (XO XH))) :: ((Npos (XI (XO
    XH))) :: ((Npos (XI XH)) :: ((Npos (XI (XO XH))) :: ((Npos (XI
    XH)) :: ((Npos (XI XH)) :: ((Npos (XO XH)) :: ((Npos (XO (XI
    XH))) :: ((Npos (XI (XO XH))) :: ((Npos (XI (XO XH))) :: ((Npos (XO (XO
    XH))) :: ((Npos (XI (XO XH))) :: ((Npos (XO (XO XH))) :: ((Npos (XO (XO
    XH))) :: ((Npos (XO XH)) :: ((Npos (XI (XO XH))) :: ((Npos (XO (XO
    XH))) :: ((Npos (XO (XO XH))) :: ((Npos (XI XH)) :: ((Npos (XO (XO
    XH))) :: ((Npos (XI XH)) :: ((Npos (XI XH)) :: ((Npos (XO XH)) :: ((Npos
    (XO (XO (XO XH)))) :: ((Npos (XO (XO (XO XH)))) :: ((Npos (XO (XO (XO
    XH)))) :: ((Npos (XI (XI XH))) :: ((Npos (XO (XO (XO XH)))) :: ((Npos (XI
    (XI XH))) :: ((Npos (XI (XI XH))) :: ((Npos (XO XH)) :: ((Npos (XO (XO
    (XO XH)))) :: ((Npos (XI (XI XH))) :: ((Npos (XI (XI XH))) :: ((Npos (XI
    XH)) :: ((Npos (XI (XI XH))) :: ((Npos (XI XH)) :: ((Npos (XI
    XH)) :: ((Npos (XO XH)) :: ((Npos (XO (XO (XO XH)))) :: ((Npos (XI (XI
    XH))) :: ((Npos (XI (XI XH))) :: ((Npos (XO (XO XH))) :: ((Npos (XI (XI
    XH))) :: ((Npos (XO (XO XH))) :: ((Npos (XO (XO XH))) :: ((Npos (XO
    XH)) :: ((Npos (XI (XI XH))) :: ((Npos (XO (XO XH))) :: ((Npos (XO (XO
    XH))) :: ((Npos (XI XH)) :: ((Npos (XO (XO XH))) :: ((Npos (XI
    XH)) :: ((Npos (XI XH)) :: ((Npos (XO XH)) :: ((Npos (XO (XO (XO
    XH)))) :: ((Npos (XI (XI XH))) :: ((Npos (XI (XI XH))) :: ((Npos (XI (XO
    XH))) :: ((Npos (XI (XI XH))) :: ((Npos (XI (XO XH))) :: ((Npos (XI (XO
    XH))) :: ((Npos (XO XH)) :: ((Npos (XI (XI XH))) :: ((Npos (XI (XO
    XH))) :: ((Npos (XI (XO XH))) :: ((Npos (XI XH)) :: ((Npos (XI (XO
    XH))) :: ((Npos (XI XH)) :: ((Npos (XI XH)) :: ((Npos (XO XH)) :: ((Npos
    (XI (XI XH))) :: ((Npos (XI (XO XH))) :: ((Npos (XI (XO XH))) :: ((Npos
    (XO (XO XH))) :: ((Npos (XI (XO XH))) :: ((Npos (XO (XO XH))) :: ((Npos
    (XO (XO XH))) :: ((Npos (XO XH)) :: ((Npos (XI (XO XH))) :: ((Npos (XO
    (XO XH))) :: ((Npos (XO (XO XH))) :: ((Npos (XI XH)) :: ((Npos (XO (XO
    XH))) :: ((Npos (XI XH)) :: ((Npos (XI XH)) :: ((Npos (XO XH)) :: ((Npos
    (XO (XO (XO XH)))) :: ((Npos (XI (XI XH))) :: ((Npos (XI (XI
    XH))) :: ((Npos (XO (XI XH))) :: ((Npos (XI (XI XH))) :: ((Npos (XO (XI
    XH))) :: ((Npos (XO (XI XH))) :: ((Npos (XO XH)) :: ((Npos (XI (XI
    XH))) :: ((Npos (XO (XI XH))) :: ((Npos (XO (XI XH))) :: ((Npos (XI
    XH)) :: ((Npos (XO (XI XH))) :: ((Npos (XI XH)) :: ((Npos (XI
    XH)) :: ((Npos (XO XH)) :: ((Npos (XI (XI XH))) :: ((Npos (XO (XI
    XH))) :: ((Npos (XO (XI XH))) :: ((Npos (XO (XO XH))) :: ((Npos (XO (XI
    XH))) :: ((Npos (XO (XO XH))) :: ((Npos (XO (XO XH))) :: ((Npos (XO
    XH)) :: ((Npos (XO (XI XH))) :: ((Npos (XO (XO XH))) :: ((Npos (XO (XO
    XH))) :: ((Npos (XI XH)) :: ((Npos (XO (XO XH))) :: ((Npos (XI
    XH)) :: ((Npos (XI XH)) :: ((Npos (XO XH)) :: ((Npos (XI (XI
    XH))) :: ((Npos (XO (XI XH))) :: ((Npos (XO (XI XH))) :: ((Npos (XI (XO
    XH))) :: ((Npos (XO (XI XH))) :: ((Npos (XI (XO XH))) :: ((Npos (XI (XO
    XH))) :: ((Npos (XO XH)) :: ((Npos (XO (XI XH))) :: ((Npos (XI (XO
    XH))) :: ((Npos (XI (XO XH))) :: ((Npos (XI XH)) :: ((Npos (XI (XO
    XH))) :: ((Npos (XI XH)) :: ((Npos (XI XH)) :: ((Npos (XO XH)) :: ((Npos
    (XO (XI XH))) :: ((Npos (XI (XO XH))) :: ((Npos (XI (XO XH))) :: ((Npos
    (XO (XO XH))) :: ((Npos (XI (XO XH))) :: ((Npos (XO (XO XH))) :: ((Npos
    (XO (XO XH))) :: ((Npos (XO XH)) :: ((Npos (XI (XO XH))) :: ((Npos (XO
    (XO XH))) :: ((Npos (XO (XO XH))) :: ((Npos (XI XH)) :: ((Npos (XO (XO
    XH))) :: ((Npos (XI XH)) :: ((Npos (XI XH)) :: ((Npos (XO XH)) :: ((Npos
    (XO (XO (XO XH)))) :: ((Npos (XO (XO (XO XH)))) :: ((Npos (XO (XO (XO
    XH)))) :: ((Npos (XO (XO (XO XH)))) :: ((Npos (XO (XO (XO
    XH)))) :: ((Npos (XO (XO (XO XH)))) :: ((Npos (XO (XO (XO
    XH)))) :: ((Npos (XO (XO (XO XH)))) :: ((Npos (XO (XO (XO
    XH)))) :: ((Npos (XO (XO (XO XH)))) :: ((Npos (XO (XO (XO
    XH)))) :: ((Npos (XO (XO (XO XH)))) :: ((Npos (XO (XO (XO
    XH)))) :: ((Npos (XO (XO (XO XH)))) :: ((Npos (XO (XO (XO
    XH)))) :: ((Npos (XI XH)) :: ((Npos (XO (XO (XO XH)))) :: ((Npos (XO (XO
    (XO XH)))) :: ((Npos (XO (XO (XO XH)))) :: ((Npos (XO (XO (XO
    XH)))) :: ((Npos (XO (XO (XO XH)))) :: ((Npos (XO (XO (XO
    XH)))) :: ((Npos (XO (XO (XO XH)))) :: ((Npos (XO (XO XH))) :: ((Npos (XO
    (XO (XO XH)))) :: ((Npos (XO (XO (XO XH)))) :: ((Npos (XO (XO (XO
    XH)))) :: ((Npos (XO (XO XH))) :: ((Npos (XO (XO (XO XH)))) :: ((Npos (XO
    (XO XH))) :: ((Npos (XO (XO XH))) :: ((Npos (XI XH)) :: ((Npos (XO (XO
    (XO XH)))) :: ((Npos (XO (XO (XO XH)))) :: ((Npos (XO (XO (XO
    XH)))) :: ((Npos (XO (XO (XO XH)))) :: ((Npos (XO (XO (XO
    XH)))) :: ((Npos (XO (XO (XO XH)))) :: ((Npos (XO (XO (XO
    XH)))) :: ((Npos (XI (XO XH))) :: ((Npos (XO (XO (XO XH)))) :: ((Npos (XO
    (XO (XO XH)))) :: ((Npos (XO (XO (XO XH)))) :: ((Npos (XI (XO
    XH))) :: ((Npos (XO (XO (XO XH)))) :: ((Npos (XI (XO XH))) :: ((Npos (XI
    (XO XH))) :: ((Npos (XI XH)) :: ((Npos (XO (XO (XO XH)))) :: ((Npos (XO
    (XO (XO XH)))) :: ((Npos (XO (XO (XO XH)))) :: ((Npos (XI (XO
    XH))) :: ((Npos (XO (XO (XO XH)))) :: ((Npos (XI (XO XH))) :: ((Npos (XI
    (XO XH))) :: ((Npos (XO (XO XH))) :: ((Npos (XO (XO (XO XH)))) :: ((Npos
    (XI (XO XH))) :: ((Npos (XI (XO XH))) :: ((Npos (XO (XO XH))) :: ((Npos
    (XI (XO XH))) :: ((Npos (XO (XO XH))) :: ((Npos (XO (XO XH))) :: ((Npos
    (XI XH)) :: ((Npos (XO (XO (XO XH)))) :: ((Npos (XO (XO (XO
    XH)))) :: ((Npos (XO (XO (XO XH)))) :: ((Npos (XO (XO (XO
    XH)))) :: ((Npos (XO (XO (XO XH)))) :: ((Npos (XO (XO (XO
    XH)))) :: ((Npos (XO (XO (XO XH)))) :: ((Npos (XO (XI XH))) :: ((Npos (XO
    (XO (XO XH)))) :: ((Npos (XO (XO (XO XH)))) :: ((Npos (XO (XO (XO
    XH)))) :: ((Npos (XO (XI XH))) :: ((Npos (XO (XO (XO XH)))) :: ((Npos (XO
    (XI XH))) :: ((Npos (XO (XI XH))) :: ((Npos (XI XH)) :: ((Npos (XO (XO
    (XO XH)))) :: ((Npos (XO (XO (XO XH)))) :: ((Npos (XO (XO (XO
    XH)))) :: ((Npos (XO (XI XH))) :: ((Npos (XO (XO (XO XH)))) :: ((Npos (XO
    (XI XH))) :: ((Npos (XO (XI XH))) :: ((Npos (XO (XO XH))) :: ((Npos (XO
    (XO (XO XH)))) :: ((Npos (XO (XI XH))) :: ((Npos (XO (XI XH))) :: ((Npos
    (XO (XO XH))) :: ((Npos (XO (XI XH))) :: ((Npos (XO (XO XH))) :: ((Npos
    (XO (XO XH))) :: ((Npos (XI XH)) :: ((Npos (XO (XO (XO XH)))) :: ((Npos
    (XO (XO (XO XH)))) :: ((Npos (XO (XO (XO XH)))) :: ((Npos (XO (XI
    XH))) :: ((Npos (XO (XO (XO XH)))) :: ((Npos (XO (XI XH))) :: ((Npos (XO
    (XI XH))) :: ((Npos (XI (XO XH))) :: ((Npos (XO (XO (XO XH)))) :: ((Npos
    (XO (XI XH))) :: ((Npos (XO (XI XH))) :: ((Npos (XI (XO XH))) :: ((Npos
    (XO (XI XH))) :: ((Npos (XI (XO XH))) :: ((Npos (XI (XO XH))) :: ((Npos
    (XI XH)) :: ((Npos (XO (XO (XO XH)))) :: ((Npos (XO (XI XH))) :: ((Npos
    (XO (XI XH))) :: ((Npos (XI (XO XH))) :: ((Npos (XO (XI XH))) :: ((Npos
    (XI (XO XH))) :: ((Npos (XI (XO XH))) :: ((Npos (XO (XO XH))) :: ((Npos
    (XO (XI XH))) :: ((Npos (XI (XO XH))) :: ((Npos (XI (XO XH))) :: ((Npos
    (XO (XO XH))) :: ((Npos (XI (XO XH))) :: ((Npos (XO (XO XH))) :: ((Npos
    (XO (XO XH))) :: ((Npos (XI XH)) :: ((Npos (XO (XO (XO XH)))) :: ((Npos
    (XO (XO (XO XH)))) :: ((Npos (XO (XO (XO XH)))) :: ((Npos (XO (XO (XO
    XH)))) :: ((Npos (XO (XO (XO XH)))) :: ((Npos (XO (XO (XO
    XH)))) :: ((Npos (XO (XO (XO XH)))) :: ((Npos (XI (XI XH))) :: ((Npos (XO
    (XO (XO XH)))) :: ((Npos (XO (XO (XO XH)))) :: ((Npos (XO (XO (XO
    XH)))) :: ((Npos (XI (XI XH))) :: ((Npos (XO (XO (XO XH)))) :: ((Npos (XI
    (XI XH))) :: ((Npos (XI (XI XH))) :: ((Npos (XI XH)) :: ((Npos (XO (XO
    (XO XH)))) :: ((Npos (XO (XO (XO XH)))) :: ((Npos (XO (XO (XO
    XH)))) :: ((Npos (XI (XI XH))) :: ((Npos (XO (XO (XO XH)))) :: ((Npos (XI
    (XI XH))) :: ((Npos (XI (XI XH))) :: ((Npos (XO (XO XH))) :: ((Npos (XO
    (XO (XO XH)))) :: ((Npos (XI (XI XH))) :: ((Npos (XI (XI XH))) :: ((Npos
    (XO (XO XH))) :: ((Npos (XI (XI XH))) :: ((Npos (XO (XO XH))) :: ((Npos
    (XO (XO XH))) :: ((Npos (XI XH)) :: ((Npos (XO (XO (XO XH)))) :: ((Npos
    (XO (XO (XO XH)))) :: ((Npos (XO (XO (XO XH)))) :: ((Npos (XI (XI
    XH))) :: ((Npos (XO (XO (XO XH)))) :: ((Npos (XI (XI XH))) :: ((Npos (XI
    (XI XH))) :: ((Npos (XI (XO XH))) :: ((Npos (XO (XO (XO XH)))) :: ((Npos
    (XI (XI XH))) :: ((Npos (XI (XI XH))) :: ((Npos (XI (XO XH))) :: ((Npos
    (XI (XI XH))) :: ((Npos (XI (XO XH))) :: ((Npos (XI (XO XH))) :: ((Npos
    (XI XH)) :: ((Npos (XO (XO (XO XH)))) :: ((Npos (XI (XI XH))) :: ((Npos
    (XI (XI XH))) :: ((Npos (XI (XO XH))) :: ((Npos (XI (XI XH))) :: ((Npos
    (XI (XO XH))) :: ((Npos (XI (XO XH))) :: ((Npos (XO (XO XH))) :: ((Npos
    (XI (XI XH))) :: ((Npos (XI (XO XH))) :: ((Npos (XI (XO XH))) :: ((Npos
    (XO (XO XH))) :: ((Npos (XI (XO XH))) :: ((Npos (XO (XO XH))) :: ((Npos
    (XO (XO XH))) :: ((Npos (XI XH)) :: ((Npos (XO (XO (XO XH)))) :: ((Npos
    (XO (XO (XO XH)))) :: ((Npos (XO (XO (XO XH)))) :: ((Npos (XI (XI
    XH))) :: ((Npos (XO (XO (XO XH)))) :: ((Npos (XI (XI XH))) :: ((Npos (XI
    (XI XH))) :: ((Npos (XO (XI XH))) :: ((Npos (XO (XO (XO XH)))) :: ((Npos
    (XI (XI XH))) :: ((Npos (XI (XI XH))) :: ((Npos (XO (XI XH))) :: ((Npos
    (XI (XI XH))) :: ((Npos (XO (XI XH))) :: ((Npos (XO (XI XH))) :: ((Npos
    (XI XH)) :: ((Npos (XO (XO (XO XH)))) :: ((Npos (XI (XI XH))) :: ((Npos
    (XI (XI XH))) :: ((Npos (XO (XI XH))) :: ((Npos (XI (XI XH))) :: ((Npos
    (XO (XI XH))) :: ((Npos (XO (XI XH))) :: ((Npos (XO (XO XH))) :: ((Npos
    (XI (XI XH))) :: ((Npos (XO (XI XH))) :: ((Npos (XO (XI XH))) :: ((Npos
    (XO (XO XH))) :: ((Npos (XO (XI XH))) :: ((Npos (XO (XO XH))) :: ((Npos
    (XO (XO XH))) :: ((Npos (XI XH)) :: ((Npos (XO (XO (XO XH)))) :: ((Npos
    (XI (XI XH))) :: ((Npos (XI (XI XH))) :: ((Npos (XO (XI XH))) :: ((Npos
    (XI (XI XH))) :: ((Npos (XO (XI XH))) :: ((Npos (XO (XI XH))) :: ((Npos
    (XI (XO XH))) :: ((Npos (XI (XI XH))) :: ((Npos (XO (XI XH))) :: ((Npos
    (XO (XI XH))) :: ((Npos (XI (XO XH))) :: ((Npos (XO (XI XH))) :: ((Npos
    (XI (XO XH))) :: ((Npos (XI (XO XH))) :: ((Npos (XI XH)) :: ((Npos (XI
    (XI XH))) :: ((Npos (XO (XI XH))) :: ((Npos (XO (XI XH))) :: ((Npos (XI
    (XO XH))) :: ((Npos (XO (XI XH))) :: ((Npos (XI (XO XH))) :: ((Npos (XI
    (XO XH))) :: ((Npos (XO (XO XH))) :: ((Npos (XO (XI XH))) :: ((Npos (XI
    (XO XH))) :: ((Npos (XI (XO XH))) :: ((Npos (XO (XO XH))) :: ((Npos (XI
    (XO XH))) :: ((Npos (XO (XO XH))) :: ((Npos (XO (XO XH))) :: ((Npos (XI
    XH)) :: ((Npos (XO (XO (XO XH)))) :: ((Npos (XO (XO (XO XH)))) :: ((Npos
    (XO (XO (XO XH)))) :: ((Npos (XO (XO (XO XH)))) :: ((Npos (XO (XO (XO
    XH)))) :: ((Npos (XO (XO (XO XH)))) :: ((Npos (XO (XO (XO
    XH)))) :: ((Npos (XO (XO (XO XH)))) :: ((Npos (XO (XO (XO
    XH)))) :: ((Npos (XO (XO (XO XH)))) :: ((Npos (XO (XO (XO
    XH)))) :: ((Npos (XO (XO (XO XH)))) :: ((Npos (XO (XO (XO
    XH)))) :: ((Npos (XO (XO (XO XH)))) :: ((Npos (XO (XO (XO
    XH)))) :: ((Npos (XO (XO (XO XH)))) :: ((Npos (XO (XO (XO
    XH)))) :: ((Npos (XO (XO (XO XH)))) :: ((Npos (XO (XO (XO
    XH)))) :: ((Npos (XO (XO (XO XH)))) :: ((Npos (XO (XO (XO
    XH)))) :: ((Npos (XO (XO (XO XH)))) :: ((Npos (XO (XO (XO
    XH)))) :: ((Npos (XO (XO (XO XH)))) :: ((Npos (XO (XO (XO
    XH)))) :: ((Npos (XO (XO (XO XH)))) :: ((Npos (XO (XO (XO
    XH)))) :: ((Npos (XO (XO (XO XH)))) :: ((Npos (XO (XO (XO
    XH)))) :: ((Npos (XO (XO (XO XH)))) :: ((Npos (XO (XO (XO
    XH)))) :: ((Npos (XO (XO XH))) :: ((Npos (XO (XO (XO XH)))) :: ((Npos (XO
    (XO (XO XH)))) :: ((Npos (XO (XO (XO XH)))) :: ((Npos (XO (XO (XO
    XH)))) :: ((Npos (XO (XO (XO XH)))) :: ((Npos (XO (XO (XO
    XH)))) :: ((Npos (XO (XO (XO XH)))) :: ((Npos (XO (XO (XO
    XH)))) :: ((Npos (XO (XO (XO XH)))) :: ((Npos (XO (XO (XO
    XH)))) :: ((Npos (XO (XO (XO XH)))) :: ((Npos (XO (XO (XO
    XH)))) :: ((Npos (XO (XO (XO XH)))) :: ((Npos (XO (XO (XO
    XH)))) :: ((Npos (XO (XO (XO XH)))) :: ((Npos (XI (XO XH))) :: ((Npos (XO
    (XO (XO XH)))) :: ((Npos (XO (XO (XO XH)))) :: ((Npos (XO (XO (XO
    XH)))) :: ((Npos (XO (XO (XO XH)))) :: ((Npos (XO (XO (XO
    XH)))) :: ((Npos (XO (XO (XO XH)))) :: ((Npos (XO (XO (XO
    XH)))) :: ((Npos (XI (XO XH))) :: ((Npos (XO (XO (XO XH)))) :: ((Npos (XO
    (XO (XO XH)))) :: ((Npos (XO (XO (XO XH)))) :: ((Npos (XI (XO
    XH))) :: ((Npos (XO (XO (XO XH)))) :: ((Npos (XI (XO XH))) :: ((Npos (XI
    (XO XH))) :: ((Npos (XO (XO XH))) :: ((Npos (XO (XO (XO XH)))) :: ((Npos
    (XO (XO (XO XH)))) :: ((Npos (XO (XO (XO XH)))) :: ((Npos (XO (XO (XO
    XH)))) :: ((Npos (XO (XO (XO XH)))) :: ((Npos (XO (XO (XO
    XH)))) :: ((Npos (XO (XO (XO XH)))) :: ((Npos (XO (XO (XO
    XH)))) :: ((Npos (XO (XO (XO XH)))) :: ((Npos (XO (XO (XO
    XH)))) :: ((Npos (XO (XO (XO XH)))) :: ((Npos (XO (XO (XO
    XH)))) :: ((Npos (XO (XO (XO XH)))) :: ((Npos (XO (XO (XO
    XH)))) :: ((Npos (XO (XO (XO XH)))) :: ((Npos (XO (XI XH))) :: ((Npos (XO
    (XO (XO XH)))) :: ((Npos (XO (XO (XO XH)))) :: ((Npos (XO (XO (XO
    XH)))) :: ((Npos (XO (XO (XO XH)))) :: ((Npos (XO (XO (XO
    XH)))) :: ((Npos (XO (XO (XO XH)))) :: ((Npos (XO (XO (XO
    XH)))) :: ((Npos (XO (XI XH))) :: ((Npos (XO (XO (XO XH)))) :: ((Npos (XO
    (XO (XO XH)))) :: ((Npos (XO (XO (XO XH)))) :: ((Npos (XO (XI
    XH))) :: ((Npos (XO (XO (XO XH)))) :: ((Npos (XO (XI XH))) :: ((Npos (XO
    (XI XH))) :: ((Npos (XO (XO XH))) :: ((Npos (XO (XO (XO XH)))) :: ((Npos
    (XO (XO (XO XH)))) :: ((Npos (XO (XO (XO XH)))) :: ((Npos (XO (XO (XO
    XH)))) :: ((Npos (XO (XO (XO XH)))) :: ((Npos (XO (XO (XO
    XH)))) :: ((Npos (XO (XO (XO XH)))) :: ((Npos (XO (XI XH))) :: ((Npos (XO
    (XO (XO XH)))) :: ((Npos (XO (XO (XO XH)))) :: ((Npos (XO (XO (XO
    XH)))) :: ((Npos (XO (XI XH))) :: ((Npos (XO (XO (XO XH)))) :: ((Npos (XO
    (XI XH))) :: ((Npos (XO (XI XH))) :: ((Npos (XI (XO XH))) :: ((Npos (XO
    (XO (XO XH)))) :: ((Npos (XO (XO (XO XH)))) :: ((Npos (XO (XO (XO
    XH)))) :: ((Npos (XO (XI XH))) :: ((Npos (XO (XO (XO XH)))) :: ((Npos (XO
    (XI XH))) :: ((Npos (XO (XI XH))) :: ((Npos (XI (XO XH))) :: ((Npos (XO
    (XO (XO XH)))) :: ((Npos (XO (XI XH))) :: ((Npos (XO (XI XH))) :: ((Npos
    (XI (XO XH))) :: ((Npos (XO (XI XH))) :: ((Npos (XI (XO XH))) :: ((Npos
    (XI (XO XH))) :: ((Npos (XO (XO XH))) :: ((Npos (XO (XO (XO
    XH)))) :: ((Npos (XO (XO (XO XH)))) :: ((Npos (XO (XO (XO
    XH)))) :: ((Npos (XO (XO (XO XH)))) :: ((Npos (XO (XO (XO
    XH)))) :: ((Npos (XO (XO (XO XH)))) :: ((Npos (XO (XO (XO
    XH)))) :: ((Npos (XO (XO (XO XH)))) :: ((Npos (XO (XO (XO
    XH)))) :: ((Npos (XO (XO (XO XH)))) :: ((Npos (XO (XO (XO
    XH)))) :: ((Npos (XO (XO (XO XH)))) :: ((Npos (XO (XO (XO
    XH)))) :: ((Npos (XO (XO (XO XH)))) :: ((Npos (XO (XO (XO
    XH)))) :: ((Npos (XI (XI XH))) :: ((Npos (XO (XO (XO XH)))) :: ((Npos (XO
    (XO (XO XH)))) :: ((Npos (XO (XO (XO XH)))) :: ((Npos (XO (XO (XO
    XH)))) :: ((Npos (XO (XO (XO XH)))) :: ((Npos (XO (XO (XO
    XH)))) :: ((Npos (XO (XO (XO XH)))) :: ((Npos (XI (XI XH))) :: ((Npos (XO
    (XO (XO XH)))) :: ((Npos (XO (XO (XO XH)))) :: ((Npos (XO (XO (XO
    XH)))) :: ((Npos (XI (XI XH))) :: ((Npos (XO (XO (XO XH)))) :: ((Npos (XI
    (XI XH))) :: ((Npos (XI (XI XH))) :: ((Npos (XO (XO XH))) :: ((Npos (XO
    (XO (XO XH)))) :: ((Npos (XO (XO (XO XH)))) :: ((Npos (XO (XO (XO
    XH)))) :: ((Npos (XO (XO (XO XH)))) :: ((Npos (XO (XO (XO
    XH)))) :: ((Npos (XO (XO (XO XH)))) :: ((Npos (XO (XO (XO
    XH)))) :: ((Npos (XI (XI XH))) :: ((Npos (XO (XO (XO XH)))) :: ((Npos (XO
    (XO (XO XH)))) :: ((Npos (XO (XO (XO XH)))) :: ((Npos (XI (XI
    XH))) :: ((Npos (XO (XO (XO XH)))) :: ((Npos (XI (XI XH))) :: ((Npos (XI
    (XI XH))) :: ((Npos (XI (XO XH))) :: ((Npos (XO (XO (XO XH)))) :: ((Npos
    (XO (XO (XO XH)))) :: ((Npos (XO (XO (XO XH)))) :: ((Npos (XI (XI
    XH))) :: ((Npos (XO (XO (XO XH)))) :: ((Npos (XI (XI XH))) :: ((Npos (XI
    (XI XH))) :: ((Npos (XI (XO XH))) :: ((Npos (XO (XO (XO XH)))) :: ((Npos
    (XI (XI XH))) :: ((Npos (XI (XI XH))) :: ((Npos (XI (XO XH))) :: ((Npos
    (XI (XI XH))) :: ((Npos (XI (XO XH))) :: ((Npos (XI (XO XH))) :: ((Npos
    (XO (XO XH))) :: ((Npos (XO (XO (XO XH)))) :: ((Npos (XO (XO (XO
    XH)))) :: ((Npos (XO (XO (XO XH)))) :: ((Npos (XO (XO (XO
    XH)))) :: ((Npos (XO (XO (XO XH)))) :: ((Npos (XO (XO (XO
    XH)))) :: ((Npos (XO (XO (XO XH)))) :: ((Npos (XI (XI XH))) :: ((Npos (XO
    (XO (XO XH)))) :: ((Npos (XO (XO (XO XH)))) :: ((Npos (XO (XO (XO
    XH)))) :: ((Npos (XI (XI XH))) :: ((Npos (XO (XO (XO XH)))) :: ((Npos (XI
    (XI XH))) :: ((Npos (XI (XI XH))) :: ((Npos (XO (XI XH))) :: ((Npos (XO
    (XO (XO XH)))) :: ((Npos (XO (XO (XO XH)))) :: ((Npos (XO (XO (XO
    XH)))) :: ((Npos (XI (XI XH))) :: ((Npos (XO (XO (XO XH)))) :: ((Npos (XI
    (XI XH))) :: ((Npos (XI (XI XH))) :: ((Npos (XO (XI XH))) :: ((Npos (XO
    (XO (XO XH)))) :: ((Npos (XI (XI XH))) :: ((Npos (XI (XI XH))) :: ((Npos
    (XO (XI XH))) :: ((Npos (XI (XI XH))) :: ((Npos (XO (XI XH))) :: ((Npos
    (XO (XI XH))) :: ((Npos (XO (XO XH))) :: ((Npos (XO (XO (XO
    XH)))) :: ((Npos (XO (XO (XO XH)))) :: ((Npos (XO (XO (XO
    XH)))) :: ((Npos (XI (XI XH))) :: ((Npos (XO (XO (XO XH)))) :: ((Npos (XI
    (XI XH))) :: ((Npos (XI (XI XH))) :: ((Npos (XO (XI XH))) :: ((Npos (XO
    (XO (XO XH)))) :: ((Npos (XI (XI XH))) :: ((Npos (XI (XI XH))) :: ((Npos
    (XO (XI XH))) :: ((Npos (XI (XI XH))) :: ((Npos (XO (XI XH))) :: ((Npos
    (XO (XI XH))) :: ((Npos (XI (XO XH))) :: ((Npos (XO (XO (XO
    XH)))) :: ((Npos (XI (XI XH))) :: ((Npos (XI (XI XH))) :: ((Npos (XO (XI
    XH))) :: ((Npos (XI (XI XH))) :: ((Npos (XO (XI XH))) :: ((Npos (XO (XI
    XH))) :: ((Npos (XI (XO XH))) :: ((Npos (XI (XI XH))) :: ((Npos (XO (XI
    XH))) :: ((Npos (XO (XI XH))) :: ((Npos (XI (XO XH))) :: ((Npos (XO (XI
    XH))) :: ((Npos (XI (XO XH))) :: ((Npos (XI (XO XH))) :: ((Npos (XO (XO
    XH))) :: ((Npos (XO (XO (XO XH)))) :: ((Npos (XO (XO (XO XH)))) :: ((Npos
    (XO (XO (XO XH)))) :: ((Npos (XO (XO (XO XH)))) :: ((Npos (XO (XO (XO
    XH)))) :: ((Npos (XO (XO (XO XH)))) :: ((Npos (XO (XO (XO
    XH)))) :: ((Npos (XO (XO (XO XH)))) :: ((Npos (XO (XO (XO
    XH)))) :: ((Npos (XO (XO (XO XH)))) :: ((Npos (XO (XO (XO
    XH)))) :: ((Npos (XO (XO (XO XH)))) :: ((Npos (XO (XO (XO
    XH)))) :: ((Npos (XO (XO (XO XH)))) :: ((Npos (XO (XO (XO
    XH)))) :: ((Npos (XO (XO (XO XH)))) :: ((Npos (XO (XO (XO
    XH)))) :: ((Npos (XO (XO (XO XH)))) :: ((Npos (XO (XO (XO
    XH)))) :: ((Npos (XO (XO (XO XH)))) :: ((Npos (XO (XO (XO
    XH)))) :: ((Npos (XO (XO (XO XH)))) :: ((Npos (XO (XO (XO
    XH)))) :: ((Npos (XO (XO (XO XH)))) :: ((Npos (XO (XO (XO
    XH)))) :: ((Npos (XO (XO (XO XH)))) :: ((Npos (XO (XO (XO
    XH)))) :: ((Npos (XO (XO (XO XH)))) :: ((Npos (XO (XO (XO
    XH)))) :: ((Npos (XO (XO (XO XH)))) :: ((Npos (XO (XO (XO
    XH)))) :: ((Npos (XO (XO (XO XH)))) :: ((Npos (XO (XO (XO
    XH)))) :: ((Npos (XO (XO (XO XH)))) :: ((Npos (XO (XO (XO
    XH)))) :: ((Npos (XO (XO (XO XH)))) :: ((Npos (XO (XO (XO
    XH)))) :: ((Npos (XO (XO (XO XH)))) :: ((Npos (XO (XO (XO
    XH)))) :: ((Npos (XO (XO (XO XH)))) :: ((Npos (XO (XO (XO
    XH)))) :: ((Npos (XO (XO (XO XH)))) :: ((Npos (XO (XO (XO
    XH)))) :: ((Npos (XO (XO (XO XH)))) :: ((Npos (XO (XO (XO
    XH)))) :: ((Npos (XO (XO (XO XH)))) :: ((Npos (XO (XO (XO
    XH)))) :: ((Npos (XO (XO (XO XH)))) :: ((Npos (XO (XO (XO
    XH)))) :: ((Npos (XO (XO (XO XH)))) :: ((Npos (XO (XO (XO
    XH)))) :: ((Npos (XO (XO (XO XH)))) :: ((Npos (XO (XO (XO
    XH)))) :: ((Npos (XO (XO (XO XH)))) :: ((Npos (XO (XO (XO
    XH)))) :: ((Npos (XO (XO (XO XH)))) :: ((Npos (XO (XO (XO
    XH)))) :: ((Npos (XO (XO (XO XH)))) :: ((Npos (XO (XO (XO
    XH)))) :: ((Npos (XO (XO (XO XH)))) :: ((Npos (XO (XO (XO
    XH)))) :: ((Npos (XO (XO (XO XH)))) :: ((Npos (XO (XO (XO
    XH)))) :: ((Npos (XI (XO XH))) :: ((Npos (XO (XO (XO XH)))) :: ((Npos (XO
    (XO (XO XH)))) :: ((Npos (XO (XO (XO XH)))) :: ((Npos (XO (XO (XO
    XH)))) :: ((Npos (XO (XO (XO XH)))) :: ((Npos (XO (XO (XO
    XH)))) :: ((Npos (XO (XO (XO XH)))) :: ((Npos (XO (XO (XO
    XH)))) :: ((Npos (XO (XO (XO XH)))) :: ((Npos (XO (XO (XO
    XH)))) :: ((Npos (XO (XO (XO XH)))) :: ((Npos (XO (XO (XO
    XH)))) :: ((Npos (XO (XO (XO XH)))) :: ((Npos (XO (XO (XO
    XH)))) :: ((Npos (XO (XO (XO XH)))) :: ((Npos (XO (XO (XO
    XH)))) :: ((Npos (XO (XO (XO XH)))) :: ((Npos (XO (XO (XO
    XH)))) :: ((Npos (XO (XO (XO XH)))) :: ((Npos (XO (XO (XO
    XH)))) :: ((Npos (XO (XO (XO XH)))) :: ((Npos (XO (XO (XO
    XH)))) :: ((Npos (XO (XO (XO XH)))) :: ((Npos (XO (XO (XO
    XH)))) :: ((Npos (XO (XO (XO XH)))) :: ((Npos (XO (XO (XO
    XH)))) :: ((Npos (XO (XO (XO XH)))) :: ((Npos (XO (XO (XO
    XH)))) :: ((Npos (XO (XO (XO XH)))) :: ((Npos (XO (XO (XO
    XH)))) :: ((Npos (XO (XO (XO XH)))) :: ((Npos (XO (XI XH))) :: ((Npos (XO
    (XO (XO XH)))) :: ((Npos (XO (XO (XO XH)))) :: ((Npos (XO (XO (XO
    XH)))) :: ((Npos (XO (XO (XO XH)))) :: ((Npos (XO (XO (XO
    XH)))) :: ((Npos (XO (XO (XO XH)))) :: ((Npos (XO (XO (XO
    XH)))) :: ((Npos (XO (XO (XO XH)))) :: ((Npos (XO (XO (XO
    XH)))) :: ((Npos (XO (XO (XO XH)))) :: ((Npos (XO (XO (XO
    XH)))) :: ((Npos (XO (XO (XO XH)))) :: ((Npos (XO (XO (XO
    XH)))) :: ((Npos (XO (XO (XO XH)))) :: ((Npos (XO (XO (XO
    XH)))) :: ((Npos (XO (XI XH))) :: ((Npos (XO (XO (XO XH)))) :: ((Npos (XO
    (XO (XO XH)))) :: ((Npos (XO (XO (XO XH)))) :: ((Npos (XO (XO (XO
    XH)))) :: ((Npos (XO (XO (XO XH)))) :: ((Npos (XO (XO (XO
    XH)))) :: ((Npos (XO (XO (XO XH)))) :: ((Npos (XO (XI XH))) :: ((Npos (XO
    (XO (XO XH)))) :: ((Npos (XO (XO (XO XH)))) :: ((Npos (XO (XO (XO
    XH)))) :: ((Npos (XO (XI XH))) :: ((Npos (XO (XO (XO XH)))) :: ((Npos (XO
    (XI XH))) :: ((Npos (XO (XI XH))) :: ((Npos (XI (XO XH))) :: ((Npos (XO
    (XO (XO XH)))) :: ((Npos (XO (XO (XO XH)))) :: ((Npos (XO (XO (XO
    XH)))) :: ((Npos (XO (XO (XO XH)))) :: ((Npos (XO (XO (XO
    XH)))) :: ((Npos (XO (XO (XO XH)))) :: ((Npos (XO (XO (XO
    XH)))) :: ((Npos (XO (XO (XO XH)))) :: ((Npos (XO (XO (XO
    XH)))) :: ((Npos (XO (XO (XO XH)))) :: ((Npos (XO (XO (XO
    XH)))) :: ((Npos (XO (XO (XO XH)))) :: ((Npos (XO (XO (XO
    XH)))) :: ((Npos (XO (XO (XO XH)))) :: ((Npos (XO (XO (XO
    XH)))) :: ((Npos (XO (XO (XO XH)))) :: ((Npos (XO (XO (XO
    XH)))) :: ((Npos (XO (XO (XO XH)))) :: ((Npos (XO (XO (XO
    XH)))) :: ((Npos (XO (XO (XO XH)))) :: ((Npos (XO (XO (XO
    XH)))) :: ((Npos (XO (XO (XO XH)))) :: ((Npos (XO (XO (XO
    XH)))) :: ((Npos (XO (XO (XO XH)))) :: ((Npos (XO (XO (XO
    XH)))) :: ((Npos (XO (XO (XO XH)))) :: ((Npos (XO (XO (XO
    XH)))) :: ((Npos (XO (XO (XO XH)))) :: ((Npos (XO (XO (XO
    XH)))) :: ((Npos (XO (XO (XO XH)))) :: ((Npos (XO (XO (XO
    XH)))) :: ((Npos (XI (XI XH))) :: ((Npos (XO (XO (XO XH)))) :: ((Npos (XO
    (XO (XO XH)))) :: ((Npos (XO (XO (XO XH)))) :: ((Npos (XO (XO (XO
    XH)))) :: ((Npos (XO (XO (XO XH)))) :: ((Npos (XO (XO (XO
    XH)))) :: ((Npos (XO (XO (XO XH)))) :: ((Npos (XO (XO (XO
    XH)))) :: ((Npos (XO (XO (XO XH)))) :: ((Npos (XO (XO (XO
    XH)))) :: ((Npos (XO (XO (XO XH)))) :: ((Npos (XO (XO (XO
    XH)))) :: ((Npos (XO (XO (XO XH)))) :: ((Npos (XO (XO (XO
    XH)))) :: ((Npos (XO (XO (XO XH)))) :: ((Npos (XI (XI XH))) :: ((Npos (XO
    (XO (XO XH)))) :: ((Npos (XO (XO (XO XH)))) :: ((Npos (XO (XO (XO
    XH)))) :: ((Npos (XO (XO (XO XH)))) :: ((Npos (XO (XO (XO
    XH)))) :: ((Npos (XO (XO (XO XH)))) :: ((Npos (XO (XO (XO
    XH)))) :: ((Npos (XI (XI XH))) :: ((Npos (XO (XO (XO XH)))) :: ((Npos (XO
    (XO (XO XH)))) :: ((Npos (XO (XO (XO XH)))) :: ((Npos (XI (XI
    XH))) :: ((Npos (XO (XO (XO XH)))) :: ((Npos (XI (XI XH))) :: ((Npos (XI
    (XI XH))) :: ((Npos (XI (XO XH))) :: ((Npos (XO (XO (XO XH)))) :: ((Npos
    (XO (XO (XO XH)))) :: ((Npos (XO (XO (XO XH)))) :: ((Npos (XO (XO (XO
    XH)))) :: ((Npos (XO (XO (XO XH)))) :: ((Npos (XO (XO (XO
    XH)))) :: ((Npos (XO (XO (XO XH)))) :: ((Npos (XO (XO (XO
    XH)))) :: ((Npos (XO (XO (XO XH)))) :: ((Npos (XO (XO (XO
    XH)))) :: ((Npos (XO (XO (XO XH)))) :: ((Npos (XO (XO (XO
    XH)))) :: ((Npos (XO (XO (XO XH)))) :: ((Npos (XO (XO (XO
    XH)))) :: ((Npos (XO (XO (XO XH)))) :: ((Npos (XI (XI XH))) :: ((Npos (XO
    (XO (XO XH)))) :: ((Npos (XO (XO (XO XH)))) :: ((Npos (XO (XO (XO
    XH)))) :: ((Npos (XO (XO (XO XH)))) :: ((Npos (XO (XO (XO
    XH)))) :: ((Npos (XO (XO (XO XH)))) :: ((Npos (XO (XO (XO
    XH)))) :: ((Npos (XI (XI XH))) :: ((Npos (XO (XO (XO XH)))) :: ((Npos (XO
    (XO (XO XH)))) :: ((Npos (XO (XO (XO XH)))) :: ((Npos (XI (XI
    XH))) :: ((Npos (XO (XO (XO XH)))) :: ((Npos (XI (XI XH))) :: ((Npos (XI
    (XI XH))) :: ((Npos (XO (XI XH))) :: ((Npos (XO (XO (XO XH)))) :: ((Npos
    (XO (XO (XO XH)))) :: ((Npos (XO (XO (XO XH)))) :: ((Npos (XO (XO (XO
    XH)))) :: ((Npos (XO (XO (XO XH)))) :: ((Npos (XO (XO (XO
    XH)))) :: ((Npos (XO (XO (XO XH)))) :: ((Npos (XI (XI XH))) :: ((Npos (XO
    (XO (XO XH)))) :: ((Npos (XO (XO (XO XH)))) :: ((Npos (XO (XO (XO
    XH)))) :: ((Npos (XI (XI XH))) :: ((Npos (XO (XO (XO XH)))) :: ((Npos (XI
    (XI XH))) :: ((Npos (XI (XI XH))) :: ((Npos (XO (XI XH))) :: ((Npos (XO
    (XO (XO XH)))) :: ((Npos (XO (XO (XO XH)))) :: ((Npos (XO (XO (XO
    XH)))) :: ((Npos (XI (XI XH))) :: ((Npos (XO (XO (XO XH)))) :: ((Npos (XI
    (XI XH))) :: ((Npos (XI (XI XH))) :: ((Npos (XO (XI XH))) :: ((Npos (XO
    (XO (XO XH)))) :: ((Npos (XI (XI XH))) :: ((Npos (XI (XI XH))) :: ((Npos
    (XO (XI XH))) :: ((Npos (XI (XI XH))) :: ((Npos (XO (XI XH))) :: ((Npos
    (XO (XI XH))) :: ((Npos (XI (XO XH))) :: ((Npos (XO (XO (XO
    XH)))) :: ((Npos (XO (XO (XO XH)))) :: ((Npos (XO (XO (XO
    XH)))) :: ((Npos (XO (XO (XO XH)))) :: ((Npos (XO (XO (XO
    XH)))) :: ((Npos (XO (XO (XO XH)))) :: ((Npos (XO (XO (XO
    XH)))) :: ((Npos (XO (XO (XO XH)))) :: ((Npos (XO (XO (XO
    XH)))) :: ((Npos (XO (XO (XO XH)))) :: ((Npos (XO (XO (XO
    XH)))) :: ((Npos (XO (XO (XO XH)))) :: ((Npos (XO (XO (XO
    XH)))) :: ((Npos (XO (XO (XO XH)))) :: ((Npos (XO (XO (XO
    XH)))) :: ((Npos (XO (XO (XO XH)))) :: ((Npos (XO (XO (XO
    XH)))) :: ((Npos (XO (XO (XO XH)))) :: ((Npos (XO (XO (XO
    XH)))) :: ((Npos (XO (XO (XO XH)))) :: ((Npos (XO (XO (XO
    XH)))) :: ((Npos (XO (XO (XO XH)))) :: ((Npos (XO (XO (XO
    XH)))) :: ((Npos (XO (XO (XO XH)))) :: ((Npos (XO (XO (XO
    XH)))) :: ((Npos (XO (XO (XO XH)))) :: ((Npos (XO (XO (XO
    XH)))) :: ((Npos (XO (XO (XO XH)))) :: ((Npos (XO (XO (XO
    XH)))) :: ((Npos (XO (XO (XO XH)))) :: ((Npos (XO (XO (XO
    XH)))) :: ((Npos (XO (XO (XO XH)))) :: ((Npos (XO (XO (XO
    XH)))) :: ((Npos (XO (XO (XO XH)))) :: ((Npos (XO (XO (XO
    XH)))) :: ((Npos (XO (XO (XO XH)))) :: ((Npos (XO (XO (XO
    XH)))) :: ((Npos (XO (XO (XO XH)))) :: ((Npos (XO (XO (XO
    XH)))) :: ((Npos (XO (XO (XO XH)))) :: ((Npos (XO (XO (XO
    XH)))) :: ((Npos (XO (XO (XO XH)))) :: ((Npos (XO (XO (XO
    XH)))) :: ((Npos (XO (XO (XO XH)))) :: ((Npos (XO (XO (XO
    XH)))) :: ((Npos (XO (XO (XO XH)))) :: ((Npos (XO (XO (XO
    XH)))) :: ((Npos (XO (XO (XO XH)))) :: ((Npos (XO (XO (XO
    XH)))) :: ((Npos (XO (XO (XO XH)))) :: ((Npos (XO (XO (XO
    XH)))) :: ((Npos (XO (XO (XO XH)))) :: ((Npos (XO (XO (XO
    XH)))) :: ((Npos (XO (XO (XO XH)))) :: ((Npos (XO (XO (XO
    XH)))) :: ((Npos (XO (XO (XO XH)))) :: ((Npos (XO (XO (XO
    XH)))) :: ((Npos (XO (XO (XO XH)))) :: ((Npos (XO (XO (XO
    XH)))) :: ((Npos (XO (XO (XO XH)))) :: ((Npos (XO (XO (XO
    XH)))) :: ((Npos (XO (XO (XO XH)))) :: ((Npos (XO (XO (XO
    XH)))) :: ((Npos (XO (XO (XO XH)))) :: ((Npos (XO (XO (XO
    XH)))) :: ((Npos (XO (XO (XO XH)))) :: ((Npos (XO (XO (XO
    XH)))) :: ((Npos (XO (XO (XO XH)))) :: ((Npos (XO (XO (XO
    XH)))) :: ((Npos (XO (XO (XO XH)))) :: ((Npos (XO (XO (XO
    XH)))) :: ((Npos (XO (XO (XO XH)))) :: ((Npos (XO (XO (XO
    XH)))) :: ((Npos (XO (XO (XO XH)))) :: ((Npos (XO (XO (XO
    XH)))) :: ((Npos (XO (XO (XO XH)))) :: ((Npos (XO (XO (XO
    XH)))) :: ((Npos (XO (XO (XO XH)))) :: ((Npos (XO (XO (XO
    XH)))) :: ((Npos (XO (XO (XO XH)))) :: ((Npos (XO (XO (XO
    XH)))) :: ((Npos (XO (XO (XO XH)))) :: ((Npos (XO (XO (XO
    XH)))) :: ((Npos (XO (XO (XO XH)))) :: ((Npos (XO (XO (XO
    XH)))) :: ((Npos (XO (XO (XO XH)))) :: ((Npos (XO (XO (XO
    XH)))) :: ((Npos (XO (XO (XO XH)))) :: ((Npos (XO (XO (XO
    XH)))) :: ((Npos (XO (XO (XO XH)))) :: ((Npos (XO (XO (XO
    XH)))) :: ((Npos (XO (XO (XO XH)))) :: ((Npos (XO (XO (XO
    XH)))) :: ((Npos (XO (XO (XO XH)))) :: ((Npos (XO (XO (XO
    XH)))) :: ((Npos (XO (XO (XO XH)))) :: ((Npos (XO (XO (XO
    XH)))) :: ((Npos (XO (XO (XO XH)))) :: ((Npos (XO (XO (XO
    XH)))) :: ((Npos (XO (XO (XO XH)))) :: ((Npos (XO (XO (XO
    XH)))) :: ((Npos (XO (XO (XO XH)))) :: ((Npos (XO (XO (XO
    XH)))) :: ((Npos (XO (XO (XO XH)))) :: ((Npos (XO (XO (XO
    XH)))) :: ((Npos (XO (XO (XO XH)))) :: ((Npos (XO (XO (XO
    XH)))) :: ((Npos (XO (XO (XO XH)))) :: ((Npos (XO (XO (XO
    XH)))) :: ((Npos (XO (XO (XO XH)))) :: ((Npos (XO (XO (XO
    XH)))) :: ((Npos (XO (XO (XO XH)))) :: ((Npos (XO (XO (XO
    XH)))) :: ((Npos (XO (XO (XO XH)))) :: ((Npos (XO (XO (XO
    XH)))) :: ((Npos (XO (XO (XO XH)))) :: ((Npos (XO (XO (XO
    XH)))) :: ((Npos (XO (XO (XO XH)))) :: ((Npos (XO (XO (XO
    XH)))) :: ((Npos (XO (XO (XO XH)))) :: ((Npos (XO (XO (XO
    XH)))) :: ((Npos (XO (XO (XO XH)))) :: ((Npos (XO (XO (XO
    XH)))) :: ((Npos (XO (XO (XO XH)))) :: ((Npos (XO (XO (XO
    XH)))) :: ((Npos (XO (XO (XO XH)))) :: ((Npos (XO (XO (XO
    XH)))) :: ((Npos (XO (XI XH))) :: ((Npos (XO (XO (XO XH)))) :: ((Npos (XO
    (XO (XO XH)))) :: ((Npos (XO (XO (XO XH)))) :: ((Npos (XO (XO (XO
    XH)))) :: ((Npos (XO (XO (XO XH)))) :: ((Npos (XO (XO (XO
    XH)))) :: ((Npos (XO (XO (XO XH)))) :: ((Npos (XO (XO (XO
    XH)))) :: ((Npos (XO (XO (XO XH)))) :: ((Npos (XO (XO (XO
    XH)))) :: ((Npos (XO (XO (XO XH)))) :: ((Npos (XO (XO (XO
    XH)))) :: ((Npos (XO (XO (XO XH)))) :: ((Npos (XO (XO (XO
    XH)))) :: ((Npos (XO (XO (XO XH)))) :: ((Npos (XO (XO (XO
    XH)))) :: ((Npos (XO (XO (XO XH)))) :: ((Npos (XO (XO (XO
    XH)))) :: ((Npos (XO (XO (XO XH)))) :: ((Npos (XO (XO (XO
    XH)))) :: ((Npos (XO (XO (XO XH)))) :: ((Npos (XO (XO (XO
    XH)))) :: ((Npos (XO (XO (XO XH)))) :: ((Npos (XO (XO (XO
    XH)))) :: ((Npos (XO (XO (XO XH)))) :: ((Npos (XO (XO (XO
    XH)))) :: ((Npos (XO (XO (XO XH)))) :: ((Npos (XO (XO (XO
    XH)))) :: ((Npos (XO (XO (XO XH)))) :: ((Npos (XO (XO (XO
    XH)))) :: ((Npos (XO (XO (XO XH)))) :: ((Npos (XO (XO (XO
    XH)))) :: ((Npos (XO (XO (XO XH)))) :: ((Npos (XO (XO (XO
    XH)))) :: ((Npos (XO (XO (XO XH)))) :: ((Npos (XO (XO (XO
    XH)))) :: ((Npos (XO (XO (XO XH)))) :: ((Npos (XO (XO (XO
    XH)))) :: ((Npos (XO (XO (XO XH)))) :: ((Npos (XO (XO (XO
    XH)))) :: ((Npos (XO (XO (XO XH)))) :: ((Npos (XO (XO (XO
    XH)))) :: ((Npos (XO (XO (XO XH)))) :: ((Npos (XO (XO (XO
    XH)))) :: ((Npos (XO (XO (XO XH)))) :: ((Npos (XO (XO (XO
    XH)))) :: ((Npos (XO (XO (XO XH)))) :: ((Npos (XO (XO (XO
    XH)))) :: ((Npos (XO (XO (XO XH)))) :: ((Npos (XO (XO (XO
    XH)))) :: ((Npos (XO (XO (XO XH)))) :: ((Npos (XO (XO (XO
    XH)))) :: ((Npos (XO (XO (XO XH)))) :: ((Npos (XO (XO (XO
    XH)))) :: ((Npos (XO (XO (XO XH)))) :: ((Npos (XO (XO (XO
    XH)))) :: ((Npos (XO (XO (XO XH)))) :: ((Npos (XO (XO (XO
    XH)))) :: ((Npos (XO (XO (XO XH)))) :: ((Npos (XO (XO (XO
    XH)))) :: ((Npos (XO (XO (XO XH)))) :: ((Npos (XO (XO (XO
    XH)))) :: ((Npos (XO (XO (XO XH)))) :: ((Npos (XI (XI XH))) :: ((Npos (XO
    (XO (XO XH)))) :: ((Npos (XO (XO (XO XH)))) :: ((Npos (XO (XO (XO
    XH)))) :: ((Npos (XO (XO (XO XH)))) :: ((Npos (XO (XO (XO
    XH)))) :: ((Npos (XO (XO (XO XH)))) :: ((Npos (XO (XO (XO
    XH)))) :: ((Npos (XO (XO (XO XH)))) :: ((Npos (XO (XO (XO
    XH)))) :: ((Npos (XO (XO (XO XH)))) :: ((Npos (XO (XO (XO
    XH)))) :: ((Npos (XO (XO (XO XH)))) :: ((Npos (XO (XO (XO
    XH)))) :: ((Npos (XO (XO (XO XH)))) :: ((Npos (XO (XO (XO
    XH)))) :: ((Npos (XO (XO (XO XH)))) :: ((Npos (XO (XO (XO
    XH)))) :: ((Npos (XO (XO (XO XH)))) :: ((Npos (XO (XO (XO
    XH)))) :: ((Npos (XO (XO (XO XH)))) :: ((Npos (XO (XO (XO
    XH)))) :: ((Npos (XO (XO (XO XH)))) :: ((Npos (XO (XO (XO
    XH)))) :: ((Npos (XO (XO (XO XH)))) :: ((Npos (XO (XO (XO
    XH)))) :: ((Npos (XO (XO (XO XH)))) :: ((Npos (XO (XO (XO
    XH)))) :: ((Npos (XO (XO (XO XH)))) :: ((Npos (XO (XO (XO
    XH)))) :: ((Npos (XO (XO (XO XH)))) :: ((Npos (XO (XO (XO
    XH)))) :: ((Npos (XI (XI XH))) :: ((Npos (XO (XO (XO XH)))) :: ((Npos (XO
    (XO (XO XH)))) :: ((Npos (XO (XO (XO XH)))) :: ((Npos (XO (XO (XO
    XH)))) :: ((Npos (XO (XO (XO XH)))) :: ((Npos (XO (XO (XO
    XH)))) :: ((Npos (XO (XO (XO XH)))) :: ((Npos (XO (XO (XO
    XH)))) :: ((Npos (XO (XO (XO XH)))) :: ((Npos (XO (XO (XO
    XH)))) :: ((Npos (XO (XO (XO XH)))) :: ((Npos (XO (XO (XO
    XH)))) :: ((Npos (XO (XO (XO XH)))) :: ((Npos (XO (XO (XO
    XH)))) :: ((Npos (XO (XO (XO XH)))) :: ((Npos (XI (XI XH))) :: ((Npos (XO
    (XO (XO XH)))) :: ((Npos (XO (XO (XO XH)))) :: ((Npos (XO (XO (XO
    XH)))) :: ((Npos (XO (XO (XO XH)))) :: ((Npos (XO (XO (XO
    XH)))) :: ((Npos (XO (XO (XO XH)))) :: ((Npos (XO (XO (XO
    XH)))) :: ((Npos (XI (XI XH))) :: ((Npos (XO (XO (XO XH)))) :: ((Npos (XO
    (XO (XO XH)))) :: ((Npos (XO (XO (XO XH)))) :: ((Npos (XI (XI
    XH))) :: ((Npos (XO (XO (XO XH)))) :: ((Npos (XI (XI XH))) :: ((Npos (XI
    (XI XH))) :: ((Npos (XO (XI XH))) :: ((Npos (XO (XO (XO XH)))) :: ((Npos
    (XO (XO (XO XH)))) :: ((Npos (XO (XO (XO XH)))) :: ((Npos (XO (XO (XO
    XH)))) :: ((Npos (XO (XO (XO XH)))) :: ((Npos (XO (XO (XO
    XH)))) :: ((Npos (XO (XO (XO XH)))) :: ((Npos (XO (XO (XO
    XH)))) :: ((Npos (XO (XO (XO XH)))) :: ((Npos (XO (XO (XO
    XH)))) :: ((Npos (XO (XO (XO XH)))) :: ((Npos (XO (XO (XO
    XH)))) :: ((Npos (XO (XO (XO XH)))) :: ((Npos (XO (XO (XO
    XH)))) :: ((Npos (XO (XO (XO XH)))) :: ((Npos (XO (XO (XO
    XH)))) :: ((Npos (XO (XO (XO XH)))) :: ((Npos (XO (XO (XO
    XH)))) :: ((Npos (XO (XO (XO XH)))) :: ((Npos (XO (XO (XO
    XH)))) :: ((Npos (XO (XO (XO XH)))) :: ((Npos (XO (XO (XO
    XH)))) :: ((Npos (XO (XO (XO XH)))) :: ((Npos (XO (XO (XO
    XH)))) :: ((Npos (XO (XO (XO XH)))) :: ((Npos (XO (XO (XO
    XH)))) :: ((Npos (XO (XO (XO XH)))) :: ((Npos (XO (XO (XO
    XH)))) :: ((Npos (XO (XO (XO XH)))) :: ((Npos (XO (XO (XO
    XH)))) :: ((Npos (XO (XO (XO XH)))) :: ((Npos (XO (XO (XO
    XH)))) :: ((Npos (XO (XO (XO XH)))) :: ((Npos (XO (XO (XO
    XH)))) :: ((Npos (XO (XO (XO XH)))) :: ((Npos (XO (XO (XO
    XH)))) :: ((Npos (XO (XO (XO XH)))) :: ((Npos (XO (XO (XO
    XH)))) :: ((Npos (XO (XO (XO XH)))) :: ((Npos (XO (XO (XO
    XH)))) :: ((Npos (XO (XO (XO XH)))) :: ((Npos (XO (XO (XO
    XH)))) :: ((Npos (XO (XO (XO XH)))) :: ((Npos (XO (XO (XO
    XH)))) :: ((Npos (XO (XO (XO XH)))) :: ((Npos (XO (XO (XO
    XH)))) :: ((Npos (XO (XO (XO XH)))) :: ((Npos (XO (XO (XO
    XH)))) :: ((Npos (XO (XO (XO XH)))) :: ((Npos (XO (XO (XO
    XH)))) :: ((Npos (XO (XO (XO XH)))) :: ((Npos (XO (XO (XO
    XH)))) :: ((Npos (XO (XO (XO XH)))) :: ((Npos (XO (XO (XO
    XH)))) :: ((Npos (XO (XO (XO XH)))) :: ((Npos (XO (XO (XO
    XH)))) :: ((Npos (XO (XO (XO XH)))) :: ((Npos (XO (XO (XO
    XH)))) :: ((Npos (XO (XO (XO XH)))) :: ((Npos (XO (XO (XO
    XH)))) :: ((Npos (XO (XO (XO XH)))) :: ((Npos (XO (XO (XO
    XH)))) :: ((Npos (XO (XO (XO XH)))) :: ((Npos (XO (XO (XO
    XH)))) :: ((Npos (XO (XO (XO XH)))) :: ((Npos (XO (XO (XO
    XH)))) :: ((Npos (XO (XO (XO XH)))) :: ((Npos (XO (XO (XO
    XH)))) :: ((Npos (XO (XO (XO XH)))) :: ((Npos (XO (XO (XO
    XH)))) :: ((Npos (XO (XO (XO XH)))) :: ((Npos (XO (XO (XO
    XH)))) :: ((Npos (XO (XO (XO XH)))) :: ((Npos (XO (XO (XO
    XH)))) :: ((Npos (XO (XO (XO XH)))) :: ((Npos (XO (XO (XO
    XH)))) :: ((Npos (XO (XO (XO XH)))) :: ((Npos (XO (XO (XO
    XH)))) :: ((Npos (XO (XO (XO XH)))) :: ((Npos (XO (XO (XO
    XH)))) :: ((Npos (XO (XO (XO XH)))) :: ((Npos (XO (XO (XO
    XH)))) :: ((Npos (XO (XO (XO XH)))) :: ((Npos (XO (XO (XO
    XH)))) :: ((Npos (XO (XO (XO XH)))) :: ((Npos (XO (XO (XO
    XH)))) :: ((Npos (XO (XO (XO XH)))) :: ((Npos (XO (XO (XO
    XH)))) :: ((Npos (XO (XO (XO XH)))) :: ((Npos (XO (XO (XO
    XH)))) :: ((Npos (XO (XO (XO XH)))) :: ((Npos (XO (XO (XO
    XH)))) :: ((Npos (XO (XO (XO XH)))) :: ((Npos (XO (XO (XO
    XH)))) :: ((Npos (XO (XO (XO XH)))) :: ((Npos (XO (XO (XO
    XH)))) :: ((Npos (XO (XO (XO XH)))) :: ((Npos (XO (XO (XO
    XH)))) :: ((Npos (XO (XO (XO XH)))) :: ((Npos (XO (XO (XO
    XH)))) :: ((Npos (XO (XO (XO XH)))) :: ((Npos (XO (XO (XO
    XH)))) :: ((Npos (XO (XO (XO XH)))) :: ((Npos (XO (XO (XO
    XH)))) :: ((Npos (XO (XO (XO XH)))) :: ((Npos (XO (XO (XO
    XH)))) :: ((Npos (XO (XO (XO XH)))) :: ((Npos (XO (XO (XO
    XH)))) :: ((Npos (XO (XO (XO XH)))) :: ((Npos (XO (XO (XO
    XH)))) :: ((Npos (XO (XO (XO XH)))) :: ((Npos (XO (XO (XO
    XH)))) :: ((Npos (XO (XO (XO XH)))) :: ((Npos (XO (XO (XO
    XH)))) :: ((Npos (XO (XO (XO XH)))) :: ((Npos (XO (XO (XO
    XH)))) :: ((Npos (XO (XO (XO XH)))) :: ((Npos (XO (XO (XO
    XH)))) :: ((Npos (XO (XO (XO XH)))) :: ((Npos (XO (XO (XO
    XH)))) :: ((Npos (XO (XO (XO XH)))) :: ((Npos (XO (XO (XO
    XH)))) :: ((Npos (XO (XO (XO XH)))) :: ((Npos (XO (XO (XO
    XH)))) :: ((Npos (XO (XO (XO XH)))) :: ((Npos (XO (XO (XO
    XH)))) :: ((Npos (XO (XO (XO XH)))) :: ((Npos (XO (XO (XO
    XH)))) :: ((Npos (XO (XO (XO XH)))) :: ((Npos (XO (XO (XO
    XH)))) :: ((Npos (XO (XO (XO XH)))) :: ((Npos (XO (XO (XO
    XH)))) :: ((Npos (XO (XO (XO XH)))) :: ((Npos (XO (XO (XO
    XH)))) :: ((Npos (XO (XO (XO XH)))) :: ((Npos (XO (XO (XO
    XH)))) :: ((Npos (XO (XO (XO XH)))) :: ((Npos (XO (XO (XO
    XH)))) :: ((Npos (XO (XO (XO XH)))) :: ((Npos (XO (XO (XO
    XH)))) :: ((Npos (XO (XO (XO XH)))) :: ((Npos (XO (XO (XO
    XH)))) :: ((Npos (XO (XO (XO XH)))) :: ((Npos (XO (XO (XO
    XH)))) :: ((Npos (XO (XO (XO XH)))) :: ((Npos (XO (XO (XO
    XH)))) :: ((Npos (XO (XO (XO XH)))) :: ((Npos (XO (XO (XO
    XH)))) :: ((Npos (XO (XO (XO XH)))) :: ((Npos (XO (XO (XO
    XH)))) :: ((Npos (XO (XO (XO XH)))) :: ((Npos (XO (XO (XO
    XH)))) :: ((Npos (XO (XO (XO XH)))) :: ((Npos (XO (XO (XO
    XH)))) :: ((Npos (XO (XO (XO XH)))) :: ((Npos (XO (XO (XO
    XH)))) :: ((Npos (XO (XO (XO XH)))) :: ((Npos (XO (XO (XO
    XH)))) :: ((Npos (XO (XO (XO XH)))) :: ((Npos (XO (XO (XO
    XH)))) :: ((Npos (XO (XO (XO XH)))) :: ((Npos (XO (XO (XO
    XH)))) :: ((Npos (XO (XO (XO XH)))) :: ((Npos (XO (XO (XO
    XH)))) :: ((Npos (XO (XO (XO XH)))) :: ((Npos (XO (XO (XO
    XH)))) :: ((Npos (XO (XO (XO XH)))) :: ((Npos (XO (XO (XO
    XH)))) :: ((Npos (XO (XO (XO XH)))) :: ((Npos (XO (XO (XO
    XH)))) :: ((Npos (XO (XO (XO XH)))) :: ((Npos (XO (XO (XO
    XH)))) :: ((Npos (XO (XO (XO XH)))) :: ((Npos (XO (XO (XO
    XH)))) :: ((Npos (XO (XO (XO XH)))) :: ((Npos (XO (XO (XO
    XH)))) :: ((Npos (XO (XO (XO XH)))) :: ((Npos (XO (XO (XO
    XH)))) :: ((Npos (XO (XO (XO XH)))) :: ((Npos (XO (XO (XO
    XH)))) :: ((Npos (XO (XO (XO XH)))) :: ((Npos (XO (XO (XO
    XH)))) :: ((Npos (XO (XO (XO XH)))) :: ((Npos (XO (XO (XO
    XH)))) :: ((Npos (XO (XO (XO XH)))) :: ((Npos (XO (XO (XO
    XH)))) :: ((Npos (XO (XO (XO XH)))) :: ((Npos (XO (XO (XO
    XH)))) :: ((Npos (XO (XO (XO XH)))) :: ((Npos (XO (XO (XO
    XH)))) :: ((Npos (XO (XO (XO XH)))) :: ((Npos (XO (XO (XO
    XH)))) :: ((Npos (XO (XO (XO XH)))) :: ((Npos (XO (XO (XO
    XH)))) :: ((Npos (XO (XO (XO XH)))) :: ((Npos (XO (XO (XO
    XH)))) :: ((Npos (XO (XO (XO XH)))) :: ((Npos (XO (XO (XO
    XH)))) :: ((Npos (XO (XO (XO XH)))) :: ((Npos (XO (XO (XO
    XH)))) :: ((Npos (XO (XO (XO XH)))) :: ((Npos (XO (XO (XO
    XH)))) :: ((Npos (XO (XO (XO XH)))) :: ((Npos (XO (XO (XO
    XH)))) :: ((Npos (XO (XO (XO XH)))) :: ((Npos (XO (XO (XO
    XH)))) :: ((Npos (XO (XO (XO XH)))) :: ((Npos (XO (XO (XO
    XH)))) :: ((Npos (XO (XO (XO XH)))) :: ((Npos (XO (XO (XO
    XH)))) :: ((Npos (XO (XO (XO XH)))) :: ((Npos (XO (XO (XO
    XH)))) :: ((Npos (XO (XO (XO XH)))) :: ((Npos (XO (XO (XO
    XH)))) :: ((Npos (XO (XO (XO XH)))) :: ((Npos (XO (XO (XO
    XH)))) :: ((Npos (XO (XO (XO XH)))) :: ((Npos (XO (XO (XO
    XH)))) :: ((Npos (XO (XO (XO XH)))) :: ((Npos (XO (XO (XO
    XH)))) :: ((Npos (XO (XO (XO XH)))) :: ((Npos (XO (XO (XO
    XH)))) :: ((Npos (XO (XO (XO XH)))) :: ((Npos (XO (XO (XO
    XH)))) :: ((Npos (XO (XO (XO XH)))) :: ((Npos (XO (XO (XO
    XH)))) :: ((Npos (XO (XO (XO XH)))) :: ((Npos (XO (XO (XO
    XH)))) :: ((Npos (XO (XO (XO XH)))) :: ((Npos (XO (XO (XO
    XH)))) :: ((Npos (XO (XO (XO XH)))) :: ((Npos (XO (XO (XO
    XH)))) :: ((Npos (XO (XO (XO XH)))) :: ((Npos (XO (XO (XO
    XH)))) :: ((Npos (XO (XO (XO XH)))) :: ((Npos (XO (XO (XO
    XH)))) :: ((Npos (XO (XO (XO XH)))) :: ((Npos (XO (XO (XO
    XH)))) :: ((Npos (XO (XO (XO XH)))) :: ((Npos (XO (XO (XO
    XH)))) :: ((Npos (XO (XO (XO XH)))) :: ((Npos (XO (XO (XO
    XH)))) :: ((Npos (XO (XO (XO XH)))) :: ((Npos (XO (XO (XO
    XH)))) :: ((Npos (XO (XO (XO XH)))) :: ((Npos (XO (XO (XO
    XH)))) :: ((Npos (XO (XO (XO XH)))) :: ((Npos (XO (XO (XO
    XH)))) :: ((Npos (XO (XO (XO XH)))) :: ((Npos (XO (XO (XO
    XH)))) :: ((Npos (XO (XO (XO XH)))) :: ((Npos (XO (XO (XO
    XH)))) :: ((Npos (XO (XO (XO XH)))) :: ((Npos (XO (XO (XO
    XH)))) :: ((Npos (XO (XO (XO XH)))) :: ((Npos (XI (XI
    XH))) :: [])))))))))))))))))))))))))))))))))))))))))))))))))))))))))))))))))))))))))))))))))))))))))))))))))))))))))))))))))))))))))))))))))))))))))))))))))))))))))))))))))))))))))))))))))))))))))))))))))))))))))))))))))))))))))))))))))))))))))))))))))))))))))))))))))))))))))))))))))))))))))))))))))))))))))))))))))))))))))))))))))))))))))))))))))))))))))))))))))))))))))))))))))))))))))))))))))))))))))))))))))))))))))))))))))))))))))))))))))))))))))))))))))))))))))))))))))))))))))))))))))))))))))))))))))))))))))))))))))))))))))))))))))))))))))))))))))))))))))))))))))))))))))))))))))))))))))))))))))))))))))))))))))))))))))))))))))))))))))))))))))))))))))))))))))))))))))))))))))))))))))))))))))))))))))))))))))))))))))))))))))))))))))))))))))))))))))))))))))))))))))))))))))))))))))))))))))))))))))))))))))))))))))))))))))))))))))))))))))))))))))))))))))))))))))))))))))))))))))))))))))))))))))))))))))))))))))))))))))))))))))))))))))))))))))))))))))))))))))))))))))))))))))))))))))))))))))))))))))))))))))))))))))))))))))))))))))))))))))))))))))))))))))))))))))))))))))))))))))))))))))))))))))))))))))))))))))))))))))))))))))))))))))))))))))))))))))))))))))))))))))))))))))))))))))))))))))))))))))))))))))))))))))))))))))))))))))))))))))))))))))))))))))))))))))))))))))))))))))))))))))))))))))))))))))))))))))))))))))))))))))))))))))))))))))))))))))))))))))))))))))))))))))))))))))))))))))))))))))))))))))))))))))))))))))))))))))))))))))))))))))))))))))))))))))))))))))))))))))))))))))))))))))))))))))))))))))))))))))))))))))))))))))))))))))))))))))))))))))))))))))))))))))))))))))))))))))))))))))))))))))))))))))))))))))))))))))))))))))))))))))))))))))))))))))))))))))))))))))))))))))))))))))))))))))))))))))))))))))))))))))))))))))))))))))))))))))))))))))))))))))))))))))))))))))))))))))))))))))))))))))))))))))))))))))))))))))))))))))))))))))))))))))))))))))))))))))))))))))))))))))))))))))))))))))))))))))))))))))))))))))))))))))))))))))))))))))))))))))))))))))))))))))))))))))))))))))))))))))))))))))))))))))))))))))))))))))))))))))))))))))))))))

(** val dEBRUIJN64_MAPPING : n list **)

let dEBRUIJN64_MAPPING =
  (Npos (XI (XI (XI (XI (XI XH)))))) :: (N0 :: ((Npos (XO (XI (XO (XI (XI
    XH)))))) :: ((Npos XH) :: ((Npos (XI (XI (XO (XI (XI XH)))))) :: ((Npos
    (XI (XI (XI (XI (XO XH)))))) :: ((Npos (XI (XO (XI (XO (XI
    XH)))))) :: ((Npos (XO XH)) :: ((Npos (XO (XO (XI (XI (XI
    XH)))))) :: ((Npos (XI (XI (XI (XO (XO XH)))))) :: ((Npos (XO (XO (XO (XO
    (XI XH)))))) :: ((Npos (XI (XI (XO (XI XH))))) :: ((Npos (XO (XI (XI (XO
    (XI XH)))))) :: ((Npos (XI (XO (XO (XO (XO XH)))))) :: ((Npos (XO (XI (XO
    (XI (XO XH)))))) :: ((Npos (XI XH)) :: ((Npos (XI (XO (XI (XI (XI
    XH)))))) :: ((Npos (XI (XI (XO (XO (XI XH)))))) :: ((Npos (XI (XO (XI (XO
    (XO XH)))))) :: ((Npos (XO (XO (XO (XI (XO XH)))))) :: ((Npos (XI (XO (XO
    (XO (XI XH)))))) :: ((Npos (XO (XI (XO (XO XH))))) :: ((Npos (XO (XO (XI
    (XI XH))))) :: ((Npos (XO (XO (XI (XO XH))))) :: ((Npos (XI (XI (XI (XO
    (XI XH)))))) :: ((Npos (XO (XI (XI (XI XH))))) :: ((Npos (XO (XI (XO (XO
    (XO XH)))))) :: ((Npos (XI (XI (XO XH)))) :: ((Npos (XI (XI (XO (XI (XO
    XH)))))) :: ((Npos (XO (XI (XI XH)))) :: ((Npos (XO (XI (XI (XO
    XH))))) :: ((Npos (XO (XO XH))) :: ((Npos (XO (XI (XI (XI (XI
    XH)))))) :: ((Npos (XI (XO (XO (XI (XI XH)))))) :: ((Npos (XO (XI (XI (XI
    (XO XH)))))) :: ((Npos (XO (XO (XI (XO (XI XH)))))) :: ((Npos (XO (XI (XI
    (XO (XO XH)))))) :: ((Npos (XO (XI (XO (XI XH))))) :: ((Npos (XO (XO (XO
    (XO (XO XH)))))) :: ((Npos (XI (XO (XO (XI (XO XH)))))) :: ((Npos (XO (XI
    (XO (XO (XI XH)))))) :: ((Npos (XO (XO (XI (XO (XO XH)))))) :: ((Npos (XI
    (XO (XO (XO XH))))) :: ((Npos (XI (XI (XO (XO XH))))) :: ((Npos (XI (XO
    (XI (XI XH))))) :: ((Npos (XO (XI (XO XH)))) :: ((Npos (XI (XO (XI
    XH)))) :: ((Npos (XI (XO (XI (XO XH))))) :: ((Npos (XO (XO (XO (XI (XI
    XH)))))) :: ((Npos (XI (XO (XI (XI (XO XH)))))) :: ((Npos (XI (XO (XO (XI
    XH))))) :: ((Npos (XI (XI (XI (XI XH))))) :: ((Npos (XI (XI (XO (XO (XO
    XH)))))) :: ((Npos (XO (XO (XO (XO XH))))) :: ((Npos (XI (XO (XO
    XH)))) :: ((Npos (XO (XO (XI XH)))) :: ((Npos (XO (XO (XI (XI (XO
    XH)))))) :: ((Npos (XO (XO (XO (XI XH))))) :: ((Npos (XI (XI (XI
    XH)))) :: ((Npos (XO (XO (XO XH)))) :: ((Npos (XI (XI (XI (XO
    XH))))) :: ((Npos (XI (XI XH))) :: ((Npos (XO (XI XH))) :: ((Npos (XI (XO
    XH))) :: [])))))))))))))))))))))))))))))))))))))))))))))))))))))))))))))))

(** val intrinsics_popcount : cfg -> n -> n res **)

let intrinsics_popcount _ x =
  Ok (popcN x)

(** val intrinsics_bsf64 : cfg -> n -> n option res **)

let intrinsics_bsf64 _ mask0 =
  if negb (N.eqb mask0 N0) then Ok (Some (ctz64 mask0)) else Ok None

(** val intrinsics_bsr64 : cfg -> n -> n option res **)

let intrinsics_bsr64 c mask0 =
  if negb (N.eqb mask0 N0)
  then bind (sub0 c (Npos (XI (XI (XI (XI (XI XH)))))) (clz64 mask0))
         (fun t1 -> Ok (Some t1))
  else Ok None

(** val byte_counts : cfg -> n -> n res **)

let byte_counts c x =
  bind (mul0 c (Npos (XO (XI (XO XH)))) oNES_STEP_4) (fun t1 ->
    bind (shr c (N.coq_land x t1) (Npos XH)) (fun t2 ->
      bind (sub0 c x t2) (fun t3 ->
        bind (mul0 c (Npos (XI XH)) oNES_STEP_4) (fun t4 ->
          bind (shr c t3 (Npos (XO XH))) (fun t5 ->
            bind (mul0 c (Npos (XI XH)) oNES_STEP_4) (fun t6 ->
              bind (add0 c (N.coq_land t3 t4) (N.coq_land t5 t6)) (fun t7 ->
                bind (shr c t7 (Npos (XO (XO XH)))) (fun t8 ->
                  bind (add0 c t7 t8) (fun t9 ->
                    bind (mul0 c (Npos (XI (XI (XI XH)))) oNES_STEP_8)
                      (fun t10 -> Ok (N.coq_land t9 t10)))))))))))

(** val bytes_sum : cfg -> n -> n res **)

let bytes_sum c x =
  bind (shr c (wmul oNES_STEP_8 x) (Npos (XO (XO (XO (XI (XI XH)))))))
    (fun t1 -> Ok t1)

(** val popcount : cfg -> n -> n res **)

let popcount c x =
  if c.intr
  then bind (intrinsics_popcount c x) (fun t1 -> Ok t1)
  else bind (byte_counts c x) (fun t2 ->
         bind (bytes_sum c t2) (fun t3 -> Ok t3))

(** val select_in_word : cfg -> n -> n -> n option res **)

let select_in_word c x k =
  bind (popcount c x) (fun t1 ->
    if N.leb t1 k
    then Ok None
    else bind (byte_counts c x) (fun t2 ->
           let byte_sums = wmul oNES_STEP_8 t2 in
           bind (mul0 c k oNES_STEP_8) (fun t3 ->
             bind (sub0 c (N.coq_lor t3 mSBS_STEP_8) byte_sums) (fun t4 ->
               let geq_k_step_8 = N.coq_land t4 mSBS_STEP_8 in
               bind
                 (if c.intr
                  then bind (popcount c geq_k_step_8) (fun t6 ->
                         bind (mul0 c t6 (Npos (XO (XO (XO XH))))) (fun t7 ->
                           Ok t7))
                  else bind (shr c geq_k_step_8 (Npos (XI (XI XH))))
                         (fun t8 ->
                         bind
                           (shr c (wmul t8 oNES_STEP_8) (Npos (XI (XO (XI (XO
                             (XI XH))))))) (fun t9 -> Ok
                           (N.coq_land t9 (not64 (Npos (XI (XI XH))))))))
                 (fun t5 ->
                 bind (shl c byte_sums (Npos (XO (XO (XO XH))))) (fun t10 ->
                   bind (shr c t10 t5) (fun t11 ->
                     bind
                       (sub0 c k
                         (N.coq_land t11 (Npos (XI (XI (XI (XI (XI (XI (XI
                           XH)))))))))) (fun t12 ->
                       bind (shr c x t5) (fun t13 ->
                         bind (shl c t12 (Npos (XO (XO (XO XH)))))
                           (fun t14 ->
                           bind
                             (idx N0 sELECT_IN_BYTE
                               (N.coq_lor
                                 (N.coq_land t13 (Npos (XI (XI (XI (XI (XI
                                   (XI (XI XH))))))))) t14)) (fun t15 ->
                             bind (add0 c t5 t15) (fun t16 -> Ok (Some t16)))))))))))))

(** val bit_position : cfg -> n -> n res **)

let bit_position c x =
  bind (popcount c x) (fun t1 ->
    bind (dassert c (N.eqb t1 (Npos XH))) (fun _ ->
      bind (shr c (wmul dEBRUIJN64 x) (Npos (XO (XI (XO (XI (XI XH)))))))
        (fun t2 -> bind (idx N0 dEBRUIJN64_MAPPING t2) (fun t3 -> Ok t3))))

(** val lsb : cfg -> n -> n option res **)

let lsb c x =
  if c.intr
  then bind (intrinsics_bsf64 c x) (fun t1 -> Ok t1)
  else if N.eqb x N0
       then Ok None
       else bind (bit_position c (N.coq_land x (wmul mASK64 x))) (fun t2 ->
              Ok (Some t2))

(** val msb : cfg -> n -> n option res **)

let msb c x =
  if c.intr
  then bind (intrinsics_bsr64 c x) (fun t1 -> Ok t1)
  else if N.eqb x N0
       then Ok None
       else bind (shr c x (Npos XH)) (fun t2 ->
              let x0 = N.coq_lor x t2 in
              bind (shr c x0 (Npos (XO XH))) (fun t3 ->
                let x1 = N.coq_lor x0 t3 in
                bind (shr c x1 (Npos (XO (XO XH)))) (fun t4 ->
                  let x2 = N.coq_lor x1 t4 in
                  bind (shr c x2 (Npos (XO (XO (XO XH))))) (fun t5 ->
                    let x3 = N.coq_lor x2 t5 in
                    bind (shr c x3 (Npos (XO (XO (XO (XO XH)))))) (fun t6 ->
                      let x4 = N.coq_lor x3 t6 in
                      bind (shr c x4 (Npos (XO (XO (XO (XO (XO XH)))))))
                        (fun t7 ->
                        let x5 = N.coq_lor x4 t7 in
                        bind (shr c x5 (Npos XH)) (fun t8 ->
                          let x6 = N.coq_lxor x5 t8 in
                          bind (bit_position c x6) (fun t9 -> Ok (Some t9)))))))))

(** val ty_BitVector : ty **)

let ty_BitVector =
  TStruct ((TVec TU64) :: (TU64 :: []))

(** val ty_Rank9SelIndex : ty **)

let ty_Rank9SelIndex =
  TStruct (TU64 :: ((TVec TU64) :: ((TOpt (TVec TU64)) :: ((TOpt (TVec
    TU64)) :: []))))

(** val ty_Rank9Sel : ty **)

let ty_Rank9Sel =
  TStruct (ty_BitVector :: (ty_Rank9SelIndex :: []))

(** val ty_DArrayIndex : ty **)

let ty_DArrayIndex =
  TStruct ((TVec TI64) :: ((TVec TU16) :: ((TVec
    TU64) :: (TU64 :: (TBool :: [])))))

(** val ty_DArray : ty **)

let ty_DArray =
  TStruct (ty_BitVector :: (ty_DArrayIndex :: ((TOpt
    ty_DArrayIndex) :: ((TOpt ty_Rank9SelIndex) :: []))))

(** val ty_EliasFano : ty **)

let ty_EliasFano =
  TStruct (ty_DArray :: (ty_BitVector :: (TU64 :: (TU64 :: []))))

(** val ty_SArray : ty **)

let ty_SArray =
  TStruct ((TOpt ty_EliasFano) :: (TU64 :: (TU64 :: (TBool :: []))))

(** val ty_CompactVector : ty **)

let ty_CompactVector =
  TStruct (ty_BitVector :: (TU64 :: (TU64 :: [])))

(** val ty_DacsByte : ty **)

let ty_DacsByte =
  TStruct ((TVec (TVec TU8)) :: ((TVec ty_Rank9Sel) :: []))

(** val ty_DacsOpt : ty **)

let ty_DacsOpt =
  TStruct ((TVec ty_CompactVector) :: ((TVec ty_Rank9Sel) :: []))

(** val ty_PrefixSummedEliasFano : ty **)

let ty_PrefixSummedEliasFano =
  TStruct (ty_EliasFano :: [])

(** val ty_WaveletMatrix_Rank9Sel : ty **)

let ty_WaveletMatrix_Rank9Sel =
  TStruct ((TVec ty_Rank9Sel) :: (TU64 :: []))

(** val ty_WaveletMatrix_DArray : ty **)

let ty_WaveletMatrix_DArray =
  TStruct ((TVec ty_DArray) :: (TU64 :: []))

(** val ty_WaveletMatrix_BitVector : ty **)

let ty_WaveletMatrix_BitVector =
  TStruct ((TVec ty_BitVector) :: (TU64 :: []))

type rv =
| RNone
| RNum of n
| RBool of bool
| RErr
| RPanic
| ROk
| RNums of n list
| RBytes of n list

type sres =
| SExact of rv
| SPred of (rv -> bool)
| SAny

(** val rv_on : ('a1 -> rv) -> 'a1 option res -> rv **)

let rv_on f = function
| Ok a0 -> (match a0 with
            | Some a -> f a
            | None -> RNone)
| Panic -> RPanic

(** val rv_optnum : n option res -> rv **)

let rv_optnum =
  rv_on (fun x -> RNum x)

(** val rv_optbool : bool option res -> rv **)

let rv_optbool =
  rv_on (fun x -> RBool x)

(** val rv_num : n res -> rv **)

let rv_num = function
| Ok n0 -> RNum n0
| Panic -> RPanic

(** val sp_on : ('a1 -> rv) -> 'a1 option -> sres **)

let sp_on f o =
  SExact (match o with
          | Some a -> f a
          | None -> RNone)

(** val sp_optnum : n option -> sres **)

let sp_optnum =
  sp_on (fun x -> RNum x)

(** val sp_optbool : bool option -> sres **)

let sp_optbool =
  sp_on (fun x -> RBool x)

(** val arg : n list -> nat -> n **)

let arg args i =
  nth i args N0

(** val nz : n -> bool **)

let nz n0 =
  negb (N.eqb n0 N0)

(** val bits_of_words : n list -> n -> bool list **)

let bits_of_words ws len =
  firstn (N.to_nat len) (flat_map word_bits ws)

(** val bools : n list -> bool list **)

let bools l =
  map nz l

type dstate =
| DNone
| DBitVec of bitvec * bool list * uiter * n * n
| DR9 of r9sel * bool list
| DDA of darray * bool list
| DSA of sarray * bool list
| DEFB of efbuilder * n * n * n list
| DEF of eliasfano * n * n list * efiter * n list
| DCV of compvec * n list * n
| DDO of dacsopt * n list * n * n
| DDB of dacsbyte * n list * n
| DPS of psef * n list * n
| DWM of wavelet * bkind * n list * n
| DBroad
| DWrap
| DBig of bitvec * bool
| DSer of dstate * ty * val0 * n list * n

(** val st_val : dstate -> (ty * val0) option **)

let st_val = function
| DBitVec (m, _, _, _, _) -> Some (ty_BitVector, (v_bitvec m))
| DR9 (m, _) -> Some (ty_Rank9Sel, (v_r9sel m))
| DDA (m, _) -> Some (ty_DArray, (v_darray m))
| DSA (m, _) -> Some (ty_SArray, (v_sarray m))
| DEF (m, _, _, _, _) -> Some (ty_EliasFano, (v_ef m))
| DCV (m, _, _) -> Some (ty_CompactVector, (v_compvec m))
| DDO (m, _, _, _) -> Some (ty_DacsOpt, (v_dacsopt m))
| DDB (m, _, _) -> Some (ty_DacsByte, (v_dacsbyte m))
| DPS (m, _, _) -> Some (ty_PrefixSummedEliasFano, (v_psef m))
| DWM (m, k, _, _) ->
  (match k with
   | KRank9 -> Some (ty_WaveletMatrix_Rank9Sel, (v_wavelet m))
   | KDArray -> Some (ty_WaveletMatrix_DArray, (v_wavelet m))
   | KBitVec -> Some (ty_WaveletMatrix_BitVector, (v_wavelet m)))
| DBig (m, _) -> Some (ty_BitVector, (v_bitvec m))
| _ -> None

(** val val_eqb : val0 -> val0 -> bool **)

let rec val_eqb a b =
  match a with
  | VNum x -> (match b with
               | VNum y -> N.eqb x y
               | _ -> false)
  | VInt x -> (match b with
               | VInt y -> Z.eqb x y
               | _ -> false)
  | VBool x -> (match b with
                | VBool y -> eqb x y
                | _ -> false)
  | VVec l ->
    (match b with
     | VVec m ->
       let rec go l0 m0 =
         match l0 with
         | [] -> (match m0 with
                  | [] -> true
                  | _ :: _ -> false)
         | x :: l' ->
           (match m0 with
            | [] -> false
            | y :: m' -> (&&) (val_eqb x y) (go l' m'))
       in go l m
     | _ -> false)
  | VOpt o ->
    (match o with
     | Some x ->
       (match b with
        | VOpt o0 -> (match o0 with
                      | Some y -> val_eqb x y
                      | None -> false)
        | _ -> false)
     | None ->
       (match b with
        | VOpt o0 -> (match o0 with
                      | Some _ -> false
                      | None -> true)
        | _ -> false))
  | VStruct l ->
    (match b with
     | VStruct m ->
       let rec go l0 m0 =
         match l0 with
         | [] -> (match m0 with
                  | [] -> true
                  | _ :: _ -> false)
         | x :: l' ->
           (match m0 with
            | [] -> false
            | y :: m' -> (&&) (val_eqb x y) (go l' m'))
       in go l m
     | _ -> false)

(** val nums_eqb : n list -> n list -> bool **)

let rec nums_eqb a b =
  match a with
  | [] -> (match b with
           | [] -> true
           | _ :: _ -> false)
  | x :: a' ->
    (match b with
     | [] -> false
     | y :: b' -> (&&) (N.eqb x y) (nums_eqb a' b'))

(** val lg_floor_ratio : n -> n -> n **)

let lg_floor_ratio u n0 =
  if N.eqb n0 N0
  then N0
  else (match msb_spec (N.div u n0) with
        | Some l -> l
        | None -> N0)

(** val round64 : n -> n **)

let round64 b =
  N.mul
    (N.div (N.add b (Npos (XI (XI (XI (XI (XI XH))))))) (Npos (XO (XO (XO (XO
      (XO (XO XH)))))))) (Npos (XO (XO (XO (XO (XO (XO XH)))))))

(** val bound_ok : dstate -> n -> bool **)

let bound_ok st bytes =
  let b = N.mul (Npos (XO (XO (XO XH)))) bytes in
  (match st with
   | DBitVec (m, _, _, _, _) ->
     N.leb b
       (N.add (round64 m.bv_len) (Npos (XO (XO (XO (XO (XO (XO (XO (XO
         XH))))))))))
   | DR9 (_, s) ->
     N.leb (N.mul (Npos (XO (XO (XI (XO (XO (XI XH))))))) b)
       (N.add (N.mul (Npos (XO (XO (XI (XO (XO (XO (XO XH)))))))) (lenN s))
         (Npos (XO (XO (XO (XO (XO (XO (XO (XO (XO (XO (XO (XO (XO (XI (XO
         (XO (XI XH)))))))))))))))))))
   | DDA (m, s) ->
     let sel =
       N.add (Npos XH) (match m.da_s0 with
                        | Some _ -> Npos XH
                        | None -> N0)
     in
     let r = match m.da_r9 with
             | Some _ -> Npos XH
             | None -> N0 in
     N.leb (N.mul (Npos (XO (XO (XI (XO (XO (XI XH))))))) b)
       (N.add
         (N.mul (lenN s)
           (N.add
             (N.add (Npos (XO (XO (XI (XO (XO (XI XH)))))))
               (N.mul (Npos (XO (XI (XI (XO (XO (XI XH))))))) sel))
             (N.mul (Npos (XO (XI (XO (XI XH))))) r))) (Npos (XO (XO (XO (XO
         (XO (XO (XO (XO (XO (XO (XO (XO (XO (XO (XI (XO (XO (XI
         XH))))))))))))))))))))
   | DSA (m, s) ->
     let n0 = count true s in
     N.leb b
       (N.add
         (N.add (N.mul n0 (lg_floor_ratio (lenN s) n0))
           (N.mul
             (if m.sa_has_rank
              then Npos (XI (XI (XO XH)))
              else Npos (XI (XI XH))) n0)) (Npos (XO (XO (XO (XO (XO (XO (XO
         (XO (XO (XO (XO (XO (XO XH)))))))))))))))
   | DEF (m, u, xs, _, _) ->
     let n0 =
       N.sub (N.sub (da_num_bits m.ef_high) (Npos (XO XH)))
         (N.shiftr u m.ef_low_len)
     in
     N.leb b
       (N.add
         (N.add (N.mul (lenN xs) m.ef_low_len)
           (N.mul
             (match m.ef_high.da_s0 with
              | Some _ -> Npos (XI (XI (XO XH)))
              | None -> Npos (XI (XI XH))) n0)) (Npos (XO (XO (XO (XO (XO (XO
         (XO (XO (XO (XO (XO (XO (XO XH)))))))))))))))
   | DCV (m, _, _) ->
     N.leb b
       (N.add (round64 (N.mul m.cv_len m.cv_width)) (Npos (XO (XO (XO (XO (XO
         (XO (XO (XO XH))))))))))
   | DDO (m, _, _, _) ->
     let levels =
       combine m.do_data (app (map (fun x -> Some x) m.do_flags) (None :: []))
     in
     let tot =
       fold_left (fun acc lv ->
         let chunk = N.mul (fst lv).cv_len (fst lv).cv_width in
         let flag = match snd lv with
                    | Some f -> r9_num_bits f
                    | None -> N0 in
         N.add
           (N.add acc
             (N.mul (Npos (XO (XO (XI (XO (XO (XO (XO XH))))))))
               (N.add chunk flag))) (Npos (XO (XO (XO (XO (XO (XO (XO (XO (XO
           (XO (XO (XO (XO (XI (XO (XO (XI XH))))))))))))))))))) levels N0
     in
     N.leb (N.mul (Npos (XO (XO (XI (XO (XO (XI XH))))))) b)
       (N.add tot (Npos (XO (XO (XO (XO (XO (XO (XO (XO (XO (XI (XO (XO (XI
         XH)))))))))))))))
   | DDB (m, _, _) ->
     let levels =
       combine m.db_data (app (map (fun x -> Some x) m.db_flags) (None :: []))
     in
     let tot =
       fold_left (fun acc lv ->
         let chunk = N.mul (Npos (XO (XO (XO XH)))) (lenN (fst lv)) in
         let flag = match snd lv with
                    | Some f -> r9_num_bits f
                    | None -> N0 in
         N.add
           (N.add acc
             (N.mul (Npos (XO (XO (XI (XO (XO (XO (XO XH))))))))
               (N.add chunk flag))) (Npos (XO (XO (XO (XO (XO (XO (XO (XO (XO
           (XO (XO (XO (XO (XI (XO (XO (XI XH))))))))))))))))))) levels N0
     in
     N.leb (N.mul (Npos (XO (XO (XI (XO (XO (XI XH))))))) b)
       (N.add tot (Npos (XO (XO (XO (XO (XO (XO (XO (XO (XO (XI (XO (XO (XI
         XH)))))))))))))))
   | DPS (m, xs, _) ->
     let n0 = lenN xs in
     N.leb b
       (N.add
         (N.add (N.mul n0 (ps_ef m).ef_low_len)
           (N.mul (Npos (XI (XI XH))) n0)) (Npos (XO (XO (XO (XO (XO (XO (XO
         (XO (XO (XO (XO (XO (XO XH)))))))))))))))
   | DWM (m, k, xs, _) ->
     (match k with
      | KRank9 ->
        N.leb (N.mul (Npos (XO (XO (XI (XO (XO (XI XH))))))) b)
          (N.add
            (N.mul (wm_alph_width m)
              (N.add
                (N.mul (Npos (XO (XO (XI (XO (XO (XO (XO XH)))))))) (lenN xs))
                (Npos (XO (XO (XO (XO (XO (XO (XO (XO (XO (XO (XO (XO (XO (XI
                (XO (XO (XI XH)))))))))))))))))))) (Npos (XO (XO (XO (XO (XO
            (XO (XO (XO (XO (XI (XO (XO (XI XH)))))))))))))))
      | _ -> true)
   | DBig (m, _) ->
     N.leb b
       (N.add (round64 m.bv_len) (Npos (XO (XO (XO (XO (XO (XO (XO (XO
         XH))))))))))
   | _ -> true)

(** val ser_step :
    dstate -> ty -> val0 -> n list -> n -> n -> n list -> (rv * sres) option **)

let ser_step st t v bytes sz code args =
  if N.eqb code (Npos (XI (XI (XO (XO (XO (XI XH)))))))
  then Some ((RBytes bytes), SAny)
  else if N.eqb code (Npos (XO (XI (XO (XO (XO (XI XH)))))))
       then Some ((RNum sz), (SPred (fun r ->
              match r with
              | RNum b -> bound_ok st b
              | _ -> false)))
       else if N.eqb code (Npos (XI (XO (XO (XO (XO (XI XH)))))))
            then let n0 = arg args O in
                 let r =
                   match deser t (firstn (N.to_nat n0) bytes) with
                   | Some _ -> ROk
                   | None -> RErr
                 in
                 Some (r, (SExact
                 (if N.ltb n0 (lenN bytes) then RErr else ROk)))
            else if N.eqb code (Npos (XO (XO (XO (XO (XO (XI XH)))))))
                 then let n0 = arg args O in
                      let r = if N.ltb n0 sz then RErr else RNum sz in
                      Some (r, (SExact
                      (if N.ltb n0 (lenN bytes)
                       then RErr
                       else RNum (lenN bytes))))
                 else if N.eqb code (Npos (XI (XI (XI (XI (XI (XO XH)))))))
                      then let junk = (Npos XH) :: ((Npos (XO XH)) :: ((Npos
                             (XI XH)) :: []))
                           in
                           let r =
                             match deser t (app bytes junk) with
                             | Some p ->
                               let (v', rest) = p in
                               (&&) (val_eqb v v') (nums_eqb rest junk)
                             | None -> false
                           in
                           Some ((RBool r), (SExact (RBool true)))
                      else if (||)
                                (N.eqb code (Npos (XO (XI (XI (XI (XI (XO
                                  XH))))))))
                                (N.eqb code (Npos (XI (XO (XI (XI (XI (XO
                                  XH))))))))
                           then Some ((RBool true), (SExact (RBool true)))
                           else None

(** val mut_rv : (bitvec * bool) res -> bitvec -> bitvec * rv **)

let mut_rv r old =
  match r with
  | Ok a -> let (b, b0) = a in if b0 then (b, ROk) else (b, RErr)
  | Panic -> (old, RPanic)

(** val bits_n_of : nat -> n -> bool list **)

let rec bits_n_of n0 v =
  match n0 with
  | O -> []
  | S m -> (N.odd v) :: (bits_n_of m (N.div2 v))

(** val overwrite : bool list -> nat -> bool list -> bool list **)

let rec overwrite l pos new0 =
  match pos with
  | O -> app new0 (skipn (length new0) l)
  | S p -> (match l with
            | [] -> []
            | x :: r -> x :: (overwrite r p new0))

(** val step_bitvec :
    cfg -> bitvec -> bool list -> uiter -> n -> n -> n -> n list -> n list
    list -> (dstate * rv) * sres **)

let step_bitvec c m s ui ucur itpos code args data =
  let keep = fun r sp -> (((DBitVec (m, s, ui, ucur, itpos)), r), sp) in
  let d0 = bools (nth O data []) in
  (match code with
   | N0 -> keep RPanic SAny
   | Npos p ->
     (match p with
      | XI p0 ->
        (match p0 with
         | XI p1 ->
           (match p1 with
            | XI p2 ->
              (match p2 with
               | XI p3 ->
                 (match p3 with
                  | XH ->
                    let sp =
                      hd_error
                        (filter (fun p4 -> N.leb ucur p4) (positions true s))
                    in
                    (match unary_next c m ui with
                     | Ok a ->
                       let (ui', r) = a in
                       (((DBitVec (m, s, ui',
                       (match sp with
                        | Some q -> N.add q (Npos XH)
                        | None -> ucur), itpos)),
                       (match r with
                        | Some q -> RNum q
                        | None -> RNone)), (sp_optnum sp))
                     | Panic -> keep RPanic (sp_optnum sp))
                  | _ -> keep RPanic SAny)
               | XO _ -> keep RPanic SAny
               | XH ->
                 keep (rv_optnum (rank0 c m (arg args O)))
                   (sp_optnum (rank false s (arg args O))))
            | XO p2 ->
              (match p2 with
               | XI _ -> keep RPanic SAny
               | XO p3 ->
                 (match p3 with
                  | XH ->
                    keep (rv_optnum (predecessor0 c m (arg args O)))
                      (sp_optnum (pred false s (arg args O)))
                  | _ -> keep RPanic SAny)
               | XH ->
                 keep (rv_optbool (get_bit c m (arg args O)))
                   (sp_optbool (access s (arg args O))))
            | XH ->
              (match extend c m d0 with
               | Ok m' ->
                 (((DBitVec (m', (app s d0), ui, ucur, itpos)), ROk), (SExact
                   ROk))
               | Panic -> keep RPanic (SExact ROk)))
         | XO p1 ->
           (match p1 with
            | XI p2 ->
              (match p2 with
               | XI _ -> keep RPanic SAny
               | XO p3 ->
                 (match p3 with
                  | XH ->
                    keep (rv_optnum (successor0 c m (arg args O)))
                      (sp_optnum (succ0 false s (arg args O)))
                  | _ -> keep RPanic SAny)
               | XH ->
                 keep (rv_optnum (get_word0 c m (arg args O)))
                   (sp_optnum (get_word64 s (arg args O))))
            | XO p2 ->
              (match p2 with
               | XI p3 ->
                 (match p3 with
                  | XI _ -> keep RPanic SAny
                  | XO p4 ->
                    (match p4 with
                     | XH ->
                       let sp = sp_optbool (access s itpos) in
                       (match iter_next c m itpos with
                        | Ok a ->
                          let (p5, r) = a in
                          (((DBitVec (m, s, ui, ucur, p5)),
                          (match r with
                           | Some b -> RBool b
                           | None -> RNone)), sp)
                        | Panic -> keep RPanic sp)
                     | _ -> keep RPanic SAny)
                  | XH ->
                    keep
                      (match from_bits c s with
                       | Ok m' -> RBool (bv_eqb m m')
                       | Panic -> RPanic) (SExact (RBool true)))
               | XO p3 ->
                 (match p3 with
                  | XI _ -> keep RPanic SAny
                  | XO p4 ->
                    (match p4 with
                     | XH ->
                       let v = N.eqb code (Npos (XO (XO (XO (XO (XO XH))))))
                       in
                       let cands =
                         filter (fun p5 -> N.leb ucur p5) (positions v s)
                       in
                       let sp = nth_opt cands (arg args O) in
                       (match if v
                              then skip1 c m ui (arg args O)
                              else skip0 c m ui (arg args O) with
                        | Ok a ->
                          let (ui', r) = a in
                          (((DBitVec (m, s, ui',
                          (match sp with
                           | Some q -> q
                           | None -> ucur), itpos)),
                          (match r with
                           | Some q -> RNum q
                           | None -> RNone)), (sp_optnum sp))
                        | Panic -> keep RPanic (sp_optnum sp))
                     | _ -> keep RPanic SAny)
                  | XH ->
                    keep (rv_optnum (select0 c m (arg args O)))
                      (sp_optnum (select false s (arg args O))))
               | XH -> keep RPanic SAny)
            | XH ->
              let (m', r) =
                mut_rv (set_bit c m (arg args O) (nz (arg args (S O)))) m
              in
              let ok = N.ltb (arg args O) (lenN s) in
              let s' =
                if ok
                then set_nth (N.to_nat (arg args O)) s (nz (arg args (S O)))
                else s
              in
              (((DBitVec (m', s', ui, ucur, itpos)), r), (SExact
              (if ok then ROk else RErr))))
         | XH ->
           (match push_bit c m (nz (arg args O)) with
            | Ok m' ->
              (((DBitVec (m', (app s ((nz (arg args O)) :: [])), ui, ucur,
                itpos)), ROk), (SExact ROk))
            | Panic -> keep RPanic (SExact ROk)))
      | XO p0 ->
        (match p0 with
         | XI p1 ->
           (match p1 with
            | XI p2 ->
              (match p2 with
               | XI p3 ->
                 (match p3 with
                  | XH ->
                    (((DBitVec (m, s, (unary_new m (arg args O)),
                      (arg args O), itpos)), ROk), (SExact ROk))
                  | _ -> keep RPanic SAny)
               | XO p3 ->
                 (match p3 with
                  | XH ->
                    keep (rv_num (num_ones c m)) (SExact (RNum
                      (count true s)))
                  | _ -> keep RPanic SAny)
               | XH ->
                 keep (rv_optnum (rank1 c m (arg args O)))
                   (sp_optnum (rank true s (arg args O))))
            | XO p2 ->
              (match p2 with
               | XI p3 ->
                 (match p3 with
                  | XO p4 ->
                    (match p4 with
                     | XH ->
                       let left = N.sub (lenN s) itpos in
                       keep
                         (match iter_size_hint c m.bv_len itpos with
                          | Ok a0 -> let (a, b) = a0 in RNums (a :: (b :: []))
                          | Panic -> RPanic) (SPred (fun r ->
                         match r with
                         | RNums l ->
                           (match l with
                            | [] -> false
                            | a :: l0 ->
                              (match l0 with
                               | [] -> false
                               | b :: l1 ->
                                 (match l1 with
                                  | [] -> (&&) (N.leb a left) (N.leb left b)
                                  | _ :: _ -> false)))
                         | _ -> false))
                     | _ -> keep RPanic SAny)
                  | _ -> keep RPanic SAny)
               | XO p3 ->
                 (match p3 with
                  | XH ->
                    keep (rv_optnum (predecessor1 c m (arg args O)))
                      (sp_optnum (pred true s (arg args O)))
                  | _ -> keep RPanic SAny)
               | XH -> keep (RNum m.bv_len) (SExact (RNum (lenN s))))
            | XH ->
              let (m', r) =
                mut_rv
                  (set_bits c m (arg args O) (arg args (S O))
                    (arg args (S (S O)))) m
              in
              let ok =
                (&&)
                  (N.leb (arg args (S (S O))) (Npos (XO (XO (XO (XO (XO (XO
                    XH))))))))
                  (N.leb (N.add (arg args O) (arg args (S (S O)))) (lenN s))
              in
              let s' =
                if ok
                then overwrite s (N.to_nat (arg args O))
                       (bits_n_of (N.to_nat (arg args (S (S O))))
                         (arg args (S O)))
                else s
              in
              (((DBitVec (m', s', ui, ucur, itpos)), r), (SExact
              (if ok then ROk else RErr))))
         | XO p1 ->
           (match p1 with
            | XI p2 ->
              (match p2 with
               | XI _ -> keep RPanic SAny
               | XO p3 ->
                 (match p3 with
                  | XH ->
                    keep (rv_optnum (successor1 c m (arg args O)))
                      (sp_optnum (succ0 true s (arg args O)))
                  | _ -> keep RPanic SAny)
               | XH ->
                 keep
                   (rv_optnum (get_bits0 c m (arg args O) (arg args (S O))))
                   (sp_optnum (get_bits s (arg args O) (arg args (S O)))))
            | XO p2 ->
              (match p2 with
               | XI p3 ->
                 (match p3 with
                  | XI _ -> keep RPanic SAny
                  | XO p4 ->
                    (match p4 with
                     | XH ->
                       (((DBitVec (m, s, ui, ucur, N0)), ROk), (SExact ROk))
                     | _ -> keep RPanic SAny)
                  | XH ->
                    keep
                      (match bv_bits c m with
                       | Ok l -> RNums (map b2n l)
                       | Panic -> RPanic) (SExact (RNums (map b2n s))))
               | XO p3 ->
                 (match p3 with
                  | XI _ -> keep RPanic SAny
                  | XO p4 ->
                    (match p4 with
                     | XH ->
                       let v = N.eqb code (Npos (XO (XO (XO (XO (XO XH))))))
                       in
                       let cands =
                         filter (fun p5 -> N.leb ucur p5) (positions v s)
                       in
                       let sp = nth_opt cands (arg args O) in
                       (match if v
                              then skip1 c m ui (arg args O)
                              else skip0 c m ui (arg args O) with
                        | Ok a ->
                          let (ui', r) = a in
                          (((DBitVec (m, s, ui',
                          (match sp with
                           | Some q -> q
                           | None -> ucur), itpos)),
                          (match r with
                           | Some q -> RNum q
                           | None -> RNone)), (sp_optnum sp))
                        | Panic -> keep RPanic (sp_optnum sp))
                     | _ -> keep RPanic SAny)
                  | XH ->
                    keep (rv_optnum (select1 c m (arg args O)))
                      (sp_optnum (select true s (arg args O))))
               | XH -> keep RPanic SAny)
            | XH ->
              let (m', r) =
                mut_rv (push_bits c m (arg args O) (arg args (S O))) m
              in
              let ok =
                N.leb (arg args (S O)) (Npos (XO (XO (XO (XO (XO (XO XH)))))))
              in
              let s' =
                if ok
                then app s
                       (bits_n_of (N.to_nat (arg args (S O))) (arg args O))
                else s
              in
              (((DBitVec (m', s', ui, ucur, itpos)), r), (SExact
              (if ok then ROk else RErr))))
         | XH ->
           (match from_bits c d0 with
            | Ok m' ->
              (((DBitVec (m', d0, ui, ucur, itpos)), ROk), (SExact ROk))
            | Panic -> keep RPanic (SExact ROk)))
      | XH ->
        (match from_bit c (nz (arg args O)) (arg args (S O)) with
         | Ok m' ->
           (((DBitVec (m',
             (repeat (nz (arg args O)) (N.to_nat (arg args (S O)))), ui,
             ucur, itpos)), ROk), (SExact ROk))
         | Panic -> keep RPanic (SExact ROk))))

(** val step_r9 : cfg -> r9sel -> bool list -> n -> n list -> rv * sres **)

let step_r9 c m s code args =
  match code with
  | N0 -> (RPanic, SAny)
  | Npos p ->
    (match p with
     | XI p0 ->
       (match p0 with
        | XI p1 ->
          (match p1 with
           | XI p2 ->
             (match p2 with
              | XI _ -> (RPanic, SAny)
              | XO p3 ->
                (match p3 with
                 | XH ->
                   ((rv_num (r9_num_zeros c m)), (SExact (RNum
                     (count false s))))
                 | _ -> (RPanic, SAny))
              | XH ->
                ((rv_optnum (r9_rank0 c m (arg args O))),
                  (sp_optnum (rank false s (arg args O)))))
           | XO p2 ->
             (match p2 with
              | XH ->
                ((rv_optbool (r9_access c m (arg args O))),
                  (sp_optbool (access s (arg args O))))
              | _ -> (RPanic, SAny))
           | XH -> (RPanic, SAny))
        | XO p1 ->
          (match p1 with
           | XO p2 ->
             (match p2 with
              | XO p3 ->
                (match p3 with
                 | XH ->
                   ((rv_optnum (r9_select0 c m (arg args O))),
                     (sp_optnum (select false s (arg args O))))
                 | _ -> (RPanic, SAny))
              | _ -> (RPanic, SAny))
           | _ -> (RPanic, SAny))
        | XH -> (RPanic, SAny))
     | XO p0 ->
       (match p0 with
        | XI p1 ->
          (match p1 with
           | XI p2 ->
             (match p2 with
              | XI _ -> (RPanic, SAny)
              | XO p3 ->
                (match p3 with
                 | XH ->
                   ((rv_num (r9_num_ones c m)), (SExact (RNum
                     (count true s))))
                 | _ -> (RPanic, SAny))
              | XH ->
                ((rv_optnum (r9_rank1 c m (arg args O))),
                  (sp_optnum (rank true s (arg args O)))))
           | XO p2 ->
             (match p2 with
              | XH -> ((RNum (r9_num_bits m)), (SExact (RNum (lenN s))))
              | _ -> (RPanic, SAny))
           | XH -> (RPanic, SAny))
        | XO p1 ->
          (match p1 with
           | XO p2 ->
             (match p2 with
              | XO p3 ->
                (match p3 with
                 | XH ->
                   ((rv_optnum (r9_select1 c m (arg args O))),
                     (sp_optnum (select true s (arg args O))))
                 | _ -> (RPanic, SAny))
              | _ -> (RPanic, SAny))
           | _ -> (RPanic, SAny))
        | XH -> (RPanic, SAny))
     | XH -> (RPanic, SAny))

(** val step_da : cfg -> darray -> bool list -> n -> n list -> rv * sres **)

let step_da c m s code args =
  match code with
  | N0 -> (RPanic, SAny)
  | Npos p ->
    (match p with
     | XI p0 ->
       (match p0 with
        | XI p1 ->
          (match p1 with
           | XI p2 ->
             (match p2 with
              | XI _ -> (RPanic, SAny)
              | XO p3 ->
                (match p3 with
                 | XH ->
                   ((rv_num (da_num_zeros c m)), (SExact (RNum
                     (count false s))))
                 | _ -> (RPanic, SAny))
              | XH ->
                ((rv_optnum (da_rank0 c m (arg args O))),
                  (sp_optnum (rank false s (arg args O)))))
           | XO p2 ->
             (match p2 with
              | XH ->
                ((rv_optbool (da_access c m (arg args O))),
                  (sp_optbool (access s (arg args O))))
              | _ -> (RPanic, SAny))
           | XH -> (RPanic, SAny))
        | XO p1 ->
          (match p1 with
           | XO p2 ->
             (match p2 with
              | XO p3 ->
                (match p3 with
                 | XH ->
                   ((rv_optnum (da_select0 c m (arg args O))),
                     (sp_optnum (select false s (arg args O))))
                 | _ -> (RPanic, SAny))
              | _ -> (RPanic, SAny))
           | _ -> (RPanic, SAny))
        | XH -> (RPanic, SAny))
     | XO p0 ->
       (match p0 with
        | XI p1 ->
          (match p1 with
           | XI p2 ->
             (match p2 with
              | XI _ -> (RPanic, SAny)
              | XO p3 ->
                (match p3 with
                 | XH ->
                   ((RNum (da_num_ones m)), (SExact (RNum (count true s))))
                 | _ -> (RPanic, SAny))
              | XH ->
                ((rv_optnum (da_rank1 c m (arg args O))),
                  (sp_optnum (rank true s (arg args O)))))
           | XO p2 ->
             (match p2 with
              | XH -> ((RNum (da_num_bits m)), (SExact (RNum (lenN s))))
              | _ -> (RPanic, SAny))
           | XH -> (RPanic, SAny))
        | XO p1 ->
          (match p1 with
           | XO p2 ->
             (match p2 with
              | XO p3 ->
                (match p3 with
                 | XH ->
                   ((rv_optnum (da_select1 c m (arg args O))),
                     (sp_optnum (select true s (arg args O))))
                 | _ -> (RPanic, SAny))
              | _ -> (RPanic, SAny))
           | _ -> (RPanic, SAny))
        | XH -> (RPanic, SAny))
     | XH -> (RPanic, SAny))

(** val step_sa : cfg -> sarray -> bool list -> n -> n list -> rv * sres **)

let step_sa c m s code args =
  match code with
  | N0 -> (RPanic, SAny)
  | Npos p ->
    (match p with
     | XI p0 ->
       (match p0 with
        | XI p1 ->
          (match p1 with
           | XI p2 ->
             (match p2 with
              | XH ->
                ((rv_optnum (sa_rank0 c m (arg args O))),
                  (sp_optnum (rank false s (arg args O))))
              | _ -> (RPanic, SAny))
           | XO p2 ->
             (match p2 with
              | XH ->
                ((rv_optbool (sa_access c m (arg args O))),
                  (sp_optbool (access s (arg args O))))
              | _ -> (RPanic, SAny))
           | XH -> (RPanic, SAny))
        | _ -> (RPanic, SAny))
     | XO p0 ->
       (match p0 with
        | XI p1 ->
          (match p1 with
           | XI p2 ->
             (match p2 with
              | XI _ -> (RPanic, SAny)
              | XO p3 ->
                (match p3 with
                 | XH ->
                   ((RNum m.sa_num_ones), (SExact (RNum (count true s))))
                 | _ -> (RPanic, SAny))
              | XH ->
                ((rv_optnum (sa_rank1 c m (arg args O))),
                  (sp_optnum (rank true s (arg args O)))))
           | XO p2 ->
             (match p2 with
              | XI _ -> (RPanic, SAny)
              | XO p3 ->
                (match p3 with
                 | XH ->
                   ((rv_optnum (sa_predecessor1 c m (arg args O))),
                     (sp_optnum (pred true s (arg args O))))
                 | _ -> (RPanic, SAny))
              | XH -> ((RNum m.sa_num_bits), (SExact (RNum (lenN s)))))
           | XH -> (RPanic, SAny))
        | XO p1 ->
          (match p1 with
           | XI p2 ->
             (match p2 with
              | XO p3 ->
                (match p3 with
                 | XH ->
                   ((rv_optnum (sa_successor1 c m (arg args O))),
                     (sp_optnum (succ0 true s (arg args O))))
                 | _ -> (RPanic, SAny))
              | _ -> (RPanic, SAny))
           | XO p2 ->
             (match p2 with
              | XO p3 ->
                (match p3 with
                 | XH ->
                   ((rv_optnum (sa_select1 c m (arg args O))),
                     (sp_optnum (select true s (arg args O))))
                 | _ -> (RPanic, SAny))
              | _ -> (RPanic, SAny))
           | XH -> (RPanic, SAny))
        | XH -> (RPanic, SAny))
     | XH -> (RPanic, SAny))

(** val step_efb :
    cfg -> efbuilder -> n -> n -> n list -> n -> n list -> n list list ->
    (dstate * rv) * sres **)

let step_efb c m u mm acc code args data =
  let keep = fun r sp -> (((DEFB (m, u, mm, acc)), r), sp) in
  (match code with
   | N0 -> keep RPanic SAny
   | Npos p ->
     (match p with
      | XI p0 ->
        (match p0 with
         | XI p1 ->
           (match p1 with
            | XO p2 ->
              (match p2 with
               | XO p3 ->
                 (match p3 with
                  | XI p4 ->
                    (match p4 with
                     | XH ->
                       let vs = nth O data [] in
                       let go =
                         let rec go racc last cnt = function
                         | [] -> (racc, true)
                         | v :: r ->
                           if (&&) ((&&) (N.leb last v) (N.ltb v u))
                                (N.ltb cnt mm)
                           then go (v :: racc) v (N.add cnt (Npos XH)) r
                           else (racc, false)
                         in go
                       in
                       let go0 = fun acc0 vs0 ->
                         let (racc, ok) =
                           go (rev_append acc0 [])
                             (match last_opt acc0 with
                              | Some l -> l
                              | None -> N0) (lenN acc0) vs0
                         in
                         ((rev_append racc []), ok)
                       in
                       let (acc', ok) = go0 acc vs in
                       (match efb_extend c m vs with
                        | Ok a ->
                          let (m', b) = a in
                          (((DEFB (m', u, mm, acc')),
                          (if b then ROk else RErr)), (SExact
                          (if ok then ROk else RErr)))
                        | Panic ->
                          keep RPanic (SExact (if ok then ROk else RErr)))
                     | _ -> keep RPanic SAny)
                  | _ -> keep RPanic SAny)
               | _ -> keep RPanic SAny)
            | _ -> keep RPanic SAny)
         | _ -> keep RPanic SAny)
      | XO p0 ->
        (match p0 with
         | XI p1 ->
           (match p1 with
            | XO p2 ->
              (match p2 with
               | XO p3 ->
                 (match p3 with
                  | XI p4 ->
                    (match p4 with
                     | XH ->
                       let v = arg args O in
                       let ok = efb_accepts u mm acc v in
                       (match efb_push c m v with
                        | Ok a ->
                          let (m', b) = a in
                          (((DEFB (m', u, mm,
                          (if ok then app acc (v :: []) else acc))),
                          (if b then ROk else RErr)), (SExact
                          (if ok then ROk else RErr)))
                        | Panic ->
                          keep RPanic (SExact (if ok then ROk else RErr)))
                     | _ -> keep RPanic SAny)
                  | _ -> keep RPanic SAny)
               | _ -> keep RPanic SAny)
            | _ -> keep RPanic SAny)
         | XO p1 ->
           (match p1 with
            | XI p2 ->
              (match p2 with
               | XO p3 ->
                 (match p3 with
                  | XI p4 ->
                    (match p4 with
                     | XH ->
                       (match bind (efb_build c m) (fun e ->
                                if nz (arg args O)
                                then ef_enable_rank c e
                                else Ok e) with
                        | Ok e ->
                          (match efi_new c e (lenN acc) with
                           | Ok it ->
                             (((DEF (e, u, acc, it, [])), ROk), (SExact ROk))
                           | Panic -> keep RPanic (SExact ROk))
                        | Panic -> keep RPanic (SExact ROk))
                     | _ -> keep RPanic SAny)
                  | _ -> keep RPanic SAny)
               | _ -> keep RPanic SAny)
            | _ -> keep RPanic SAny)
         | XH -> keep RPanic SAny)
      | XH -> keep RPanic SAny))

(** val step_ef :
    cfg -> eliasfano -> n -> n list -> efiter -> n list -> n -> n list ->
    (dstate * rv) * sres **)

let step_ef c m u xs it itleft code args =
  let keep = fun r sp -> (((DEF (m, u, xs, it, itleft)), r), sp) in
  let a0 = arg args O in
  (match code with
   | N0 -> keep RPanic SAny
   | Npos p ->
     (match p with
      | XI p0 ->
        (match p0 with
         | XI p1 ->
           (match p1 with
            | XI p2 ->
              (match p2 with
               | XI p3 ->
                 (match p3 with
                  | XI p4 ->
                    (match p4 with
                     | XH ->
                       keep (rv_optnum (ef_rank0 c m a0))
                         (sp_optnum (ef_rank xs u a0))
                     | _ -> keep RPanic SAny)
                  | _ -> keep RPanic SAny)
               | _ -> keep RPanic SAny)
            | XO p2 ->
              (match p2 with
               | XO p3 ->
                 (match p3 with
                  | XO p4 ->
                    (match p4 with
                     | XO p5 ->
                       (match p5 with
                        | XH ->
                          let p6 = ((arg args O), (arg args (S O))) in
                          let v = arg args (S (S O)) in
                          let (rs, re) = p6 in
                          keep (rv_optnum (ef_binsearch_range c m rs re v))
                            (SPred (fun r ->
                            match r with
                            | RNone -> binsearch_ok xs rs re v None
                            | RNum i -> binsearch_ok xs rs re v (Some i)
                            | _ -> false))
                        | _ -> keep RPanic SAny)
                     | _ -> keep RPanic SAny)
                  | _ -> keep RPanic SAny)
               | _ -> keep RPanic SAny)
            | XH -> keep RPanic SAny)
         | XO p1 ->
           (match p1 with
            | XI p2 ->
              (match p2 with
               | XI p3 ->
                 (match p3 with
                  | XI p4 ->
                    (match p4 with
                     | XH ->
                       keep (rv_optnum (ef_select0 c m a0))
                         (sp_optnum (ef_select xs a0))
                     | _ -> keep RPanic SAny)
                  | _ -> keep RPanic SAny)
               | XO p3 ->
                 (match p3 with
                  | XO p4 ->
                    (match p4 with
                     | XO p5 ->
                       (match p5 with
                        | XH ->
                          let sp = sp_optnum (hd_error itleft) in
                          (match efi_next c m it with
                           | Ok a ->
                             let (it', r) = a in
                             (((DEF (m, u, xs, it', (tl itleft))),
                             (match r with
                              | Some x -> RNum x
                              | None -> RNone)), sp)
                           | Panic -> keep RPanic sp)
                        | _ -> keep RPanic SAny)
                     | _ -> keep RPanic SAny)
                  | _ -> keep RPanic SAny)
               | XH -> keep RPanic SAny)
            | XO p2 ->
              (match p2 with
               | XO p3 ->
                 (match p3 with
                  | XO p4 ->
                    (match p4 with
                     | XO p5 ->
                       (match p5 with
                        | XH ->
                          keep (rv_optnum (ef_successor c m a0))
                            (sp_optnum (ef_succ xs u a0))
                        | _ -> keep RPanic SAny)
                     | _ -> keep RPanic SAny)
                  | _ -> keep RPanic SAny)
               | _ -> keep RPanic SAny)
            | XH -> keep RPanic SAny)
         | XH -> keep RPanic SAny)
      | XO p0 ->
        (match p0 with
         | XI p1 ->
           (match p1 with
            | XI p2 ->
              (match p2 with
               | XI p3 ->
                 (match p3 with
                  | XI p4 ->
                    (match p4 with
                     | XH ->
                       keep (rv_optnum (ef_delta0 c m a0))
                         (sp_optnum (ef_delta xs a0))
                     | _ -> keep RPanic SAny)
                  | _ -> keep RPanic SAny)
               | _ -> keep RPanic SAny)
            | XO p2 ->
              (match p2 with
               | XI _ -> keep RPanic SAny
               | XO p3 ->
                 (match p3 with
                  | XO p4 ->
                    (match p4 with
                     | XO p5 ->
                       (match p5 with
                        | XH ->
                          keep (rv_optnum (ef_binsearch c m a0)) (SPred
                            (fun r ->
                            match r with
                            | RNone -> binsearch_ok xs N0 (lenN xs) a0 None
                            | RNum i ->
                              binsearch_ok xs N0 (lenN xs) a0 (Some i)
                            | _ -> false))
                        | _ -> keep RPanic SAny)
                     | _ -> keep RPanic SAny)
                  | _ -> keep RPanic SAny)
               | XH -> keep (RNum (ef_len m)) (SExact (RNum (lenN xs))))
            | XH -> keep RPanic SAny)
         | XO p1 ->
           (match p1 with
            | XI p2 ->
              (match p2 with
               | XI p3 ->
                 (match p3 with
                  | XI p4 ->
                    (match p4 with
                     | XH -> keep (RNum m.ef_universe) (SExact (RNum u))
                     | _ -> keep RPanic SAny)
                  | _ -> keep RPanic SAny)
               | XO p3 ->
                 (match p3 with
                  | XO p4 ->
                    (match p4 with
                     | XO p5 ->
                       (match p5 with
                        | XH ->
                          (match efi_new c m a0 with
                           | Ok it' ->
                             (((DEF (m, u, xs, it', (ef_iter xs a0))), ROk),
                               (SExact ROk))
                           | Panic -> keep RPanic (SExact ROk))
                        | _ -> keep RPanic SAny)
                     | _ -> keep RPanic SAny)
                  | _ -> keep RPanic SAny)
               | XH -> keep RPanic SAny)
            | XO p2 ->
              (match p2 with
               | XO p3 ->
                 (match p3 with
                  | XO p4 ->
                    (match p4 with
                     | XO p5 ->
                       (match p5 with
                        | XH ->
                          keep (rv_optnum (ef_predecessor c m a0))
                            (sp_optnum (ef_pred xs u a0))
                        | _ -> keep RPanic SAny)
                     | _ -> keep RPanic SAny)
                  | _ -> keep RPanic SAny)
               | _ -> keep RPanic SAny)
            | XH -> keep RPanic SAny)
         | XH -> keep RPanic SAny)
      | XH -> keep RPanic SAny))

(** val fitsb : n -> n -> bool **)

let fitsb w0 v =
  if N.eqb w0 (Npos (XO (XO (XO (XO (XO (XO XH)))))))
  then true
  else N.eqb (N.shiftr v w0) N0

(** val cv_mut : (compvec * bool) res -> compvec -> compvec * rv **)

let cv_mut r old =
  match r with
  | Ok a -> let (b, b0) = a in if b0 then (b, ROk) else (b, RErr)
  | Panic -> (old, RPanic)

(** val step_cv :
    cfg -> compvec -> n list -> n -> n -> n list -> n list list ->
    (dstate * rv) * sres **)

let step_cv c m xs itpos code args data =
  let keep = fun r sp -> (((DCV (m, xs, itpos)), r), sp) in
  let w0 = m.cv_width in
  let a0 = arg args O in
  (match code with
   | N0 -> keep RPanic SAny
   | Npos p ->
     (match p with
      | XI p0 ->
        (match p0 with
         | XI p1 ->
           (match p1 with
            | XI p2 ->
              (match p2 with
               | XI p3 ->
                 (match p3 with
                  | XO p4 ->
                    (match p4 with
                     | XO p5 ->
                       (match p5 with
                        | XH ->
                          keep
                            (match cv_to_list c m with
                             | Ok l -> RNums l
                             | Panic -> RPanic) (SExact (RNums xs))
                        | _ -> keep RPanic SAny)
                     | _ -> keep RPanic SAny)
                  | _ -> keep RPanic SAny)
               | XO p3 ->
                 (match p3 with
                  | XO p4 ->
                    (match p4 with
                     | XO p5 ->
                       (match p5 with
                        | XH ->
                          let sp = SExact
                            (if width_ok (arg args (S O)) then ROk else RErr)
                          in
                          (match cv_with_capacity c a0 (arg args (S O)) with
                           | Ok a ->
                             (match a with
                              | Some m' -> (((DCV (m', [], N0)), ROk), sp)
                              | None -> keep RErr sp)
                           | Panic -> keep RPanic sp)
                        | _ -> keep RPanic SAny)
                     | _ -> keep RPanic SAny)
                  | _ -> keep RPanic SAny)
               | XH -> keep RPanic SAny)
            | XO p2 ->
              (match p2 with
               | XI p3 ->
                 (match p3 with
                  | XO p4 ->
                    (match p4 with
                     | XO p5 ->
                       (match p5 with
                        | XH ->
                          let ok =
                            (&&) (N.ltb a0 (lenN xs))
                              (fitsb w0 (arg args (S O)))
                          in
                          let (m', r) =
                            cv_mut (cv_set_int c m a0 (arg args (S O))) m
                          in
                          (((DCV (m',
                          (if ok
                           then set_nth (N.to_nat a0) xs (arg args (S O))
                           else xs), itpos)), r), (SExact
                          (if ok then ROk else RErr)))
                        | _ -> keep RPanic SAny)
                     | _ -> keep RPanic SAny)
                  | _ -> keep RPanic SAny)
               | _ -> keep RPanic SAny)
            | XH -> keep RPanic SAny)
         | XO p1 ->
           (match p1 with
            | XI p2 ->
              (match p2 with
               | XI p3 ->
                 (match p3 with
                  | XO p4 ->
                    (match p4 with
                     | XO p5 ->
                       (match p5 with
                        | XH -> keep (RNum m.cv_width) SAny
                        | _ -> keep RPanic SAny)
                     | _ -> keep RPanic SAny)
                  | _ -> keep RPanic SAny)
               | _ -> keep RPanic SAny)
            | XO p2 ->
              (match p2 with
               | XI p3 ->
                 (match p3 with
                  | XI _ -> keep RPanic SAny
                  | XO p4 ->
                    (match p4 with
                     | XI _ -> keep RPanic SAny
                     | XO p5 ->
                       (match p5 with
                        | XH ->
                          let vs = nth O data [] in
                          (match cv_from_slice c vs with
                           | Ok a ->
                             (match a with
                              | Some m' ->
                                (((DCV (m', vs, N0)), ROk), (SExact ROk))
                              | None -> keep RErr (SExact ROk))
                           | Panic -> keep RPanic (SExact ROk))
                        | _ -> keep RPanic SAny)
                     | XH ->
                       let sp = sp_optnum (nth_opt xs itpos) in
                       (match cv_iter_next c m itpos with
                        | Ok a ->
                          let (p5, r) = a in
                          (((DCV (m, xs, p5)),
                          (match r with
                           | Some b -> RNum b
                           | None -> RNone)), sp)
                        | Panic -> keep RPanic sp))
                  | XH ->
                    keep
                      (match bind (unwrap (cv_new w0)) (fun v ->
                               bind (cv_extend c v xs) (fun r -> Ok (fst r))) with
                       | Ok m' -> RBool (cv_eqb m m')
                       | Panic -> RPanic) (SExact (RBool true)))
               | _ -> keep RPanic SAny)
            | XH -> keep RPanic SAny)
         | XH -> keep RPanic SAny)
      | XO p0 ->
        (match p0 with
         | XI p1 ->
           (match p1 with
            | XI p2 ->
              (match p2 with
               | XI p3 ->
                 (match p3 with
                  | XO p4 ->
                    (match p4 with
                     | XO p5 ->
                       (match p5 with
                        | XH ->
                          keep (rv_optnum (cv_get_int c m a0))
                            (sp_optnum (nth_opt xs a0))
                        | _ -> keep RPanic SAny)
                     | _ -> keep RPanic SAny)
                  | _ -> keep RPanic SAny)
               | XO p3 ->
                 (match p3 with
                  | XO p4 ->
                    (match p4 with
                     | XO p5 ->
                       (match p5 with
                        | XH ->
                          let sp = SExact (if width_ok a0 then ROk else RErr)
                          in
                          (match cv_new a0 with
                           | Some m' -> (((DCV (m', [], N0)), ROk), sp)
                           | None -> keep RErr sp)
                        | _ -> keep RPanic SAny)
                     | _ -> keep RPanic SAny)
                  | _ -> keep RPanic SAny)
               | XH -> keep RPanic SAny)
            | XO p2 ->
              (match p2 with
               | XI p3 ->
                 (match p3 with
                  | XO p4 ->
                    (match p4 with
                     | XI _ -> keep RPanic SAny
                     | XO p5 ->
                       (match p5 with
                        | XH ->
                          let ok = fitsb w0 a0 in
                          let (m', r) = cv_mut (cv_push_int c m a0) m in
                          (((DCV (m', (if ok then app xs (a0 :: []) else xs),
                          itpos)), r), (SExact (if ok then ROk else RErr)))
                        | _ -> keep RPanic SAny)
                     | XH ->
                       let left = N.sub (lenN xs) itpos in
                       keep
                         (match iter_size_hint c m.cv_len itpos with
                          | Ok a1 -> let (a, b) = a1 in RNums (a :: (b :: []))
                          | Panic -> RPanic) (SPred (fun r ->
                         match r with
                         | RNums l ->
                           (match l with
                            | [] -> false
                            | a :: l0 ->
                              (match l0 with
                               | [] -> false
                               | b :: l1 ->
                                 (match l1 with
                                  | [] -> (&&) (N.leb a left) (N.leb left b)
                                  | _ :: _ -> false)))
                         | _ -> false)))
                  | _ -> keep RPanic SAny)
               | XO _ -> keep RPanic SAny
               | XH -> keep (RNum m.cv_len) (SExact (RNum (lenN xs))))
            | XH -> keep RPanic SAny)
         | XO p1 ->
           (match p1 with
            | XI p2 ->
              (match p2 with
               | XI p3 ->
                 (match p3 with
                  | XO p4 ->
                    (match p4 with
                     | XO p5 ->
                       (match p5 with
                        | XH ->
                          let vs = nth O data [] in
                          let go =
                            let rec go = function
                            | [] -> ([], true)
                            | v :: r ->
                              if fitsb w0 v
                              then let (l, b) = go r in ((v :: l), b)
                              else ([], false)
                            in go
                          in
                          let (pre, ok) = go vs in
                          let (m', r) = cv_mut (cv_extend c m vs) m in
                          (((DCV (m', (app xs pre), itpos)), r), (SExact
                          (if ok then ROk else RErr)))
                        | _ -> keep RPanic SAny)
                     | _ -> keep RPanic SAny)
                  | _ -> keep RPanic SAny)
               | _ -> keep RPanic SAny)
            | XO p2 ->
              (match p2 with
               | XI p3 ->
                 (match p3 with
                  | XO p4 ->
                    (match p4 with
                     | XI _ -> keep RPanic SAny
                     | XO p5 ->
                       (match p5 with
                        | XH ->
                          let p6 = ((arg args O), (arg args (S O))) in
                          let wd = arg args (S (S O)) in
                          let (v, l) = p6 in
                          let ok = (&&) (width_ok wd) (fitsb wd v) in
                          let sp = SExact (if ok then ROk else RErr) in
                          (match cv_from_int c v l wd with
                           | Ok a ->
                             (match a with
                              | Some m' ->
                                (((DCV (m', (repeat v (N.to_nat l)), N0)),
                                  ROk), sp)
                              | None -> keep RErr sp)
                           | Panic -> keep RPanic sp)
                        | _ -> keep RPanic SAny)
                     | XH -> (((DCV (m, xs, N0)), ROk), (SExact ROk)))
                  | _ -> keep RPanic SAny)
               | _ -> keep RPanic SAny)
            | XH -> keep RPanic SAny)
         | XH -> keep RPanic SAny)
      | XH -> keep RPanic SAny))

(** val hint_pred : n -> sres **)

let hint_pred left =
  SPred (fun r ->
    match r with
    | RNums l ->
      (match l with
       | [] -> false
       | a :: l0 ->
         (match l0 with
          | [] -> false
          | b :: l1 ->
            (match l1 with
             | [] -> (&&) (N.leb a left) (N.leb left b)
             | _ :: _ -> false)))
    | _ -> false)

(** val hint_rv : cfg -> n -> n -> rv **)

let hint_rv c len pos =
  match iter_size_hint c len pos with
  | Ok a0 -> let (a, b) = a0 in RNums (a :: (b :: []))
  | Panic -> RPanic

(** val widths_ok : n list -> n -> rv -> bool **)

let widths_ok xs ml = function
| RNums ws ->
  (match xs with
   | [] -> true
   | _ :: _ ->
     (&&) (admissible xs ws ml)
       (if N.leb (bitlen (max_list xs)) (Npos (XO (XI (XI XH))))
        then N.eqb (cost xs ws) (min_cost_brute xs ml)
        else true))
| _ -> false

(** val step_do :
    cfg -> dacsopt -> n list -> n -> n -> n -> n list -> (dstate * rv) * sres **)

let step_do c m xs ml itpos code args =
  let keep = fun r sp -> (((DDO (m, xs, ml, itpos)), r), sp) in
  let a0 = arg args O in
  (match code with
   | N0 -> keep RPanic SAny
   | Npos p ->
     (match p with
      | XI p0 ->
        (match p0 with
         | XO p1 ->
           (match p1 with
            | XO p2 ->
              (match p2 with
               | XI p3 ->
                 (match p3 with
                  | XO p4 ->
                    (match p4 with
                     | XH ->
                       let sp = sp_optnum (nth_opt xs itpos) in
                       (match do_iter_next c m itpos with
                        | Ok a ->
                          let (p5, r) = a in
                          (((DDO (m, xs, ml, p5)),
                          (match r with
                           | Some b -> RNum b
                           | None -> RNone)), sp)
                        | Panic -> keep RPanic sp)
                     | _ -> keep RPanic SAny)
                  | _ -> keep RPanic SAny)
               | XO p3 ->
                 (match p3 with
                  | XI p4 ->
                    (match p4 with
                     | XO p5 ->
                       (match p5 with
                        | XH ->
                          let wm = do_widths m in
                          keep (RNums wm) (SPred (fun r ->
                            (&&) (widths_ok xs ml r)
                              (match r with
                               | RNums ws ->
                                 (match xs with
                                  | [] -> true
                                  | _ :: _ -> N.eqb (cost xs ws) (cost xs wm))
                               | _ -> true)))
                        | _ -> keep RPanic SAny)
                     | _ -> keep RPanic SAny)
                  | _ -> keep RPanic SAny)
               | XH -> keep RPanic SAny)
            | _ -> keep RPanic SAny)
         | _ -> keep RPanic SAny)
      | XO p0 ->
        (match p0 with
         | XI p1 ->
           (match p1 with
            | XI p2 ->
              (match p2 with
               | XI p3 ->
                 (match p3 with
                  | XO p4 ->
                    (match p4 with
                     | XO p5 ->
                       (match p5 with
                        | XH ->
                          keep (rv_optnum (do_access c m a0))
                            (sp_optnum (nth_opt xs a0))
                        | _ -> keep RPanic SAny)
                     | _ -> keep RPanic SAny)
                  | _ -> keep RPanic SAny)
               | _ -> keep RPanic SAny)
            | XO p2 ->
              (match p2 with
               | XI p3 ->
                 (match p3 with
                  | XO p4 ->
                    (match p4 with
                     | XH ->
                       keep
                         (match do_len c m with
                          | Ok n0 -> hint_rv c n0 itpos
                          | Panic -> RPanic)
                         (hint_pred (N.sub (lenN xs) itpos))
                     | _ -> keep RPanic SAny)
                  | _ -> keep RPanic SAny)
               | XO _ -> keep RPanic SAny
               | XH -> keep (rv_num (do_len c m)) (SExact (RNum (lenN xs))))
            | XH -> keep RPanic SAny)
         | XO p1 ->
           (match p1 with
            | XO p2 ->
              (match p2 with
               | XI p3 ->
                 (match p3 with
                  | XO p4 ->
                    (match p4 with
                     | XH -> (((DDO (m, xs, ml, N0)), ROk), (SExact ROk))
                     | _ -> keep RPanic SAny)
                  | _ -> keep RPanic SAny)
               | XO p3 ->
                 (match p3 with
                  | XI p4 ->
                    (match p4 with
                     | XO p5 ->
                       (match p5 with
                        | XH ->
                          keep (RNum (do_num_levels m)) (SPred (fun r ->
                            match r with
                            | RNum l ->
                              (&&) (N.leb (Npos XH) l)
                                (N.leb l
                                  (N.min ml (Npos (XO (XO (XO (XO (XO (XO
                                    XH)))))))))
                            | _ -> false))
                        | _ -> keep RPanic SAny)
                     | _ -> keep RPanic SAny)
                  | _ -> keep RPanic SAny)
               | XH -> keep RPanic SAny)
            | _ -> keep RPanic SAny)
         | XH -> keep RPanic SAny)
      | XH -> keep RPanic SAny))

(** val step_db :
    cfg -> dacsbyte -> n list -> n -> n -> n list -> (dstate * rv) * sres **)

let step_db c m xs itpos code args =
  let keep = fun r sp -> (((DDB (m, xs, itpos)), r), sp) in
  let a0 = arg args O in
  (match code with
   | N0 -> keep RPanic SAny
   | Npos p ->
     (match p with
      | XI p0 ->
        (match p0 with
         | XO p1 ->
           (match p1 with
            | XO p2 ->
              (match p2 with
               | XI p3 ->
                 (match p3 with
                  | XO p4 ->
                    (match p4 with
                     | XH ->
                       let sp = sp_optnum (nth_opt xs itpos) in
                       (match db_iter_next c m itpos with
                        | Ok a ->
                          let (p5, r) = a in
                          (((DDB (m, xs, p5)),
                          (match r with
                           | Some b -> RNum b
                           | None -> RNone)), sp)
                        | Panic -> keep RPanic sp)
                     | _ -> keep RPanic SAny)
                  | _ -> keep RPanic SAny)
               | XO p3 ->
                 (match p3 with
                  | XI p4 ->
                    (match p4 with
                     | XO p5 ->
                       (match p5 with
                        | XH ->
                          keep (RNums (db_widths m)) (SExact (RNums
                            (repeat (Npos (XO (XO (XO XH))))
                              (N.to_nat (byte_levels xs)))))
                        | _ -> keep RPanic SAny)
                     | _ -> keep RPanic SAny)
                  | _ -> keep RPanic SAny)
               | XH -> keep RPanic SAny)
            | _ -> keep RPanic SAny)
         | _ -> keep RPanic SAny)
      | XO p0 ->
        (match p0 with
         | XI p1 ->
           (match p1 with
            | XI p2 ->
              (match p2 with
               | XI p3 ->
                 (match p3 with
                  | XO p4 ->
                    (match p4 with
                     | XO p5 ->
                       (match p5 with
                        | XH ->
                          keep (rv_optnum (db_access c m a0))
                            (sp_optnum (nth_opt xs a0))
                        | _ -> keep RPanic SAny)
                     | _ -> keep RPanic SAny)
                  | _ -> keep RPanic SAny)
               | _ -> keep RPanic SAny)
            | XO p2 ->
              (match p2 with
               | XI p3 ->
                 (match p3 with
                  | XO p4 ->
                    (match p4 with
                     | XH ->
                       keep
                         (match db_len c m with
                          | Ok n0 -> hint_rv c n0 itpos
                          | Panic -> RPanic)
                         (hint_pred (N.sub (lenN xs) itpos))
                     | _ -> keep RPanic SAny)
                  | _ -> keep RPanic SAny)
               | XO _ -> keep RPanic SAny
               | XH -> keep (rv_num (db_len c m)) (SExact (RNum (lenN xs))))
            | XH -> keep RPanic SAny)
         | XO p1 ->
           (match p1 with
            | XO p2 ->
              (match p2 with
               | XI p3 ->
                 (match p3 with
                  | XO p4 ->
                    (match p4 with
                     | XH -> (((DDB (m, xs, N0)), ROk), (SExact ROk))
                     | _ -> keep RPanic SAny)
                  | _ -> keep RPanic SAny)
               | XO p3 ->
                 (match p3 with
                  | XI p4 ->
                    (match p4 with
                     | XO p5 ->
                       (match p5 with
                        | XH ->
                          keep (RNum (db_num_levels m)) (SExact (RNum
                            (byte_levels xs)))
                        | _ -> keep RPanic SAny)
                     | _ -> keep RPanic SAny)
                  | _ -> keep RPanic SAny)
               | XH -> keep RPanic SAny)
            | _ -> keep RPanic SAny)
         | XH -> keep RPanic SAny)
      | XH -> keep RPanic SAny))

(** val step_ps :
    cfg -> psef -> n list -> n -> n -> n list -> (dstate * rv) * sres **)

let step_ps c m xs itpos code args =
  let keep = fun r sp -> (((DPS (m, xs, itpos)), r), sp) in
  let a0 = arg args O in
  (match code with
   | N0 -> keep RPanic SAny
   | Npos p ->
     (match p with
      | XI p0 ->
        (match p0 with
         | XO p1 ->
           (match p1 with
            | XO p2 ->
              (match p2 with
               | XI p3 ->
                 (match p3 with
                  | XO p4 ->
                    (match p4 with
                     | XH ->
                       let sp = sp_optnum (nth_opt xs itpos) in
                       (match ps_iter_next c m itpos with
                        | Ok a ->
                          let (p5, r) = a in
                          (((DPS (m, xs, p5)),
                          (match r with
                           | Some b -> RNum b
                           | None -> RNone)), sp)
                        | Panic -> keep RPanic sp)
                     | _ -> keep RPanic SAny)
                  | _ -> keep RPanic SAny)
               | _ -> keep RPanic SAny)
            | _ -> keep RPanic SAny)
         | _ -> keep RPanic SAny)
      | XO p0 ->
        (match p0 with
         | XI p1 ->
           (match p1 with
            | XI p2 ->
              (match p2 with
               | XI p3 ->
                 (match p3 with
                  | XO p4 ->
                    (match p4 with
                     | XO p5 ->
                       (match p5 with
                        | XH ->
                          keep (rv_optnum (ps_access c m a0))
                            (sp_optnum (nth_opt xs a0))
                        | _ -> keep RPanic SAny)
                     | _ -> keep RPanic SAny)
                  | _ -> keep RPanic SAny)
               | _ -> keep RPanic SAny)
            | XO p2 ->
              (match p2 with
               | XI p3 ->
                 (match p3 with
                  | XO p4 ->
                    (match p4 with
                     | XH ->
                       keep (hint_rv c (ps_len m) itpos)
                         (hint_pred (N.sub (lenN xs) itpos))
                     | _ -> keep RPanic SAny)
                  | _ -> keep RPanic SAny)
               | XO p3 ->
                 (match p3 with
                  | XI p4 ->
                    (match p4 with
                     | XO p5 ->
                       (match p5 with
                        | XH ->
                          keep (rv_num (ps_sum c m)) (SExact (RNum
                            (sum_list xs)))
                        | _ -> keep RPanic SAny)
                     | _ -> keep RPanic SAny)
                  | _ -> keep RPanic SAny)
               | XH -> keep (RNum (ps_len m)) (SExact (RNum (lenN xs))))
            | XH -> keep RPanic SAny)
         | XO p1 ->
           (match p1 with
            | XO p2 ->
              (match p2 with
               | XI p3 ->
                 (match p3 with
                  | XO p4 ->
                    (match p4 with
                     | XH -> (((DPS (m, xs, N0)), ROk), (SExact ROk))
                     | _ -> keep RPanic SAny)
                  | _ -> keep RPanic SAny)
               | _ -> keep RPanic SAny)
            | _ -> keep RPanic SAny)
         | XH -> keep RPanic SAny)
      | XH -> keep RPanic SAny))

(** val pairs : n list -> (n * n) list **)

let rec pairs = function
| [] -> []
| a :: l0 -> (match l0 with
              | [] -> []
              | b :: r -> (a, b) :: (pairs r))

(** val step_wm :
    cfg -> wavelet -> bkind -> n list -> n -> n -> n list -> n list list ->
    (dstate * rv) * sres **)

let step_wm c m k xs itpos code args data =
  let keep = fun r sp -> (((DWM (m, k, xs, itpos)), r), sp) in
  let a0 = arg args O in
  let a1 = arg args (S O) in
  (match code with
   | N0 -> keep RPanic SAny
   | Npos p ->
     (match p with
      | XI p0 ->
        (match p0 with
         | XI p1 ->
           (match p1 with
            | XI p2 ->
              (match p2 with
               | XO p3 ->
                 (match p3 with
                  | XI p4 ->
                    (match p4 with
                     | XO p5 ->
                       (match p5 with
                        | XH ->
                          keep
                            (rv_optnum
                              (wm_quantile0 c m a0 a1 (arg args (S (S O)))))
                            (sp_optnum
                              (wm_quantile xs a0 a1 (arg args (S (S O)))))
                        | _ -> keep RPanic SAny)
                     | _ -> keep RPanic SAny)
                  | _ -> keep RPanic SAny)
               | _ -> keep RPanic SAny)
            | XO p2 ->
              (match p2 with
               | XO p3 ->
                 (match p3 with
                  | XI p4 ->
                    (match p4 with
                     | XO p5 ->
                       (match p5 with
                        | XH ->
                          keep (RNum m.wm_alph_size) (SExact (RNum
                            (N.add (max_list xs) (Npos XH))))
                        | _ -> keep RPanic SAny)
                     | _ -> keep RPanic SAny)
                  | _ -> keep RPanic SAny)
               | _ -> keep RPanic SAny)
            | XH -> keep RPanic SAny)
         | XO p1 ->
           (match p1 with
            | XI p2 ->
              (match p2 with
               | XO p3 ->
                 (match p3 with
                  | XI p4 ->
                    (match p4 with
                     | XO p5 ->
                       (match p5 with
                        | XH ->
                          keep
                            (rv_optnum
                              (wm_rank_range0 c m a0 a1 (arg args (S (S O)))))
                            (sp_optnum
                              (wm_rank_range xs a0 a1 (arg args (S (S O)))))
                        | _ -> keep RPanic SAny)
                     | _ -> keep RPanic SAny)
                  | _ -> keep RPanic SAny)
               | _ -> keep RPanic SAny)
            | XO p2 ->
              (match p2 with
               | XI p3 ->
                 (match p3 with
                  | XO p4 ->
                    (match p4 with
                     | XH ->
                       let sp = sp_optnum (nth_opt xs itpos) in
                       (match wm_iter_next c m itpos with
                        | Ok a ->
                          let (p5, r) = a in
                          (((DWM (m, k, xs, p5)),
                          (match r with
                           | Some b -> RNum b
                           | None -> RNone)), sp)
                        | Panic -> keep RPanic sp)
                     | _ -> keep RPanic SAny)
                  | _ -> keep RPanic SAny)
               | _ -> keep RPanic SAny)
            | XH -> keep RPanic SAny)
         | XH -> keep RPanic SAny)
      | XO p0 ->
        (match p0 with
         | XI p1 ->
           (match p1 with
            | XI p2 ->
              (match p2 with
               | XI p3 ->
                 (match p3 with
                  | XO p4 ->
                    (match p4 with
                     | XO p5 ->
                       (match p5 with
                        | XH ->
                          keep (rv_optnum (wm_access c m a0))
                            (sp_optnum (nth_opt xs a0))
                        | _ -> keep RPanic SAny)
                     | _ -> keep RPanic SAny)
                  | _ -> keep RPanic SAny)
               | XO p3 ->
                 (match p3 with
                  | XI p4 ->
                    (match p4 with
                     | XO p5 ->
                       (match p5 with
                        | XH ->
                          keep (rv_optnum (wm_select0 c m a0 a1))
                            (sp_optnum (wm_select xs a0 a1))
                        | _ -> keep RPanic SAny)
                     | _ -> keep RPanic SAny)
                  | _ -> keep RPanic SAny)
               | XH -> keep RPanic SAny)
            | XO p2 ->
              (match p2 with
               | XI p3 ->
                 (match p3 with
                  | XO p4 ->
                    (match p4 with
                     | XH ->
                       keep (hint_rv c (wm_len m) itpos)
                         (hint_pred (N.sub (lenN xs) itpos))
                     | _ -> keep RPanic SAny)
                  | _ -> keep RPanic SAny)
               | XO _ -> keep RPanic SAny
               | XH -> keep (RNum (wm_len m)) (SExact (RNum (lenN xs))))
            | XH -> keep RPanic SAny)
         | XO p1 ->
           (match p1 with
            | XI p2 ->
              (match p2 with
               | XO p3 ->
                 (match p3 with
                  | XI p4 ->
                    (match p4 with
                     | XO p5 ->
                       (match p5 with
                        | XH ->
                          keep (rv_optnum (wm_rank c m a0 a1))
                            (sp_optnum (wm_rank_range xs N0 a0 a1))
                        | _ -> keep RPanic SAny)
                     | _ -> keep RPanic SAny)
                  | _ -> keep RPanic SAny)
               | _ -> keep RPanic SAny)
            | XO p2 ->
              (match p2 with
               | XI p3 ->
                 (match p3 with
                  | XI p4 ->
                    (match p4 with
                     | XO p5 ->
                       (match p5 with
                        | XH ->
                          let rs = pairs (nth O data []) in
                          keep
                            (rv_on (fun x -> RNums x)
                              (wm_intersect0 c m rs a0))
                            (sp_on (fun x -> RNums x) (wm_intersect xs rs a0))
                        | _ -> keep RPanic SAny)
                     | _ -> keep RPanic SAny)
                  | XO p4 ->
                    (match p4 with
                     | XH -> (((DWM (m, k, xs, N0)), ROk), (SExact ROk))
                     | _ -> keep RPanic SAny)
                  | XH -> keep RPanic SAny)
               | _ -> keep RPanic SAny)
            | XH -> keep RPanic SAny)
         | XH -> keep RPanic SAny)
      | XH -> keep RPanic SAny))

(** val step_broad : cfg -> n -> n list -> rv * sres **)

let step_broad c code args =
  let x = arg args O in
  (match code with
   | N0 -> (RPanic, SAny)
   | Npos p ->
     (match p with
      | XI p0 ->
        (match p0 with
         | XI p1 ->
           (match p1 with
            | XO p2 ->
              (match p2 with
               | XI p3 ->
                 (match p3 with
                  | XI p4 ->
                    (match p4 with
                     | XO p5 ->
                       (match p5 with
                        | XH ->
                          ((rv_optnum (lsb c x)), (sp_optnum (lsb_spec x)))
                        | _ -> (RPanic, SAny))
                     | _ -> (RPanic, SAny))
                  | _ -> (RPanic, SAny))
               | _ -> (RPanic, SAny))
            | _ -> (RPanic, SAny))
         | XO p1 ->
           (match p1 with
            | XO p2 ->
              (match p2 with
               | XI p3 ->
                 (match p3 with
                  | XI p4 ->
                    (match p4 with
                     | XO p5 ->
                       (match p5 with
                        | XH ->
                          ((rv_optnum (select_in_word c x (arg args (S O)))),
                            (sp_optnum
                              (select_in_word_spec x (arg args (S O)))))
                        | _ -> (RPanic, SAny))
                     | _ -> (RPanic, SAny))
                  | _ -> (RPanic, SAny))
               | _ -> (RPanic, SAny))
            | _ -> (RPanic, SAny))
         | XH -> (RPanic, SAny))
      | XO p0 ->
        (match p0 with
         | XI p1 ->
           (match p1 with
            | XO p2 ->
              (match p2 with
               | XI p3 ->
                 (match p3 with
                  | XI p4 ->
                    (match p4 with
                     | XO p5 ->
                       (match p5 with
                        | XH ->
                          ((rv_num (popcount c x)), (SExact (RNum (popcN x))))
                        | _ -> (RPanic, SAny))
                     | _ -> (RPanic, SAny))
                  | _ -> (RPanic, SAny))
               | _ -> (RPanic, SAny))
            | _ -> (RPanic, SAny))
         | XO p1 ->
           (match p1 with
            | XI p2 ->
              (match p2 with
               | XI p3 ->
                 (match p3 with
                  | XI p4 ->
                    (match p4 with
                     | XO p5 ->
                       (match p5 with
                        | XH ->
                          ((rv_optnum (msb c x)), (sp_optnum (msb_spec x)))
                        | _ -> (RPanic, SAny))
                     | _ -> (RPanic, SAny))
                  | _ -> (RPanic, SAny))
               | _ -> (RPanic, SAny))
            | _ -> (RPanic, SAny))
         | XH -> (RPanic, SAny))
      | XH -> (RPanic, SAny)))

(** val init : cfg -> n -> n list -> n list list -> (dstate * rv) * sres **)

let init c kind args data =
  let ws = nth O data [] in
  let bvlen = arg args O in
  let bv = { bv_words = ws; bv_len = bvlen } in
  let bits = fun _ -> bits_of_words ws bvlen in
  let bad = ((DNone, RPanic), (SExact ROk)) in
  (match kind with
   | N0 -> ((DNone, RPanic), SAny)
   | Npos p ->
     (match p with
      | XI p0 ->
        (match p0 with
         | XI p1 ->
           (match p1 with
            | XI _ -> ((DNone, RPanic), SAny)
            | XO p2 ->
              (match p2 with
               | XH -> ((DBroad, ROk), (SExact ROk))
               | _ -> ((DNone, RPanic), SAny))
            | XH ->
              let mlo =
                if nz (arg args O) then Some (arg args (S O)) else None
              in
              let ml =
                match mlo with
                | Some x -> x
                | None -> Npos (XO (XO (XO (XO (XO (XO XH))))))
              in
              let sp = SExact
                (if (&&) (N.leb (Npos XH) ml)
                      (N.leb ml (Npos (XO (XO (XO (XO (XO (XO XH))))))))
                 then ROk
                 else RErr)
              in
              (match do_from_slice c ws mlo with
               | Ok a ->
                 (match a with
                  | Some m -> (((DDO (m, ws, ml, N0)), ROk), sp)
                  | None -> ((DNone, RErr), sp))
               | Panic -> ((DNone, RPanic), sp)))
         | XO p1 ->
           (match p1 with
            | XI p2 ->
              (match p2 with
               | XH ->
                 (match from_bit c (nz (arg args O)) (arg args (S O)) with
                  | Ok m ->
                    (((DBig (m, (nz (arg args O)))), ROk), (SExact ROk))
                  | Panic -> bad)
               | _ -> ((DNone, RPanic), SAny))
            | XO p2 ->
              (match p2 with
               | XH ->
                 let sp = SExact (match ws with
                                  | [] -> RErr
                                  | _ :: _ -> ROk) in
                 (match ps_from_slice c ws with
                  | Ok a ->
                    (match a with
                     | Some m -> (((DPS (m, ws, N0)), ROk), sp)
                     | None -> ((DNone, RErr), sp))
                  | Panic -> ((DNone, RPanic), sp))
               | _ -> ((DNone, RPanic), SAny))
            | XH ->
              let sp = SExact
                (if N.eqb (arg args (S O)) N0 then RErr else ROk)
              in
              (match efb_new c (arg args O) (arg args (S O)) with
               | Ok a ->
                 (match a with
                  | Some b ->
                    (((DEFB (b, (arg args O), (arg args (S O)), [])), ROk),
                      sp)
                  | None -> ((DNone, RErr), sp))
               | Panic -> ((DNone, RPanic), sp)))
         | XH ->
           (match da_build_cfg c bv (nz (arg args (S O)))
                    (nz (arg args (S (S O)))) with
            | Ok m -> (((DDA (m, (bits ()))), ROk), (SExact ROk))
            | Panic -> bad))
      | XO p0 ->
        (match p0 with
         | XI p1 ->
           (match p1 with
            | XI p2 ->
              (match p2 with
               | XH -> ((DWrap, ROk), (SExact ROk))
               | _ -> ((DNone, RPanic), SAny))
            | XO p2 ->
              (match p2 with
               | XH ->
                 let k =
                   if N.eqb (arg args O) N0
                   then KRank9
                   else if N.eqb (arg args O) (Npos XH)
                        then KDArray
                        else KBitVec
                 in
                 let sp = SExact (match ws with
                                  | [] -> RErr
                                  | _ :: _ -> ROk) in
                 (match wm_new c k ws with
                  | Ok a ->
                    (match a with
                     | Some m -> (((DWM (m, k, ws, N0)), ROk), sp)
                     | None -> ((DNone, RErr), sp))
                  | Panic -> ((DNone, RPanic), sp))
               | _ -> ((DNone, RPanic), SAny))
            | XH -> (((DCV (cv_default, [], N0)), ROk), (SExact ROk)))
         | XO p1 ->
           (match p1 with
            | XI p2 ->
              (match p2 with
               | XH ->
                 let sp = SExact
                   (if (||) (N.eqb bvlen N0) (N.eqb (count true (bits ())) N0)
                    then RErr
                    else ROk)
                 in
                 (match ef_from_bits c bv with
                  | Ok a ->
                    (match a with
                     | Some e ->
                       let xs = positions true (bits ()) in
                       (match efi_new c e (lenN xs) with
                        | Ok it -> (((DEF (e, bvlen, xs, it, [])), ROk), sp)
                        | Panic -> ((DNone, RPanic), sp))
                     | None -> ((DNone, RErr), sp))
                  | Panic -> ((DNone, RPanic), sp))
               | _ -> ((DNone, RPanic), SAny))
            | XO p2 ->
              (match p2 with
               | XH ->
                 (match db_from_slice c ws with
                  | Ok m -> (((DDB (m, ws, N0)), ROk), (SExact ROk))
                  | Panic -> bad)
               | _ -> ((DNone, RPanic), SAny))
            | XH ->
              (match bind (sa_from_bv c bv) (fun s ->
                       if nz (arg args (S O))
                       then sa_enable_rank c s
                       else Ok s) with
               | Ok m -> (((DSA (m, (bits ()))), ROk), (SExact ROk))
               | Panic -> bad))
         | XH ->
           (match r9_build c bv (nz (arg args (S O)))
                    (nz (arg args (S (S O)))) with
            | Ok m -> (((DR9 (m, (bits ()))), ROk), (SExact ROk))
            | Panic -> bad))
      | XH ->
        (((DBitVec (bv_empty, [], (unary_new bv_empty N0), N0, N0)), ROk),
          (SExact ROk))))

(** val step1 :
    cfg -> dstate -> n -> n list -> n list list -> (dstate * rv) * sres **)

let step1 c st code args data =
  if N.leb (Npos (XO (XO (XO (XI (XO (XI (XI (XI (XI XH)))))))))) code
  then init c
         (N.sub code (Npos (XO (XO (XO (XI (XO (XI (XI (XI (XI XH)))))))))))
         args data
  else (match st with
        | DWrap -> ((st, (RBool true)), (SExact (RBool true)))
        | _ ->
          if N.leb (Npos (XI (XO (XI (XI (XI (XO XH))))))) code
          then let cached =
                 match st with
                 | DSer (_, _, _, _, _) -> Some st
                 | _ ->
                   (match st_val st with
                    | Some p ->
                      let (t, v) = p in
                      Some (DSer (st, t, v, (ser t v), (size0 t v)))
                    | None -> None)
               in
               (match cached with
                | Some d ->
                  (match d with
                   | DSer (inner, t, v, bytes, sz) ->
                     (match ser_step inner t v bytes sz code args with
                      | Some p ->
                        let (r, sp) = p in
                        (((DSer (inner, t, v, bytes, sz)), r), sp)
                      | None -> ((st, RPanic), SAny))
                   | _ -> ((st, RPanic), SAny))
                | None -> ((st, RPanic), SAny))
          else let st0 =
                 match st with
                 | DSer (inner, _, _, _, _) -> inner
                 | _ -> st
               in
               (match st0 with
                | DBitVec (m, s, ui, ucur, itpos) ->
                  step_bitvec c m s ui ucur itpos code args data
                | DR9 (m, s) ->
                  let (r, sp) = step_r9 c m s code args in ((st0, r), sp)
                | DDA (m, s) ->
                  let (r, sp) = step_da c m s code args in ((st0, r), sp)
                | DSA (m, s) ->
                  let (r, sp) = step_sa c m s code args in ((st0, r), sp)
                | DEFB (m, u, mm, acc) -> step_efb c m u mm acc code args data
                | DEF (m, u, xs, it, itleft) ->
                  step_ef c m u xs it itleft code args
                | DCV (m, xs, itpos) -> step_cv c m xs itpos code args data
                | DDO (m, xs, ml, itpos) -> step_do c m xs ml itpos code args
                | DDB (m, xs, itpos) -> step_db c m xs itpos code args
                | DPS (m, xs, itpos) -> step_ps c m xs itpos code args
                | DWM (m, k, xs, itpos) ->
                  step_wm c m k xs itpos code args data
                | DBroad ->
                  let (r, sp) = step_broad c code args in ((st0, r), sp)
                | DWrap -> ((st0, (RBool true)), (SExact (RBool true)))
                | DBig (m, bit) ->
                  let a0 = arg args O in
                  (match code with
                   | N0 -> ((st0, RPanic), SAny)
                   | Npos p ->
                     (match p with
                      | XI p0 ->
                        (match p0 with
                         | XI p1 ->
                           (match p1 with
                            | XO p2 ->
                              (match p2 with
                               | XH ->
                                 ((st0, (rv_optbool (get_bit c m a0))),
                                   (SExact
                                   (if N.ltb a0 m.bv_len
                                    then RBool bit
                                    else RNone)))
                               | _ -> ((st0, RPanic), SAny))
                            | _ -> ((st0, RPanic), SAny))
                         | _ -> ((st0, RPanic), SAny))
                      | XO p0 ->
                        (match p0 with
                         | XI p1 ->
                           (match p1 with
                            | XI p2 ->
                              (match p2 with
                               | XH ->
                                 ((st0,
                                   (match bind (r9_new c m) (fun x ->
                                            r9_rank1 c x a0) with
                                    | Ok a ->
                                      (match a with
                                       | Some r -> RNum r
                                       | None -> RNone)
                                    | Panic -> RPanic)), (SExact
                                   (if N.leb a0 m.bv_len
                                    then RNum (if bit then a0 else N0)
                                    else RNone)))
                               | _ -> ((st0, RPanic), SAny))
                            | _ -> ((st0, RPanic), SAny))
                         | _ -> ((st0, RPanic), SAny))
                      | XH -> ((st0, RPanic), SAny)))
                | _ -> ((st0, RPanic), SAny)))

(** val nth_default : cfg -> dstate -> n -> nat -> (dstate * rv) * sres **)

let rec nth_default c st nx fuel =
  let (p, sp) = step1 c st nx [] [] in
  let (st', r) = p in
  (match fuel with
   | O -> ((st', r), sp)
   | S f ->
     (match r with
      | RNone -> ((st', r), sp)
      | RPanic -> ((st', r), sp)
      | _ -> nth_default c st' nx f))

(** val drain :
    cfg -> dstate -> n -> nat -> n -> rv -> bool -> (dstate * (n * rv)
    res) * bool **)

let rec drain c st nx fuel cnt last ok =
  match fuel with
  | O -> ((st, Panic), ok)
  | S f ->
    let (p, sp) = step1 c st nx [] [] in
    let (st', r) = p in
    let ok' =
      (&&) ok
        (match sp with
         | SExact x ->
           (match x with
            | RNone -> (match r with
                        | RNone -> true
                        | _ -> false)
            | RNum a -> (match r with
                         | RNum b -> N.eqb a b
                         | _ -> false)
            | RBool a -> (match r with
                          | RBool b -> eqb a b
                          | _ -> false)
            | _ -> false)
         | _ -> true)
    in
    (match r with
     | RNone -> ((st', (Ok (cnt, last))), ok')
     | RPanic -> ((st', Panic), ok')
     | _ -> drain c st' nx f (N.add cnt (Npos XH)) r ok')

(** val step :
    cfg -> dstate -> n -> n list -> n list list -> (dstate * rv) * sres **)

let step c st code args data =
  match code with
  | N0 -> step1 c st code args data
  | Npos p ->
    (match p with
     | XI p0 ->
       (match p0 with
        | XI p1 ->
          (match p1 with
           | XI p2 ->
             (match p2 with
              | XI p3 ->
                (match p3 with
                 | XO p4 ->
                   (match p4 with
                    | XH ->
                      let (p5, ok) =
                        drain c st (arg args O)
                          (N.to_nat (Npos (XI (XO (XO (XO (XO (XO (XI (XO (XI
                            (XO (XI (XI (XO (XO (XO (XO (XI
                            XH))))))))))))))))))) N0 RNone true
                      in
                      let (st', r) = p5 in
                      let m =
                        match r with
                        | Ok a ->
                          let (n0, l) = a in
                          if N.eqb code (Npos (XO (XI (XI (XI (XO XH))))))
                          then RNum n0
                          else l
                        | Panic -> RPanic
                      in
                      ((st', m),
                      (if ok then SExact m else SPred (fun _ -> false)))
                    | _ -> step1 c st code args data)
                 | _ -> step1 c st code args data)
              | _ -> step1 c st code args data)
           | XO p2 ->
             (match p2 with
              | XI p3 ->
                (match p3 with
                 | XO p4 ->
                   (match p4 with
                    | XH ->
                      nth_default c st (arg args (S O))
                        (N.to_nat
                          (N.min (arg args O) (Npos (XO (XO (XO (XO (XO (XO
                            (XI (XO (XI (XO (XI (XI (XO (XO (XO (XO (XI
                            XH))))))))))))))))))))
                    | _ -> step1 c st code args data)
                 | _ -> step1 c st code args data)
              | _ -> step1 c st code args data)
           | XH -> step1 c st code args data)
        | _ -> step1 c st code args data)
     | XO p0 ->
       (match p0 with
        | XI p1 ->
          (match p1 with
           | XI p2 ->
             (match p2 with
              | XI p3 ->
                (match p3 with
                 | XO p4 ->
                   (match p4 with
                    | XH ->
                      let (p5, ok) =
                        drain c st (arg args O)
                          (N.to_nat (Npos (XI (XO (XO (XO (XO (XO (XI (XO (XI
                            (XO (XI (XI (XO (XO (XO (XO (XI
                            XH))))))))))))))))))) N0 RNone true
                      in
                      let (st', r) = p5 in
                      let m =
                        match r with
                        | Ok a ->
                          let (n0, l) = a in
                          if N.eqb code (Npos (XO (XI (XI (XI (XO XH))))))
                          then RNum n0
                          else l
                        | Panic -> RPanic
                      in
                      ((st', m),
                      (if ok then SExact m else SPred (fun _ -> false)))
                    | _ -> step1 c st code args data)
                 | _ -> step1 c st code args data)
              | _ -> step1 c st code args data)
           | _ -> step1 c st code args data)
        | _ -> step1 c st code args data)
     | XH -> step1 c st code args data)
