(* Props/C16.v — EliasFanoBuilder accepts exactly the valid pushes and builds what it accepted.
   Pinned statements only; proofs are in Proofs/EFRep.v, Proofs/EFBuilder.v (and Proofs/EFQueries.v
   for the read-back through select).  The DArray layer (Model/DArray.v) entered those proofs through
   two premises, discharged in Proofs/Integration.v from Proofs/DAMain.v; the statements below are
   closed. *)
From Sucds Require Import Base.Res Spec.BitSpec Spec.SeqSpec Model.BitVector Model.DArray Model.EliasFano
  Proofs.BVAbs Proofs.IndexSpecs Proofs.EFRep Proofs.EFQueries Proofs.EFBuilder Proofs.Integration.
Open Scope N_scope.

(* new(u, 0) is rejected, in every configuration and for every u *)
Theorem C16_new_zero : forall c u, efb_new c u 0 = Ok None.
Proof. exact efb_new_zero. Qed.
Print Assumptions C16_new_zero.

(* (i) histories: for every universe u (a usize), capacity m >= 1 (within the memory bound) and
   every history of push / extend calls with arbitrary operands, in every build configuration:
   `new` succeeds, no call panics, the ok-flags are exactly those of the specification
   (SeqSpec.efb_accepts; extend stops at the first rejected item and keeps the earlier ones), and
   the final builder satisfies the invariant for the list of accepted values *)
Theorem C16_history : forall u m, u < W -> 1 <= m ->
  m + 2 + u / 2 ^ low_len_of u m < 2 ^ 56 -> m * low_len_of u m < 2 ^ 56 ->
  forall c ops,
  exists b0 b, efb_new c u m = Ok (Some b0) /\
    model_run c b0 ops = Ok (b, snd (spec_run u m [] ops)) /\
    efb_inv b (fst (spec_run u m [] ops)) u m.
Proof. exact efb_history. Qed.
Print Assumptions C16_history.

(* one push from any reachable state: accepted iff the specification accepts; a rejected push
   returns the builder unchanged (so it has no effect on later behaviour) *)
Theorem C16_push : forall u m, u < W -> 1 <= m ->
  m + 2 + u / 2 ^ low_len_of u m < 2 ^ 56 -> m * low_len_of u m < 2 ^ 56 ->
  forall c b acc v, efb_inv b acc u m ->
  exists b', efb_push c b v = Ok (b', snd (spec_apply u m acc (EPush v))) /\
             efb_inv b' (fst (spec_apply u m acc (EPush v))) u m /\
             (efb_accepts u m acc v = false -> b' = b).
Proof. exact efb_push_spec. Qed.
Print Assumptions C16_push.

(* extend from any reachable state *)
Theorem C16_extend : forall u m, u < W -> 1 <= m ->
  m + 2 + u / 2 ^ low_len_of u m < 2 ^ 56 -> m * low_len_of u m < 2 ^ 56 ->
  forall c vs b acc, efb_inv b acc u m ->
  exists b', efb_extend c b vs = Ok (b', snd (spec_extend u m acc vs)) /\
             efb_inv b' (fst (spec_extend u m acc vs)) u m.
Proof. exact efb_extend_spec. Qed.
Print Assumptions C16_extend.

(* the builder state is a function of (u, m, accepted values) *)
Theorem C16_state_unique : forall b b' acc u m, efb_inv b acc u m -> efb_inv b' acc u m -> b' = b.
Proof. exact efb_inv_unique. Qed.
Print Assumptions C16_state_unique.

(* low_len = floor(log2(u / m)) (0 when u < m), at most 63 *)
Theorem C16_low_len : forall u m, u < W -> 1 <= m ->
  low_len_of u m < 64 /\ (u < m -> low_len_of u m = 0) /\
  (m <= u -> 2 ^ low_len_of u m <= u / m < 2 ^ (low_len_of u m + 1)).
Proof.
  intros u m Hu Hm. split; [apply low_len_lt; assumption|]. split; [apply low_len_small|].
  intro H. apply low_len_bounds; assumption.
Qed.
Print Assumptions C16_low_len.

(* (ii) build: the same Elias-Fano value in every configuration; it represents exactly the
   accepted values with universe u: len, universe and full read-back through select *)
Theorem C16_build : forall u m ops, u < W -> 1 <= m ->
  m + 2 + u / 2 ^ low_len_of u m < 2 ^ 56 -> m * low_len_of u m < 2 ^ 56 ->
  let acc := fst (spec_run u m [] ops) in
  exists e, ef_rep e acc u /\
    (forall c, exists b0 b, efb_new c u m = Ok (Some b0) /\
       model_run c b0 ops = Ok (b, snd (spec_run u m [] ops)) /\
       efb_inv b acc u m /\ efb_build c b = Ok e) /\
    ef_len e = lenN acc /\ ef_universe e = u /\
    (forall c k, ef_select c e k = Ok (SeqSpec.ef_select acc k)).
Proof. exact efb_build_history_closed. Qed.
Print Assumptions C16_build.

(* build from any builder state satisfying the invariant *)
Theorem C16_build_state : forall u m b acc, u < W -> 1 <= m ->
  m + 2 + u / 2 ^ low_len_of u m < 2 ^ 56 -> m * low_len_of u m < 2 ^ 56 ->
  efb_inv b acc u m ->
  exists e, (forall c, efb_build c b = Ok e) /\ ef_rep e acc u /\
            da_bv (ef_high e) = b_high b /\ ef_low e = b_low b.
Proof. exact efb_build_ok_closed. Qed.
Print Assumptions C16_build_state.

(* enable_rank keeps the represented sequence and adds the select0 index *)
Theorem C16_enable_rank : forall e xs u, ef_rep e xs u ->
  exists e', (forall c, ef_enable_rank c e = Ok e') /\ ef_rep e' xs u /\ da_s0 (ef_high e') <> None.
Proof. exact ef_enable_rank_ok_closed. Qed.
Print Assumptions C16_enable_rank.

(* ---- a concrete history: valid pushes, a decreasing value, a value >= u, an extend that stops
   at its first rejected item, and a push beyond the capacity ---- *)
Definition c16_ops : list efop :=
  [EPush 3; EPush 2; EPush 3; EPush 100; EExtend [40; 41; 7; 50]; EPush 99; EPush 99; EExtend []].
Definition c16_run (c : cfg) : res (list bool * N * N * list (option N)) :=
  b <- efb_new c 100 5 ;; b <- unwrap b ;;
  r <- model_run c b c16_ops ;;
  e <- efb_build c (fst r) ;;
  s <- map_res (ef_select c e) (nseq 7) ;;
  Ok (snd r, ef_len e, ef_universe e, s).
Example C16_example :
  spec_run 100 5 [] c16_ops = ([3; 3; 40; 41; 99], [true; false; true; false; false; true; false; true]) /\
  (5 + 2 + 100 / 2 ^ low_len_of 100 5 <? 2 ^ 56) && (5 * low_len_of 100 5 <? 2 ^ 56) = true /\
  c16_run {| dbg := true; intr := false |} =
    Ok ([true; false; true; false; false; true; false; true], 5, 100,
        [Some 3; Some 3; Some 40; Some 41; Some 99; None; None]) /\
  c16_run {| dbg := false; intr := true |} = c16_run {| dbg := true; intr := false |}.
Proof. vm_compute. repeat split. Qed.
