(* Props/C09.v — CompactVector is a faithful fixed-width integer list under any history of
   new / with_capacity / from_int / from_slice / push_int / set_int / extend.
   Pinned statements only; proofs are in Proofs/CVRep.v, Proofs/CVOps.v, Proofs/CVHistory.v. *)
From Sucds Require Import Base.Res Spec.BitSpec Spec.SeqSpec Spec.DacSpec
  Model.BitVector Model.CompactVector Proofs.BVAbs Proofs.CVRep Proofs.CVOps Proofs.CVHistory.
Open Scope N_scope.

(* ---- the representation invariant ---- *)
(* cv_rep: widths 1..=64 (what new / with_capacity / from_int / from_slice of a non-empty slice build);
   cv_inv: the same with widths 0..=64, which also covers the default vector of from_slice(&[]) *)
Theorem C09_rep_unfold : forall v xs, cv_rep v xs <->
  (wf (cv_chunks v) /\ cv_len v = lenN xs /\ 1 <= cv_width v <= 64 /\
   Forall (fun x => x < 2 ^ cv_width v) xs /\
   bits_of (cv_chunks v) = flat_map (low_bits (N.to_nat (cv_width v))) xs).
Proof. exact (fun v xs => iff_refl _). Qed.
Print Assumptions C09_rep_unfold.
Theorem C09_inv_unfold : forall v xs, cv_inv v xs <->
  (wf (cv_chunks v) /\ cv_len v = lenN xs /\ cv_width v <= 64 /\
   Forall (fun x => x < 2 ^ cv_width v) xs /\
   bits_of (cv_chunks v) = flat_map (low_bits (N.to_nat (cv_width v))) xs).
Proof. exact (fun v xs => iff_refl _). Qed.
Print Assumptions C09_inv_unfold.
Theorem C09_rep_inv : forall v xs, cv_rep v xs <-> cv_inv v xs /\ 1 <= cv_width v.
Proof. exact cv_rep_inv. Qed.
Print Assumptions C09_rep_inv.
Theorem C09_bit_length : forall v xs, cv_inv v xs -> bv_len (cv_chunks v) = lenN xs * cv_width v.
Proof. exact cv_inv_bvlen. Qed.
Print Assumptions C09_bit_length.

(* ---- (1) constructors: Err (None) exactly when the rules reject ---- *)
Theorem C09_new : forall w,
  if wok w then exists v, cv_new w = Some v /\ cv_rep v [] /\ cv_width v = w
  else cv_new w = None.
Proof. exact cv_new_spec. Qed.
Print Assumptions C09_new.
Theorem C09_with_capacity : forall c capa w, (wok w = true -> capa * w + 64 < W) ->
  cv_with_capacity c capa w = Ok (cv_new w).
Proof. exact cv_with_capacity_spec. Qed.
Print Assumptions C09_with_capacity.
Theorem C09_from_int : forall c val len w, val < W -> len < W ->
  (wok w && fitsb w val = true -> len * w < 2 ^ 56) ->
  if wok w && fitsb w val
  then exists v, cv_from_int c val len w = Ok (Some v) /\
                 cv_rep v (repeat val (N.to_nat len)) /\ cv_width v = w
  else cv_from_int c val len w = Ok None.
Proof. exact cv_from_int_spec. Qed.
Print Assumptions C09_from_int.
Theorem C09_from_slice : forall c l, l <> [] -> Forall (fun x => x < W) l ->
  lenN l * bitlen (max_list l) < 2 ^ 56 ->
  exists v, cv_from_slice c l = Ok (Some v) /\ cv_rep v l /\ cv_width v = bitlen (max_list l).
Proof. exact cv_from_slice_spec. Qed.
Print Assumptions C09_from_slice.
Theorem C09_from_slice_nil : forall c, cv_from_slice c [] = Ok (Some cv_default).
Proof. exact cv_from_slice_nil. Qed.
Print Assumptions C09_from_slice_nil.
Theorem C09_default_inv : cv_inv cv_default [].
Proof. exact cv_inv_default. Qed.
Print Assumptions C09_default_inv.

(* ---- (1) mutators: accepted iff the rules accept; a rejection leaves the vector unchanged ---- *)
Theorem C09_push_int : forall c v xs x, cv_rep v xs -> x < W ->
  (x < 2 ^ cv_width v -> (lenN xs + 1) * cv_width v < 2 ^ 56) ->
  exists v' ok, cv_push_int c v x = Ok (v', ok) /\ ok = fitsb (cv_width v) x /\
    cv_width v' = cv_width v /\
    (ok = true -> cv_rep v' (xs ++ [x])) /\ (ok = false -> v' = v).
Proof. exact cv_push_int_spec. Qed.
Print Assumptions C09_push_int.
Theorem C09_set_int : forall c v xs pos x, cv_rep v xs -> pos < W -> x < W ->
  lenN xs * cv_width v < 2 ^ 56 ->
  exists v' ok, cv_set_int c v pos x = Ok (v', ok) /\
    ok = (pos <? lenN xs) && fitsb (cv_width v) x /\ cv_width v' = cv_width v /\
    (ok = true -> cv_rep v' (setN xs pos x)) /\ (ok = false -> v' = v).
Proof. exact cv_set_int_spec. Qed.
Print Assumptions C09_set_int.
(* extend keeps the items before the first misfit and is accepted iff all items fit *)
Theorem C09_extend : forall c v xs l, cv_rep v xs -> Forall (fun x => x < W) l ->
  (lenN xs + lenN (fit_prefix (cv_width v) l)) * cv_width v < 2 ^ 56 ->
  exists v' ok, cv_extend c v l = Ok (v', ok) /\ ok = forallb (fitsb (cv_width v)) l /\
    cv_width v' = cv_width v /\ cv_rep v' (xs ++ fit_prefix (cv_width v) l).
Proof. exact cv_extend_spec. Qed.
Print Assumptions C09_extend.
Theorem C09_extend_all : forall w l, forallb (fitsb w) l = true -> fit_prefix w l = l.
Proof. exact fit_prefix_all. Qed.
Print Assumptions C09_extend_all.
(* the same for every width 0..=64 (default vector included) *)
Theorem C09_push_int_inv : forall c v xs x, cv_inv v xs -> x < W ->
  (fitsb (cv_width v) x = true -> cv_cap (cv_width v) (lenN xs + 1)) ->
  exists v', cv_push_int c v x = Ok (v', fitsb (cv_width v) x) /\ cv_width v' = cv_width v /\
    (if fitsb (cv_width v) x then cv_inv v' (xs ++ [x]) else v' = v).
Proof. exact cv_push_int_inv. Qed.
Print Assumptions C09_push_int_inv.
Theorem C09_set_int_inv : forall c v xs pos x, cv_inv v xs -> pos < W -> x < W ->
  cv_cap (cv_width v) (lenN xs) ->
  exists v', cv_set_int c v pos x = Ok (v', (pos <? lenN xs) && fitsb (cv_width v) x) /\
    cv_width v' = cv_width v /\
    (if (pos <? lenN xs) && fitsb (cv_width v) x then cv_inv v' (setN xs pos x) else v' = v).
Proof. exact cv_set_int_inv. Qed.
Print Assumptions C09_set_int_inv.
Theorem C09_extend_inv : forall c v l xs, cv_inv v xs -> Forall (fun x => x < W) l ->
  cv_cap (cv_width v) (lenN xs + lenN (fit_prefix (cv_width v) l)) ->
  exists v', cv_extend c v l = Ok (v', forallb (fitsb (cv_width v)) l) /\
    cv_width v' = cv_width v /\ cv_inv v' (xs ++ fit_prefix (cv_width v) l).
Proof. exact cv_extend_inv. Qed.
Print Assumptions C09_extend_inv.

(* ---- (2) reads: the i-th integer for i < len, None for every other i in usize ---- *)
Theorem C09_get_int : forall c v xs, cv_rep v xs -> lenN xs * cv_width v < 2 ^ 56 ->
  forall pos, pos < W -> cv_get_int c v pos = Ok (nth_opt xs pos).
Proof. exact cv_get_int_spec. Qed.
Print Assumptions C09_get_int.
Theorem C09_access : forall c v xs, cv_rep v xs -> lenN xs * cv_width v < 2 ^ 56 ->
  forall pos, pos < W -> cv_access c v pos = Ok (nth_opt xs pos).
Proof. exact cv_access_spec. Qed.
Print Assumptions C09_access.
Theorem C09_get_int_inv : forall c v xs, cv_inv v xs -> cv_cap (cv_width v) (lenN xs) ->
  forall pos, pos < W -> cv_get_int c v pos = Ok (nth_opt xs pos).
Proof. exact cv_get_int_inv. Qed.
Print Assumptions C09_get_int_inv.
Theorem C09_get_int_default : forall c pos, cv_get_int c cv_default pos = Ok None.
Proof. exact cv_get_int_default. Qed.
Print Assumptions C09_get_int_default.
Theorem C09_iter : forall c v xs, cv_rep v xs -> lenN xs * cv_width v < 2 ^ 56 ->
  forall pos, pos < W ->
  cv_iter_next c v pos = Ok (if pos <? lenN xs then (pos + 1, nth_opt xs pos) else (pos, None)).
Proof. exact cv_iter_next_spec. Qed.
Print Assumptions C09_iter.
Theorem C09_to_list : forall c v xs, cv_rep v xs -> lenN xs * cv_width v < 2 ^ 56 ->
  cv_to_list c v = Ok xs.
Proof. exact cv_to_list_spec. Qed.
Print Assumptions C09_to_list.

(* ---- (3) histories ---- *)
(* one operation from related states; a rejected constructor / push_int / set_int leaves the
   current vector unchanged *)
Theorem C09_step : forall c ov s o, st_rel ov s -> cvop_ok s o ->
  exists ov', apply_cvop_model c ov o = Ok (ov', snd (apply_cvop_spec s o)) /\
    st_rel ov' (fst (apply_cvop_spec s o)) /\
    (snd (apply_cvop_spec s o) = false -> is_extend o = false -> ov' = ov).
Proof. exact apply_cvop_model_spec. Qed.
Print Assumptions C09_step.
Theorem C09_history : forall c ops, cvops_ok None ops ->
  exists ov, run_cv_model c None ops = Ok (ov, snd (run_cvops None ops)) /\
    st_rel ov (fst (run_cvops None ops)).
Proof. exact cv_history_spec. Qed.
Print Assumptions C09_history.
Theorem C09_history_reads : forall c ops w xs, cvops_ok None ops ->
  fst (run_cvops None ops) = Some (w, xs) ->
  exists v, run_cv_model c None ops = Ok (Some v, snd (run_cvops None ops)) /\
    cv_width v = w /\ cv_len v = lenN xs /\
    (forall pos, pos < W -> cv_get_int c v pos = Ok (nth_opt xs pos)) /\
    (forall pos, pos < W -> cv_iter_next c v pos =
       Ok (if pos <? lenN xs then (pos + 1, nth_opt xs pos) else (pos, None))) /\
    cv_to_list c v = Ok xs.
Proof. exact cv_history_reads. Qed.
Print Assumptions C09_history_reads.
(* the relation of the history theorems, and the capacity bound for the widths 1..=64 *)
Theorem C09_st_rel_unfold : forall v w xs, st_rel (Some v) (Some (w, xs)) <-> cv_width v = w /\ cv_inv v xs.
Proof. exact (fun v w xs => iff_refl _). Qed.
Print Assumptions C09_st_rel_unfold.
Theorem C09_st_cap : forall w xs, 1 <= w -> (st_cap (Some (w, xs)) <-> lenN xs * w < 2 ^ 56).
Proof. exact st_cap_rep. Qed.
Print Assumptions C09_st_cap.
Theorem C09_okb_sound : forall ops s, cvops_okb s ops = true -> cvops_ok s ops.
Proof. exact cvops_okb_sound. Qed.
Print Assumptions C09_okb_sound.

(* ---- (4) canonicity: equal width + contents compare equal ---- *)
Theorem C09_canonical : forall a b xs, cv_rep a xs -> cv_rep b xs -> cv_width a = cv_width b -> a = b.
Proof. exact cv_rep_canonical. Qed.
Print Assumptions C09_canonical.
Theorem C09_canonical_inv : forall a b xs, cv_inv a xs -> cv_inv b xs -> cv_width a = cv_width b -> a = b.
Proof. exact cv_inv_canonical. Qed.
Print Assumptions C09_canonical_inv.
Theorem C09_eqb : forall a b, cv_eqb a b = true <-> a = b.
Proof. exact cv_eqb_spec. Qed.
Print Assumptions C09_eqb.
Theorem C09_history_canonical : forall c1 c2 ops1 ops2, cvops_ok None ops1 -> cvops_ok None ops2 ->
  fst (run_cvops None ops1) = fst (run_cvops None ops2) ->
  exists ov, run_cv_model c1 None ops1 = Ok (ov, snd (run_cvops None ops1)) /\
             run_cv_model c2 None ops2 = Ok (ov, snd (run_cvops None ops2)).
Proof. exact cv_history_canonical. Qed.
Print Assumptions C09_history_canonical.

(* ---- a concrete history with accepted and rejected operations satisfies the hypotheses ---- *)
Example C09_example :
  let h := [CPush 3; CNew 0; CNew 65; CNew 7; CPush 127; CPush 128; CPush 0; CSet 1 5; CSet 2 5;
            CSet 0 128; CSet (2 ^ 62) 1; CExtend [1; 2; 128; 3]; CExtend [9; 10]; CSet 4 100] in
  cvops_ok None h /\
  run_cvops None h =
    (Some (7, [127; 5; 1; 2; 100; 10]),
     [false; false; false; true; true; false; true; true; false; false; false; false; true; true]).
Proof. split; [apply cvops_okb_sound; vm_compute; reflexivity | vm_compute; reflexivity]. Qed.
Print Assumptions C09_example.
Example C09_examples_ok : Forall (cvops_ok None) all_cvh.
Proof. exact cv_histories_ok. Qed.
Print Assumptions C09_examples_ok.
