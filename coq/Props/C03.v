(* Props/C03.v — SArray answers every query like the plain bit sequence, including the vector
   without ones and the empty vector.
   Pinned statements only; proofs are in Proofs/SALemmas.v, Proofs/SAMain.v (on top of the
   Elias-Fano proofs EFRep / EFQueries / EFIter / EFBuilder and the unary iterator UnaryIter).
   The two premises about the DArray layer (Model/DArray.v) under which Proofs/SAMain.v is stated
   are theorems of that layer; they are discharged in Proofs/Integration.v, and the closed
   versions pinned here come from Proofs/Integration2.v.
   Every query argument is an arbitrary N (in particular every usize). *)
From Sucds Require Import Base.Res Spec.BitSpec Spec.SeqSpec
  Model.BitVector Model.DArray Model.EliasFano Model.SArray
  Proofs.BVAbs Proofs.IndexSpecs Proofs.EFRep Proofs.EFBuilder Proofs.SALemmas Proofs.SAMain
  Proofs.Integration2.
Open Scope N_scope.

(* C03, end to end: for every well-formed bit vector within the memory bound, with or without
   enable_rank: from_bits [+ enable_rank] succeeds with the same value s in every build
   configuration; num_bits / num_ones are those of the bits; access and select1 agree with the
   plain bit sequence; with the rank index so do rank1, rank0, predecessor1, successor1.
   The premise is the capacity of the Elias-Fano layer (high part m + 2 + u / 2^l bits, low
   part m * l bits, both below 2^56; m ones, u bits, l = low_len_of u m); it is needed only
   when the vector has a one. *)
Theorem C03 :
  forall bv (with_rank : bool), wf bv -> cap_ok bv ->
  (1 <= count true (bits_of bv) ->
     count true (bits_of bv) + 2
       + bv_len bv / 2 ^ low_len_of (bv_len bv) (count true (bits_of bv)) < 2 ^ 56 /\
     count true (bits_of bv) * low_len_of (bv_len bv) (count true (bits_of bv)) < 2 ^ 56) ->
  let b := bits_of bv in
  exists s,
    (forall c, (s0 <- sa_from_bv c bv ;; if with_rank then sa_enable_rank c s0 else Ok s0) = Ok s) /\
    sa_num_bits s = bv_len bv /\ sa_num_ones s = count true b /\
    (forall c i, sa_access c s i = Ok (BitSpec.access b i)) /\
    (forall c k, sa_select1 c s k = Ok (BitSpec.select true b k)) /\
    (with_rank = true -> forall c p,
       sa_rank1 c s p = Ok (BitSpec.rank true b p) /\
       sa_rank0 c s p = Ok (BitSpec.rank false b p) /\
       sa_predecessor1 c s p = Ok (BitSpec.pred true b p) /\
       sa_successor1 c s p = Ok (BitSpec.succ true b p)).
Proof. exact sa_correct_closed. Qed.
Print Assumptions C03.

(* the same for every vector shorter than 2^55 - 1 bits: the capacity premise follows *)
Theorem C03_small :
  forall bv (with_rank : bool), wf bv -> bv_len bv + 1 < 2 ^ 55 ->
  let b := bits_of bv in
  exists s,
    (forall c, (s0 <- sa_from_bv c bv ;; if with_rank then sa_enable_rank c s0 else Ok s0) = Ok s) /\
    sa_num_bits s = bv_len bv /\ sa_num_ones s = count true b /\
    (forall c i, sa_access c s i = Ok (BitSpec.access b i)) /\
    (forall c k, sa_select1 c s k = Ok (BitSpec.select true b k)) /\
    (with_rank = true -> forall c p,
       sa_rank1 c s p = Ok (BitSpec.rank true b p) /\
       sa_rank0 c s p = Ok (BitSpec.rank false b p) /\
       sa_predecessor1 c s p = Ok (BitSpec.pred true b p) /\
       sa_successor1 c s p = Ok (BitSpec.succ true b p)).
Proof. exact sa_correct_small_closed. Qed.
Print Assumptions C03_small.

Theorem C03_capacity_small : forall bv, wf bv -> bv_len bv + 1 < 2 ^ 55 ->
  1 <= count true (bits_of bv) ->
  count true (bits_of bv) + 2
    + bv_len bv / 2 ^ low_len_of (bv_len bv) (count true (bits_of bv)) < 2 ^ 56 /\
  count true (bits_of bv) * low_len_of (bv_len bv) (count true (bits_of bv)) < 2 ^ 56.
Proof. exact sa_cap_small. Qed.
Print Assumptions C03_capacity_small.

(* ---- the pieces: `sa_rep s b` (Proofs/SAMain.v) is the representation invariant: the two
   counters, and either no Elias-Fano index and no one in b, or an index representing
   the set positions of b with universe |b| (with its select0 index if has_rank) ---- *)

(* construction yields the invariant *)
Theorem C03_build :
  forall bv (with_rank : bool), wf bv -> cap_ok bv -> sa_cap bv ->
  exists s,
    (forall c, (s0 <- sa_from_bv c bv ;; if with_rank then sa_enable_rank c s0 else Ok s0) = Ok s) /\
    sa_rep s (bits_of bv) /\ sa_has_rank s = with_rank.
Proof. exact sa_build_ok_closed. Qed.
Print Assumptions C03_build.

(* the two steps separately: from_bits (no rank index), enable_rank (keeps the invariant) *)
Theorem C03_from_bits : forall bv, wf bv -> cap_ok bv -> sa_cap bv ->
  exists s, (forall c, sa_from_bv c bv = Ok s) /\ sa_rep s (bits_of bv) /\ sa_has_rank s = false.
Proof. exact sa_from_bv_ok_closed. Qed.
Print Assumptions C03_from_bits.

Theorem C03_enable_rank : forall s b, sa_rep s b ->
  exists s', (forall c, sa_enable_rank c s = Ok s') /\ sa_rep s' b /\ sa_has_rank s' = true.
Proof. exact sa_enable_rank_ok_closed. Qed.
Print Assumptions C03_enable_rank.

(* the queries from the invariant alone *)
Theorem C03_access : forall s b, sa_rep s b ->
  forall c i, sa_access c s i = Ok (BitSpec.access b i).
Proof. exact sa_access_spec. Qed.
Print Assumptions C03_access.

Theorem C03_select1 : forall s b, sa_rep s b ->
  forall c k, sa_select1 c s k = Ok (BitSpec.select true b k).
Proof. exact sa_select1_spec. Qed.
Print Assumptions C03_select1.

Theorem C03_rank1 : forall s b, sa_rep s b -> sa_has_rank s = true ->
  forall c p, sa_rank1 c s p = Ok (BitSpec.rank true b p).
Proof. exact sa_rank1_spec. Qed.
Print Assumptions C03_rank1.

Theorem C03_rank0 : forall s b, sa_rep s b -> sa_has_rank s = true ->
  forall c p, sa_rank0 c s p = Ok (BitSpec.rank false b p).
Proof. exact sa_rank0_spec. Qed.
Print Assumptions C03_rank0.

Theorem C03_predecessor1 : forall s b, sa_rep s b -> sa_has_rank s = true ->
  forall c p, sa_predecessor1 c s p = Ok (BitSpec.pred true b p).
Proof. exact sa_predecessor1_spec. Qed.
Print Assumptions C03_predecessor1.

Theorem C03_successor1 : forall s b, sa_rep s b -> sa_has_rank s = true ->
  forall c p, sa_successor1 c s p = Ok (BitSpec.succ true b p).
Proof. exact sa_successor1_spec. Qed.
Print Assumptions C03_successor1.

(* without enable_rank the four rank-based queries panic (the `expect` in the Rust code) *)
Theorem C03_no_index : forall c s p, sa_has_rank s = false ->
  sa_rank1 c s p = Panic /\ sa_rank0 c s p = Panic /\
  sa_predecessor1 c s p = Panic /\ sa_successor1 c s p = Panic.
Proof.
  intros c s p H. split; [apply sa_rank1_no_index, H|]. split; [apply sa_rank0_no_index, H|].
  split; [apply sa_predecessor1_no_index, H | apply sa_successor1_no_index, H].
Qed.
Print Assumptions C03_no_index.

(* ---- concrete vectors: the executable model against the specification on every argument
   0 .. n-1 (beyond the length), in both build configurations ---- *)
Definition c03_run (c : cfg) (bv : bitvec) (n : N) :=
  s0 <- sa_from_bv c bv ;; s <- sa_enable_rank c s0 ;;
  let ps := nseq n in
  a0 <- map_res (sa_access c s0) ps ;; l0 <- map_res (sa_select1 c s0) ps ;;
  a <- map_res (sa_access c s) ps ;; l <- map_res (sa_select1 c s) ps ;;
  r1 <- map_res (sa_rank1 c s) ps ;; r0 <- map_res (sa_rank0 c s) ps ;;
  p <- map_res (sa_predecessor1 c s) ps ;; su <- map_res (sa_successor1 c s) ps ;;
  Ok (sa_num_bits s, sa_num_ones s, a0, l0, a, l, r1, r0, p, su).
Definition c03_spec (b : list bool) (n : N) :=
  let ps := nseq n in
  (lenN b, count true b, map (BitSpec.access b) ps, map (BitSpec.select true b) ps,
   map (BitSpec.access b) ps, map (BitSpec.select true b) ps,
   map (BitSpec.rank true b) ps, map (BitSpec.rank false b) ps,
   map (BitSpec.pred true b) ps, map (BitSpec.succ true b) ps).
Definition c03_check (bv : bitvec) (n : N) : bool :=
  match c03_run {| dbg := true; intr := false |} bv n, c03_run {| dbg := false; intr := true |} bv n with
  | Ok x, Ok y =>
      let z := c03_spec (bits_of bv) n in
      let eqo {A} (e : A -> A -> bool) (u v : option A) :=
        match u, v with Some a, Some b => e a b | None, None => true | _, _ => false end in
      let eql {A} (e : A -> A -> bool) (u v : list (option A)) :=
        (length u =? length v)%nat && forallb (fun p => eqo e (fst p) (snd p)) (combine u v) in
      let same (x z : _) :=
        let '(nb, no, a0, l0, a, l, r1, r0, p, su) := x in
        let '(nb', no', a0', l0', a', l', r1', r0', p', su') := z in
        (nb =? nb') && (no =? no') && eql Bool.eqb a0 a0' && eql N.eqb l0 l0' &&
        eql Bool.eqb a a' && eql N.eqb l l' && eql N.eqb r1 r1' && eql N.eqb r0 r0' &&
        eql N.eqb p p' && eql N.eqb su su' in
      same x z && same y z
  | _, _ => false
  end.

(* five zero bits: no Elias-Fano index at all *)
Example C03_example_all_zero :
  c03_run {| dbg := true; intr := false |} {| bv_words := [0]; bv_len := 5 |} 8
  = Ok (5, 0,
        [Some false; Some false; Some false; Some false; Some false; None; None; None],
        [None; None; None; None; None; None; None; None],
        [Some false; Some false; Some false; Some false; Some false; None; None; None],
        [None; None; None; None; None; None; None; None],
        [Some 0; Some 0; Some 0; Some 0; Some 0; Some 0; None; None],
        [Some 0; Some 1; Some 2; Some 3; Some 4; Some 5; None; None],
        [None; None; None; None; None; None; None; None],
        [None; None; None; None; None; None; None; None]) /\
  c03_check {| bv_words := [0]; bv_len := 5 |} 8 = true.
Proof. vm_compute. split; reflexivity. Qed.

(* the empty vector, a single one, and 150 bits in 3 words (42 padding bits, 77 ones) *)
Example C03_example_vectors :
  c03_check bv_empty 3 = true /\
  c03_check {| bv_words := [4]; bv_len := 4 |} 7 = true /\
  c03_check {| bv_words := [1]; bv_len := 1 |} 4 = true /\
  c03_check {| bv_words := [MASK64; MASK64]; bv_len := 128 |} 131 = true /\
  c03_check {| bv_words := [15744103915091742512; 8704277822599834806; 4151295]; bv_len := 150 |} 153
    = true.
Proof. vm_compute. repeat split. Qed.
