(* Props/C13.v — truncated input, failing writers, short and interrupted I/O (pinned statements). *)
From Sucds Require Import Base.Res Spec.FormatSpec Proofs.SerialGeneric Proofs.SerialIO.
Open Scope N_scope.

(* every strict prefix of a serialized value is rejected *)
Theorem C13_deser_prefix : forall t v n,
  vec_ok t = true -> wf_val t v = true -> (n < length (ser t v))%nat ->
  deser t (firstn n (ser t v)) = None.
Proof. exact deser_prefix. Qed.
Print Assumptions C13_deser_prefix.

Theorem C13_deser_strict_prefix : forall t v p q,
  vec_ok t = true -> wf_val t v = true -> ser t v = p ++ q -> q <> [] -> deser t p = None.
Proof. exact deser_strict_prefix. Qed.
Print Assumptions C13_deser_strict_prefix.

(* read_exact under every finite schedule of short / interrupted reads *)
Theorem C13_read_exact_sched : forall sched data n,
  ((n <= length data)%nat ->
   exists sched', read_exact n (data, sched) = IoOk (firstn n data, (skipn n data, sched'))) /\
  ((length data < n)%nat -> read_exact n (data, sched) = IoErr).
Proof. exact read_exact_sched. Qed.
Print Assumptions C13_read_exact_sched.

(* write_all under every finite schedule of short / interrupted writes *)
Theorem C13_write_all_sched : forall sched out buf,
  exists sched', write_all out sched buf = IoOk (out ++ buf, sched').
Proof. exact write_all_sched. Qed.
Print Assumptions C13_write_all_sched.

(* write_all on a writer with a total byte budget *)
Theorem C13_write_all_budget : forall budget written buf,
  write_all_budget budget written buf =
  if lenN buf <=? budget then IoOk (written ++ buf, budget - lenN buf) else IoErr.
Proof. exact write_all_budget_spec. Qed.
Print Assumptions C13_write_all_budget.

(* deserialization over a scheduled reader equals deserialization of the plain bytes
   (same value, same remaining data, Err iff Err, never out of fuel) *)
Theorem C13_deser_sched_agrees : forall t data sched,
  agrees (deser_sched t (data, sched)) (deser t data).
Proof. exact deser_sched_agrees. Qed.
Print Assumptions C13_deser_sched_agrees.

Theorem C13_roundtrip_sched : forall t v rest sched,
  vec_ok t = true -> wf_val t v = true ->
  exists sched', deser_sched t (ser t v ++ rest, sched) = IoOk (v, (rest, sched')).
Proof. exact ser_deser_sched. Qed.
Print Assumptions C13_roundtrip_sched.

Theorem C13_deser_prefix_sched : forall t v n sched,
  vec_ok t = true -> wf_val t v = true -> (n < length (ser t v))%nat ->
  deser_sched t (firstn n (ser t v), sched) = IoErr.
Proof. exact deser_prefix_sched. Qed.
Print Assumptions C13_deser_prefix_sched.

(* `ser` reaches the stream through one write_all per primitive *)
Theorem C13_ser_chunks_concat : forall t v, concat (ser_chunks t v) = ser t v.
Proof. exact ser_chunks_concat. Qed.
Print Assumptions C13_ser_chunks_concat.

(* serialize_into on a budgeted writer fails iff the budget is below size_in_bytes *)
Theorem C13_ser_into_budget : forall t v budget,
  wf_val t v = true ->
  ser_into_budget t v budget =
  if size t v <=? budget then IoOk (ser t v, budget - size t v) else IoErr.
Proof. exact ser_into_budget_spec. Qed.
Print Assumptions C13_ser_into_budget.

Theorem C13_ser_into_budget_err : forall t v budget,
  wf_val t v = true -> (ser_into_budget t v budget = IoErr <-> budget < size t v).
Proof. exact ser_into_budget_err. Qed.
Print Assumptions C13_ser_into_budget_err.

Theorem C13_ser_into_sched : forall t v sched,
  exists sched', ser_into_sched t v sched = IoOk (ser t v, sched').
Proof. exact ser_into_sched_spec. Qed.
Print Assumptions C13_ser_into_sched.

(* ---- the same, read directly on the code REGENERATED from serial.rs / primitive.rs (gen/SerialImplGen.v) ---- *)
From Sucds Require Import Base.SerialDict gen.SerialImplGen Proofs.SerialImplTie.
Theorem C13_generated_prefix_err : forall c t v n,
  vec_ok t = true -> wf_val t v = true -> size t v < W ->
  exists bytes, sd_ser (dict_of mem_io c t) v [] = ok (bytes, lenN bytes) /\
                ((n < length bytes)%nat -> sd_deser (dict_of mem_io c t) (firstn n bytes) = err).
Proof. exact gen_prefix_err. Qed.
Print Assumptions C13_generated_prefix_err.
Theorem C13_generated_budget : forall c t v written budget, wf_val t v = true -> size t v < W ->
  sd_ser (dict_of budget_io c t) v (written, budget) =
  if size t v <=? budget then ok ((written ++ ser t v, budget - size t v), size t v) else err.
Proof. exact tie_ser_budget. Qed.
Print Assumptions C13_generated_budget.
Theorem C13_generated_read_schedule : forall c t d sched,
  vec_ok t = true -> agrees_d fst (sd_deser (dict_of sched_io c t) (d, sched)) (deser t d).
Proof. exact tie_deser_sched. Qed.
Print Assumptions C13_generated_read_schedule.
Theorem C13_generated_write_schedule : forall c t v out sched, wf_val t v = true -> size t v < W ->
  exists sched', sd_ser (dict_of sched_io c t) v (out, sched) = ok ((out ++ ser t v, sched'), size t v).
Proof. exact tie_ser_sched. Qed.
Print Assumptions C13_generated_write_schedule.

(* non-vacuity on a nested value: all 34 strict prefixes fail, a hostile read schedule changes
   nothing, a budget of 33 fails and 34 succeeds *)
Example C13_nonvacuous :
  vec_ok ser_ex_ty = true /\ wf_val ser_ex_ty ser_ex_val = true /\ length (ser ser_ex_ty ser_ex_val) = 34%nat /\
  forallb (fun n => match deser ser_ex_ty (firstn n (ser ser_ex_ty ser_ex_val)) with None => true | _ => false end)
          (seq 0 34) = true /\
  deser_sched ser_ex_ty (ser ser_ex_ty ser_ex_val ++ [7], [0; 1; 0; 0; 3; 1; 1; 0; 200; 2; 0; 1])
    = IoOk (ser_ex_val, ([7], [])) /\
  ser_into_budget ser_ex_ty ser_ex_val 33 = IoErr /\
  ser_into_budget ser_ex_ty ser_ex_val 34 = IoOk (ser ser_ex_ty ser_ex_val, 0) /\
  (exists s, ser_into_sched ser_ex_ty ser_ex_val [0; 3; 0; 1; 1; 100] = IoOk (ser ser_ex_ty ser_ex_val, s)).
Proof. vm_compute. repeat split. exists []. reflexivity. Qed.
