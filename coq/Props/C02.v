(* Props/C02.v — DArray: select1 (and the optional select0 / rank) equal the plain bit sequence
   for every argument of usize, every bit vector within capacity, every build configuration
   (pinned statements). *)
From Sucds Require Import Base.Res Spec.BitSpec Model.BitVector Model.Rank9 Model.DArray
  Proofs.BVAbs Proofs.IndexSpecs Proofs.DAMain Proofs.Integration.
Open Scope N_scope.

(* the select index (DArrayIndex::new / select): one index value for every configuration,
   select over ones (v = true) and over zeros (v = false) *)
Theorem C02_index_correct : forall bv v, wf bv -> cap_ok bv ->
  exists d, (forall c, da_build c bv v = Ok d) /\ d_over_one d = v /\
            d_num_positions d = BitSpec.count v (bits_of bv) /\
            (forall c k, k < W -> da_select c d bv k = Ok (BitSpec.select v (bits_of bv) k)).
Proof. exact da_index_correct. Qed.
Print Assumptions C02_index_correct.

(* DArray::new *)
Theorem C02_new_correct : forall bv, wf bv -> cap_ok bv ->
  exists d, (forall c, da_new c bv = Ok d) /\ da_bv d = bv /\ da_s0 d = None /\ da_r9 d = None /\
            (forall c, da_correct c d).
Proof. exact da_new_correct. Qed.
Print Assumptions C02_new_correct.

(* DArray::from_bits *)
Theorem C02_from_bits_correct : forall bits, lenN bits < 2 ^ 56 ->
  exists d, (forall c, da_from_bits c bits = Ok d) /\ bits_of (da_bv d) = bits /\
            da_s0 d = None /\ da_r9 d = None /\ (forall c, da_correct c d).
Proof. exact da_from_bits_correct. Qed.
Print Assumptions C02_from_bits_correct.

(* DArray::enable_select0 *)
Theorem C02_enable_select0_correct : forall d, (forall c, da_correct c d) -> cap_ok (da_bv d) ->
  exists d', (forall c, da_enable_select0 c d = Ok d') /\
             da_bv d' = da_bv d /\ da_s1 d' = da_s1 d /\ da_r9 d' = da_r9 d /\ da_s0 d' <> None /\
             (forall c, da_correct c d').
Proof. exact da_enable_select0_correct. Qed.
Print Assumptions C02_enable_select0_correct.

(* DArray::enable_rank (the correctness of the Rank9 rank index it relies on is
   Integration.r9rank_ok_holds, from Proofs/R9Build.v and Proofs/R9Rank.v) *)
Theorem C02_enable_rank_correct :
  forall d, (forall c, da_correct c d) -> cap_ok (da_bv d) ->
  exists d', (forall c, da_enable_rank c d = Ok d') /\
             da_bv d' = da_bv d /\ da_s1 d' = da_s1 d /\ da_s0 d' = da_s0 d /\ da_r9 d' <> None /\
             (forall c, da_correct c d').
Proof. exact da_enable_rank_closed. Qed.
Print Assumptions C02_enable_rank_correct.

(* Build::build_from_bits(_, with_rank, _, with_select0) *)
Theorem C02_build_cfg_correct :
  forall bv wr ws0, wf bv -> cap_ok bv ->
  exists d, (forall c, da_build_cfg c bv wr ws0 = Ok d) /\ da_bv d = bv /\
            (da_s0 d <> None <-> ws0 = true) /\ (da_r9 d <> None <-> wr = true) /\
            (forall c, da_correct c d).
Proof. exact da_build_cfg_closed. Qed.
Print Assumptions C02_build_cfg_correct.

(* concrete runs, both profiles: a dense 5000-bit vector (several blocks of 1024 positions for
   ones and for zeros) ... *)
Example C02_example_dense :
  let bits := map (fun i => (i mod 3 =? 0) || (i mod 7 =? 2)) (nseq 5000) in
  let ks := [0; 1; 31; 32; 33; 500; 1023; 1024; 1025; 2047; 2048; 2100; 2142; 2143; 2856; 2857;
             2858; 5000; 18446744073709551615] in
  forall c, In c [{| dbg := true; intr := false |}; {| dbg := false; intr := true |}] ->
  (d <- da_from_bits c bits ;; d <- da_enable_select0 c d ;;
   r1 <- map_res (da_select1 c d) ks ;; r0 <- map_res (da_select0 c d) ks ;; Ok (r1, r0))
  = Ok (map (BitSpec.select true bits) ks, map (BitSpec.select false bits) ks).
Proof. intros bits ks c [<-|[<-|[]]]; vm_compute; reflexivity. Qed.

(* ... and a sparse one (110 ones spread over 70395 bits: the block of ones goes to the overflow
   list, the blocks of zeros stay dense) *)
Example C02_example_sparse :
  let bv := {| bv_words := map (fun i => if i mod 20 =? 0 then 2 ^ 17 + 1 else 0) (nseq 1100);
               bv_len := 70395 |} in
  let ks := [0; 1; 2; 31; 32; 33; 64; 65; 108; 109; 110; 1023; 1024; 1025; 70000; 70284; 70285;
             18446744073709551615] in
  forall c, In c [{| dbg := true; intr := false |}; {| dbg := false; intr := true |}] ->
  (d <- da_build_cfg c bv false true ;;
   r1 <- map_res (da_select1 c d) ks ;; r0 <- map_res (da_select0 c d) ks ;;
   Ok (d_block_inv (da_s1 d), r1, r0))
  = Ok ([(-1)%Z], map (BitSpec.select true (bits_of bv)) ks, map (BitSpec.select false (bits_of bv)) ks).
Proof. intros bv ks c [<-|[<-|[]]]; vm_compute; reflexivity. Qed.
