(* Props/C04.v — EliasFano behaves as the sorted multiset it was built from.
   Pinned statements only; proofs are in Proofs/EFRep.v, Proofs/EFQueries.v, Proofs/EFIter.v,
   Proofs/EFBuilder.v.
   `ef_rep e xs u` (Proofs/EFRep.v) is the representation invariant: xs non-decreasing, all below
   the universe u, the high DArray correct with its ones exactly at (x_j >> l) + j, the low bit
   vector the concatenation of the l-bit low parts.  C04_build shows that building from any
   such sequence yields a value satisfying it (the two premises about the DArray layer used in
   Proofs/EFBuilder.v are discharged in Proofs/Integration.v; the statement is closed). *)
From Sucds Require Import Base.Res Spec.BitSpec Spec.SeqSpec Model.BitVector Model.DArray Model.EliasFano
  Proofs.BVAbs Proofs.IndexSpecs Proofs.EFRep Proofs.EFQueries Proofs.EFIter Proofs.EFBuilder
  Proofs.Integration.
Open Scope N_scope.

(* construction: every non-decreasing xs below u (u a usize) that fits the capacity m >= 1 is
   accepted entirely by new(u, m) + extend(xs); build and enable_rank give values e, e' (the
   same in every build configuration) representing xs with universe u *)
Theorem C04_build : forall u m xs, u < W -> 1 <= m -> lenN xs <= m ->
  m + 2 + u / 2 ^ low_len_of u m < 2 ^ 56 -> m * low_len_of u m < 2 ^ 56 ->
  nondec xs -> Forall (fun x => x < u) xs ->
  exists e e', ef_rep e xs u /\ ef_rep e' xs u /\ da_s0 (ef_high e') <> None /\
    forall c, exists b0 b, efb_new c u m = Ok (Some b0) /\ efb_extend c b0 xs = Ok (b, true) /\
                           efb_build c b = Ok e /\ ef_enable_rank c e = Ok e'.
Proof. exact ef_build_sorted_closed. Qed.
Print Assumptions C04_build.

(* len / universe *)
Theorem C04_len : forall e xs u, ef_rep e xs u -> ef_len e = lenN xs /\ ef_universe e = u.
Proof. intros e xs u R. split; [exact (rep_len e xs u R) | exact (rep_univ e xs u R)]. Qed.
Print Assumptions C04_len.

(* the queries, in every build configuration and for every argument (any N, in particular
   every usize), including the empty sequence *)
Theorem C04_select : forall e xs u, ef_rep e xs u ->
  forall c k, ef_select c e k = Ok (SeqSpec.ef_select xs k).
Proof. exact ef_select_spec. Qed.
Print Assumptions C04_select.

Theorem C04_delta : forall e xs u, ef_rep e xs u ->
  forall c k, EliasFano.ef_delta c e k = Ok (SeqSpec.ef_delta xs k).
Proof. exact ef_delta_spec. Qed.
Print Assumptions C04_delta.

(* rank / predecessor / successor need the select0 index (enable_rank) *)
Theorem C04_rank : forall e xs u, ef_rep e xs u ->
  forall c p, da_s0 (ef_high e) <> None -> EliasFano.ef_rank c e p = Ok (SeqSpec.ef_rank xs u p).
Proof. exact ef_rank_spec. Qed.
Print Assumptions C04_rank.

Theorem C04_predecessor : forall e xs u, ef_rep e xs u ->
  forall c p, da_s0 (ef_high e) <> None -> ef_predecessor c e p = Ok (SeqSpec.ef_pred xs u p).
Proof. exact ef_predecessor_spec. Qed.
Print Assumptions C04_predecessor.

Theorem C04_successor : forall e xs u, ef_rep e xs u ->
  forall c p, da_s0 (ef_high e) <> None -> ef_successor c e p = Ok (SeqSpec.ef_succ xs u p).
Proof. exact ef_successor_spec. Qed.
Print Assumptions C04_successor.

(* iter(k) followed by any number n of next() calls (efi_run, Proofs/EFIter.v): the elements
   x_k .. x_{n-1} in order, then None forever; iter(k) with k >= len yields None at once *)
Theorem C04_iter : forall e xs u, ef_rep e xs u ->
  forall c k n, exists it it', efi_new c e k = Ok it /\
    efi_run c e n it = Ok (it', iter_outputs xs k n).
Proof. exact efi_spec. Qed.
Print Assumptions C04_iter.

(* binsearch_range(rs..re, val) / binsearch(val): some index in the range holding val, None iff
   there is none (or the range is empty or ends beyond len) *)
Theorem C04_binsearch_range : forall e xs u, ef_rep e xs u ->
  forall c val rs re, exists r, ef_binsearch_range c e rs re val = Ok r /\
    binsearch_ok xs rs re val r = true.
Proof. exact ef_binsearch_range_spec. Qed.
Print Assumptions C04_binsearch_range.

Theorem C04_binsearch : forall e xs u, ef_rep e xs u ->
  forall c val, exists r, ef_binsearch c e val = Ok r /\ binsearch_ok xs 0 (lenN xs) val r = true.
Proof. exact ef_binsearch_spec. Qed.
Print Assumptions C04_binsearch.

(* ---- a concrete sequence with duplicates, low width 4: the hypotheses of C04_build hold and
   the executable model agrees with the specification on every query argument up to u + 2 ---- *)
Definition c04_xs : list N := [3; 3; 40; 41; 99].
Definition c04_queries (c : cfg) :=
  b <- efb_new c 100 5 ;; b <- unwrap b ;;
  r <- efb_extend c b c04_xs ;;
  e <- efb_build c (fst r) ;; e <- ef_enable_rank c e ;;
  let ks := nseq 8 in let ps := nseq 103 in
  s <- map_res (ef_select c e) ks ;; d <- map_res (EliasFano.ef_delta c e) ks ;;
  rk <- map_res (EliasFano.ef_rank c e) ps ;;
  pr <- map_res (ef_predecessor c e) ps ;; su <- map_res (ef_successor c e) ps ;;
  Ok (snd r, ef_low_len e, ef_len e, s, d, rk, pr, su).
Example C04_example :
  (forallb (fun x => x <? 100) c04_xs) && (lenN c04_xs <=? 5) &&
  (5 + 2 + 100 / 2 ^ low_len_of 100 5 <? 2 ^ 56) && (5 * low_len_of 100 5 <? 2 ^ 56) = true /\
  nondec c04_xs /\
  forall c, In c [{| dbg := true; intr := false |}; {| dbg := false; intr := true |}] ->
  c04_queries c =
    Ok (true, 4, 5, map (SeqSpec.ef_select c04_xs) (nseq 8), map (SeqSpec.ef_delta c04_xs) (nseq 8),
        map (SeqSpec.ef_rank c04_xs 100) (nseq 103), map (SeqSpec.ef_pred c04_xs 100) (nseq 103),
        map (SeqSpec.ef_succ c04_xs 100) (nseq 103)).
Proof.
  split; [vm_compute; reflexivity|]. split.
  - unfold nondec, c04_xs. cbn [nondec_from]. repeat split; discriminate.
  - intros c [<-|[<-|[]]]; vm_compute; reflexivity.
Qed.

(* the iterator on the same sequence, and binary search on 150 elements with duplicates (beyond
   the 64-element linear-scan threshold), every value 0..231, full range and a sub-range *)
Definition c04_big : list N := map (fun i => i / 2 * 3) (nseq 150).
Definition c04_search (c : cfg) :=
  b <- efb_new c 230 150 ;; b <- unwrap b ;;
  r <- efb_extend c b c04_big ;; e <- efb_build c (fst r) ;;
  r1 <- map_res (ef_binsearch c e) (nseq 232) ;;
  r2 <- map_res (ef_binsearch_range c e 10 140) (nseq 232) ;;
  it <- efi_new c e 140 ;; o <- efi_run c e 12 it ;;
  Ok (snd r, ef_low_len e,
      forallb (fun p => binsearch_ok c04_big 0 150 (fst p) (snd p)) (combine (nseq 232) r1),
      forallb (fun p => binsearch_ok c04_big 10 140 (fst p) (snd p)) (combine (nseq 232) r2),
      snd o).
Example C04_example_search :
  (forallb (fun x => x <? 230) c04_big) && (lenN c04_big <=? 150) && nondec_fromb 0 c04_big &&
  (150 + 2 + 230 / 2 ^ low_len_of 230 150 <? 2 ^ 56) && (150 * low_len_of 230 150 <? 2 ^ 56) = true /\
  forall c, In c [{| dbg := true; intr := false |}; {| dbg := false; intr := true |}] ->
  c04_search c = Ok (true, 0, true, true, iter_outputs c04_big 140 12).
Proof.
  split; [vm_compute; reflexivity|].
  intros c [<-|[<-|[]]]; vm_compute; reflexivity.
Qed.

(* the iterator across low-part word refills: 40 elements of low width 5 (12 chunks per 64-bit
   word), iter(0) and iter(7), 45 calls each; binary search on the same value *)
Definition c04_mid : list N := map (fun i => i * 37 + i / 3) (nseq 40).
Definition c04_iterate (c : cfg) :=
  b <- efb_new c 1500 40 ;; b <- unwrap b ;;
  r <- efb_extend c b c04_mid ;; e <- efb_build c (fst r) ;;
  it0 <- efi_new c e 0 ;; o0 <- efi_run c e 45 it0 ;;
  it7 <- efi_new c e 7 ;; o7 <- efi_run c e 45 it7 ;;
  r1 <- map_res (ef_binsearch c e) (nseq 1502) ;;
  Ok (snd r, ef_low_len e, snd o0, snd o7,
      forallb (fun p => binsearch_ok c04_mid 0 40 (fst p) (snd p)) (combine (nseq 1502) r1)).
Example C04_example_iter :
  (forallb (fun x => x <? 1500) c04_mid) && (lenN c04_mid <=? 40) && nondec_fromb 0 c04_mid &&
  (40 + 2 + 1500 / 2 ^ low_len_of 1500 40 <? 2 ^ 56) && (40 * low_len_of 1500 40 <? 2 ^ 56) = true /\
  forall c, In c [{| dbg := true; intr := false |}; {| dbg := false; intr := true |}] ->
  c04_iterate c = Ok (true, 5, iter_outputs c04_mid 0 45, iter_outputs c04_mid 7 45, true).
Proof.
  split; [vm_compute; reflexivity|].
  intros c [<-|[<-|[]]]; vm_compute; reflexivity.
Qed.
