(* Props/C07.v — BitVector is a faithful, canonical list of bits under any mutation history.
   Pinned statements only; proofs are in Proofs/BVReads*.v, Proofs/BVMut*.v, Proofs/BVHistory.v. *)
From Sucds Require Import Base.Res Spec.BitSpec Model.BitVector Proofs.BVAbs
  Proofs.BVReads Proofs.BVReads2 Proofs.BVMut Proofs.BVHistory.
Open Scope N_scope.

(* (i) every history of the 7 constructors/mutators, in every build configuration: the model
   succeeds, stays well-formed, denotes exactly the list the spec computes, accepts/rejects
   exactly like the spec; `ops_ok` only asks that operands are usize values and that every
   intermediate length is below the capacity bound 2^56 *)
Theorem C07_history : forall c ops, ops_ok [] ops ->
  exists bv, run_model c bv_empty ops = Ok (bv, snd (run_ops [] ops)) /\ wf bv /\
             bits_of bv = fst (run_ops [] ops).
Proof. exact history_spec. Qed.
Print Assumptions C07_history.

(* a rejected operation leaves the vector unchanged (last conjunct) *)
Theorem C07_step : forall c bv o, wf bv -> op_ok (bits_of bv) o ->
  exists bv' ok, apply_model c bv o = Ok (bv', ok) /\ wf bv' /\
    bits_of bv' = fst (apply_op (bits_of bv) o) /\ ok = snd (apply_op (bits_of bv) o) /\
    (ok = false -> bv' = bv).
Proof. exact apply_model_spec. Qed.
Print Assumptions C07_step.

(* (ii) every read on a well-formed vector equals the list's answer, for every argument in usize *)
Theorem C07_get_bit : forall c bv pos, wf bv -> cap_ok bv -> pos < W ->
  BitVector.get_bit c bv pos = Ok (BitSpec.access (bits_of bv) pos).
Proof. exact get_bit_spec. Qed.
Print Assumptions C07_get_bit.
Theorem C07_get_bits : forall c bv pos len, wf bv -> cap_ok bv -> pos < W -> len < W ->
  BitVector.get_bits c bv pos len = Ok (BitSpec.get_bits (bits_of bv) pos len).
Proof. exact get_bits_spec. Qed.
Print Assumptions C07_get_bits.
Theorem C07_get_word64 : forall c bv pos, wf bv -> cap_ok bv -> pos < W ->
  BitVector.get_word64 c bv pos = Ok (BitSpec.get_word64 (bits_of bv) pos).
Proof. exact get_word64_spec. Qed.
Print Assumptions C07_get_word64.
Theorem C07_rank1 : forall c bv pos, wf bv -> cap_ok bv -> pos < W ->
  BitVector.rank1 c bv pos = Ok (BitSpec.rank true (bits_of bv) pos).
Proof. exact rank1_spec. Qed.
Print Assumptions C07_rank1.
Theorem C07_rank0 : forall c bv pos, wf bv -> cap_ok bv -> pos < W ->
  BitVector.rank0 c bv pos = Ok (BitSpec.rank false (bits_of bv) pos).
Proof. exact rank0_spec. Qed.
Print Assumptions C07_rank0.
Theorem C07_select1 : forall c bv k, wf bv -> cap_ok bv -> k < W ->
  BitVector.select1 c bv k = Ok (BitSpec.select true (bits_of bv) k).
Proof. exact select1_spec. Qed.
Print Assumptions C07_select1.
Theorem C07_select0 : forall c bv k, wf bv -> cap_ok bv -> k < W ->
  BitVector.select0 c bv k = Ok (BitSpec.select false (bits_of bv) k).
Proof. exact select0_spec. Qed.
Print Assumptions C07_select0.
Theorem C07_predecessor : forall c inv bv pos, wf bv -> cap_ok bv -> pos < W ->
  BitVector.predecessor c inv bv pos = Ok (BitSpec.pred (negb inv) (bits_of bv) pos).
Proof. exact predecessor_spec. Qed.
Print Assumptions C07_predecessor.
Theorem C07_successor : forall c inv bv pos, wf bv -> cap_ok bv -> pos < W ->
  BitVector.successor c inv bv pos = Ok (BitSpec.succ (negb inv) (bits_of bv) pos).
Proof. exact successor_spec. Qed.
Print Assumptions C07_successor.
Theorem C07_iter : forall c bv pos, wf bv -> cap_ok bv -> pos < W ->
  BitVector.iter_next c bv pos =
  Ok (if pos <? bv_len bv then (pos + 1, BitSpec.access (bits_of bv) pos) else (pos, None)).
Proof. exact iter_next_spec. Qed.
Print Assumptions C07_iter.

(* (iii) canonicity: the same bits give the same value, whatever histories (and builds) produced them;
   derived PartialEq is Leibniz equality of the model values *)
Theorem C07_canonical : forall a b, wf a -> wf b -> bits_of a = bits_of b -> a = b.
Proof. exact canonical. Qed.
Print Assumptions C07_canonical.
Theorem C07_history_canonical : forall c1 c2 ops1 ops2, ops_ok [] ops1 -> ops_ok [] ops2 ->
  fst (run_ops [] ops1) = fst (run_ops [] ops2) ->
  exists bv, run_model c1 bv_empty ops1 = Ok (bv, snd (run_ops [] ops1)) /\
             run_model c2 bv_empty ops2 = Ok (bv, snd (run_ops [] ops2)) /\
             wf bv /\ bits_of bv = fst (run_ops [] ops1).
Proof. exact history_canonical. Qed.
Print Assumptions C07_history_canonical.
Theorem C07_eqb : forall a b, bv_eqb a b = true <-> a = b.
Proof. exact bv_eqb_spec. Qed.
Print Assumptions C07_eqb.

(* non-vacuity: a history mixing accepted and rejected operations satisfies ops_ok *)
Example C07_nonvacuous :
  ops_ok [] [OFromBit true 61; OPushBits 18446744073709551615 7; OSetBits 60 5 9; OSetBits 62 5 9;
             OPushBits 1 65; OSetBit 500 true; OExtend [true; false]].
Proof. cbv [ops_ok op_ok operands_ok]. repeat split; vm_compute; reflexivity. Qed.
