(* Props/C05.v — a WaveletMatrix built from a non-empty integer sequence answers access / rank /
   rank_range / select like the stored sequence, over any correct backing bit vector, in every
   build configuration, for all arguments in usize.  Pinned statements only; proofs are in
   Proofs/WMLists.v, Proofs/WMBuild.v, Proofs/WMQueries.v.
   The interface to the backings (Rank9Sel, DArray with all indexes, plain BitVector) used by those
   proofs -- building from a well-formed bit vector within capacity succeeds, with the same result
   in every configuration, and the result answers like the bit list -- is the theorem
   Integration.b_build_ok_holds; the statements below are closed, for all three backing kinds k. *)
From Sucds Require Import Base.Res Spec.BitSpec Spec.SeqSpec Spec.DacSpec Model.BitVector Model.Wavelet
  Proofs.BVAbs Proofs.IndexSpecs Proofs.WMBuild Proofs.WMQueries Proofs.Integration.
Open Scope N_scope.

(* construction: Ok for every non-empty sequence (one value for all configurations), Err for [] *)
Theorem C05_new : forall k s,
  s <> [] /\ max_list s + 1 < W /\ lenN s < 2 ^ 50 ->
  exists wm, (forall c, wm_new c k s = Ok (Some wm)) /\ wm_len wm = lenN s /\
             wm_alph_size wm = max_list s + 1 /\ wm_alph_width wm = bitlen (max_list s + 1).
Proof. exact wm_new_closed. Qed.
Print Assumptions C05_new.
Theorem C05_new_empty : forall c k, wm_new c k [] = Ok None.
Proof. exact wm_new_empty. Qed.
Print Assumptions C05_new_empty.

Theorem C05_access : forall c0 k s wm,
  s <> [] /\ max_list s + 1 < W /\ lenN s < 2 ^ 50 -> wm_new c0 k s = Ok (Some wm) ->
  forall c i, i < W -> wm_access c wm i = Ok (SeqSpec.nth_opt s i).
Proof. exact wm_access_closed. Qed.
Print Assumptions C05_access.

Theorem C05_rank_range : forall c0 k s wm,
  s <> [] /\ max_list s + 1 < W /\ lenN s < 2 ^ 50 -> wm_new c0 k s = Ok (Some wm) ->
  forall c a b v, a < W -> b < W -> v < W ->
  wm_rank_range c wm a b v = Ok (SeqSpec.wm_rank_range s a b v).
Proof. exact wm_rank_range_closed. Qed.
Print Assumptions C05_rank_range.

Theorem C05_rank : forall c0 k s wm,
  s <> [] /\ max_list s + 1 < W /\ lenN s < 2 ^ 50 -> wm_new c0 k s = Ok (Some wm) ->
  forall c i v, i < W -> v < W -> wm_rank c wm i v = Ok (SeqSpec.wm_rank_range s 0 i v).
Proof. exact wm_rank_closed. Qed.
Print Assumptions C05_rank.

Theorem C05_select : forall c0 k s wm,
  s <> [] /\ max_list s + 1 < W /\ lenN s < 2 ^ 50 -> wm_new c0 k s = Ok (Some wm) ->
  forall c j v, j < W -> v < W -> wm_select c wm j v = Ok (SeqSpec.wm_select s j v).
Proof. exact wm_select_closed. Qed.
Print Assumptions C05_select.

(* a concrete instance, computed: "banana" over the plain BitVector backing, dev configuration *)
Example C05_banana :
  let c := {| dbg := true; intr := false |} in
  let s := [98; 97; 110; 97; 110; 97] in
  match wm_new c KBitVec s with
  | Ok (Some wm) =>
      (wm_len wm, wm_alph_size wm, wm_alph_width wm) = (6, 111, 7) /\
      map (wm_access c wm) [2; 5; 6] = map (fun i => Ok (SeqSpec.nth_opt s i)) [2; 5; 6] /\
      wm_rank c wm 3 97 = Ok (Some 1) /\ wm_rank c wm 7 98 = Ok None /\
      wm_rank_range c wm 1 4 97 = Ok (Some 2) /\ wm_rank_range c wm 4 2 200 = Ok (Some 0) /\
      wm_select c wm 1 97 = Ok (Some 3) /\ wm_select c wm 0 99 = Ok None /\
      wm_select c wm 3 97 = Ok (SeqSpec.wm_select s 3 97) /\
      wm_select c wm 18446744073709551615 110 = Ok None
  | _ => False
  end.
Proof. vm_compute. repeat split. Qed.
