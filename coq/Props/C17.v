(* Props/C17.v — iterators: the unary iterator of BitVector (next / skip1 / skip0), the
   index-based iterators with their size hints (BitVector, CompactVector, DacsByte, DacsOpt,
   PrefixSummedEliasFano, WaveletMatrix) and the Elias-Fano iterator (pinned statements only;
   proofs in Proofs/UnaryIter.v, UnarySkip.v, IterGeneric.v, EFIter.v and Integration2.v). *)
From Sucds Require Import Base.Res Spec.BitSpec Spec.SeqSpec Spec.DacSpec
  Model.BitVector Model.Unary Model.DArray Model.EliasFano Model.CompactVector Model.Dacs
  Model.Psef Model.Wavelet
  Proofs.BVAbs Proofs.IndexSpecs Proofs.UnaryIter Proofs.UnarySkip Proofs.IterGeneric
  Proofs.EFRep Proofs.EFIter Proofs.EFBuilder Proofs.CVRep Proofs.SALemmas Proofs.PSMain
  Proofs.Integration2.
Open Scope N_scope.

(* ---------- UnaryIter: new + next ---------- *)

(* unary_iter(p), p <= len, represents the cursor p (nrep: the buffer holds exactly the set bits
   of the current word at positions >= cursor) *)
Theorem C17_unary_new_cursor : forall bv p,
  wf bv -> p <= bv_len bv -> nrep bv (unary_new bv p) p.
Proof. exact unary_new_nrep. Qed.
Print Assumptions C17_unary_new_cursor.

(* the buffer of unary_iter(p): the word p / 64 (0 past the last word) with the bits below
   p mod 64 cleared; position() = p *)
Theorem C17_unary_new_buffer : forall bv p j, j < 64 ->
  N.testbit (u_buf (unary_new bv p)) j
  = (p mod 64 <=? j) && N.testbit (nthN (bv_words bv) (p / 64) 0) j.
Proof. exact unary_new_buf_bit. Qed.
Print Assumptions C17_unary_new_buffer.

(* one next(): the smallest set position q >= cursor, position() = q, cursor q + 1;
   or None when there is none, and the iterator is exhausted *)
Theorem C17_unary_next_step : forall c bv it cur,
  wf bv -> cap_ok bv -> nrep bv it cur ->
  (exists q it', unary_next c bv it = Ok (it', Some q) /\
      filter (fun p => cur <=? p) (positions true (bits_of bv))
        = q :: filter (fun p => q + 1 <=? p) (positions true (bits_of bv)) /\
      u_pos it' = q /\ nrep bv it' (q + 1)) \/
  (exists it', unary_next c bv it = Ok (it', None) /\
      filter (fun p => cur <=? p) (positions true (bits_of bv)) = [] /\
      ndone bv it' /\ u_pos it' < 2 ^ 58).
Proof. exact unary_next_spec. Qed.
Print Assumptions C17_unary_next_step.

(* exhausted stays exhausted: None again, the position advances by 64 *)
Theorem C17_unary_next_exhausted : forall c bv it,
  ndone bv it -> u_pos it + 64 < W ->
  unary_next c bv it = Ok ({| u_pos := u_pos it + 64; u_buf := 0 |}, None) /\
  ndone bv {| u_pos := u_pos it + 64; u_buf := 0 |}.
Proof. exact unary_next_done. Qed.
Print Assumptions C17_unary_next_exhausted.

Theorem C17_unary_next_exhausted_n : forall c bv n it,
  ndone bv it -> u_pos it + 64 * N.of_nat n < W ->
  exists it', next_run c bv it n = Ok (it', repeat None n) /\ ndone bv it' /\
              u_pos it' = u_pos it + 64 * N.of_nat n.
Proof. exact next_run_done. Qed.
Print Assumptions C17_unary_next_exhausted_n.

(* the first n results of next() from unary_iter(p): the set positions >= p in order, then None *)
Theorem C17_unary_next_run : forall c bv p n,
  wf bv -> cap_ok bv -> p <= bv_len bv -> N.of_nat n < 2 ^ 50 ->
  exists it', next_run c bv (unary_new bv p) n
    = Ok (it', firstn n (map Some (filter (fun q => p <=? q) (positions true (bits_of bv)))
                         ++ repeat None n)).
Proof. exact unary_next_run. Qed.
Print Assumptions C17_unary_next_run.

(* ---------- UnaryIter: skip1 / skip0 ---------- *)

(* skip1(k) at cursor cur: the k-th set position q >= cur, the cursor becomes q (inclusive);
   None leaves the iterator unchanged *)
Theorem C17_skip1 : forall c bv cur k,
  wf bv -> cap_ok bv -> cur <= bv_len bv -> k < W ->
  skip1 c bv (unary_new bv cur) k =
  Ok (match nth_opt (filter (fun p => cur <=? p) (positions true (bits_of bv))) k with
      | Some q => (unary_new bv q, Some q)
      | None => (unary_new bv cur, None)
      end).
Proof. exact skip1_spec. Qed.
Print Assumptions C17_skip1.

(* skip0(k): the same for the unset positions of the vector (padding bits are not positions) *)
Theorem C17_skip0 : forall c bv cur k,
  wf bv -> cap_ok bv -> cur <= bv_len bv -> k < W ->
  skip0 c bv (unary_new bv cur) k =
  Ok (match nth_opt (filter (fun p => cur <=? p) (positions false (bits_of bv))) k with
      | Some q => (unary_new bv q, Some q)
      | None => (unary_new bv cur, None)
      end).
Proof. exact skip0_spec. Qed.
Print Assumptions C17_skip0.

(* any sequence of skip1 / skip0 calls agrees with the specification run over (bits, cursor) *)
Theorem C17_skip_sequences : forall c bv,
  wf bv -> cap_ok bv -> forall ops p, p <= bv_len bv ->
  Forall (fun o => sop_arg o < W) ops ->
  skip_run c bv (unary_new bv p) ops
  = Ok (unary_new bv (fst (skip_run_spec (bits_of bv) p ops)),
        snd (skip_run_spec (bits_of bv) p ops)).
Proof. exact skip_run_ok. Qed.
Print Assumptions C17_skip_sequences.

Theorem C17_skip_position : forall c bv ops p it xs,
  wf bv -> cap_ok bv -> p <= bv_len bv -> Forall (fun o => sop_arg o < W) ops ->
  skip_run c bv (unary_new bv p) ops = Ok (it, xs) ->
  position it = fst (skip_run_spec (bits_of bv) p ops) /\ xs = snd (skip_run_spec (bits_of bv) p ops).
Proof. exact skip_run_position. Qed.
Print Assumptions C17_skip_position.

(* ---------- index-based iterators ---------- *)

(* from the one-step shape to the whole stream, the position bound and the exact size hint *)
Theorem C17_index_iter_generic : forall (A : Type) (acc : N -> option A) (len : N)
    (next : N -> res (N * option A)) (hint : N -> res (N * N)),
  len < 2 ^ 56 ->
  (forall pos, pos < W -> next pos = Ok (if pos <? len then (pos + 1, acc pos) else (pos, None))) ->
  (forall pos, pos <= len -> hint pos = Ok (len - pos, len - pos)) ->
  forall j : nat,
    let pj := N.min (N.of_nat j) len in
    mrun next j 0 = Ok (pj, map acc (nseq pj) ++ repeat None (j - N.to_nat len)) /\
    pj <= len /\
    hint pj = Ok (len - pj, len - pj) /\
    forall n : nat,
      mrun next n pj = Ok (N.min (pj + N.of_nat n) len,
                           map acc (nrange pj (Nat.min n (N.to_nat (len - pj))))
                           ++ repeat None (n - N.to_nat (len - pj))).
Proof. exact (@index_iter_ok). Qed.
Print Assumptions C17_index_iter_generic.

(* one `apply` for a structure with an access theorem *)
Theorem C17_index_iter_from_access : forall (A : Type) c (access : N -> res (option A))
    (spec : N -> option A) len,
  len < 2 ^ 56 ->
  (forall pos, pos < len -> access pos = Ok (spec pos)) ->
  (forall pos, pos < len -> spec pos <> None) ->
  iter_ok spec len (index_next c access len) (iter_size_hint c len).
Proof. exact (@index_iter_from_access). Qed.
Print Assumptions C17_index_iter_from_access.

(* the hint is the number of elements still to come *)
Theorem C17_hint_counts_remaining : forall (A : Type) (acc : N -> option A) (len : N),
  (forall i, i < len -> acc i <> None) ->
  forall n pos, pos <= len -> len - pos <= N.of_nat n ->
  lenN (filter is_some (snd (grun acc len n pos))) = fst (ghint len pos).
Proof. exact (@hint_counts_remaining). Qed.
Print Assumptions C17_hint_counts_remaining.

(* BitVector::iter() *)
Theorem C17_bitvector_iter : forall c bv, wf bv -> cap_ok bv ->
  iter_ok (BitSpec.access (bits_of bv)) (bv_len bv)
          (BitVector.iter_next c bv) (BitVector.iter_size_hint c (bv_len bv)).
Proof. exact bv_iter_ok. Qed.
Print Assumptions C17_bitvector_iter.

Theorem C17_bitvector_iter_all : forall c bv n, wf bv -> cap_ok bv -> bv_len bv <= N.of_nat n ->
  mrun (BitVector.iter_next c bv) n 0
  = Ok (bv_len bv, map Some (bits_of bv) ++ repeat None (n - N.to_nat (bv_len bv))).
Proof. exact bv_iter_all. Qed.
Print Assumptions C17_bitvector_iter_all.

Theorem C17_size_hint : forall c len pos, pos <= len ->
  iter_size_hint c len pos = Ok (len - pos, len - pos).
Proof. exact size_hint_ok. Qed.
Print Assumptions C17_size_hint.

(* ---------- the other index-based iterators ----------
   Each statement: for the structure x built over the input xs (or representing xs), in every
   configuration c,
     iter_ok (nth_opt xs) (lenN xs) (<structure>_iter_next c x) (iter_size_hint c (lenN xs))
   i.e. (C17_iter_ok_unfold) j calls of next() from the start return the first min(j, len)
   elements and then None's, the position never exceeds len, the size hint after j calls is
   exactly (len - pos, Some (len - pos)), and exactly that many elements are still to come.
   The hypotheses are those of the access theorem of the structure. *)

Theorem C17_iter_ok_unfold : forall (A : Type) (acc : N -> option A) (len : N)
    (next : N -> res (N * option A)) (hint : N -> res (N * N)),
  iter_ok acc len next hint <->
  forall j : nat,
    let pj := N.min (N.of_nat j) len in
    mrun next j 0 = Ok (pj, map acc (nseq pj) ++ repeat None (j - N.to_nat len)) /\
    pj <= len /\
    hint pj = Ok (len - pj, len - pj) /\
    forall n : nat,
      mrun next n pj = Ok (N.min (pj + N.of_nat n) len,
                           map acc (nrange pj (Nat.min n (N.to_nat (len - pj))))
                           ++ repeat None (n - N.to_nat (len - pj))).
Proof. exact (fun A acc len next hint => iff_refl _). Qed.
Print Assumptions C17_iter_ok_unfold.

(* for sequences of integers: n >= len calls of next() return exactly the input, then None's *)
Theorem C17_iter_all : forall (xs : list N) next hint,
  iter_ok (nth_opt xs) (lenN xs) next hint ->
  forall n : nat, lenN xs <= N.of_nat n ->
  mrun next n 0 = Ok (lenN xs, map Some xs ++ repeat None (n - length xs)).
Proof. exact iter_ok_all. Qed.
Print Assumptions C17_iter_all.

(* CompactVector::iter(): on any vector representing xs (C09: cv_rep, within the memory bound),
   in particular on the result of from_slice *)
Theorem C17_compactvector_iter : forall c v xs, cv_rep v xs -> lenN xs * cv_width v < 2 ^ 56 ->
  iter_ok (nth_opt xs) (lenN xs) (cv_iter_next c v) (iter_size_hint c (lenN xs)).
Proof. exact cv_iter_ok. Qed.
Print Assumptions C17_compactvector_iter.

Theorem C17_compactvector_iter_from_slice : forall c0 l v, l <> [] -> Forall (fun x => x < W) l ->
  lenN l * bitlen (max_list l) < 2 ^ 56 -> cv_from_slice c0 l = Ok (Some v) ->
  forall c, iter_ok (nth_opt l) (lenN l) (cv_iter_next c v) (iter_size_hint c (lenN l)).
Proof. exact cv_iter_ok_from_slice. Qed.
Print Assumptions C17_compactvector_iter_from_slice.

(* the same obtained from the access theorem alone through C17_index_iter_from_access
   (cv_iter_next c v pos is by definition index_next c (cv_access c v) (cv_len v) pos) *)
Theorem C17_compactvector_iter_from_access : forall c v xs, cv_rep v xs ->
  lenN xs * cv_width v < 2 ^ 56 ->
  iter_ok (nth_opt xs) (lenN xs) (index_next c (cv_access c v) (cv_len v))
          (iter_size_hint c (lenN xs)).
Proof. exact cv_iter_ok_from_access. Qed.
Print Assumptions C17_compactvector_iter_from_access.

(* DacsByte::iter() on the value returned by from_slice (C11) *)
Theorem C17_dacsbyte_iter : forall vals c0 d, Forall (fun x => x < W) vals -> lenN vals < 2 ^ 50 ->
  db_from_slice c0 vals = Ok d ->
  forall c, iter_ok (nth_opt vals) (lenN vals) (db_iter_next c d) (iter_size_hint c (lenN vals)).
Proof. exact dacsbyte_iter_ok. Qed.
Print Assumptions C17_dacsbyte_iter.

(* DacsOpt::iter() on the value returned by from_slice, max_levels in 1..=64 or None (C10) *)
Theorem C17_dacsopt_iter : forall vals mlo c0 d, Forall (fun x => x < W) vals -> lenN vals < 2 ^ 50 ->
  1 <= match mlo with Some m => m | None => 64 end <= 64 ->
  do_from_slice c0 vals mlo = Ok (Some d) ->
  forall c, iter_ok (nth_opt vals) (lenN vals) (do_iter_next c d) (iter_size_hint c (lenN vals)).
Proof. exact dacsopt_iter_ok. Qed.
Print Assumptions C17_dacsopt_iter.

(* PrefixSummedEliasFano::iter(): on any value representing vals (C12: ps_rep), and on the value
   returned by from_slice (capacity of the Elias-Fano layer as in Props/C12.v; it follows for
   fewer than 2^50 values) *)
Theorem C17_psef_iter_rep : forall p vals, ps_rep p vals -> forall c, lenN vals < 2 ^ 56 ->
  iter_ok (nth_opt vals) (lenN vals) (ps_iter_next c p) (iter_size_hint c (lenN vals)).
Proof. exact ps_iter_ok. Qed.
Print Assumptions C17_psef_iter_rep.

Theorem C17_psef_iter : forall vals c0 p, vals <> [] -> sum_list vals + 1 < W ->
  lenN vals + 2 + (sum_list vals + 1) / 2 ^ low_len_of (sum_list vals + 1) (lenN vals) < 2 ^ 56 /\
  lenN vals * low_len_of (sum_list vals + 1) (lenN vals) < 2 ^ 56 ->
  ps_from_slice c0 vals = Ok (Some p) ->
  forall c, iter_ok (nth_opt vals) (lenN vals) (ps_iter_next c p) (iter_size_hint c (lenN vals)).
Proof. exact psef_iter_ok. Qed.
Print Assumptions C17_psef_iter.

Theorem C17_psef_iter_small : forall vals c0 p, vals <> [] -> sum_list vals + 1 < W ->
  lenN vals < 2 ^ 50 -> ps_from_slice c0 vals = Ok (Some p) ->
  forall c, iter_ok (nth_opt vals) (lenN vals) (ps_iter_next c p) (iter_size_hint c (lenN vals)).
Proof. exact psef_iter_ok_small. Qed.
Print Assumptions C17_psef_iter_small.

(* WaveletMatrix::iter() over any of the three backings k, on the value returned by new (C05) *)
Theorem C17_wavelet_iter : forall c0 k s wm,
  s <> [] /\ max_list s + 1 < W /\ lenN s < 2 ^ 50 -> wm_new c0 k s = Ok (Some wm) ->
  forall c, iter_ok (nth_opt s) (lenN s) (wm_iter_next c wm) (iter_size_hint c (lenN s)).
Proof. exact wm_iter_ok. Qed.
Print Assumptions C17_wavelet_iter.

(* ---------- the Elias-Fano iterator (not index-based: a unary iterator over the high part and
   a buffered reader of the low part) ----------
   iter(k) followed by n calls of next() (efi_run, Proofs/EFIter.v) returns
   iter_outputs xs k n = the first n elements of SeqSpec.ef_iter xs k (the elements from index k
   on; nothing if k >= len), then None forever: on any value representing xs (C04: ef_rep), and
   on the value built from a non-decreasing sequence by the builder (C16) *)
Theorem C17_eliasfano_iter : forall e xs u, ef_rep e xs u ->
  forall c k n, exists it it', efi_new c e k = Ok it /\
    efi_run c e n it = Ok (it', iter_outputs xs k n).
Proof. exact efi_spec. Qed.
Print Assumptions C17_eliasfano_iter.

Theorem C17_eliasfano_iter_outputs : forall xs k n,
  iter_outputs xs k n
  = map Some (firstn n (SeqSpec.ef_iter xs k)) ++ repeat None (n - length (SeqSpec.ef_iter xs k)).
Proof. exact (fun xs k n => eq_refl). Qed.
Print Assumptions C17_eliasfano_iter_outputs.

Theorem C17_eliasfano_iter_built : forall u m xs, u < W -> 1 <= m -> lenN xs <= m ->
  m + 2 + u / 2 ^ low_len_of u m < 2 ^ 56 -> m * low_len_of u m < 2 ^ 56 ->
  nondec xs -> Forall (fun x => x < u) xs ->
  forall c0 b0 b e, efb_new c0 u m = Ok (Some b0) -> efb_extend c0 b0 xs = Ok (b, true) ->
  efb_build c0 b = Ok e ->
  forall c k n, exists it it', efi_new c e k = Ok it /\
    efi_run c e n it = Ok (it', iter_outputs xs k n).
Proof. exact efi_spec_built. Qed.
Print Assumptions C17_eliasfano_iter_built.

(* ---------- a concrete vector: 150 bits in 3 words (42 padding bits) ---------- *)

Example C17_example_mixed_skips :
  let bv := {| bv_words := [15744103915091742512; 8704277822599834806; 4151295]; bv_len := 150 |} in
  let ops := [S1 2; S0 0; S0 5; S1 0; S1 40; S0 70; S0 3; S1 100; S0 0; S1 1; S0 1; S0 0; S1 0;
              S1 30; S0 2; S0 2] in
  let expected := [Some 8; Some 12; Some 19; Some 21; Some 91; None; Some 104; None; Some 104;
                   Some 106; Some 109; Some 109; Some 110; None; Some 117; Some 121] in
  skip_run_spec (bits_of bv) 3 ops = (121, expected) /\
  forall d i, skip_run {| dbg := d; intr := i |} bv (unary_new bv 3) ops
              = Ok (unary_new bv 121, expected).
Proof.
  cbv zeta. split; [vm_compute; reflexivity|]. intros [|] [|]; vm_compute; reflexivity.
Qed.

Example C17_example_next :
  let bv := {| bv_words := [15744103915091742512; 8704277822599834806; 4151295]; bv_len := 150 |} in
  forall d i, exists it, next_run {| dbg := d; intr := i |} bv (unary_new bv 140) 12
    = Ok (it, [Some 140; Some 142; Some 144; Some 145; Some 146; Some 147; Some 148; Some 149;
               None; None; None; None]).
Proof. cbv zeta. intros [|] [|]; eexists; vm_compute; reflexivity. Qed.

(* ---------- the index-based iterators of five structures built over the same eight values, in
   both build profiles: 10 calls of next() return the values in order, then None twice; the size
   hint after the 3rd call is (5, Some 5) ---------- *)
Definition c17_index_iters (c : cfg) (xs : list N) (n : nat) :=
  ov <- cv_from_slice c xs ;; v <- unwrap ov ;;
  db <- db_from_slice c xs ;;
  od <- do_from_slice c xs (Some 3) ;; d <- unwrap od ;;
  op <- ps_from_slice c xs ;; p <- unwrap op ;;
  ow <- wm_new c KRank9 xs ;; w <- unwrap ow ;;
  r1 <- mrun (cv_iter_next c v) n 0 ;; r2 <- mrun (db_iter_next c db) n 0 ;;
  r3 <- mrun (do_iter_next c d) n 0 ;; r4 <- mrun (ps_iter_next c p) n 0 ;;
  r5 <- mrun (wm_iter_next c w) n 0 ;;
  h <- iter_size_hint c (lenN xs) 3 ;;
  Ok (snd r1, snd r2, snd r3, snd r4, snd r5, h).
Example C17_example_index_iters :
  let xs := [3; 1; 4; 1; 5; 9; 2; 6] in
  let out := [Some 3; Some 1; Some 4; Some 1; Some 5; Some 9; Some 2; Some 6; None; None] in
  forall d i, c17_index_iters {| dbg := d; intr := i |} xs 10 = Ok (out, out, out, out, out, (5, 5)).
Proof. cbv zeta. intros [|] [|]; vm_compute; reflexivity. Qed.
