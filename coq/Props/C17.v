(* Props/C17.v — iterators: the unary iterator of BitVector (next / skip1 / skip0) and the
   index-based iterators with their size hints (pinned statements only). *)
From Sucds Require Import Base.Res Spec.BitSpec Spec.SeqSpec Model.BitVector Model.Unary
  Proofs.BVAbs Proofs.UnaryIter Proofs.UnarySkip Proofs.IterGeneric.
Open Scope N_scope.

(* ---------- UnaryIter: new + next ---------- *)

(* unary_iter(p), p <= len, represents the cursor p (nrep: the buffer holds exactly the set bits
   of the current word at positions >= cursor) *)
Theorem C17_unary_new_cursor : forall bv p,
  wf bv -> p <= bv_len bv -> nrep bv (unary_new bv p) p.
Proof. exact unary_new_nrep. Qed.
Print Assumptions C17_unary_new_cursor.

(* the buffer of unary_iter(p): the word p / 64 (0 past the last word) with the bits below
   p mod 64 cleared; position() = p *)
Theorem C17_unary_new_buffer : forall bv p j, j < 64 ->
  N.testbit (u_buf (unary_new bv p)) j
  = (p mod 64 <=? j) && N.testbit (nthN (bv_words bv) (p / 64) 0) j.
Proof. exact unary_new_buf_bit. Qed.
Print Assumptions C17_unary_new_buffer.

(* one next(): the smallest set position q >= cursor, position() = q, cursor q + 1;
   or None when there is none, and the iterator is exhausted *)
Theorem C17_unary_next_step : forall c bv it cur,
  wf bv -> cap_ok bv -> nrep bv it cur ->
  (exists q it', unary_next c bv it = Ok (it', Some q) /\
      filter (fun p => cur <=? p) (positions true (bits_of bv))
        = q :: filter (fun p => q + 1 <=? p) (positions true (bits_of bv)) /\
      u_pos it' = q /\ nrep bv it' (q + 1)) \/
  (exists it', unary_next c bv it = Ok (it', None) /\
      filter (fun p => cur <=? p) (positions true (bits_of bv)) = [] /\
      ndone bv it' /\ u_pos it' < 2 ^ 58).
Proof. exact unary_next_spec. Qed.
Print Assumptions C17_unary_next_step.

(* exhausted stays exhausted: None again, the position advances by 64 *)
Theorem C17_unary_next_exhausted : forall c bv it,
  ndone bv it -> u_pos it + 64 < W ->
  unary_next c bv it = Ok ({| u_pos := u_pos it + 64; u_buf := 0 |}, None) /\
  ndone bv {| u_pos := u_pos it + 64; u_buf := 0 |}.
Proof. exact unary_next_done. Qed.
Print Assumptions C17_unary_next_exhausted.

Theorem C17_unary_next_exhausted_n : forall c bv n it,
  ndone bv it -> u_pos it + 64 * N.of_nat n < W ->
  exists it', next_run c bv it n = Ok (it', repeat None n) /\ ndone bv it' /\
              u_pos it' = u_pos it + 64 * N.of_nat n.
Proof. exact next_run_done. Qed.
Print Assumptions C17_unary_next_exhausted_n.

(* the first n results of next() from unary_iter(p): the set positions >= p in order, then None *)
Theorem C17_unary_next_run : forall c bv p n,
  wf bv -> cap_ok bv -> p <= bv_len bv -> N.of_nat n < 2 ^ 50 ->
  exists it', next_run c bv (unary_new bv p) n
    = Ok (it', firstn n (map Some (filter (fun q => p <=? q) (positions true (bits_of bv)))
                         ++ repeat None n)).
Proof. exact unary_next_run. Qed.
Print Assumptions C17_unary_next_run.

(* ---------- UnaryIter: skip1 / skip0 ---------- *)

(* skip1(k) at cursor cur: the k-th set position q >= cur, the cursor becomes q (inclusive);
   None leaves the iterator unchanged *)
Theorem C17_skip1 : forall c bv cur k,
  wf bv -> cap_ok bv -> cur <= bv_len bv -> k < W ->
  skip1 c bv (unary_new bv cur) k =
  Ok (match nth_opt (filter (fun p => cur <=? p) (positions true (bits_of bv))) k with
      | Some q => (unary_new bv q, Some q)
      | None => (unary_new bv cur, None)
      end).
Proof. exact skip1_spec. Qed.
Print Assumptions C17_skip1.

(* skip0(k): the same for the unset positions of the vector (padding bits are not positions) *)
Theorem C17_skip0 : forall c bv cur k,
  wf bv -> cap_ok bv -> cur <= bv_len bv -> k < W ->
  skip0 c bv (unary_new bv cur) k =
  Ok (match nth_opt (filter (fun p => cur <=? p) (positions false (bits_of bv))) k with
      | Some q => (unary_new bv q, Some q)
      | None => (unary_new bv cur, None)
      end).
Proof. exact skip0_spec. Qed.
Print Assumptions C17_skip0.

(* any sequence of skip1 / skip0 calls agrees with the specification run over (bits, cursor) *)
Theorem C17_skip_sequences : forall c bv,
  wf bv -> cap_ok bv -> forall ops p, p <= bv_len bv ->
  Forall (fun o => sop_arg o < W) ops ->
  skip_run c bv (unary_new bv p) ops
  = Ok (unary_new bv (fst (skip_run_spec (bits_of bv) p ops)),
        snd (skip_run_spec (bits_of bv) p ops)).
Proof. exact skip_run_ok. Qed.
Print Assumptions C17_skip_sequences.

Theorem C17_skip_position : forall c bv ops p it xs,
  wf bv -> cap_ok bv -> p <= bv_len bv -> Forall (fun o => sop_arg o < W) ops ->
  skip_run c bv (unary_new bv p) ops = Ok (it, xs) ->
  position it = fst (skip_run_spec (bits_of bv) p ops) /\ xs = snd (skip_run_spec (bits_of bv) p ops).
Proof. exact skip_run_position. Qed.
Print Assumptions C17_skip_position.

(* ---------- index-based iterators ---------- *)

(* from the one-step shape to the whole stream, the position bound and the exact size hint *)
Theorem C17_index_iter_generic : forall (A : Type) (acc : N -> option A) (len : N)
    (next : N -> res (N * option A)) (hint : N -> res (N * N)),
  len < 2 ^ 56 ->
  (forall pos, pos < W -> next pos = Ok (if pos <? len then (pos + 1, acc pos) else (pos, None))) ->
  (forall pos, pos <= len -> hint pos = Ok (len - pos, len - pos)) ->
  forall j : nat,
    let pj := N.min (N.of_nat j) len in
    mrun next j 0 = Ok (pj, map acc (nseq pj) ++ repeat None (j - N.to_nat len)) /\
    pj <= len /\
    hint pj = Ok (len - pj, len - pj) /\
    forall n : nat,
      mrun next n pj = Ok (N.min (pj + N.of_nat n) len,
                           map acc (nrange pj (Nat.min n (N.to_nat (len - pj))))
                           ++ repeat None (n - N.to_nat (len - pj))).
Proof. exact (@index_iter_ok). Qed.
Print Assumptions C17_index_iter_generic.

(* one `apply` for a structure with an access theorem *)
Theorem C17_index_iter_from_access : forall (A : Type) c (access : N -> res (option A))
    (spec : N -> option A) len,
  len < 2 ^ 56 ->
  (forall pos, pos < len -> access pos = Ok (spec pos)) ->
  (forall pos, pos < len -> spec pos <> None) ->
  iter_ok spec len (index_next c access len) (iter_size_hint c len).
Proof. exact (@index_iter_from_access). Qed.
Print Assumptions C17_index_iter_from_access.

(* the hint is the number of elements still to come *)
Theorem C17_hint_counts_remaining : forall (A : Type) (acc : N -> option A) (len : N),
  (forall i, i < len -> acc i <> None) ->
  forall n pos, pos <= len -> len - pos <= N.of_nat n ->
  lenN (filter is_some (snd (grun acc len n pos))) = fst (ghint len pos).
Proof. exact (@hint_counts_remaining). Qed.
Print Assumptions C17_hint_counts_remaining.

(* BitVector::iter() *)
Theorem C17_bitvector_iter : forall c bv, wf bv -> cap_ok bv ->
  iter_ok (BitSpec.access (bits_of bv)) (bv_len bv)
          (BitVector.iter_next c bv) (BitVector.iter_size_hint c (bv_len bv)).
Proof. exact bv_iter_ok. Qed.
Print Assumptions C17_bitvector_iter.

Theorem C17_bitvector_iter_all : forall c bv n, wf bv -> cap_ok bv -> bv_len bv <= N.of_nat n ->
  mrun (BitVector.iter_next c bv) n 0
  = Ok (bv_len bv, map Some (bits_of bv) ++ repeat None (n - N.to_nat (bv_len bv))).
Proof. exact bv_iter_all. Qed.
Print Assumptions C17_bitvector_iter_all.

Theorem C17_size_hint : forall c len pos, pos <= len ->
  iter_size_hint c len pos = Ok (len - pos, len - pos).
Proof. exact size_hint_ok. Qed.
Print Assumptions C17_size_hint.

(* ---------- a concrete vector: 150 bits in 3 words (42 padding bits) ---------- *)

Example C17_example_mixed_skips :
  let bv := {| bv_words := [15744103915091742512; 8704277822599834806; 4151295]; bv_len := 150 |} in
  let ops := [S1 2; S0 0; S0 5; S1 0; S1 40; S0 70; S0 3; S1 100; S0 0; S1 1; S0 1; S0 0; S1 0;
              S1 30; S0 2; S0 2] in
  let expected := [Some 8; Some 12; Some 19; Some 21; Some 91; None; Some 104; None; Some 104;
                   Some 106; Some 109; Some 109; Some 110; None; Some 117; Some 121] in
  skip_run_spec (bits_of bv) 3 ops = (121, expected) /\
  forall d i, skip_run {| dbg := d; intr := i |} bv (unary_new bv 3) ops
              = Ok (unary_new bv 121, expected).
Proof.
  cbv zeta. split; [vm_compute; reflexivity|]. intros [|] [|]; vm_compute; reflexivity.
Qed.

Example C17_example_next :
  let bv := {| bv_words := [15744103915091742512; 8704277822599834806; 4151295]; bv_len := 150 |} in
  forall d i, exists it, next_run {| dbg := d; intr := i |} bv (unary_new bv 140) 12
    = Ok (it, [Some 140; Some 142; Some 144; Some 145; Some 146; Some 147; Some 148; Some 149;
               None; None; None; None]).
Proof. cbv zeta. intros [|] [|]; eexists; vm_compute; reflexivity. Qed.
