(* Props/E2E.v — end to end: the properties stated DIRECTLY ABOUT THE CODE REGENERATED FROM THE RUST SOURCE.

   Every function named `bit_vector_*`, `rank9sel_*`, `darray_*`, `compact_vector_*`, `elias_fano_*`, `sarray_*`,
   `psef_*`, `dacs_byte_*`, `dacs_opt_*`, `wavelet_matrix_*`, `unary_iter_*` below is a definition of
   gen/MethodsGen.v or gen/LoopsGen.v (BroadwordGen.* of gen/BroadwordGen.v): tools/translate.py rewrites these
   files from /repo/src on every run.  Each theorem composes a tie lemma (generated = hand-written model,
   Proofs/MethodsTie.v, LoopsTieBV/Idx/Seq/DW.v) with the property theorem about the model (Props/C01..C19) and
   discharges the record-range side conditions of the tie from the well-formedness / capacity hypotheses, so the
   reader sees: for every build configuration c and every in-contract input, the regenerated function returns
   Ok (spec ...).  Right-hand sides are the oracles of Spec/BitSpec.v, Spec/SeqSpec.v, Spec/DacSpec.v.

   Pinned statements only; proofs are in Proofs/EndToEnd.v.

   Reading guide.  The functions of gen/LoopsGen.v call generated callees throughout (e.g. rank9sel_build_from_bits
   -> rank9sel_from_bits -> bit_vector_from_bits / rank9sel_new -> rank9_new ...).  A loop-free wrapper of
   gen/MethodsGen.v that calls a function of another module calls the hand model of that callee (darray_select1 ->
   DArray.da_select, elias_fano_select -> DArray.da_select1 / BitVector.get_bits, compact_vector_get_int ->
   BitVector.get_bits); that callee is regenerated and has its own theorem here (E2E_darray_index,
   E2E_bit_vector_get_bits, ...).
   Hypotheses: `wf bv` + `cap_ok bv` (a BitVector value in canonical form holding < 2^56 bits), list lengths below
   the capacity bound, `ef_rep` / `sa_rep` / `cv_rep` (the representation invariants of Props/C04, C03, C09, which
   the constructor theorems below establish for the values the generated constructors return).  Query arguments
   range over all of [0, 2^64) (often all of N). *)
From Sucds Require Import Base.Res Base.Loops Spec.WordSpec Spec.BitSpec Spec.SeqSpec Spec.DacSpec
  Model.BitVector Model.Unary Model.Rank9 Model.DArray Model.CompactVector Model.EliasFano Model.SArray Model.Psef
  Model.Dacs Model.Wavelet
  gen.MethodsGen gen.LoopsGen
  Proofs.BVAbs Proofs.BVMut Proofs.BVHistory Proofs.IndexSpecs Proofs.R9Main Proofs.LoopsTieBV
  Proofs.CVRep Proofs.CVHistory Proofs.EFRep Proofs.EFBuilder Proofs.EFIter Proofs.SALemmas Proofs.SAMain
  Proofs.EndToEnd.
From Sucds Require gen.BroadwordGen Proofs.UnaryIter.
Open Scope N_scope.

(* ---------------------------------------------------------------------------------------------
   1. BitVector: reads, constructors, mutators
   --------------------------------------------------------------------------------------------- *)

Theorem E2E_bit_vector_get_bit :
  forall c bv pos, wf bv -> cap_ok bv -> pos < W ->
  bit_vector_get_bit c bv pos = Ok (BitSpec.access (bits_of bv) pos).
Proof. exact e2e_bit_vector_get_bit. Qed.
Print Assumptions E2E_bit_vector_get_bit.

Theorem E2E_bit_vector_access :
  forall c bv pos, wf bv -> cap_ok bv -> pos < W ->
  bit_vector_access c bv pos = Ok (BitSpec.access (bits_of bv) pos).
Proof. exact e2e_bit_vector_access. Qed.
Print Assumptions E2E_bit_vector_access.

Theorem E2E_bit_vector_get_bits :
  forall c bv pos len, wf bv -> cap_ok bv -> pos < W -> len < W ->
  bit_vector_get_bits c bv pos len = Ok (BitSpec.get_bits (bits_of bv) pos len).
Proof. exact e2e_bit_vector_get_bits. Qed.
Print Assumptions E2E_bit_vector_get_bits.

Theorem E2E_bit_vector_get_word64 :
  forall c bv pos, wf bv -> cap_ok bv -> pos < W ->
  bit_vector_get_word64 c bv pos = Ok (BitSpec.get_word64 (bits_of bv) pos).
Proof. exact e2e_bit_vector_get_word64. Qed.
Print Assumptions E2E_bit_vector_get_word64.

Theorem E2E_bit_vector_rank1 :
  forall c bv pos, wf bv -> cap_ok bv -> pos < W ->
  bit_vector_rank1 c bv pos = Ok (BitSpec.rank true (bits_of bv) pos).
Proof. exact e2e_bit_vector_rank1. Qed.
Print Assumptions E2E_bit_vector_rank1.

Theorem E2E_bit_vector_rank0 :
  forall c bv pos, wf bv -> cap_ok bv -> pos < W ->
  bit_vector_rank0 c bv pos = Ok (BitSpec.rank false (bits_of bv) pos).
Proof. exact e2e_bit_vector_rank0. Qed.
Print Assumptions E2E_bit_vector_rank0.

Theorem E2E_bit_vector_num_ones :
  forall c bv, wf bv -> cap_ok bv ->
  bit_vector_num_ones c bv = Ok (BitSpec.count true (bits_of bv)).
Proof. exact e2e_bit_vector_num_ones. Qed.
Print Assumptions E2E_bit_vector_num_ones.

Theorem E2E_bit_vector_select1 :
  forall c bv k, wf bv -> cap_ok bv -> k < W ->
  bit_vector_select1 c bv k = Ok (BitSpec.select true (bits_of bv) k).
Proof. exact e2e_bit_vector_select1. Qed.
Print Assumptions E2E_bit_vector_select1.

Theorem E2E_bit_vector_select0 :
  forall c bv k, wf bv -> cap_ok bv -> k < W ->
  bit_vector_select0 c bv k = Ok (BitSpec.select false (bits_of bv) k).
Proof. exact e2e_bit_vector_select0. Qed.
Print Assumptions E2E_bit_vector_select0.

Theorem E2E_bit_vector_predecessor1 :
  forall c bv pos, wf bv -> cap_ok bv -> pos < W ->
  bit_vector_predecessor1 c bv pos = Ok (BitSpec.pred true (bits_of bv) pos).
Proof. exact e2e_bit_vector_predecessor1. Qed.
Print Assumptions E2E_bit_vector_predecessor1.

Theorem E2E_bit_vector_predecessor0 :
  forall c bv pos, wf bv -> cap_ok bv -> pos < W ->
  bit_vector_predecessor0 c bv pos = Ok (BitSpec.pred false (bits_of bv) pos).
Proof. exact e2e_bit_vector_predecessor0. Qed.
Print Assumptions E2E_bit_vector_predecessor0.

Theorem E2E_bit_vector_successor1 :
  forall c bv pos, wf bv -> cap_ok bv -> pos < W ->
  bit_vector_successor1 c bv pos = Ok (BitSpec.succ true (bits_of bv) pos).
Proof. exact e2e_bit_vector_successor1. Qed.
Print Assumptions E2E_bit_vector_successor1.

Theorem E2E_bit_vector_successor0 :
  forall c bv pos, wf bv -> cap_ok bv -> pos < W ->
  bit_vector_successor0 c bv pos = Ok (BitSpec.succ false (bits_of bv) pos).
Proof. exact e2e_bit_vector_successor0. Qed.
Print Assumptions E2E_bit_vector_successor0.

(* constructors *)
Theorem E2E_bit_vector_from_bits :
  forall c l, lenN l < 2 ^ 56 ->
  exists bv, bit_vector_from_bits c l = Ok bv /\ wf bv /\ bits_of bv = l.
Proof. exact e2e_bit_vector_from_bits. Qed.
Print Assumptions E2E_bit_vector_from_bits.

Theorem E2E_bit_vector_from_bit :
  forall c b len, len < 2 ^ 56 ->
  exists bv, bit_vector_from_bit c b len = Ok bv /\ wf bv /\ bits_of bv = repeat b (N.to_nat len).
Proof. exact e2e_bit_vector_from_bit. Qed.
Print Assumptions E2E_bit_vector_from_bit.

Theorem E2E_bit_vector_extend :
  forall c bv l, wf bv -> bv_len bv + lenN l < 2 ^ 56 ->
  exists bv', bit_vector_extend c bv l = Ok bv' /\ wf bv' /\ bits_of bv' = bits_of bv ++ l.
Proof. exact e2e_bit_vector_extend. Qed.
Print Assumptions E2E_bit_vector_extend.

(* mutators *)
Theorem E2E_bit_vector_push_bit :
  forall c bv b, wf bv -> bv_len bv + 1 < 2 ^ 56 ->
  exists bv', bit_vector_push_bit c bv b = Ok bv' /\ wf bv' /\ bits_of bv' = bits_of bv ++ [b].
Proof. exact e2e_bit_vector_push_bit. Qed.
Print Assumptions E2E_bit_vector_push_bit.

Theorem E2E_bit_vector_set_bit :
  forall c bv pos b, wf bv ->
  op_post bv (OSetBit pos b) (bit_vector_set_bit c bv pos b).
Proof. exact e2e_bit_vector_set_bit. Qed.
Print Assumptions E2E_bit_vector_set_bit.

Theorem E2E_bit_vector_push_bits :
  forall c bv bits len, wf bv ->
  lenN (fst (apply_op (bits_of bv) (OPushBits bits len))) < 2 ^ 56 ->
  op_post bv (OPushBits bits len) (bit_vector_push_bits c bv bits len).
Proof. exact e2e_bit_vector_push_bits. Qed.
Print Assumptions E2E_bit_vector_push_bits.

Theorem E2E_bit_vector_set_bits :
  forall c bv pos bits len, wf bv -> cap_ok bv ->
  op_post bv (OSetBits pos bits len) (bit_vector_set_bits c bv pos bits len).
Proof. exact e2e_bit_vector_set_bits. Qed.
Print Assumptions E2E_bit_vector_set_bits.


(* ---------------------------------------------------------------------------------------------
   1b. BitVector: histories (C07) and the iterator
   --------------------------------------------------------------------------------------------- *)

Theorem E2E_bit_vector_history :
  forall c ops, ops_ok [] ops ->
  exists bv0 bv, bit_vector_new c = Ok bv0 /\
    gen_bv_run c bv0 ops = Ok (bv, snd (run_ops [] ops)) /\ wf bv /\ bits_of bv = fst (run_ops [] ops).
Proof. exact e2e_bit_vector_history. Qed.
Print Assumptions E2E_bit_vector_history.

(* the iterator: one call of next() at any position *)
Theorem E2E_bit_vector_iter_next :
  forall c bv pos, wf bv -> cap_ok bv -> pos < W ->
  bit_vector_iter_next c {| it_bv := bv; it_pos := pos |} =
  Ok (if pos <? bv_len bv then ({| it_bv := bv; it_pos := pos + 1 |}, BitSpec.access (bits_of bv) pos)
      else ({| it_bv := bv; it_pos := pos |}, None)).
Proof. exact e2e_bit_vector_iter_next. Qed.
Print Assumptions E2E_bit_vector_iter_next.


(* ---------------------------------------------------------------------------------------------
   1c. UnaryIter (C17)
   --------------------------------------------------------------------------------------------- *)

(* ---- UnaryIter (C17): unary_iter(p), skip1 / skip0, next as regenerated ---- *)
Theorem E2E_bit_vector_unary_iter :
  forall c bv p,
  bit_vector_unary_iter c bv p = Ok (of_u bv (unary_new bv p)) /\
  unary_iter_new c bv p = Ok (of_u bv (unary_new bv p)) /\
  unary_iter_position c (of_u bv (unary_new bv p)) = Ok p.
Proof. exact e2e_bit_vector_unary_iter. Qed.
Print Assumptions E2E_bit_vector_unary_iter.

Theorem E2E_unary_iter_skip1 :
  forall c bv cur k,
  wf bv -> cap_ok bv -> cur <= bv_len bv -> k < W ->
  unary_iter_skip1 c (of_u bv (unary_new bv cur)) k =
  Ok (match nth_opt (filter (fun p => cur <=? p) (positions true (bits_of bv))) k with
      | Some q => (of_u bv (unary_new bv q), Some q)
      | None => (of_u bv (unary_new bv cur), None)
      end).
Proof. exact e2e_unary_iter_skip1. Qed.
Print Assumptions E2E_unary_iter_skip1.

Theorem E2E_unary_iter_skip0 :
  forall c bv cur k,
  wf bv -> cap_ok bv -> cur <= bv_len bv -> k < W ->
  unary_iter_skip0 c (of_u bv (unary_new bv cur)) k =
  Ok (match nth_opt (filter (fun p => cur <=? p) (positions false (bits_of bv))) k with
      | Some q => (of_u bv (unary_new bv q), Some q)
      | None => (of_u bv (unary_new bv cur), None)
      end).
Proof. exact e2e_unary_iter_skip0. Qed.
Print Assumptions E2E_unary_iter_skip0.

(* one next() from any iterator state representing cursor `cur` (in particular unary_iter(cur)) *)
Theorem E2E_unary_iter_next :
  forall c bv it cur,
  wf bv -> cap_ok bv -> UnaryIter.nrep bv it cur ->
  (exists q it', unary_iter_next c (of_u bv it) = Ok (of_u bv it', Some q) /\
      filter (fun p => cur <=? p) (positions true (bits_of bv))
        = q :: filter (fun p => q + 1 <=? p) (positions true (bits_of bv)) /\
      u_pos it' = q /\ UnaryIter.nrep bv it' (q + 1)) \/
  (exists it', unary_iter_next c (of_u bv it) = Ok (of_u bv it', None) /\
      filter (fun p => cur <=? p) (positions true (bits_of bv)) = [] /\
      UnaryIter.ndone bv it' /\ u_pos it' < 2 ^ 58).
Proof. exact e2e_unary_iter_next. Qed.
Print Assumptions E2E_unary_iter_next.


(* ---------------------------------------------------------------------------------------------
   2. Rank9Sel
   --------------------------------------------------------------------------------------------- *)

(* the value built in any of the four hint configurations answers the generated queries *)
Theorem E2E_rank9sel_queries :
  forall c bv h1 h0, wf bv -> cap_ok bv ->
  rank9sel_gen_correct c (r9_spec bv h1 h0) (bits_of bv).
Proof. exact e2e_rank9sel_queries. Qed.
Print Assumptions E2E_rank9sel_queries.

(* the generated builder methods on a well-formed vector *)
Theorem E2E_rank9sel_new :
  forall c bv, wf bv -> cap_ok bv ->
  rank9sel_new c bv = Ok (r9_spec bv false false).
Proof. exact e2e_rank9sel_new. Qed.
Print Assumptions E2E_rank9sel_new.

Theorem E2E_rank9sel_select1_hints :
  forall c bv h1 h0, wf bv -> cap_ok bv ->
  rank9sel_select1_hints c (r9_spec bv h1 h0) = Ok (r9_spec bv true h0).
Proof. exact e2e_rank9sel_select1_hints. Qed.
Print Assumptions E2E_rank9sel_select1_hints.

Theorem E2E_rank9sel_select0_hints :
  forall c bv h1 h0, wf bv -> cap_ok bv ->
  rank9sel_select0_hints c (r9_spec bv h1 h0) = Ok (r9_spec bv h1 true).
Proof. exact e2e_rank9sel_select0_hints. Qed.
Print Assumptions E2E_rank9sel_select0_hints.

(* Build::build_from_bits: from any list of bits below the capacity bound, every flag combination:
   ONE value for every build configuration, answering every generated query like the list *)
Theorem E2E_rank9sel_build_from_bits :
  forall l wr h1 h0, lenN l < 2 ^ 56 ->
  exists x, (forall c, rank9sel_build_from_bits c l wr h1 h0 = Ok (Some x)) /\
            bits_of (r9_bv x) = l /\ (forall c, rank9sel_gen_correct c x l).
Proof. exact e2e_rank9sel_build_from_bits. Qed.
Print Assumptions E2E_rank9sel_build_from_bits.

Theorem E2E_rank9sel_from_bits :
  forall l, lenN l < 2 ^ 56 ->
  exists x, (forall c, rank9sel_from_bits c l = Ok x) /\
            bits_of (r9_bv x) = l /\ (forall c, rank9sel_gen_correct c x l).
Proof. exact e2e_rank9sel_from_bits. Qed.
Print Assumptions E2E_rank9sel_from_bits.


(* ---------------------------------------------------------------------------------------------
   3. DArray (select index and wrapper)
   --------------------------------------------------------------------------------------------- *)

(* DArrayIndex::new / build and DArrayIndex::select as regenerated: one index for every configuration;
   select over ones (v = true) and zeros (v = false) is the list's select for every k *)
Theorem E2E_darray_index :
  forall bv v, wf bv -> cap_ok bv ->
  exists d, (forall c, darray_index_new c bv v = Ok d) /\ (forall c, darray_index_build c bv v = Ok d) /\
            d_over_one d = v /\
            (forall c, darray_index_num_ones c d = Ok (BitSpec.count v (bits_of bv))) /\
            (forall c k, k < W -> darray_index_select c d bv k = Ok (BitSpec.select v (bits_of bv) k)).
Proof. exact e2e_darray_index. Qed.
Print Assumptions E2E_darray_index.

Theorem E2E_darray_from_bits :
  forall l, lenN l < 2 ^ 56 ->
  exists d, (forall c, darray_from_bits c l = Ok d) /\ bits_of (da_bv d) = l /\
            da_s0 d = None /\ da_r9 d = None /\ (forall c, darray_gen_correct c d l).
Proof. exact e2e_darray_from_bits. Qed.
Print Assumptions E2E_darray_from_bits.

Theorem E2E_darray_enable_select0 :
  forall d, (forall c, da_correct c d) -> cap_ok (da_bv d) ->
  exists d', (forall c, darray_enable_select0 c d = Ok d') /\
             da_bv d' = da_bv d /\ da_s1 d' = da_s1 d /\ da_r9 d' = da_r9 d /\ da_s0 d' <> None /\
             (forall c, da_correct c d') /\ (forall c, darray_gen_correct c d' (bits_of (da_bv d))).
Proof. exact e2e_darray_enable_select0. Qed.
Print Assumptions E2E_darray_enable_select0.

Theorem E2E_darray_enable_rank :
  forall d, (forall c, da_correct c d) -> cap_ok (da_bv d) ->
  exists d', (forall c, darray_enable_rank c d = Ok d') /\
             da_bv d' = da_bv d /\ da_s1 d' = da_s1 d /\ da_s0 d' = da_s0 d /\ da_r9 d' <> None /\
             (forall c, da_correct c d') /\ (forall c, darray_gen_correct c d' (bits_of (da_bv d))).
Proof. exact e2e_darray_enable_rank. Qed.
Print Assumptions E2E_darray_enable_rank.

(* Build::build_from_bits(bits, with_rank, with_select1, with_select0) *)
Theorem E2E_darray_build_from_bits :
  forall l wr w1 w0, lenN l < 2 ^ 56 ->
  exists d, (forall c, darray_build_from_bits c l wr w1 w0 = Ok (Some d)) /\ bits_of (da_bv d) = l /\
            (da_s0 d <> None <-> w0 = true) /\ (da_r9 d <> None <-> wr = true) /\
            (forall c, darray_gen_correct c d l).
Proof. exact e2e_darray_build_from_bits. Qed.
Print Assumptions E2E_darray_build_from_bits.


(* ---------------------------------------------------------------------------------------------
   6. CompactVector
   --------------------------------------------------------------------------------------------- *)

Theorem E2E_compact_vector_new :
  forall c w,
  if wok w then exists v, compact_vector_new c w = Ok (Some v) /\ cv_rep v [] /\ cv_width v = w
  else compact_vector_new c w = Ok None.
Proof. exact e2e_compact_vector_new. Qed.
Print Assumptions E2E_compact_vector_new.

Theorem E2E_compact_vector_with_capacity :
  forall c capa w, (wok w = true -> capa * w + 64 < W) ->
  compact_vector_with_capacity c capa w = Ok (cv_new w).
Proof. exact e2e_compact_vector_with_capacity. Qed.
Print Assumptions E2E_compact_vector_with_capacity.

Theorem E2E_compact_vector_from_int :
  forall c val len w, val < W -> len < W ->
  (wok w && fitsb w val = true -> len * w < 2 ^ 56) ->
  if wok w && fitsb w val
  then exists v, compact_vector_from_int c val len w = Ok (Some v) /\
                 cv_rep v (repeat val (N.to_nat len)) /\ cv_width v = w
  else compact_vector_from_int c val len w = Ok None.
Proof. exact e2e_compact_vector_from_int. Qed.
Print Assumptions E2E_compact_vector_from_int.

Theorem E2E_compact_vector_from_slice :
  forall c l, l <> [] -> Forall (fun x => x < W) l ->
  lenN l * bitlen (max_list l) < 2 ^ 56 ->
  exists v, compact_vector_from_slice c l = Ok (Some v) /\ cv_rep v l /\ cv_width v = bitlen (max_list l).
Proof. exact e2e_compact_vector_from_slice. Qed.
Print Assumptions E2E_compact_vector_from_slice.

Theorem E2E_compact_vector_from_slice_nil :
  forall c, compact_vector_from_slice c [] = Ok (Some cv_default).
Proof. exact e2e_compact_vector_from_slice_nil. Qed.
Print Assumptions E2E_compact_vector_from_slice_nil.

Theorem E2E_compact_vector_get_int :
  forall c v xs, cv_rep v xs -> lenN xs * cv_width v < 2 ^ 56 ->
  forall pos, pos < W -> compact_vector_get_int c v pos = Ok (nth_opt xs pos).
Proof. exact e2e_compact_vector_get_int. Qed.
Print Assumptions E2E_compact_vector_get_int.

Theorem E2E_compact_vector_access :
  forall c v xs, cv_rep v xs -> lenN xs * cv_width v < 2 ^ 56 ->
  forall pos, pos < W -> compact_vector_access c v pos = Ok (nth_opt xs pos).
Proof. exact e2e_compact_vector_access. Qed.
Print Assumptions E2E_compact_vector_access.

Theorem E2E_compact_vector_len :
  forall c v xs, cv_rep v xs -> compact_vector_len c v = Ok (lenN xs).
Proof. exact e2e_compact_vector_len. Qed.
Print Assumptions E2E_compact_vector_len.

Theorem E2E_compact_vector_push_int :
  forall c v xs x, cv_rep v xs -> x < W ->
  (x < 2 ^ cv_width v -> (lenN xs + 1) * cv_width v < 2 ^ 56) ->
  exists v' ok, compact_vector_push_int c v x = Ok (v', ok) /\ ok = fitsb (cv_width v) x /\
    cv_width v' = cv_width v /\
    (ok = true -> cv_rep v' (xs ++ [x])) /\ (ok = false -> v' = v).
Proof. exact e2e_compact_vector_push_int. Qed.
Print Assumptions E2E_compact_vector_push_int.

Theorem E2E_compact_vector_set_int :
  forall c v xs pos x, cv_rep v xs -> pos < W -> x < W ->
  lenN xs * cv_width v < 2 ^ 56 ->
  exists v' ok, compact_vector_set_int c v pos x = Ok (v', ok) /\
    ok = (pos <? lenN xs) && fitsb (cv_width v) x /\ cv_width v' = cv_width v /\
    (ok = true -> cv_rep v' (setN xs pos x)) /\ (ok = false -> v' = v).
Proof. exact e2e_compact_vector_set_int. Qed.
Print Assumptions E2E_compact_vector_set_int.

Theorem E2E_compact_vector_extend :
  forall c v xs l, cv_rep v xs -> Forall (fun x => x < W) l ->
  (lenN xs + lenN (fit_prefix (cv_width v) l)) * cv_width v < 2 ^ 56 ->
  exists v' ok, compact_vector_extend c v l = Ok (v', ok) /\ ok = forallb (fitsb (cv_width v)) l /\
    cv_width v' = cv_width v /\ cv_rep v' (xs ++ fit_prefix (cv_width v) l).
Proof. exact e2e_compact_vector_extend. Qed.
Print Assumptions E2E_compact_vector_extend.

(* from_slice then get_int: the composed statement *)
Theorem E2E_compact_vector_from_slice_get_int :
  forall c l, l <> [] -> Forall (fun x => x < W) l ->
  lenN l * bitlen (max_list l) < 2 ^ 56 ->
  exists v, compact_vector_from_slice c l = Ok (Some v) /\
    forall c' pos, pos < W -> compact_vector_get_int c' v pos = Ok (nth_opt l pos) /\
                              compact_vector_access c' v pos = Ok (nth_opt l pos).
Proof. exact e2e_compact_vector_from_slice_get_int. Qed.
Print Assumptions E2E_compact_vector_from_slice_get_int.


(* ---------------------------------------------------------------------------------------------
   6b. CompactVector: histories (C09)
   --------------------------------------------------------------------------------------------- *)

Theorem E2E_compact_vector_history :
  forall c ops w xs, cvops_ok None ops ->
  fst (run_cvops None ops) = Some (w, xs) ->
  exists v, gen_cv_run c None ops = Ok (Some v, snd (run_cvops None ops)) /\
    cv_width v = w /\ compact_vector_len c v = Ok (lenN xs) /\
    (forall pos, pos < W -> compact_vector_get_int c v pos = Ok (nth_opt xs pos)).
Proof. exact e2e_compact_vector_history. Qed.
Print Assumptions E2E_compact_vector_history.


(* ---------------------------------------------------------------------------------------------
   4. EliasFano: builder, queries, iterator
   --------------------------------------------------------------------------------------------- *)

(* C16 about the generated code: new, ANY history of push / extend calls, build; the built value
   (one for every configuration) represents exactly the accepted values *)
Theorem E2E_elias_fano_builder_history :
  forall u m ops, u < W -> 1 <= m ->
  m + 2 + u / 2 ^ low_len_of u m < 2 ^ 56 -> m * low_len_of u m < 2 ^ 56 ->
  let acc := fst (spec_run u m [] ops) in
  exists e, ef_rep e acc u /\
    (forall c, exists b0 b, elias_fano_builder_new c u m = Ok (Some b0) /\
       gen_ef_run c b0 ops = Ok (b, snd (spec_run u m [] ops)) /\
       elias_fano_builder_build c b = Ok e).
Proof. exact e2e_elias_fano_builder_history. Qed.
Print Assumptions E2E_elias_fano_builder_history.

Theorem E2E_elias_fano_builder_new_zero :
  forall c u, elias_fano_builder_new c u 0 = Ok None.
Proof. exact e2e_elias_fano_builder_new_zero. Qed.
Print Assumptions E2E_elias_fano_builder_new_zero.

(* C04 construction about the generated code: every sorted sequence below u that fits the capacity is accepted
   entirely by new + extend; build and enable_rank give e, e' (the same in every configuration) *)
Theorem E2E_elias_fano_build :
  forall u m xs, u < W -> 1 <= m -> lenN xs <= m ->
  m + 2 + u / 2 ^ low_len_of u m < 2 ^ 56 -> m * low_len_of u m < 2 ^ 56 ->
  nondec xs -> Forall (fun x => x < u) xs ->
  exists e e', ef_rep e xs u /\ ef_rep e' xs u /\ da_s0 (ef_high e') <> None /\ ef_s0_range e' /\
    forall c, exists b0 b, elias_fano_builder_new c u m = Ok (Some b0) /\
                           elias_fano_builder_extend c b0 xs = Ok (b, true) /\
                           elias_fano_builder_build c b = Ok e /\ elias_fano_enable_rank c e = Ok e'.
Proof. exact e2e_elias_fano_build. Qed.
Print Assumptions E2E_elias_fano_build.

(* enable_rank on any represented value *)
Theorem E2E_elias_fano_enable_rank :
  forall e xs u, ef_rep e xs u ->
  exists e', (forall c, elias_fano_enable_rank c e = Ok e') /\ ef_rep e' xs u /\
             da_s0 (ef_high e') <> None /\ ef_s0_range e'.
Proof. exact e2e_elias_fano_enable_rank. Qed.
Print Assumptions E2E_elias_fano_enable_rank.

(* ---- queries ---- *)
Theorem E2E_elias_fano_len :
  forall e xs u, ef_rep e xs u ->
  forall c, elias_fano_len c e = Ok (lenN xs) /\ elias_fano_universe c e = Ok u.
Proof. exact e2e_elias_fano_len. Qed.
Print Assumptions E2E_elias_fano_len.

Theorem E2E_elias_fano_select :
  forall e xs u, ef_rep e xs u ->
  forall c k, elias_fano_select c e k = Ok (SeqSpec.ef_select xs k).
Proof. exact e2e_elias_fano_select. Qed.
Print Assumptions E2E_elias_fano_select.

Theorem E2E_elias_fano_delta :
  forall e xs u, ef_rep e xs u ->
  forall c k, elias_fano_delta c e k = Ok (SeqSpec.ef_delta xs k).
Proof. exact e2e_elias_fano_delta. Qed.
Print Assumptions E2E_elias_fano_delta.

Theorem E2E_elias_fano_rank :
  forall e xs u, ef_rep e xs u -> da_s0 (ef_high e) <> None -> ef_s0_range e ->
  forall c p, elias_fano_rank c e p = Ok (SeqSpec.ef_rank xs u p).
Proof. exact e2e_elias_fano_rank. Qed.
Print Assumptions E2E_elias_fano_rank.

Theorem E2E_elias_fano_predecessor :
  forall e xs u, ef_rep e xs u -> da_s0 (ef_high e) <> None ->
  forall c p, elias_fano_predecessor c e p = Ok (SeqSpec.ef_pred xs u p).
Proof. exact e2e_elias_fano_predecessor. Qed.
Print Assumptions E2E_elias_fano_predecessor.

Theorem E2E_elias_fano_successor :
  forall e xs u, ef_rep e xs u -> da_s0 (ef_high e) <> None ->
  forall c p, elias_fano_successor c e p = Ok (SeqSpec.ef_succ xs u p).
Proof. exact e2e_elias_fano_successor. Qed.
Print Assumptions E2E_elias_fano_successor.

Theorem E2E_elias_fano_binsearch_range :
  forall e xs u, ef_rep e xs u ->
  forall c val rs re, exists r, elias_fano_binsearch_range c e (rs, re) val = Ok r /\
    binsearch_ok xs rs re val r = true.
Proof. exact e2e_elias_fano_binsearch_range. Qed.
Print Assumptions E2E_elias_fano_binsearch_range.

Theorem E2E_elias_fano_binsearch :
  forall e xs u, ef_rep e xs u ->
  forall c val, exists r, elias_fano_binsearch c e val = Ok r /\ binsearch_ok xs 0 (lenN xs) val r = true.
Proof. exact e2e_elias_fano_binsearch. Qed.
Print Assumptions E2E_elias_fano_binsearch.

Theorem E2E_elias_fano_iter :
  forall e xs u, ef_rep e xs u ->
  forall c k n, exists it it', elias_fano_iter c e k = Ok it /\
    gen_efi_run c n it = Ok (it', iter_outputs xs k n).
Proof. exact e2e_elias_fano_iter. Qed.
Print Assumptions E2E_elias_fano_iter.

(* the composed statement: the generated builder on a sorted sequence, build, enable_rank, then every generated
   query = SeqSpec on the sequence *)
Theorem E2E_elias_fano :
  forall u m xs, u < W -> 1 <= m -> lenN xs <= m ->
  m + 2 + u / 2 ^ low_len_of u m < 2 ^ 56 -> m * low_len_of u m < 2 ^ 56 ->
  nondec xs -> Forall (fun x => x < u) xs ->
  exists e e',
    (forall c, exists b0 b, elias_fano_builder_new c u m = Ok (Some b0) /\
                            elias_fano_builder_extend c b0 xs = Ok (b, true) /\
                            elias_fano_builder_build c b = Ok e /\ elias_fano_enable_rank c e = Ok e') /\
    (forall c, elias_fano_len c e = Ok (lenN xs) /\ elias_fano_universe c e = Ok u) /\
    (forall c k, elias_fano_select c e k = Ok (SeqSpec.ef_select xs k) /\
                 elias_fano_delta c e k = Ok (SeqSpec.ef_delta xs k) /\
                 elias_fano_select c e' k = Ok (SeqSpec.ef_select xs k) /\
                 elias_fano_delta c e' k = Ok (SeqSpec.ef_delta xs k)) /\
    (forall c p, elias_fano_rank c e' p = Ok (SeqSpec.ef_rank xs u p) /\
                 elias_fano_predecessor c e' p = Ok (SeqSpec.ef_pred xs u p) /\
                 elias_fano_successor c e' p = Ok (SeqSpec.ef_succ xs u p)) /\
    (forall c val, exists r, elias_fano_binsearch c e val = Ok r /\ binsearch_ok xs 0 (lenN xs) val r = true) /\
    (forall c val rs re, exists r, elias_fano_binsearch_range c e (rs, re) val = Ok r /\
                                   binsearch_ok xs rs re val r = true) /\
    (forall c k n, exists it it', elias_fano_iter c e k = Ok it /\ gen_efi_run c n it = Ok (it', iter_outputs xs k n)).
Proof. exact e2e_elias_fano. Qed.
Print Assumptions E2E_elias_fano.


(* ---------------------------------------------------------------------------------------------
   5. SArray
   --------------------------------------------------------------------------------------------- *)

(* queries, from the representation invariant *)
Theorem E2E_sarray_counts :
  forall s b, sa_rep s b -> forall c,
  sarray_num_bits c s = Ok (lenN b) /\ sarray_len c s = Ok (lenN b) /\ sarray_num_ones c s = Ok (count true b) /\
  sarray_has_rank c s = Ok (sa_has_rank s).
Proof. exact e2e_sarray_counts. Qed.
Print Assumptions E2E_sarray_counts.

Theorem E2E_sarray_access :
  forall s b, sa_rep s b ->
  forall c i, sarray_access c s i = Ok (BitSpec.access b i).
Proof. exact e2e_sarray_access. Qed.
Print Assumptions E2E_sarray_access.

Theorem E2E_sarray_select1 :
  forall s b, sa_rep s b ->
  forall c k, sarray_select1 c s k = Ok (BitSpec.select true b k).
Proof. exact e2e_sarray_select1. Qed.
Print Assumptions E2E_sarray_select1.

Theorem E2E_sarray_rank1 :
  forall s b, sa_rep s b -> sa_has_rank s = true -> sa_s0_range s ->
  forall c p, sarray_rank1 c s p = Ok (BitSpec.rank true b p).
Proof. exact e2e_sarray_rank1. Qed.
Print Assumptions E2E_sarray_rank1.

Theorem E2E_sarray_rank0 :
  forall s b, sa_rep s b -> sa_has_rank s = true -> sa_s0_range s ->
  forall c p, sarray_rank0 c s p = Ok (BitSpec.rank false b p).
Proof. exact e2e_sarray_rank0. Qed.
Print Assumptions E2E_sarray_rank0.

Theorem E2E_sarray_predecessor1 :
  forall s b, sa_rep s b -> sa_has_rank s = true ->
  forall c p, sarray_predecessor1 c s p = Ok (BitSpec.pred true b p).
Proof. exact e2e_sarray_predecessor1. Qed.
Print Assumptions E2E_sarray_predecessor1.

Theorem E2E_sarray_successor1 :
  forall s b, sa_rep s b -> sa_has_rank s = true ->
  forall c p, sarray_successor1 c s p = Ok (BitSpec.succ true b p).
Proof. exact e2e_sarray_successor1. Qed.
Print Assumptions E2E_sarray_successor1.

Theorem E2E_sarray_from_bits :
  forall l, lenN l < 2 ^ 54 ->
  exists s, (forall c, sarray_from_bits c l = Ok s) /\ sa_rep s l /\ sa_has_rank s = false /\ sa_s0_range s.
Proof. exact e2e_sarray_from_bits. Qed.
Print Assumptions E2E_sarray_from_bits.

Theorem E2E_sarray_enable_rank :
  forall s b, sa_rep s b ->
  exists s', (forall c, sarray_enable_rank c s = Ok s') /\ sa_rep s' b /\ sa_has_rank s' = true /\ sa_s0_range s'.
Proof. exact e2e_sarray_enable_rank. Qed.
Print Assumptions E2E_sarray_enable_rank.

(* Build::build_from_bits(bits, with_rank, with_select1, with_select0 = false); with_select0 = true is an Err *)
Theorem E2E_sarray_build_from_bits :
  forall l wr w1, lenN l < 2 ^ 54 ->
  exists s, (forall c, sarray_build_from_bits c l wr w1 false = Ok (Some s)) /\
            sa_rep s l /\ sa_has_rank s = wr /\ sa_s0_range s.
Proof. exact e2e_sarray_build_from_bits. Qed.
Print Assumptions E2E_sarray_build_from_bits.

Theorem E2E_sarray_build_from_bits_select0 :
  forall c l wr w1, lenN l < 2 ^ 54 ->
  sarray_build_from_bits c l wr w1 true = Ok None.
Proof. exact e2e_sarray_build_from_bits_select0. Qed.
Print Assumptions E2E_sarray_build_from_bits_select0.

(* the composed statement: from_bits, enable_rank, then every query = BitSpec on the bits *)
Theorem E2E_sarray :
  forall l, lenN l < 2 ^ 54 ->
  exists s0 s, (forall c, sarray_from_bits c l = Ok s0) /\ (forall c, sarray_enable_rank c s0 = Ok s) /\
    (forall c i, sarray_access c s0 i = Ok (BitSpec.access l i) /\ sarray_select1 c s0 i = Ok (BitSpec.select true l i)) /\
    (forall c i, sarray_access c s i = Ok (BitSpec.access l i) /\
                 sarray_select1 c s i = Ok (BitSpec.select true l i) /\
                 sarray_rank1 c s i = Ok (BitSpec.rank true l i) /\
                 sarray_rank0 c s i = Ok (BitSpec.rank false l i) /\
                 sarray_predecessor1 c s i = Ok (BitSpec.pred true l i) /\
                 sarray_successor1 c s i = Ok (BitSpec.succ true l i)).
Proof. exact e2e_sarray. Qed.
Print Assumptions E2E_sarray.


(* ---------------------------------------------------------------------------------------------
   7. DacsByte / DacsOpt
   --------------------------------------------------------------------------------------------- *)

Theorem E2E_dacs_byte :
  forall vals, Forall (fun x => x < W) vals -> lenN vals < 2 ^ 50 ->
  exists d,
    (forall c, dacs_byte_from_slice c vals = Ok (Some d)) /\
    (forall c, dacs_byte_build_from_slice c vals = Ok (Some d)) /\
    (forall c, dacs_byte_len c d = Ok (lenN vals)) /\
    (forall c, dacs_byte_num_vals c d = Ok (lenN vals)) /\
    (forall c, dacs_byte_is_empty c d = Ok (lenN vals =? 0)) /\
    (forall c, dacs_byte_num_levels c d = Ok (DacSpec.byte_levels vals)) /\
    (forall c, dacs_byte_widths c d = Ok (repeat 8 (N.to_nat (DacSpec.byte_levels vals)))) /\
    (forall c i, i < W -> dacs_byte_access c d i = Ok (SeqSpec.nth_opt vals i)) /\
    (forall c pos, pos < W ->
       dacs_byte_iter_next c {| dbi_seq := d; dbi_pos := pos |}
       = Ok (if pos <? lenN vals then ({| dbi_seq := d; dbi_pos := pos + 1 |}, SeqSpec.nth_opt vals pos)
             else ({| dbi_seq := d; dbi_pos := pos |}, None))).
Proof. exact e2e_dacs_byte. Qed.
Print Assumptions E2E_dacs_byte.

Theorem E2E_dacs_opt_reject :
  forall c vals m, Forall (fun x => x < W) vals -> ~ (1 <= m <= 64) ->
  dacs_opt_from_slice c vals (Some m) = Ok None.
Proof. exact e2e_dacs_opt_reject. Qed.
Print Assumptions E2E_dacs_opt_reject.

Theorem E2E_dacs_opt :
  forall vals mlo,
  let ml := match mlo with Some m => m | None => 64 end in
  Forall (fun x => x < W) vals -> lenN vals < 2 ^ 50 -> 1 <= ml <= 64 ->
  exists d,
    (forall c, dacs_opt_from_slice c vals mlo = Ok (Some d)) /\
    (forall c, dacs_opt_len c d = Ok (lenN vals)) /\
    (forall c, dacs_opt_num_vals c d = Ok (lenN vals)) /\
    (forall c, dacs_opt_num_levels c d = Ok (do_num_levels d)) /\ 1 <= do_num_levels d <= N.min ml 64 /\
    (vals = [] -> d = do_default) /\
    (* the widths reported by the generated getter are what the generated dynamic program computes, they are
       admissible and of minimum cost among all admissible splits *)
    (vals <> [] ->
       exists ws, (forall c, dacs_opt_widths c d = Ok ws) /\
       (forall c, dacs_opt_compute_opt_widths c vals ml = Ok ws) /\
       DacSpec.admissible vals ws ml = true /\
       (forall ws', DacSpec.admissible vals ws' ml = true -> DacSpec.cost vals ws <= DacSpec.cost vals ws')) /\
    (forall c i, i < W -> dacs_opt_access c d i = Ok (SeqSpec.nth_opt vals i)) /\
    (forall c pos, pos < W ->
       dacs_opt_iter_next c {| doi_seq := d; doi_pos := pos |}
       = Ok (if pos <? lenN vals then ({| doi_seq := d; doi_pos := pos + 1 |}, SeqSpec.nth_opt vals pos)
             else ({| doi_seq := d; doi_pos := pos |}, None))).
Proof. exact e2e_dacs_opt. Qed.
Print Assumptions E2E_dacs_opt.

(* Build-trait entry point of DacsOpt: from_slice(vals, None) *)
Theorem E2E_dacs_opt_build_from_slice :
  forall c vals, Forall (fun x => x < W) vals ->
  dacs_opt_build_from_slice c vals = dacs_opt_from_slice c vals None.
Proof. exact e2e_dacs_opt_build_from_slice. Qed.
Print Assumptions E2E_dacs_opt_build_from_slice.


(* ---------------------------------------------------------------------------------------------
   8. PrefixSummedEliasFano
   --------------------------------------------------------------------------------------------- *)

Theorem E2E_psef_from_slice_nil :
  forall c, psef_from_slice c [] = Ok None.
Proof. exact e2e_psef_from_slice_nil. Qed.
Print Assumptions E2E_psef_from_slice_nil.

(* hypothesis: n + sum + 3 < 2^56, the range under which Proofs/LoopsTieSeq.v ties psef_from_slice (it implies
   sum + 1 < 2^64 and the Elias-Fano capacity used by Props/C12) *)
Theorem E2E_psef :
  forall vals, vals <> [] -> lenN vals + sum_list vals + 3 < 2 ^ 56 ->
  exists p, (forall c, psef_from_slice c vals = Ok (Some p)) /\
    (forall c, psef_len c p = Ok (lenN vals)) /\
    (forall c, psef_sum c p = Ok (sum_list vals)) /\
    (forall c i, psef_access c p i = Ok (nth_opt vals i)) /\
    (forall c pos, pos < W ->
       psef_iter_next c {| pi_efl := p; pi_pos := pos |}
       = Ok (if pos <? lenN vals then ({| pi_efl := p; pi_pos := pos + 1 |}, nth_opt vals pos)
             else ({| pi_efl := p; pi_pos := pos |}, None))).
Proof. exact e2e_psef. Qed.
Print Assumptions E2E_psef.


(* ---------------------------------------------------------------------------------------------
   9. WaveletMatrix
   --------------------------------------------------------------------------------------------- *)

(* WaveletMatrix::new on a CompactVector holding s (any width): one matrix for every configuration *)
Theorem E2E_wavelet_matrix_new :
  forall k seq s, wm_in s -> cv_inv seq s ->
  exists wm, (forall c, wavelet_matrix_new c k seq = Ok (Some wm)) /\
    (forall c, wavelet_matrix_len c wm = Ok (lenN s)) /\
    (forall c, wavelet_matrix_alph_size c wm = Ok (max_list s + 1)) /\
    (forall c, wavelet_matrix_alph_width c wm = Ok (bitlen (max_list s + 1))).
Proof. exact e2e_wavelet_matrix_new. Qed.
Print Assumptions E2E_wavelet_matrix_new.

Theorem E2E_wavelet_matrix_new_empty :
  forall c k seq, cv_inv seq [] -> wavelet_matrix_new c k seq = Ok None.
Proof. exact e2e_wavelet_matrix_new_empty. Qed.
Print Assumptions E2E_wavelet_matrix_new_empty.

Theorem E2E_wavelet_matrix_access :
  forall c0 k seq s wm,
  wm_in s -> cv_inv seq s -> wavelet_matrix_new c0 k seq = Ok (Some wm) ->
  forall c i, i < W -> wavelet_matrix_access c wm i = Ok (SeqSpec.nth_opt s i).
Proof. exact e2e_wavelet_matrix_access. Qed.
Print Assumptions E2E_wavelet_matrix_access.

Theorem E2E_wavelet_matrix_rank :
  forall c0 k seq s wm,
  wm_in s -> cv_inv seq s -> wavelet_matrix_new c0 k seq = Ok (Some wm) ->
  forall c i v, i < W -> v < W -> wavelet_matrix_rank c wm i v = Ok (SeqSpec.wm_rank_range s 0 i v).
Proof. exact e2e_wavelet_matrix_rank. Qed.
Print Assumptions E2E_wavelet_matrix_rank.

Theorem E2E_wavelet_matrix_rank_range :
  forall c0 k seq s wm,
  wm_in s -> cv_inv seq s -> wavelet_matrix_new c0 k seq = Ok (Some wm) ->
  forall c a b v, a < W -> b < W -> v < W ->
  wavelet_matrix_rank_range c wm (a, b) v = Ok (SeqSpec.wm_rank_range s a b v).
Proof. exact e2e_wavelet_matrix_rank_range. Qed.
Print Assumptions E2E_wavelet_matrix_rank_range.

Theorem E2E_wavelet_matrix_select :
  forall c0 k seq s wm,
  wm_in s -> cv_inv seq s -> wavelet_matrix_new c0 k seq = Ok (Some wm) ->
  forall c j v, j < W -> v < W -> wavelet_matrix_select c wm j v = Ok (SeqSpec.wm_select s j v).
Proof. exact e2e_wavelet_matrix_select. Qed.
Print Assumptions E2E_wavelet_matrix_select.

Theorem E2E_wavelet_matrix_quantile :
  forall c0 k seq s wm,
  wm_in s -> cv_inv seq s -> wavelet_matrix_new c0 k seq = Ok (Some wm) ->
  forall c a b j, a < W -> b < W -> j < W ->
  wavelet_matrix_quantile c wm (a, b) j = Ok (SeqSpec.wm_quantile s a b j).
Proof. exact e2e_wavelet_matrix_quantile. Qed.
Print Assumptions E2E_wavelet_matrix_quantile.

Theorem E2E_wavelet_matrix_intersect :
  forall c0 k seq s wm,
  wm_in s -> cv_inv seq s -> wavelet_matrix_new c0 k seq = Ok (Some wm) ->
  forall c rs j, wavelet_matrix_intersect c wm rs j = Ok (SeqSpec.wm_intersect s rs j).
Proof. exact e2e_wavelet_matrix_intersect. Qed.
Print Assumptions E2E_wavelet_matrix_intersect.

Theorem E2E_wavelet_matrix_iter_next :
  forall c0 k seq s wm,
  wm_in s -> cv_inv seq s -> wavelet_matrix_new c0 k seq = Ok (Some wm) ->
  forall c pos, pos < W ->
  wavelet_matrix_iter_next c {| wi_wm := wm; wi_pos := pos |}
  = Ok (if pos <? lenN s then ({| wi_wm := wm; wi_pos := pos + 1 |}, SeqSpec.nth_opt s pos)
        else ({| wi_wm := wm; wi_pos := pos |}, None)).
Proof. exact e2e_wavelet_matrix_iter_next. Qed.
Print Assumptions E2E_wavelet_matrix_iter_next.

Theorem E2E_wavelet_matrix :
  forall k s, wm_in s ->
  exists seq wm,
    (forall c, compact_vector_from_slice c s = Ok (Some seq)) /\
    (forall c, wavelet_matrix_new c k seq = Ok (Some wm)) /\
    (forall c, wavelet_matrix_len c wm = Ok (lenN s)) /\
    (forall c, wavelet_matrix_alph_size c wm = Ok (max_list s + 1)) /\
    (forall c i, i < W -> wavelet_matrix_access c wm i = Ok (SeqSpec.nth_opt s i)) /\
    (forall c i v, i < W -> v < W -> wavelet_matrix_rank c wm i v = Ok (SeqSpec.wm_rank_range s 0 i v)) /\
    (forall c a b v, a < W -> b < W -> v < W ->
       wavelet_matrix_rank_range c wm (a, b) v = Ok (SeqSpec.wm_rank_range s a b v)) /\
    (forall c j v, j < W -> v < W -> wavelet_matrix_select c wm j v = Ok (SeqSpec.wm_select s j v)) /\
    (forall c a b j, a < W -> b < W -> j < W ->
       wavelet_matrix_quantile c wm (a, b) j = Ok (SeqSpec.wm_quantile s a b j)) /\
    (forall c rs j, wavelet_matrix_intersect c wm rs j = Ok (SeqSpec.wm_intersect s rs j)).
Proof. exact e2e_wavelet_matrix. Qed.
Print Assumptions E2E_wavelet_matrix.


(* ---------------------------------------------------------------------------------------------
   10. broadword
   --------------------------------------------------------------------------------------------- *)

Theorem E2E_broadword_popcount :
  forall c x, x < W -> BroadwordGen.popcount c x = Ok (popcN x).
Proof. exact e2e_broadword_popcount. Qed.
Print Assumptions E2E_broadword_popcount.

Theorem E2E_broadword_lsb :
  forall c x, x < W -> BroadwordGen.lsb c x = Ok (lsb_spec x).
Proof. exact e2e_broadword_lsb. Qed.
Print Assumptions E2E_broadword_lsb.

Theorem E2E_broadword_msb :
  forall c x, x < W -> BroadwordGen.msb c x = Ok (msb_spec x).
Proof. exact e2e_broadword_msb. Qed.
Print Assumptions E2E_broadword_msb.

Theorem E2E_broadword_select_in_word :
  forall c x k, x < W -> k < W ->
  BroadwordGen.select_in_word c x k = Ok (select_in_word_spec x k).
Proof. exact e2e_broadword_select_in_word. Qed.
Print Assumptions E2E_broadword_select_in_word.

(* ---------------------------------------------------------------------------------------------
   the auxiliary definitions of Proofs/EndToEnd.v used in the statements above, unfolded
   --------------------------------------------------------------------------------------------- *)
Theorem E2E_rank9sel_gen_correct_unfold : forall c x b, rank9sel_gen_correct c x b <->
  (rank9sel_num_bits c x = Ok (lenN b) /\
   rank9sel_num_ones c x = Ok (BitSpec.count true b) /\
   (forall i, i < W -> rank9sel_access c x i = Ok (BitSpec.access b i) /\
                       rank9sel_rank1 c x i = Ok (BitSpec.rank true b i) /\
                       rank9sel_rank0 c x i = Ok (BitSpec.rank false b i)) /\
   (forall k, k < W -> rank9sel_select1 c x k = Ok (BitSpec.select true b k) /\
                       rank9sel_select0 c x k = Ok (BitSpec.select false b k))).
Proof. exact (fun c x b => iff_refl _). Qed.
Print Assumptions E2E_rank9sel_gen_correct_unfold.

Theorem E2E_darray_gen_correct_unfold : forall c d b, darray_gen_correct c d b <->
  (darray_num_bits c d = Ok (lenN b) /\
   darray_num_ones c d = Ok (BitSpec.count true b) /\
   (forall i, i < W -> darray_access c d i = Ok (BitSpec.access b i)) /\
   (forall k, k < W -> darray_select1 c d k = Ok (BitSpec.select true b k)) /\
   (da_s0 d <> None -> forall k, k < W -> darray_select0 c d k = Ok (BitSpec.select false b k)) /\
   (da_r9 d <> None -> forall i, i < W -> darray_rank1 c d i = Ok (BitSpec.rank true b i) /\
                                         darray_rank0 c d i = Ok (BitSpec.rank false b i))).
Proof. exact (fun c d b => iff_refl _). Qed.
Print Assumptions E2E_darray_gen_correct_unfold.

(* the one structural fact beyond ef_rep / sa_rep that the generated rank code needs (the select0 overflow table
   holds usize values); every value returned by the generated enable_rank / from_bits has it (theorems above) *)
Theorem E2E_ef_s0_range_unfold : forall e, ef_s0_range e <->
  (forall s0, da_s0 (ef_high e) = Some s0 -> forall x, In x (d_overflow s0) -> x < W).
Proof. exact (fun e => iff_refl _). Qed.
Print Assumptions E2E_ef_s0_range_unfold.
Theorem E2E_sa_s0_range_unfold : forall s, sa_s0_range s <-> (forall e, sa_ef s = Some e -> ef_s0_range e).
Proof. exact (fun s => iff_refl _). Qed.
Print Assumptions E2E_sa_s0_range_unfold.

Theorem E2E_wm_in_unfold : forall s, wm_in s <-> (s <> [] /\ max_list s + 1 < W /\ lenN s < 2 ^ 50).
Proof. exact (fun s => iff_refl _). Qed.
Print Assumptions E2E_wm_in_unfold.

(* runs of generated mutators / iterator steps *)
Theorem E2E_gen_bv_run_unfold : forall c bv o r,
  gen_bv_run c bv [] = Ok (bv, []) /\
  gen_bv_run c bv (o :: r) =
    (x <- (match o with
           | OFromBit b len => r <- bit_vector_from_bit c b len ;; Ok (r, true)
           | OFromBits l => r <- bit_vector_from_bits c l ;; Ok (r, true)
           | OPushBit b => r <- bit_vector_push_bit c bv b ;; Ok (r, true)
           | OPushBits bits len => bit_vector_push_bits c bv bits len
           | OSetBit pos b => bit_vector_set_bit c bv pos b
           | OSetBits pos bits len => bit_vector_set_bits c bv pos bits len
           | OExtend l => r <- bit_vector_extend c bv l ;; Ok (r, true)
           end) ;;
     y <- gen_bv_run c (fst x) r ;; Ok (fst y, snd x :: snd y)).
Proof. intros. split; reflexivity. Qed.
Print Assumptions E2E_gen_bv_run_unfold.

Theorem E2E_gen_cv_run_unfold : forall c ov o r,
  gen_cv_run c ov [] = Ok (ov, []) /\
  gen_cv_run c ov (o :: r) =
    (x <- (match o with
           | CNew w => r <- compact_vector_new c w ;; Ok (ctor_result ov r)
           | CWithCapacity capa w => r <- compact_vector_with_capacity c capa w ;; Ok (ctor_result ov r)
           | CFromInt val len w => r <- compact_vector_from_int c val len w ;; Ok (ctor_result ov r)
           | CFromSlice l => r <- compact_vector_from_slice c l ;; Ok (ctor_result ov r)
           | CPush x => match ov with None => Ok (None, false)
                        | Some v => r <- compact_vector_push_int c v x ;; Ok (Some (fst r), snd r) end
           | CSet pos x => match ov with None => Ok (None, false)
                           | Some v => r <- compact_vector_set_int c v pos x ;; Ok (Some (fst r), snd r) end
           | CExtend l => match ov with None => Ok (None, false)
                          | Some v => r <- compact_vector_extend c v l ;; Ok (Some (fst r), snd r) end
           end) ;;
     y <- gen_cv_run c (fst x) r ;; Ok (fst y, snd x :: snd y)).
Proof. intros. split; reflexivity. Qed.
Print Assumptions E2E_gen_cv_run_unfold.

Theorem E2E_gen_ef_run_unfold : forall c b o r,
  gen_ef_run c b [] = Ok (b, []) /\
  gen_ef_run c b (o :: r) =
    (s <- (match o with EPush v => elias_fano_builder_push c b v
                      | EExtend vs => elias_fano_builder_extend c b vs end) ;;
     t <- gen_ef_run c (fst s) r ;; Ok (fst t, snd s :: snd t)).
Proof. intros. split; reflexivity. Qed.
Print Assumptions E2E_gen_ef_run_unfold.

Theorem E2E_gen_efi_run_unfold : forall c n it,
  gen_efi_run c O it = Ok (it, []) /\
  gen_efi_run c (S n) it =
    (r <- elias_fano_iter_next c it ;; t <- gen_efi_run c n (fst r) ;; Ok (fst t, snd r :: snd t)).
Proof. intros. split; reflexivity. Qed.
Print Assumptions E2E_gen_efi_run_unfold.

(* ---------------------------------------------------------------------------------------------
   non-vacuity: the regenerated functions run on concrete inputs, in a dev and a release configuration, and return
   what the specifications compute
   --------------------------------------------------------------------------------------------- *)
Definition e2e_bits : list bool := map (fun i => (i mod 3 =? 0) || (i mod 7 =? 2)) (nseq 700).
Definition e2e_seq : list N := [98; 97; 110; 97; 110; 97; 0; 255; 3].
Definition e2e_sorted : list N := [3; 3; 40; 41; 99].

Example E2E_runs :
  forall c, In c [{| dbg := true; intr := false |}; {| dbg := false; intr := true |}] ->
  (* BitVector *)
  (bv <- bit_vector_from_bits c e2e_bits ;;
   a <- bit_vector_rank1 c bv 650 ;; b <- bit_vector_select0 c bv 300 ;; d <- bit_vector_get_bits c bv 61 9 ;;
   Ok (a, b, d))
  = Ok (BitSpec.rank true e2e_bits 650, BitSpec.select false e2e_bits 300, BitSpec.get_bits e2e_bits 61 9) /\
  (* Rank9Sel with both hint tables, DArray with all indexes *)
  (x <- rank9sel_build_from_bits c e2e_bits true true true ;; x <- unwrap x ;;
   a <- rank9sel_rank0 c x 513 ;; b <- rank9sel_select1 c x 250 ;; d <- rank9sel_select0 c x 18446744073709551615 ;;
   Ok (a, b, d))
  = Ok (BitSpec.rank false e2e_bits 513, BitSpec.select true e2e_bits 250, None) /\
  (x <- darray_build_from_bits c e2e_bits true true true ;; x <- unwrap x ;;
   a <- darray_select1 c x 299 ;; b <- darray_select0 c x 17 ;; d <- darray_rank1 c x 700 ;; Ok (a, b, d))
  = Ok (BitSpec.select true e2e_bits 299, BitSpec.select false e2e_bits 17, BitSpec.rank true e2e_bits 700) /\
  (* SArray *)
  (s <- sarray_from_bits c e2e_bits ;; s <- sarray_enable_rank c s ;;
   a <- sarray_access c s 9 ;; b <- sarray_rank1 c s 77 ;; d <- sarray_predecessor1 c s 698 ;; Ok (a, b, d))
  = Ok (BitSpec.access e2e_bits 9, BitSpec.rank true e2e_bits 77, BitSpec.pred true e2e_bits 698) /\
  (* EliasFano: builder, enable_rank, queries *)
  (b <- elias_fano_builder_new c 100 5 ;; b <- unwrap b ;;
   r <- elias_fano_builder_extend c b e2e_sorted ;; e <- elias_fano_builder_build c (fst r) ;;
   e <- elias_fano_enable_rank c e ;;
   a <- elias_fano_select c e 2 ;; d <- elias_fano_rank c e 41 ;; f <- elias_fano_successor c e 42 ;;
   Ok (snd r, a, d, f))
  = Ok (true, SeqSpec.ef_select e2e_sorted 2, SeqSpec.ef_rank e2e_sorted 100 41, SeqSpec.ef_succ e2e_sorted 100 42) /\
  (* CompactVector, WaveletMatrix over Rank9Sel *)
  (v <- compact_vector_from_slice c e2e_seq ;; v <- unwrap v ;;
   a <- compact_vector_get_int c v 7 ;;
   w <- wavelet_matrix_new c KRank9 v ;; w <- unwrap w ;;
   b <- wavelet_matrix_access c w 2 ;; d <- wavelet_matrix_rank c w 6 97 ;; f <- wavelet_matrix_select c w 1 110 ;;
   g <- wavelet_matrix_quantile c w (1, 8) 3 ;; Ok (a, b, d, f, g))
  = Ok (SeqSpec.nth_opt e2e_seq 7, SeqSpec.nth_opt e2e_seq 2, SeqSpec.wm_rank_range e2e_seq 0 6 97,
        SeqSpec.wm_select e2e_seq 1 110, SeqSpec.wm_quantile e2e_seq 1 8 3) /\
  (* DACs, PrefixSummedEliasFano *)
  (d <- dacs_opt_from_slice c [5; 0; 100000; 334] (Some 2) ;; d <- unwrap d ;;
   a <- dacs_opt_access c d 2 ;; w <- dacs_opt_widths c d ;;
   b <- dacs_byte_from_slice c [5; 0; 100000; 334] ;; b <- unwrap b ;; e <- dacs_byte_access c b 3 ;;
   p <- psef_from_slice c [5; 0; 100000; 334] ;; p <- unwrap p ;; f <- psef_access c p 2 ;; g <- psef_sum c p ;;
   Ok (a, DacSpec.admissible [5; 0; 100000; 334] w 2, e, f, g))
  = Ok (Some 100000, true, Some 334, Some 100000, 100339) /\
  (* broadword *)
  BroadwordGen.select_in_word c 0xF0F0 5 = Ok (select_in_word_spec 0xF0F0 5).
Proof. intros c [<-|[<-|[]]]; vm_compute; repeat split. Qed.
