(* Props/C15.v — property C15: results do not depend on the build configuration.
   For every modelled public function, on every input within its contract, the result is the
   same in any two build configurations (dev profile with overflow checks and debug assertions /
   release profile; cargo feature `intrinsics` on / off) and is never a panic.  One theorem per
   structure family, each a conjunction over that family's API.  Pinned statements only; the
   proofs are in Proofs/C15Rollup.v and Proofs/Integration2.v (on top of the access theorems of
   C01, C02, C03, C04, C05, C06, C07, C09, C10, C11, C12, C14, C16, C17, C18 and of
   Proofs/Integration.v).

   `cfg_independent f` (Proofs/C15Rollup.v, unfolded by C15_unfold below) reads
       forall c1 c2, f c1 = f c2 /\ f c1 <> Panic
   and is equivalent to `exists v, forall c, f c = Ok v` (C15_value).

   Serialization (C15_serial, a remark): `ser`, `deser`, `size` of Spec/FormatSpec.v take no
   configuration argument at all, the bytes are a pure function of the value.  A
   configuration-independent builder therefore yields the same bytes in every configuration
   (C15_bytes); this is restated next to each builder below. *)
From Sucds Require Import Base.Res Spec.WordSpec Spec.BitSpec Spec.SeqSpec Spec.DacSpec Spec.FormatSpec
  Model.BitVector Model.Rank9 Model.DArray Model.EliasFano Model.CompactVector Model.Dacs
  Model.SArray Model.Psef Model.Wavelet Model.Unary Model.Serial gen.BroadwordGen gen.SerialGen
  Proofs.BVAbs Proofs.BVHistory Proofs.IndexSpecs Proofs.EFRep Proofs.EFIter Proofs.EFBuilder
  Proofs.CVRep Proofs.CVHistory Proofs.UnaryIter Proofs.UnarySkip Proofs.SALemmas Proofs.SAMain
  Proofs.PSMain Proofs.C15Rollup Proofs.Integration2.
Open Scope N_scope.

(* ---------- the notion ---------- *)

Theorem C15_unfold : forall (A : Type) (f : cfg -> res A),
  cfg_independent f <-> (forall c1 c2, f c1 = f c2 /\ f c1 <> Panic).
Proof. exact (fun A f => iff_refl _). Qed.
Print Assumptions C15_unfold.

Theorem C15_value : forall (A : Type) (f : cfg -> res A),
  cfg_independent f <-> exists v, forall c, f c = Ok v.
Proof. exact (@cfg_independent_value). Qed.
Print Assumptions C15_value.

(* the generic step: a theorem `forall c, f c = Ok v` whose right-hand side does not mention c *)
Theorem C15_generic : forall (A : Type) (f : cfg -> res A) (v : A),
  (forall c, f c = Ok v) -> forall c1 c2, f c1 = f c2 /\ f c1 <> Panic.
Proof. exact (@cfg_indep). Qed.
Print Assumptions C15_generic.

(* a configuration-independent builder gives one value, hence one byte string *)
Theorem C15_bytes : forall (A : Type) (f : cfg -> res A) (enc : A -> val), cfg_independent f ->
  forall c1 c2 x1 x2, f c1 = Ok x1 -> f c2 = Ok x2 ->
  forall t, ser t (enc x1) = ser t (enc x2) /\ size t (enc x1) = size t (enc x2).
Proof. exact (@cfg_independent_bytes). Qed.
Print Assumptions C15_bytes.

(* ---------- broadword ---------- *)

Theorem C15_broadword : forall x k, x < W -> k < W ->
  cfg_independent (fun c => popcount c x) /\
  cfg_independent (fun c => lsb c x) /\
  cfg_independent (fun c => msb c x) /\
  cfg_independent (fun c => select_in_word c x k).
Proof. exact C15_broadword_proof. Qed.
Print Assumptions C15_broadword.

(* ---------- BitVector: every mutation history, every read ---------- *)

Theorem C15_bitvector :
  (forall ops, ops_ok [] ops -> cfg_independent (fun c => run_model c bv_empty ops)) /\
  (forall bv, wf bv -> cap_ok bv ->
   forall pos len k inv, pos < W -> len < W -> k < W ->
   cfg_independent (fun c => BitVector.get_bit c bv pos) /\
   cfg_independent (fun c => BitVector.get_bits c bv pos len) /\
   cfg_independent (fun c => BitVector.get_word64 c bv pos) /\
   cfg_independent (fun c => BitVector.num_ones c bv) /\
   cfg_independent (fun c => BitVector.rank1 c bv pos) /\
   cfg_independent (fun c => BitVector.rank0 c bv pos) /\
   cfg_independent (fun c => BitVector.select1 c bv k) /\
   cfg_independent (fun c => BitVector.select0 c bv k) /\
   cfg_independent (fun c => BitVector.predecessor c inv bv pos) /\
   cfg_independent (fun c => BitVector.successor c inv bv pos) /\
   cfg_independent (fun c => BitVector.iter_next c bv pos)).
Proof. exact (conj C15_bitvector_history_proof C15_bitvector_reads_proof). Qed.
Print Assumptions C15_bitvector.

(* ---------- Rank9Sel: build (any hint flags), bytes, the 5 queries and the counts ---------- *)

Theorem C15_rank9sel :
  (forall bv h1 h0, wf bv -> cap_ok bv ->
   cfg_independent (fun c => r9_build c bv h1 h0) /\
   (forall c1 c2 x1 x2, r9_build c1 bv h1 h0 = Ok x1 -> r9_build c2 bv h1 h0 = Ok x2 ->
      forall t, ser t (v_r9sel x1) = ser t (v_r9sel x2) /\ size t (v_r9sel x1) = size t (v_r9sel x2)) /\
   (forall c0 x, r9_build c0 bv h1 h0 = Ok x -> forall i k, i < W -> k < W ->
      cfg_independent (fun c => r9_num_ones c x) /\
      cfg_independent (fun c => r9_num_zeros c x) /\
      cfg_independent (fun c => r9_access c x i) /\
      cfg_independent (fun c => r9_rank1 c x i) /\
      cfg_independent (fun c => r9_rank0 c x i) /\
      cfg_independent (fun c => r9_select1 c x k) /\
      cfg_independent (fun c => r9_select0 c x k))) /\
  (forall l h1 h0, lenN l < 2 ^ 56 ->
   cfg_independent (fun c => bv <- from_bits c l ;; r9_build c bv h1 h0)).
Proof. exact (conj C15_rank9sel_proof C15_rank9sel_from_bits_proof). Qed.
Print Assumptions C15_rank9sel.

(* ---------- DArray: the select index, the wrapper with its optional indexes ---------- *)

Theorem C15_darray :
  (forall bv wr ws0 v, wf bv -> cap_ok bv ->
   cfg_independent (fun c => da_build c bv v) /\
   (forall c0 ix, da_build c0 bv v = Ok ix -> forall k, k < W ->
      cfg_independent (fun c => da_select c ix bv k)) /\
   cfg_independent (fun c => da_new c bv) /\
   cfg_independent (fun c => da_build_cfg c bv wr ws0) /\
   (forall c1 c2 d1 d2, da_build_cfg c1 bv wr ws0 = Ok d1 -> da_build_cfg c2 bv wr ws0 = Ok d2 ->
      forall t, ser t (v_darray d1) = ser t (v_darray d2) /\ size t (v_darray d1) = size t (v_darray d2)) /\
   (forall c0 d, da_build_cfg c0 bv wr ws0 = Ok d -> forall i k, i < W -> k < W ->
      cfg_independent (fun c => da_num_zeros c d) /\
      cfg_independent (fun c => da_access c d i) /\
      cfg_independent (fun c => da_select1 c d k) /\
      (ws0 = true -> cfg_independent (fun c => da_select0 c d k)) /\
      (wr = true -> cfg_independent (fun c => da_rank1 c d i) /\
                    cfg_independent (fun c => da_rank0 c d i)))) /\
  (forall bits, lenN bits < 2 ^ 56 -> cfg_independent (fun c => da_from_bits c bits)) /\
  (forall d, (forall c, da_correct c d) -> cap_ok (da_bv d) ->
   cfg_independent (fun c => da_enable_rank c d) /\
   cfg_independent (fun c => da_enable_select0 c d) /\
   (forall i k, i < W -> k < W ->
      cfg_independent (fun c => da_num_zeros c d) /\
      cfg_independent (fun c => da_access c d i) /\
      cfg_independent (fun c => da_select1 c d k) /\
      (da_s0 d <> None -> cfg_independent (fun c => da_select0 c d k)) /\
      (da_r9 d <> None -> cfg_independent (fun c => da_rank1 c d i) /\
                          cfg_independent (fun c => da_rank0 c d i)))).
Proof. exact (conj C15_darray_proof (conj C15_darray_from_bits_proof C15_darray_enable_proof)). Qed.
Print Assumptions C15_darray.

(* ---------- EliasFano: builder histories, build, enable_rank, queries, iterator, binsearch ----------
   binsearch: the theorems of C04 determine the result only up to the choice among duplicates, so
   the statement is: in every configuration the call returns (no panic) an answer accepted by
   SeqSpec.binsearch_ok.  The iterator: the outputs of n calls of next() are compared (the final
   iterator state is internal). *)

Theorem C15_eliasfano :
  (forall u m ops, u < W -> 1 <= m ->
   m + 2 + u / 2 ^ low_len_of u m < 2 ^ 56 -> m * low_len_of u m < 2 ^ 56 ->
   let acc := fst (spec_run u m [] ops) in
   cfg_independent (fun c => efb_new c u m) /\
   (forall c0 b0, efb_new c0 u m = Ok (Some b0) ->
      cfg_independent (fun c => model_run c b0 ops) /\
      (forall b fl, model_run c0 b0 ops = Ok (b, fl) ->
         cfg_independent (fun c => efb_build c b) /\
         (forall c1 c2 e1 e2, efb_build c1 b = Ok e1 -> efb_build c2 b = Ok e2 ->
            forall t, ser t (v_ef e1) = ser t (v_ef e2) /\ size t (v_ef e1) = size t (v_ef e2)) /\
         (forall e, efb_build c0 b = Ok e ->
            ef_rep e acc u /\
            cfg_independent (fun c => ef_enable_rank c e) /\
            (forall e', ef_enable_rank c0 e = Ok e' ->
               ef_rep e' acc u /\ da_s0 (ef_high e') <> None))))) /\
  (forall e xs u, ef_rep e xs u ->
   forall k p val rs re n,
   cfg_independent (fun c => ef_select c e k) /\
   cfg_independent (fun c => EliasFano.ef_delta c e k) /\
   (da_s0 (ef_high e) <> None ->
      cfg_independent (fun c => EliasFano.ef_rank c e p) /\
      cfg_independent (fun c => ef_predecessor c e p) /\
      cfg_independent (fun c => ef_successor c e p)) /\
   cfg_independent (fun c => rmap snd (it <- efi_new c e k ;; efi_run c e n it)) /\
   (forall c, rmap (binsearch_ok xs rs re val) (ef_binsearch_range c e rs re val) = Ok true) /\
   (forall c, rmap (binsearch_ok xs 0 (lenN xs) val) (ef_binsearch c e val) = Ok true)).
Proof. exact (conj C15_eliasfano_build_proof C15_eliasfano_queries_proof). Qed.
Print Assumptions C15_eliasfano.

(* ---------- CompactVector: every history of constructors / mutators, every read ---------- *)

Theorem C15_compactvector :
  (forall ops, cvops_ok None ops -> cfg_independent (fun c => run_cv_model c None ops)) /\
  (forall v xs, cv_rep v xs -> lenN xs * cv_width v < 2 ^ 56 ->
   forall pos, pos < W ->
   cfg_independent (fun c => cv_get_int c v pos) /\
   cfg_independent (fun c => cv_access c v pos) /\
   cfg_independent (fun c => cv_iter_next c v pos) /\
   cfg_independent (fun c => cv_to_list c v)).
Proof. exact (conj C15_compactvector_history_proof C15_compactvector_reads_proof). Qed.
Print Assumptions C15_compactvector.

(* ---------- WaveletMatrix over any of the three backings: new, bytes, the 6 queries ---------- *)

Theorem C15_wavelet : forall k s,
  s <> [] /\ max_list s + 1 < W /\ lenN s < 2 ^ 50 ->
  cfg_independent (fun c => wm_new c k s) /\
  (forall c1 c2 w1 w2, wm_new c1 k s = Ok (Some w1) -> wm_new c2 k s = Ok (Some w2) ->
     forall t, ser t (v_wavelet w1) = ser t (v_wavelet w2) /\
               size t (v_wavelet w1) = size t (v_wavelet w2)) /\
  (forall c0 wm, wm_new c0 k s = Ok (Some wm) ->
     forall i a b v j rs, i < W -> a < W -> b < W -> v < W -> j < W ->
     cfg_independent (fun c => wm_access c wm i) /\
     cfg_independent (fun c => wm_rank c wm i v) /\
     cfg_independent (fun c => wm_rank_range c wm a b v) /\
     cfg_independent (fun c => wm_select c wm j v) /\
     cfg_independent (fun c => wm_quantile c wm a b j) /\
     cfg_independent (fun c => wm_intersect c wm rs j)).
Proof. exact C15_wavelet_proof. Qed.
Print Assumptions C15_wavelet.

(* ---------- DacsOpt::compute_opt_widths ----------
   C18 gives an optimal split per configuration, and optimal splits are not unique; equality of
   the two results comes from `compute_opt_widths_value` (Proofs/C15Rollup.v): the result is the
   pure table walk `opt_widths_value vals ml` in every configuration. *)

Theorem C15_dacsopt_widths : forall vals ml,
  vals <> [] -> 1 <= ml -> ml <= 64 -> Forall (fun x => x < W) vals -> lenN vals < 2 ^ 56 ->
  cfg_independent (fun c => compute_opt_widths c vals ml).
Proof. exact C15_dacsopt_widths_proof. Qed.
Print Assumptions C15_dacsopt_widths.

Theorem C15_dacsopt_widths_value : forall c vals ml,
  vals <> [] -> 1 <= ml -> ml <= 64 -> Forall (fun x => x < W) vals -> lenN vals < 2 ^ 56 ->
  compute_opt_widths c vals ml = Ok (opt_widths_value vals ml).
Proof. exact compute_opt_widths_value. Qed.
Print Assumptions C15_dacsopt_widths_value.

(* ---------- DacsByte: from_slice, bytes, len / access / iterator ---------- *)

Theorem C15_dacsbyte : forall vals, Forall (fun x => x < W) vals -> lenN vals < 2 ^ 50 ->
  cfg_independent (fun c => db_from_slice c vals) /\
  (forall c1 c2 d1 d2, db_from_slice c1 vals = Ok d1 -> db_from_slice c2 vals = Ok d2 ->
     forall t, ser t (v_dacsbyte d1) = ser t (v_dacsbyte d2) /\
               size t (v_dacsbyte d1) = size t (v_dacsbyte d2)) /\
  (forall c0 d, db_from_slice c0 vals = Ok d -> forall i pos, i < W -> pos < W ->
     cfg_independent (fun c => db_len c d) /\
     cfg_independent (fun c => db_access c d i) /\
     cfg_independent (fun c => db_iter_next c d pos) /\
     (pos <= lenN vals -> cfg_independent (fun c => iter_size_hint c (lenN vals) pos))).
Proof. exact C15_dacsbyte_proof. Qed.
Print Assumptions C15_dacsbyte.

(* ---------- DacsOpt: from_slice with any max_levels (accepted: Some d, or rejected: None, the
   same in every configuration), bytes, len / access / iterator, the widths ---------- *)

Theorem C15_dacsopt : forall vals mlo, Forall (fun x => x < W) vals -> lenN vals < 2 ^ 50 ->
  let ml := match mlo with Some m => m | None => 64 end in
  cfg_independent (fun c => do_from_slice c vals mlo) /\
  (forall c1 c2 d1 d2, do_from_slice c1 vals mlo = Ok (Some d1) ->
     do_from_slice c2 vals mlo = Ok (Some d2) ->
     forall t, ser t (v_dacsopt d1) = ser t (v_dacsopt d2) /\
               size t (v_dacsopt d1) = size t (v_dacsopt d2)) /\
  (forall c0 d, do_from_slice c0 vals mlo = Ok (Some d) -> forall i pos, i < W -> pos < W ->
     cfg_independent (fun c => do_len c d) /\
     cfg_independent (fun c => do_access c d i) /\
     cfg_independent (fun c => do_iter_next c d pos) /\
     (pos <= lenN vals -> cfg_independent (fun c => iter_size_hint c (lenN vals) pos)) /\
     (vals <> [] -> cfg_independent (fun c => compute_opt_widths c vals ml))).
Proof. exact C15_dacsopt_proof. Qed.
Print Assumptions C15_dacsopt.

(* ---------- SArray: from_bits, from_bits [+ enable_rank], bytes, the queries; and the queries
   and enable_rank on any value satisfying the representation invariant `sa_rep`
   (Proofs/SAMain.v).  `sa_cap bv` is the capacity of the Elias-Fano layer (Props/C03.v) ---------- *)

Theorem C15_sarray :
  (forall bv (with_rank : bool), wf bv -> cap_ok bv -> sa_cap bv ->
   let build c := s0 <- sa_from_bv c bv ;; if with_rank then sa_enable_rank c s0 else Ok s0 in
   cfg_independent (fun c => sa_from_bv c bv) /\
   cfg_independent build /\
   (forall c1 c2 s1 s2, build c1 = Ok s1 -> build c2 = Ok s2 ->
      forall t, ser t (v_sarray s1) = ser t (v_sarray s2) /\
                size t (v_sarray s1) = size t (v_sarray s2)) /\
   (forall c0 s, build c0 = Ok s -> forall i k p,
      cfg_independent (fun c => sa_access c s i) /\
      cfg_independent (fun c => sa_select1 c s k) /\
      cfg_independent (fun c => sa_enable_rank c s) /\
      (with_rank = true ->
         cfg_independent (fun c => sa_rank1 c s p) /\
         cfg_independent (fun c => sa_rank0 c s p) /\
         cfg_independent (fun c => sa_predecessor1 c s p) /\
         cfg_independent (fun c => sa_successor1 c s p)))) /\
  (forall s b, sa_rep s b -> forall i k p,
   cfg_independent (fun c => sa_access c s i) /\
   cfg_independent (fun c => sa_select1 c s k) /\
   cfg_independent (fun c => sa_enable_rank c s) /\
   (sa_has_rank s = true ->
      cfg_independent (fun c => sa_rank1 c s p) /\
      cfg_independent (fun c => sa_rank0 c s p) /\
      cfg_independent (fun c => sa_predecessor1 c s p) /\
      cfg_independent (fun c => sa_successor1 c s p))).
Proof. exact (conj C15_sarray_proof C15_sarray_queries_proof). Qed.
Print Assumptions C15_sarray.

(* ---------- PrefixSummedEliasFano: from_slice (the empty slice is rejected in every
   configuration), bytes, sum / access / iterator; and the queries on any value satisfying the
   representation invariant `ps_rep` (Proofs/PSMain.v).  `ef_cap u m` is the capacity of the
   Elias-Fano layer (Proofs/SALemmas.v, unfolded in Props/C12.v) ---------- *)

Theorem C15_psef :
  (forall vals,
   cfg_independent (fun c => ps_from_slice c []) /\
   (vals <> [] -> sum_list vals + 1 < W -> ef_cap (sum_list vals + 1) (lenN vals) ->
    cfg_independent (fun c => ps_from_slice c vals) /\
    (forall c1 c2 p1 p2, ps_from_slice c1 vals = Ok (Some p1) -> ps_from_slice c2 vals = Ok (Some p2) ->
       forall t, ser t (v_psef p1) = ser t (v_psef p2) /\ size t (v_psef p1) = size t (v_psef p2)) /\
    (forall c0 p, ps_from_slice c0 vals = Ok (Some p) -> forall i pos, pos < W ->
       cfg_independent (fun c => ps_sum c p) /\
       cfg_independent (fun c => ps_access c p i) /\
       cfg_independent (fun c => ps_iter_next c p pos) /\
       (pos <= lenN vals -> cfg_independent (fun c => iter_size_hint c (lenN vals) pos))))) /\
  (forall p vals, ps_rep p vals -> forall i pos,
   cfg_independent (fun c => ps_sum c p) /\
   cfg_independent (fun c => ps_access c p i) /\
   (pos < W -> lenN vals < 2 ^ 56 -> cfg_independent (fun c => ps_iter_next c p pos)) /\
   (pos <= lenN vals -> cfg_independent (fun c => iter_size_hint c (lenN vals) pos))).
Proof. exact (conj C15_psef_proof C15_psef_queries_proof). Qed.
Print Assumptions C15_psef.

(* ---------- the unary iterator: skip1 / skip0 (single calls and sequences), next ---------- *)

Theorem C15_unary : forall bv, wf bv -> cap_ok bv ->
  forall p k ops n, p <= bv_len bv -> k < W -> Forall (fun o => sop_arg o < W) ops ->
  N.of_nat n < 2 ^ 50 ->
  cfg_independent (fun c => skip1 c bv (unary_new bv p) k) /\
  cfg_independent (fun c => skip0 c bv (unary_new bv p) k) /\
  cfg_independent (fun c => skip_run c bv (unary_new bv p) ops) /\
  cfg_independent (fun c => rmap snd (next_run c bv (unary_new bv p) n)).
Proof. exact C15_unary_proof. Qed.
Print Assumptions C15_unary.

(* ---------- the property is not vacuous and not trivial ----------
   The primitives do depend on the configuration outside their contract (an overflowing `add`
   panics under the dev profile and wraps under the release profile), so `cfg_independent` is a
   genuine statement about the contracts; within a contract, a concrete pipeline through several
   structures gives the same observable results and the same bytes under both profiles. *)
Definition c15_pipeline (c : cfg) :=
  let s := [98; 97; 110; 97; 110; 97] in
  bv <- from_bits c (map (fun i => (i mod 3 =? 0) || (i mod 7 =? 2)) (nseq 300)) ;;
  x <- r9_build c bv true true ;;
  d <- da_build_cfg c bv true true ;;
  r <- r9_rank1 c x 250 ;; s1 <- da_select1 c d 100 ;; s0 <- da_select0 c d 100 ;;
  ow <- wm_new c KDArray s ;; w <- unwrap ow ;;
  q <- wm_quantile c w 1 5 2 ;;
  ws <- compute_opt_widths c [1; 3; 200; 70000; 0; 5; 12; 255; 256; 1000000] 4 ;;
  Ok (r, s1, s0, q, ws, ser ty_Rank9Sel (v_r9sel x), ser ty_DArray (v_darray d),
      ser ty_WaveletMatrix_DArray (v_wavelet w)).
Example C15_example :
  ~ cfg_independent (fun c => add c (W - 1) 1) /\
  c15_pipeline {| dbg := true; intr := false |} = c15_pipeline {| dbg := false; intr := true |} /\
  match c15_pipeline {| dbg := true; intr := false |} with
  | Ok (r, s1, s0, q, ws, b1, b2, b3) =>
      r = Some 108 /\ s1 = Some 233 /\ s0 = Some 176 /\ q = Some 110 /\ ws = [4; 5; 8; 3] /\
      lenN b1 = 138 /\ lenN b2 = 212 /\ lenN b3 = 1120
  | Panic => False
  end.
Proof.
  split; [|split].
  - intro H. destruct (H {| dbg := true; intr := false |} {| dbg := false; intr := true |}) as [E _].
    vm_compute in E. discriminate E.
  - vm_compute. reflexivity.
  - vm_compute. repeat split.
Qed.

(* the four remaining families on concrete inputs: DacsByte, DacsOpt (3 levels, and a rejected
   max_levels), SArray with its rank index, PrefixSummedEliasFano; queries and bytes agree under
   both profiles *)
Definition c15_pipeline2 (c : cfg) :=
  let vals := [1; 3; 200; 70000; 0; 5; 12; 255; 256; 1000000] in
  db <- db_from_slice c vals ;; a1 <- db_access c db 3 ;;
  od <- do_from_slice c vals (Some 3) ;; d <- unwrap od ;; a2 <- do_access c d 9 ;;
  rej <- do_from_slice c vals (Some 65) ;;
  bv <- from_bits c (map (fun i => (i mod 3 =? 0) || (i mod 7 =? 2)) (nseq 300)) ;;
  s0 <- sa_from_bv c bv ;; s <- sa_enable_rank c s0 ;;
  r <- sa_rank1 c s 250 ;; s1 <- sa_select1 c s 100 ;; pr <- sa_predecessor1 c s 299 ;;
  op <- ps_from_slice c vals ;; p <- unwrap op ;; su <- ps_sum c p ;; a3 <- ps_access c p 3 ;;
  Ok (a1, a2, do_widths d, match rej with None => true | Some _ => false end, r, s1, pr, su, a3,
      ser ty_DacsByte (v_dacsbyte db), ser ty_DacsOpt (v_dacsopt d), ser ty_SArray (v_sarray s),
      ser ty_PrefixSummedEliasFano (v_psef p)).
Example C15_example2 :
  c15_pipeline2 {| dbg := true; intr := false |} = c15_pipeline2 {| dbg := false; intr := true |} /\
  match c15_pipeline2 {| dbg := true; intr := false |} with
  | Ok (a1, a2, ws, rej, r, s1, pr, su, a3, b1, b2, b3, b4) =>
      a1 = Some 70000 /\ a2 = Some 1000000 /\ ws = [4; 5; 11] /\ rej = true /\
      r = Some 108 /\ s1 = Some 233 /\ pr = Some 297 /\ su = 1070732 /\ a3 = Some 70000
  | Panic => False
  end.
Proof.
  split.
  - vm_compute. reflexivity.
  - vm_compute. repeat split.
Qed.
