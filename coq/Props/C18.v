(* Props/C18.v — C18 (and the "never panics / level limit" part of C10 for DacsOpt):
   the dynamic program of DacsOpt::compute_opt_widths returns, in every build configuration,
   an admissible split (1 <= #levels <= max_levels, positive widths summing to the bit length of
   the maximum) of minimum total size among ALL admissible splits. *)
From Sucds Require Import Base.Res Spec.DacSpec Model.CompactVector Model.Dacs
  Proofs.DP_Hist Proofs.DP_Opt Proofs.DP_Walk Proofs.C18Driver.
Open Scope N_scope.

Theorem C18_optimal : forall c vals ml,
  vals <> [] -> 1 <= ml -> ml <= 64 -> Forall (fun x => x < W) vals -> lenN vals < 2^56 ->
  exists ws, compute_opt_widths c vals ml = Ok ws /\
             DacSpec.admissible vals ws ml = true /\
             (forall ws', DacSpec.admissible vals ws' ml = true -> DacSpec.cost vals ws <= DacSpec.cost vals ws').
Proof. exact compute_opt_widths_optimal. Qed.

Print Assumptions C18_optimal.

(* The form the driver uses for inputs of any size (Extract/Dispatch.v, op 81): widths are optimal iff they are
   admissible and cost exactly what the model's widths cost. *)
Theorem C18_driver_form : forall c vals ml,
  vals <> [] -> 1 <= ml -> ml <= 64 -> Forall (fun x => x < W) vals -> lenN vals < 2^56 ->
  exists wm, compute_opt_widths c vals ml = Ok wm /\
    forall ws, (DacSpec.admissible vals ws ml = true /\
                forall ws', DacSpec.admissible vals ws' ml = true -> DacSpec.cost vals ws <= DacSpec.cost vals ws') <->
               (DacSpec.admissible vals ws ml = true /\ DacSpec.cost vals ws = DacSpec.cost vals wm).
Proof. exact optimal_iff_cost_of_model. Qed.

Print Assumptions C18_driver_form.


(* A concrete input satisfying the hypotheses, the widths produced (debug and release builds),
   and the agreement with the brute-force minimum of the spec. *)
Example C18_example :
  let vals := [1; 3; 200; 70000; 0; 5; 12; 255; 256; 1000000] in
  let dbgc := {| dbg := true; intr := false |} in
  let relc := {| dbg := false; intr := true |} in
  negb (lenN vals =? 0) = true /\ forallb (fun x => x <? W) vals = true /\ (lenN vals <? 2^56) = true /\
  compute_opt_widths dbgc vals 1 = Ok [20] /\
  compute_opt_widths dbgc vals 2 = Ok [9; 11] /\
  compute_opt_widths dbgc vals 3 = Ok [4; 5; 11] /\
  compute_opt_widths dbgc vals 4 = Ok [4; 5; 8; 3] /\
  compute_opt_widths dbgc vals 64 = Ok [4; 5; 8; 3] /\
  compute_opt_widths relc vals 64 = Ok [4; 5; 8; 3] /\
  DacSpec.admissible vals [4; 5; 8; 3] 4 = true /\
  DacSpec.cost vals [4; 5; 8; 3] = DacSpec.min_cost_brute vals 4.
Proof. vm_compute. repeat split. Qed.
