(* Props/C11.v — DacsByte is lossless: from_slice succeeds without panicking for every slice of
   usize values (fewer than 2^50 of them) and builds one configuration-independent value;
   len = n, access(i) = vals[i] for i < n and None for every other i in usize, the iterator yields
   the input in order (then None forever, with an exact size hint), and there are exactly
   ceil(bitlen(max)/8) levels of 8 bits (one level for the empty and the all-zero input).
   Pinned statements only; proofs are in Proofs/DacsLevels.v and Proofs/DacsByteMain.v. *)
From Sucds Require Import Base.Res Spec.SeqSpec Spec.DacSpec
  Model.BitVector Model.Rank9 Model.CompactVector Model.Dacs
  Proofs.BVAbs Proofs.IterGeneric Proofs.DacsLevels Proofs.DacsByteMain.
Open Scope N_scope.

Theorem C11_dacsbyte_lossless : forall vals,
  Forall (fun x => x < W) vals -> lenN vals < 2 ^ 50 ->
  exists d,
    (forall c, db_from_slice c vals = Ok d) /\
    (forall c, db_len c d = Ok (lenN vals)) /\
    db_num_levels d = DacSpec.byte_levels vals /\
    db_widths d = repeat 8 (N.to_nat (DacSpec.byte_levels vals)) /\
    (forall c i, i < W -> db_access c d i = Ok (SeqSpec.nth_opt vals i)) /\
    (forall c pos, pos < W ->
       db_iter_next c d pos
       = Ok (if pos <? lenN vals then (pos + 1, SeqSpec.nth_opt vals pos) else (pos, None))) /\
    (forall c, iter_ok (SeqSpec.nth_opt vals) (lenN vals) (db_iter_next c d) (iter_size_hint c (lenN vals))).
Proof. exact dacsbyte_lossless. Qed.
Print Assumptions C11_dacsbyte_lossless.

(* the value built is the pure level decomposition: level j holds byte j of every value whose
   bytes above j-1 are not all zero, flags[j] says which of them continue *)
Theorem C11_representation : forall c vals,
  Forall (fun x => x < W) vals -> lenN vals < 2 ^ 50 ->
  exists d, db_from_slice c vals = Ok d /\
    db_data d = lv_chunks (repeat 8 (N.to_nat (DacSpec.byte_levels vals))) vals /\
    Forall2 fl_rel (db_flags d) (lv_flags (repeat 8 (N.to_nat (DacSpec.byte_levels vals))) vals).
Proof. exact db_from_slice_rep. Qed.
Print Assumptions C11_representation.

(* the number of levels: one for the empty and the all-zero input, ceil(bitlen(max)/8) otherwise *)
Example C11_levels :
  DacSpec.byte_levels [] = 1 /\ DacSpec.byte_levels [0; 0] = 1 /\ DacSpec.byte_levels [255] = 1 /\
  DacSpec.byte_levels [256] = 2 /\ DacSpec.byte_levels [1; 300; 70000; 5] = 3 /\
  DacSpec.byte_levels [9223372036854775808; 0] = 8.
Proof. vm_compute. repeat split. Qed.

(* concrete inputs (hypotheses checked by db_check), both build profiles; the last one is the
   unit test of dacs_byte.rs with its expected level contents *)
Example C11_examples :
  let dbgc := {| dbg := true; intr := false |} in
  let relc := {| dbg := false; intr := true |} in
  let inputs := [[]; [0; 0]; [1; 300; 70000; 5]; [255]; [256]; [65535; 65536; 0; 16777216];
                 [9223372036854775808; 0; 5; 18446744073709551615; 256; 255]] in
  let t := [65535; 255; 15; 1048575; 15] in
  forallb (db_check dbgc) inputs = true /\ forallb (db_check relc) inputs = true /\
  db_from_slice dbgc t = db_from_slice relc t /\
  rmap db_data (db_from_slice dbgc t) = Ok [[255; 255; 15; 255; 15]; [255; 255]; [15]] /\
  rmap (fun d => map (fun r => bits_of (r9_bv r)) (db_flags d)) (db_from_slice dbgc t)
    = Ok [[true; false; false; true; false]; [false; true]].
Proof. vm_compute. repeat split. Qed.
