(* Props/C10.v — DacsOpt is lossless: from_slice rejects max_levels outside 1..=64 (for every
   input) and otherwise succeeds without panicking for every slice of usize values (fewer than
   2^50 of them), building one configuration-independent value; len = n, access(i) = vals[i] for
   i < n and None for every other i in usize, the iterator yields the input in order (then None
   forever, exact size hint); there are between 1 and min(max_levels, 64) levels, and for a
   non-empty input the widths are positive, sum to bitlen(max) and have minimum total cost among
   all admissible splits (C18).  The empty input gives the default value (one level).
   Pinned statements only; proofs are in Proofs/DacsLevels.v and Proofs/DacsOptMain.v. *)
From Sucds Require Import Base.Res Spec.SeqSpec Spec.DacSpec
  Model.BitVector Model.Rank9 Model.CompactVector Model.Dacs
  Proofs.BVAbs Proofs.CVRep Proofs.IterGeneric Proofs.DacsLevels Proofs.DacsOptMain.
Open Scope N_scope.

(* max_levels outside 1..=64 is an error, whatever the values *)
Theorem C10_reject : forall c vals m, ~ (1 <= m <= 64) -> do_from_slice c vals (Some m) = Ok None.
Proof. exact do_from_slice_reject'. Qed.
Print Assumptions C10_reject.

Theorem C10_dacsopt_lossless : forall vals mlo,
  let ml := match mlo with Some m => m | None => 64 end in
  Forall (fun x => x < W) vals -> lenN vals < 2 ^ 50 -> 1 <= ml <= 64 ->
  exists d,
    (forall c, do_from_slice c vals mlo = Ok (Some d)) /\
    (forall c, do_len c d = Ok (lenN vals)) /\
    1 <= do_num_levels d <= N.min ml 64 /\
    (vals = [] -> d = do_default) /\
    (vals <> [] ->
       (forall c, compute_opt_widths c vals ml = Ok (do_widths d)) /\
       DacSpec.admissible vals (do_widths d) ml = true /\
       (forall ws', DacSpec.admissible vals ws' ml = true ->
                    DacSpec.cost vals (do_widths d) <= DacSpec.cost vals ws')) /\
    (forall c i, i < W -> do_access c d i = Ok (SeqSpec.nth_opt vals i)) /\
    (forall c pos, pos < W ->
       do_iter_next c d pos
       = Ok (if pos <? lenN vals then (pos + 1, SeqSpec.nth_opt vals pos) else (pos, None))) /\
    (forall c, iter_ok (SeqSpec.nth_opt vals) (lenN vals) (do_iter_next c d) (iter_size_hint c (lenN vals))).
Proof. exact dacsopt_lossless. Qed.
Print Assumptions C10_dacsopt_lossless.

(* what "admissible" says *)
Theorem C10_admissible_unfold : forall vals ws L, DacSpec.admissible vals ws L = true <->
  1 <= lenN ws <= L /\ Forall (fun w => 1 <= w) ws /\
  DacSpec.sum_list ws = DacSpec.bitlen (DacSpec.max_list vals).
Proof. exact admissible_unfold. Qed.
Print Assumptions C10_admissible_unfold.

(* the level structure of any successfully built value of a non-empty input *)
Theorem C10_widths : forall c vals mlo d,
  let ml := match mlo with Some m => m | None => 64 end in
  vals <> [] -> Forall (fun x => x < W) vals -> lenN vals < 2 ^ 50 -> 1 <= ml <= 64 ->
  do_from_slice c vals mlo = Ok (Some d) ->
  do_num_levels d = lenN (do_widths d) /\
  1 <= lenN (do_widths d) <= N.min ml 64 /\
  Forall (fun w => 1 <= w) (do_widths d) /\
  DacSpec.sum_list (do_widths d) = DacSpec.bitlen (DacSpec.max_list vals).
Proof. exact dacsopt_widths. Qed.
Print Assumptions C10_widths.

(* the value built is the pure level decomposition for the widths of the dynamic program:
   level j is a CompactVector of width w_j holding chunk j of every value that reaches level j,
   flags[j] says which of them continue *)
Theorem C10_representation : forall c vals mlo,
  let ml := match mlo with Some m => m | None => 64 end in
  vals <> [] -> Forall (fun x => x < W) vals -> lenN vals < 2 ^ 50 -> 1 <= ml <= 64 ->
  exists d, do_from_slice c vals mlo = Ok (Some d) /\
    Forall2 cv_rep (do_data d) (lv_chunks (opt_widths vals ml) vals) /\
    map cv_width (do_data d) = opt_widths vals ml /\
    Forall2 fl_rel (do_flags d) (lv_flags (opt_widths vals ml) vals).
Proof. exact do_from_slice_rep. Qed.
Print Assumptions C10_representation.

(* the widths are one function of the input in every configuration *)
Theorem C10_widths_value : forall c vals ml,
  vals <> [] -> 1 <= ml -> ml <= 64 -> Forall (fun x => x < W) vals -> lenN vals < 2 ^ 56 ->
  compute_opt_widths c vals ml = Ok (opt_widths vals ml).
Proof. exact compute_opt_widths_value. Qed.
Print Assumptions C10_widths_value.

(* concrete inputs (hypotheses checked by do_check), both build profiles, max_levels = None, 0, 1,
   2, 3, 64, 65; values with bit 63 set; a single level may be 64 bits wide *)
Example C10_examples :
  let dbgc := {| dbg := true; intr := false |} in
  let relc := {| dbg := false; intr := true |} in
  let big := [9223372036854775808; 0; 5; 18446744073709551615; 256; 255] in
  let inputs := [[]; [0; 0]; [1; 300; 70000; 5]; [255]; [256]; [65535; 65536; 0; 16777216]; big] in
  let mls := [None; Some 0; Some 1; Some 2; Some 3; Some 64; Some 65] in
  forallb (fun v => forallb (do_check dbgc v) mls) inputs = true /\
  forallb (fun v => forallb (do_check relc v) mls) inputs = true /\
  rmap (option_map do_widths) (do_from_slice dbgc big (Some 3)) = Ok (Some [3; 6; 55]) /\
  rmap (option_map do_widths) (do_from_slice relc big (Some 1)) = Ok (Some [64]) /\
  rmap (option_map do_widths) (do_from_slice dbgc [] None) = Ok (Some [0]) /\
  do_from_slice dbgc big (Some 0) = Ok None /\ do_from_slice relc [] (Some 65) = Ok None /\
  do_from_slice dbgc [5; 0; 100000; 334] (Some 2) = do_from_slice relc [5; 0; 100000; 334] (Some 2).
Proof. vm_compute. repeat split. Qed.
