(* Props/C08.v — serialization round trip and byte accounting (pinned statements only). *)
From Sucds Require Import Base.Res Spec.FormatSpec gen.SerialGen Model.BitVector Model.Rank9
  Model.CompactVector Model.Serial Proofs.SerialGeneric Proofs.SerialImpls.
Open Scope N_scope.

(* what is written is read back, and the reader stops exactly at the end of the value *)
Theorem C08_roundtrip : forall t v rest,
  vec_ok t = true -> wf_val t v = true -> deser t (ser t v ++ rest) = Some (v, rest).
Proof. exact ser_deser. Qed.
Print Assumptions C08_roundtrip.

(* the number of bytes written is size_in_bytes(), including the Vec `size_of` fast path *)
Theorem C08_length_is_size : forall t v,
  wf_val t v = true -> lenN (ser t v) = size t v.
Proof. exact ser_length. Qed.
Print Assumptions C08_length_is_size.

(* values written back to back are read back in order *)
Theorem C08_concat : forall t1 v1 t2 v2 rest,
  vec_ok t1 = true -> wf_val t1 v1 = true -> vec_ok t2 = true -> wf_val t2 v2 = true ->
  deser t1 (ser t1 v1 ++ ser t2 v2 ++ rest) = Some (v1, ser t2 v2 ++ rest) /\
  deser t2 (ser t2 v2 ++ rest) = Some (v2, rest).
Proof. exact ser_concat. Qed.
Print Assumptions C08_concat.

(* everything written is a byte *)
Theorem C08_bytes : forall t v, Forall (fun b => b < 256) (ser t v).
Proof. exact ser_bytes. Qed.
Print Assumptions C08_bytes.

(* every hand-written `impl Serializable` passes the structural check ... *)
Theorem C08_all_impls_ok : forallb check_impl all_impls = true.
Proof. exact all_impls_ok. Qed.
Print Assumptions C08_all_impls_ok.

Theorem C08_generic_facts_ok : forallb (fun b => b) generic_facts = true.
Proof. exact generic_facts_ok. Qed.
Print Assumptions C08_generic_facts_ok.

(* ... and a description that passes the check is the generic struct codec *)
Theorem C08_impl_ser_ok : forall d l,
  check_impl d = true -> List.length l = List.length (d_fields d) ->
  impl_ser d l = ser (TStruct (map snd (d_fields d))) (VStruct l).
Proof. exact impl_ser_ok. Qed.
Print Assumptions C08_impl_ser_ok.

Theorem C08_impl_deser_ok : forall d bs,
  check_impl d = true -> impl_deser d bs = deser (TStruct (map snd (d_fields d))) bs.
Proof. exact impl_deser_ok. Qed.
Print Assumptions C08_impl_deser_ok.

Theorem C08_impl_size_ok : forall d l,
  check_impl d = true -> List.length l = List.length (d_fields d) ->
  impl_size d l = size (TStruct (map snd (d_fields d))) (VStruct l).
Proof. exact impl_size_ok. Qed.
Print Assumptions C08_impl_size_ok.

(* the derived ty_X are the structs of the declared fields, all satisfy vec_ok *)
Theorem C08_impl_tys_ok :
  map snd impl_tys = all_impls /\
  forallb (fun p => ty_eqb (fst p) (TStruct (map snd (d_fields (snd p))))) impl_tys = true /\
  forallb (fun p => vec_ok (fst p)) impl_tys = true.
Proof. exact (conj impl_tys_cover (conj impl_tys_ok impl_tys_vec_ok)). Qed.
Print Assumptions C08_impl_tys_ok.

(* model values are well-formed inhabitants of their serialization type when their numbers fit *)
Theorem C08_wf_bitvec : forall b,
  Forall (fun w => w < W) (bv_words b) -> lenN (bv_words b) < W -> bv_len b < W ->
  wf_val ty_BitVector (v_bitvec b) = true.
Proof. exact wf_bitvec_intro. Qed.
Print Assumptions C08_wf_bitvec.

Theorem C08_wf_r9index : forall r,
  r_len r < W -> lenN (r_brp r) < W -> Forall (fun w => w < W) (r_brp r) ->
  opt_nums_P (r_h1 r) -> opt_nums_P (r_h0 r) ->
  wf_val ty_Rank9SelIndex (v_r9index r) = true.
Proof. exact wf_r9index_intro. Qed.
Print Assumptions C08_wf_r9index.

Theorem C08_wf_r9sel : forall x,
  wf_val ty_BitVector (v_bitvec (r9_bv x)) = true ->
  wf_val ty_Rank9SelIndex (v_r9index (r9_rs x)) = true ->
  wf_val ty_Rank9Sel (v_r9sel x) = true.
Proof. exact wf_r9sel_intro. Qed.
Print Assumptions C08_wf_r9sel.

Theorem C08_wf_compvec : forall v,
  wf_val ty_BitVector (v_bitvec (cv_chunks v)) = true -> cv_len v < W -> cv_width v < W ->
  wf_val ty_CompactVector (v_compvec v) = true.
Proof. exact wf_compvec_intro. Qed.
Print Assumptions C08_wf_compvec.

(* ---- the same, read directly on the code REGENERATED from serial.rs / primitive.rs (gen/SerialImplGen.v) ---- *)
From Sucds Require Import Base.SerialDict gen.SerialImplGen Proofs.SerialImplTie.
Theorem C08_generated_roundtrip : forall c t v rest,
  vec_ok t = true -> wf_val t v = true -> size t v < W ->
  exists bytes, sd_ser (dict_of mem_io c t) v [] = ok (bytes, lenN bytes) /\
                sd_size (dict_of mem_io c t) v = Ok (lenN bytes) /\
                sd_deser (dict_of mem_io c t) (bytes ++ rest) = ok (v, rest).
Proof. exact gen_roundtrip. Qed.
Print Assumptions C08_generated_roundtrip.
Theorem C08_generated_ser : forall c t v w, wf_val t v = true -> size t v < W ->
  sd_ser (dict_of mem_io c t) v w = ok (w ++ ser t v, size t v).
Proof. exact tie_ser_mem. Qed.
Print Assumptions C08_generated_ser.
Theorem C08_generated_deser : forall c t bs, vec_ok t = true -> sd_deser (dict_of mem_io c t) bs = Ok (deser t bs).
Proof. exact tie_deser_mem. Qed.
Print Assumptions C08_generated_deser.

(* the hypotheses are satisfiable on a nested value (struct of Vec<Option<u16>>, Option<Vec<bool>>,
   isize), and the conclusions compute *)
Example C08_nonvacuous :
  vec_ok ser_ex_ty = true /\ wf_val ser_ex_ty ser_ex_val = true /\
  deser ser_ex_ty (ser ser_ex_ty ser_ex_val ++ [9; 9]) = Some (ser_ex_val, [9; 9]) /\
  lenN (ser ser_ex_ty ser_ex_val) = 34 /\ size ser_ex_ty ser_ex_val = 34.
Proof. vm_compute. repeat split. Qed.
