(* Props/C14.v — property C14: the broadword primitives equal their mathematical definitions
   on every 64-bit word, in every build configuration. *)
From Sucds Require Import Base.Res Spec.WordSpec gen.BroadwordGen.
From Sucds Require Import Proofs.C14_Popcount Proofs.C14_Lsb Proofs.C14_Msb Proofs.C14_Select.
Open Scope N_scope.

Theorem C14_popcount : forall c x, x < W -> popcount c x = Ok (popcN x).
Proof. exact popcount_correct. Qed.
Print Assumptions C14_popcount.

Theorem C14_lsb : forall c x, x < W -> lsb c x = Ok (lsb_spec x).
Proof. exact lsb_correct. Qed.
Print Assumptions C14_lsb.

Theorem C14_msb : forall c x, x < W -> msb c x = Ok (msb_spec x).
Proof. exact msb_correct. Qed.
Print Assumptions C14_msb.

Theorem C14_select_in_word : forall c x k, x < W -> k < W ->
  select_in_word c x k = Ok (select_in_word_spec x k).
Proof. exact select_in_word_correct. Qed.
Print Assumptions C14_select_in_word.

(* the hypotheses are satisfiable and the functions are exercised on a non-trivial word *)
Example C14_nonvacuous :
  let c := {| dbg := true; intr := false |} in
  0xF0F0 < W /\ 5 < W /\
  popcount c 0xF0F0 = Ok 8 /\ lsb c 0xF0F0 = Ok (Some 4) /\ msb c 0xF0F0 = Ok (Some 15) /\
  select_in_word c 0xF0F0 5 = Ok (Some 13) /\ select_in_word c 0xF0F0 8 = Ok None /\
  popcN 0xF0F0 = 8 /\ lsb_spec 0xF0F0 = Some 4 /\ msb_spec 0xF0F0 = Some 15 /\
  select_in_word_spec 0xF0F0 5 = Some 13 /\ select_in_word_spec 0xF0F0 8 = None.
Proof. vm_compute. repeat split. Qed.
