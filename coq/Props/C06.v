(* Props/C06.v — quantile and intersect of a WaveletMatrix built from a non-empty integer sequence
   agree with the stored sequence (k-th smallest of a range; ascending distinct values occurring in
   more than k of the ranges), over any correct backing bit vector, in every build configuration,
   for all arguments.  Pinned statements only; proofs are in Proofs/WMQuantile.v and
   Proofs/WMIntersect.v (on top of Proofs/WMLists.v, WMBuild.v, WMQueries.v).
   The premise about the backings is discharged in Proofs/Integration.v, as in Props/C05.v. *)
From Sucds Require Import Base.Res Spec.BitSpec Spec.SeqSpec Spec.DacSpec Model.BitVector Model.Wavelet
  Proofs.BVAbs Proofs.IndexSpecs Proofs.WMBuild Proofs.WMQueries Proofs.WMQuantile Proofs.WMIntersect
  Proofs.Integration.
Open Scope N_scope.

Theorem C06_quantile : forall c0 k s wm,
  s <> [] /\ max_list s + 1 < W /\ lenN s < 2 ^ 50 -> wm_new c0 k s = Ok (Some wm) ->
  forall c a b j, a < W -> b < W -> j < W ->
  wm_quantile c wm a b j = Ok (SeqSpec.wm_quantile s a b j).
Proof. exact wm_quantile_closed. Qed.
Print Assumptions C06_quantile.

(* ranges and threshold are arbitrary (no bound is needed) *)
Theorem C06_intersect : forall c0 k s wm,
  s <> [] /\ max_list s + 1 < W /\ lenN s < 2 ^ 50 -> wm_new c0 k s = Ok (Some wm) ->
  forall c rs j, wm_intersect c wm rs j = Ok (SeqSpec.wm_intersect s rs j).
Proof. exact wm_intersect_closed. Qed.
Print Assumptions C06_intersect.

(* a concrete instance, computed: "banana" over the plain BitVector backing, dev configuration *)
Example C06_banana :
  let c := {| dbg := true; intr := false |} in
  let s := [98; 97; 110; 97; 110; 97] in
  match wm_new c KBitVec s with
  | Ok (Some wm) =>
      wm_quantile c wm 1 4 0 = Ok (Some 97) /\ wm_quantile c wm 1 4 2 = Ok (Some 110) /\
      wm_quantile c wm 1 4 3 = Ok None /\ wm_quantile c wm 4 7 0 = Ok None /\
      wm_quantile c wm 0 6 3 = Ok (SeqSpec.wm_quantile s 0 6 3) /\
      wm_intersect c wm [(1, 4); (4, 6); (0, 2)] 0 = Ok (Some [97; 98; 110]) /\
      wm_intersect c wm [(1, 4); (4, 6); (0, 2)] 1 = Ok (Some [97; 110]) /\
      wm_intersect c wm [(1, 4); (4, 6); (0, 2)] 2 = Ok (Some [97]) /\
      wm_intersect c wm [(1, 4); (4, 6); (0, 2)] 3 = Ok (Some []) /\
      wm_intersect c wm [(3, 3); (1, 7)] 0 = Ok None /\
      wm_intersect c wm [(1, 4); (4, 6); (0, 2)] 1 = Ok (SeqSpec.wm_intersect s [(1, 4); (4, 6); (0, 2)] 1)
  | _ => False
  end.
Proof. vm_compute. repeat split. Qed.
