(* Props/C19.v — compressed sizes stay within the documented space bounds, with explicit
   constants.  u = number of bits, n = number of set bits / values, B = 8 * size_in_bytes();
   size_in_bytes() of a model value x of type T is `FormatSpec.size ty_T (v_T x)` (equal to the
   number of bytes written: Props/C08, `ser_length`).  Rational constants are cleared
   (1.32 = 132/100 ...).  Pinned statements only; proofs are in Proofs/SizeForms.v (closed forms),
   SizeBV.v, SizeR9.v (+ the per-level sums for DACs / wavelet layers), SizeDA.v, SizeEF.v (+ the
   links to the constructors of SArray, PrefixSummedEliasFano, DacsByte, DacsOpt, WaveletMatrix). *)
From Sucds Require Import Base.Res Spec.BitSpec Spec.DacSpec Spec.FormatSpec gen.SerialGen
  Model.BitVector Model.Rank9 Model.DArray Model.CompactVector Model.EliasFano Model.SArray Model.Psef
  Model.Dacs Model.Wavelet Model.Serial Proofs.BVAbs Proofs.CVRep Proofs.R9Main Proofs.EFBuilder
  Proofs.SizeForms Proofs.SizeBV Proofs.SizeR9 Proofs.SizeDA Proofs.SizeEF.
Open Scope N_scope.

(* the payload rounded up to whole 64-bit words *)
Theorem C19_round64_unfold : forall b, round64 b = ((b + 63) / 64) * 64.
Proof. exact (fun b => eq_refl). Qed.
Print Assumptions C19_round64_unfold.

(* ---- plain BitVector / CompactVector: payload rounded up to 64 bits + 256 ---- *)
Theorem C19_bitvector : forall bv, wf bv ->
  8 * size ty_BitVector (v_bitvec bv) <= round64 (bv_len bv) + 256.
Proof. exact size_bitvector_bound. Qed.
Print Assumptions C19_bitvector.

Theorem C19_compactvector : forall v xs, cv_inv v xs ->
  8 * size ty_CompactVector (v_compvec v) <= round64 (cv_len v * cv_width v) + 256.
Proof. exact size_compactvector_bound. Qed.
Print Assumptions C19_compactvector.

(* ---- Rank9Sel, all four hint configurations: B <= 1.32 u + 2048 ---- *)
Theorem C19_rank9sel : forall bv h1 h0, wf bv ->
  100 * (8 * size ty_Rank9Sel (v_r9sel (r9_spec bv h1 h0))) <= 132 * bv_len bv + 204800.
Proof. exact size_rank9sel_bound. Qed.
Print Assumptions C19_rank9sel.

(* the value returned by the constructor (Build::build_from_bits + select hints), any configuration *)
Theorem C19_rank9sel_built : forall c bv h1 h0 x, wf bv -> cap_ok bv -> r9_build c bv h1 h0 = Ok x ->
  100 * (8 * size ty_Rank9Sel (v_r9sel x)) <= 132 * bv_len bv + 204800.
Proof. exact size_rank9sel_built. Qed.
Print Assumptions C19_rank9sel_built.

(* sharp form: B <= 1.3125 u + 879 *)
Theorem C19_rank9sel_sharp : forall bv h1 h0, wf bv ->
  16 * (8 * sz_r9sel (r9_spec bv h1 h0)) <= 21 * bv_len bv + 14064.
Proof. exact r9_bits_sharp. Qed.
Print Assumptions C19_rank9sel_sharp.

(* ---- DArray, all four index configurations: B <= u (1 + 1.02 s + 0.26 r) + 4096 ---- *)
(* the value built, one for every build configuration *)
Theorem C19_darray_value : forall c bv with_rank with_select0, wf bv -> cap_ok bv ->
  da_build_cfg c bv with_rank with_select0 = Ok (da_spec bv with_rank with_select0).
Proof. exact da_build_cfg_ok. Qed.
Print Assumptions C19_darray_value.

Theorem C19_darray : forall bv with_rank with_select0, wf bv -> cap_ok bv ->
  100 * (8 * size ty_DArray (v_darray (da_spec bv with_rank with_select0)))
  <= bv_len bv * (100 + 102 * (1 + b2n with_select0) + 26 * b2n with_rank) + 409600.
Proof. exact size_darray_bound. Qed.
Print Assumptions C19_darray.

(* in the form evaluated by the driver (s and r read off the built value) *)
Theorem C19_darray_built : forall c bv with_rank with_select0 d, wf bv -> cap_ok bv ->
  da_build_cfg c bv with_rank with_select0 = Ok d ->
  100 * (8 * size ty_DArray (v_darray d))
  <= bv_len bv * (100 + 102 * (1 + match da_s0 d with Some _ => 1 | None => 0 end)
                      + 26 * match da_r9 d with Some _ => 1 | None => 0 end) + 409600.
Proof. exact size_darray_built. Qed.
Print Assumptions C19_darray_built.

(* one select index alone: 1.02 u + 344 bits *)
Theorem C19_darray_index : forall bv v, wf bv -> cap_ok bv ->
  100 * (8 * sz_daindex (DABuild.da_pure v (positions v (bits_of bv)))) <= 102 * bv_len bv + 34400.
Proof. exact da_index_bits. Qed.
Print Assumptions C19_darray_index.

(* ---- Elias-Fano: B <= n floor(lg(u/n)) + 7n + 8192 (11n with the rank / select0 index) ---- *)
(* any builder state (capacity m, n = lenN acc values pushed): the high part is sized by m *)
Theorem C19_eliasfano_capacity : forall u m b acc, 1 <= m ->
  m + 2 + u / 2 ^ low_len_of u m < 2 ^ 56 -> efb_inv b acc u m -> forall rank,
  8 * size ty_EliasFano (v_ef (ef_spec b rank))
  <= lenN acc * low_len_of u m + (if rank then 11 else 7) * m + 8192.
Proof. exact size_eliasfano_capacity. Qed.
Print Assumptions C19_eliasfano_capacity.

(* completely filled builder (n = m): the built value and the documented formula, in the form
   evaluated by the driver *)
Theorem C19_eliasfano : forall u n b xs rank, 1 <= n -> n + 2 + u / 2 ^ low_len_of u n < 2 ^ 56 ->
  efb_inv b xs u n -> lenN xs = n ->
  let e := ef_spec b rank in
  (forall c, (e0 <- efb_build c b ;; if rank then ef_enable_rank c e0 else Ok e0) = Ok e) /\
  ef_low_len e = low_len_of u n /\
  8 * size ty_EliasFano (v_ef e)
  <= n * ef_low_len e + (match da_s0 (ef_high e) with Some _ => 11 | None => 7 end) * n + 8192.
Proof. exact size_eliasfano_full. Qed.
Print Assumptions C19_eliasfano.

(* the formula in n alone does not hold for a builder that is built before it is full *)
Theorem C19_eliasfano_partial_builder_witness : ef_partial_witness = Some (8728, 0, 8192).
Proof. exact ef_partial_witness_eq. Qed.
Print Assumptions C19_eliasfano_partial_builder_witness.

(* any fill level, in the form evaluated by the driver (capacity recovered from the high vector) *)
Theorem C19_eliasfano_driver_form : forall u m b acc rank, 1 <= m ->
  m + 2 + u / 2 ^ low_len_of u m < 2 ^ 56 -> efb_inv b acc u m ->
  let e := ef_spec b rank in
  let cap := da_num_bits (ef_high e) - 2 - N.shiftr u (ef_low_len e) in
  cap = m /\
  8 * size ty_EliasFano (v_ef e)
  <= lenN acc * ef_low_len e + (match da_s0 (ef_high e) with Some _ => 11 | None => 7 end) * cap + 8192.
Proof. exact size_eliasfano_driver. Qed.
Print Assumptions C19_eliasfano_driver_form.

(* the two capacity side conditions hold whenever m <= u < 2^55 - 1 *)
Theorem C19_ef_caps_small : forall u m, 1 <= m -> m <= u -> u + 1 < 2 ^ 55 ->
  m + 2 + u / 2 ^ low_len_of u m < 2 ^ 56 /\ m * low_len_of u m < 2 ^ 56.
Proof. exact ef_caps_small. Qed.
Print Assumptions C19_ef_caps_small.

(* EliasFano::from_bits over u bits with n ones (the builder is filled completely) *)
Theorem C19_eliasfano_from_bits : forall bv u n, wf bv -> cap_ok bv ->
  u = bv_len bv -> n = count true (bits_of bv) -> 1 <= n ->
  n + 2 + u / 2 ^ low_len_of u n < 2 ^ 56 -> n * low_len_of u n < 2 ^ 56 ->
  forall c e, ef_from_bits c bv = Ok (Some e) ->
  ef_low_len e = low_len_of u n /\
  8 * size ty_EliasFano (v_ef e) <= n * ef_low_len e + 7 * n + 8192.
Proof. exact size_ef_from_bits. Qed.
Print Assumptions C19_eliasfano_from_bits.

(* SArray::from_bits (+ enable_rank) over u bits with n ones; all-zero vectors store no
   Elias-Fano part (144 bits) *)
Theorem C19_sarray : forall c bv (with_rank : bool) s, wf bv -> cap_ok bv ->
  (1 <= count true (bits_of bv) ->
   count true (bits_of bv) + 2 + bv_len bv / 2 ^ low_len_of (bv_len bv) (count true (bits_of bv)) < 2 ^ 56 /\
   count true (bits_of bv) * low_len_of (bv_len bv) (count true (bits_of bv)) < 2 ^ 56) ->
  (s0 <- sa_from_bv c bv ;; if with_rank then sa_enable_rank c s0 else Ok s0) = Ok s ->
  let n := count true (bits_of bv) in
  sa_has_rank s = with_rank /\
  8 * size ty_SArray (v_sarray s)
  <= n * low_len_of (bv_len bv) n + (if sa_has_rank s then 11 else 7) * n + 8192.
Proof. exact size_sarray_built. Qed.
Print Assumptions C19_sarray.

Theorem C19_sarray_allzero : forall s, sa_ef s = None -> 8 * size ty_SArray (v_sarray s) = 144.
Proof. exact size_sarray_none. Qed.
Print Assumptions C19_sarray_allzero.

(* PrefixSummedEliasFano::from_slice: n values, universe u = sum + 1 *)
Theorem C19_psef : forall c vals p,
  sum_list vals + 1 < W ->
  (lenN vals + 2 + (sum_list vals + 1) / 2 ^ low_len_of (sum_list vals + 1) (lenN vals) < 2 ^ 56 /\
   lenN vals * low_len_of (sum_list vals + 1) (lenN vals) < 2 ^ 56) ->
  ps_from_slice c vals = Ok (Some p) ->
  ef_low_len (ps_ef p) = low_len_of (sum_list vals + 1) (lenN vals) /\
  8 * size ty_PrefixSummedEliasFano (v_psef p)
  <= lenN vals * ef_low_len (ps_ef p) + 7 * lenN vals + 8192.
Proof. exact size_psef_built. Qed.
Print Assumptions C19_psef.

(* ---- DACs: per level 1.32 (chunk + flag bits stored on the level) + 2048, + 128 ---- *)
Theorem C19_dacsbyte : forall c vals d, Forall (fun x => x < W) vals -> lenN vals < 2 ^ 50 ->
  db_from_slice c vals = Ok d ->
  let levels := combine (db_data d) (map Some (db_flags d) ++ [None]) in
  let tot := fold_left (fun acc (lv : list N * option r9sel) =>
               let chunk := 8 * lenN (fst lv) in
               let flag := match snd lv with Some f => r9_num_bits f | None => 0 end in
               acc + 132 * (chunk + flag) + 204800) levels 0 in
  100 * (8 * size ty_DacsByte (v_dacsbyte d)) <= tot + 12800.
Proof. exact size_dacsbyte_built. Qed.
Print Assumptions C19_dacsbyte.

Theorem C19_dacsopt : forall c vals mlo d, Forall (fun x => x < W) vals -> lenN vals < 2 ^ 50 ->
  do_from_slice c vals mlo = Ok (Some d) ->
  let levels := combine (do_data d) (map Some (do_flags d) ++ [None]) in
  let tot := fold_left (fun acc (lv : compvec * option r9sel) =>
               let chunk := cv_len (fst lv) * cv_width (fst lv) in
               let flag := match snd lv with Some f => r9_num_bits f | None => 0 end in
               acc + 132 * (chunk + flag) + 204800) levels 0 in
  100 * (8 * size ty_DacsOpt (v_dacsopt d)) <= tot + 12800.
Proof. exact size_dacsopt_built. Qed.
Print Assumptions C19_dacsopt.

(* ---- WaveletMatrix<Rank9Sel> over n symbols: B <= width (1.32 n + 2048) + 128 ---- *)
Theorem C19_wavelet_rank9 : forall c xs wm, lenN xs < 2 ^ 56 -> wm_new c KRank9 xs = Ok (Some wm) ->
  100 * (8 * size ty_WaveletMatrix_Rank9Sel (v_wavelet wm))
  <= wm_alph_width wm * (132 * lenN xs + 204800) + 12800.
Proof. exact size_wavelet_r9_built. Qed.
Print Assumptions C19_wavelet_rank9.

(* ---- concrete instances: both sides evaluated ---- *)
Definition C19_cfg : cfg := {| dbg := true; intr := false |}.

(* all ones (worst case for the select1 hint table), 5000 bits, both hint tables:
   (u, B_bitvector, bound, 100 B_rank9sel, bound) *)
Example C19_example_rank9 :
  match from_bit C19_cfg true 5000 with
  | Ok bv => match r9_build C19_cfg bv true true with
             | Ok x => Some (bv_len bv, 8 * size ty_BitVector (v_bitvec bv), round64 (bv_len bv) + 256,
                             100 * (8 * size ty_Rank9Sel (v_r9sel x)), 132 * bv_len bv + 204800)
             | Panic => None end
  | Panic => None end
  = Some (5000, 5184, 5312, 724800, 864800).
Proof. vm_compute. reflexivity. Qed.

(* three dense 1024-blocks of ones, then a sparse block (its 1024 positions go to the overflow
   list) and a partial dense block; select0 and rank enabled:
   (wf, |overflow|, block inventory, 100 B, bound) *)
Definition C19_da_bv : bitvec :=
  {| bv_words := map (fun i => if i <? 48 then MASK64 else if i mod 2 =? 0 then 1 else 0) (nseq 2300);
     bv_len := 147200 |}.
Example C19_example_darray :
  (wf_b C19_da_bv,
   match da_build_cfg C19_cfg C19_da_bv true true with
   | Ok d => Some (lenN (d_overflow (da_s1 d)), d_block_inv (da_s1 d),
                   100 * (8 * size ty_DArray (v_darray d)),
                   bv_len C19_da_bv * (100 + 102 * 2 + 26 * 1) + 409600)
   | Panic => None end)
  = (true, Some (1024, [0; 1024; 2048; -1; 134144]%Z, 33344000, 48985600)).
Proof. vm_compute. reflexivity. Qed.

(* 300 integers of width 10: (len, width, B, bound) — the bound is attained *)
Example C19_example_compactvector :
  match cv_from_slice C19_cfg (map (fun i => (i * i) mod 1000) (nseq 300)) with
  | Ok (Some v) => Some (cv_len v, cv_width v, 8 * size ty_CompactVector (v_compvec v),
                         round64 (cv_len v * cv_width v) + 256)
  | _ => None end
  = Some (300, 10, 3264, 3264).
Proof. vm_compute. reflexivity. Qed.

(* Elias-Fano, 500 values, u/n = 31.98 just below 2^5 (low_len = 4), full builder:
   (low_len, B, bound, B with rank, bound with rank) *)
Example C19_example_eliasfano :
  match efb_new C19_cfg 15990 500 with
  | Ok (Some b) =>
    match efb_extend C19_cfg b (map (fun i => 31 * i + (i mod 7)) (nseq 500)) with
    | Ok (b', true) =>
      match efb_build C19_cfg b' with
      | Ok e => match ef_enable_rank C19_cfg e with
                | Ok e' => Some (ef_low_len e, 8 * size ty_EliasFano (v_ef e), 500 * ef_low_len e + 7 * 500 + 8192,
                                 8 * size ty_EliasFano (v_ef e'), 500 * ef_low_len e + 11 * 500 + 8192)
                | Panic => None end
      | Panic => None end
    | _ => None end
  | _ => None end
  = Some (4, 4568, 13692, 5408, 15692).
Proof. vm_compute. reflexivity. Qed.

(* SArray with rank over 19200 bits with 200 ones: (n, floor(lg(u/n)), B, bound) *)
Definition C19_sa_bv : bitvec :=
  {| bv_words := map (fun i => if i mod 3 =? 0 then 2 ^ 17 + 1 else 0) (nseq 300); bv_len := 19200 |}.
Example C19_example_sarray :
  match (s0 <- sa_from_bv C19_cfg C19_sa_bv ;; sa_enable_rank C19_cfg s0) with
  | Ok s => Some (sa_num_ones s, low_len_of (bv_len C19_sa_bv) (sa_num_ones s), 8 * size ty_SArray (v_sarray s),
                  sa_num_ones s * low_len_of (bv_len C19_sa_bv) (sa_num_ones s) + 11 * sa_num_ones s + 8192)
  | Panic => None end
  = Some (200, 6, 3200, 11592).
Proof. vm_compute. reflexivity. Qed.

(* PrefixSummedEliasFano of 200 values: (low_len, B, bound) *)
Example C19_example_psef :
  match ps_from_slice C19_cfg (map (fun i => (i * i * 37) mod 5000) (nseq 200)) with
  | Ok (Some p) => Some (ef_low_len (ps_ef p), 8 * size ty_PrefixSummedEliasFano (v_psef p),
                         200 * ef_low_len (ps_ef p) + 7 * 200 + 8192)
  | _ => None end
  = Some (11, 3528, 11792).
Proof. vm_compute. reflexivity. Qed.

(* DACs over 400 values, 40 of them large: two levels.
   DacsOpt: (widths, level lengths, 100 B, bound); DacsByte: (level lengths, 100 B, bound) *)
Definition C19_dac_vals : list N :=
  map (fun i => if i mod 10 =? 0 then (i * i * 37) mod 50000 else i mod 16) (nseq 400).
Example C19_example_dacsopt :
  match do_from_slice C19_cfg C19_dac_vals None with
  | Ok (Some d) =>
      let levels := combine (do_data d) (map Some (do_flags d) ++ [None]) in
      let tot := fold_left (fun acc (lv : compvec * option r9sel) =>
                   let chunk := cv_len (fst lv) * cv_width (fst lv) in
                   let flag := match snd lv with Some f => r9_num_bits f | None => 0 end in
                   acc + 132 * (chunk + flag) + 204800) levels 0 in
      Some (map cv_width (do_data d), map cv_len (do_data d),
            100 * (8 * size ty_DacsOpt (v_dacsopt d)), tot + 12800)
  | _ => None end
  = Some ([4; 12], [400; 39], 372800, 748176).
Proof. vm_compute. reflexivity. Qed.
Example C19_example_dacsbyte :
  match db_from_slice C19_cfg C19_dac_vals with
  | Ok d =>
      let levels := combine (db_data d) (map Some (db_flags d) ++ [None]) in
      let tot := fold_left (fun acc (lv : list N * option r9sel) =>
                   let chunk := 8 * lenN (fst lv) in
                   let flag := match snd lv with Some f => r9_num_bits f | None => 0 end in
                   acc + 132 * (chunk + flag) + 204800) levels 0 in
      Some (map lenN (db_data d), 100 * (8 * size ty_DacsByte (v_dacsbyte d)), tot + 12800)
  | Panic => None end
  = Some ([400; 39], 474400, 938784).
Proof. vm_compute. reflexivity. Qed.

(* WaveletMatrix<Rank9Sel> over 400 symbols below 5000: (width, 100 B, bound) *)
Example C19_example_wavelet :
  match wm_new C19_cfg KRank9 (map (fun i => (i * i * 37) mod 5000) (nseq 400)) with
  | Ok (Some wm) => Some (wm_alph_width wm, 100 * (8 * size ty_WaveletMatrix_Rank9Sel (v_wavelet wm)),
                          wm_alph_width wm * (132 * 400 + 204800) + 12800)
  | _ => None end
  = Some (13, 1614400, 3361600).
Proof. vm_compute. reflexivity. Qed.
