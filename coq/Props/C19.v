(* Props/C19.v — compressed sizes stay within the documented space bounds, with explicit
   constants.  u = number of bits, n = number of set bits / values, B = 8 * size_in_bytes();
   size_in_bytes() of a model value x of type T is `FormatSpec.size ty_T (v_T x)` (equal to the
   number of bytes written: Props/C08, `ser_length`).  Rational constants are cleared
   (1.32 = 132/100 ...).  Pinned statements only; proofs are in Proofs/SizeForms.v (closed forms),
   SizeBV.v, SizeR9.v, SizeDA.v, SizeEF.v. *)
From Sucds Require Import Base.Res Spec.BitSpec Spec.FormatSpec gen.SerialGen
  Model.BitVector Model.Rank9 Model.DArray Model.CompactVector Model.EliasFano Model.SArray Model.Psef
  Model.Serial Proofs.BVAbs Proofs.CVRep Proofs.R9Main Proofs.EFBuilder
  Proofs.SizeForms Proofs.SizeBV Proofs.SizeR9 Proofs.SizeDA Proofs.SizeEF.
Open Scope N_scope.

(* the payload rounded up to whole 64-bit words *)
Theorem C19_round64_unfold : forall b, round64 b = ((b + 63) / 64) * 64.
Proof. exact (fun b => eq_refl). Qed.
Print Assumptions C19_round64_unfold.

(* ---- plain BitVector / CompactVector: payload rounded up to 64 bits + 256 ---- *)
Theorem C19_bitvector : forall bv, wf bv ->
  8 * size ty_BitVector (v_bitvec bv) <= round64 (bv_len bv) + 256.
Proof. exact size_bitvector_bound. Qed.
Print Assumptions C19_bitvector.

Theorem C19_compactvector : forall v xs, cv_inv v xs ->
  8 * size ty_CompactVector (v_compvec v) <= round64 (cv_len v * cv_width v) + 256.
Proof. exact size_compactvector_bound. Qed.
Print Assumptions C19_compactvector.

(* ---- Rank9Sel, all four hint configurations: B <= 1.32 u + 2048 ---- *)
Theorem C19_rank9sel : forall bv h1 h0, wf bv ->
  100 * (8 * size ty_Rank9Sel (v_r9sel (r9_spec bv h1 h0))) <= 132 * bv_len bv + 204800.
Proof. exact size_rank9sel_bound. Qed.
Print Assumptions C19_rank9sel.

(* the value returned by the constructor (Build::build_from_bits + select hints), any configuration *)
Theorem C19_rank9sel_built : forall c bv h1 h0 x, wf bv -> cap_ok bv -> r9_build c bv h1 h0 = Ok x ->
  100 * (8 * size ty_Rank9Sel (v_r9sel x)) <= 132 * bv_len bv + 204800.
Proof. exact size_rank9sel_built. Qed.
Print Assumptions C19_rank9sel_built.

(* sharp form: B <= 1.3125 u + 879 *)
Theorem C19_rank9sel_sharp : forall bv h1 h0, wf bv ->
  16 * (8 * sz_r9sel (r9_spec bv h1 h0)) <= 21 * bv_len bv + 14064.
Proof. exact r9_bits_sharp. Qed.
Print Assumptions C19_rank9sel_sharp.

(* ---- DArray, all four index configurations: B <= u (1 + 1.02 s + 0.26 r) + 4096 ---- *)
(* the value built, one for every build configuration *)
Theorem C19_darray_value : forall c bv with_rank with_select0, wf bv -> cap_ok bv ->
  da_build_cfg c bv with_rank with_select0 = Ok (da_spec bv with_rank with_select0).
Proof. exact da_build_cfg_ok. Qed.
Print Assumptions C19_darray_value.

Theorem C19_darray : forall bv with_rank with_select0, wf bv -> cap_ok bv ->
  100 * (8 * size ty_DArray (v_darray (da_spec bv with_rank with_select0)))
  <= bv_len bv * (100 + 102 * (1 + b2n with_select0) + 26 * b2n with_rank) + 409600.
Proof. exact size_darray_bound. Qed.
Print Assumptions C19_darray.

(* in the form evaluated by the driver (s and r read off the built value) *)
Theorem C19_darray_built : forall c bv with_rank with_select0 d, wf bv -> cap_ok bv ->
  da_build_cfg c bv with_rank with_select0 = Ok d ->
  100 * (8 * size ty_DArray (v_darray d))
  <= bv_len bv * (100 + 102 * (1 + match da_s0 d with Some _ => 1 | None => 0 end)
                      + 26 * match da_r9 d with Some _ => 1 | None => 0 end) + 409600.
Proof. exact size_darray_built. Qed.
Print Assumptions C19_darray_built.

(* one select index alone: 1.02 u + 344 bits *)
Theorem C19_darray_index : forall bv v, wf bv -> cap_ok bv ->
  100 * (8 * sz_daindex (DABuild.da_pure v (positions v (bits_of bv)))) <= 102 * bv_len bv + 34400.
Proof. exact da_index_bits. Qed.
Print Assumptions C19_darray_index.

(* ---- Elias-Fano: B <= n floor(lg(u/n)) + 7n + 8192 (11n with the rank / select0 index) ---- *)
(* any builder state (capacity m, n = lenN acc values pushed): the high part is sized by m *)
Theorem C19_eliasfano_capacity : forall u m b acc, 1 <= m ->
  m + 2 + u / 2 ^ low_len_of u m < 2 ^ 56 -> efb_inv b acc u m -> forall rank,
  8 * size ty_EliasFano (v_ef (ef_spec b rank))
  <= lenN acc * low_len_of u m + (if rank then 11 else 7) * m + 8192.
Proof. exact size_eliasfano_capacity. Qed.
Print Assumptions C19_eliasfano_capacity.

(* completely filled builder (n = m): the built value and the documented formula, in the form
   evaluated by the driver *)
Theorem C19_eliasfano : forall u n b xs rank, 1 <= n -> n + 2 + u / 2 ^ low_len_of u n < 2 ^ 56 ->
  efb_inv b xs u n -> lenN xs = n ->
  let e := ef_spec b rank in
  (forall c, (e0 <- efb_build c b ;; if rank then ef_enable_rank c e0 else Ok e0) = Ok e) /\
  ef_low_len e = low_len_of u n /\
  8 * size ty_EliasFano (v_ef e)
  <= n * ef_low_len e + (match da_s0 (ef_high e) with Some _ => 11 | None => 7 end) * n + 8192.
Proof. exact size_eliasfano_full. Qed.
Print Assumptions C19_eliasfano.

(* the formula in n alone does not hold for a builder that is built before it is full *)
Theorem C19_eliasfano_partial_builder_witness : ef_partial_witness = Some (8728, 0, 8192).
Proof. exact ef_partial_witness_eq. Qed.
Print Assumptions C19_eliasfano_partial_builder_witness.

(* SArray / PrefixSummedEliasFano: partial — proved for every value whose Elias-Fano part is the
   value `ef_spec b _` of a completely filled builder; that the constructors sa_from_bv /
   ps_from_slice produce such a value is not proved here *)
Theorem C19_sarray_partial : forall u n b xs s, 1 <= n -> n + 2 + u / 2 ^ low_len_of u n < 2 ^ 56 ->
  efb_inv b xs u n -> lenN xs = n -> sa_ef s = Some (ef_spec b (sa_has_rank s)) ->
  8 * size ty_SArray (v_sarray s) <= n * low_len_of u n + (if sa_has_rank s then 11 else 7) * n + 8192.
Proof. exact size_sarray_full. Qed.
Print Assumptions C19_sarray_partial.

Theorem C19_sarray_allzero : forall s, sa_ef s = None -> 8 * size ty_SArray (v_sarray s) = 144.
Proof. exact size_sarray_none. Qed.
Print Assumptions C19_sarray_allzero.

Theorem C19_psef_partial : forall u n b xs p, 1 <= n -> n + 2 + u / 2 ^ low_len_of u n < 2 ^ 56 ->
  efb_inv b xs u n -> lenN xs = n -> ps_ef p = ef_spec b false ->
  8 * size ty_PrefixSummedEliasFano (v_psef p) <= n * low_len_of u n + 7 * n + 8192.
Proof. exact size_psef_full. Qed.
Print Assumptions C19_psef_partial.

(* ---- concrete instances: both sides evaluated ---- *)
Definition C19_cfg : cfg := {| dbg := true; intr := false |}.

(* all ones (worst case for the select1 hint table), 5000 bits, both hint tables:
   (u, B_bitvector, bound, 100 B_rank9sel, bound) *)
Example C19_example_rank9 :
  match from_bit C19_cfg true 5000 with
  | Ok bv => match r9_build C19_cfg bv true true with
             | Ok x => Some (bv_len bv, 8 * size ty_BitVector (v_bitvec bv), round64 (bv_len bv) + 256,
                             100 * (8 * size ty_Rank9Sel (v_r9sel x)), 132 * bv_len bv + 204800)
             | Panic => None end
  | Panic => None end
  = Some (5000, 5184, 5312, 724800, 864800).
Proof. vm_compute. reflexivity. Qed.

(* three dense 1024-blocks of ones, then a sparse block (its 1024 positions go to the overflow
   list) and a partial dense block; select0 and rank enabled:
   (wf, |overflow|, block inventory, 100 B, bound) *)
Definition C19_da_bv : bitvec :=
  {| bv_words := map (fun i => if i <? 48 then MASK64 else if i mod 2 =? 0 then 1 else 0) (nseq 2300);
     bv_len := 147200 |}.
Example C19_example_darray :
  (wf_b C19_da_bv,
   match da_build_cfg C19_cfg C19_da_bv true true with
   | Ok d => Some (lenN (d_overflow (da_s1 d)), d_block_inv (da_s1 d),
                   100 * (8 * size ty_DArray (v_darray d)),
                   bv_len C19_da_bv * (100 + 102 * 2 + 26 * 1) + 409600)
   | Panic => None end)
  = (true, Some (1024, [0; 1024; 2048; -1; 134144]%Z, 33344000, 48985600)).
Proof. vm_compute. reflexivity. Qed.

(* 300 integers of width 10: (len, width, B, bound) — the bound is attained *)
Example C19_example_compactvector :
  match cv_from_slice C19_cfg (map (fun i => (i * i) mod 1000) (nseq 300)) with
  | Ok (Some v) => Some (cv_len v, cv_width v, 8 * size ty_CompactVector (v_compvec v),
                         round64 (cv_len v * cv_width v) + 256)
  | _ => None end
  = Some (300, 10, 3264, 3264).
Proof. vm_compute. reflexivity. Qed.

(* Elias-Fano, 500 values, u/n = 31.98 just below 2^5 (low_len = 4), full builder:
   (low_len, B, bound, B with rank, bound with rank) *)
Example C19_example_eliasfano :
  match efb_new C19_cfg 15990 500 with
  | Ok (Some b) =>
    match efb_extend C19_cfg b (map (fun i => 31 * i + (i mod 7)) (nseq 500)) with
    | Ok (b', true) =>
      match efb_build C19_cfg b' with
      | Ok e => match ef_enable_rank C19_cfg e with
                | Ok e' => Some (ef_low_len e, 8 * size ty_EliasFano (v_ef e), 500 * ef_low_len e + 7 * 500 + 8192,
                                 8 * size ty_EliasFano (v_ef e'), 500 * ef_low_len e + 11 * 500 + 8192)
                | Panic => None end
      | Panic => None end
    | _ => None end
  | _ => None end
  = Some (4, 4568, 13692, 5408, 15692).
Proof. vm_compute. reflexivity. Qed.
