(* Props/C01.v — Rank9Sel answers access / rank / select / counts exactly like the plain bit
   sequence, in all four hint configurations and every build configuration.
   Pinned statements only; proofs are in Proofs/R9Build.v, R9Rank.v, R9Hints.v, R9Select.v, R9Main.v. *)
From Sucds Require Import Base.Res Spec.BitSpec Model.BitVector Model.Rank9 Proofs.BVAbs
  Proofs.IndexSpecs Proofs.R9Rank Proofs.R9Main.
Open Scope N_scope.

(* from any well-formed bit vector below the capacity bound 2^56: the builder (h1 / h0 = with
   select1 / select0 hints; the builder methods and the Build-trait flags are this one function)
   succeeds with ONE value x in every build configuration, x keeps the bit vector, and x is
   `r9_correct` (IndexSpecs): num_ones / num_zeros are the true counts and, for every argument
   below 2^64, access / rank1 / rank0 / select1 / select0 return Ok of the BitSpec answer on
   `bits_of bv` (None exactly when out of range).  The right-hand sides do not mention h1 h0:
   hints never change an answer. *)
Theorem C01_build : forall bv h1 h0, wf bv -> cap_ok bv ->
  exists x, (forall c, r9_build c bv h1 h0 = Ok x) /\ r9_bv x = bv /\ (forall c, r9_correct c x).
Proof. exact r9_build_correct. Qed.
Print Assumptions C01_build.

(* the same starting from a plain list of bits of any length below 2^56 (BitVector::from_bits,
   then the builder) *)
Theorem C01_from_bits : forall l h1 h0, lenN l < 2 ^ 56 ->
  exists x, (forall c, (bv <- from_bits c l ;; r9_build c bv h1 h0) = Ok x) /\
            bits_of (r9_bv x) = l /\ r9_num_bits x = lenN l /\ (forall c, r9_correct c x).
Proof. exact r9_from_bits_correct. Qed.
Print Assumptions C01_from_bits.

(* the value built in each of the four hint configurations, and its correctness *)
Theorem C01_value : forall c bv h1 h0, wf bv -> cap_ok bv ->
  r9_build c bv h1 h0 = Ok (r9_spec bv h1 h0).
Proof. exact r9_build_ok. Qed.
Print Assumptions C01_value.
Theorem C01_value_correct : forall c bv h1 h0, wf bv -> cap_ok bv -> r9_correct c (r9_spec bv h1 h0).
Proof. exact r9_spec_correct. Qed.
Print Assumptions C01_value_correct.

(* hints never change an answer, stated directly on two hint configurations *)
Theorem C01_hints_irrelevant : forall c bv h1 h0 h1' h0' k, wf bv -> cap_ok bv -> k < W ->
  r9_select1 c (r9_spec bv h1 h0) k = r9_select1 c (r9_spec bv h1' h0') k /\
  r9_select0 c (r9_spec bv h1 h0) k = r9_select0 c (r9_spec bv h1' h0') k.
Proof. exact r9_hints_irrelevant. Qed.
Print Assumptions C01_hints_irrelevant.

(* the partial theorem (build + access / rank / counts), kept as a separately pinned statement *)
Theorem C01_rank : forall bv h1 h0, wf bv -> cap_ok bv ->
  exists x, (forall c, r9_build c bv h1 h0 = Ok x) /\ r9_bv x = bv /\ (forall c, r9_rank_part c x).
Proof. exact r9_rank_correct. Qed.
Print Assumptions C01_rank.

(* non-vacuity: a pseudo-random 2700-bit string (43 words, 6 blocks with a partial last block,
   1367 ones and 1333 zeros, so both hint tables have two chunks) satisfies the hypotheses
   (`wf_b` is a decidable sufficient test for `wf`, sound by `wf_b_sound`), and the model's
   answers on it are the specification's *)
Example C01_nonvacuous :
  lenN r9_ex_bits = 2700 /\ count true r9_ex_bits = 1367 /\ count false r9_ex_bits = 1333 /\
  match from_bits r9_ex_cfg r9_ex_bits with
  | Ok bv =>
      wf_b bv = true /\ bv_len bv < 2 ^ 56 /\ lenN (bv_words bv) = 43 /\
      match r9_build r9_ex_cfg bv true true with
      | Ok x =>
          r_h1 (r9_rs x) = Some [3; 6] /\ r_h0 (r9_rs x) = Some [4; 6] /\ lenN (r_brp (r9_rs x)) = 14 /\
          r9_select1 r9_ex_cfg x 1100 = Ok (select true r9_ex_bits 1100) /\
          r9_select0 r9_ex_cfg x 1030 = Ok (select false r9_ex_bits 1030) /\
          r9_select0 r9_ex_cfg x 1030 = Ok (Some 2087) /\
          r9_rank1 r9_ex_cfg x 2499 = Ok (Some 1260) /\
          r9_select1 r9_ex_cfg x 1367 = Ok None
      | Panic => False
      end
  | Panic => False
  end.
Proof. vm_compute. repeat split. Qed.
