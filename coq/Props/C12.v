(* Props/C12.v — PrefixSummedEliasFano is lossless and reports the exact sum.
   Pinned statements only; proofs are in Proofs/PSMain.v (on top of the Elias-Fano proofs
   EFRep / EFQueries / EFBuilder and the generic index iterator IterGeneric).
   The premise about the DArray layer (Model/DArray.v) under which Proofs/PSMain.v is stated is a
   theorem of that layer; it is discharged in Proofs/Integration.v, and the closed versions
   pinned here come from Proofs/Integration2.v.
   Every query argument is an arbitrary N (in particular every usize). *)
From Sucds Require Import Base.Res Spec.BitSpec Spec.SeqSpec Spec.DacSpec
  Model.BitVector Model.DArray Model.EliasFano Model.Psef
  Proofs.BVAbs Proofs.IndexSpecs Proofs.EFRep Proofs.EFBuilder Proofs.IterGeneric
  Proofs.SALemmas Proofs.PSMain Proofs.Integration2.
Open Scope N_scope.

(* from_slice(&[]) is rejected, in every configuration *)
Theorem C12_empty : forall c, ps_from_slice c [] = Ok None.
Proof. exact ps_from_slice_nil. Qed.
Print Assumptions C12_empty.

(* C12, end to end: for every non-empty slice whose sum is below usize::MAX, within the memory
   bound of the Elias-Fano layer (universe sum + 1, n values, l = low_len_of (sum + 1) n: high part
   n + 2 + (sum + 1) / 2^l bits, low part n * l bits, both below 2^56): from_slice succeeds with
   the same value p in every build configuration; len is the number of values, sum the exact sum,
   access returns every value back (None from len on), and the iterator satisfies the index
   iterator contract (Proofs/IterGeneric.v: the values in order, then None forever, exact
   size hints) *)
Theorem C12 :
  forall vals, vals <> [] -> sum_list vals + 1 < W ->
  lenN vals + 2 + (sum_list vals + 1) / 2 ^ low_len_of (sum_list vals + 1) (lenN vals) < 2 ^ 56 /\
  lenN vals * low_len_of (sum_list vals + 1) (lenN vals) < 2 ^ 56 ->
  exists p, (forall c, ps_from_slice c vals = Ok (Some p)) /\
    ps_len p = lenN vals /\
    (forall c, ps_sum c p = Ok (sum_list vals)) /\
    (forall c i, ps_access c p i = Ok (nth_opt vals i)) /\
    (forall c, iter_ok (nth_opt vals) (lenN vals) (ps_iter_next c p)
                       (BitVector.iter_size_hint c (lenN vals))).
Proof. exact ps_correct_closed. Qed.
Print Assumptions C12.

(* the same for fewer than 2^50 values: the capacity premise follows *)
Theorem C12_small :
  forall vals, vals <> [] -> sum_list vals + 1 < W -> lenN vals < 2 ^ 50 ->
  exists p, (forall c, ps_from_slice c vals = Ok (Some p)) /\
    ps_len p = lenN vals /\
    (forall c, ps_sum c p = Ok (sum_list vals)) /\
    (forall c i, ps_access c p i = Ok (nth_opt vals i)) /\
    (forall c, iter_ok (nth_opt vals) (lenN vals) (ps_iter_next c p)
                       (BitVector.iter_size_hint c (lenN vals))).
Proof. exact ps_correct_small_closed. Qed.
Print Assumptions C12_small.

Theorem C12_capacity_small : forall u m, u < W -> 1 <= m -> m < 2 ^ 50 ->
  m + 2 + u / 2 ^ low_len_of u m < 2 ^ 56 /\ m * low_len_of u m < 2 ^ 56.
Proof. exact ef_cap_len. Qed.
Print Assumptions C12_capacity_small.

(* ---- the pieces: `ps_rep p vals` (Proofs/PSMain.v): the Elias-Fano value represents the prefix
   sums of vals with universe sum + 1 ---- *)
Theorem C12_build :
  forall vals, vals <> [] -> sum_list vals + 1 < W ->
  ef_cap (sum_list vals + 1) (lenN vals) ->
  exists p, (forall c, ps_from_slice c vals = Ok (Some p)) /\ ps_rep p vals.
Proof. exact ps_from_slice_ok_closed. Qed.
Print Assumptions C12_build.

(* consecutive differences of the prefix sums are the values *)
Theorem C12_delta_prefix_sums : forall vals k,
  SeqSpec.ef_delta (psums 0 vals) k = nth_opt vals k.
Proof. exact delta_psums. Qed.
Print Assumptions C12_delta_prefix_sums.

Theorem C12_len : forall p vals, ps_rep p vals -> ps_len p = lenN vals.
Proof. exact ps_len_spec. Qed.
Print Assumptions C12_len.

Theorem C12_sum : forall p vals, ps_rep p vals -> forall c, ps_sum c p = Ok (sum_list vals).
Proof. exact ps_sum_spec. Qed.
Print Assumptions C12_sum.

Theorem C12_access : forall p vals, ps_rep p vals ->
  forall c i, ps_access c p i = Ok (nth_opt vals i).
Proof. exact ps_access_spec. Qed.
Print Assumptions C12_access.

Theorem C12_iter : forall p vals, ps_rep p vals -> forall c, lenN vals < 2 ^ 56 ->
  iter_ok (nth_opt vals) (lenN vals) (ps_iter_next c p) (BitVector.iter_size_hint c (lenN vals)).
Proof. exact ps_iter_ok. Qed.
Print Assumptions C12_iter.

(* ---- concrete slices: zeros around a value, a single value at the largest admissible sum
   (usize::MAX - 1), all zeros, and eight mixed values; every index 0 .. n-1 and the iterator ---- *)
Definition c12_run (c : cfg) (vals : list N) (n : nat) :=
  p <- ps_from_slice c vals ;;
  match p with
  | None => Ok None
  | Some p =>
      s <- ps_sum c p ;; a <- map_res (ps_access c p) (nseq (N.of_nat n)) ;;
      it <- mrun (ps_iter_next c p) n 0 ;;
      Ok (Some (ps_len p, s, a, snd it))
  end.
Definition c12_spec (vals : list N) (n : nat) :=
  Some (lenN vals, sum_list vals, map (nth_opt vals) (nseq (N.of_nat n)),
        map Some vals ++ repeat None (n - length vals)).
Example C12_example :
  (forall c, In c [{| dbg := true; intr := false |}; {| dbg := false; intr := true |}] ->
     c12_run c [0; 0; 5; 0] 6 = Ok (c12_spec [0; 0; 5; 0] 6) /\
     c12_run c [18446744073709551614] 3 = Ok (c12_spec [18446744073709551614] 3) /\
     c12_run c [0; 0; 0] 5 = Ok (c12_spec [0; 0; 0] 5) /\
     c12_run c [3; 1; 4; 1; 5; 9; 2; 6] 10 = Ok (c12_spec [3; 1; 4; 1; 5; 9; 2; 6] 10) /\
     c12_run c [] 3 = Ok None) /\
  c12_spec [0; 0; 5; 0] 6
  = Some (4, 5, [Some 0; Some 0; Some 5; Some 0; None; None],
          [Some 0; Some 0; Some 5; Some 0; None; None]).
Proof.
  split; [|vm_compute; reflexivity].
  intros c [<-|[<-|[]]]; vm_compute; repeat split.
Qed.
