(* Proofs/C14_Uleq9.v — uleq_step_9 on seven packed 9-bit fields compares field by field
   (used by the Rank9 select proofs; part of C14). *)
From Sucds Require Import Base.Res Spec.WordSpec gen.BroadwordGen Proofs.ResLemmas Proofs.C14_Bits.
From Coq Require Import ZArith ZifyN ZifyBool ZifyNat Lia.
Ltac Zify.zify_post_hook ::= Z.div_mod_to_equations.
Open Scope N_scope.

Definition pack9 : list N -> N := pack 9.

(* the per-field function computed by uleq_step_9 *)
Definition uleq9_lane (a b : N) : N :=
  N.land (N.shiftr (N.lxor (N.lor (N.lor b 256 - N.land a 255) (N.lxor a b)) (N.land a (N.lxor b 511))) 8) 1.

Definition uleq9_check (p : N) : bool :=
  let a := p mod 512 in let b := p / 512 in
  (N.land a 255 <=? N.lor b 256) && (uleq9_lane a b =? (if a <=? b then 1 else 0)).

Lemma uleq9_check_all : forall p, p < 2 ^ 18 -> uleq9_check p = true.
Proof. apply (forall_lt_pow2_sound 18). vm_compute. reflexivity. Qed.

Lemma uleq9_lane_ok a b : a < 2 ^ 9 -> b < 2 ^ 9 ->
  N.land a 255 <= N.lor b 256 /\ uleq9_lane a b = if a <=? b then 1 else 0.
Proof.
  change (2 ^ 9) with 512. intros Ha Hb.
  assert (Hp : a + 512 * b < 2 ^ 18) by (change (2 ^ 18) with 262144; lia).
  pose proof (uleq9_check_all _ Hp) as C. unfold uleq9_check in C. cbv zeta in C.
  replace ((a + 512 * b) mod 512) with a in C by lia.
  replace ((a + 512 * b) / 512) with b in C by lia.
  apply andb_prop in C. destruct C as [C1 C2]. apply N.leb_le in C1. apply N.eqb_eq in C2. auto.
Qed.

Ltac lane_lt :=
  match goal with
  | |- N.land _ _ < 2 ^ 9 => apply land_lt; lane_lt
  | |- N.lor _ _ < 2 ^ 9 => apply lor_lt; lane_lt
  | |- N.lxor _ _ < 2 ^ 9 => apply lxor_lt; lane_lt
  | |- _ - _ < 2 ^ 9 => eapply N.le_lt_trans; [apply N.le_sub_l | lane_lt]
  | |- _ => first [assumption | (vm_compute; reflexivity)]
  end.
Ltac lanes_tac := repeat (apply lanes_cons; split); [lane_lt .. | constructor].

Lemma uleq_step_9_explicit c x0 x1 x2 x3 x4 x5 x6 y0 y1 y2 y3 y4 y5 y6 :
  lanes 9 [x0; x1; x2; x3; x4; x5; x6] -> lanes 9 [y0; y1; y2; y3; y4; y5; y6] ->
  uleq_step_9 c (pack9 [x0; x1; x2; x3; x4; x5; x6]) (pack9 [y0; y1; y2; y3; y4; y5; y6]) =
  Ok (pack9 (zip (fun a b => if a <=? b then 1 else 0)
               [x0; x1; x2; x3; x4; x5; x6] [y0; y1; y2; y3; y4; y5; y6])).
Proof.
  intros Hx Hy.
  repeat (apply lanes_cons in Hx; destruct Hx as [? Hx]).
  repeat (apply lanes_cons in Hy; destruct Hy as [? Hy]).
  unfold pack9.
  replace (pack 9 [x0; x1; x2; x3; x4; x5; x6]) with (pack 9 [x0; x1; x2; x3; x4; x5; x6; 0])
    by (cbn [pack]; change (2 ^ 9) with 512; lia).
  replace (pack 9 [y0; y1; y2; y3; y4; y5; y6]) with (pack 9 [y0; y1; y2; y3; y4; y5; y6; 0])
    by (cbn [pack]; change (2 ^ 9) with 512; lia).
  cbn [zip].
  match goal with |- _ = Ok (pack 9 [?r0; ?r1; ?r2; ?r3; ?r4; ?r5; ?r6]) =>
    replace (pack 9 [r0; r1; r2; r3; r4; r5; r6]) with (pack 9 [r0; r1; r2; r3; r4; r5; r6; 0])
      by (cbn [pack]; change (2 ^ 9) with 512; lia) end.
  unfold uleq_step_9.
  change (not64 MSBS_STEP_9) with (pack 9 [255; 255; 255; 255; 255; 255; 255; 1]).
  change MSBS_STEP_9 with (pack 9 [256; 256; 256; 256; 256; 256; 256; 0]).
  unfold not64. change MASK64 with (pack 9 [511; 511; 511; 511; 511; 511; 511; 1]).
  rewrite (lxor_pack 9 [y0; y1; y2; y3; y4; y5; y6; 0]) by (try reflexivity; lanes_tac). cbn [zip].
  rewrite (lor_pack 9 [y0; y1; y2; y3; y4; y5; y6; 0]) by (try reflexivity; lanes_tac). cbn [zip].
  rewrite (land_pack 9 [x0; x1; x2; x3; x4; x5; x6; 0]) by (try reflexivity; lanes_tac). cbn [zip].
  rewrite (land_pack 9 [x0; x1; x2; x3; x4; x5; x6; 0]) by (try reflexivity; lanes_tac). cbn [zip].
  rewrite (lxor_pack 9 [x0; x1; x2; x3; x4; x5; x6; 0]) by (try reflexivity; lanes_tac). cbn [zip].
  assert (F : Forall2 N.le
    [N.land x0 255; N.land x1 255; N.land x2 255; N.land x3 255; N.land x4 255; N.land x5 255; N.land x6 255; N.land 0 1]
    [N.lor y0 256; N.lor y1 256; N.lor y2 256; N.lor y3 256; N.lor y4 256; N.lor y5 256; N.lor y6 256; N.lor 0 0]).
  { repeat constructor; try (apply uleq9_lane_ok; assumption). vm_compute. discriminate. }
  rewrite sub_ok by (apply pack_le, F). cbn [bind].
  rewrite sub_pack by exact F. cbn [zip].
  rewrite lor_pack by (try reflexivity; lanes_tac). cbn [zip].
  rewrite lxor_pack by (try reflexivity; lanes_tac). cbn [zip].
  rewrite shr_ok by lia. cbn [bind].
  rewrite <- N.shiftr_div_pow2, N.shiftr_land.
  change (N.shiftr (pack 9 [256; 256; 256; 256; 256; 256; 256; 0]) 8) with (pack 9 [1; 1; 1; 1; 1; 1; 1; 0]).
  rewrite shr_land_pack.
  2:{ lanes_tac. }
  2:{ lia. }
  2:{ repeat constructor. }
  2:{ reflexivity. }
  cbn [zip].
  repeat match goal with |- context [if ?a <=? ?b then 1 else 0] =>
    rewrite <- (proj2 (uleq9_lane_ok a b ltac:(assumption) ltac:(assumption))) end.
  reflexivity.
Qed.

Theorem uleq_step_9_fields : forall c xs ys,
  length xs = 7%nat -> length ys = 7%nat ->
  Forall (fun f => f < 512) xs -> Forall (fun f => f < 512) ys ->
  uleq_step_9 c (pack9 xs) (pack9 ys) =
  Ok (pack9 (zip (fun a b => if a <=? b then 1 else 0) xs ys)).
Proof.
  intros c xs ys Hlx Hly Hx Hy.
  destruct xs as [|x0 [|x1 [|x2 [|x3 [|x4 [|x5 [|x6 [|x7 xs]]]]]]]]; cbn [length] in Hlx; try discriminate.
  destruct ys as [|y0 [|y1 [|y2 [|y3 [|y4 [|y5 [|y6 [|y7 ys]]]]]]]]; cbn [length] in Hly; try discriminate.
  apply uleq_step_9_explicit; assumption.
Qed.

(* the packed value has bit 63 clear, hence is a usize *)
Lemma pack9_lt l : length l = 7%nat -> Forall (fun f => f < 512) l -> pack9 l < 2 ^ 63.
Proof. intros Hn Hl. pose proof (pack_lt 9 l Hl) as H. rewrite Hn in H. exact H. Qed.
