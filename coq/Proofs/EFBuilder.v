(* Proofs/EFBuilder.v — property C16: EliasFanoBuilder accepts exactly the valid pushes
   (SeqSpec.efb_accepts), a rejected push leaves it unchanged, extend stops at the first rejected
   item, and build yields an Elias-Fano value representing exactly the accepted values. *)
From Sucds Require Import Base.Res Spec.WordSpec Spec.BitSpec Spec.SeqSpec
  Model.BitVector Model.DArray Model.EliasFano
  Proofs.ResLemmas Proofs.BVAbs Proofs.WordLemmas Proofs.BVReads Proofs.BVReads2
  Proofs.BVMutLemmas Proofs.BVMut Proofs.BVHistory Proofs.IndexSpecs Proofs.EFRep Proofs.EFQueries.
From Coq Require Import ZArith ZifyN ZifyBool ZifyNat Lia.
Ltac Zify.zify_post_hook ::= Z.div_mod_to_equations.
Open Scope N_scope.

(* ---------- histories of builder operations ---------- *)

Inductive efop := EPush (v : N) | EExtend (vs : list N).

(* specification: the state is the list of accepted values *)
Fixpoint spec_extend (u m : N) (acc : list N) (vs : list N) : list N * bool :=
  match vs with
  | [] => (acc, true)
  | v :: r => if efb_accepts u m acc v then spec_extend u m (acc ++ [v]) r else (acc, false)
  end.
Definition spec_apply (u m : N) (acc : list N) (o : efop) : list N * bool :=
  match o with
  | EPush v => if efb_accepts u m acc v then (acc ++ [v], true) else (acc, false)
  | EExtend vs => spec_extend u m acc vs
  end.
Fixpoint spec_run (u m : N) (acc : list N) (ops : list efop) : list N * list bool :=
  match ops with
  | [] => (acc, [])
  | o :: r => let '(acc', ok) := spec_apply u m acc o in
              let '(acc'', oks) := spec_run u m acc' r in (acc'', ok :: oks)
  end.

Definition model_apply (c : cfg) (b : efbuilder) (o : efop) : res (efbuilder * bool) :=
  match o with EPush v => efb_push c b v | EExtend vs => efb_extend c b vs end.
Fixpoint model_run (c : cfg) (b : efbuilder) (ops : list efop) : res (efbuilder * list bool) :=
  match ops with
  | [] => Ok (b, [])
  | o :: r => s <- model_apply c b o ;; t <- model_run c (fst s) r ;; Ok (fst t, snd s :: snd t)
  end.

(* ---------- low_len ---------- *)

Definition low_len_of (u m : N) : N := match msb_spec (u / m) with Some l => l | None => 0 end.

Lemma low_len_lt u m : u < W -> 1 <= m -> low_len_of u m < 64.
Proof.
  intros Hu Hm. unfold low_len_of. destruct (msb_spec (u / m)) as [l|] eqn:E; [|lia].
  destruct (msb_spec_Some _ _ E) as [Hb _]. apply (testbit_true_lt64 (u / m)); [|exact Hb].
  assert (u / m <= u) by (apply N.div_le_upper_bound; nia). lia.
Qed.

Lemma low_len_small u m : u < m -> low_len_of u m = 0.
Proof. intro H. unfold low_len_of. rewrite N.div_small by exact H. reflexivity. Qed.

Lemma low_len_bounds u m : 1 <= m -> m <= u ->
  2 ^ low_len_of u m <= u / m < 2 ^ (low_len_of u m + 1).
Proof.
  intros Hm Hu. unfold low_len_of, msb_spec.
  assert (Hq : 0 < u / m) by (apply N.div_str_pos; lia).
  destruct (N.eqb_spec (u / m) 0) as [?|_]; [lia|].
  rewrite N.add_1_r. apply N.log2_spec. exact Hq.
Qed.

(* ---------- the builder invariant ---------- *)

Record efb_inv (b : efbuilder) (acc : list N) (u m : N) : Prop := {
  bi_univ : b_universe b = u;
  bi_num : b_num_vals b = m;
  bi_pos : b_pos b = lenN acc;
  bi_last : b_last b = last_or 0 acc;
  bi_ll : b_low_len b = low_len_of u m;
  bi_sorted : nondec acc;
  bi_bound : Forall (fun x => x < u) acc;
  bi_len : lenN acc <= m;
  bi_hwf : wf (b_high b);
  bi_hlen : bv_len (b_high b) = m + 2 + u / 2 ^ low_len_of u m;
  bi_hbits : forall i, nth (N.to_nat i) (bits_of (b_high b)) false = true <->
                       In i (hpos_from (low_len_of u m) acc 0);
  bi_lwf : wf (b_low b);
  bi_lows : bits_of (b_low b) = lows (low_len_of u m) acc }.

Lemma efb_new_zero c u : efb_new c u 0 = Ok None.
Proof. reflexivity. Qed.

Lemma accepts_iff u m acc v :
  efb_accepts u m acc v = true <-> last_or 0 acc <= v /\ v < u /\ lenN acc < m.
Proof.
  unfold efb_accepts, last_or. rewrite !andb_true_iff, N.ltb_lt, N.ltb_lt.
  destruct (last_opt acc) as [x|]; [rewrite N.leb_le|].
  all: intuition lia.
Qed.

Section Builder.
Variables (u m : N).
Hypothesis Hu : u < W.
Hypothesis Hm : 1 <= m.
Notation l := (low_len_of u m).
Hypothesis Hcap1 : m + 2 + u / 2 ^ l < 2 ^ 56.
Hypothesis Hcap2 : m * l < 2 ^ 56.

Lemma Hl : l < 64. Proof. apply low_len_lt; assumption. Qed.

Lemma efb_new_ok c : exists b, efb_new c u m = Ok (Some b) /\ efb_inv b [] u m.
Proof.
  unfold efb_new. destruct (N.eqb_spec m 0) as [?|_]; [lia|].
  rewrite div_ok by lia. cbn [bind]. fold l.
  assert (Hc : m + 2 + u / 2 ^ l < 72057594037927936) by exact Hcap1.
  rewrite add_ok by (unfold W; hlia). cbn [bind]. rewrite shr_ok by exact Hl. cbn [bind].
  rewrite add_ok by (unfold W; hlia). cbn [bind]. rewrite add_ok by (unfold W; hlia). cbn [bind].
  destruct (from_bit_spec c false (m + 1 + u / 2 ^ l + 1)) as [bv [E [Hwf Hb]]].
  { change (2 ^ 56) with 72057594037927936. hlia. }
  rewrite E. cbn [bind]. eexists. split; [reflexivity|].
  constructor; cbn [b_universe b_num_vals b_pos b_last b_low_len b_high b_low]; try reflexivity.
  - constructor.
  - rewrite lenN_nil. lia.
  - exact Hwf.
  - rewrite <- (bits_of_length bv Hwf), Hb, lenN_repeatN. hlia.
  - intro i. rewrite Hb, nthN_repeat_spec, andb_false_r. cbn [hpos_from In]. split; [discriminate | tauto].
  - exact wf_empty.
Qed.

(* the low part of an accepted push *)
Lemma push_low_ok c low acc v : wf low -> bits_of low = lows l acc -> lenN acc < m ->
  exists low',
    (if negb (l =? 0) then
       (r <- push_bits c low (N.land v (2 ^ l - 1)) l ;; _ <- assert_ (snd r) ;; Ok (fst r))
     else Ok low) = Ok low' /\ wf low' /\ bits_of low' = lows l (acc ++ [v]).
Proof.
  intros Hwf Hb Hlen. pose proof Hl as Hl. rewrite lows_snoc.
  destruct (N.eqb_spec l 0) as [E0|E0]; cbn [negb].
  - exists low. split; [reflexivity|]. split; [exact Hwf|]. rewrite E0. change (N.to_nat 0) with 0%nat.
    cbn [low_bits]. rewrite app_nil_r. rewrite E0 in Hb. exact Hb.
  - assert (Eop : apply_op (bits_of low) (OPushBits (N.land v (2 ^ l - 1)) l)
                  = (bits_of low ++ low_bits (N.to_nat l) (N.land v (2 ^ l - 1)), true)).
    { cbn [apply_op]. destruct (N.leb_spec l 64); [reflexivity | lia]. }
    destruct (push_bits_spec c low (N.land v (2 ^ l - 1)) l Hwf) as [bv' [ok [E [Hwf' [Hb' [Hok _]]]]]].
    { rewrite Eop. cbn [fst]. rewrite lenN_app, lenN_low_bits, Hb, lows_len.
      assert (lenN acc * l + l <= m * l).
      { replace (lenN acc * l + l) with ((lenN acc + 1) * l) by lia. apply N.mul_le_mono_r. lia. }
      lia. }
    rewrite Eop in Hb', Hok. cbn [fst snd] in Hb', Hok. subst ok.
    rewrite E. cbn [bind snd fst assert_]. exists bv'. split; [reflexivity|]. split; [exact Hwf'|].
    rewrite Hb', Hb. f_equal.
    replace (2 ^ l - 1) with (N.ones l) by (rewrite N.ones_equiv; lia).
    rewrite <- (N2Nat.id l) at 2. apply low_bits_land_ones.
Qed.

Lemma efb_push_accept c b acc v : efb_inv b acc u m -> efb_accepts u m acc v = true ->
  exists b', efb_push c b v = Ok (b', true) /\ efb_inv b' (acc ++ [v]) u m.
Proof.
  intros I Hacc. apply accepts_iff in Hacc. destruct Hacc as [Hlast [Hvu Hlen]].
  pose proof Hl as Hl.
  assert (Hc : m + 2 + u / 2 ^ l < 72057594037927936) by exact Hcap1.
  unfold efb_push. rewrite (bi_last _ _ _ _ I), (bi_univ _ _ _ _ I), (bi_num _ _ _ _ I), (bi_pos _ _ _ _ I), (bi_ll _ _ _ _ I).
  destruct (N.ltb_spec v (last_or 0 acc)) as [?|_]; [lia|].
  destruct (N.leb_spec u v) as [?|_]; [lia|].
  destruct (N.leb_spec m (lenN acc)) as [?|_]; [lia|].
  rewrite shl1_ok by exact Hl. cbn [bind]. pose proof (pow2_pos l). rewrite sub_ok by lia. cbn [bind].
  destruct (push_low_ok c (b_low b) acc v (bi_lwf _ _ _ _ I) (bi_lows _ _ _ _ I) Hlen) as [low' [El [Hlwf Hlb]]].
  rewrite El. cbn [bind]. rewrite shr_ok by exact Hl. cbn [bind].
  pose proof (div_pow2_mono v u l ltac:(lia)) as Hq.
  rewrite add_ok by (unfold W; hlia). cbn [bind].
  pose proof (bi_hwf _ _ _ _ I) as Hhwf. pose proof (bi_hlen _ _ _ _ I) as Hhlen.
  pose proof (bits_of_length _ Hhwf) as HBlen.
  assert (Hp : v / 2 ^ l + lenN acc < lenN (bits_of (b_high b))) by (rewrite HBlen, Hhlen; hlia).
  destruct (set_bit_spec c (b_high b) (v / 2 ^ l + lenN acc) true Hhwf) as [bv' [ok [E [Hwf' [Hb' [Hok _]]]]]].
  cbn [apply_op] in Hb', Hok.
  destruct (N.ltb_spec (v / 2 ^ l + lenN acc) (lenN (bits_of (b_high b)))) as [_|?]; [|lia].
  cbn [fst snd] in Hb', Hok. subst ok. rewrite E. cbn [bind snd fst assert_].
  rewrite add_ok by (unfold W; hlia). cbn [bind].
  eexists. split; [reflexivity|].
  constructor; cbn [b_universe b_num_vals b_pos b_last b_low_len b_high b_low]; try reflexivity.
  - rewrite lenN_app. reflexivity.
  - rewrite last_or_snoc. reflexivity.
  - apply nondec_from_snoc; [exact (bi_sorted _ _ _ _ I) | exact Hlast].
  - apply Forall_app. split; [exact (bi_bound _ _ _ _ I) | constructor; [exact Hvu | constructor]].
  - rewrite lenN_app. change (lenN [v]) with 1. lia.
  - exact Hwf'.
  - rewrite <- (bits_of_length _ Hwf'), Hb', lenN_overwrite by (change (lenN [true]) with 1; lia).
    rewrite HBlen. exact Hhlen.
  - intro i. rewrite Hb', nthN_overwrite_one_spec by exact Hp.
    rewrite hpos_from_snoc, in_app_iff, N.add_0_r. cbn [In].
    destruct (N.eqb_spec i (v / 2 ^ l + lenN acc)) as [Ei|Ei].
    + split; [intros _; right; left; symmetry; exact Ei | reflexivity].
    + rewrite (bi_hbits _ _ _ _ I). split; [intro H0; left; exact H0|].
      intros [H0|[H0|[]]]; [exact H0 | exfalso; apply Ei; symmetry; exact H0].
  - exact Hlwf.
  - exact Hlb.
Qed.

Lemma efb_push_reject c b acc v : efb_inv b acc u m -> efb_accepts u m acc v = false ->
  efb_push c b v = Ok (b, false).
Proof.
  intros I Hrej. unfold efb_push.
  rewrite (bi_last _ _ _ _ I), (bi_univ _ _ _ _ I), (bi_num _ _ _ _ I), (bi_pos _ _ _ _ I).
  destruct (N.ltb_spec v (last_or 0 acc)) as [?|H1]; [reflexivity|].
  destruct (N.leb_spec u v) as [?|H2]; [reflexivity|].
  destruct (N.leb_spec m (lenN acc)) as [?|H3]; [reflexivity|].
  exfalso. assert (efb_accepts u m acc v = true) as G by (apply accepts_iff; lia).
  rewrite G in Hrej. discriminate.
Qed.

Lemma efb_push_spec c b acc v : efb_inv b acc u m ->
  exists b', efb_push c b v = Ok (b', snd (spec_apply u m acc (EPush v))) /\
             efb_inv b' (fst (spec_apply u m acc (EPush v))) u m /\
             (efb_accepts u m acc v = false -> b' = b).
Proof.
  intro I. cbn [spec_apply]. destruct (efb_accepts u m acc v) eqn:E; cbn [fst snd].
  - destruct (efb_push_accept c b acc v I E) as [b' [E' I']]. exists b'. split; [exact E'|]. split; [exact I' | discriminate].
  - exists b. split; [apply (efb_push_reject c b acc v I E)|]. split; [exact I | reflexivity].
Qed.

Lemma efb_extend_spec c vs : forall b acc, efb_inv b acc u m ->
  exists b', efb_extend c b vs = Ok (b', snd (spec_extend u m acc vs)) /\
             efb_inv b' (fst (spec_extend u m acc vs)) u m.
Proof.
  induction vs as [|v r IH]; intros b acc I.
  - exists b. split; [reflexivity | exact I].
  - cbn [efb_extend spec_extend]. destruct (efb_accepts u m acc v) eqn:E.
    + destruct (efb_push_accept c b acc v I E) as [b1 [E1 I1]]. rewrite E1. cbn [bind snd fst].
      apply IH. exact I1.
    + rewrite (efb_push_reject c b acc v I E). cbn [bind snd fst]. exists b. split; [reflexivity | exact I].
Qed.

Lemma model_apply_spec c b acc o : efb_inv b acc u m ->
  exists b', model_apply c b o = Ok (b', snd (spec_apply u m acc o)) /\
             efb_inv b' (fst (spec_apply u m acc o)) u m.
Proof.
  intro I. destruct o as [v|vs].
  - destruct (efb_push_spec c b acc v I) as [b' [E [I' _]]]. exists b'. split; assumption.
  - apply efb_extend_spec. exact I.
Qed.

Lemma model_run_spec c ops : forall b acc, efb_inv b acc u m ->
  exists b', model_run c b ops = Ok (b', snd (spec_run u m acc ops)) /\
             efb_inv b' (fst (spec_run u m acc ops)) u m.
Proof.
  induction ops as [|o r IH]; intros b acc I.
  - exists b. split; [reflexivity | exact I].
  - cbn [model_run spec_run]. destruct (model_apply_spec c b acc o I) as [b1 [E1 I1]].
    rewrite E1. cbn [bind fst snd]. destruct (spec_apply u m acc o) as [acc1 ok1]. cbn [fst snd] in *.
    destruct (IH b1 acc1 I1) as [b2 [E2 I2]]. rewrite E2. cbn [bind fst snd].
    destruct (spec_run u m acc1 r) as [acc2 oks]. cbn [fst snd] in *.
    exists b2. split; [reflexivity | exact I2].
Qed.

(* the history theorem: from `new`, any sequence of push / extend calls *)
Theorem efb_history c ops :
  exists b0 b, efb_new c u m = Ok (Some b0) /\
    model_run c b0 ops = Ok (b, snd (spec_run u m [] ops)) /\
    efb_inv b (fst (spec_run u m [] ops)) u m.
Proof.
  destruct (efb_new_ok c) as [b0 [E0 I0]]. destruct (model_run_spec c ops b0 [] I0) as [b [E I]].
  exists b0, b. split; [exact E0 | split; [exact E | exact I]].
Qed.

End Builder.

(* the builder value is determined by (u, m, accepted list) *)
Lemma efb_inv_unique b b' acc u m : efb_inv b acc u m -> efb_inv b' acc u m -> b' = b.
Proof.
  intros I I'.
  destruct b as [h1 l1 u1 n1 p1 a1 ll1], b' as [h2 l2 u2 n2 p2 a2 ll2].
  pose proof (bi_univ _ _ _ _ I) as A1. pose proof (bi_univ _ _ _ _ I') as A2.
  pose proof (bi_num _ _ _ _ I) as B1. pose proof (bi_num _ _ _ _ I') as B2.
  pose proof (bi_pos _ _ _ _ I) as C1. pose proof (bi_pos _ _ _ _ I') as C2.
  pose proof (bi_last _ _ _ _ I) as D1. pose proof (bi_last _ _ _ _ I') as D2.
  pose proof (bi_ll _ _ _ _ I) as F1. pose proof (bi_ll _ _ _ _ I') as F2.
  cbn [b_universe b_num_vals b_pos b_last b_low_len] in *. subst.
  assert (h2 = h1).
  { apply canonical; [exact (bi_hwf _ _ _ _ I') | exact (bi_hwf _ _ _ _ I)|].
    apply (nth_ext _ _ false false).
    - pose proof (bits_of_length _ (bi_hwf _ _ _ _ I')) as L2. pose proof (bits_of_length _ (bi_hwf _ _ _ _ I)) as L1.
      pose proof (bi_hlen _ _ _ _ I') as G2. pose proof (bi_hlen _ _ _ _ I) as G1.
      cbn [b_high] in *. unfold lenN in *. lia.
    - intros n _. pose proof (bi_hbits _ _ _ _ I' (N.of_nat n)) as G2. pose proof (bi_hbits _ _ _ _ I (N.of_nat n)) as G1.
      cbn [b_high] in *. rewrite Nat2N.id in G1, G2.
      destruct (nth n (bits_of h2) false), (nth n (bits_of h1) false); try reflexivity.
      + symmetry. apply G1, G2. reflexivity.
      + apply G2, G1. reflexivity. }
  assert (l2 = l1).
  { apply canonical; [exact (bi_lwf _ _ _ _ I') | exact (bi_lwf _ _ _ _ I)|].
    pose proof (bi_lows _ _ _ _ I') as G2. pose proof (bi_lows _ _ _ _ I) as G1.
    cbn [b_low] in G1, G2. rewrite G1, G2. reflexivity. }
  subst. reflexivity.
Qed.

(* a non-decreasing sequence below u that fits the capacity is accepted entirely *)
Lemma spec_extend_all u m xs : forall acc, nondec_from (last_or 0 acc) xs ->
  Forall (fun x => x < u) xs -> lenN acc + lenN xs <= m ->
  spec_extend u m acc xs = (acc ++ xs, true).
Proof.
  induction xs as [|v r IH]; intros acc Hs Hb Hl.
  - cbn [spec_extend]. rewrite app_nil_r. reflexivity.
  - destruct Hs as [H1 H2]. rewrite lenN_cons in Hl. cbn [spec_extend].
    assert (E : efb_accepts u m acc v = true).
    { apply accepts_iff. inversion Hb; subst. lia. }
    rewrite E. rewrite IH.
    + rewrite <- app_assoc. reflexivity.
    + rewrite last_or_snoc. exact H2.
    + inversion Hb; assumption.
    + rewrite lenN_app. change (lenN [v]) with 1. lia.
Qed.

(* ---------- build ---------- *)

Lemma map_res_seq (f : N -> res bool) : forall (bits : list bool) a,
  (forall i, (i < length bits)%nat -> f (N.of_nat (a + i)) = Ok (nth i bits false)) ->
  map_res f (map N.of_nat (seq a (length bits))) = Ok bits.
Proof.
  induction bits as [|b bits IH]; intros a H; [reflexivity|].
  cbn [length seq map map_res]. pose proof (H 0%nat ltac:(cbn [length]; lia)) as H0.
  rewrite Nat.add_0_r in H0. rewrite H0. cbn [bind nth]. rewrite IH; [reflexivity|].
  intros i Hi. specialize (H (S i) ltac:(cbn [length]; lia)). cbn [nth] in H.
  replace (S a + i)%nat with (a + S i)%nat by lia. exact H.
Qed.

Lemma bv_bits_ok c bv : wf bv -> cap_ok bv -> bv_bits c bv = Ok (bits_of bv).
Proof.
  intros Hwf Hcap. unfold bv_bits. rewrite ?nseq_unfold. rewrite <- (bits_of_length_nat bv Hwf).
  apply map_res_seq. intros i Hi. rewrite Nat.add_0_l.
  pose proof (bits_of_length_nat bv Hwf) as HL. pose proof (cap_W bv Hcap) as Hc.
  rewrite get_bit_spec; [| exact Hwf | exact Hcap | unfold W; lia]. cbn [bind].
  unfold BitSpec.access. destruct (N.ltb_spec (N.of_nat i) (lenN (bits_of bv))) as [_|H]; [|unfold lenN in H; lia].
  rewrite Nat2N.id, (nth_error_nth' _ false Hi). reflexivity.
Qed.

(* the DArray layer, proved separately (Proofs for Model/DArray.v) *)
Definition DA_FROM_BITS_OK : Prop := forall bits, lenN bits < 2 ^ 56 ->
  exists d, (forall c, da_from_bits c bits = Ok d) /\ bits_of (da_bv d) = bits /\
            da_s0 d = None /\ da_r9 d = None /\ (forall c, da_correct c d).
Definition DA_ENABLE_SELECT0_OK : Prop := forall d, (forall c, da_correct c d) -> cap_ok (da_bv d) ->
  exists d', (forall c, da_enable_select0 c d = Ok d') /\ da_bv d' = da_bv d /\
             da_s0 d' <> None /\ da_r9 d' = da_r9 d /\ (forall c, da_correct c d').

Section Build.
Hypothesis da_from_bits_ok : DA_FROM_BITS_OK.
Hypothesis da_enable_select0_ok : DA_ENABLE_SELECT0_OK.

Theorem efb_build_ok u m b acc : u < W -> 1 <= m ->
  m + 2 + u / 2 ^ low_len_of u m < 2 ^ 56 -> m * low_len_of u m < 2 ^ 56 ->
  efb_inv b acc u m ->
  exists e, (forall c, efb_build c b = Ok e) /\ ef_rep e acc u /\
            da_bv (ef_high e) = b_high b /\ ef_low e = b_low b.
Proof.
  intros Hu Hm Hcap1 Hcap2 I. set (l := low_len_of u m) in *.
  pose proof (bi_hwf _ _ _ _ I) as Hhwf. pose proof (bi_hlen _ _ _ _ I) as Hhlen. fold l in Hhlen.
  assert (Hhcap : cap_ok (b_high b)) by (unfold cap_ok; rewrite Hhlen; exact Hcap1).
  destruct (da_from_bits_ok (bits_of (b_high b))) as [d [Ed [Hbits [_ [_ Hda]]]]].
  { rewrite (bits_of_length _ Hhwf). exact Hhcap. }
  assert (Hdwf : wf (da_bv d)) by (destruct (Hda {| dbg := true; intr := false |}) as [H _]; exact H).
  assert (Hcanon : da_bv d = b_high b) by (apply canonical; assumption).
  exists {| ef_high := d; ef_low := b_low b; ef_low_len := b_low_len b; ef_universe := b_universe b |}.
  split; [|split; [|split; [exact Hcanon | reflexivity]]].
  - intro c. unfold efb_build. rewrite (bv_bits_ok c _ Hhwf Hhcap). cbn [bind]. rewrite Ed. reflexivity.
  - constructor; cbn [ef_high ef_low ef_low_len ef_universe]; rewrite ?(bi_ll _ _ _ _ I); fold l.
    + exact (bi_univ _ _ _ _ I).
    + exact Hu.
    + apply low_len_lt; assumption.
    + exact (bi_sorted _ _ _ _ I).
    + exact (bi_bound _ _ _ _ I).
    + exact Hda.
    + rewrite Hcanon. exact Hhcap.
    + rewrite Hbits. unfold positions. apply positions_unique.
      * apply (incr_from_weaken (0 / 2 ^ l + 0)); [apply N.le_0_l|]. apply hpos_incr. exact (bi_sorted _ _ _ _ I).
      * intro q. rewrite N.sub_0_r, <- nth_true_iff, (bi_hbits _ _ _ _ I). fold l.
        split; [intro H; split; [lia | exact H] | intros [_ H]; exact H].
    + rewrite Hcanon, Hhlen. pose proof (bi_len _ _ _ _ I). hlia.
    + exact (bi_lwf _ _ _ _ I).
    + unfold cap_ok. rewrite <- (bits_of_length _ (bi_lwf _ _ _ _ I)), (bi_lows _ _ _ _ I), lows_len. fold l.
      assert (lenN acc * l <= m * l) by (apply N.mul_le_mono_r; exact (bi_len _ _ _ _ I)). lia.
    + exact (bi_lows _ _ _ _ I).
Qed.

Theorem ef_enable_rank_ok e xs u : ef_rep e xs u ->
  exists e', (forall c, ef_enable_rank c e = Ok e') /\ ef_rep e' xs u /\ da_s0 (ef_high e') <> None.
Proof.
  intro R. destruct (da_enable_select0_ok (ef_high e) (rep_da _ _ _ R) (rep_hcap _ _ _ R))
    as [d' [Ed [Hbv [Hs0 [_ Hda]]]]].
  exists {| ef_high := d'; ef_low := ef_low e; ef_low_len := ef_low_len e; ef_universe := ef_universe e |}.
  split; [|split; [|exact Hs0]].
  - intro c. unfold ef_enable_rank. rewrite Ed. reflexivity.
  - constructor; cbn [ef_high ef_low ef_low_len ef_universe]; rewrite ?Hbv; try apply R. exact Hda.
Qed.

(* C16, end to end: new, any history of pushes / extends, build; then the built value holds
   exactly the accepted values *)
Theorem efb_build_history u m ops : u < W -> 1 <= m ->
  m + 2 + u / 2 ^ low_len_of u m < 2 ^ 56 -> m * low_len_of u m < 2 ^ 56 ->
  let acc := fst (spec_run u m [] ops) in
  exists e, ef_rep e acc u /\
    (forall c, exists b0 b, efb_new c u m = Ok (Some b0) /\
       model_run c b0 ops = Ok (b, snd (spec_run u m [] ops)) /\
       efb_inv b acc u m /\ efb_build c b = Ok e) /\
    ef_len e = lenN acc /\ ef_universe e = u /\
    (forall c k, ef_select c e k = Ok (SeqSpec.ef_select acc k)).
Proof.
  intros Hu Hm Hcap1 Hcap2 acc.
  destruct (efb_history u m Hu Hm Hcap1 Hcap2 {| dbg := true; intr := false |} ops) as [b0 [b [E0 [E1 I]]]].
  fold acc in I.
  destruct (efb_build_ok u m b acc Hu Hm Hcap1 Hcap2 I) as [e [Eb [R [Hh Hlow]]]].
  exists e. split; [exact R|]. split; [|split; [exact (rep_len _ _ _ R) | split; [exact (rep_univ _ _ _ R)|]]].
  - intro c. destruct (efb_history u m Hu Hm Hcap1 Hcap2 c ops) as [b0' [b' [E0' [E1' I']]]].
    fold acc in I'. exists b0', b'. split; [exact E0'|]. split; [exact E1'|]. split; [exact I'|].
    destruct (efb_build_ok u m b' acc Hu Hm Hcap1 Hcap2 I') as [e' [Eb' [R' [Hh' Hlow']]]].
    rewrite Eb'. f_equal.
    assert (Hbb : b' = b) by (apply (efb_inv_unique b b' acc u m I I')).
    subst b'. pose proof (Eb' c) as X. rewrite (Eb c) in X. injection X as X. symmetry. exact X.
  - intros c k. apply (ef_select_spec e acc u R).
Qed.

(* C04, construction: every non-decreasing sequence below u that fits the capacity m is accepted
   entirely, and build (+ enable_rank) yields values representing exactly that sequence; the
   values do not depend on the build configuration *)
Theorem ef_build_sorted u m xs : u < W -> 1 <= m -> lenN xs <= m ->
  m + 2 + u / 2 ^ low_len_of u m < 2 ^ 56 -> m * low_len_of u m < 2 ^ 56 ->
  nondec xs -> Forall (fun x => x < u) xs ->
  exists e e', ef_rep e xs u /\ ef_rep e' xs u /\ da_s0 (ef_high e') <> None /\
    forall c, exists b0 b, efb_new c u m = Ok (Some b0) /\ efb_extend c b0 xs = Ok (b, true) /\
                           efb_build c b = Ok e /\ ef_enable_rank c e = Ok e'.
Proof.
  intros Hu Hm Hlen Hcap1 Hcap2 Hs Hb.
  assert (Hall : spec_extend u m [] xs = (xs, true)).
  { apply (spec_extend_all u m xs []); [exact Hs | exact Hb | rewrite lenN_nil; lia]. }
  assert (Hc : forall c, exists b0 b, efb_new c u m = Ok (Some b0) /\ efb_extend c b0 xs = Ok (b, true) /\ efb_inv b xs u m).
  { intro c. destruct (efb_new_ok u m Hu Hm Hcap1 Hcap2 c) as [b0 [E0 I0]].
    destruct (efb_extend_spec u m Hu Hm Hcap1 Hcap2 c xs b0 [] I0) as [b [E I]].
    rewrite Hall in E, I. cbn [fst snd] in E, I. exists b0, b. split; [exact E0 | split; [exact E | exact I]]. }
  destruct (Hc {| dbg := true; intr := false |}) as [b0 [b [_ [_ I]]]].
  destruct (efb_build_ok u m b xs Hu Hm Hcap1 Hcap2 I) as [e [Eb [R _]]].
  destruct (ef_enable_rank_ok e xs u R) as [e' [Er [R' Hs0]]].
  exists e, e'. split; [exact R | split; [exact R' | split; [exact Hs0|]]].
  intro c. destruct (Hc c) as [b0' [b' [E0' [E' I']]]].
  pose proof (efb_inv_unique b b' xs u m I I') as ->.
  exists b0', b. split; [exact E0' | split; [exact E' | split; [apply Eb | apply Er]]].
Qed.

End Build.

Print Assumptions efb_history.
Print Assumptions efb_push_reject.
Print Assumptions efb_build_ok.
Print Assumptions ef_enable_rank_ok.
Print Assumptions efb_build_history.
Print Assumptions ef_build_sorted.
