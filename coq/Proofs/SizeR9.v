(* Proofs/SizeR9.v — property C19 for Rank9Sel: with u = number of bits, the built structure
   (bit vector + rank directory + any of the two select hint tables) occupies
   B = 8 * size_in_bytes() <= 1.32 u + 2048 bits; precisely B <= 1.3125 u + 879.
   Counts: W = ceil(u/64) words, nb = ceil(W/8) blocks, |block_rank_pairs| = 2 nb + 2,
   |select1_hints| <= ones/1024 + 1, |select0_hints| <= (512 nb - ones)/1024 + 1 (the zeros of
   the padding of the last block are counted by block_rank0), so both tables together have at
   most nb/2 + 2 entries.
   Second part: sums of that bound over the levels of a DAC (DacsByte / DacsOpt, flags without
   hint tables) and over the layers of a WaveletMatrix<Rank9Sel>, for values of the stated shape
   (`r9_plain`, `r9_full`); Proofs/SizeEF.v shows that the constructors build that shape. *)
From Sucds Require Import Base.Res Spec.WordSpec Spec.BitSpec Spec.FormatSpec gen.SerialGen
  Model.BitVector Model.Rank9 Model.CompactVector Model.Dacs Model.Wavelet Model.Serial
  Proofs.ResLemmas Proofs.BVAbs Proofs.BVReads Proofs.BVReads2 Proofs.R9Build Proofs.R9Rank
  Proofs.R9Hints Proofs.R9Main Proofs.CVRep Proofs.SizeForms Proofs.SizeBV.
From Coq Require Import ZArith ZifyN ZifyBool ZifyNat Lia.
Ltac Zify.zify_post_hook ::= Z.div_mod_to_equations.
Open Scope N_scope.

(* ---------- number of hint entries ---------- *)

Lemma hints_len_le inv ws : Forall (fun w => w < W) ws ->
  1024 * (lenN (hints_spec inv ws) - 1) <= Rk inv ws (nblocks ws) /\ 1 <= lenN (hints_spec inv ws).
Proof.
  intro Hall. set (nb := nblocks ws).
  pose proof (hints_pure_inv (Rk inv ws) (Rk_0 inv ws Hall) (Rk_step inv ws Hall) (N.to_nat nb)) as I.
  rewrite N2Nat.id in I. unfold hints_spec. fold nb.
  destruct (hints_pure (Rk inv ws) nb) as [H thr]. destruct I as [_ [_ I3]]. cbn [fst snd] in *.
  rewrite lenN_app. change (lenN [nb]) with 1.
  split; [|lia].
  destruct (N.eq_dec (lenN H) 0) as [Hz|Hnz]; [rewrite Hz; lia|].
  specialize (I3 (lenN H - 1) ltac:(lia)). destruct I3 as [I3 I4].
  pose proof (Rk_mono inv ws Hall (nthN H (lenN H - 1) 0 + 1) nb ltac:(lia)) as Hm.
  lia.
Qed.

Lemma Rk_total ws : Forall (fun w => w < W) ws ->
  Rk false ws (nblocks ws) + Rk true ws (nblocks ws) = 512 * nblocks ws.
Proof.
  intro Hall. unfold Rk, V. pose proof (cnt_le ws Hall (8 * nblocks ws)). lia.
Qed.

Lemma Rk_ones ws : Rk false ws (nblocks ws) = popsum ws.
Proof. unfold Rk, V. apply cnt_over. unfold nblocks. lia. Qed.

(* each table alone, and both together *)
Lemma hints_len_each inv ws : Forall (fun w => w < W) ws ->
  1024 * lenN (hints_spec inv ws) <= 512 * nblocks ws + 1024.
Proof.
  intro Hall. destruct (hints_len_le inv ws Hall) as [H1 H2].
  pose proof (Rk_le inv ws Hall (nblocks ws)). lia.
Qed.

Lemma hints_len_both ws : Forall (fun w => w < W) ws ->
  1024 * (lenN (hints_spec false ws) + lenN (hints_spec true ws)) <= 512 * nblocks ws + 2048.
Proof.
  intro Hall. destruct (hints_len_le false ws Hall) as [H1 H2].
  destruct (hints_len_le true ws Hall) as [H3 H4]. pose proof (Rk_total ws Hall). lia.
Qed.

(* select1 hints: one entry per 1024 ones (+ the sentinel) *)
Lemma hints1_len_ones ws : Forall (fun w => w < W) ws ->
  1024 * lenN (hints_spec false ws) <= popsum ws + 1024.
Proof.
  intro Hall. destruct (hints_len_le false ws Hall) as [H1 H2]. rewrite Rk_ones in H1. lia.
Qed.

(* ---------- the index and the whole structure ---------- *)

Definition hint_entries (bv : bitvec) (h1 h0 : bool) : N :=
  (if h1 then lenN (hints_spec false (bv_words bv)) else 0)
  + (if h0 then lenN (hints_spec true (bv_words bv)) else 0).

Lemma sz_r9index_spec bv h1 h0 :
  sz_r9index (r9_index_spec bv h1 h0)
  = 34 + 16 * nblocks (bv_words bv) + 8 * (b2n h1 + b2n h0) + 8 * hint_entries bv h1 h0.
Proof.
  unfold sz_r9index, r9_index_spec, hint_entries. cbn [r_brp r_h1 r_h0].
  rewrite brp_len. destruct h1, h0; cbn [opt_len b2n]; lia.
Qed.

Lemma hint_entries_le bv h1 h0 : wf bv ->
  1024 * hint_entries bv h1 h0 <= 512 * nblocks (bv_words bv) + 1024 * (b2n h1 + b2n h0).
Proof.
  intro Hwf. pose proof (wf_all bv Hwf) as Hall. unfold hint_entries.
  pose proof (hints_len_each false _ Hall). pose proof (hints_len_each true _ Hall).
  pose proof (hints_len_both _ Hall).
  destruct h1, h0; cbn [b2n]; lia.
Qed.

(* the rank directory alone (what DArray::enable_rank adds): 0.25 u + 400 bits *)
Lemma r9_base_bits bv : wf bv -> 8 * sz_r9index (r9_base bv) <= bv_len bv / 4 + 400.
Proof.
  intro Hwf. change (r9_base bv) with (r9_index_spec bv false false).
  rewrite sz_r9index_spec. unfold hint_entries, nblocks. rewrite (wf_nwords bv Hwf). cbn [b2n]. lia.
Qed.

(* exact accounting: B = 64 W + 128 nb + 64 (#tables + #entries) + 400 *)
Lemma r9_bits_exact bv h1 h0 :
  8 * sz_r9sel (r9_spec bv h1 h0)
  = 64 * lenN (bv_words bv) + 128 * nblocks (bv_words bv)
    + 64 * (b2n h1 + b2n h0) + 64 * hint_entries bv h1 h0 + 400.
Proof.
  unfold sz_r9sel, r9_spec. cbn [r9_bv r9_rs]. rewrite sz_r9index_spec. unfold sz_bitvec. lia.
Qed.

(* the sharp form: B <= 1.3125 u + 879 *)
Lemma r9_bits_sharp bv h1 h0 : wf bv ->
  16 * (8 * sz_r9sel (r9_spec bv h1 h0)) <= 21 * bv_len bv + 14064.
Proof.
  intro Hwf. rewrite r9_bits_exact. pose proof (hint_entries_le bv h1 h0 Hwf) as He.
  pose proof (wf_nwords bv Hwf) as Hn. unfold nblocks in *.
  set (u := bv_len bv) in *. set (nw := lenN (bv_words bv)) in *. set (e := hint_entries bv h1 h0) in *.
  assert (b2n h1 + b2n h0 <= 2) by (destruct h1, h0; cbn [b2n]; lia).
  set (t := b2n h1 + b2n h0) in *. clearbody t e u nw. subst nw. lia.
Qed.

Theorem size_rank9sel_bound bv h1 h0 : wf bv ->
  100 * (8 * size ty_Rank9Sel (v_r9sel (r9_spec bv h1 h0))) <= 132 * bv_len bv + 204800.
Proof.
  intro Hwf. rewrite size_r9sel. pose proof (r9_bits_sharp bv h1 h0 Hwf). lia.
Qed.

(* the same for the value returned by the constructor, in every build configuration *)
Corollary size_rank9sel_built c bv h1 h0 x : wf bv -> cap_ok bv -> r9_build c bv h1 h0 = Ok x ->
  100 * (8 * size ty_Rank9Sel (v_r9sel x)) <= 132 * bv_len bv + 204800.
Proof.
  intros Hwf Hcap E. rewrite (r9_build_ok c bv h1 h0 Hwf Hcap) in E. injection E as <-.
  apply size_rank9sel_bound, Hwf.
Qed.

(* ---------- levels of a DAC / layers of a wavelet matrix: sums of Rank9Sel bounds ---------- *)

(* a Rank9Sel without hint tables over a well-formed bit vector (what Rank9Sel::new builds) *)
Definition r9_plain (x : r9sel) : Prop := x = r9_spec (r9_bv x) false false /\ wf (r9_bv x).
(* a Rank9Sel with both hint tables over a well-formed bit vector of n bits *)
Definition r9_full (n : N) (x : r9sel) : Prop :=
  x = r9_spec (r9_bv x) true true /\ wf (r9_bv x) /\ bv_len (r9_bv x) = n.

Lemma r9_plain_bits x : r9_plain x -> 100 * (8 * sz_r9sel x) <= 132 * r9_num_bits x + 87900.
Proof.
  intros [E Hwf]. rewrite E. unfold r9_num_bits. cbn [r9_spec r9_bv].
  pose proof (r9_bits_sharp (r9_bv x) false false Hwf). lia.
Qed.

Lemma r9_full_bits n x : r9_full n x -> 100 * (8 * sz_r9sel x) <= 132 * n + 87900.
Proof.
  intros [E [Hwf Hn]]. rewrite E. pose proof (r9_bits_sharp (r9_bv x) true true Hwf). lia.
Qed.

Lemma fold_left_add_sum {A} (h : A -> N) (l : list A) : forall a,
  fold_left (fun acc x => acc + h x) l a = a + sumN h l.
Proof.
  induction l as [|x l IH]; intro a; cbn [fold_left]; [rewrite sumN_nil; lia|].
  rewrite IH, sumN_cons. lia.
Qed.

Lemma fold_left_add_sum' {A} (f : N -> A -> N) (h : A -> N) :
  (forall a x, f a x = a + h x) -> forall l a, fold_left f l a = a + sumN h l.
Proof.
  intros E l. induction l as [|x l IH]; intro a; cbn [fold_left]; [rewrite sumN_nil; lia|].
  rewrite IH, E, sumN_cons. lia.
Qed.

(* the per-level accounting used by the driver: every level pays 1.32 (chunk + flag) + 2048 *)
Section Levels.
Context {A : Type}.
Variables (chunk_bits : A -> N) (level_sz : A -> N).
(* a stored level costs at most its chunk bits + 320 bits of headers and padding *)
Hypothesis Hlevel : forall x, 8 * level_sz x <= chunk_bits x + 320.

Definition level_cost (lv : A * option r9sel) : N :=
  132 * (chunk_bits (fst lv) + match snd lv with Some f => r9_num_bits f | None => 0 end) + 204800.

Lemma levels_bound : forall (data : list A) (flags : list r9sel),
  Forall r9_plain flags -> length data = S (length flags) ->
  100 * (8 * (sumN level_sz data + sumN sz_r9sel flags))
  <= sumN level_cost (combine data (map Some flags ++ [None])).
Proof.
  induction data as [|x data IH]; intros flags Hf Hlen; [discriminate|].
  destruct flags as [|f flags].
  - destruct data; [|discriminate]. cbn [map app combine]. rewrite !sumN_cons, !sumN_nil.
    unfold level_cost. cbn [fst snd]. pose proof (Hlevel x). lia.
  - inversion Hf as [|f' fl' Hf1 Hf2]; subst. cbn [length] in Hlen.
    cbn [map app combine]. rewrite !sumN_cons.
    specialize (IH flags Hf2 ltac:(lia)). pose proof (r9_plain_bits f Hf1) as Hb.
    unfold level_cost at 1. cbn [fst snd]. pose proof (Hlevel x). lia.
Qed.
End Levels.

(* DacsByte: the driver's inequality *)
Theorem size_dacsbyte_levels d :
  Forall r9_plain (db_flags d) -> length (db_data d) = S (length (db_flags d)) ->
  let levels := combine (db_data d) (map Some (db_flags d) ++ [None]) in
  let tot := fold_left (fun acc (lv : list N * option r9sel) =>
               let chunk := 8 * lenN (fst lv) in
               let flag := match snd lv with Some f => r9_num_bits f | None => 0 end in
               acc + 132 * (chunk + flag) + 204800) levels 0 in
  100 * (8 * size ty_DacsByte (v_dacsbyte d)) <= tot + 12800.
Proof.
  intros Hf Hlen levels tot. rewrite size_dacsbyte. unfold sz_dacsbyte.
  pose proof (levels_bound (fun l : list N => 8 * lenN l) (fun l => 8 + lenN l) ltac:(intro x; cbv beta; lia)
                (db_data d) (db_flags d) Hf Hlen) as H.
  fold levels in H.
  assert (Et : tot = sumN (level_cost (fun l : list N => 8 * lenN l)) levels).
  { unfold tot.
    rewrite (fold_left_add_sum' _ (level_cost (fun l : list N => 8 * lenN l))); [lia|].
    intros a0 lv. unfold level_cost. lia. }
  rewrite Et. lia.
Qed.

(* DacsOpt: the driver's inequality *)
Theorem size_dacsopt_levels d :
  Forall (fun v => exists xs, cv_inv v xs) (do_data d) ->
  Forall r9_plain (do_flags d) -> length (do_data d) = S (length (do_flags d)) ->
  let levels := combine (do_data d) (map Some (do_flags d) ++ [None]) in
  let tot := fold_left (fun acc (lv : compvec * option r9sel) =>
               let chunk := cv_len (fst lv) * cv_width (fst lv) in
               let flag := match snd lv with Some f => r9_num_bits f | None => 0 end in
               acc + 132 * (chunk + flag) + 204800) levels 0 in
  100 * (8 * size ty_DacsOpt (v_dacsopt d)) <= tot + 12800.
Proof.
  intros Hd Hf Hlen levels tot. rewrite size_dacsopt. unfold sz_dacsopt.
  (* replace the level size by one that satisfies the header bound everywhere *)
  set (lsz := fun v : compvec => N.min (sz_compvec v) ((cv_len v * cv_width v + 320) / 8)).
  assert (Es : sumN sz_compvec (do_data d) = sumN lsz (do_data d)).
  { apply sumN_ext. intros v Hv. rewrite Forall_forall in Hd. destruct (Hd v Hv) as [xs Hx].
    pose proof (compvec_bits_exact v xs Hx) as He. pose proof (round64_lt (cv_len v * cv_width v)).
    unfold lsz. set (p := cv_len v * cv_width v) in *. lia. }
  rewrite Es.
  pose proof (levels_bound (fun v : compvec => cv_len v * cv_width v) lsz
                ltac:(intro v; unfold lsz; cbv beta; set (p := cv_len v * cv_width v); lia)
                (do_data d) (do_flags d) Hf Hlen) as H.
  fold levels in H.
  assert (Et : tot = sumN (level_cost (fun v : compvec => cv_len v * cv_width v)) levels).
  { unfold tot.
    rewrite (fold_left_add_sum' _ (level_cost (fun v : compvec => cv_len v * cv_width v))); [lia|].
    intros a0 lv. unfold level_cost. set (p := cv_len (fst lv) * cv_width (fst lv)). lia. }
  rewrite Et. lia.
Qed.

(* WaveletMatrix<Rank9Sel> over n symbols: B <= width (1.32 n + 2048) + 128 *)
Theorem size_wavelet_r9_layers (layers : list r9sel) (a n : N) :
  Forall (r9_full n) layers ->
  100 * (8 * size ty_WaveletMatrix_Rank9Sel
               (v_wavelet {| wm_layers := map BRank9 layers; wm_alph_size := a |}))
  <= lenN layers * (132 * n + 204800) + 12800.
Proof.
  intro H. rewrite size_wavelet_r9.
  assert (Hs : 100 * (8 * sumN sz_r9sel layers) <= lenN layers * (132 * n + 87900)).
  { induction H as [|x l Hx Hl IH]; [rewrite sumN_nil; unfold lenN; cbn [length]; lia|].
    rewrite sumN_cons, lenN_cons. pose proof (r9_full_bits n x Hx). lia. }
  lia.
Qed.

Print Assumptions size_rank9sel_bound.
Print Assumptions size_rank9sel_built.
Print Assumptions r9_base_bits.
Print Assumptions size_dacsbyte_levels.
Print Assumptions size_dacsopt_levels.
Print Assumptions size_wavelet_r9_layers.
