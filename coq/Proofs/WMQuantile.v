(* Proofs/WMQuantile.v — quantile of a built wavelet matrix = the k-th smallest element of the range (C06). *)
From Sucds Require Import Base.Res Spec.WordSpec Spec.BitSpec Spec.SeqSpec Spec.DacSpec
  Model.BitVector Model.Rank9 Model.DArray Model.CompactVector Model.Wavelet
  Proofs.ResLemmas Proofs.BVAbs Proofs.WordLemmas Proofs.IndexSpecs Proofs.WMLists Proofs.WMBuild Proofs.WMQueries.
From Coq Require Import ZArith ZifyN ZifyBool ZifyNat Lia.
Ltac Zify.zify_post_hook ::= Z.div_mod_to_equations.
Open Scope N_scope.

(* ---------- the k-th smallest element, characterised by counting ---------- *)
Definition kth_ok (l : list N) (k x : N) : Prop :=
  cntf (fun y => y <? x) l <= k /\ k < cntf (fun y => y <=? x) l.

Lemma cntf_mono {A} (f g : A -> bool) l : (forall x, f x = true -> g x = true) -> cntf f l <= cntf g l.
Proof.
  intro H. unfold cntf. induction l as [|x l IH]; [reflexivity|]. cbn [filter].
  destruct (f x) eqn:Ef.
  - rewrite (H x Ef), !lenN_cons. lia.
  - destruct (g x); rewrite ?lenN_cons; lia.
Qed.
Lemma kth_unique l k x y : kth_ok l k x -> kth_ok l k y -> x = y.
Proof.
  intros [H1 H2] [H3 H4].
  destruct (N.lt_trichotomy x y) as [H|[H|H]]; [|exact H|].
  - assert (cntf (fun z => z <=? x) l <= cntf (fun z => z <? y) l).
    { apply cntf_mono. intros z Hz. apply N.leb_le in Hz. apply N.ltb_lt. lia. }
    lia.
  - assert (cntf (fun z => z <=? y) l <= cntf (fun z => z <? x) l).
    { apply cntf_mono. intros z Hz. apply N.leb_le in Hz. apply N.ltb_lt. lia. }
    lia.
Qed.

Lemma cntf_cons {A} (f : A -> bool) x l : cntf f (x :: l) = (if f x then 1 else 0) + cntf f l.
Proof. unfold cntf. cbn [filter]. destruct (f x); rewrite ?lenN_cons; lia. Qed.
Lemma cntf_map {A B} (f : B -> bool) (g : A -> B) l : cntf f (map g l) = cntf (fun x => f (g x)) l.
Proof. induction l as [|x l IH]; [reflexivity|]. cbn [map]. rewrite !cntf_cons, IH. reflexivity. Qed.
Lemma cntf_split {A} (g f : A -> bool) l :
  cntf f l = cntf (fun x => g x && f x) l + cntf (fun x => negb (g x) && f x) l.
Proof.
  induction l as [|x l IH]; [reflexivity|]. rewrite !cntf_cons, IH.
  destruct (g x), (f x); cbn [negb andb]; lia.
Qed.

Lemma cntf_insert f x l : cntf f (insert_sorted x l) = cntf f (x :: l).
Proof.
  induction l as [|y l IH]; [reflexivity|]. cbn [insert_sorted].
  destruct (x <=? y); [reflexivity|]. rewrite cntf_cons, IH, !cntf_cons. lia.
Qed.
Lemma cntf_sort f l : cntf f (sort l) = cntf f l.
Proof.
  induction l as [|x l IH]; [reflexivity|]. unfold sort in *. cbn [fold_right].
  rewrite cntf_insert, !cntf_cons, IH. reflexivity.
Qed.
Lemma lenN_sort l : lenN (sort l) = lenN l.
Proof.
  pose proof (cntf_sort (fun _ => true) l) as H.
  rewrite !cntf_true in H by reflexivity. exact H.
Qed.

Fixpoint sortedP (l : list N) : Prop :=
  match l with [] => True | x :: r => (forall y, In y r -> x <= y) /\ sortedP r end.
Lemma In_insert x y l : In y (insert_sorted x l) -> y = x \/ In y l.
Proof.
  induction l as [|z l IH]; cbn [insert_sorted].
  - intros [H|[]]. left. symmetry. exact H.
  - destruct (x <=? z).
    + intros [H|H]; [left; symmetry; exact H | right; exact H].
    + intros [H|H]; [right; left; exact H|]. destruct (IH H) as [H1|H1]; [left; exact H1 | right; right; exact H1].
Qed.
Lemma sorted_insert x l : sortedP l -> sortedP (insert_sorted x l).
Proof.
  induction l as [|z l IH]; intro Hs; cbn [insert_sorted].
  - cbn [sortedP]. split; [intros y []|exact I].
  - destruct Hs as [Hz Hs]. destruct (N.leb_spec x z) as [H|H].
    + cbn [sortedP]. split; [|split; assumption].
      intros y [Hy|Hy]; [lia|]. specialize (Hz y Hy). lia.
    + cbn [sortedP]. split; [|apply IH, Hs].
      intros y Hy. destruct (In_insert x y l Hy) as [->|Hy']; [lia | apply Hz, Hy'].
Qed.
Lemma sorted_sort l : sortedP (sort l).
Proof.
  induction l as [|x l IH]; [exact I|]. unfold sort in *. cbn [fold_right]. apply sorted_insert, IH.
Qed.

Lemma cntf_false {A} (f : A -> bool) l : (forall x, In x l -> f x = false) -> cntf f l = 0.
Proof.
  intro H. induction l as [|x l IH]; [reflexivity|]. rewrite cntf_cons, (H x (or_introl eq_refl)), IH; [reflexivity|].
  intros y Hy. apply H. right. exact Hy.
Qed.

Lemma sorted_nth l : sortedP l -> forall (k : nat) x, nth_error l k = Some x -> kth_ok l (N.of_nat k) x.
Proof.
  induction l as [|x0 r IH]; intros Hs k x Hn; [destruct k; discriminate|].
  destruct Hs as [H0 Hs]. unfold kth_ok. rewrite !cntf_cons. destruct k as [|k].
  - cbn [nth_error] in Hn. injection Hn as <-.
    rewrite (cntf_false (fun y => y <? x0) r).
    + destruct (N.ltb_spec x0 x0); [lia|]. destruct (N.leb_spec x0 x0); lia.
    + intros y Hy. specialize (H0 y Hy). destruct (N.ltb_spec y x0); [lia | reflexivity].
  - cbn [nth_error] in Hn. destruct (IH Hs k x Hn) as [H1 H2].
    pose proof (H0 x (nth_error_In _ _ Hn)) as Hx.
    destruct (N.leb_spec x0 x); [|lia]. destruct (x0 <? x); lia.
Qed.

Lemma sort_kth l k : k < lenN l -> exists x, nth_opt (sort l) k = Some x /\ kth_ok l k x.
Proof.
  intro Hk. pose proof (lenN_sort l) as HL.
  exists (nthN (sort l) k 0). split; [apply nth_opt_nthN; lia|].
  pose proof (sorted_nth (sort l) (sorted_sort l) (N.to_nat k) _ (nthN_nth_error (sort l) k 0 ltac:(lia))) as [H1 H2].
  rewrite N2Nat.id in H1, H2. rewrite !cntf_sort in H1, H2. split; assumption.
Qed.

(* ---------- one level: the k-th smallest by the low m+1 bits from the k-th smallest by the low m bits ---------- *)
Definition gm (m x : N) : N := x mod 2 ^ m.

Ltac bsolve :=
  repeat match goal with
         | |- context [?a <? ?b] => destruct (N.ltb_spec a b)
         | |- context [?a <=? ?b] => destruct (N.leb_spec a b)
         end; cbn [negb andb]; try reflexivity; try lia.

Lemma pw_split m x : gm (m + 1) x = (if N.testbit x m then 2 ^ m else 0) + gm m x /\ gm m x < 2 ^ m.
Proof.
  unfold gm. split; [apply mod_pow2_succ|]. apply N.mod_lt, N.pow_nonzero. discriminate.
Qed.

Lemma kth_down0 m L k r : r < 2 ^ m ->
  kth_ok (map (gm m) (filter (ntb m) L)) k r -> kth_ok (map (gm (m + 1)) L) k r.
Proof.
  intros Hr [H1 H2]. rewrite cntf_map, cntf_filter in H1, H2. unfold kth_ok. rewrite !cntf_map.
  rewrite (cntf_ext (fun x => gm (m + 1) x <? r) (fun x => ntb m x && (gm m x <? r))).
  rewrite (cntf_ext (fun x => gm (m + 1) x <=? r) (fun x => ntb m x && (gm m x <=? r))).
  - split; assumption.
  - intros x _. destruct (pw_split m x) as [E Hlt]. rewrite E. unfold ntb.
    destruct (N.testbit x m); cbn [negb andb]; bsolve.
  - intros x _. destruct (pw_split m x) as [E Hlt]. rewrite E. unfold ntb.
    destruct (N.testbit x m); cbn [negb andb]; bsolve.
Qed.

Lemma kth_down1 m L k r : r < 2 ^ m -> cntf (ntb m) L <= k ->
  kth_ok (map (gm m) (filter (tb m) L)) (k - cntf (ntb m) L) r -> kth_ok (map (gm (m + 1)) L) k (2 ^ m + r).
Proof.
  intros Hr Hk [H1 H2]. rewrite cntf_map, cntf_filter in H1, H2. unfold kth_ok. rewrite !cntf_map.
  rewrite (cntf_split (ntb m) (fun x => gm (m + 1) x <? 2 ^ m + r)).
  rewrite (cntf_split (ntb m) (fun x => gm (m + 1) x <=? 2 ^ m + r)).
  rewrite (cntf_ext (fun x => ntb m x && (gm (m + 1) x <? 2 ^ m + r)) (ntb m)).
  rewrite (cntf_ext (fun x => ntb m x && (gm (m + 1) x <=? 2 ^ m + r)) (ntb m)).
  rewrite (cntf_ext (fun x => negb (ntb m x) && (gm (m + 1) x <? 2 ^ m + r)) (fun x => tb m x && (gm m x <? r))).
  rewrite (cntf_ext (fun x => negb (ntb m x) && (gm (m + 1) x <=? 2 ^ m + r)) (fun x => tb m x && (gm m x <=? r))).
  - lia.
  - intros x _. destruct (pw_split m x) as [E Hlt]. rewrite E. unfold ntb, tb.
    destruct (N.testbit x m); cbn [negb andb]; bsolve.
  - intros x _. destruct (pw_split m x) as [E Hlt]. rewrite E. unfold ntb, tb.
    destruct (N.testbit x m); cbn [negb andb]; bsolve.
  - intros x _. destruct (pw_split m x) as [E Hlt]. rewrite E. unfold ntb, tb.
    destruct (N.testbit x m); cbn [negb andb]; bsolve.
  - intros x _. destruct (pw_split m x) as [E Hlt]. rewrite E. unfold ntb, tb.
    destruct (N.testbit x m); cbn [negb andb]; bsolve.
Qed.

(* ---------- the model ---------- *)
Definition q_step (c : cfg) := fun (st : N * N * N * N) layer =>
  let '(val, k, sp, ep) := st in
  val <- shl c val 1 ;;
  zs <- b_rank0 c layer sp ;; zs <- unwrap zs ;;
  ze <- b_rank0 c layer ep ;; ze <- unwrap ze ;;
  zeros <- sub c ze zs ;;
  if k <? zeros then Ok (val, k, zs, ze) else
  k <- sub c k zeros ;;
  nz <- b_num_zeros c layer ;;
  a <- add c nz sp ;; sp' <- sub c a zs ;;
  b <- add c nz ep ;; ep' <- sub c b ze ;;
  Ok (N.lor val 1, k, sp', ep').

Lemma pow51_W : 2 * 2 ^ 50 < W. Proof. vm_compute. reflexivity. Qed.

Lemma quant_layers c n : forall xs ls, layers_ok n xs ls -> lenN xs < 2 ^ 50 ->
  forall d val k a b, d + N.of_nat n <= 64 -> val < 2 ^ d -> a <= b -> b <= lenN xs -> k < b - a ->
  exists r k' a' b', fold_res (q_step c) ls (val, k, a, b) = Ok (val * 2 ^ N.of_nat n + r, k', a', b') /\
    r < 2 ^ N.of_nat n /\ kth_ok (map (gm (N.of_nat n)) (sub_seq xs a b)) k r.
Proof.
  pose proof pow51_W as HW.
  induction n as [|m IH]; intros xs ls Hok Hlen d val k a b Hd Hval Hab Hb Hk;
    destruct ls as [|l ls]; cbn [layers_ok] in Hok; try contradiction.
  - exists 0, k, a, b. cbn [fold_res]. change (2 ^ N.of_nat 0) with 1.
    split; [do 4 f_equal; lia|]. split; [lia|].
    unfold kth_ok. rewrite !cntf_map.
    rewrite cntf_false by (intros x _; unfold gm; rewrite N.mod_1_r; reflexivity).
    rewrite cntf_true by (intros x _; unfold gm; rewrite N.mod_1_r; reflexivity).
    rewrite sub_seq_len by assumption. lia.
  - destruct Hok as [Hl Hrest].
    destruct (layer_facts c l (N.of_nat m) xs (Hl c) Hlen) as [Hn [Hz [Ha [Hr1 [Hr0 _]]]]].
    set (mm := N.of_nat m) in *.
    replace (N.of_nat (Datatypes.S m)) with (mm + 1) in * by lia.
    assert (Hv2 : val * 2 ^ 1 < W).
    { change (2 ^ 1) with 2. assert (2 ^ d <= 2 ^ 63) by (apply N.pow_le_mono_r; lia).
      assert (2 ^ 63 * 2 = W) by reflexivity. lia. }
    assert (Hd1 : 2 * val + 1 < 2 ^ (d + 1)).
    { rewrite N.pow_add_r. change (2 ^ 1) with 2. lia. }
    pose proof (lenN_part mm xs) as Hlp.
    pose proof (cnt_tb_ntb mm xs) as H2. fold (nz mm xs) in H2.
    pose proof (r0_split mm xs a b Hab Hb) as H3. pose proof (r1_split mm xs a b Hab Hb) as H4.
    pose proof (r0_r1 mm xs a ltac:(lia)) as H5. pose proof (r0_r1 mm xs b Hb) as H6.
    pose proof (r0_le_nz mm xs b Hb) as H7. pose proof (r1_le_no mm xs b Hb) as H8.
    cbn [fold_res]. unfold q_step at 1.
    rewrite shl_ok_small by (try exact Hv2; lia). cbn [bind]. change (2 ^ 1) with 2.
    rewrite !Hr0 by lia. cbn [bind unwrap]. rewrite sub_ok by lia. cbn [bind].
    replace (r0 mm xs b - r0 mm xs a) with (cntf (ntb mm) (sub_seq xs a b)) by lia.
    destruct (N.ltb_spec k (cntf (ntb mm) (sub_seq xs a b))) as [Hkz|Hkz].
    + destruct (IH (part mm xs) ls Hrest) with (d := d + 1) (val := val * 2) (k := k)
        (a := r0 mm xs a) (b := r0 mm xs b) as [r [k' [a' [b' [E [Hr Hkth]]]]]]; try lia.
      exists r, k', a', b'. cbn [bind]. rewrite E. split; [|split].
      * do 4 f_equal. rewrite N.pow_add_r. change (2 ^ 1) with 2. lia.
      * rewrite N.pow_add_r. change (2 ^ 1) with 2. lia.
      * rewrite part_range0 in Hkth by assumption. apply kth_down0; assumption.
    + rewrite sub_ok by lia. cbn [bind]. rewrite Hz. cbn [bind].
      rewrite add_ok by lia. cbn [bind]. rewrite sub_ok by lia. cbn [bind].
      rewrite add_ok by lia. cbn [bind]. rewrite sub_ok by lia. cbn [bind].
      rewrite (N.mul_comm val 2), lor_double_1.
      replace (nz mm xs + a - r0 mm xs a) with (nz mm xs + r1 mm xs a) by lia.
      replace (nz mm xs + b - r0 mm xs b) with (nz mm xs + r1 mm xs b) by lia.
      destruct (IH (part mm xs) ls Hrest) with (d := d + 1) (val := 2 * val + 1)
        (k := k - cntf (ntb mm) (sub_seq xs a b))
        (a := nz mm xs + r1 mm xs a) (b := nz mm xs + r1 mm xs b) as [r [k' [a' [b' [E [Hr Hkth]]]]]]; try lia.
      exists (2 ^ mm + r), k', a', b'. rewrite E. split; [|split].
      * do 4 f_equal. rewrite N.pow_add_r. change (2 ^ 1) with 2. lia.
      * rewrite N.pow_add_r. change (2 ^ 1) with 2. lia.
      * rewrite part_range1 in Hkth by assumption. apply kth_down1; assumption.
Qed.

Section Quantile.
Variables (wm : wavelet) (s : list N).
Hypothesis Hok : wm_ok wm s.
Hypothesis Hmax : max_list s + 1 < W.
Hypothesis Hlen : lenN s < 2 ^ 50.

Theorem wm_quantile_ok c a b k : a < W -> b < W -> k < W ->
  wm_quantile c wm a b k = Ok (SeqSpec.wm_quantile s a b k).
Proof.
  intros Ha Hb Hk. unfold wm_quantile, SeqSpec.wm_quantile. rewrite (wm_ok_len wm s Hmax Hok).
  destruct (N.leb_spec (if a <=? b then b - a else 0) k) as [H|H].
  - destruct (N.ltb_spec (lenN s) b) as [H1|H1]; [reflexivity|].
    rewrite nth_opt_oob; [reflexivity|]. rewrite lenN_sort.
    destruct (N.leb_spec a b) as [H2|H2].
    + rewrite sub_seq_len by assumption. exact H.
    + rewrite sub_seq_nil by lia. rewrite lenN_nil. lia.
  - destruct (N.leb_spec a b) as [H2|H2]; [|lia]. cbv iota in H.
    destruct (N.ltb_spec (lenN s) b) as [H1|H1]; [reflexivity|].
    pose proof Hok as [_ HL]. destruct (bitlen_bounds (max_list s + 1)) as [Hw1 [Hw2 Hw3]]; [lia | exact Hmax |].
    set (w := bitlen (max_list s + 1)) in *.
    destruct (quant_layers c (N.to_nat w) s (wm_layers wm) HL Hlen 0 0 k a b) as [r [k' [a' [b' [E [Hr Hkth]]]]]]; try lia.
    change (fold_res _ (wm_layers wm) (0, k, a, b)) with (fold_res (q_step c) (wm_layers wm) (0, k, a, b)).
    rewrite E. cbn [bind]. rewrite N.mul_0_l, N.add_0_l. do 2 f_equal.
    destruct (sort_kth (sub_seq s a b) k) as [x [Ex Hx]]; [rewrite sub_seq_len by assumption; lia|].
    rewrite Ex. f_equal. rewrite N2Nat.id in Hkth.
    assert (Hid : map (gm w) (sub_seq s a b) = sub_seq s a b).
    { rewrite <- (map_id (sub_seq s a b)) at 2. apply map_ext_in. intros y Hy. unfold gm.
      apply N.mod_small. pose proof (max_list_ge s y (sub_seq_In s a b y Hy)). lia. }
    rewrite Hid in Hkth. apply (kth_unique _ _ _ _ Hkth Hx).
Qed.
End Quantile.

Section TopQ.
Hypothesis b_build_ok : forall k bv, wf bv -> cap_ok bv ->
  exists b, (forall c, b_build c k bv = Ok b) /\ (forall c, backing_correct c b (bits_of bv)).
Theorem wm_quantile_spec c0 k s wm : seq_ok s -> wm_new c0 k s = Ok (Some wm) ->
  forall c a b j, a < W -> b < W -> j < W -> wm_quantile c wm a b j = Ok (SeqSpec.wm_quantile s a b j).
Proof.
  intros Hs E c a b j. apply wm_quantile_ok; [eapply (built_ok b_build_ok); eassumption | apply Hs | apply Hs].
Qed.
End TopQ.
Print Assumptions wm_quantile_spec.
