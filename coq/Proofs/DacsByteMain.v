(* Proofs/DacsByteMain.v — property C11: DacsByte is lossless.
   from_slice never panics (for usize values, fewer than 2^50 of them), builds one
   configuration-independent value with ceil(bitlen(max)/8) levels of 8 bits whose level lists are
   the pure decomposition of Proofs/DacsLevels.v; len, num_levels, widths, access (every index in
   usize) and the iterator agree with the plain list. *)
From Sucds Require Import Base.Res Spec.BitSpec Spec.SeqSpec Spec.DacSpec
  Model.BitVector Model.Rank9 Model.CompactVector Model.Dacs
  Proofs.ResLemmas Proofs.BVAbs Proofs.BVMutLemmas Proofs.BVMut Proofs.BVHistory
  Proofs.IndexSpecs Proofs.R9Main Proofs.DP_Hist Proofs.IterGeneric Proofs.DacsLevels.
From Coq Require Import ZArith ZifyN ZifyBool ZifyNat Lia.
Ltac Zify.zify_post_hook ::= Z.div_mod_to_equations.
Open Scope N_scope.

(* the representation: level lists and flag indexes of the pure decomposition *)
Definition db_rep (d : dacsbyte) (ws vals : list N) : Prop :=
  db_data d = lv_chunks ws vals /\ Forall2 fl_rel (db_flags d) (lv_flags ws vals).

Lemma db_rep_unique d d' ws vals : db_rep d ws vals -> db_rep d' ws vals -> d = d'.
Proof.
  intros [D F] [D' F']. destruct d as [dd df], d' as [dd' df']. cbn [db_data db_flags] in *.
  f_equal; [congruence | eapply fl_rel_unique; eassumption].
Qed.



(* ------------------------------------------------------------------ *)
(* build: one value through the levels                                  *)

Lemma db_push_unfold c f nl j x data flags :
  db_push_levels c (S f) nl j x data flags =
  (_ <- assert_ (j <? lenN data) ;;
   let byte := N.land x LEVEL_MASK in
   let data := upd_nth data j (fun l => l ++ [byte]) [] in
   x <- shr c x LEVEL_WIDTH ;;
   nl1 <- sub c nl 1 ;;
   if j =? nl1 then (_ <- assert_ (x =? 0) ;; Ok (data, flags))
   else
     _ <- assert_ (j <? lenN flags) ;;
     fj <- push_bit c (nthN flags j bv_empty) (negb (x =? 0)) ;;
     let flags := setN flags j fj in
     if x =? 0 then Ok (data, flags)
     else db_push_levels c f nl (j + 1) x data flags).
Proof. reflexivity. Qed.

Lemma db_push_ok c : forall k fuel nl j x xs dpre fpre bvs,
  (k <= fuel)%nat -> (1 <= k)%nat -> nl = j + N.of_nat k ->
  lenN dpre = j -> lenN fpre = j ->
  Forall2 bv_rel bvs (lv_flags (repeat 8 k) xs) ->
  x < 2 ^ (8 * N.of_nat k) -> lenN xs + 1 < 2 ^ 56 ->
  exists bvs',
    db_push_levels c fuel nl j x (dpre ++ lv_chunks (repeat 8 k) xs) (fpre ++ bvs)
    = Ok (dpre ++ lv_chunks (repeat 8 k) (xs ++ [x]), fpre ++ bvs') /\
    Forall2 bv_rel bvs' (lv_flags (repeat 8 k) (xs ++ [x])).
Proof.
  induction k as [|k IH]; intros fuel nl j x xs dpre fpre bvs Hf Hk Hnl Hd Hfl HR Hx Hlen; [lia|].
  destruct fuel as [|f]; [lia|].
  rewrite db_push_unfold. cbn [repeat] in *. rewrite !lv_chunks_cons.
  rewrite assert_ok by (apply N.ltb_lt, lenN_app_cons_gt; exact Hd). cbn [bind]. cbv zeta.
  unfold upd_nth. rewrite (nthN_app_mid dpre _ _ j [] Hd), (setN_app_cons dpre _ _ j _ Hd).
  unfold LEVEL_WIDTH, LEVEL_MASK. rewrite land_255.
  rewrite shr_ok by lia. cbn [bind]. fold (hi 8 x).
  rewrite sub_ok by lia. cbn [bind].
  destruct k as [|k].
  - (* last level *)
    rewrite (proj2 (N.eqb_eq j (nl - 1))) by lia.
    assert (H0 : hi 8 x = 0) by (apply hi_small; exact Hx).
    rewrite H0. cbn [assert_ N.eqb bind repeat lv_chunks]. exists bvs. split.
    + rewrite map_app. reflexivity.
    + exact HR.
  - rewrite (proj2 (N.eqb_neq j (nl - 1))) by lia.
    cbn [repeat] in HR. rewrite lv_flags_cons in HR.
    inversion HR as [|bv l0 brest ls0 Hbv HR']; subst bvs l0 ls0.
    rewrite assert_ok by (apply N.ltb_lt, lenN_app_cons_gt; exact Hfl). cbn [bind].
    destruct (push_flag_step c fpre bv brest (lv_flag 8 xs) (nz (hi 8 x)) j Hfl Hbv) as [bv' [E [Hbv' Es]]].
    { rewrite lenN_lv_flag. exact Hlen. }
    fold (nz (hi 8 x)). rewrite E. cbn [bind]. rewrite Es.
    cbn [repeat]. rewrite (lv_flags_cons 8 8 (repeat 8 k) (xs ++ [x])), lv_next_snoc.
    rewrite <- lv_flag_snoc in Hbv'.
    destruct (N.eqb_spec (hi 8 x) 0) as [H0|H0].
    + exists (bv' :: brest). split.
      * rewrite map_app. reflexivity.
      * constructor; [exact Hbv' | exact HR'].
    + rewrite (app_snoc_cons dpre), (app_snoc_cons fpre).
      destruct (IH f nl (j + 1) (hi 8 x) (lv_next 8 xs) (dpre ++ [map (lo 8) xs ++ [lo 8 x]]) (fpre ++ [bv']) brest)
        as [bvs' [E' HR'']].
      * lia.
      * lia.
      * lia.
      * rewrite lenN_app. change (lenN [map (lo 8) xs ++ [lo 8 x]]) with 1. lia.
      * rewrite lenN_app. change (lenN [bv']) with 1. lia.
      * exact HR'.
      * apply hi_lt. replace (8 + 8 * N.of_nat (S k)) with (8 * N.of_nat (S (S k))) by lia. exact Hx.
      * pose proof (lenN_lv_next 8 xs). lia.
      * cbn [repeat] in E'. rewrite E'. exists (bv' :: bvs'). split.
        -- rewrite map_app, <- !app_assoc. reflexivity.
        -- constructor; [exact Hbv' | exact HR''].
Qed.

(* all values *)
Lemma db_fold_ok c (L : N) : forall l pre bvs,
  1 <= L ->
  Forall (fun x => x < 2 ^ (8 * L)) l -> lenN pre + lenN l < 2 ^ 50 ->
  Forall2 bv_rel bvs (lv_flags (repeat 8 (N.to_nat L)) pre) ->
  exists bvs',
    fold_res (fun df x => db_push_levels c (N.to_nat L) L 0 x (fst df) (snd df)) l
             (lv_chunks (repeat 8 (N.to_nat L)) pre, bvs)
    = Ok (lv_chunks (repeat 8 (N.to_nat L)) (pre ++ l), bvs') /\
    Forall2 bv_rel bvs' (lv_flags (repeat 8 (N.to_nat L)) (pre ++ l)).
Proof.
  induction l as [|x l IH]; intros pre bvs HL Hall Hlen HR.
  - exists bvs. rewrite app_nil_r. split; [reflexivity | exact HR].
  - inversion Hall as [|? ? Hx Hall']; subst. rewrite lenN_cons in Hlen.
    cbn [fold_res fst snd].
    destruct (db_push_ok c (N.to_nat L) (N.to_nat L) L 0 x pre [] [] bvs) as [bvs1 [E1 HR1]];
      try first [reflexivity | lia | exact HR].
    cbn [app] in E1. rewrite E1. cbn [bind].
    destruct (IH (pre ++ [x]) bvs1 HL Hall') as [bvs2 [E2 HR2]].
    + rewrite lenN_app. change (lenN [x]) with 1. lia.
    + exact HR1.
    + rewrite <- app_assoc in E2, HR2. exists bvs2. split; [exact E2 | exact HR2].
Qed.

(* ------------------------------------------------------------------ *)
(* from_slice                                                           *)




Definition byte_ws (vals : list N) : list N := repeat 8 (N.to_nat (byte_levels vals)).

Lemma byte_levels_range vals : Forall (fun x => x < W) vals -> 1 <= byte_levels vals <= 8.
Proof.
  intro HW. unfold byte_levels. destruct vals as [|v vs]; [lia|].
  pose proof (bitlen_pos (max_list (v :: vs))). pose proof (bitlen_le_64 _ (max_list_lt_W _ HW)). lia.
Qed.

Theorem db_from_slice_rep c vals : Forall (fun x => x < W) vals -> lenN vals < 2 ^ 50 ->
  exists d, db_from_slice c vals = Ok d /\ db_rep d (byte_ws vals) vals.
Proof.
  intros HW Hlen. pose proof (byte_levels_range vals HW) as HLr.
  destruct vals as [|v vs].
  { exists db_default. split; [reflexivity|]. split; [reflexivity | constructor]. }
  unfold db_from_slice. cbv beta iota zeta.
  change (fold_left N.max (v :: vs) 0) with (max_list (v :: vs)).
  set (vals := v :: vs) in *.
  set (B := bitlen (max_list vals)).
  pose proof (max_list_lt_W vals HW) as HmW.
  pose proof (bitlen_pos (max_list vals)) as HB1. pose proof (bitlen_le_64 _ HmW) as HB64. fold B in HB1, HB64.
  assert (EL : byte_levels vals = (B + 7) / 8) by reflexivity.
  rewrite needed_bits_ok by exact HmW. cbn [bind]. fold B.
  unfold ceiled_divide, LEVEL_WIDTH.
  rewrite add_ok by (unfold W; lia). cbn [bind]. rewrite sub_ok by lia. cbn [bind].
  rewrite div_ok by discriminate. cbn [bind].
  replace ((B + 8 - 1) / 8) with (byte_levels vals) by (rewrite EL; f_equal; lia).
  set (L := byte_levels vals) in *.
  rewrite assert_ok by (apply negb_true_iff, N.eqb_neq; lia). cbn [bind].
  assert (Hcover : B <= 8 * L) by lia.
  pose proof (vals_lt_pow vals (8 * L) Hcover) as Hall.
  unfold byte_ws. fold L.
  destruct (N.eqb_spec L 1) as [E1|E1].
  - (* a single level *)
    rewrite E1 in *. change (N.to_nat 1) with 1%nat. cbn [repeat].
    rewrite assert_ok.
    2:{ apply forallb_forall. intros x Hx. apply N.ltb_lt. rewrite Forall_forall in Hall.
        apply (Hall x Hx). }
    cbn [bind]. eexists. split; [reflexivity|]. split; [|constructor].
    cbn [db_data lv_chunks]. rewrite map_lo_small by exact Hall. reflexivity.
  - rewrite sub_ok by lia. cbn [bind].
    set (ws := repeat 8 (N.to_nat L)).
    assert (Hws : length ws = N.to_nat L) by apply repeat_length.
    replace (repeat [] (N.to_nat L)) with (lv_chunks ws ([] : list N)) by (rewrite lv_chunks_nil, Hws; reflexivity).
    destruct (db_fold_ok c L vals [] (repeat bv_empty (N.to_nat (L - 1)))) as [bvs [E HR]].
    + lia.
    + exact Hall.
    + change (lenN []) with 0. lia.
    + fold ws. rewrite lv_flags_nil, Hws. replace (N.to_nat L - 1)%nat with (N.to_nat (L - 1)) by lia.
      apply Forall2_repeat, bv_rel_empty.
    + fold ws in E, HR. cbn [app] in E, HR. rewrite E. cbn [bind fst snd].
      destruct (r9_new_all c bvs (lv_flags ws vals) [] HR) as [E2 HF].
      { eapply Forall_impl; [|apply lv_flags_lens]. cbn beta. intros l Hl.
        change (2 ^ 50) with 1125899906842624 in Hlen. change (2 ^ 56) with 72057594037927936. lia. }
      rewrite E2. cbn [bind app]. eexists. split; [reflexivity|]. split; [reflexivity | exact HF].
Qed.

(* ------------------------------------------------------------------ *)
(* access                                                               *)

Lemma db_access_unfold c f d j pos x :
  db_access_loop c (S f) d j pos x =
  (lv <- idx [] (db_data d) j ;;
   b <- idx 0 lv pos ;;
   sh <- mul c j LEVEL_WIDTH ;;
   t <- shl c b sh ;;
   let x := N.lor x t in
   nl1 <- sub c (db_num_levels d) 1 ;;
   if j =? nl1 then Ok x else
   fl <- idx {| r9_bv := bv_empty; r9_rs := {| r_len := 0; r_brp := []; r_h1 := None; r_h0 := None |} |}
           (db_flags d) j ;;
   a <- r9_access c fl pos ;; a <- unwrap a ;;
   if negb a then Ok x else
   p <- r9_rank1 c fl pos ;; p <- unwrap p ;;
   db_access_loop c f d (j + 1) p x).
Proof. reflexivity. Qed.


Lemma db_access_loop_ok c d : forall k fuel j pos x0 xs dpre fpre fls,
  (1 <= k)%nat -> (k <= fuel)%nat ->
  db_data d = dpre ++ lv_chunks (repeat 8 k) xs -> db_flags d = fpre ++ fls ->
  Forall2 fl_rel fls (lv_flags (repeat 8 k) xs) ->
  lenN dpre = j -> lenN fpre = j -> j * 8 + 8 * N.of_nat k <= 64 ->
  Forall (fun x => x < 2 ^ (8 * N.of_nat k)) xs -> lenN xs < 2 ^ 56 -> pos < lenN xs ->
  db_access_loop c fuel d j pos x0 = Ok (N.lor x0 (N.shiftl (nthN xs pos 0) (j * 8))).
Proof.
  induction k as [|k IH]; intros fuel j pos x0 xs dpre fpre fls Hk Hf HD HF HR Hd Hfl Hoff Hall Hlen Hpos; [lia|].
  destruct fuel as [|f]; [lia|].
  rewrite db_access_unfold.
  assert (Hnl : db_num_levels d = j + N.of_nat (S k)).
  { unfold db_num_levels. rewrite HD, lenN_app, lenN_lv_chunks. unfold lenN at 2. rewrite repeat_length. lia. }
  rewrite Hnl. rewrite HD, HF. cbn [repeat] in *. rewrite lv_chunks_cons.
  rewrite idx_ok by (apply lenN_app_cons_gt; exact Hd). cbn [bind].
  rewrite (nthN_app_mid dpre _ _ j [] Hd).
  rewrite idx_ok by (rewrite lenN_map; exact Hpos). cbn [bind].
  rewrite (nthN_map0 (lo 8) xs pos (lo_0 8)).
  set (x := nthN xs pos 0).
  assert (Hx : x < 2 ^ (8 * N.of_nat (S k))).
  { rewrite Forall_forall in Hall. apply Hall. unfold x, nthN. apply nth_In. unfold lenN in Hpos. lia. }
  unfold LEVEL_WIDTH. rewrite mul_ok by (unfold W; lia). cbn [bind].
  rewrite (shl_chunk c (lo 8 x) 8 (j * 8)) by (first [apply lo_lt | lia]). cbn [bind]. cbv zeta.
  rewrite sub_ok by lia. cbn [bind].
  destruct k as [|k].
  - rewrite (proj2 (N.eqb_eq j (j + N.of_nat 1 - 1))) by lia.
    rewrite lo_small by exact Hx. reflexivity.
  - rewrite (proj2 (N.eqb_neq j (j + N.of_nat (S (S k)) - 1))) by lia.
    cbn [repeat] in HR. rewrite lv_flags_cons in HR.
    inversion HR as [|fl l0 frest ls0 Hfl0 HR']; subst fls l0 ls0.
    rewrite idx_ok by (apply lenN_app_cons_gt; exact Hfl). cbn [bind].
    rewrite (nthN_app_mid fpre _ _ j _ Hfl).
    destruct (fl_read_level c fl 8 xs pos Hfl0 Hlen Hpos) as [EA ER].
    rewrite EA. cbn [bind unwrap]. fold x.
    destruct (nz (hi 8 x)) eqn:Enz; cbn [negb].
    + rewrite ER. cbn [bind unwrap].
      destruct (lv_step 8 xs pos Hpos Enz) as [Hp' Hn']. cbv zeta in Hp', Hn'.
      set (p' := BitSpec.count true (firstn (N.to_nat pos) (lv_flag 8 xs))) in *.
      rewrite (IH f (j + 1) p' _ (lv_next 8 xs) (dpre ++ [map (lo 8) xs]) (fpre ++ [fl]) frest).
      * rewrite Hn'. fold x. f_equal. replace ((j + 1) * 8) with (j * 8 + 8) by lia. apply lor_step.
      * lia.
      * lia.
      * rewrite HD, <- app_assoc. reflexivity.
      * rewrite HF, <- app_assoc. reflexivity.
      * exact HR'.
      * rewrite lenN_app. change (lenN [map (lo 8) xs]) with 1. lia.
      * rewrite lenN_app. change (lenN [fl]) with 1. lia.
      * lia.
      * apply lv_next_bound. replace (8 + 8 * N.of_nat (S k)) with (8 * N.of_nat (S (S k))) by lia. exact Hall.
      * pose proof (lenN_lv_next 8 xs). lia.
      * exact Hp'.
    + unfold nz in Enz. apply negb_false_iff, N.eqb_eq in Enz.
      rewrite (hi_zero_lo 8 x Enz). reflexivity.
Qed.

(* ------------------------------------------------------------------ *)
(* the queries of a represented value                                   *)

Section Queries.
Variables (d : dacsbyte) (vals : list N) (L : N).
Hypothesis HL : 1 <= L <= 8.
Hypothesis Hrep : db_rep d (repeat 8 (N.to_nat L)) vals.
Hypothesis Hall : Forall (fun x => x < 2 ^ (8 * L)) vals.
Hypothesis Hlen : lenN vals < 2 ^ 50.

Lemma db_data_shape : exists rest, db_data d = map (lo 8) vals :: rest.
Proof.
  destruct Hrep as [D _]. rewrite D.
  destruct (N.to_nat L) as [|k] eqn:E; [lia|]. cbn [repeat]. rewrite lv_chunks_cons. eauto.
Qed.

Lemma db_len_ok c : db_len c d = Ok (lenN vals).
Proof.
  destruct db_data_shape as [rest E]. unfold db_len. rewrite E.
  rewrite idx_ok by (rewrite lenN_cons; lia). cbn [bind].
  change (nthN (map (lo 8) vals :: rest) 0 []) with (map (lo 8) vals). rewrite lenN_map. reflexivity.
Qed.

Lemma db_num_levels_ok : db_num_levels d = L.
Proof.
  destruct Hrep as [D _]. unfold db_num_levels. rewrite D, lenN_lv_chunks. unfold lenN. rewrite repeat_length. lia.
Qed.

Lemma db_widths_ok : db_widths d = repeat 8 (N.to_nat L).
Proof.
  pose proof db_num_levels_ok as HN. unfold db_num_levels, lenN in HN.
  unfold db_widths, LEVEL_WIDTH. replace (N.to_nat L) with (length (db_data d)) by lia.
  generalize (db_data d) as l. induction l as [|a l IH]; cbn [map length repeat]; [reflexivity | rewrite IH; reflexivity].
Qed.

Lemma db_access_ok c i : i < W -> db_access c d i = Ok (nth_opt vals i).
Proof.
  intro Hi. unfold db_access. rewrite db_len_ok. cbn [bind].
  destruct (N.leb_spec (lenN vals) i) as [Hge|Hlt].
  - rewrite nth_opt_oob by exact Hge. reflexivity.
  - rewrite nth_opt_nthN by exact Hlt. rewrite db_num_levels_ok.
    destruct Hrep as [D F].
    rewrite (db_access_loop_ok c d (N.to_nat L) (N.to_nat L) 0 i 0 vals [] [] (db_flags d));
      try first [reflexivity | lia | exact D | exact F | exact Hlt].
    + cbn [bind]. rewrite N.lor_0_l. change (0 * 8) with 0. rewrite N.shiftl_0_r. reflexivity.
    + rewrite N2Nat.id. exact Hall.
Qed.

Lemma db_iter_next_ok c pos : pos < W ->
  db_iter_next c d pos = Ok (gstep (nth_opt vals) (lenN vals) pos).
Proof.
  intro Hpos. unfold db_iter_next. rewrite db_len_ok. cbn [bind].
  change (if pos <? lenN vals
          then a <- db_access c d pos ;; x <- unwrap a ;; p <- add c pos 1 ;; Ok (p, Some x)
          else Ok (pos, None))
    with (index_next c (db_access c d) (lenN vals) pos).
  apply index_next_step.
  - change (2 ^ 50) with 1125899906842624 in Hlen. change (2 ^ 56) with 72057594037927936. lia.
  - intros _. apply db_access_ok, Hpos.
  - intro H. rewrite nth_opt_nthN by exact H. discriminate.
Qed.

Lemma db_iter_ok c :
  iter_ok (nth_opt vals) (lenN vals) (db_iter_next c d) (iter_size_hint c (lenN vals)).
Proof.
  apply index_iter_ok.
  - change (2 ^ 50) with 1125899906842624 in Hlen. change (2 ^ 56) with 72057594037927936. lia.
  - intros pos Hpos. apply db_iter_next_ok, Hpos.
  - intros pos Hp. apply size_hint_ok, Hp.
Qed.
End Queries.

(* ------------------------------------------------------------------ *)
(* C11                                                                  *)

Lemma byte_cover vals : Forall (fun x => x < W) vals ->
  Forall (fun x => x < 2 ^ (8 * byte_levels vals)) vals.
Proof.
  intro HW. apply vals_lt_pow. unfold byte_levels. destruct vals as [|v vs].
  - vm_compute. discriminate.
  - lia.
Qed.

Theorem dacsbyte_lossless : forall vals,
  Forall (fun x => x < W) vals -> lenN vals < 2 ^ 50 ->
  exists d,
    (forall c, db_from_slice c vals = Ok d) /\
    (forall c, db_len c d = Ok (lenN vals)) /\
    db_num_levels d = byte_levels vals /\
    db_widths d = repeat 8 (N.to_nat (byte_levels vals)) /\
    (forall c i, i < W -> db_access c d i = Ok (nth_opt vals i)) /\
    (forall c pos, pos < W ->
       db_iter_next c d pos = Ok (if pos <? lenN vals then (pos + 1, nth_opt vals pos) else (pos, None))) /\
    (forall c, iter_ok (nth_opt vals) (lenN vals) (db_iter_next c d) (iter_size_hint c (lenN vals))).
Proof.
  intros vals HW Hlen.
  destruct (db_from_slice_rep {| dbg := true; intr := true |} vals HW Hlen) as [d [E0 Hrep]].
  pose proof (byte_levels_range vals HW) as HL. pose proof (byte_cover vals HW) as Hall.
  exists d. split; [|split; [|split; [|split; [|split; [|split]]]]].
  - intro c. destruct (db_from_slice_rep c vals HW Hlen) as [d' [E' Hrep']].
    rewrite E'. f_equal. eapply db_rep_unique; eassumption.
  - intro c. eapply db_len_ok; eassumption.
  - eapply db_num_levels_ok; eassumption.
  - eapply db_widths_ok; eassumption.
  - intros c i Hi. eapply db_access_ok; eassumption.
  - intros c pos Hpos. eapply db_iter_next_ok; eassumption.
  - intro c. eapply db_iter_ok; eassumption.
Qed.

(* ------------------------------------------------------------------ *)
(* a decidable check of the C11 statement on a concrete input, for the examples of Props/C11.v *)
Definition dacs_probes : list N := [0; 1; 2; 3; 4; 5; 6; 100; 18446744073709551615].
Definition opt_eqb (a b : option N) : bool :=
  match a, b with Some x, Some y => x =? y | None, None => true | _, _ => false end.
Definition db_check (c : cfg) (vals : list N) : bool :=
  forallb (fun x => x <? W) vals && (lenN vals <? 2 ^ 50) &&
  match db_from_slice c vals with
  | Panic => false
  | Ok d =>
    (match db_len c d with Ok n => n =? lenN vals | Panic => false end) &&
    (db_num_levels d =? byte_levels vals) &&
    (if list_eq_dec N.eq_dec (db_widths d) (repeat 8 (N.to_nat (byte_levels vals))) then true else false) &&
    forallb (fun i => match db_access c d i with Ok r => opt_eqb r (nth_opt vals i) | Panic => false end)
            dacs_probes
  end.
