(* Proofs/EFIter.v — property C04, iterator and binary search: the unary iterator over the high
   bits enumerates the set positions, `efi_next` yields the elements from index k on and then
   None forever, and `ef_binsearch_range` satisfies SeqSpec.binsearch_ok. *)
From Sucds Require Import Base.Res Spec.WordSpec Spec.BitSpec Spec.SeqSpec
  Model.BitVector Model.Unary Model.DArray Model.EliasFano
  Proofs.ResLemmas Proofs.BVAbs Proofs.WordLemmas Proofs.BVReads Proofs.BVReads2
  Proofs.BVMutLemmas Proofs.IndexSpecs Proofs.EFRep Proofs.EFQueries.
From Coq Require Import ZArith ZifyN ZifyBool ZifyNat Lia.
Ltac Zify.zify_post_hook ::= Z.div_mod_to_equations.
Open Scope N_scope.

(* ---------- word facts ---------- *)

Lemma tb_split a c n i : c < 2 ^ n ->
  N.testbit (a * 2 ^ n + c) i = if i <? n then N.testbit c i else N.testbit a (i - n).
Proof.
  intro Hc. assert (Hnz : 2 ^ n <> 0) by (apply N.pow_nonzero; discriminate).
  destruct (N.ltb_spec i n) as [H|H].
  - transitivity (N.testbit ((a * 2 ^ n + c) mod 2 ^ n) i).
    + rewrite testbit_mod_pow2. destruct (N.ltb_spec i n); [reflexivity | lia].
    + rewrite N.add_comm, N.mod_add, N.mod_small by assumption. reflexivity.
  - transitivity (N.testbit ((a * 2 ^ n + c) / 2 ^ n) (i - n)).
    + rewrite testbit_div_pow2. f_equal. lia.
    + rewrite N.div_add_l, N.div_small, N.add_0_r by assumption. reflexivity.
Qed.

(* clearing the lowest set bit *)
Lemma land_pred_lsb x r : N.testbit x r = true -> (forall j, j < r -> N.testbit x j = false) ->
  1 <= x /\ forall i, N.testbit (N.land x (x - 1)) i = (r <? i) && N.testbit x i.
Proof.
  intros Hr Hlow.
  assert (Hm : x mod 2 ^ (r + 1) = 2 ^ r).
  { apply N.bits_inj. intro i. rewrite testbit_mod_pow2, N.pow2_bits_eqb.
    destruct (N.ltb_spec i (r + 1)) as [H|H]; cbn [andb].
    - destruct (N.eqb_spec r i) as [<-|Hne]; [exact Hr | apply Hlow; lia].
    - destruct (N.eqb_spec r i); [lia | reflexivity]. }
  pose proof (split_pow2 x (r + 1)) as Sx. rewrite Hm in Sx.
  pose proof (pow2_pos r) as Hp.
  assert (Hlt : 2 ^ r < 2 ^ (r + 1)) by (apply N.pow_lt_mono_r; lia).
  set (a := x / 2 ^ (r + 1)) in *. clearbody a.
  split; [lia|]. intro i. rewrite N.land_spec.
  replace (x - 1) with (a * 2 ^ (r + 1) + (2 ^ r - 1)) by lia.
  rewrite Sx. rewrite !tb_split by lia.
  destruct (N.ltb_spec i (r + 1)) as [H|H].
  - rewrite N.pow2_bits_eqb, testbit_pow2_pred.
    destruct (N.eqb_spec r i); destruct (N.ltb_spec i r); destruct (N.ltb_spec r i); try lia; reflexivity.
  - destruct (N.ltb_spec r i); [|lia]. apply andb_diag.
Qed.

Lemma land_not63 p : p < W -> N.land p (not64 63) = 64 * (p / 64).
Proof.
  intro Hp. apply N.bits_inj. intro i. rewrite N.land_spec, tb_not64.
  change 63 with (N.ones 6). rewrite tb_ones.
  replace (64 * (p / 64)) with (p / 2 ^ 6 * 2 ^ 6) by (change (2 ^ 6) with 64; lia).
  rewrite testbit_mul_pow2, testbit_div_pow2.
  destruct (N.leb_spec 6 i) as [H6|H6]; cbn [andb].
  - replace (i - 6 + 6) with i by lia.
    destruct (N.ltb_spec i 6); destruct (N.ltb_spec i 64); try lia; cbn [xorb];
      rewrite ?andb_false_r, ?andb_true_r; try reflexivity.
    symmetry. apply (tb_W p i Hp). lia.
  - destruct (N.ltb_spec i 6); destruct (N.ltb_spec i 64); lia.
Qed.

Lemma skipn_nth_cons {A} (d : A) : forall n l, (n < length l)%nat -> skipn n l = nth n l d :: skipn (S n) l.
Proof.
  induction n as [|n IH]; intros l H; destruct l as [|x l]; cbn [length] in H; try lia; [reflexivity|].
  cbn [skipn nth]. rewrite IH by lia. reflexivity.
Qed.

Lemma next_scan_eq c after buf pos :
  next_scan c after buf pos =
  if buf =? 0 then
    p <- add c pos WORD_LEN ;;
    match after with [] => Ok (p, None) | x :: r => next_scan c r x p end
  else Ok (pos, Some buf).
Proof. destruct after; reflexivity. Qed.

(* ---------- the unary iterator ---------- *)

(* the iterator sits in word u_pos/64 and its buffer holds the bits of that word at absolute
   positions >= t *)
Definition ust (ws : list N) (it : uiter) (t : N) : Prop :=
  64 * (u_pos it / 64) <= t <= 64 * (u_pos it / 64) + 64 /\
  forall i, N.testbit (u_buf it) i =
    (i <? 64) && (t <=? 64 * (u_pos it / 64) + i) && N.testbit (nthN ws (u_pos it / 64) 0) i.

Lemma unary_new_ust bv pos : ust (bv_words bv) (unary_new bv pos) pos.
Proof.
  unfold ust, unary_new, WORD_LEN. cbn [u_pos u_buf]. split; [lia|]. intro i.
  assert (Ew : (if pos / 64 <? lenN (bv_words bv) then nthN (bv_words bv) (pos / 64) 0 else 0)
               = nthN (bv_words bv) (pos / 64) 0).
  { destruct (N.ltb_spec (pos / 64) (lenN (bv_words bv))) as [H|H]; [reflexivity|].
    symmetry. apply nthN_oob. exact H. }
  rewrite Ew. rewrite N.land_spec, wshl_spec by lia. rewrite testbit_shl64, testbit_MASK64.
  destruct (N.ltb_spec i 64) as [Hi|Hi]; cbn [andb]; [|apply andb_false_r].
  destruct (N.leb_spec (pos mod 64) i); destruct (N.leb_spec pos (64 * (pos / 64) + i)); try lia; cbn [andb].
  all: try (destruct (N.ltb_spec (i - pos mod 64) 64); [|lia]).
  all: rewrite ?andb_true_r, ?andb_false_r; try reflexivity.
Qed.

Section Unary.
Variables (c : cfg) (bv : bitvec) (q : N).
Hypothesis Hwf : wf bv.
Hypothesis Hq : q < bv_len bv.
Hypothesis Hcap : cap_ok bv.
Hypothesis Hbit : wbit (bv_words bv) q = true.
Notation ws := (bv_words bv).

Lemma q_block : q / 64 < lenN ws.
Proof. pose proof (wf_nwords bv Hwf). lia. Qed.

Lemma next_scan_ok : forall n blk buf pos t,
  q / 64 = blk + N.of_nat n -> pos / 64 = blk ->
  64 * blk <= t <= 64 * blk + 64 -> t <= q ->
  (forall j, t <= j < q -> wbit ws j = false) ->
  (forall i, N.testbit buf i = (i <? 64) && (t <=? 64 * blk + i) && N.testbit (nthN ws blk 0) i) ->
  exists buf', next_scan c (skipn (S (N.to_nat blk)) ws) buf pos = Ok (pos + 64 * N.of_nat n, Some buf') /\
    forall i, N.testbit buf' i = (i <? 64) && (t <=? 64 * (q / 64) + i) && N.testbit (nthN ws (q / 64) 0) i.
Proof.
  pose proof (cap_W bv Hcap) as HcW.
  induction n as [|n IH]; intros blk buf pos t Hblk Hpos Ht Htq Hnone Hbuf; rewrite next_scan_eq.
  - assert (Eb : q / 64 = blk) by lia. rewrite Eb.
    assert (Hne : buf <> 0).
    { intro E0. pose proof (Hbuf (q mod 64)) as G. rewrite E0, N.bits_0 in G.
      unfold wbit in Hbit. rewrite Eb in Hbit. rewrite Hbit in G.
      destruct (N.ltb_spec (q mod 64) 64); [|lia]. destruct (N.leb_spec t (64 * blk + q mod 64)); [|lia].
      discriminate. }
    destruct (N.eqb_spec buf 0) as [?|_]; [contradiction|].
    exists buf. split; [f_equal; f_equal; lia | exact Hbuf].
  - assert (E0 : buf = 0).
    { apply N.bits_inj. intro i. rewrite Hbuf, N.bits_0.
      destruct (N.ltb_spec i 64) as [Hi|Hi]; cbn [andb]; [|reflexivity].
      destruct (N.leb_spec t (64 * blk + i)) as [Hti|Hti]; cbn [andb]; [|reflexivity].
      rewrite <- (wbit_split ws blk i Hi). apply Hnone. lia. }
    rewrite E0. rewrite N.eqb_refl. unfold WORD_LEN. rewrite add_ok by (unfold W; lia). cbn [bind].
    pose proof q_block as Hqb.
    rewrite (skipn_nth_cons 0) by (unfold lenN in Hqb; lia).
    specialize (IH (blk + 1) (nth (S (N.to_nat blk)) ws 0) (pos + 64) (64 * (blk + 1))).
    replace (S (N.to_nat (blk + 1))) with (S (S (N.to_nat blk))) in IH by lia.
    destruct IH as [buf' [E Hb']]; try lia.
    + intros j Hj. apply Hnone. lia.
    + intro i. replace (nth (S (N.to_nat blk)) ws 0) with (nthN ws (blk + 1) 0)
        by (unfold nthN; f_equal; lia).
      destruct (N.ltb_spec i 64) as [Hi|Hi]; cbn [andb].
      * destruct (N.leb_spec (64 * (blk + 1)) (64 * (blk + 1) + i)); [reflexivity | lia].
      * apply tb_W; [apply wf_word_lt; exact Hwf | exact Hi].
    + exists buf'. split; [rewrite E; f_equal; f_equal; lia|].
      intro i. rewrite Hb'. destruct (N.ltb_spec i 64) as [Hi|Hi]; cbn [andb]; [|reflexivity].
      destruct (N.leb_spec (64 * (blk + 1)) (64 * (q / 64) + i)); destruct (N.leb_spec t (64 * (q / 64) + i)); try lia; reflexivity.
Qed.

Lemma unary_next_ok it t : ust ws it t -> t <= q ->
  (forall j, t <= j < q -> wbit ws j = false) ->
  exists it', unary_next c bv it = Ok (it', Some q) /\ ust ws it' (q + 1) /\ u_pos it' = q.
Proof.
  intros [Ht Hbuf] Htq Hnone. pose proof (cap_W bv Hcap) as HcW. pose proof q_block as Hqb.
  set (blk := u_pos it / 64) in *.
  assert (Hn : exists n, q / 64 = blk + N.of_nat n).
  { exists (N.to_nat (q / 64 - blk)). lia. }
  destruct Hn as [n Hn].
  destruct (next_scan_ok n blk (u_buf it) (u_pos it) t Hn eq_refl Ht Htq Hnone Hbuf) as [buf' [E Hb']].
  unfold unary_next, words_after, WORD_LEN. fold blk.
  destruct (N.ltb_spec blk (lenN ws)) as [_|?]; [|lia].
  rewrite E. cbn [bind].
  assert (Hbq : N.testbit buf' (q mod 64) = true).
  { rewrite Hb'. unfold wbit in Hbit. rewrite Hbit.
    destruct (N.ltb_spec (q mod 64) 64); [|lia]. destruct (N.leb_spec t (64 * (q / 64) + q mod 64)); [reflexivity | lia]. }
  assert (Hne : buf' <> 0) by (intro E0; rewrite E0, N.bits_0 in Hbq; discriminate).
  destruct (lsb_spec buf') as [r|] eqn:El; [|apply lsb_spec_None in El; contradiction].
  destruct (lsb_spec_Some _ _ El) as [Hr Hlow].
  assert (Er : r = q mod 64).
  { destruct (N.lt_trichotomy r (q mod 64)) as [H|[H|H]]; [exfalso | exact H | exfalso].
    - rewrite Hb' in Hr. destruct (N.ltb_spec r 64) as [Hr64|?]; [|lia].
      destruct (N.leb_spec t (64 * (q / 64) + r)) as [Htr|?]; [|discriminate]. cbn [andb] in Hr.
      rewrite <- (wbit_split ws (q / 64) r Hr64) in Hr. rewrite Hnone in Hr by lia. discriminate.
    - rewrite (Hlow _ H) in Hbq. discriminate. }
  destruct (land_pred_lsb buf' r Hr Hlow) as [Hge1 Hclr].
  cbn [unwrap bind]. rewrite sub_ok by exact Hge1. cbn [bind].
  assert (Hp : (u_pos it + 64 * N.of_nat n) / 64 = q / 64) by lia.
  rewrite land_not63 by (unfold W; lia). rewrite Hp.
  rewrite add_ok by (unfold W; lia). cbn [bind].
  assert (Enp : 64 * (q / 64) + r = q) by lia. rewrite Enp.
  eexists. split; [reflexivity|]. split; [|reflexivity].
  unfold ust. cbn [u_pos u_buf]. split; [lia|]. intro i.
  rewrite Hclr, Hb'. destruct (N.ltb_spec i 64) as [Hi|Hi]; cbn [andb]; [|apply andb_false_r].
  destruct (N.ltb_spec r i); destruct (N.leb_spec (q + 1) (64 * (q / 64) + i)); try lia; cbn [andb]; try reflexivity.
  all: destruct (N.leb_spec t (64 * (q / 64) + i)); [reflexivity | lia].
Qed.

End Unary.

(* ---------- the Elias-Fano iterator ---------- *)

(* n calls of next *)
Fixpoint efi_run (c : cfg) (e : eliasfano) (n : nat) (it : efiter) : res (efiter * list (option N)) :=
  match n with
  | O => Ok (it, [])
  | S n' => r <- efi_next c e it ;; t <- efi_run c e n' (fst r) ;; Ok (fst t, snd r :: snd t)
  end.
(* what n calls must return: the elements from index k on, then None forever *)
Definition iter_outputs (xs : list N) (k : N) (n : nat) : list (option N) :=
  map Some (firstn n (SeqSpec.ef_iter xs k)) ++ repeat None (n - length (SeqSpec.ef_iter xs k)).

Section Iter.
Variables (e : eliasfano) (xs : list N) (u : N).
Hypothesis R : ef_rep e xs u.
Notation l := (ef_low_len e).
Notation hbv := (da_bv (ef_high e)).
Notation ws := (bv_words (da_bv (ef_high e))).
Notation x j := (nthN xs j 0).
Notation h j := (nthN xs j 0 / 2 ^ ef_low_len e + j).

Definition low_ok (buf avail k : N) : Prop :=
  (l = 0 -> lenN xs <= avail + k) /\
  (l <> 0 -> forall j, j < avail -> k + j < lenN xs ->
             (buf / 2 ^ (j * l)) mod 2 ^ l = x (k + j) mod 2 ^ l).

Definition iter_inv (it : efiter) (k : N) : Prop :=
  i_k it = k /\ i_low_mask it = 2 ^ l - 1 /\
  i_chunks_in_word it = (if l =? 0 then 0 else 64 / l) /\
  low_ok (i_low_buf it) (i_chunks_avail it) k /\
  (k < lenN xs -> exists hit t, i_high it = Some hit /\ ust ws hit t /\ t <= h k /\
                  forall j, t <= j < h k -> wbit ws j = false).
Definition iter_done (it : efiter) : Prop := i_k it = lenN xs \/ i_high it = None.

Lemma gap_zero k j : k + 1 < lenN xs -> h k + 1 <= j < h (k + 1) -> wbit ws j = false.
Proof.
  intros Hk Hj. destruct (wbit ws j) eqn:E; [exfalso | reflexivity].
  apply (rep_wbit _ _ _ R) in E. destruct E as [i [Hi Ei]].
  destruct (N.le_gt_cases i k) as [H|H].
  - pose proof (h_mono_le e xs u R i k H ltac:(lia)). hlia.
  - pose proof (h_mono_le e xs u R (k + 1) i ltac:(lia) Hi). hlia.
Qed.

Lemma efi_new_ok c k : exists it, efi_new c e k = Ok it /\
  (k < lenN xs -> iter_inv it k) /\ (lenN xs <= k -> iter_done it).
Proof.
  pose proof (rep_l_lt _ _ _ R) as Hl. unfold efi_new.
  rewrite dassert_ok by (apply N.ltb_lt; exact Hl). cbn [bind].
  rewrite shl1_ok by exact Hl. cbn [bind]. pose proof (pow2_pos l). rewrite sub_ok by lia. cbn [bind].
  rewrite (rep_len _ _ _ R).
  assert (Eciw : (if negb (l =? 0) then div_ 64 l else Ok 0) = Ok (if l =? 0 then 0 else 64 / l)).
  { destruct (N.eqb_spec l 0) as [E0|E0]; cbn [negb]; [reflexivity | apply div_ok; exact E0]. }
  rewrite Eciw. cbn [bind].
  destruct (N.ltb_spec k (lenN xs)) as [Hk|Hk].
  - rewrite (rep_select1 _ _ _ R c k Hk). cbn [bind unwrap]. eexists. split; [reflexivity|].
    split; [intros _ | intro; lia].
    unfold iter_inv. cbn [i_k i_high i_low_buf i_low_mask i_chunks_in_word i_chunks_avail].
    split; [reflexivity|]. split; [reflexivity|]. split; [reflexivity|]. split.
    + split.
      * intro E0. rewrite E0. cbn [N.eqb negb]. rewrite N.eqb_refl. cbn [negb]. lia.
      * intros E0 j Hj. destruct (N.eqb_spec l 0) as [?|_]; [contradiction|]. cbn [negb] in Hj. lia.
    + intros _. exists (unary_new hbv (h k)), (h k). split; [reflexivity|].
      split; [apply unary_new_ust|]. split; [lia|]. intros j Hj. lia.
  - cbn [bind]. eexists. split; [reflexivity|]. split; [intro; lia|]. intros _. right. reflexivity.
Qed.

Lemma lows_nth j i : j < lenN xs -> i < l ->
  nth (N.to_nat (j * l + i)) (lows l xs) false = N.testbit (x j) i.
Proof.
  intros Hj Hi. pose proof (lows_chunk l xs j Hj) as C.
  apply (f_equal (fun L => nth (N.to_nat i) L false)) in C.
  rewrite nth_firstn_lt, nth_skipn', low_bits_nth in C by lia.
  rewrite N2Nat.id in C. rewrite <- C. f_equal. lia.
Qed.

Lemma word_chunks k j : l <> 0 -> j < 64 / l -> k + j < lenN xs ->
  (bits_val (firstn 64 (skipn (N.to_nat (k * l)) (lows l xs))) / 2 ^ (j * l)) mod 2 ^ l = x (k + j) mod 2 ^ l.
Proof.
  intros Hl0 Hj Hkj. apply N.bits_inj. intro i.
  rewrite !testbit_mod_pow2, testbit_div_pow2, testbit_bits_val.
  destruct (N.ltb_spec i l) as [Hi|Hi]; cbn [andb]; [|reflexivity].
  assert (Hb : (j + 1) * l <= 64).
  { apply (N.le_trans _ (64 / l * l)); [apply N.mul_le_mono_r; lia|].
    rewrite N.mul_comm. apply N.mul_div_le. exact Hl0. }
  rewrite nth_firstn_lt by lia. rewrite nth_skipn'.
  replace (N.to_nat (k * l) + N.to_nat (i + j * l))%nat with (N.to_nat ((k + j) * l + i)) by lia.
  apply lows_nth; assumption.
Qed.

Lemma refill_ok c it k : iter_inv it k -> k < lenN xs ->
  exists buf av,
    (if i_chunks_avail it =? 0 then
       (p <- mul c (i_k it) l ;;
        w <- get_word64 c (ef_low e) p ;; w <- unwrap w ;;
        a <- sub c (i_chunks_in_word it) 1 ;; Ok (w, a))
     else (a <- sub c (i_chunks_avail it) 1 ;; Ok (i_low_buf it, a))) = Ok (buf, av) /\
    low_ok buf (av + 1) k.
Proof.
  intros [Hik [Hmask [Hciw [[Hlow0 Hlow] Hhigh]]]] Hk.
  destruct (N.eqb_spec (i_chunks_avail it) 0) as [Ea|Ea].
  - assert (Hl0 : l <> 0) by (intro E0; specialize (Hlow0 E0); lia).
    pose proof (rep_low_cap _ _ _ R) as Hc. change (2 ^ 56) with 72057594037927936 in Hc.
    assert (Hkl : k * l < lenN xs * l) by (apply N.mul_lt_mono_pos_r; lia).
    rewrite Hik. rewrite mul_ok by (unfold W; lia). cbn [bind].
    rewrite get_word64_spec; [| exact (rep_lwf _ _ _ R) | exact (rep_lcap _ _ _ R) | unfold W; lia].
    cbn [bind]. unfold BitSpec.get_word64. rewrite (rep_lows _ _ _ R), lows_len.
    destruct (N.ltb_spec (k * l) (lenN xs * l)) as [_|?]; [|lia]. cbn [unwrap bind].
    rewrite Hciw. destruct (N.eqb_spec l 0) as [?|_]; [contradiction|].
    pose proof (rep_l_lt _ _ _ R) as Hl.
    assert (Hq : 1 <= 64 / l) by (apply N.div_le_lower_bound; [exact Hl0 | lia]).
    rewrite sub_ok by exact Hq. cbn [bind]. eexists _, _. split; [reflexivity|].
    replace (64 / l - 1 + 1) with (64 / l) by lia. split; [intro; contradiction|].
    intros _ j Hj Hkj. apply word_chunks; assumption.
  - rewrite sub_ok by lia. cbn [bind]. eexists _, _. split; [reflexivity|].
    replace (i_chunks_avail it - 1 + 1) with (i_chunks_avail it) by lia. split; assumption.
Qed.

Lemma efi_next_some c it k : iter_inv it k -> k < lenN xs ->
  exists it', efi_next c e it = Ok (it', Some (x k)) /\ iter_inv it' (k + 1).
Proof.
  intros Inv Hk. destruct (refill_ok c it k Inv Hk) as [buf [av [Est [Hlow0 Hlow]]]].
  destruct Inv as [Hik [Hmask [Hciw [_ Hhigh]]]].
  destruct (Hhigh Hk) as [hit [t [Ehi [Hust [Ht Hnone]]]]].
  pose proof (rep_l_lt _ _ _ R) as Hl. pose proof (len_lt_W e xs u R) as HlenW.
  unfold efi_next. rewrite Hik, (rep_len _ _ _ R), Ehi.
  destruct (N.eqb_spec k (lenN xs)) as [?|_]; [lia|].
  rewrite Hik in Est. rewrite Est. cbn [bind].
  destruct (unary_next_ok c hbv (h k) (rep_hwf _ _ _ R) (rep_h_lt _ _ _ R k Hk) (rep_hcap _ _ _ R)
              ltac:(apply (rep_wbit _ _ _ R); exists k; split; [exact Hk | reflexivity]) hit t Hust Ht Hnone)
    as [hit' [Enext [Hust' Hpos']]].
  rewrite Enext. cbn [bind snd fst unwrap].
  rewrite sub_ok by hlia. cbn [bind]. rewrite N.add_sub.
  rewrite (hi_shl e xs u R c k Hk). cbn [bind]. rewrite add_ok by (unfold W in *; lia). cbn [bind].
  rewrite shr_ok by exact Hl. cbn [bind].
  rewrite Hmask, land_low_mask.
  assert (Elow : buf mod 2 ^ l = x k mod 2 ^ l).
  { destruct (N.eq_dec l 0) as [E0|E0].
    - rewrite E0. change (2 ^ 0) with 1. rewrite !N.mod_1_r. reflexivity.
    - specialize (Hlow E0 0 ltac:(lia) ltac:(rewrite N.add_0_r; exact Hk)).
      rewrite N.mul_0_l in Hlow. change (2 ^ 0) with 1 in Hlow. rewrite N.div_1_r, N.add_0_r in Hlow. exact Hlow. }
  rewrite Elow. rewrite lor_add_low by apply mod_pow2_lt. rewrite <- split_pow2.
  eexists. split; [reflexivity|].
  unfold iter_inv. cbn [i_k i_high i_low_buf i_low_mask i_chunks_in_word i_chunks_avail].
  split; [reflexivity|]. split; [reflexivity|]. split; [exact Hciw|]. split.
  - split.
    + intro E0. specialize (Hlow0 E0). lia.
    + intros E0 j Hj Hkj. specialize (Hlow E0 (j + 1) ltac:(lia) ltac:(lia)).
      rewrite N.div_div by (apply N.pow_nonzero; discriminate). rewrite <- N.pow_add_r.
      replace (l + j * l) with ((j + 1) * l) by lia. replace (k + 1 + j) with (k + (j + 1)) by lia. exact Hlow.
  - intro Hk1. exists hit', (h k + 1). split; [reflexivity|]. split; [exact Hust'|].
    split; [pose proof (rep_h_mono _ _ _ R k (k + 1) ltac:(lia) Hk1); hlia|].
    intros j Hj. apply (gap_zero k j Hk1 Hj).
Qed.

Lemma efi_next_end c it : iter_inv it (lenN xs) \/ iter_done it ->
  exists it', efi_next c e it = Ok (it', None) /\ iter_done it'.
Proof.
  intro H. unfold efi_next. rewrite (rep_len _ _ _ R).
  assert (E : (if i_k it =? lenN xs then None else i_high it) = None).
  { destruct H as [[Hik _]|[Hik|Hhi]].
    - rewrite Hik, N.eqb_refl. reflexivity.
    - rewrite Hik, N.eqb_refl. reflexivity.
    - rewrite Hhi. destruct (i_k it =? lenN xs); reflexivity. }
  rewrite E. eexists. split; [reflexivity|]. right. reflexivity.
Qed.

Lemma efi_run_done c : forall n it, iter_inv it (lenN xs) \/ iter_done it ->
  exists it', efi_run c e n it = Ok (it', repeat None n).
Proof.
  induction n as [|n IH]; intros it H; [exists it; reflexivity|].
  destruct (efi_next_end c it H) as [it1 [E1 D1]]. cbn [efi_run]. rewrite E1. cbn [bind fst snd].
  destruct (IH it1 (or_intror D1)) as [it2 E2]. rewrite E2. cbn [bind fst snd repeat]. exists it2. reflexivity.
Qed.

Lemma skipn_cons_nthN k : k < lenN xs -> skipn (N.to_nat k) xs = x k :: skipn (N.to_nat (k + 1)) xs.
Proof.
  intro Hk. replace (N.to_nat (k + 1)) with (S (N.to_nat k)) by lia.
  apply (skipn_nth_cons 0). unfold lenN in Hk. lia.
Qed.

Lemma efi_run_inv c : forall n it k, k <= lenN xs -> iter_inv it k ->
  exists it', efi_run c e n it =
    Ok (it', map Some (firstn n (skipn (N.to_nat k) xs)) ++ repeat None (n - length (skipn (N.to_nat k) xs))).
Proof.
  induction n as [|n IH]; intros it k Hk Inv; [exists it; reflexivity|].
  destruct (N.eq_dec k (lenN xs)) as [Ek|Ek].
  - rewrite skipn_all2 by (unfold lenN in Ek; lia). cbn [firstn map app length]. rewrite Nat.sub_0_r.
    apply efi_run_done. left. rewrite <- Ek. exact Inv.
  - assert (Hk' : k < lenN xs) by lia.
    destruct (efi_next_some c it k Inv Hk') as [it1 [E1 Inv1]]. cbn [efi_run]. rewrite E1. cbn [bind fst snd].
    destruct (IH it1 (k + 1) ltac:(lia) Inv1) as [it2 E2]. rewrite E2. cbn [bind fst snd].
    exists it2. rewrite (skipn_cons_nthN k Hk'). cbn [firstn map app length]. reflexivity.
Qed.

(* iter(k) followed by n calls of next *)
Theorem efi_spec c k n : exists it it', efi_new c e k = Ok it /\
  efi_run c e n it = Ok (it', iter_outputs xs k n).
Proof.
  destruct (efi_new_ok c k) as [it [E [Hin Hout]]]. exists it. unfold iter_outputs, SeqSpec.ef_iter.
  destruct (N.ltb_spec k (lenN xs)) as [Hk|Hk].
  - destruct (efi_run_inv c n it k ltac:(lia) (Hin Hk)) as [it' E']. exists it'. split; [exact E | exact E'].
  - cbn [firstn map app length]. rewrite firstn_nil. cbn [map app]. rewrite Nat.sub_0_r.
    destruct (efi_run_done c n it (or_intror (Hout Hk))) as [it' E']. exists it'. split; [exact E | exact E'].
Qed.

End Iter.

(* ---------- binary search ---------- *)

Lemma existsb_false {A} (f : A -> bool) l : (forall y, In y l -> f y = false) -> existsb f l = false.
Proof.
  induction l as [|y l IH]; intro H; [reflexivity|]. cbn [existsb].
  rewrite (H y) by (left; reflexivity). apply IH. intros z Hz. apply H. right. exact Hz.
Qed.

Lemma len_lt_cap e xs u : ef_rep e xs u -> lenN xs < 72057594037927936.
Proof.
  intro R. pose proof (rep_hlen _ _ _ R) as HL. revert HL. generalize (u / 2 ^ ef_low_len e). intros dv HL.
  pose proof (rep_hcap _ _ _ R) as Hc. unfold cap_ok in Hc.
  change (2 ^ 56) with 72057594037927936 in Hc. lia.
Qed.

Section BinSearch.
Variables (e : eliasfano) (xs : list N) (u : N).
Hypothesis R : ef_rep e xs u.
Variables (c : cfg) (val : N).
Notation x j := (nthN xs j 0).

(* every occurrence of val in [a,b) lies in [lo,hi) *)
Definition occ_in (a b lo hi : N) : Prop := forall i, a <= i < b -> x i = val -> lo <= i < hi.

Definition bs_post (a b : N) (r : option N + N * N) : Prop :=
  match r with
  | inl (Some i) => a <= i < b /\ x i = val
  | inl None => False
  | inr (lo, hi) => a <= lo /\ lo <= hi /\ hi <= b /\ hi - lo <= 64 /\ occ_in a b lo hi
  end.

Lemma bs_loop a b : b <= lenN xs -> forall n lo hi,
  a <= lo -> lo <= hi -> hi <= b -> occ_in a b lo hi -> hi - lo <= 64 * 2 ^ N.of_nat n ->
  exists r, iter_fuel (S n) (bs_step c e val) (lo, hi) = Ok r /\ bs_post a b r.
Proof.
  intro Hb. pose proof (len_lt_cap e xs u R) as HlenW.
  induction n as [|n IH]; intros lo hi Hlo Hlh Hhi Hocc Hd.
  - cbn [iter_fuel]. unfold bs_step, LINEAR_SCAN_THRESHOLD. rewrite sub_ok by exact Hlh. cbn [bind].
    change (2 ^ N.of_nat 0) with 1 in Hd.
    destruct (N.ltb_spec 64 (hi - lo)) as [?|_]; [lia|]. cbn [bind].
    eexists. split; [reflexivity|]. cbn [bs_post].
    split; [exact Hlo|]. split; [exact Hlh|]. split; [exact Hhi|]. split; [lia | exact Hocc].
  - cbn [iter_fuel]. unfold bs_step at 1. unfold LINEAR_SCAN_THRESHOLD. rewrite sub_ok by exact Hlh. cbn [bind].
    destruct (N.ltb_spec 64 (hi - lo)) as [Hbig|Hsmall].
    2:{ cbn [bind]. eexists. split; [reflexivity|]. cbn [bs_post].
        split; [exact Hlo|]. split; [exact Hlh|]. split; [exact Hhi|]. split; [lia | exact Hocc]. }
    rewrite add_ok by (unfold W in *; lia). cbn [bind].
    set (mi := (lo + hi) / 2).
    assert (Hmi : lo <= mi < hi) by (unfold mi; lia).
    rewrite (ef_select_spec e xs u R c mi). unfold SeqSpec.ef_select.
    rewrite nth_opt_in by lia. cbn [bind unwrap].
    assert (Hpow : 2 ^ N.of_nat (S n) = 2 * 2 ^ N.of_nat n).
    { rewrite Nat2N.inj_succ. apply N.pow_succ_r'. }
    rewrite Hpow in Hd.
    destruct (N.eqb_spec val (x mi)) as [Eq|Ne].
    + cbn [bind]. eexists. split; [reflexivity|]. cbn [bs_post]. split; [lia | symmetry; exact Eq].
    + destruct (N.ltb_spec val (x mi)) as [Hlt|Hge]; cbn [bind].
      * apply IH; try lia.
        intros i Hi Ei. specialize (Hocc i Hi Ei). split; [lia|].
        destruct (N.lt_ge_cases i mi) as [H|H]; [exact H|]. exfalso.
        pose proof (rep_x_mono e xs u R mi i H ltac:(lia)). lia.
      * rewrite add_ok by (unfold W in *; lia). cbn [bind]. apply IH; try lia.
        intros i Hi Ei. specialize (Hocc i Hi Ei). split; [|lia].
        destruct (N.lt_ge_cases mi i) as [H|H]; [lia|]. exfalso.
        pose proof (rep_x_mono e xs u R i mi H ltac:(lia)). lia.
Qed.

Lemma bs_linear_ok : forall n i it, i + N.of_nat n <= lenN xs -> (i < lenN xs -> iter_inv e xs it i) ->
  exists r, bs_linear c e val n i it = Ok r /\
    match r with
    | Some j => i <= j < i + N.of_nat n /\ x j = val
    | None => forall j, i <= j < i + N.of_nat n -> x j <> val
    end.
Proof.
  induction n as [|n IH]; intros i it Hn Hinv.
  - exists None. split; [reflexivity|]. intros j Hj. lia.
  - assert (Hi : i < lenN xs) by lia.
    destruct (efi_next_some e xs u R c it i (Hinv Hi) Hi) as [it' [E Inv']].
    cbn [bs_linear]. rewrite E. cbn [bind snd fst unwrap].
    destruct (N.eqb_spec val (x i)) as [Eq|Ne].
    + exists (Some i). split; [reflexivity|]. split; [lia | symmetry; exact Eq].
    + destruct (IH (i + 1) it' ltac:(lia) (fun _ => Inv')) as [r [Er Hr]]. exists r. split; [exact Er|].
      destruct r as [j|].
      * destruct Hr as [Hj Ej]. split; [lia | exact Ej].
      * intros j Hj. destruct (N.eq_dec j i) as [->|Hne]; [intro Ej; apply Ne; symmetry; exact Ej|].
        apply Hr. lia.
Qed.

Lemma sub_In a b y : In y (firstn (N.to_nat (b - a)) (skipn (N.to_nat a) xs)) ->
  exists j, a <= j < b /\ j < lenN xs /\ y = x j.
Proof.
  intro H. destruct (In_nthN _ _ 0 H) as [i [Hi Ei]].
  rewrite lenN_firstn, lenN_skipn in Hi.
  exists (a + i). split; [lia|]. split; [lia|]. rewrite <- Ei. unfold nthN.
  rewrite nth_firstn_lt by lia. rewrite nth_skipn'. f_equal. lia.
Qed.

Theorem ef_binsearch_range_spec rs re :
  exists r, ef_binsearch_range c e rs re val = Ok r /\ binsearch_ok xs rs re val r = true.
Proof.
  unfold ef_binsearch_range. rewrite (rep_len _ _ _ R).
  destruct (N.leb_spec re rs) as [H1|H1]; cbn [orb].
  { exists None. split; [reflexivity|]. unfold binsearch_ok, occurs_in.
    destruct (N.ltb_spec rs re); [lia | reflexivity]. }
  destruct (N.ltb_spec (lenN xs) re) as [H2|H2].
  { exists None. split; [reflexivity|]. unfold binsearch_ok, occurs_in.
    destruct (N.leb_spec re (lenN xs)); [lia|]. rewrite andb_false_r. reflexivity. }
  pose proof (len_lt_cap e xs u R) as HlenW.
  destruct (bs_loop rs re H2 65 rs re (N.le_refl _) ltac:(lia) (N.le_refl _)) as [r [Er Hr]].
  { intros i Hi _. exact Hi. }
  { change (64 * 2 ^ N.of_nat 65) with 2361183241434822606848. lia. }
  change (iter_fuel 66) with (@iter_fuel (N * N) (option N + N * N) 66).
  rewrite Er. cbn [bind].
  destruct r as [[i|]|[lo hi]]; cbn [bs_post] in Hr.
  - exists (Some i). split; [reflexivity|]. destruct Hr as [Hi Ei]. unfold binsearch_ok.
    rewrite nth_opt_in by lia. rewrite Ei, N.eqb_refl.
    destruct (N.leb_spec rs i); [|lia]. destruct (N.ltb_spec i re); [|lia]. destruct (N.leb_spec re (lenN xs)); [reflexivity | lia].
  - destruct Hr.
  - destruct Hr as [Hlo [Hlh [Hhi [Hd Hocc]]]].
    destruct (efi_new_ok e xs u R c lo) as [it [Enew [Hin _]]]. rewrite Enew. cbn [bind].
    destruct (bs_linear_ok (N.to_nat (hi - lo)) lo it ltac:(lia) Hin) as [r [Er' Hr']].
    exists r. split; [exact Er'|]. unfold binsearch_ok. destruct r as [j|].
    + destruct Hr' as [Hj Ej]. rewrite nth_opt_in by lia. rewrite Ej, N.eqb_refl.
      destruct (N.leb_spec rs j); [|lia]. destruct (N.ltb_spec j re); [|lia]. destruct (N.leb_spec re (lenN xs)); [reflexivity | lia].
    + unfold occurs_in. rewrite existsb_false; [rewrite andb_false_r; reflexivity|].
      intros y Hy. destruct (sub_In rs re y Hy) as [j [Hj [Hjl Ey]]]. subst y.
      apply N.eqb_neq. destruct (N.eq_dec (x j) val) as [Ej|Ej]; [|exact Ej]. exfalso.
      specialize (Hocc j Hj Ej). apply (Hr' j ltac:(lia) Ej).
Qed.

Corollary ef_binsearch_spec :
  exists r, ef_binsearch c e val = Ok r /\ binsearch_ok xs 0 (lenN xs) val r = true.
Proof. unfold ef_binsearch. rewrite (rep_len _ _ _ R). apply ef_binsearch_range_spec. Qed.

End BinSearch.

Print Assumptions unary_next_ok.
Print Assumptions efi_spec.
Print Assumptions efi_next_some.
Print Assumptions ef_binsearch_range_spec.
Print Assumptions ef_binsearch_spec.
