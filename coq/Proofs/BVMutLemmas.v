(* Proofs/BVMutLemmas.v — helpers for C07 part b (BitVector constructions and mutations):
   bit-level facts on words, indexing facts on `upd_last` / `setN` / `overwrite` / `low_bits`,
   and the introduction / elimination rules that tie `wf` + `bits_of` to the bit function `wbit`. *)
From Sucds Require Import Base.Res Spec.WordSpec Spec.BitSpec Model.BitVector Proofs.ResLemmas Proofs.BVAbs.
From Coq Require Import ZArith ZifyN ZifyBool ZifyNat Lia.
Ltac Zify.zify_post_hook ::= Z.div_mod_to_equations.
Open Scope N_scope.

(* ---------- bits of words ---------- *)

Lemma tb_ones n j : N.testbit (N.ones n) j = (j <? n).
Proof.
  destruct (N.ltb_spec j n) as [H|H].
  - apply N.ones_spec_low. exact H.
  - apply N.ones_spec_high. exact H.
Qed.

Lemma tb_shiftl a n j : N.testbit (N.shiftl a n) j = (n <=? j) && N.testbit a (j - n).
Proof.
  destruct (N.leb_spec n j) as [H|H]; cbn [andb].
  - apply N.shiftl_spec_high'. exact H.
  - apply N.shiftl_spec_low. exact H.
Qed.

Lemma tb_shiftr a n j : N.testbit (N.shiftr a n) j = N.testbit a (j + n).
Proof. apply N.shiftr_spec'. Qed.

Lemma tb_zero j : N.testbit 0 j = false.
Proof. apply N.bits_0. Qed.

Lemma tb_b2n b j : N.testbit (b2n b) j = b && (j =? 0).
Proof.
  destruct b; cbn [b2n andb].
  - destruct (N.eqb_spec j 0) as [->|H]; [reflexivity|].
    change 1 with (2 ^ 0). apply N.pow2_bits_false. lia.
  - apply N.bits_0.
Qed.

Lemma tb_one j : N.testbit 1 j = (j =? 0).
Proof. apply (tb_b2n true). Qed.

Lemma tb_high a n j : a < 2 ^ n -> n <= j -> N.testbit a j = false.
Proof.
  intros Ha Hj. rewrite <- (N.mod_small a (2 ^ n)) by exact Ha.
  apply N.mod_pow2_bits_high. exact Hj.
Qed.

Lemma lt_pow2_of_bits a n : (forall j, n <= j -> N.testbit a j = false) -> a < 2 ^ n.
Proof.
  intro H. assert (E : a = a mod 2 ^ n).
  { apply N.bits_inj. intro j. destruct (N.lt_ge_cases j n) as [Hj|Hj].
    - rewrite N.mod_pow2_bits_low by exact Hj. reflexivity.
    - rewrite N.mod_pow2_bits_high by exact Hj. apply H. exact Hj. }
  rewrite E. apply N.mod_lt. apply N.pow_nonzero. discriminate.
Qed.

Lemma tb_W a j : a < W -> 64 <= j -> N.testbit a j = false.
Proof. rewrite W_eq. apply tb_high. Qed.
Lemma lt_W_of_bits a : (forall j, 64 <= j -> N.testbit a j = false) -> a < W.
Proof. rewrite W_eq. apply lt_pow2_of_bits. Qed.

Lemma tb_not64 m j : N.testbit (not64 m) j = xorb (N.testbit m j) (j <? 64).
Proof. unfold not64. rewrite N.lxor_spec, MASK64_eq, tb_ones. reflexivity. Qed.

Lemma tb_MASK64 j : N.testbit MASK64 j = (j <? 64).
Proof. rewrite MASK64_eq. apply tb_ones. Qed.

Lemma land_ones64_lt a : N.land a (N.ones 64) < W.
Proof. rewrite N.land_ones, W_eq. apply N.mod_lt. apply N.pow_nonzero. discriminate. Qed.

Lemma lor_lt_W a b : a < W -> b < W -> N.lor a b < W.
Proof.
  intros Ha Hb. apply lt_W_of_bits. intros j Hj.
  rewrite N.lor_spec, (tb_W a j Ha Hj), (tb_W b j Hb Hj). reflexivity.
Qed.
Lemma land_lt_W_l a b : a < W -> N.land a b < W.
Proof.
  intros Ha. apply lt_W_of_bits. intros j Hj.
  rewrite N.land_spec, (tb_W a j Ha Hj). reflexivity.
Qed.
Lemma land_lt_W_r a b : b < W -> N.land a b < W.
Proof. intro Hb. rewrite N.land_comm. apply land_lt_W_l. exact Hb. Qed.
Lemma shiftr_lt_W a s : a < W -> N.shiftr a s < W.
Proof.
  intro Ha. apply lt_W_of_bits. intros j Hj. rewrite tb_shiftr. apply tb_W; [exact Ha | lia].
Qed.
Lemma b2n_lt_W b : b2n b < W.
Proof. destruct b; reflexivity. Qed.
Lemma MASK64_lt_W : MASK64 < W.
Proof. reflexivity. Qed.

(* ---------- stepping lemmas in shift / mask form ---------- *)

Lemma shl_ok' c a s : s < 64 -> shl c a s = Ok (N.land (N.shiftl a s) (N.ones 64)).
Proof. intro H. unfold shl. apply N.ltb_lt in H. rewrite H. reflexivity. Qed.
Lemma shr_ok' c a s : s < 64 -> shr c a s = Ok (N.shiftr a s).
Proof. intro H. unfold shr. apply N.ltb_lt in H. rewrite H. reflexivity. Qed.

Lemma len_mask_ok c len : len <= 64 -> len_mask c len = Ok (N.ones len).
Proof.
  intro H. unfold len_mask, WORD_LEN. destruct (N.ltb_spec len 64) as [Hl|Hl].
  - rewrite shl_ok_small.
    + cbn [bind]. rewrite sub_ok.
      * rewrite N.ones_equiv, N.mul_1_l, N.sub_1_r. reflexivity.
      * rewrite N.mul_1_l. assert (2 ^ len <> 0) by (apply N.pow_nonzero; discriminate). lia.
    + exact Hl.
    + rewrite N.mul_1_l, W_eq. apply N.pow_lt_mono_r; [reflexivity | exact Hl].
  - replace len with 64 by lia. reflexivity.
Qed.

Lemma words_for_ok c n : n + 64 < W -> words_for c n = Ok ((n + 63) / 64).
Proof.
  intro H. unfold words_for, WORD_LEN. rewrite add_ok by exact H. cbn [bind].
  rewrite sub_ok by lia. cbn [bind]. f_equal. f_equal. lia.
Qed.

(* ---------- lists ---------- *)

Lemma nthN_oob {A} (l : list A) i d : lenN l <= i -> nthN l i d = d.
Proof. unfold nthN, lenN. intro H. apply nth_overflow. lia. Qed.

Lemma nthN_last {A} (l : list A) x d : nthN (l ++ [x]) (lenN l) d = x.
Proof. rewrite nthN_app_r by lia. rewrite N.sub_diag. reflexivity. Qed.

Lemma lenN_upd_last {A} (f : A -> A) l : lenN (upd_last f l) = lenN l.
Proof.
  induction l as [|x l IH]; [reflexivity|].
  destruct l as [|y l]; [reflexivity|].
  change (upd_last f (x :: y :: l)) with (x :: upd_last f (y :: l)).
  rewrite !lenN_cons in *. rewrite IH. reflexivity.
Qed.

Lemma upd_last_snoc {A} (f : A -> A) l x : upd_last f (l ++ [x]) = l ++ [f x].
Proof.
  induction l as [|y l IH]; [reflexivity|].
  cbn [app]. destruct (l ++ [x]) as [|z r] eqn:E.
  - destruct l; discriminate.
  - change (upd_last f (y :: z :: r)) with (y :: upd_last f (z :: r)). rewrite IH. reflexivity.
Qed.

Lemma snoc_of_nonempty {A} (l : list A) : lenN l <> 0 -> exists l' x, l = l' ++ [x].
Proof.
  intro H. destruct l as [|y l]; [exfalso; apply H; reflexivity|].
  exists (removelast (y :: l)), (last (y :: l) y). apply app_removelast_last. discriminate.
Qed.

Lemma nthN_upd_last {A} (f : A -> A) l i d : lenN l <> 0 ->
  nthN (upd_last f l) i d = if i =? lenN l - 1 then f (nthN l i d) else nthN l i d.
Proof.
  intro H. destruct (snoc_of_nonempty l H) as [l' [x ->]].
  rewrite upd_last_snoc, lenN_app. change (lenN [x]) with 1.
  replace (lenN l' + 1 - 1) with (lenN l') by lia.
  destruct (N.eqb_spec i (lenN l')) as [->|Hne].
  - rewrite !nthN_last. reflexivity.
  - destruct (N.lt_ge_cases i (lenN l')) as [Hlt|Hge].
    + rewrite !nthN_app_l by exact Hlt. reflexivity.
    + rewrite !nthN_oob by (rewrite lenN_app; change (lenN [f x]) with 1; change (lenN [x]) with 1; lia).
      reflexivity.
Qed.

Lemma Forall_upd_last {A} (P : A -> Prop) f l :
  Forall P l -> (forall x, P x -> P (f x)) -> Forall P (upd_last f l).
Proof.
  intros Hl Hf. induction l as [|x l IH]; [constructor|].
  destruct l as [|y l].
  - constructor; [apply Hf; inversion Hl; assumption | constructor].
  - change (upd_last f (x :: y :: l)) with (x :: upd_last f (y :: l)).
    inversion Hl as [|? ? Hx Hr]; subst. constructor; [exact Hx | apply IH; exact Hr].
Qed.

Lemma Forall_nthN {A} (P : A -> Prop) l i d : Forall P l -> P d -> P (nthN l i d).
Proof.
  intros Hl Hd. unfold nthN. revert l Hl. induction (N.to_nat i) as [|n IH]; intros l Hl.
  - destruct Hl; [exact Hd | assumption].
  - destruct Hl as [|x l Hx Hr]; [exact Hd | apply IH; exact Hr].
Qed.

Lemma length_set_nth {A} n (l : list A) x : length (set_nth n l x) = length l.
Proof.
  revert n. induction l as [|y l IH]; intro n; [destruct n; reflexivity|].
  destruct n as [|n]; cbn [set_nth length]; [reflexivity | rewrite IH; reflexivity].
Qed.
Lemma lenN_setN {A} (l : list A) i x : lenN (setN l i x) = lenN l.
Proof. unfold lenN, setN. rewrite length_set_nth. reflexivity. Qed.

Lemma nth_set_nth {A} n (l : list A) x k d : (n < length l)%nat ->
  nth k (set_nth n l x) d = if Nat.eqb k n then x else nth k l d.
Proof.
  revert n k. induction l as [|y l IH]; intros n k Hn; [cbn [length] in Hn; lia|].
  destruct n as [|n]; cbn [set_nth].
  - destruct k as [|k]; reflexivity.
  - destruct k as [|k]; [reflexivity|]. cbn [nth]. rewrite IH by (cbn [length] in Hn; lia).
    reflexivity.
Qed.
Lemma nthN_setN {A} (l : list A) i x k d : i < lenN l ->
  nthN (setN l i x) k d = if k =? i then x else nthN l k d.
Proof.
  unfold nthN, setN, lenN. intro H. rewrite nth_set_nth by lia.
  destruct (N.eqb_spec k i) as [->|Hne].
  - rewrite Nat.eqb_refl. reflexivity.
  - destruct (Nat.eqb_spec (N.to_nat k) (N.to_nat i)) as [E|_]; [lia | reflexivity].
Qed.

Lemma Forall_set_nth {A} (P : A -> Prop) n l x : Forall P l -> P x -> Forall P (set_nth n l x).
Proof.
  intros Hl Hx. revert n. induction Hl as [|y l Hy Hr IH]; intro n.
  - destruct n; constructor.
  - destruct n as [|n]; cbn [set_nth]; constructor; try assumption. apply IH.
Qed.
Lemma Forall_setN {A} (P : A -> Prop) l i x : Forall P l -> P x -> Forall P (setN l i x).
Proof. apply Forall_set_nth. Qed.

Lemma Forall_snoc {A} (P : A -> Prop) l x : Forall P l -> P x -> Forall P (l ++ [x]).
Proof. intros Hl Hx. apply Forall_app. split; [exact Hl | constructor; [exact Hx | constructor]]. Qed.

Lemma nth_firstn_lt {A} (l : list A) n k d : (k < n)%nat -> nth k (firstn n l) d = nth k l d.
Proof.
  revert n k. induction l as [|x l IH]; intros n k Hk.
  - rewrite firstn_nil. reflexivity.
  - destruct n as [|n]; [lia|]. cbn [firstn]. destruct k as [|k]; [reflexivity|]. cbn [nth]. apply IH. lia.
Qed.

Lemma nth_repeat_ite {A} (x d : A) n k : nth k (repeat x n) d = if (k <? n)%nat then x else d.
Proof.
  revert k. induction n as [|n IH]; intro k.
  - destruct k; reflexivity.
  - cbn [repeat]. destruct k as [|k]; [reflexivity|]. cbn [nth]. rewrite IH.
    destruct (Nat.ltb_spec k n); destruct (Nat.ltb_spec (S k) (S n)); try reflexivity; lia.
Qed.

(* ---------- low_bits / overwrite (spec side) ---------- *)

Lemma low_bits_bits_n n v : low_bits n v = bits_n n v.
Proof. revert v. induction n as [|n IH]; intro v; [reflexivity|]. cbn [low_bits bits_n]. rewrite IH. reflexivity. Qed.
Lemma low_bits_length n v : length (low_bits n v) = n.
Proof. rewrite low_bits_bits_n. apply bits_n_length. Qed.
Lemma low_bits_nth n v i : (i < n)%nat -> nth i (low_bits n v) false = N.testbit v (N.of_nat i).
Proof. rewrite low_bits_bits_n. apply bits_n_nth. Qed.

Lemma nth_skipn' {A} (l : list A) n k d : nth k (skipn n l) d = nth (n + k) l d.
Proof.
  revert l. induction n as [|n IH]; intro l; [reflexivity|].
  destruct l as [|x l]; [destruct k; reflexivity|]. cbn [skipn Nat.add nth]. apply IH.
Qed.

Lemma overwrite_0 l new : overwrite l 0 new = new ++ skipn (length new) l.
Proof. destruct l; reflexivity. Qed.

Lemma overwrite_length l pos new : (pos + length new <= length l)%nat ->
  length (overwrite l pos new) = length l.
Proof.
  revert l. induction pos as [|p IH]; intros l H.
  - rewrite overwrite_0. rewrite app_length, skipn_length. lia.
  - destruct l as [|x l]; [reflexivity|]. cbn [overwrite length]. rewrite IH; [reflexivity|].
    cbn [length] in H. lia.
Qed.

Lemma overwrite_nth l pos new k (d : bool) : (pos + length new <= length l)%nat ->
  nth k (overwrite l pos new) d =
  if ((pos <=? k) && (k <? pos + length new))%nat then nth (k - pos) new d else nth k l d.
Proof.
  revert l k. induction pos as [|p IH]; intros l k H.
  - rewrite overwrite_0. rewrite Nat.sub_0_r. cbn [Nat.leb andb Nat.add].
    destruct (Nat.ltb_spec k (length new)) as [Hk|Hk].
    + apply app_nth1. exact Hk.
    + rewrite app_nth2 by exact Hk. rewrite nth_skipn'. f_equal. lia.
  - destruct l as [|x l]; [cbn [length] in H; lia|]. cbn [overwrite].
    destruct k as [|k]; [reflexivity|]. cbn [nth]. rewrite IH by (cbn [length] in H; lia).
    reflexivity.
Qed.

(* ---------- wbit ---------- *)

Lemma wbit_oob ws i : 64 * lenN ws <= i -> wbit ws i = false.
Proof. intro H. unfold wbit. rewrite nthN_oob by lia. apply tb_zero. Qed.

(* ---------- the abstraction through the bit function ---------- *)

(* elimination: a well-formed value shows its abstract bits at every index *)
Lemma wbit_bits_of bv i : wf bv -> wbit (bv_words bv) i = nth (N.to_nat i) (bits_of bv) false.
Proof.
  intro Hwf. destruct (N.lt_ge_cases i (bv_len bv)) as [Hlt|Hge].
  - symmetry. apply bits_of_nth; assumption.
  - destruct Hwf as [Hl [Hf Hz]]. rewrite Hz by exact Hge.
    symmetry. apply nth_overflow.
    pose proof (bits_of_length bv (conj Hl (conj Hf Hz))) as E. unfold lenN in E. lia.
Qed.

(* introduction: the four facts that make a value well-formed with abstraction l *)
Lemma rep_intro ws n l :
  lenN ws = (n + 63) / 64 ->
  Forall (fun w => w < W) ws ->
  n = lenN l ->
  (forall i, wbit ws i = nth (N.to_nat i) l false) ->
  wf {| bv_words := ws; bv_len := n |} /\ bits_of {| bv_words := ws; bv_len := n |} = l.
Proof.
  intros Hlen Hall Hn Hbit.
  assert (Hwf : wf {| bv_words := ws; bv_len := n |}).
  { split; [exact Hlen | split; [exact Hall|]]. cbn [bv_words bv_len]. intros i Hi.
    rewrite Hbit. apply nth_overflow. unfold lenN in Hn. lia. }
  split; [exact Hwf|].
  pose proof (bits_of_length _ Hwf) as HL. cbn [bv_len] in HL.
  apply (nth_ext _ _ false false).
  - unfold lenN in *. lia.
  - intros k Hk.
    replace k with (N.to_nat (N.of_nat k)) by lia.
    rewrite bits_of_nth; [| exact Hwf | cbn [bv_len]; unfold lenN in HL; lia].
    cbn [bv_words]. apply Hbit.
Qed.

(* a boolean-if form of nth on the spec lists *)
Lemma nth_app_ite {A} (l m : list A) k d :
  nth k (l ++ m) d = if (k <? length l)%nat then nth k l d else nth (k - length l) m d.
Proof.
  destruct (Nat.ltb_spec k (length l)) as [H|H]; [apply app_nth1 | apply app_nth2]; exact H.
Qed.

(* ---------- N-indexed reading of the spec lists ---------- *)

Lemma nthN_snoc_spec (s : list bool) b i :
  nth (N.to_nat i) (s ++ [b]) false =
  if i <? lenN s then nth (N.to_nat i) s false else (i =? lenN s) && b.
Proof.
  rewrite nth_app_ite. unfold lenN.
  destruct (Nat.ltb_spec (N.to_nat i) (length s)) as [H|H];
  destruct (N.ltb_spec i (N.of_nat (length s))) as [H'|H']; try lia; [reflexivity|].
  destruct (N.eqb_spec i (N.of_nat (length s))) as [E|E]; cbn [andb].
  - replace (N.to_nat i - length s)%nat with 0%nat by lia. reflexivity.
  - destruct (N.to_nat i - length s)%nat as [|k] eqn:Ek; [lia|]. destruct k; reflexivity.
Qed.

Lemma nthN_app_low_spec (s : list bool) n v i :
  nth (N.to_nat i) (s ++ low_bits (N.to_nat n) v) false =
  if i <? lenN s then nth (N.to_nat i) s false else (i - lenN s <? n) && N.testbit v (i - lenN s).
Proof.
  rewrite nth_app_ite. unfold lenN.
  destruct (Nat.ltb_spec (N.to_nat i) (length s)) as [H|H];
  destruct (N.ltb_spec i (N.of_nat (length s))) as [H'|H']; try lia; [reflexivity|].
  destruct (N.ltb_spec (i - N.of_nat (length s)) n) as [Hn|Hn]; cbn [andb].
  - rewrite low_bits_nth by lia. f_equal. lia.
  - apply nth_overflow. rewrite low_bits_length. lia.
Qed.

Lemma nthN_overwrite_low_spec (s : list bool) pos n v i : pos + n <= lenN s ->
  nth (N.to_nat i) (overwrite s (N.to_nat pos) (low_bits (N.to_nat n) v)) false =
  if (pos <=? i) && (i <? pos + n) then N.testbit v (i - pos) else nth (N.to_nat i) s false.
Proof.
  intro H. unfold lenN in H. rewrite overwrite_nth by (rewrite low_bits_length; lia).
  rewrite low_bits_length.
  destruct (Nat.leb_spec (N.to_nat pos) (N.to_nat i)) as [H1|H1];
  destruct (N.leb_spec pos i) as [H1'|H1']; try lia; cbn [andb]; [|reflexivity].
  destruct (Nat.ltb_spec (N.to_nat i) (N.to_nat pos + N.to_nat n)) as [H2|H2];
  destruct (N.ltb_spec i (pos + n)) as [H2'|H2']; try lia; [|reflexivity].
  rewrite low_bits_nth by lia. f_equal. lia.
Qed.

Lemma nthN_overwrite_one_spec (s : list bool) pos b i : pos < lenN s ->
  nth (N.to_nat i) (overwrite s (N.to_nat pos) [b]) false =
  if i =? pos then b else nth (N.to_nat i) s false.
Proof.
  intro H. unfold lenN in H. rewrite overwrite_nth by (cbn [length]; lia). cbn [length].
  destruct (N.eqb_spec i pos) as [->|Hne].
  - rewrite Nat.leb_refl. cbn [andb].
    destruct (Nat.ltb_spec (N.to_nat pos) (N.to_nat pos + 1)) as [_|H2]; [|lia].
    rewrite Nat.sub_diag. reflexivity.
  - destruct (Nat.leb_spec (N.to_nat pos) (N.to_nat i)) as [H1|H1]; cbn [andb]; [|reflexivity].
    destruct (Nat.ltb_spec (N.to_nat i) (N.to_nat pos + 1)) as [H2|H2]; [lia | reflexivity].
Qed.

Lemma nthN_repeat_spec (b : bool) n i :
  nth (N.to_nat i) (repeat b (N.to_nat n)) false = (i <? n) && b.
Proof.
  rewrite nth_repeat_ite.
  destruct (Nat.ltb_spec (N.to_nat i) (N.to_nat n)) as [H|H];
  destruct (N.ltb_spec i n) as [H'|H']; try lia; reflexivity.
Qed.

Lemma lenN_overwrite l pos new : pos + lenN new <= lenN l -> lenN (overwrite l (N.to_nat pos) new) = lenN l.
Proof. unfold lenN. intro H. rewrite overwrite_length by lia. reflexivity. Qed.
Lemma lenN_low_bits n v : lenN (low_bits (N.to_nat n) v) = n.
Proof. unfold lenN. rewrite low_bits_length. lia. Qed.
Lemma lenN_repeatN {A} (x : A) n : lenN (repeat x (N.to_nat n)) = n.
Proof. rewrite lenN_repeat. lia. Qed.

Lemma nthN_snoc {A} (l : list A) x j d :
  nthN (l ++ [x]) j d = if j <? lenN l then nthN l j d else if j =? lenN l then x else d.
Proof.
  destruct (N.ltb_spec j (lenN l)) as [H|H]; [apply nthN_app_l; exact H|].
  destruct (N.eqb_spec j (lenN l)) as [->|Hne]; [apply nthN_last|].
  apply nthN_oob. rewrite lenN_app. change (lenN [x]) with 1. lia.
Qed.

Lemma ones_lt_W n : n <= 64 -> N.ones n < W.
Proof.
  intro H. rewrite W_eq, N.ones_equiv.
  assert (2 ^ n <= 2 ^ 64) by (apply N.pow_le_mono_r; [discriminate | exact H]). lia.
Qed.

Lemma overwrite_nil l pos : overwrite l pos [] = l.
Proof.
  revert l. induction pos as [|p IH]; intro l.
  - rewrite overwrite_0. reflexivity.
  - destruct l as [|x l]; [reflexivity|]. cbn [overwrite]. rewrite IH. reflexivity.
Qed.

Lemma nthN_repeat {A} (x d : A) n j : nthN (repeat x (N.to_nat n)) j d = if j <? n then x else d.
Proof.
  unfold nthN. rewrite nth_repeat_ite.
  destruct (Nat.ltb_spec (N.to_nat j) (N.to_nat n)); destruct (N.ltb_spec j n); try lia; reflexivity.
Qed.
Lemma Forall_repeat {A} (P : A -> Prop) x n : P x -> Forall P (repeat x n).
Proof. intro H. induction n as [|n IH]; cbn [repeat]; constructor; assumption. Qed.
