(* Proofs/MethodsTie.v — every function of gen/MethodsGen.v (regenerated from the Rust source on every
   run by tools/translate.py, section "loop-free methods") is equal to the hand-written model function,
   for every configuration and every argument (DESIGN.md section 5.1).  A change to one of these Rust
   functions changes the generated definition and re-opens exactly one of the lemmas below, by name. *)
From Sucds Require Import Base.Res Spec.WordSpec Model.BitVector Model.Rank9 Model.DArray Model.EliasFano
  Model.CompactVector Model.Wavelet gen.ConstsGen gen.MethodsGen Proofs.ResLemmas.
From Coq Require Import ZArith ZifyN ZifyBool Lia.
Open Scope N_scope.

(* ---------------------------------------------------------------------------------------------
   list facts used by the state-passing translation of `v[i] op= e` (read, then setN)
   --------------------------------------------------------------------------------------------- *)
Lemma set_nth_length {A} n (l : list A) x : length (set_nth n l x) = length l.
Proof. revert n; induction l as [|y r IH]; intros [|n]; cbn; auto. Qed.

Lemma set_nth_set_nth {A} n (l : list A) x y : set_nth n (set_nth n l x) y = set_nth n l y.
Proof. revert n; induction l as [|z r IH]; intros [|n]; cbn; auto. now rewrite IH. Qed.

Lemma nth_set_nth_same {A} n (l : list A) x d : (n < length l)%nat -> nth n (set_nth n l x) d = x.
Proof.
  revert n; induction l as [|z r IH]; intros [|n] H; cbn in *; try lia; auto. apply IH; lia.
Qed.

Lemma setN_setN_same {A} (l : list A) i x y : setN (setN l i x) i y = setN l i y.
Proof. apply set_nth_set_nth. Qed.

Lemma lenN_setN {A} (l : list A) i x : lenN (setN l i x) = lenN l.
Proof. unfold lenN, setN. now rewrite set_nth_length. Qed.

Lemma idx_setN_same {A} (d : A) l i x v : idx d l i = Ok v -> idx d (setN l i x) i = Ok x.
Proof.
  unfold idx. rewrite lenN_setN. destruct (i <? lenN l) eqn:E; [|discriminate]. intros _.
  f_equal. unfold nthN, setN. apply nth_set_nth_same.
  apply N.ltb_lt in E. unfold lenN in E. lia.
Qed.

(* ---------------------------------------------------------------------------------------------
   the generic stepping tactic: both sides are straight-line monadic code over the same primitives;
   destruct the next closed scrutinee (a primitive's result, a comparison, an option), simplify,
   repeat.  `Panic` carries no payload, so the order of two failing checks does not matter.
   --------------------------------------------------------------------------------------------- *)
Ltac norm :=
  cbn [bind fst snd negb andb orb
       bv_words bv_len r_len r_brp r_h1 r_h0 cv_chunks cv_len cv_width
       da_bv da_s1 da_s0 da_r9 ef_high ef_low ef_low_len ef_universe] in *.

Ltac atom b :=
  lazymatch b with
  | negb ?x => atom x
  | andb ?x _ => atom x
  | orb ?x _ => atom x
  | true => fail
  | false => fail
  | _ => destruct b eqn:?
  end.

Ltac list_facts :=
  repeat match goal with
  | |- context [setN (setN ?l ?i ?x) ?i ?y] => rewrite (setN_setN_same l i x y)
  | H : idx ?d ?l ?i = Ok ?v |- context [idx ?d (setN ?l ?i ?x) ?i] =>
      rewrite (idx_setN_same d l i x v H)
  end.

Ltac scrut m :=
  lazymatch m with
  | Ok _ => fail
  | Panic => fail
  | bind ?m' _ => scrut m'
  | (if ?b then _ else _) => atom b
  | (match ?o with Some _ => _ | None => _ end) => destruct o eqn:?
  | _ => destruct m eqn:?
  end.

Ltac step :=
  list_facts;
  match goal with
  | |- ?x = ?x => reflexivity
  | |- context [bind ?m _] => scrut m
  | |- context [if ?b then _ else _] => atom b
  | |- context [match ?o with Some _ => _ | None => _ end] => destruct o eqn:?
  end; norm.

Ltac steps := norm; repeat step.

Ltac consts := unfold bit_vector_WORD_LEN, rank9_BLOCK_LEN, BitVector.WORD_LEN, Rank9.BLOCK_LEN in *.

(* ---------------------------------------------------------------------------------------------
   utils.rs
   --------------------------------------------------------------------------------------------- *)
Lemma tie_utils_needed_bits : forall c x, utils_needed_bits c x = CompactVector.needed_bits c x.
Proof. intros. unfold utils_needed_bits, needed_bits. steps. Qed.

Lemma tie_utils_ceiled_divide : forall c x y, utils_ceiled_divide c x y = CompactVector.ceiled_divide c x y.
Proof. intros. unfold utils_ceiled_divide, ceiled_divide. steps. Qed.

(* ---------------------------------------------------------------------------------------------
   bit_vector.rs
   --------------------------------------------------------------------------------------------- *)
Lemma tie_bit_vector_words_for : forall c n, bit_vector_words_for c n = BitVector.words_for c n.
Proof. intros. unfold bit_vector_words_for, words_for. consts. steps. Qed.

(* the model has no functions for the getters: they are the projections.  (These ties are also what
   justifies the "pure" accessor entries of MODEL_CALLEES in tools/translate.py, i.e. the translation of
   `bv.num_bits()`, `bv.words()`, `self.bv.len()`, `self.s1.num_ones()`, ... in other modules.) *)
Lemma tie_bit_vector_len : forall c bv, bit_vector_len c bv = Ok (bv_len bv).
Proof. reflexivity. Qed.
Lemma tie_bit_vector_num_words : forall c bv, bit_vector_num_words c bv = Ok (lenN (bv_words bv)).
Proof. reflexivity. Qed.
Lemma tie_bit_vector_words : forall c bv, bit_vector_words c bv = Ok (bv_words bv).
Proof. reflexivity. Qed.
Lemma tie_bit_vector_num_bits : forall c bv, bit_vector_num_bits c bv = Ok (bv_len bv).
Proof. reflexivity. Qed.

Lemma tie_bit_vector_get_bit : forall c bv pos, bit_vector_get_bit c bv pos = BitVector.get_bit c bv pos.
Proof. intros. unfold bit_vector_get_bit, get_bit. consts. steps. Qed.

Lemma tie_bit_vector_access : forall c bv pos, bit_vector_access c bv pos = BitVector.access c bv pos.
Proof. intros. unfold bit_vector_access, access, get_bit. consts. steps. Qed.

Lemma tie_bit_vector_set_bit : forall c bv pos bit,
  bit_vector_set_bit c bv pos bit = BitVector.set_bit c bv pos bit.
Proof. intros. unfold bit_vector_set_bit, set_bit, bit_vector_len. consts. steps. Qed.

Lemma tie_bit_vector_push_bit : forall c bv bit, bit_vector_push_bit c bv bit = BitVector.push_bit c bv bit.
Proof. intros. unfold bit_vector_push_bit, push_bit. consts. steps. Qed.

(* `pos.checked_add(len).map_or(true, |end| self.len() < end)` against the model's unbounded `len < pos + len`:
   equal when the stored length is a usize *)
Lemma checked_add_range : forall a b l, l < W ->
  match checked_add a b with None => Ok true | Some e => Ok (l <? e) end = Ok (l <? a + b).
Proof.
  intros a b l Hl. unfold checked_add. destruct (a + b <? W) eqn:E; [reflexivity|].
  apply N.ltb_ge in E. f_equal. symmetry. apply N.ltb_lt. lia.
Qed.

Lemma tie_bit_vector_get_bits : forall c bv pos len, bv_len bv < W ->
  bit_vector_get_bits c bv pos len = BitVector.get_bits c bv pos len.
Proof.
  intros c bv pos len Hl. unfold bit_vector_get_bits, get_bits, len_mask, bit_vector_len. consts.
  norm. rewrite (checked_add_range pos len (bv_len bv) Hl). steps.
Qed.

Lemma tie_bit_vector_set_bits : forall c bv pos bits len, bv_len bv < W ->
  bit_vector_set_bits c bv pos bits len = BitVector.set_bits c bv pos bits len.
Proof.
  intros c bv pos bits len Hl. unfold bit_vector_set_bits, set_bits, len_mask, bit_vector_len. consts.
  norm. rewrite (checked_add_range pos len (bv_len bv) Hl). steps.
Qed.

Lemma tie_bit_vector_push_bits : forall c bv bits len,
  bit_vector_push_bits c bv bits len = BitVector.push_bits c bv bits len.
Proof. intros. unfold bit_vector_push_bits, push_bits, len_mask. consts. steps. Qed.

(* `shift != 0 && block + 1 < self.words.len()`: Rust does not evaluate `block + 1` when `shift == 0`; the model
   computes it unconditionally.  `block = pos / 64` with `pos < len`, so the sum cannot overflow when the
   stored length is a usize. *)
Lemma tie_bit_vector_get_word64 : forall c bv pos, bv_len bv < W ->
  bit_vector_get_word64 c bv pos = BitVector.get_word64 c bv pos.
Proof.
  intros c bv pos Hl. unfold bit_vector_get_word64, get_word64. consts. norm.
  destruct (bv_len bv <=? pos) eqn:E; [reflexivity|]. apply N.leb_gt in E.
  rewrite (add_ok c (pos / 64) 1) by (unfold W in *; lia).
  steps.
Qed.

Lemma tie_bit_vector_rank0 : forall c bv pos, bit_vector_rank0 c bv pos = BitVector.rank0 c bv pos.
Proof. intros. unfold bit_vector_rank0, BitVector.rank0. steps. Qed.

Lemma tie_bit_vector_num_ones : forall c bv, bit_vector_num_ones c bv = BitVector.num_ones c bv.
Proof. intros. unfold bit_vector_num_ones, BitVector.num_ones. steps. Qed.

(* BitVector::with_capacity has no model function (the model uses bv_empty): the generated code also
   evaluates words_for(capa), whose `capa + 63` is checked arithmetic *)
Lemma tie_bit_vector_with_capacity : forall c capa,
  bit_vector_with_capacity c capa = (_ <- BitVector.words_for c capa ;; Ok bv_empty).
Proof. intros. unfold bit_vector_with_capacity. rewrite tie_bit_vector_words_for. reflexivity. Qed.

(* ---------------------------------------------------------------------------------------------
   rank9sel/inner.rs
   --------------------------------------------------------------------------------------------- *)
Lemma tie_rank9_num_ones : forall c r, rank9_num_ones c r = Rank9.num_ones c r.
Proof. intros. unfold rank9_num_ones, Rank9.num_ones. steps. Qed.

Lemma tie_rank9_num_zeros : forall c r, rank9_num_zeros c r = Rank9.num_zeros c r.
Proof. intros. unfold rank9_num_zeros, Rank9.num_zeros. rewrite tie_rank9_num_ones. steps. Qed.

Lemma tie_rank9_num_blocks : forall c r, rank9_num_blocks c r = Rank9.num_blocks c r.
Proof. intros. unfold rank9_num_blocks, Rank9.num_blocks. steps. Qed.

Lemma tie_rank9_block_rank : forall c r block, rank9_block_rank c r block = Rank9.block_rank c r block.
Proof. intros. unfold rank9_block_rank, Rank9.block_rank. steps. Qed.

Lemma tie_rank9_sub_block_ranks : forall c r block,
  rank9_sub_block_ranks c r block = Rank9.sub_block_ranks c r block.
Proof. intros. unfold rank9_sub_block_ranks, Rank9.sub_block_ranks. steps. Qed.

Lemma tie_rank9_sub_block_rank : forall c r sub_bpos,
  rank9_sub_block_rank c r sub_bpos = Rank9.sub_block_rank c r sub_bpos.
Proof.
  intros. unfold rank9_sub_block_rank, Rank9.sub_block_rank.
  rewrite tie_rank9_block_rank, tie_rank9_sub_block_ranks. consts. steps.
Qed.

Lemma tie_rank9_block_rank0 : forall c r block, rank9_block_rank0 c r block = Rank9.block_rank0 c r block.
Proof. intros. unfold rank9_block_rank0, Rank9.block_rank0. rewrite tie_rank9_block_rank. consts. steps. Qed.

Lemma tie_rank9_rank1 : forall c r bv pos, rank9_rank1 c r bv pos = Rank9.rank1 c r bv pos.
Proof.
  intros. unfold rank9_rank1, Rank9.rank1. rewrite tie_rank9_num_ones, tie_rank9_sub_block_rank. steps.
Qed.

Lemma tie_rank9_rank0 : forall c r bv pos, rank9_rank0 c r bv pos = Rank9.rank0 c r bv pos.
Proof. intros. unfold rank9_rank0, Rank9.rank0. rewrite tie_rank9_rank1. steps. Qed.

(* ---------------------------------------------------------------------------------------------
   wavelet_matrix.rs
   --------------------------------------------------------------------------------------------- *)
Lemma tie_wavelet_matrix_get_msb : forall c val pos width,
  wavelet_matrix_get_msb c val pos width = Wavelet.get_msb c val pos width.
Proof. intros. unfold wavelet_matrix_get_msb, Wavelet.get_msb. steps. Qed.

(* ---------------------------------------------------------------------------------------------
   compact_vector.rs
   --------------------------------------------------------------------------------------------- *)
Lemma tie_compact_vector_len : forall c v, compact_vector_len c v = Ok (cv_len v).
Proof. reflexivity. Qed.
Lemma tie_compact_vector_width : forall c v, compact_vector_width c v = Ok (cv_width v).
Proof. reflexivity. Qed.

(* the model's `new` is pure (None = Err) *)
Lemma tie_compact_vector_new : forall c width, compact_vector_new c width = Ok (cv_new width).
Proof. intros. unfold compact_vector_new, cv_new, width_ok, bv_empty. steps. Qed.

Lemma tie_compact_vector_get_int : forall c v pos, compact_vector_get_int c v pos = cv_get_int c v pos.
Proof. intros. unfold compact_vector_get_int, cv_get_int, compact_vector_len. steps. Qed.

Lemma tie_compact_vector_set_int : forall c v pos val,
  compact_vector_set_int c v pos val = cv_set_int c v pos val.
Proof.
  intros. unfold compact_vector_set_int, cv_set_int, fits, compact_vector_len, compact_vector_width. steps.
Qed.

Lemma tie_compact_vector_push_int : forall c v val, compact_vector_push_int c v val = cv_push_int c v val.
Proof. intros. unfold compact_vector_push_int, cv_push_int, fits, compact_vector_width. steps. Qed.

(* CompactVector::with_capacity calls BitVector::with_capacity(capa * width), which evaluates
   words_for(capa * width) in checked arithmetic; the hand model does the same (this tie first
   exposed that the model had omitted the words_for call: with overflow checks on and
   2^64 - 64 <= capa * width < 2^64 the code panics; the model was corrected). *)
Lemma tie_compact_vector_with_capacity : forall c capa width,
  compact_vector_with_capacity c capa width = cv_with_capacity c capa width.
Proof.
  intros c capa width. unfold compact_vector_with_capacity, cv_with_capacity, width_ok.
  destruct (1 <=? width); norm; [|reflexivity]. destruct (width <=? 64); norm; [|reflexivity].
  destruct (mul c capa width) as [p|]; norm; [|reflexivity].
  rewrite tie_bit_vector_with_capacity.
  destruct (BitVector.words_for c p); reflexivity.
Qed.

(* ---------------------------------------------------------------------------------------------
   darray/inner.rs (getter) and darray.rs (wrappers)
   --------------------------------------------------------------------------------------------- *)
Lemma tie_darray_index_num_ones : forall c d, darray_index_num_ones c d = Ok (d_num_positions d).
Proof. reflexivity. Qed.
Lemma tie_darray_bit_vector : forall c d, darray_bit_vector c d = Ok (da_bv d).
Proof. reflexivity. Qed.
Lemma tie_darray_len : forall c d, darray_len c d = Ok (da_num_bits d).
Proof. reflexivity. Qed.
Lemma tie_darray_num_bits : forall c d, darray_num_bits c d = Ok (da_num_bits d).
Proof. reflexivity. Qed.
Lemma tie_darray_num_ones : forall c d, darray_num_ones c d = Ok (da_num_ones d).
Proof. reflexivity. Qed.
Lemma tie_darray_access : forall c d pos, darray_access c d pos = da_access c d pos.
Proof. reflexivity. Qed.
Lemma tie_darray_rank1 : forall c d pos, darray_rank1 c d pos = da_rank1 c d pos.
Proof. reflexivity. Qed.
Lemma tie_darray_rank0 : forall c d pos, darray_rank0 c d pos = da_rank0 c d pos.
Proof. reflexivity. Qed.
Lemma tie_darray_select1 : forall c d k, darray_select1 c d k = da_select1 c d k.
Proof. reflexivity. Qed.
Lemma tie_darray_select0 : forall c d k, darray_select0 c d k = da_select0 c d k.
Proof. reflexivity. Qed.

(* ---------------------------------------------------------------------------------------------
   elias_fano.rs
   --------------------------------------------------------------------------------------------- *)
Lemma tie_elias_fano_len : forall c e, elias_fano_len c e = Ok (ef_len e).
Proof. reflexivity. Qed.
Lemma tie_elias_fano_universe : forall c e, elias_fano_universe c e = Ok (ef_universe e).
Proof. reflexivity. Qed.

Lemma tie_elias_fano_select : forall c e k, elias_fano_select c e k = ef_select c e k.
Proof. intros. unfold elias_fano_select, ef_select, ef_low_at, elias_fano_len, ef_len. steps. Qed.

Lemma tie_elias_fano_delta : forall c e k, elias_fano_delta c e k = ef_delta c e k.
Proof. intros. unfold elias_fano_delta, ef_delta, ef_low_at, elias_fano_len, ef_len. steps. Qed.

Lemma tie_elias_fano_predecessor : forall c e pos, elias_fano_predecessor c e pos = ef_predecessor c e pos.
Proof.
  intros. unfold elias_fano_predecessor, ef_predecessor, elias_fano_universe.
  norm. destruct (ef_universe e <=? pos); [reflexivity|].
  destruct (add c pos 1) as [p1|]; norm; [|reflexivity].
  destruct (ef_rank c e p1) as [r|]; norm; [|reflexivity].
  destruct (unwrap r) as [i|]; norm; [|reflexivity].
  destruct (0 <? i); [|reflexivity].
  destruct (sub c i 1) as [i1|]; norm; [|reflexivity].
  rewrite tie_elias_fano_select. reflexivity.
Qed.

Lemma tie_elias_fano_successor : forall c e pos, elias_fano_successor c e pos = ef_successor c e pos.
Proof.
  intros. unfold elias_fano_successor, ef_successor, elias_fano_universe, elias_fano_len, ef_len.
  norm. destruct (ef_universe e <=? pos); [reflexivity|].
  destruct (ef_rank c e pos) as [r|]; norm; [|reflexivity].
  destruct (unwrap r) as [i|]; norm; [|reflexivity].
  destruct (i <? da_num_ones (ef_high e)); norm; [|reflexivity].
  rewrite tie_elias_fano_select. reflexivity.
Qed.

(* ---------------------------------------------------------------------------------------------
   all ties
   --------------------------------------------------------------------------------------------- *)
Theorem methods_tie_all :
  (forall c x, utils_needed_bits c x = CompactVector.needed_bits c x) /\
  (forall c x y, utils_ceiled_divide c x y = CompactVector.ceiled_divide c x y) /\
  (forall c n, bit_vector_words_for c n = BitVector.words_for c n) /\
  (forall c bv, bit_vector_len c bv = Ok (bv_len bv)) /\
  (forall c bv, bit_vector_num_words c bv = Ok (lenN (bv_words bv))) /\
  (forall c bv, bit_vector_words c bv = Ok (bv_words bv)) /\
  (forall c bv, bit_vector_num_bits c bv = Ok (bv_len bv)) /\
  (forall c bv pos, bit_vector_get_bit c bv pos = BitVector.get_bit c bv pos) /\
  (forall c bv pos, bit_vector_access c bv pos = BitVector.access c bv pos) /\
  (forall c bv pos bit, bit_vector_set_bit c bv pos bit = BitVector.set_bit c bv pos bit) /\
  (forall c bv bit, bit_vector_push_bit c bv bit = BitVector.push_bit c bv bit) /\
  (forall c bv pos len, bv_len bv < W -> bit_vector_get_bits c bv pos len = BitVector.get_bits c bv pos len) /\
  (forall c bv pos bits len, bv_len bv < W -> bit_vector_set_bits c bv pos bits len = BitVector.set_bits c bv pos bits len) /\
  (forall c bv bits len, bit_vector_push_bits c bv bits len = BitVector.push_bits c bv bits len) /\
  (forall c bv pos, bv_len bv < W -> bit_vector_get_word64 c bv pos = BitVector.get_word64 c bv pos) /\
  (forall c bv pos, bit_vector_rank0 c bv pos = BitVector.rank0 c bv pos) /\
  (forall c bv, bit_vector_num_ones c bv = BitVector.num_ones c bv) /\
  (forall c capa, bit_vector_with_capacity c capa = (_ <- BitVector.words_for c capa ;; Ok bv_empty)) /\
  (forall c r, rank9_num_ones c r = Rank9.num_ones c r) /\
  (forall c r, rank9_num_zeros c r = Rank9.num_zeros c r) /\
  (forall c r, rank9_num_blocks c r = Rank9.num_blocks c r) /\
  (forall c r block, rank9_block_rank c r block = Rank9.block_rank c r block) /\
  (forall c r block, rank9_sub_block_ranks c r block = Rank9.sub_block_ranks c r block) /\
  (forall c r sub_bpos, rank9_sub_block_rank c r sub_bpos = Rank9.sub_block_rank c r sub_bpos) /\
  (forall c r block, rank9_block_rank0 c r block = Rank9.block_rank0 c r block) /\
  (forall c r bv pos, rank9_rank1 c r bv pos = Rank9.rank1 c r bv pos) /\
  (forall c r bv pos, rank9_rank0 c r bv pos = Rank9.rank0 c r bv pos) /\
  (forall c val pos width, wavelet_matrix_get_msb c val pos width = Wavelet.get_msb c val pos width) /\
  (forall c v, compact_vector_len c v = Ok (cv_len v)) /\
  (forall c v, compact_vector_width c v = Ok (cv_width v)) /\
  (forall c width, compact_vector_new c width = Ok (cv_new width)) /\
  (forall c v pos, compact_vector_get_int c v pos = cv_get_int c v pos) /\
  (forall c v pos val, compact_vector_set_int c v pos val = cv_set_int c v pos val) /\
  (forall c v val, compact_vector_push_int c v val = cv_push_int c v val) /\
  (forall c capa width, compact_vector_with_capacity c capa width = cv_with_capacity c capa width) /\
  (forall c d, darray_index_num_ones c d = Ok (d_num_positions d)) /\
  (forall c d, darray_bit_vector c d = Ok (da_bv d)) /\
  (forall c d, darray_len c d = Ok (da_num_bits d)) /\
  (forall c d, darray_num_bits c d = Ok (da_num_bits d)) /\
  (forall c d, darray_num_ones c d = Ok (da_num_ones d)) /\
  (forall c d pos, darray_access c d pos = da_access c d pos) /\
  (forall c d pos, darray_rank1 c d pos = da_rank1 c d pos) /\
  (forall c d pos, darray_rank0 c d pos = da_rank0 c d pos) /\
  (forall c d k, darray_select1 c d k = da_select1 c d k) /\
  (forall c d k, darray_select0 c d k = da_select0 c d k) /\
  (forall c e, elias_fano_len c e = Ok (ef_len e)) /\
  (forall c e, elias_fano_universe c e = Ok (ef_universe e)) /\
  (forall c e k, elias_fano_select c e k = ef_select c e k) /\
  (forall c e k, elias_fano_delta c e k = ef_delta c e k) /\
  (forall c e pos, elias_fano_predecessor c e pos = ef_predecessor c e pos) /\
  (forall c e pos, elias_fano_successor c e pos = ef_successor c e pos).
Proof.
  exact
  (conj tie_utils_needed_bits
  (conj tie_utils_ceiled_divide
  (conj tie_bit_vector_words_for
  (conj tie_bit_vector_len
  (conj tie_bit_vector_num_words
  (conj tie_bit_vector_words
  (conj tie_bit_vector_num_bits
  (conj tie_bit_vector_get_bit
  (conj tie_bit_vector_access
  (conj tie_bit_vector_set_bit
  (conj tie_bit_vector_push_bit
  (conj tie_bit_vector_get_bits
  (conj tie_bit_vector_set_bits
  (conj tie_bit_vector_push_bits
  (conj tie_bit_vector_get_word64
  (conj tie_bit_vector_rank0
  (conj tie_bit_vector_num_ones
  (conj tie_bit_vector_with_capacity
  (conj tie_rank9_num_ones
  (conj tie_rank9_num_zeros
  (conj tie_rank9_num_blocks
  (conj tie_rank9_block_rank
  (conj tie_rank9_sub_block_ranks
  (conj tie_rank9_sub_block_rank
  (conj tie_rank9_block_rank0
  (conj tie_rank9_rank1
  (conj tie_rank9_rank0
  (conj tie_wavelet_matrix_get_msb
  (conj tie_compact_vector_len
  (conj tie_compact_vector_width
  (conj tie_compact_vector_new
  (conj tie_compact_vector_get_int
  (conj tie_compact_vector_set_int
  (conj tie_compact_vector_push_int
  (conj tie_compact_vector_with_capacity
  (conj tie_darray_index_num_ones
  (conj tie_darray_bit_vector
  (conj tie_darray_len
  (conj tie_darray_num_bits
  (conj tie_darray_num_ones
  (conj tie_darray_access
  (conj tie_darray_rank1
  (conj tie_darray_rank0
  (conj tie_darray_select1
  (conj tie_darray_select0
  (conj tie_elias_fano_len
  (conj tie_elias_fano_universe
  (conj tie_elias_fano_select
  (conj tie_elias_fano_delta
  (conj tie_elias_fano_predecessor
  tie_elias_fano_successor)))))))))))))))))))))))))))))))))))))))))))))))))).
Qed.

Print Assumptions methods_tie_all.
