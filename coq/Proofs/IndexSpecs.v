(* Proofs/IndexSpecs.v — correctness predicates for the index structures, shared by the proofs
   of the structures built on top of them (Elias-Fano on DArray, DACs on Rank9Sel, the wavelet
   matrix on any backing).  Definitions only. *)
From Sucds Require Import Base.Res Spec.BitSpec Model.BitVector Model.Rank9 Model.DArray Model.Wavelet
  Proofs.BVAbs.
Open Scope N_scope.

(* a Rank9Sel value answers every query like the plain bit sequence of its bit vector *)
Definition r9_correct (c : cfg) (x : r9sel) : Prop :=
  let b := bits_of (r9_bv x) in
  wf (r9_bv x) /\
  r9_num_ones c x = Ok (BitSpec.count true b) /\
  r9_num_zeros c x = Ok (BitSpec.count false b) /\
  (forall i, i < W -> r9_access c x i = Ok (BitSpec.access b i) /\
                      r9_rank1 c x i = Ok (BitSpec.rank true b i) /\
                      r9_rank0 c x i = Ok (BitSpec.rank false b i)) /\
  (forall k, k < W -> r9_select1 c x k = Ok (BitSpec.select true b k) /\
                      r9_select0 c x k = Ok (BitSpec.select false b k)).

(* a DArray value: select1 always; select0 / rank when the optional index is present *)
Definition da_correct (c : cfg) (d : darray) : Prop :=
  let b := bits_of (da_bv d) in
  wf (da_bv d) /\
  da_num_ones d = BitSpec.count true b /\
  da_num_zeros c d = Ok (BitSpec.count false b) /\
  (forall i, i < W -> da_access c d i = Ok (BitSpec.access b i)) /\
  (forall k, k < W -> da_select1 c d k = Ok (BitSpec.select true b k)) /\
  (da_s0 d <> None -> forall k, k < W -> da_select0 c d k = Ok (BitSpec.select false b k)) /\
  (da_r9 d <> None -> forall i, i < W -> da_rank1 c d i = Ok (BitSpec.rank true b i) /\
                                        da_rank0 c d i = Ok (BitSpec.rank false b i)).

(* any backing of the wavelet matrix, against the bit sequence it was built from *)
Definition backing_correct (c : cfg) (b : backing) (bits : list bool) : Prop :=
  b_num_bits b = lenN bits /\
  b_num_zeros c b = Ok (BitSpec.count false bits) /\
  (forall i, i < W -> b_access c b i = Ok (BitSpec.access bits i) /\
                      b_rank1 c b i = Ok (BitSpec.rank true bits i) /\
                      b_rank0 c b i = Ok (BitSpec.rank false bits i)) /\
  (forall k, k < W -> b_select1 c b k = Ok (BitSpec.select true bits k) /\
                      b_select0 c b k = Ok (BitSpec.select false bits k)).
