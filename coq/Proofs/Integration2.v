(* Proofs/Integration2.v — second integration pass.
   1. SArray (Proofs/SAMain.v) and PrefixSummedEliasFano (Proofs/PSMain.v) were proved under the
      two DArray premises DA_FROM_BITS_OK / DA_ENABLE_SELECT0_OK of Proofs/EFBuilder.v; both are
      theorems (Proofs/Integration.v), so every premise-carrying theorem gets a closed version.
   2. Configuration independence (C15, style of Proofs/C15Rollup.v) for the four remaining
      families: DacsByte, DacsOpt, SArray, PrefixSummedEliasFano.
   3. The index iterator contract `iter_ok` (C17, Proofs/IterGeneric.v) for the remaining
      index-based iterators: CompactVector, DacsByte, DacsOpt, PrefixSummedEliasFano,
      WaveletMatrix; and the Elias-Fano iterator on a built value. *)
From Sucds Require Import Base.Res Spec.WordSpec Spec.BitSpec Spec.SeqSpec Spec.DacSpec Spec.FormatSpec
  Model.BitVector Model.Rank9 Model.DArray Model.EliasFano Model.CompactVector Model.Dacs
  Model.SArray Model.Psef Model.Wavelet Model.Serial
  Proofs.ResLemmas Proofs.BVAbs Proofs.IndexSpecs
  Proofs.EFRep Proofs.EFQueries Proofs.EFIter Proofs.EFBuilder
  Proofs.CVRep Proofs.CVOps Proofs.IterGeneric
  Proofs.WMLists Proofs.WMBuild Proofs.WMQueries
  Proofs.DacsLevels Proofs.DacsByteMain Proofs.DacsOptMain
  Proofs.SALemmas Proofs.SAMain Proofs.PSMain
  Proofs.Integration Proofs.C15Rollup.
From Coq Require Import ZArith ZifyN ZifyBool ZifyNat Lia.
Ltac Zify.zify_post_hook ::= Z.div_mod_to_equations.
Open Scope N_scope.

(* ================================================================== *)
(* 1. closed versions of the SArray / PrefixSummedEliasFano theorems   *)
(* ================================================================== *)

(* ---------- SArray (Props/C03.v) ---------- *)

Theorem sa_from_bv_ok_closed : forall bv, wf bv -> cap_ok bv -> sa_cap bv ->
  exists s, (forall c, sa_from_bv c bv = Ok s) /\ sa_rep s (bits_of bv) /\ sa_has_rank s = false.
Proof. exact (sa_from_bv_ok da_from_bits_ok_holds). Qed.

Theorem sa_enable_rank_ok_closed : forall s b, sa_rep s b ->
  exists s', (forall c, sa_enable_rank c s = Ok s') /\ sa_rep s' b /\ sa_has_rank s' = true.
Proof. exact (sa_enable_rank_ok da_enable_select0_ok_holds). Qed.

Theorem sa_build_ok_closed : forall bv with_rank, wf bv -> cap_ok bv -> sa_cap bv ->
  exists s, (forall c, sa_build c bv with_rank = Ok s) /\ sa_rep s (bits_of bv) /\
            sa_has_rank s = with_rank.
Proof. exact (sa_build_ok da_from_bits_ok_holds da_enable_select0_ok_holds). Qed.

Theorem sa_correct_closed : forall bv with_rank, wf bv -> cap_ok bv -> sa_cap bv ->
  let b := bits_of bv in
  exists s, (forall c, sa_build c bv with_rank = Ok s) /\
    sa_num_bits s = bv_len bv /\ sa_num_ones s = count true b /\
    (forall c i, sa_access c s i = Ok (BitSpec.access b i)) /\
    (forall c k, sa_select1 c s k = Ok (BitSpec.select true b k)) /\
    (with_rank = true -> forall c p,
       sa_rank1 c s p = Ok (BitSpec.rank true b p) /\
       sa_rank0 c s p = Ok (BitSpec.rank false b p) /\
       sa_predecessor1 c s p = Ok (BitSpec.pred true b p) /\
       sa_successor1 c s p = Ok (BitSpec.succ true b p)).
Proof. exact (sa_correct da_from_bits_ok_holds da_enable_select0_ok_holds). Qed.

Theorem sa_correct_small_closed : forall bv with_rank, wf bv -> bv_len bv + 1 < 2 ^ 55 ->
  let b := bits_of bv in
  exists s, (forall c, sa_build c bv with_rank = Ok s) /\
    sa_num_bits s = bv_len bv /\ sa_num_ones s = count true b /\
    (forall c i, sa_access c s i = Ok (BitSpec.access b i)) /\
    (forall c k, sa_select1 c s k = Ok (BitSpec.select true b k)) /\
    (with_rank = true -> forall c p,
       sa_rank1 c s p = Ok (BitSpec.rank true b p) /\
       sa_rank0 c s p = Ok (BitSpec.rank false b p) /\
       sa_predecessor1 c s p = Ok (BitSpec.pred true b p) /\
       sa_successor1 c s p = Ok (BitSpec.succ true b p)).
Proof. exact (sa_correct_small da_from_bits_ok_holds da_enable_select0_ok_holds). Qed.

(* ---------- PrefixSummedEliasFano (Props/C12.v) ---------- *)

Theorem ps_from_slice_ok_closed : forall vals, vals <> [] -> sum_list vals + 1 < W ->
  ef_cap (sum_list vals + 1) (lenN vals) ->
  exists p, (forall c, ps_from_slice c vals = Ok (Some p)) /\ ps_rep p vals.
Proof. exact (ps_from_slice_ok da_from_bits_ok_holds). Qed.

Theorem ps_correct_closed : forall vals, vals <> [] -> sum_list vals + 1 < W ->
  ef_cap (sum_list vals + 1) (lenN vals) ->
  exists p, (forall c, ps_from_slice c vals = Ok (Some p)) /\
    ps_len p = lenN vals /\
    (forall c, ps_sum c p = Ok (sum_list vals)) /\
    (forall c i, ps_access c p i = Ok (nth_opt vals i)) /\
    (forall c, iter_ok (nth_opt vals) (lenN vals) (ps_iter_next c p)
                       (BitVector.iter_size_hint c (lenN vals))).
Proof. exact (ps_correct da_from_bits_ok_holds). Qed.

Theorem ps_correct_small_closed : forall vals, vals <> [] -> sum_list vals + 1 < W ->
  lenN vals < 2 ^ 50 ->
  exists p, (forall c, ps_from_slice c vals = Ok (Some p)) /\
    ps_len p = lenN vals /\
    (forall c, ps_sum c p = Ok (sum_list vals)) /\
    (forall c i, ps_access c p i = Ok (nth_opt vals i)) /\
    (forall c, iter_ok (nth_opt vals) (lenN vals) (ps_iter_next c p)
                       (BitVector.iter_size_hint c (lenN vals))).
Proof. exact (ps_correct_small da_from_bits_ok_holds). Qed.

(* ================================================================== *)
(* 2. configuration independence (C15) of the four remaining families  *)
(* ================================================================== *)

(* a value obtained in one configuration is the value of every configuration *)
Lemma same_value {A} (f : cfg -> res A) (v x : A) c0 :
  (forall c, f c = Ok v) -> f c0 = Ok x -> x = v.
Proof. intros H E. rewrite H in E. injection E as <-. reflexivity. Qed.

(* ---------- DacsByte (C11) ---------- *)

Theorem C15_dacsbyte_proof : forall vals, Forall (fun x => x < W) vals -> lenN vals < 2 ^ 50 ->
  cfg_independent (fun c => db_from_slice c vals) /\
  (forall c1 c2 d1 d2, db_from_slice c1 vals = Ok d1 -> db_from_slice c2 vals = Ok d2 ->
     forall t, ser t (v_dacsbyte d1) = ser t (v_dacsbyte d2) /\
               size t (v_dacsbyte d1) = size t (v_dacsbyte d2)) /\
  (forall c0 d, db_from_slice c0 vals = Ok d -> forall i pos, i < W -> pos < W ->
     cfg_independent (fun c => db_len c d) /\
     cfg_independent (fun c => db_access c d i) /\
     cfg_independent (fun c => db_iter_next c d pos) /\
     (pos <= lenN vals -> cfg_independent (fun c => iter_size_hint c (lenN vals) pos))).
Proof.
  intros vals HW Hlen.
  destruct (dacsbyte_lossless vals HW Hlen) as (d & E & Hl & _ & _ & Ha & Hn & _).
  assert (CI : cfg_independent (fun c => db_from_slice c vals)) by exact (cfg_indep _ d E).
  split; [exact CI|]. split; [exact (cfg_independent_bytes _ v_dacsbyte CI)|].
  intros c0 d0 E0 i pos Hi Hp.
  rewrite (same_value (fun c => db_from_slice c vals) d d0 c0 E E0).
  split; [exact (cfg_indep _ _ Hl)|].
  split; [eapply cfg_indep; intro c; apply Ha, Hi|].
  split; [eapply cfg_indep; intro c; apply Hn, Hp|].
  intro Hle. eapply cfg_indep; intro c. apply size_hint_ok, Hle.
Qed.

(* ---------- DacsOpt (C10): from_slice with any max_levels, access, iterator ---------- *)

Lemma ml_of_range_dec mlo : {1 <= ml_of mlo <= 64} + {(1 <=? ml_of mlo) && (ml_of mlo <=? 64) = false}.
Proof.
  destruct ((1 <=? ml_of mlo) && (ml_of mlo <=? 64)) eqn:E; [left | right; reflexivity].
  apply andb_true_iff in E. destruct E as [E1 E2].
  split; [apply N.leb_le, E1 | apply N.leb_le, E2].
Qed.

Theorem C15_dacsopt_proof : forall vals mlo, Forall (fun x => x < W) vals -> lenN vals < 2 ^ 50 ->
  (* accepted or rejected, the same in every configuration *)
  cfg_independent (fun c => do_from_slice c vals mlo) /\
  (forall c1 c2 d1 d2, do_from_slice c1 vals mlo = Ok (Some d1) ->
     do_from_slice c2 vals mlo = Ok (Some d2) ->
     forall t, ser t (v_dacsopt d1) = ser t (v_dacsopt d2) /\
               size t (v_dacsopt d1) = size t (v_dacsopt d2)) /\
  (forall c0 d, do_from_slice c0 vals mlo = Ok (Some d) -> forall i pos, i < W -> pos < W ->
     cfg_independent (fun c => do_len c d) /\
     cfg_independent (fun c => do_access c d i) /\
     cfg_independent (fun c => do_iter_next c d pos) /\
     (pos <= lenN vals -> cfg_independent (fun c => iter_size_hint c (lenN vals) pos)) /\
     (vals <> [] -> cfg_independent (fun c => compute_opt_widths c vals (ml_of mlo)))).
Proof.
  intros vals mlo HW Hlen.
  destruct (ml_of_range_dec mlo) as [Hml|Hml].
  - destruct (dacsopt_lossless vals mlo HW Hlen Hml) as (d & E & Hl & _ & _ & Hw & Ha & Hn & _).
    assert (CI : cfg_independent (fun c => do_from_slice c vals mlo))
      by exact (cfg_indep _ (Some d) E).
    split; [exact CI|]. split.
    + intros c1 c2 d1 d2 E1 E2 t.
      assert (Some d1 = Some d2) by exact (cfg_independent_same _ CI c1 c2 _ _ E1 E2).
      replace d2 with d1 by congruence. split; reflexivity.
    + intros c0 d0 E0 i pos Hi Hp.
      assert (Hd : Some d0 = Some d)
        by exact (same_value (fun c => do_from_slice c vals mlo) (Some d) (Some d0) c0 E E0).
      injection Hd as ->.
      split; [exact (cfg_indep _ _ Hl)|].
      split; [eapply cfg_indep; intro c; apply Ha, Hi|].
      split; [eapply cfg_indep; intro c; apply Hn, Hp|].
      split; [intro Hle; eapply cfg_indep; intro c; apply size_hint_ok, Hle|].
      intro Hne. destruct (Hw Hne) as [Hc _]. exact (cfg_indep _ _ Hc).
  - assert (E : forall c, do_from_slice c vals mlo = Ok None)
      by (intro c; apply do_from_slice_reject, Hml).
    split; [exact (cfg_indep _ None E)|]. split.
    + intros c1 c2 d1 d2 E1. rewrite E in E1. discriminate E1.
    + intros c0 d0 E0. rewrite E in E0. discriminate E0.
Qed.

(* ---------- SArray (C03) ---------- *)

(* the queries on any value satisfying the representation invariant *)
Theorem C15_sarray_queries_proof : forall s b, sa_rep s b -> forall i k p,
  cfg_independent (fun c => sa_access c s i) /\
  cfg_independent (fun c => sa_select1 c s k) /\
  cfg_independent (fun c => sa_enable_rank c s) /\
  (sa_has_rank s = true ->
     cfg_independent (fun c => sa_rank1 c s p) /\
     cfg_independent (fun c => sa_rank0 c s p) /\
     cfg_independent (fun c => sa_predecessor1 c s p) /\
     cfg_independent (fun c => sa_successor1 c s p)).
Proof.
  intros s b R i k p.
  split; [eapply cfg_indep; intro c; apply (sa_access_spec s b R)|].
  split; [eapply cfg_indep; intro c; apply (sa_select1_spec s b R)|].
  split.
  { destruct (sa_enable_rank_ok_closed s b R) as (s' & E & _). exact (cfg_indep _ s' E). }
  intro Hr. split; [|split; [|split]]; eapply cfg_indep; intro c.
  - apply (sa_rank1_spec s b R Hr).
  - apply (sa_rank0_spec s b R Hr).
  - apply (sa_predecessor1_spec s b R Hr).
  - apply (sa_successor1_spec s b R Hr).
Qed.

(* construction (from_bits, enable_rank, and the two in sequence), bytes, queries *)
Theorem C15_sarray_proof : forall bv with_rank, wf bv -> cap_ok bv -> sa_cap bv ->
  cfg_independent (fun c => sa_from_bv c bv) /\
  cfg_independent (fun c => sa_build c bv with_rank) /\
  (forall c1 c2 s1 s2, sa_build c1 bv with_rank = Ok s1 -> sa_build c2 bv with_rank = Ok s2 ->
     forall t, ser t (v_sarray s1) = ser t (v_sarray s2) /\
               size t (v_sarray s1) = size t (v_sarray s2)) /\
  (forall c0 s, sa_build c0 bv with_rank = Ok s -> forall i k p,
     cfg_independent (fun c => sa_access c s i) /\
     cfg_independent (fun c => sa_select1 c s k) /\
     cfg_independent (fun c => sa_enable_rank c s) /\
     (with_rank = true ->
        cfg_independent (fun c => sa_rank1 c s p) /\
        cfg_independent (fun c => sa_rank0 c s p) /\
        cfg_independent (fun c => sa_predecessor1 c s p) /\
        cfg_independent (fun c => sa_successor1 c s p))).
Proof.
  intros bv wr Hwf Hcap Hsc.
  destruct (sa_from_bv_ok_closed bv Hwf Hcap Hsc) as (s0 & E0 & _).
  destruct (sa_build_ok_closed bv wr Hwf Hcap Hsc) as (s & E & R & Hr).
  assert (CI : cfg_independent (fun c => sa_build c bv wr)) by exact (cfg_indep _ s E).
  split; [exact (cfg_indep _ s0 E0)|]. split; [exact CI|].
  split; [exact (cfg_independent_bytes _ v_sarray CI)|].
  intros c0 s1 E1 i k p.
  rewrite (same_value (fun c => sa_build c bv wr) s s1 c0 E E1).
  destruct (C15_sarray_queries_proof s _ R i k p) as (Q1 & Q2 & Q3 & Q4).
  split; [exact Q1|]. split; [exact Q2|]. split; [exact Q3|].
  intro Hw. apply Q4. rewrite Hr. exact Hw.
Qed.

(* ---------- PrefixSummedEliasFano (C12) ---------- *)

Theorem C15_psef_queries_proof : forall p vals, ps_rep p vals -> forall i pos,
  cfg_independent (fun c => ps_sum c p) /\
  cfg_independent (fun c => ps_access c p i) /\
  (pos < W -> lenN vals < 2 ^ 56 -> cfg_independent (fun c => ps_iter_next c p pos)) /\
  (pos <= lenN vals -> cfg_independent (fun c => iter_size_hint c (lenN vals) pos)).
Proof.
  intros p vals R i pos.
  split; [eapply cfg_indep; intro c; apply (ps_sum_spec p vals R)|].
  split; [eapply cfg_indep; intro c; apply (ps_access_spec p vals R)|].
  split.
  - intros Hp Hlen. apply (cfg_indep _ (gstep (nth_opt vals) (lenN vals) pos)). intro c.
    rewrite (ps_iter_next_shape p c pos), (ps_len_spec p vals R).
    apply index_next_step.
    + exact Hlen.
    + intros _. apply (ps_access_spec p vals R).
    + intro H. rewrite nth_opt_in by exact H. discriminate.
  - intro Hle. eapply cfg_indep; intro c. apply size_hint_ok, Hle.
Qed.

Theorem C15_psef_proof : forall vals,
  cfg_independent (fun c => ps_from_slice c []) /\
  (vals <> [] -> sum_list vals + 1 < W -> ef_cap (sum_list vals + 1) (lenN vals) ->
   cfg_independent (fun c => ps_from_slice c vals) /\
   (forall c1 c2 p1 p2, ps_from_slice c1 vals = Ok (Some p1) -> ps_from_slice c2 vals = Ok (Some p2) ->
      forall t, ser t (v_psef p1) = ser t (v_psef p2) /\ size t (v_psef p1) = size t (v_psef p2)) /\
   (forall c0 p, ps_from_slice c0 vals = Ok (Some p) -> forall i pos, pos < W ->
      cfg_independent (fun c => ps_sum c p) /\
      cfg_independent (fun c => ps_access c p i) /\
      cfg_independent (fun c => ps_iter_next c p pos) /\
      (pos <= lenN vals -> cfg_independent (fun c => iter_size_hint c (lenN vals) pos)))).
Proof.
  intro vals. split; [exact (cfg_indep _ None ps_from_slice_nil)|].
  intros Hne Hsum Hcap.
  destruct (ps_from_slice_ok_closed vals Hne Hsum Hcap) as (p & E & R).
  assert (CI : cfg_independent (fun c => ps_from_slice c vals)) by exact (cfg_indep _ (Some p) E).
  split; [exact CI|]. split.
  - intros c1 c2 p1 p2 E1 E2 t.
    assert (Some p1 = Some p2) by exact (cfg_independent_same _ CI c1 c2 _ _ E1 E2).
    replace p2 with p1 by congruence. split; reflexivity.
  - intros c0 p0 E0 i pos Hp.
    assert (Hd : Some p0 = Some p)
      by exact (same_value (fun c => ps_from_slice c vals) (Some p) (Some p0) c0 E E0).
    injection Hd as ->.
    destruct (C15_psef_queries_proof p vals R i pos) as (Q1 & Q2 & Q3 & Q4).
    split; [exact Q1|]. split; [exact Q2|]. split; [|exact Q4].
    apply Q3; [exact Hp|]. destruct Hcap as [H1 _].
    eapply N.le_lt_trans; [|exact H1]. rewrite <- N.add_assoc. apply N.le_add_r.
Qed.

(* ================================================================== *)
(* 3. the index iterator contract for the remaining iterators (C17)    *)
(* ================================================================== *)

(* ---------- CompactVector ---------- *)

Lemma cv_iter_next_shape c v pos :
  cv_iter_next c v pos = index_next c (cv_access c v) (cv_len v) pos.
Proof. reflexivity. Qed.

Lemma cv_rep_len_cap v xs : cv_rep v xs -> lenN xs * cv_width v < 2 ^ 56 -> lenN xs < 2 ^ 56.
Proof.
  intros (_ & _ & [Hw _] & _) Hcap. eapply N.le_lt_trans; [|exact Hcap].
  rewrite <- (N.mul_1_r (lenN xs)) at 1. apply N.mul_le_mono_l. exact Hw.
Qed.

Theorem cv_iter_ok : forall c v xs, cv_rep v xs -> lenN xs * cv_width v < 2 ^ 56 ->
  iter_ok (nth_opt xs) (lenN xs) (cv_iter_next c v) (iter_size_hint c (lenN xs)).
Proof.
  intros c v xs R Hcap. apply index_iter_ok.
  - exact (cv_rep_len_cap v xs R Hcap).
  - intros pos Hp. apply (cv_iter_next_spec c v xs R Hcap pos Hp).
  - intros pos Hp. apply size_hint_ok, Hp.
Qed.

(* the same through the reuse lemma, from the access theorem alone *)
Theorem cv_iter_ok_from_access : forall c v xs, cv_rep v xs -> lenN xs * cv_width v < 2 ^ 56 ->
  iter_ok (nth_opt xs) (lenN xs) (index_next c (cv_access c v) (cv_len v)) (iter_size_hint c (lenN xs)).
Proof.
  intros c v xs R Hcap. pose proof (cv_rep_len_cap v xs R Hcap) as Hlen.
  destruct R as (Hwf & Hl & R'). rewrite Hl. apply index_iter_from_access.
  - exact Hlen.
  - intros pos Hp. apply (cv_access_spec c v xs (conj Hwf (conj Hl R')) Hcap).
    change (2 ^ 56) with 72057594037927936 in Hlen. unfold W. lia.
  - intros pos Hp. rewrite nth_opt_in by exact Hp. discriminate.
Qed.

(* on the value built by from_slice *)
Theorem cv_iter_ok_from_slice : forall c0 l v, l <> [] -> Forall (fun x => x < W) l ->
  lenN l * bitlen (max_list l) < 2 ^ 56 -> cv_from_slice c0 l = Ok (Some v) ->
  forall c, iter_ok (nth_opt l) (lenN l) (cv_iter_next c v) (iter_size_hint c (lenN l)).
Proof.
  intros c0 l v Hne HW Hcap E c.
  destruct (cv_from_slice_spec c0 l Hne HW Hcap) as (v' & E' & R & Hw).
  rewrite E in E'. injection E' as <-. apply cv_iter_ok; [exact R|]. rewrite Hw. exact Hcap.
Qed.

(* ---------- DacsByte / DacsOpt: the iterator conjunct of the lossless theorems, on the value
   returned by from_slice in any configuration ---------- *)

Theorem dacsbyte_iter_ok : forall vals c0 d, Forall (fun x => x < W) vals -> lenN vals < 2 ^ 50 ->
  db_from_slice c0 vals = Ok d ->
  forall c, iter_ok (nth_opt vals) (lenN vals) (db_iter_next c d) (iter_size_hint c (lenN vals)).
Proof.
  intros vals c0 d HW Hlen E0.
  destruct (dacsbyte_lossless vals HW Hlen) as (d' & E & _ & _ & _ & _ & _ & Hit).
  rewrite (same_value (fun c => db_from_slice c vals) d' d c0 E E0). exact Hit.
Qed.

Theorem dacsopt_iter_ok : forall vals mlo c0 d, Forall (fun x => x < W) vals -> lenN vals < 2 ^ 50 ->
  1 <= ml_of mlo <= 64 -> do_from_slice c0 vals mlo = Ok (Some d) ->
  forall c, iter_ok (nth_opt vals) (lenN vals) (do_iter_next c d) (iter_size_hint c (lenN vals)).
Proof.
  intros vals mlo c0 d HW Hlen Hml E0.
  destruct (dacsopt_lossless vals mlo HW Hlen Hml) as (d' & E & _ & _ & _ & _ & _ & _ & Hit).
  assert (Hd : Some d = Some d')
    by exact (same_value (fun c => do_from_slice c vals mlo) (Some d') (Some d) c0 E E0).
  injection Hd as ->. exact Hit.
Qed.

(* ---------- PrefixSummedEliasFano: on the value built by from_slice ---------- *)

Theorem psef_iter_ok : forall vals c0 p, vals <> [] -> sum_list vals + 1 < W ->
  ef_cap (sum_list vals + 1) (lenN vals) -> ps_from_slice c0 vals = Ok (Some p) ->
  forall c, iter_ok (nth_opt vals) (lenN vals) (ps_iter_next c p) (iter_size_hint c (lenN vals)).
Proof.
  intros vals c0 p Hne Hsum Hcap E0.
  destruct (ps_correct_closed vals Hne Hsum Hcap) as (p' & E & _ & _ & _ & Hit).
  assert (Hd : Some p = Some p')
    by exact (same_value (fun c => ps_from_slice c vals) (Some p') (Some p) c0 E E0).
  injection Hd as ->. exact Hit.
Qed.

Theorem psef_iter_ok_small : forall vals c0 p, vals <> [] -> sum_list vals + 1 < W ->
  lenN vals < 2 ^ 50 -> ps_from_slice c0 vals = Ok (Some p) ->
  forall c, iter_ok (nth_opt vals) (lenN vals) (ps_iter_next c p) (iter_size_hint c (lenN vals)).
Proof.
  intros vals c0 p Hne Hsum Hlen. apply psef_iter_ok; [exact Hne | exact Hsum|].
  apply ef_cap_len; [exact Hsum | | exact Hlen].
  destruct vals; [contradiction|]. rewrite lenN_cons. lia.
Qed.

(* ---------- WaveletMatrix (any of the three backings) ---------- *)

Lemma wm_iter_next_shape c w pos :
  wm_iter_next c w pos = index_next c (wm_access c w) (wm_len w) pos.
Proof. reflexivity. Qed.

Theorem wm_iter_ok : forall c0 k s wm,
  s <> [] /\ max_list s + 1 < W /\ lenN s < 2 ^ 50 -> wm_new c0 k s = Ok (Some wm) ->
  forall c, iter_ok (nth_opt s) (lenN s) (wm_iter_next c wm) (iter_size_hint c (lenN s)).
Proof.
  intros c0 k s wm Hs E0 c.
  destruct (wm_new_closed k s Hs) as (wm' & E & Hl & _).
  assert (Hd : Some wm = Some wm')
    by exact (same_value (fun c => wm_new c k s) (Some wm') (Some wm) c0 E E0).
  injection Hd as <-.
  assert (Hlen : lenN s < 2 ^ 56).
  { destruct Hs as (_ & _ & H). change (2 ^ 50) with 1125899906842624 in H.
    change (2 ^ 56) with 72057594037927936. lia. }
  apply index_iter_ok.
  - exact Hlen.
  - intros pos Hp. rewrite wm_iter_next_shape, Hl. apply index_next_step.
    + exact Hlen.
    + intros _. apply (wm_access_closed c0 k s wm Hs E0 c pos Hp).
    + intro H. rewrite nth_opt_in by exact H. discriminate.
  - intros pos Hp. apply size_hint_ok, Hp.
Qed.

(* all elements, in order: n >= len calls of next() return exactly the sequence *)
Lemma map_nth_opt_nseq (xs : list N) : map (nth_opt xs) (nseq (lenN xs)) = map Some xs.
Proof.
  apply nth_ext with (d := None) (d' := None).
  - rewrite !map_length. rewrite ?nseq_unfold. rewrite map_length, seq_length. unfold lenN. lia.
  - intros i Hi. rewrite map_length in Hi. rewrite ?nseq_unfold in Hi. rewrite map_length, seq_length in Hi.
    assert (Hi' : (i < length xs)%nat) by (unfold lenN in Hi; lia).
    rewrite (nth_indep _ None (nth_opt xs 0))
      by (rewrite map_length; rewrite ?nseq_unfold; rewrite map_length, seq_length; exact Hi).
    rewrite map_nth. rewrite ?nseq_unfold.
    rewrite (nth_indep _ 0 (N.of_nat 0)) by (rewrite map_length, seq_length; exact Hi).
    rewrite map_nth, seq_nth by exact Hi. cbn [Nat.add].
    rewrite nth_opt_in by (unfold lenN; lia).
    rewrite (nth_indep _ None (Some 0)) by (rewrite map_length; exact Hi').
    rewrite map_nth. unfold nthN. rewrite Nat2N.id. reflexivity.
Qed.

Theorem iter_ok_all : forall (xs : list N) next hint,
  iter_ok (nth_opt xs) (lenN xs) next hint ->
  forall n : nat, lenN xs <= N.of_nat n ->
  mrun next n 0 = Ok (lenN xs, map Some xs ++ repeat None (n - length xs)).
Proof.
  intros xs next hint H n Hn. destruct (H n) as [E _]. rewrite E.
  replace (N.min (N.of_nat n) (lenN xs)) with (lenN xs) by lia.
  rewrite map_nth_opt_nseq. unfold lenN. rewrite Nat2N.id. reflexivity.
Qed.

(* ---------- the Elias-Fano iterator on a built value ---------- *)

Theorem efi_spec_built : forall u m xs, u < W -> 1 <= m -> lenN xs <= m ->
  m + 2 + u / 2 ^ low_len_of u m < 2 ^ 56 -> m * low_len_of u m < 2 ^ 56 ->
  nondec xs -> Forall (fun x => x < u) xs ->
  forall c0 b0 b e, efb_new c0 u m = Ok (Some b0) -> efb_extend c0 b0 xs = Ok (b, true) ->
  efb_build c0 b = Ok e ->
  forall c k n, exists it it', efi_new c e k = Ok it /\
    efi_run c e n it = Ok (it', iter_outputs xs k n).
Proof.
  intros u m xs Hu Hm Hl Hc1 Hc2 Hnd Hlt c0 b0 b e E0 E1 E2.
  destruct (ef_build_sorted_closed u m xs Hu Hm Hl Hc1 Hc2 Hnd Hlt) as (e1 & e2 & R & _ & _ & H).
  destruct (H c0) as (b0' & b' & F0 & F1 & F2 & _). clear H.
  rewrite E0 in F0. injection F0 as <-. rewrite E1 in F1. injection F1 as <-.
  rewrite E2 in F2. injection F2 as <-.
  exact (efi_spec e xs u R).
Qed.

Print Assumptions sa_from_bv_ok_closed.
Print Assumptions sa_enable_rank_ok_closed.
Print Assumptions sa_build_ok_closed.
Print Assumptions sa_correct_closed.
Print Assumptions sa_correct_small_closed.
Print Assumptions ps_from_slice_ok_closed.
Print Assumptions ps_correct_closed.
Print Assumptions ps_correct_small_closed.
Print Assumptions C15_dacsbyte_proof.
Print Assumptions C15_dacsopt_proof.
Print Assumptions C15_sarray_queries_proof.
Print Assumptions C15_sarray_proof.
Print Assumptions C15_psef_queries_proof.
Print Assumptions C15_psef_proof.
Print Assumptions cv_iter_ok.
Print Assumptions cv_iter_ok_from_access.
Print Assumptions cv_iter_ok_from_slice.
Print Assumptions dacsbyte_iter_ok.
Print Assumptions dacsopt_iter_ok.
Print Assumptions psef_iter_ok.
Print Assumptions psef_iter_ok_small.
Print Assumptions wm_iter_ok.
Print Assumptions iter_ok_all.
Print Assumptions efi_spec_built.
