(* Proofs/R9Hints.v — property C01, part 3: the generic per-word count V (ones, or zeros with the
   virtual padding of the last block), the block ranks Rk = block_rank / block_rank0, the hint
   tables built by build_select1 / build_select0 (a pure function of the words, independent of
   the configuration) and the window [a, b) they give to the bisection. *)
From Sucds Require Import Base.Res Spec.WordSpec Spec.BitSpec Model.BitVector Model.Rank9
  Proofs.ResLemmas Proofs.BVAbs Proofs.WordLemmas Proofs.BVReads Proofs.BVReads2 Proofs.C14_Bits
  Proofs.R9Build Proofs.R9Rank.
From Coq Require Import ZArith ZifyN ZifyBool ZifyNat Lia.
Ltac Zify.zify_post_hook ::= Z.div_mod_to_equations.
Open Scope N_scope.
Set Default Proof Using "All".

(* ones (inv = false) or zeros (inv = true) in the first i words; beyond the last word every
   virtual word counts 64 zeros, as block_rank0 does *)
Definition V (inv : bool) (ws : list N) (i : N) : N := if inv then 64 * i - cnt ws i else cnt ws i.
Definition Rk (inv : bool) (ws : list N) (j : N) : N := V inv ws (8 * j).

Section VFacts.
Variables (inv : bool) (ws : list N).
Hypothesis Hall : Forall (fun w => w < W) ws.

Lemma V_0 : V inv ws 0 = 0.
Proof. unfold V. rewrite cnt_0. destruct inv; reflexivity. Qed.

Lemma V_mono i j : i <= j -> V inv ws i <= V inv ws j.
Proof.
  intro H. unfold V. pose proof (cnt_mono ws Hall i j H). pose proof (cnt_diff_le ws Hall i j H).
  pose proof (cnt_le ws Hall i). pose proof (cnt_le ws Hall j). destruct inv; lia.
Qed.

Lemma V_diff_le i j : i <= j -> V inv ws j <= V inv ws i + 64 * (j - i).
Proof.
  intro H. unfold V. pose proof (cnt_mono ws Hall i j H). pose proof (cnt_diff_le ws Hall i j H).
  pose proof (cnt_le ws Hall i). pose proof (cnt_le ws Hall j). destruct inv; lia.
Qed.

Lemma V_le i : V inv ws i <= 64 * i.
Proof. pose proof (V_diff_le 0 i). rewrite V_0 in *. lia. Qed.

Lemma V_succ i : i < lenN ws -> V inv ws (i + 1) = V inv ws i + popcN (adj inv (nthN ws i 0)).
Proof.
  intro H. unfold V. rewrite cnt_succ by exact H. pose proof (cnt_le ws Hall i).
  assert (Hw : nthN ws i 0 < W) by (apply Forall_nthN; [exact Hall | apply W_pos]).
  pose proof (popcN_le_64 _ Hw). destruct inv; cbn [adj]; [|reflexivity].
  assert (E : popcN (not64 (nthN ws i 0)) = 64 - popcN (nthN ws i 0)).
  { rewrite <- count_false_word_bits, <- count_word_bits by exact Hw.
    pose proof (count_true_false (word_bits (nthN ws i 0))) as T.
    unfold lenN in T. rewrite word_bits_length in T. lia. }
  lia.
Qed.

Lemma V_over i : lenN ws <= i -> V inv ws (i + 1) = V inv ws i + if inv then 64 else 0.
Proof.
  intro H. unfold V. rewrite !cnt_over by lia. pose proof (popsum_le ws Hall). destruct inv; lia.
Qed.

Lemma Rk_0 : Rk inv ws 0 = 0.
Proof. unfold Rk. apply V_0. Qed.
Lemma Rk_mono i j : i <= j -> Rk inv ws i <= Rk inv ws j.
Proof. intro H. unfold Rk. apply V_mono. lia. Qed.
Lemma Rk_step j : Rk inv ws (j + 1) <= Rk inv ws j + 512.
Proof. unfold Rk. pose proof (V_diff_le (8 * j) (8 * (j + 1))). lia. Qed.
Lemma Rk_le j : Rk inv ws j <= 512 * j.
Proof. unfold Rk. pose proof (V_le (8 * j)). lia. Qed.
End VFacts.

Lemma gen_rank_ok ws r : Forall (fun w => w < W) ws -> lenN ws < 2251799813685248 ->
  r_brp r = brp_spec ws -> forall c (zeros : bool) j, j <= nblocks ws ->
  (if zeros then block_rank0 c r j else block_rank c r j) = Ok (Rk zeros ws j).
Proof.
  intros Hall Hlen Hbrp c zeros j Hj. unfold Rk, V. destruct zeros.
  - rewrite (block_rank0_ok ws r Hall Hlen Hbrp) by exact Hj. f_equal. lia.
  - apply (block_rank_ok ws r Hall Hlen Hbrp). exact Hj.
Qed.

(* ---------- the hint table as a pure function ---------- *)

Definition hstep (R : N -> N) (st : list N * N) (i : N) : list N * N :=
  if snd st <? R (i + 1) then (fst st ++ [i], snd st + 1024) else st.
Definition hints_pure (R : N -> N) (nb : N) : list N * N := fold_left (hstep R) (nseq nb) ([], 1024).
Definition hints_spec (inv : bool) (ws : list N) : list N :=
  fst (hints_pure (Rk inv ws) (nblocks ws)) ++ [nblocks ws].

Lemma nseq_succ m : nseq (N.of_nat (S m)) = nseq (N.of_nat m) ++ [N.of_nat m].
Proof. rewrite ?nseq_unfold. rewrite !Nat2N.id, seq_S, map_app. reflexivity. Qed.

Lemma nseq_lt n i : In i (nseq n) -> i < n.
Proof.
  rewrite ?nseq_unfold. intro H. apply in_map_iff in H. destruct H as [k [<- Hk]]. apply in_seq in Hk. lia.
Qed.

Section HintsInv.
Variable R : N -> N.
Hypothesis R0 : R 0 = 0.
Hypothesis Rstep : forall j, R (j + 1) <= R j + 512.

Definition hinv (m : N) (st : list N * N) : Prop :=
  snd st = 1024 * (lenN (fst st) + 1) /\ R m <= snd st /\
  forall q, q < lenN (fst st) ->
    nthN (fst st) q 0 < m /\ R (nthN (fst st) q 0) <= 1024 * (q + 1) < R (nthN (fst st) q 0 + 1).

Lemma hstep_inv m st : hinv m st -> hinv (m + 1) (hstep R st m).
Proof.
  destruct st as [H thr]. intros [I1 [I2 I3]]. cbn [fst snd] in *. unfold hstep. cbn [fst snd].
  destruct (N.ltb_spec thr (R (m + 1))) as [Hlt|Hge]; unfold hinv; cbn [fst snd].
  - rewrite lenN_app. change (lenN [m]) with 1. split; [lia|]. split; [specialize (Rstep m); lia|].
    intros q Hq. destruct (N.lt_ge_cases q (lenN H)) as [Hq'|Hq'].
    + rewrite nthN_app_l by exact Hq'. specialize (I3 q Hq'). lia.
    + replace q with (lenN H) by lia. rewrite nthN_app_r by lia. rewrite N.sub_diag.
      change (nthN [m] 0 0) with m. lia.
  - split; [exact I1|]. split; [lia|]. intros q Hq. specialize (I3 q Hq). lia.
Qed.

Lemma hints_pure_inv m : hinv (N.of_nat m) (hints_pure R (N.of_nat m)).
Proof.
  induction m as [|m IH].
  - unfold hints_pure, hinv. change (N.of_nat 0) with 0. change (nseq 0) with (@nil N).
    cbn [fold_left fst snd].
    rewrite R0. split; [reflexivity|]. split; [lia|]. intros q Hq. unfold lenN in Hq. cbn in Hq. lia.
  - unfold hints_pure in *. rewrite nseq_succ, fold_left_app. cbn [fold_left].
    replace (N.of_nat (S m)) with (N.of_nat m + 1) by lia. apply hstep_inv, IH.
Qed.
End HintsInv.

(* the monadic construction computes the pure table *)
Lemma hints_fold_ok c (zeros : bool) r (R : N -> N) nb :
  (forall j, j <= nb -> (if zeros then block_rank0 c r j else block_rank c r j) = Ok (R j)) ->
  nb < 281474976710657 ->
  forall l st, (forall i, In i l -> i < nb) -> snd st + 1024 * lenN l < 1152921504606846976 ->
  fold_res (hints_step c zeros r) l st = Ok (fold_left (hstep R) l st).
Proof.
  intros HR Hnb. induction l as [|i l IH]; intros [H thr] Hl Hthr; [reflexivity|].
  cbn [fold_res fold_left]. rewrite lenN_cons in Hthr. cbn [snd] in Hthr.
  assert (Hi : i < nb) by (apply Hl; left; reflexivity).
  unfold hints_step at 1. rewrite add_ok by (unfold W; lia). cbn [bind].
  rewrite HR by lia. cbn [bind]. unfold hstep at 2. cbn [fst snd].
  destruct (N.ltb_spec thr (R (i + 1))) as [Hlt|Hge].
  - unfold SELECT_ONES_PER_HINT. rewrite add_ok by (unfold W; lia). cbn [bind].
    apply IH; [intros k Hk; apply Hl; right; exact Hk | cbn [snd]; lia].
  - cbn [bind]. apply IH; [intros k Hk; apply Hl; right; exact Hk | cbn [snd]; lia].
Qed.

Section Hints.
Variables (ws : list N) (r : r9index).
Hypothesis Hall : Forall (fun w => w < W) ws.
Hypothesis Hlen : lenN ws < 2251799813685248.
Hypothesis Hbrp : r_brp r = brp_spec ws.

Lemma build_hints_ok c zeros : build_hints c zeros r = Ok (hints_spec zeros ws).
Proof.
  unfold build_hints. rewrite (num_blocks_ok ws r Hall Hlen Hbrp). cbn [bind].
  pose proof (nblocks_lt ws Hlen) as Hnb.
  rewrite (hints_fold_ok c zeros r (Rk zeros ws) (nblocks ws)).
  - cbn [bind]. reflexivity.
  - intros j Hj. apply gen_rank_ok; assumption.
  - exact Hnb.
  - intros i Hi. apply nseq_lt, Hi.
  - unfold SELECT_ONES_PER_HINT. cbn [snd]. unfold lenN. rewrite ?nseq_unfold. rewrite map_length, seq_length. lia.
Qed.

(* the window given to the bisection *)
Lemma hint_window c zeros k :
  k < Rk zeros ws (nblocks ws) ->
  exists a b,
    (let chunk := k / SELECT_ONES_PER_HINT in
     a <- (if negb (chunk =? 0) then (i <- sub c chunk 1 ;; idx 0 (hints_spec zeros ws) i) else Ok 0) ;;
     h <- idx 0 (hints_spec zeros ws) chunk ;; b <- add c h 1 ;; Ok (a, b)) = Ok (a, b) /\
    a < b /\ b <= nblocks ws + 1 /\ Rk zeros ws a <= k /\ (b <= nblocks ws -> k < Rk zeros ws b).
Proof.
  intro Hk. unfold SELECT_ONES_PER_HINT. cbv zeta.
  pose proof (nblocks_lt ws Hlen) as Hnb. set (nb := nblocks ws) in *.
  pose proof (hints_pure_inv (Rk zeros ws) (Rk_0 zeros ws Hall) (Rk_step zeros ws Hall) (N.to_nat nb)) as I.
  rewrite N2Nat.id in I. unfold hints_spec. fold nb.
  destruct (hints_pure (Rk zeros ws) nb) as [H thr]. destruct I as [I1 [I2 I3]]. cbn [fst snd] in *.
  set (ch := k / 1024).
  assert (Hch : ch <= lenN H) by (unfold ch; lia).
  assert (Hmono := Rk_mono zeros ws Hall).
  (* a *)
  assert (Ea : exists a, (if negb (ch =? 0) then (i <- sub c ch 1 ;; idx 0 (H ++ [nb]) i) else Ok 0) = Ok a
                         /\ Rk zeros ws a <= k /\ a < nb + 1 /\
                         (ch <> 0 -> a = nthN H (ch - 1) 0)).
  { destruct (N.eqb_spec ch 0) as [Hz|Hnz]; cbn [negb].
    - exists 0. rewrite Rk_0 by exact Hall. repeat split; [lia | lia | tauto].
    - rewrite sub_ok by lia. cbn [bind].
      rewrite idx_ok by (rewrite lenN_app; change (lenN [nb]) with 1; lia).
      rewrite nthN_app_l by lia. eexists. split; [reflexivity|].
      specialize (I3 (ch - 1) ltac:(lia)). replace (ch - 1 + 1) with ch in I3 by lia.
      unfold ch in *. repeat split; lia. }
  destruct Ea as [a [Ea [Ha1 [Ha2 Ha3]]]]. rewrite Ea. cbn [bind].
  rewrite idx_ok by (rewrite lenN_app; change (lenN [nb]) with 1; lia). cbn [bind].
  destruct (N.lt_ge_cases ch (lenN H)) as [Hlt|Hge].
  - rewrite nthN_app_l by exact Hlt. specialize (I3 ch Hlt).
    rewrite add_ok by (unfold W; lia). cbn [bind].
    exists a, (nthN H ch 0 + 1). split; [reflexivity|].
    assert (Hkb : k < Rk zeros ws (nthN H ch 0 + 1)) by (unfold ch in *; lia).
    repeat split; try lia.
    destruct (N.lt_ge_cases a (nthN H ch 0 + 1)) as [Hab|Hab]; [exact Hab|].
    specialize (Hmono _ _ Hab). lia.
  - replace ch with (lenN H) by lia. rewrite nthN_app_r by lia. rewrite N.sub_diag.
    change (nthN [nb] 0 0) with nb. rewrite add_ok by (unfold W; lia). cbn [bind].
    exists a, (nb + 1). split; [reflexivity|]. repeat split; lia.
Qed.
End Hints.
