(* Proofs/C14_Popcount.v — byte_counts, bytes_sum and popcount equal their mathematical
   definitions on every 64-bit word, in every configuration (part of property C14). *)
From Sucds Require Import Base.Res Spec.WordSpec gen.BroadwordGen Proofs.ResLemmas Proofs.C14_Bits.
From Coq Require Import ZArith ZifyN ZifyBool ZifyNat Lia.
Ltac Zify.zify_post_hook ::= Z.div_mod_to_equations.
Open Scope N_scope.

Ltac side := first [assumption | lia | (vm_compute; reflexivity) | (vm_compute; discriminate)
                    | (rewrite map_length; assumption)].

Notation pack8 := (pack 8).
Notation lanes8 := (lanes 8).

Lemma pack8_lt_W l : lanes8 l -> length l = 8%nat -> pack8 l < W.
Proof. intros Hl Hn. pose proof (pack_lt 8 l Hl) as H. rewrite Hn in H. exact H. Qed.

Lemma list8 {A} (l : list A) : length l = 8%nat ->
  exists a0 a1 a2 a3 a4 a5 a6 a7, l = [a0; a1; a2; a3; a4; a5; a6; a7].
Proof.
  intro H.
  destruct l as [|a0 [|a1 [|a2 [|a3 [|a4 [|a5 [|a6 [|a7 [|a8 l]]]]]]]]]; cbn [length] in H; try discriminate.
  do 8 eexists. reflexivity.
Qed.

Lemma pack8_bound {A} (f : A -> N) l m : length l = 8%nat -> (forall a, In a l -> f a <= m) ->
  pack8 (map f l) <= pack8 (repeat m 8).
Proof.
  intros Hn H.
  replace (repeat m 8) with (map (fun _ : A => m) l).
  - apply pack_map_le. exact H.
  - destruct (list8 l Hn) as (a0 & a1 & a2 & a3 & a4 & a5 & a6 & a7 & ->). reflexivity.
Qed.

Definition bytes8 (x : N) : list N := unpack 8 8 x.
Lemma bytes8_length x : length (bytes8 x) = 8%nat. Proof. apply unpack_length. Qed.
Lemma bytes8_lanes x : lanes8 (bytes8 x). Proof. apply unpack_lanes. Qed.
Lemma pack8_bytes8 x : x < W -> pack8 (bytes8 x) = x.
Proof. intro H. apply (pack_unpack 8 8). exact H. Qed.

Fixpoint sumN (l : list N) : N := match l with [] => 0 | a :: r => a + sumN r end.

Lemma popcN_pack8 l : lanes8 l -> popcN (pack8 l) = sumN (map popcN l).
Proof.
  induction l as [|a l IH]; intro H; [reflexivity|].
  apply lanes_cons in H. destruct H as [Ha Hl]. cbn [pack map sumN].
  pose proof (popcN_split 8 a (pack8 l) Ha) as E. change (N.of_nat 8) with 8 in E.
  rewrite E, IH by exact Hl. reflexivity.
Qed.

(* ---- the per-byte facts, by a sweep over 256 values ---- *)
Definition bc1 (a : N) : N := a - N.land (N.shiftr a 1) 85.
Definition bc2 (a : N) : N := N.land (bc1 a) 51 + N.land (N.shiftr (bc1 a) 2) 51.

Definition byte_check (a : N) : bool :=
  (N.land (N.shiftr a 1) 85 <=? a) && (bc1 a <? 256) && (bc2 a mod 16 <=? 7) && (bc2 a / 16 <=? 7)
  && (bc2 a mod 16 + bc2 a / 16 =? popcN a).

Lemma byte_check_all : forall a, a < 256 -> byte_check a = true.
Proof. apply (forall_lt_pow2_sound 8). vm_compute. reflexivity. Qed.

Lemma byte_facts a : a < 256 ->
  N.land (N.shiftr a 1) 85 <= a /\ bc1 a < 256 /\ bc2 a mod 16 <= 7 /\ bc2 a / 16 <= 7 /\
  bc2 a mod 16 + bc2 a / 16 = popcN a.
Proof.
  intro H. pose proof (byte_check_all a H) as C. unfold byte_check in C.
  repeat (apply andb_prop in C; destruct C as [C ?]).
  repeat split; first [apply N.leb_le | apply N.ltb_lt | apply N.eqb_eq]; assumption.
Qed.

(* ---- folding the two nibbles of every byte ---- *)
Lemma nib_fold l : Forall (fun b => b mod 16 <= 7 /\ b / 16 <= 7) l ->
  N.land (pack8 l + pack8 l / 16) (pack8 (repeat 15 (length l)))
  = pack8 (map (fun b => b mod 16 + b / 16) l)
  /\ pack8 l mod 16 <= 7.
Proof.
  induction l as [|b l IH]; intro H.
  - cbn [pack repeat length map]. split; reflexivity || (cbn; lia).
  - inversion H as [|b' l' [Hlo Hhi] Hl]; subst. destruct (IH Hl) as [E Hq]. clear IH.
    cbn [pack repeat length map]. change (2 ^ 8) with 256.
    set (Q := pack8 l) in *.
    replace (b + 256 * Q + (b + 256 * Q) / 16)
      with ((b + b / 16 + 16 * (Q mod 16)) + 2 ^ 8 * (Q + Q / 16)) by (change (2 ^ 8) with 256; lia).
    change 256 with (2 ^ 8).
    rewrite land_split by (change (2 ^ 8) with 256; lia).
    rewrite E. split.
    + f_equal. change 15 with (N.ones 4). rewrite N.land_ones. change (2 ^ 4) with 16. lia.
    + change (2 ^ 8) with 256. lia.
Qed.

(* ---- masks ---- *)
Lemma mask_55 : N.shiftr (10 * ONES_STEP_4) 1 = pack8 (repeat 85 8). Proof. vm_compute. reflexivity. Qed.
Lemma mask_33 : 3 * ONES_STEP_4 = pack8 (repeat 51 8). Proof. vm_compute. reflexivity. Qed.
Lemma mask_0F : 15 * ONES_STEP_8 = pack8 (repeat 15 8). Proof. vm_compute. reflexivity. Qed.

Lemma byte_counts_pack c l : lanes8 l -> length l = 8%nat ->
  byte_counts c (pack8 l) = Ok (pack8 (map popcN l)).
Proof.
  intros Hl Hn.
  assert (Hf : forall a, In a l -> a < 256).
  { intros a Ha. unfold lanes in Hl. rewrite Forall_forall in Hl. apply (Hl a Ha). }
  unfold byte_counts.
  rewrite mul_ok by (vm_compute; reflexivity). cbn [bind].
  rewrite shr_ok by lia. cbn [bind].
  rewrite <- N.shiftr_div_pow2, N.shiftr_land, mask_55.
  rewrite (shr_land_map 8 l 85 8 1 Hl) by side.
  assert (E1 : pack8 l - pack8 (map (fun a => N.land (N.shiftr a 1) 85) l) = pack8 (map bc1 l)).
  { rewrite <- (map_id l) at 1. rewrite sub_map; [reflexivity|].
    intros a Ha. apply (byte_facts a (Hf a Ha)). }
  rewrite sub_ok.
  2:{ rewrite <- (map_id l) at 2. apply pack_map_le. intros a Ha. apply (byte_facts a (Hf a Ha)). }
  cbn [bind]. rewrite E1.
  assert (L1 : lanes8 (map bc1 l)).
  { apply lanes_map. intros a Ha. apply (byte_facts a (Hf a Ha)). }
  rewrite mul_ok by (vm_compute; reflexivity). cbn [bind].
  rewrite shr_ok by lia. cbn [bind].
  rewrite mul_ok by (vm_compute; reflexivity). cbn [bind].
  rewrite <- N.shiftr_div_pow2, mask_33.
  rewrite (land_map 8 (map bc1 l) 51 8 L1) by side.
  rewrite (shr_land_map 8 (map bc1 l) 51 8 2 L1) by side.
  rewrite !map_map.
  assert (L2 : Forall (fun b => b mod 16 <= 7 /\ b / 16 <= 7) (map bc2 l)).
  { apply Forall_forall. intros b Hb. apply in_map_iff in Hb. destruct Hb as [a [<- Ha]].
    pose proof (byte_facts a (Hf a Ha)). tauto. }
  assert (L2' : lanes8 (map bc2 l)).
  { apply lanes_map. intros a Ha. pose proof (byte_facts a (Hf a Ha)). change (2 ^ 8) with 256. lia. }
  assert (B2 : pack8 (map bc2 l) < W) by (apply pack8_lt_W; [exact L2' | rewrite map_length; exact Hn]).
  rewrite add_ok by (rewrite add_map; exact B2). cbn [bind].
  rewrite add_map. change (fun x => N.land (bc1 x) 51 + N.land (N.shiftr (bc1 x) 2) 51) with bc2.
  rewrite shr_ok by lia. cbn [bind].
  destruct (nib_fold (map bc2 l) L2) as [E3 _]. rewrite map_length, Hn in E3.
  assert (B3 : pack8 (map bc2 l) + pack8 (map bc2 l) / 2 ^ 4 < W).
  { assert (P : pack8 (map bc2 l) <= pack8 (repeat 119 8)).
    { apply pack8_bound; [exact Hn|]. intros a Ha. pose proof (byte_facts a (Hf a Ha)). lia. }
    change (pack8 (repeat 119 8)) with 8608480567731124087 in P. change (2 ^ 4) with 16.
    unfold W. lia. }
  rewrite add_ok by exact B3. cbn [bind].
  rewrite mask_0F. change (2 ^ 4) with 16. rewrite E3. rewrite map_map.
  f_equal. apply pack_map_ext. intros a Ha. apply (byte_facts a (Hf a Ha)).
Qed.

(* ---- multiplying by ONES_STEP_8: prefix sums of the bytes ---- *)
Definition psums8 (c0 c1 c2 c3 c4 c5 c6 c7 : N) : list N :=
  [c0; c0 + c1; c0 + c1 + c2; c0 + c1 + c2 + c3; c0 + c1 + c2 + c3 + c4;
   c0 + c1 + c2 + c3 + c4 + c5; c0 + c1 + c2 + c3 + c4 + c5 + c6;
   c0 + c1 + c2 + c3 + c4 + c5 + c6 + c7].

Lemma wmul_ones_pack c0 c1 c2 c3 c4 c5 c6 c7 :
  c0 + c1 + c2 + c3 + c4 + c5 + c6 + c7 < 256 ->
  wmul ONES_STEP_8 (pack8 [c0; c1; c2; c3; c4; c5; c6; c7]) = pack8 (psums8 c0 c1 c2 c3 c4 c5 c6 c7).
Proof.
  intro H. rewrite wmul_spec. unfold psums8, ONES_STEP_8, W. cbn [pack]. change (2 ^ 8) with 256.
  lia.
Qed.

Lemma pack8_top s0 s1 s2 s3 s4 s5 s6 s7 :
  lanes8 [s0; s1; s2; s3; s4; s5; s6; s7] -> pack8 [s0; s1; s2; s3; s4; s5; s6; s7] / 2 ^ 56 = s7.
Proof.
  intro H. repeat (apply lanes_cons in H; destruct H as [? H]).
  cbn [pack]. change (2 ^ 8) with 256 in *. change (2 ^ 56) with 72057594037927936. lia.
Qed.

Lemma popcN_byte_le a : a < 256 -> popcN a <= 8.
Proof. intro H. apply (popcN_le 8 a H). Qed.

Lemma bytes_sum_counts c l : lanes8 l -> length l = 8%nat ->
  bytes_sum c (pack8 (map popcN l)) = Ok (popcN (pack8 l)).
Proof.
  intros Hl Hn. rewrite (popcN_pack8 l Hl).
  destruct (list8 l Hn) as (a0 & a1 & a2 & a3 & a4 & a5 & a6 & a7 & ->).
  repeat (apply lanes_cons in Hl; destruct Hl as [? Hl]). change (2 ^ 8) with 256 in *.
  pose proof (popcN_byte_le a0). pose proof (popcN_byte_le a1). pose proof (popcN_byte_le a2).
  pose proof (popcN_byte_le a3). pose proof (popcN_byte_le a4). pose proof (popcN_byte_le a5).
  pose proof (popcN_byte_le a6). pose proof (popcN_byte_le a7).
  cbn [map sumN]. unfold bytes_sum.
  rewrite wmul_ones_pack by lia.
  rewrite shr_ok by lia. cbn [bind]. unfold psums8. rewrite pack8_top.
  - f_equal. lia.
  - repeat (apply lanes_cons; split); try (change (2 ^ 8) with 256; lia). constructor.
Qed.

Lemma popcount_pack c l : lanes8 l -> length l = 8%nat -> popcount c (pack8 l) = Ok (popcN (pack8 l)).
Proof.
  intros Hl Hn. unfold popcount. destruct (intr c).
  - reflexivity.
  - rewrite byte_counts_pack by assumption. cbn [bind].
    rewrite bytes_sum_counts by assumption. reflexivity.
Qed.

Theorem popcount_correct : forall c x, x < W -> popcount c x = Ok (popcN x).
Proof.
  intros c x Hx. rewrite <- (pack8_bytes8 x Hx).
  apply popcount_pack; [apply bytes8_lanes | apply bytes8_length].
Qed.

Lemma byte_counts_correct c x : x < W -> byte_counts c x = Ok (pack8 (map popcN (bytes8 x))).
Proof.
  intro Hx. rewrite <- (pack8_bytes8 x Hx) at 1.
  apply byte_counts_pack; [apply bytes8_lanes | apply bytes8_length].
Qed.

Lemma popcN_lt_W_le x : x < W -> popcN x <= 64.
Proof. intro H. apply (popcN_le 64 x H). Qed.
