(* Proofs/LoopsTieDW.v — the functions of dacs_byte.rs, dacs_opt.rs and wavelet_matrix.rs, regenerated from the Rust
   source on every run by tools/translate.py (gen/LoopsGen.v), are equal to the hand-written model functions of
   Model/Dacs.v and Model/Wavelet.v, for every configuration and argument, under the hypotheses stated in each
   lemma (record-range facts: list lengths and level counts below 2^64, the representation invariant of a
   CompactVector argument).  A change to one of these Rust functions changes the generated definition and re-opens
   exactly one of the lemmas below, by name (DESIGN.md section 5.1). *)
From Sucds Require Import Base.Res Base.Loops Spec.WordSpec Model.BitVector Model.Rank9 Model.DArray
  Model.CompactVector Model.Dacs Model.Wavelet gen.ConstsGen gen.MethodsGen gen.LoopsGen
  Proofs.ResLemmas Proofs.MethodsTie Proofs.LoopsLib Proofs.LoopsTieBV Proofs.LoopsTieIdx Proofs.LoopsTieSeq.
From Sucds Require Spec.SeqSpec.
From Sucds Require Import Spec.DacSpec Proofs.BVAbs Proofs.BVMut Proofs.BVHistory Proofs.CVRep Proofs.CVOps
  Proofs.EFBuilder.
From Coq Require Import ZArith ZifyN ZifyBool ZifyNat Lia.
Open Scope N_scope.
Ltac Zify.zify_post_hook ::= Z.div_mod_to_equations.

Ltac dnorm :=
  cbn [bind rmap fst snd negb andb orb bv_words bv_len cv_chunks cv_len cv_width ci_cv ci_pos
       db_data db_flags do_data do_flags dbi_seq dbi_pos doi_seq doi_pos wm_layers wm_alph_size wi_wm wi_pos
       r9_bv r9_rs brk_join either unwrap assert_] in *.
Ltac dstep :=
  match goal with
  | |- ?x = ?x => reflexivity
  | |- context [bind ?m _] => scrut m
  | |- context [if ?b then _ else _] => atom b
  | |- context [match ?o with Some _ => _ | None => _ end] => destruct o eqn:?
  end; dnorm.
Ltac dsteps := dnorm; repeat dstep.

(* =============================================================================================
   general facts
   ============================================================================================= *)
(* the default argument of `idx` is never returned *)
Lemma idx_dflt {A} (d d' : A) l i : idx d l i = idx d' l i.
Proof.
  unfold idx. destruct (N.ltb_spec i (lenN l)) as [H|H]; [|reflexivity]. f_equal. unfold nthN. apply nth_indep.
  unfold lenN in H. lia.
Qed.

Lemma idx_assert {A} (d : A) l i : idx d l i = (_ <- assert_ (i <? lenN l) ;; Ok (nthN l i d)).
Proof. unfold idx. destruct (i <? lenN l); reflexivity. Qed.

(* `for x in vals { maxv = maxv.max(x.to_usize().ok_or_else(..)?); }` never leaves early (T = usize) *)
Lemma max_fold_gen {R} (vals : list N) : forall m,
  fold_res_brk (fun maxv x =>
      match Some x return res (N + (N + option R)) with
      | None => Ok (inr (inr None))
      | Some t2 => let maxv := N.max maxv t2 in Ok (inl maxv)
      end) vals m = Ok (inl (fold_left N.max vals m)).
Proof. induction vals as [|x r IH]; intro m; [reflexivity|]. rewrite fold_res_brk_cons. cbn [fold_left]. apply IH. Qed.

(* `v.into_iter().map(f).collect()` against the model's `acc.push(f(x))` folds *)
Lemma fold_snoc_map_res {A B} (f : A -> res B) : forall l acc,
  fold_res (fun acc x => r <- f x ;; Ok (acc ++ [r])) l acc = rmap (app acc) (map_res f l).
Proof.
  induction l as [|x r IH]; intro acc; cbn [fold_res map_res bind rmap]; [now rewrite app_nil_r|].
  destruct (f x) as [y|]; cbn [bind rmap]; [|reflexivity]. rewrite IH.
  destruct (map_res f r) as [ys|]; cbn [bind rmap]; [|reflexivity]. now rewrite <- app_assoc.
Qed.

Lemma map_res_ext {A B} (f g : A -> res B) l : (forall x, f x = g x) -> map_res f l = map_res g l.
Proof. intros H. induction l as [|x r IH]; [reflexivity|]. cbn [map_res]. now rewrite H, IH. Qed.

Lemma map_res_pure {A B} (f : A -> B) l : map_res (fun x => Ok (f x)) l = Ok (map f l).
Proof. induction l as [|x r IH]; [reflexivity|]. cbn [map_res bind map]. now rewrite IH. Qed.

Lemma land_255_lt x : N.land x 255 <? 256 = true.
Proof.
  apply N.ltb_lt. change 255 with (N.ones 8). rewrite N.land_ones. apply N.mod_lt. discriminate.
Qed.

Lemma nrange_0_from n : nrange 0 n = nseq_from 0 (N.to_nat n).
Proof. unfold nrange. now rewrite N.sub_0_r. Qed.

(* =============================================================================================
   DacsByte (dacs_byte.rs)
   ============================================================================================= *)
Lemma tie_dacs_byte_default : forall c, dacs_byte_default c = Ok db_default.
Proof. reflexivity. Qed.

(* the single-level shortcut: `vals.iter().map(|x| u8::try_from(x.to_usize().unwrap()).unwrap()).collect()` *)
Lemma db_single_level (vals : list N) :
  map_res (fun x => t6 <- unwrap (Some x) ;; unwrap (if N.ltb t6 256 then Some t6 else None)) vals =
  (_ <- assert_ (forallb (fun x => x <? 256) vals) ;; Ok vals).
Proof.
  rewrite (map_res_ext _ (fun x => unwrap (if x <? 256 then Some x else None))) by (intro; reflexivity).
  induction vals as [|x r IH]; [reflexivity|]. cbn [map_res forallb]. rewrite IH.
  destruct (x <? 256); cbn [unwrap bind andb assert_]; [|reflexivity].
  destruct (forallb (fun x0 => x0 <? 256) r); reflexivity.
Qed.

(* the per-value loop `for j in 0..num_levels` (left by `break`): the model recurses on fuel *)
Lemma db_inner c num_levels : forall n j x data flags,
  rmap (fun o => fst (either o))
    (fold_res_brk (fun '(data, flags, x) j =>
         t11 <- idx [] data j ;;
         t12 <- unwrap (if N.ltb (N.land x dacs_byte_LEVEL_MASK) 256 then Some (N.land x dacs_byte_LEVEL_MASK) else None) ;;
         let data := setN data j (t11 ++ [t12]) in
         x <- shr c x dacs_byte_LEVEL_WIDTH ;;
         t14 <- sub c num_levels 1 ;;
         if N.eqb j t14 then (_ <- assert_ (N.eqb x 0) ;; Ok (inr (data, flags, x)))
         else if N.eqb x 0 then
           (t15 <- idx {| bv_words := []; bv_len := 0 |} flags j ;;
            t16 <- bit_vector_push_bit c t15 false ;;
            let flags := setN flags j t16 in Ok (inr (data, flags, x)))
         else
           (t17 <- idx {| bv_words := []; bv_len := 0 |} flags j ;;
            t18 <- bit_vector_push_bit c t17 true ;;
            let flags := setN flags j t18 in Ok (inl (data, flags, x))))
       (nseq_from j n) (data, flags, x))
  = db_push_levels c n num_levels j x data flags.
Proof.
  induction n as [|n IH]; intros j x data flags; [reflexivity|].
  cbn [nseq_from db_push_levels]. rewrite fold_res_brk_cons.
  rewrite idx_assert, !bind_assoc. change dacs_byte_LEVEL_MASK with LEVEL_MASK. change dacs_byte_LEVEL_WIDTH with LEVEL_WIDTH.
  unfold LEVEL_MASK at 1 2. rewrite land_255_lt. unfold upd_nth.
  destruct (assert_ (j <? lenN data)); dnorm; [|reflexivity].
  destruct (shr c x LEVEL_WIDTH) as [x'|]; dnorm; [|reflexivity].
  destruct (sub c num_levels 1) as [nl1|]; dnorm; [|reflexivity].
  destruct (j =? nl1); dnorm.
  { destruct (x' =? 0); reflexivity. }
  rewrite !idx_assert, !bind_assoc. fold bv_empty.
  destruct (x' =? 0) eqn:Ex; dnorm.
  - destruct (assert_ (j <? lenN flags)); dnorm; [|reflexivity]. rewrite tie_bit_vector_push_bit.
    destruct (push_bit c (nthN flags j bv_empty) false); reflexivity.
  - destruct (assert_ (j <? lenN flags)); dnorm; [|reflexivity]. rewrite tie_bit_vector_push_bit.
    destruct (push_bit c (nthN flags j bv_empty) true) as [fj|]; dnorm; [|reflexivity].
    rewrite <- N.add_1_r. apply IH.
Qed.

Lemma db_inner_bind c num_levels n j x data flags :
  ('(data, flags, x) <- rmap either
    (fold_res_brk (fun '(data, flags, x) j =>
         t11 <- idx [] data j ;;
         t12 <- unwrap (if N.ltb (N.land x dacs_byte_LEVEL_MASK) 256 then Some (N.land x dacs_byte_LEVEL_MASK) else None) ;;
         let data := setN data j (t11 ++ [t12]) in
         x <- shr c x dacs_byte_LEVEL_WIDTH ;;
         t14 <- sub c num_levels 1 ;;
         if N.eqb j t14 then (_ <- assert_ (N.eqb x 0) ;; Ok (inr (data, flags, x)))
         else if N.eqb x 0 then
           (t15 <- idx {| bv_words := []; bv_len := 0 |} flags j ;;
            t16 <- bit_vector_push_bit c t15 false ;;
            let flags := setN flags j t16 in Ok (inr (data, flags, x)))
         else
           (t17 <- idx {| bv_words := []; bv_len := 0 |} flags j ;;
            t18 <- bit_vector_push_bit c t17 true ;;
            let flags := setN flags j t18 in Ok (inl (data, flags, x))))
       (nseq_from j n) (data, flags, x)) ;; Ok (data, flags))
  = db_push_levels c n num_levels j x data flags.
Proof.
  rewrite <- db_inner.
  match goal with |- context [fold_res_brk ?f ?l ?s] => destruct (fold_res_brk f l s) as [[[[d f0] x']|[[d f0] x']]|] end;
    reflexivity.
Qed.

Lemma tie_dacs_byte_from_slice : forall c vals, dacs_byte_from_slice c vals = rmap Some (db_from_slice c vals).
Proof.
  intros c vals. unfold dacs_byte_from_slice, db_from_slice.
  destruct vals as [|x0 r]; [reflexivity|].
  replace (lenN (x0 :: r) =? 0) with false by (symmetry; apply N.eqb_neq; rewrite lenN_cons; lia).
  rewrite max_fold_gen. dnorm. rewrite tie_utils_needed_bits.
  destruct (needed_bits c (fold_left N.max (x0 :: r) 0)) as [nb|]; dnorm; [|reflexivity].
  rewrite tie_utils_ceiled_divide. change dacs_byte_LEVEL_WIDTH with LEVEL_WIDTH.
  destruct (ceiled_divide c nb LEVEL_WIDTH) as [nl|]; dnorm; [|reflexivity].
  destruct (negb (nl =? 0)); dnorm; [|reflexivity].
  destruct (nl =? 1); dnorm.
  { rewrite db_single_level, !bind_assoc. destruct (assert_ _); reflexivity. }
  match goal with |- context [fold_res ?f (x0 :: r)] => set (F := f) end.
  assert (HF : forall s x, F s x = db_push_levels c (N.to_nat nl) nl 0 x (fst s) (snd s)).
  { intros [data flags] x. unfold F. dnorm. rewrite nrange_0_from. apply db_inner_bind. }
  clearbody F.
  destruct (sub c nl 1) as [nl1|]; dnorm; [|reflexivity]. unfold bv_empty.
  rewrite (fold_res_ext F _ _ HF).
  destruct (fold_res _ (x0 :: r) _) as [[data flags]|]; dnorm; [|reflexivity].
  rewrite fold_snoc_map_res, (map_res_ext _ (r9_new c)) by (intro; apply tie_rank9sel_new).
  destruct (map_res (r9_new c) flags); reflexivity.
Qed.

Lemma tie_dacs_byte_len : forall c d, dacs_byte_len c d = db_len c d.
Proof. reflexivity. Qed.

Lemma tie_dacs_byte_is_empty : forall c d, dacs_byte_is_empty c d = (n <- db_len c d ;; Ok (n =? 0)).
Proof. reflexivity. Qed.

Lemma tie_dacs_byte_num_levels : forall c d, dacs_byte_num_levels c d = Ok (db_num_levels d).
Proof. reflexivity. Qed.

Lemma tie_dacs_byte_widths : forall c d, dacs_byte_widths c d = Ok (db_widths d).
Proof. reflexivity. Qed.

(* `for j in 0..self.num_levels()` left by `break` at the last level or at a cleared flag *)
Lemma db_access_inner c d : forall n j pos x,
  rmap (fun o => snd (either o))
    (fold_res_brk (fun '(pos, x) j =>
          t3 <- idx [] (db_data d) j ;;
          t4 <- idx 0 t3 pos ;;
          t5 <- mul c j dacs_byte_LEVEL_WIDTH ;;
          t6 <- shl c t4 t5 ;;
          let x := (N.lor x t6) in
          t7 <- dacs_byte_num_levels c d ;;
          t8 <- sub c t7 1 ;;
          t12 <- (if (N.eqb j t8) then Ok true else (t9 <- idx {| r9_bv := {| bv_words := []; bv_len := 0 |}; r9_rs := {| r_len := 0; r_brp := []; r_h1 := None; r_h0 := None |} |} (db_flags d) j ;;
            t10 <- rank9sel_access c t9 pos ;;
            t11 <- unwrap t10 ;;
            Ok (negb t11))) ;;
          if t12 then (Ok (inr (pos, x))) else (
          t13 <- idx {| r9_bv := {| bv_words := []; bv_len := 0 |}; r9_rs := {| r_len := 0; r_brp := []; r_h1 := None; r_h0 := None |} |} (db_flags d) j ;;
          t14 <- rank9sel_rank1 c t13 pos ;;
          pos <- unwrap t14 ;;
          Ok (inl (pos, x))
          )) (nseq_from j n) (pos, x))
  = db_access_loop c n d j pos x.
Proof.
  match goal with |- context [fold_res_brk ?f] => set (F := f) end.
  induction n as [|n IH]; intros j pos x; [reflexivity|].
  cbn [nseq_from db_access_loop]. rewrite fold_res_brk_cons. unfold F at 1.
  change dacs_byte_LEVEL_WIDTH with LEVEL_WIDTH. unfold dacs_byte_num_levels. fold (db_num_levels d). fold bv_empty.
  destruct (idx [] (db_data d) j) as [lv|]; dnorm; [|reflexivity].
  destruct (idx 0 lv pos) as [b|]; dnorm; [|reflexivity].
  destruct (mul c j LEVEL_WIDTH) as [sh|]; dnorm; [|reflexivity].
  destruct (shl c b sh) as [t|]; dnorm; [|reflexivity].
  destruct (sub c (db_num_levels d) 1) as [nl1|]; dnorm; [|reflexivity].
  destruct (j =? nl1); dnorm; [reflexivity|].
  destruct (idx _ (db_flags d) j) as [fl|]; dnorm; [|reflexivity].
  rewrite tie_rank9sel_access.
  destruct (r9_access c fl pos) as [a|]; dnorm; [|reflexivity].
  destruct a as [a|]; dnorm; [|reflexivity].
  destruct a; dnorm; [|reflexivity].
  rewrite tie_rank9sel_rank1.
  destruct (r9_rank1 c fl pos) as [p|]; dnorm; [|reflexivity].
  destruct p as [p|]; dnorm; [|reflexivity].
  rewrite <- N.add_1_r. apply IH.
Qed.

Lemma tie_dacs_byte_access : forall c d pos, dacs_byte_access c d pos = db_access c d pos.
Proof.
  intros c d pos. unfold dacs_byte_access, db_access. rewrite tie_dacs_byte_len.
  destruct (db_len c d) as [n|]; dnorm; [|reflexivity].
  destruct (n <=? pos); [reflexivity|].
  unfold dacs_byte_num_levels at 1. dnorm. rewrite nrange_0_from.
  rewrite <- (db_access_inner c d (N.to_nat (db_num_levels d)) 0 pos 0). unfold db_num_levels.
  match goal with |- context [fold_res_brk ?f ?l ?s] => destruct (fold_res_brk f l s) as [[[p x]|[p x]]|] end; reflexivity.
Qed.

Lemma tie_dacs_byte_iter_new : forall c d, dacs_byte_iter_new c d = Ok {| dbi_seq := d; dbi_pos := 0 |}.
Proof. reflexivity. Qed.

Lemma tie_dacs_byte_iter : forall c d, dacs_byte_iter c d = Ok {| dbi_seq := d; dbi_pos := 0 |}.
Proof. reflexivity. Qed.

Lemma tie_dacs_byte_build_from_slice : forall c vals, dacs_byte_build_from_slice c vals = rmap Some (db_from_slice c vals).
Proof. intros. apply tie_dacs_byte_from_slice. Qed.

Lemma tie_dacs_byte_num_vals : forall c d, dacs_byte_num_vals c d = db_len c d.
Proof. reflexivity. Qed.

Lemma tie_dacs_byte_iter_next : forall c it,
  dacs_byte_iter_next c it =
  ('(p, x) <- db_iter_next c (dbi_seq it) (dbi_pos it) ;; Ok ({| dbi_seq := dbi_seq it; dbi_pos := p |}, x)).
Proof.
  intros c [d pos]. unfold dacs_byte_iter_next, db_iter_next. rewrite tie_dacs_byte_len. dnorm.
  destruct (db_len c d) as [n|]; dnorm; [|reflexivity].
  destruct (pos <? n); dnorm; [|reflexivity]. rewrite tie_dacs_byte_access.
  destruct (db_access c d pos) as [[x|]|]; dnorm; try reflexivity.
  destruct (add c pos 1); reflexivity.
Qed.

Lemma tie_dacs_byte_iter_size_hint : forall c it,
  dacs_byte_iter_size_hint c it =
  (n <- db_len c (dbi_seq it) ;; '(a, b) <- BitVector.iter_size_hint c n (dbi_pos it) ;; Ok (a, Some b)).
Proof.
  intros c [d pos]. unfold dacs_byte_iter_size_hint, iter_size_hint. rewrite tie_dacs_byte_len. dnorm.
  destruct (db_len c d) as [n|]; dnorm; [|reflexivity]. destruct (sub c n pos); reflexivity.
Qed.

(* =============================================================================================
   DacsOpt (dacs_opt.rs) except the dynamic program
   ============================================================================================= *)
Lemma tie_dacs_opt_default : forall c, dacs_opt_default c = Ok do_default.
Proof. reflexivity. Qed.

(* the per-value loop `for (j, &width) in widths.iter().enumerate()`: the model recurses on the remaining widths *)
Lemma do_inner c nlev : forall ws j x data flags,
  rmap (fun o => fst (either o))
    (fold_res_brk (fun '(data, flags, x) '(j, width) =>
                t11 <- shl c 1 width ;;
                mask <- sub c t11 1 ;;
                t13 <- idx {| cv_chunks := {| bv_words := []; bv_len := 0 |}; cv_len := 0; cv_width := 0 |} data j ;;
                t14 <- compact_vector_push_int c t13 (N.land x mask) ;;
                let data := (setN data j (fst t14)) in
                _ <- assert_ (snd t14) ;;
                x <- shr c x width ;;
                t16 <- sub c nlev 1 ;;
                if (N.eqb j t16) then (
                  _ <- assert_ (N.eqb x 0) ;;
                  Ok (inr (data, flags, x))
                ) else (
                if (N.eqb x 0) then (
                  t17 <- idx {| bv_words := []; bv_len := 0 |} flags j ;;
                  t18 <- bit_vector_push_bit c t17 false ;;
                  let flags := (setN flags j t18) in
                  Ok (inr (data, flags, x))
                ) else (
                t19 <- idx {| bv_words := []; bv_len := 0 |} flags j ;;
                t20 <- bit_vector_push_bit c t19 true ;;
                let flags := (setN flags j t20) in
                Ok (inl (data, flags, x))
                ) )) (enumerate_from j ws) (data, flags, x))
  = do_push_levels c ws nlev j x data flags.
Proof.
  match goal with |- context [fold_res_brk ?f] => set (F := f) end.
  induction ws as [|width ws IH]; intros j x data flags; [reflexivity|].
  rewrite enumerate_from_cons. cbn [do_push_levels]. rewrite fold_res_brk_cons. unfold F at 1.
  fold bv_empty. fold cv_default.
  destruct (shl c 1 width) as [t|]; dnorm; [|reflexivity].
  destruct (sub c t 1) as [mask|]; dnorm; [|reflexivity].
  rewrite idx_assert, !bind_assoc.
  destruct (assert_ (j <? lenN data)); dnorm; [|reflexivity].
  rewrite tie_compact_vector_push_int.
  destruct (cv_push_int c (nthN data j cv_default) (N.land x mask)) as [[v ok]|]; dnorm; [|reflexivity].
  destruct ok; dnorm; [|reflexivity].
  destruct (shr c x width) as [x'|]; dnorm; [|reflexivity].
  destruct (sub c nlev 1) as [nl1|]; dnorm; [|reflexivity].
  destruct (j =? nl1); dnorm.
  { destruct (x' =? 0); reflexivity. }
  rewrite !idx_assert, !bind_assoc.
  destruct (x' =? 0) eqn:Ex; dnorm.
  - destruct (assert_ (j <? lenN flags)); dnorm; [|reflexivity]. rewrite tie_bit_vector_push_bit.
    destruct (push_bit c (nthN flags j bv_empty) false); reflexivity.
  - destruct (assert_ (j <? lenN flags)); dnorm; [|reflexivity]. rewrite tie_bit_vector_push_bit.
    destruct (push_bit c (nthN flags j bv_empty) true) as [fj|]; dnorm; [|reflexivity].
    rewrite <- N.add_1_r. apply IH.
Qed.

Lemma tie_dacs_opt_build : forall c vals widths, dacs_opt_build c vals widths = rmap Some (do_build c vals widths).
Proof.
  intros c vals widths. unfold dacs_opt_build, do_build.
  match goal with |- context [fold_res ?f vals (_, _)] => set (F := f) end.
  assert (HF : forall s x, F s x = do_push_levels c widths (lenN widths) 0 x (fst s) (snd s)).
  { intros [data flags] x. unfold F. dnorm. rewrite <- (do_inner c (lenN widths) widths 0 x data flags).
    unfold enumerate.
    match goal with |- context [fold_res_brk ?f ?l ?s] => destruct (fold_res_brk f l s) as [[[[d f0] x']|[[d f0] x']]|] end;
      reflexivity. }
  clearbody F.
  destruct (assert_ (negb (lenN vals =? 0))); dnorm; [|reflexivity].
  destruct (assert_ (negb (lenN widths =? 0))); dnorm; [|reflexivity].
  destruct (lenN widths =? 1); dnorm.
  { destruct (idx 0 widths 0) as [w0|]; dnorm; [|reflexivity]. rewrite tie_compact_vector_with_capacity.
    destruct (cv_with_capacity c (lenN vals) w0) as [[v|]|]; dnorm; try reflexivity.
    rewrite (fold_res_ext _ (fun v x => r <- cv_push_int c v x ;; _ <- assert_ (snd r) ;; Ok (fst r))).
    2:{ intros s x. cbn [unwrap bind]. now rewrite tie_compact_vector_push_int. }
    destruct (fold_res _ vals v); reflexivity. }
  rewrite fold_snoc_map_res, (map_res_ext _ (fun w => unwrap (cv_new w))).
  2:{ intro w. rewrite tie_compact_vector_new. reflexivity. }
  destruct (map_res (fun w => unwrap (cv_new w)) widths) as [data0|]; dnorm; [|reflexivity].
  destruct (sub c (lenN widths) 1) as [nl1|]; dnorm; [|reflexivity]. unfold bv_empty.
  rewrite (fold_res_ext F _ _ HF).
  destruct (fold_res _ vals _) as [[data flags]|]; dnorm; [|reflexivity].
  rewrite fold_snoc_map_res, (map_res_ext _ (r9_new c)) by (intro; apply tie_rank9sel_new).
  destruct (map_res (r9_new c) flags); reflexivity.
Qed.

(* `for x in vals { x.to_usize().ok_or_else(..)?; }` with T = usize: nothing happens *)
Lemma castable_fold {R} (vals : list N) :
  fold_res_brk (fun (_ : unit) x =>
      match Some x return res (unit + (unit + option R)) with
      | None => Ok (inr (inr None))
      | Some t3 => Ok (inl tt)
      end) vals tt = Ok (inl tt).
Proof. induction vals as [|x r IH]; [reflexivity|]. rewrite fold_res_brk_cons. apply IH. Qed.

(* from_slice, relative to the generated dynamic program (tied below: tie_dacs_opt_compute_opt_widths) *)
Lemma dacs_opt_from_slice_rel : forall c vals max_levels,
  dacs_opt_from_slice c vals max_levels =
  (let ml := match max_levels with Some m => m | None => 64 end in
   if negb ((1 <=? ml) && (ml <=? 64)) then Ok None else
   match vals with
   | [] => Ok (Some do_default)
   | _ => w <- dacs_opt_compute_opt_widths c vals ml ;; d <- do_build c vals w ;; Ok (Some d)
   end).
Proof.
  intros c vals ml. unfold dacs_opt_from_slice. cbv zeta.
  destruct (negb _); [reflexivity|].
  destruct vals as [|x0 r]; [reflexivity|].
  replace (lenN (x0 :: r) =? 0) with false by (symmetry; apply N.eqb_neq; rewrite lenN_cons; lia).
  match goal with |- context [fold_res_brk ?f (x0 :: r) tt] =>
    replace (fold_res_brk f (x0 :: r) tt) with (@Ok (unit + (unit + option dacsopt)) (inl tt)) end.
  2:{ symmetry. apply (castable_fold (x0 :: r)). }
  dnorm. destruct (dacs_opt_compute_opt_widths c (x0 :: r) _) as [w|]; dnorm; [|reflexivity].
  rewrite tie_dacs_opt_build. destruct (do_build c (x0 :: r) w); reflexivity.
Qed.

Lemma tie_dacs_opt_len : forall c d, dacs_opt_len c d = do_len c d.
Proof. intros. unfold dacs_opt_len, do_len. fold bv_empty. fold cv_default. destruct (idx cv_default (do_data d) 0); reflexivity. Qed.

Lemma tie_dacs_opt_is_empty : forall c d, dacs_opt_is_empty c d = (n <- do_len c d ;; Ok (n =? 0)).
Proof. intros. unfold dacs_opt_is_empty. now rewrite tie_dacs_opt_len. Qed.

Lemma tie_dacs_opt_num_levels : forall c d, dacs_opt_num_levels c d = Ok (do_num_levels d).
Proof. reflexivity. Qed.

Lemma tie_dacs_opt_widths : forall c d, dacs_opt_widths c d = Ok (do_widths d).
Proof. intros. unfold dacs_opt_widths, do_widths. apply (map_res_pure cv_width). Qed.

Lemma do_access_inner c d : forall n j pos width x,
  rmap (fun o => snd (either o))
    (fold_res_brk (fun '(pos, width, x) j =>
          t3 <- idx {| cv_chunks := {| bv_words := []; bv_len := 0 |}; cv_len := 0; cv_width := 0 |} (do_data d) j ;;
          t4 <- compact_vector_access c t3 pos ;;
          t5 <- unwrap t4 ;;
          t6 <- shl c t5 width ;;
          let x := (N.lor x t6) in
          t7 <- dacs_opt_num_levels c d ;;
          t8 <- sub c t7 1 ;;
          t12 <- (if (N.eqb j t8) then Ok true else (t9 <- idx {| r9_bv := {| bv_words := []; bv_len := 0 |}; r9_rs := {| r_len := 0; r_brp := []; r_h1 := None; r_h0 := None |} |} (do_flags d) j ;;
            t10 <- rank9sel_access c t9 pos ;;
            t11 <- unwrap t10 ;;
            Ok (negb t11))) ;;
          if t12 then (Ok (inr (pos, width, x))) else (
          t13 <- idx {| r9_bv := {| bv_words := []; bv_len := 0 |}; r9_rs := {| r_len := 0; r_brp := []; r_h1 := None; r_h0 := None |} |} (do_flags d) j ;;
          t14 <- rank9sel_rank1 c t13 pos ;;
          pos <- unwrap t14 ;;
          t16 <- idx {| cv_chunks := {| bv_words := []; bv_len := 0 |}; cv_len := 0; cv_width := 0 |} (do_data d) j ;;
          t17 <- compact_vector_width c t16 ;;
          width <- add c width t17 ;;
          Ok (inl (pos, width, x))
          )) (nseq_from j n) (pos, width, x))
  = do_access_loop c n d j pos x width.
Proof.
  match goal with |- context [fold_res_brk ?f] => set (F := f) end.
  induction n as [|n IH]; intros j pos width x; [reflexivity|].
  cbn [nseq_from do_access_loop]. rewrite fold_res_brk_cons. unfold F at 1.
  unfold dacs_opt_num_levels. fold (do_num_levels d). fold bv_empty. fold cv_default.
  destruct (idx cv_default (do_data d) j) as [lv|]; dnorm; [|reflexivity].
  rewrite tie_compact_vector_access.
  destruct (cv_access c lv pos) as [b|]; dnorm; [|reflexivity].
  destruct b as [b|]; dnorm; [|reflexivity].
  destruct (shl c b width) as [t|]; dnorm; [|reflexivity].
  destruct (sub c (do_num_levels d) 1) as [nl1|]; dnorm; [|reflexivity].
  destruct (j =? nl1); dnorm; [reflexivity|].
  destruct (idx _ (do_flags d) j) as [fl|]; dnorm; [|reflexivity].
  rewrite tie_rank9sel_access.
  destruct (r9_access c fl pos) as [a|]; dnorm; [|reflexivity].
  destruct a as [a|]; dnorm; [|reflexivity].
  destruct a; dnorm; [|reflexivity].
  rewrite tie_rank9sel_rank1.
  destruct (r9_rank1 c fl pos) as [p|]; dnorm; [|reflexivity].
  destruct p as [p|]; dnorm; [|reflexivity].
  unfold compact_vector_width. dnorm.
  destruct (add c width (cv_width lv)) as [w'|]; dnorm; [|reflexivity].
  rewrite <- N.add_1_r. apply IH.
Qed.

Lemma tie_dacs_opt_access : forall c d pos, dacs_opt_access c d pos = do_access c d pos.
Proof.
  intros c d pos. unfold dacs_opt_access, do_access. rewrite tie_dacs_opt_len.
  destruct (do_len c d) as [n|]; dnorm; [|reflexivity].
  destruct (n <=? pos); [reflexivity|].
  unfold dacs_opt_num_levels at 1. dnorm. rewrite nrange_0_from.
  rewrite <- (do_access_inner c d (N.to_nat (do_num_levels d)) 0 pos 0 0). unfold do_num_levels.
  match goal with |- context [fold_res_brk ?f ?l ?s] => destruct (fold_res_brk f l s) as [[[[p w] x]|[[p w] x]]|] end; reflexivity.
Qed.

Lemma tie_dacs_opt_iter_new : forall c d, dacs_opt_iter_new c d = Ok {| doi_seq := d; doi_pos := 0 |}.
Proof. reflexivity. Qed.

Lemma tie_dacs_opt_iter : forall c d, dacs_opt_iter c d = Ok {| doi_seq := d; doi_pos := 0 |}.
Proof. reflexivity. Qed.

Lemma tie_dacs_opt_num_vals : forall c d, dacs_opt_num_vals c d = do_len c d.
Proof. intros. apply tie_dacs_opt_len. Qed.

Lemma tie_dacs_opt_iter_next : forall c it,
  dacs_opt_iter_next c it =
  ('(p, x) <- do_iter_next c (doi_seq it) (doi_pos it) ;; Ok ({| doi_seq := doi_seq it; doi_pos := p |}, x)).
Proof.
  intros c [d pos]. unfold dacs_opt_iter_next, do_iter_next. rewrite tie_dacs_opt_len. dnorm.
  destruct (do_len c d) as [n|]; dnorm; [|reflexivity].
  destruct (pos <? n); dnorm; [|reflexivity]. rewrite tie_dacs_opt_access.
  destruct (do_access c d pos) as [[x|]|]; dnorm; try reflexivity.
  destruct (add c pos 1); reflexivity.
Qed.

Lemma tie_dacs_opt_iter_size_hint : forall c it,
  dacs_opt_iter_size_hint c it =
  (n <- do_len c (doi_seq it) ;; '(a, b) <- BitVector.iter_size_hint c n (doi_pos it) ;; Ok (a, Some b)).
Proof.
  intros c [d pos]. unfold dacs_opt_iter_size_hint, iter_size_hint. rewrite tie_dacs_opt_len. dnorm.
  destruct (do_len c d) as [n|]; dnorm; [|reflexivity]. destruct (sub c n pos); reflexivity.
Qed.

(* =============================================================================================
   WaveletMatrix<B> (wavelet_matrix.rs): values of the type parameter B
   The generated dispatch functions `backing_*` (by cases on the three supported types, over the generated impls of
   Rank9Sel, DArray and BitVector) are the model's `b_*`.
   ============================================================================================= *)
(* record-range facts of a layer (needed by the two selects only) *)
Definition backing_range (b : backing) : Prop :=
  match b with
  | BRank9 x => lenN (r_brp (r9_rs x)) < W /\ usize_olist (r_h1 (r9_rs x)) /\ usize_olist (r_h0 (r9_rs x))
  | BDArray _ => True
  | BBitVec x => lenN (bv_words x) < W
  end.

Lemma tie_backing_access : forall c b i, backing_access c b i = b_access c b i.
Proof.
  intros c [x|x|x] i; unfold backing_access, b_access;
    [apply tie_rank9sel_access | apply tie_darray_access | apply tie_bit_vector_access].
Qed.
Lemma tie_backing_rank1 : forall c b i, backing_rank1 c b i = b_rank1 c b i.
Proof.
  intros c [x|x|x] i; unfold backing_rank1, b_rank1;
    [apply tie_rank9sel_rank1 | apply tie_darray_rank1 | apply tie_bit_vector_rank1].
Qed.
Lemma tie_backing_rank0 : forall c b i, backing_rank0 c b i = b_rank0 c b i.
Proof.
  intros c [x|x|x] i; unfold backing_rank0, b_rank0;
    [apply tie_rank9sel_rank0 | apply tie_darray_rank0 | apply tie_bit_vector_rank0].
Qed.
Lemma tie_backing_select1 : forall c b k, backing_range b -> backing_select1 c b k = b_select1 c b k.
Proof.
  intros c [x|x|x] k H; unfold backing_select1, b_select1; cbn [backing_range] in H.
  - apply tie_rank9sel_select1; tauto.
  - apply tie_darray_select1.
  - now apply tie_bit_vector_select1.
Qed.
Lemma tie_backing_select0 : forall c b k, backing_range b -> backing_select0 c b k = b_select0 c b k.
Proof.
  intros c [x|x|x] k H; unfold backing_select0, b_select0; cbn [backing_range] in H.
  - apply tie_rank9sel_select0; tauto.
  - apply tie_darray_select0.
  - now apply tie_bit_vector_select0.
Qed.
Lemma tie_backing_num_bits : forall c b, backing_num_bits c b = Ok (b_num_bits b).
Proof. intros c [x|x|x]; reflexivity. Qed.
Lemma tie_backing_num_ones : forall c b, backing_num_ones c b = b_num_ones c b.
Proof.
  intros c [x|x|x]; unfold backing_num_ones, b_num_ones;
    [apply tie_rank9sel_num_ones | apply tie_darray_num_ones | apply tie_bit_vector_num_ones].
Qed.
Lemma tie_backing_num_zeros : forall c b, backing_num_zeros c b = b_num_zeros c b.
Proof.
  intros. unfold backing_num_zeros, b_num_zeros. rewrite tie_backing_num_bits, tie_backing_num_ones. dnorm.
  destruct (b_num_ones c b); reflexivity.
Qed.

Ltac bties := rewrite ?tie_backing_access, ?tie_backing_rank1, ?tie_backing_rank0, ?tie_backing_num_zeros,
  ?tie_backing_num_bits.

(* =============================================================================================
   WaveletMatrix: the queries
   ============================================================================================= *)
Lemma tie_wavelet_matrix_len : forall c w, wavelet_matrix_len c w = Ok (wm_len w).
Proof.
  intros c [layers a]. unfold wavelet_matrix_len, wm_len. dnorm. destruct layers as [|l r]; [reflexivity|].
  cbn [hd_error]. rewrite tie_backing_num_bits. reflexivity.
Qed.

Lemma tie_wavelet_matrix_is_empty : forall c w, wavelet_matrix_is_empty c w = Ok (wm_len w =? 0).
Proof. intros. unfold wavelet_matrix_is_empty. rewrite tie_wavelet_matrix_len. reflexivity. Qed.

Lemma tie_wavelet_matrix_alph_size : forall c w, wavelet_matrix_alph_size c w = Ok (wm_alph_size w).
Proof. reflexivity. Qed.

Lemma tie_wavelet_matrix_alph_width : forall c w, wavelet_matrix_alph_width c w = Ok (wm_alph_width w).
Proof. reflexivity. Qed.

Definition swap2 (vp : N * N) : N * N := (snd vp, fst vp).

Lemma tie_wavelet_matrix_access : forall c w pos, wavelet_matrix_access c w pos = wm_access c w pos.
Proof.
  intros c w pos. unfold wavelet_matrix_access, wm_access. rewrite tie_wavelet_matrix_len. dnorm.
  destruct (wm_len w <=? pos); [reflexivity|].
  match goal with |- context [fold_res ?f (wm_layers w) (pos, 0)] => set (G := f) end.
  match goal with |- context [fold_res ?f (wm_layers w) (0, pos)] => set (M := f) end.
  change (fold_res G (wm_layers w) (pos, 0)) with (fold_res G (wm_layers w) (swap2 (0, pos))).
  rewrite (fold_res_map swap2 G M (wm_layers w)).
  - destruct (fold_res M (wm_layers w) (0, pos)) as [[v p]|]; reflexivity.
  - intros [val p] layer. unfold G, M, swap2. dnorm. bties.
    destruct (shl c val 1) as [v|]; dnorm; [|reflexivity].
    destruct (b_access c layer p) as [[a|]|]; dnorm; try reflexivity.
    destruct a; dnorm.
    + bties. destruct (b_rank1 c layer p) as [[r|]|]; dnorm; try reflexivity. bties.
      destruct (b_num_zeros c layer) as [z|]; dnorm; [|reflexivity]. destruct (add c r z); reflexivity.
    + bties. destruct (b_rank0 c layer p) as [[r|]|]; reflexivity.
Qed.

(* `for (depth, layer) in self.layers.iter().enumerate()`: the model carries the depth in its state *)
Lemma wm_rank_range_loop c w val : forall layers depth sp ep,
  fold_res (fun '(end_pos, start_pos) '(depth, layer) =>
        t4 <- wavelet_matrix_alph_width c w ;;
        bit <- wavelet_matrix_get_msb c val depth t4 ;;
        '(end_pos, start_pos) <- (if bit then (
            t6 <- backing_rank1 c layer start_pos ;;
            t7 <- unwrap t6 ;;
            t8 <- backing_num_zeros c layer ;;
            start_pos <- add c t7 t8 ;;
            t10 <- backing_rank1 c layer end_pos ;;
            t11 <- unwrap t10 ;;
            t12 <- backing_num_zeros c layer ;;
            end_pos <- add c t11 t12 ;;
            Ok (end_pos, start_pos)
          ) else (
            t14 <- backing_rank0 c layer start_pos ;;
            start_pos <- unwrap t14 ;;
            t16 <- backing_rank0 c layer end_pos ;;
            end_pos <- unwrap t16 ;;
            Ok (end_pos, start_pos)
          )) ;;
        Ok (end_pos, start_pos)) (enumerate_from depth layers) (ep, sp)
  = rmap (fun '(_, sp, ep) => (ep, sp))
      (fold_res (fun (st : N * N * N) layer =>
                   let '(depth, sp, ep) := st in
                   bit <- get_msb c val depth (wm_alph_width w) ;;
                   if bit : bool then
                     z <- b_num_zeros c layer ;;
                     a <- b_rank1 c layer sp ;; a <- unwrap a ;; sp <- add c a z ;;
                     b <- b_rank1 c layer ep ;; b <- unwrap b ;; ep <- add c b z ;;
                     Ok (depth + 1, sp, ep)
                   else
                     a <- b_rank0 c layer sp ;; a <- unwrap a ;;
                     b <- b_rank0 c layer ep ;; b <- unwrap b ;;
                     Ok (depth + 1, a, b)) layers (depth, sp, ep)).
Proof.
  match goal with |- context [fold_res ?f (enumerate_from _ _)] => set (G := f) end.
  match goal with |- context [rmap _ (fold_res ?f _ _)] => set (M := f) end.
  induction layers as [|layer r IH]; intros depth sp ep; [reflexivity|].
  rewrite enumerate_from_cons. cbn [fold_res]. unfold G at 1, M at 1.
  unfold wavelet_matrix_alph_width. fold (wm_alph_width w). dnorm. rewrite tie_wavelet_matrix_get_msb.
  destruct (get_msb c val depth (wm_alph_width w)) as [bit|]; dnorm; [|reflexivity].
  destruct bit; dnorm; bties.
  - destruct (b_num_zeros c layer) as [z|]; dnorm.
    + destruct (b_rank1 c layer sp) as [[a|]|]; dnorm; try reflexivity.
      destruct (add c a z) as [sp'|]; dnorm; [|reflexivity]. bties.
      destruct (b_rank1 c layer ep) as [[b|]|]; dnorm; try reflexivity.
      destruct (add c b z) as [ep'|]; dnorm; [|reflexivity].
      rewrite <- N.add_1_r. apply IH.
    + destruct (b_rank1 c layer sp) as [[a|]|]; dnorm; reflexivity.
  - destruct (b_rank0 c layer sp) as [[a|]|]; dnorm; try reflexivity. bties.
    destruct (b_rank0 c layer ep) as [[b|]|]; dnorm; try reflexivity.
    rewrite <- N.add_1_r. apply IH.
Qed.

Lemma tie_wavelet_matrix_rank_range : forall c w range val,
  wavelet_matrix_rank_range c w range val = wm_rank_range c w (fst range) (snd range) val.
Proof.
  intros c w [rs re] val. unfold wavelet_matrix_rank_range, wm_rank_range. rewrite tie_wavelet_matrix_len.
  unfold wavelet_matrix_alph_size. dnorm.
  destruct (wm_len w <? re); [reflexivity|].
  destruct (re <=? rs); dnorm; [reflexivity|].
  destruct (wm_alph_size w <=? val); dnorm; [reflexivity|].
  unfold enumerate. rewrite wm_rank_range_loop.
  match goal with |- context [rmap _ ?m] => destruct m as [[[d sp] ep]|] end; reflexivity.
Qed.

Lemma tie_wavelet_matrix_rank : forall c w pos val, wavelet_matrix_rank c w pos val = wm_rank c w pos val.
Proof. intros. unfold wavelet_matrix_rank, wm_rank. apply (tie_wavelet_matrix_rank_range c w (0, pos) val). Qed.

Definition quant_tup (st : N * N * N * N) : N * N * N * N := let '(val, k, sp, ep) := st in (ep, k, sp, val).

Lemma tie_wavelet_matrix_quantile : forall c w range k,
  wavelet_matrix_quantile c w range k = wm_quantile c w (fst range) (snd range) k.
Proof.
  intros c w [rs re] k. unfold wavelet_matrix_quantile, wm_quantile. rewrite tie_wavelet_matrix_len. dnorm.
  destruct ((if rs <=? re then re - rs else 0) <=? k); [reflexivity|].
  destruct (wm_len w <? re); [reflexivity|].
  match goal with |- context [fold_res ?f (wm_layers w) (re, k, rs, 0)] => set (G := f) end.
  match goal with |- context [fold_res ?f (wm_layers w) (0, k, rs, re)] => set (M := f) end.
  change (fold_res G (wm_layers w) (re, k, rs, 0)) with (fold_res G (wm_layers w) (quant_tup (0, k, rs, re))).
  rewrite (fold_res_map quant_tup G M (wm_layers w)).
  - destruct (fold_res M (wm_layers w) (0, k, rs, re)) as [[[[v k'] sp] ep]|]; reflexivity.
  - intros [[[val k0] sp] ep] layer. unfold G, M, quant_tup. dnorm. bties.
    destruct (shl c val 1) as [v|]; dnorm; [|reflexivity].
    destruct (b_rank0 c layer sp) as [[zs|]|]; dnorm; try reflexivity.
    destruct (b_rank0 c layer ep) as [[ze|]|]; dnorm; try reflexivity.
    destruct (sub c ze zs) as [zeros|]; dnorm; [|reflexivity].
    destruct (k0 <? zeros); dnorm; [reflexivity|].
    destruct (sub c k0 zeros) as [k1|]; dnorm; [|reflexivity].
    destruct (b_num_zeros c layer) as [nz|]; dnorm; [|reflexivity].
    destruct (add c nz sp) as [a|]; dnorm; [|reflexivity].
    destruct (sub c a zs) as [sp'|]; dnorm; [|reflexivity].
    destruct (add c nz ep) as [b|]; dnorm; [|reflexivity].
    destruct (sub c b ze); reflexivity.
Qed.

(* select_helper: the generated fixpoint recurses on `depth` with fuel, the model on the remaining layers *)
Lemma select_helper_rec_tie c w : forall rest pre fuel k val pos,
  wm_layers w = pre ++ rest -> Forall backing_range rest -> lenN (wm_layers w) < W -> (length rest < fuel)%nat ->
  wavelet_matrix_select_helper_rec fuel c w k val pos (lenN pre) =
  select_helper c (wm_alph_width w) rest k val pos (lenN pre).
Proof.
  induction rest as [|layer r IH]; intros pre fuel k val pos Hl Hr HW Hf; (destruct fuel as [|fuel]; [cbn [length] in Hf; lia|]).
  - cbn [wavelet_matrix_select_helper_rec select_helper]. unfold wavelet_matrix_alph_width. dnorm.
    rewrite Hl, app_nil_r, N.eqb_refl. reflexivity.
  - cbn [wavelet_matrix_select_helper_rec select_helper]. unfold wavelet_matrix_alph_width. fold (wm_alph_width w). dnorm.
    assert (Hlen : lenN (wm_layers w) = lenN pre + lenN r + 1) by (rewrite Hl, lenN_app, lenN_cons; lia).
    replace (lenN pre =? wm_alph_width w) with false by (symmetry; apply N.eqb_neq; unfold wm_alph_width; lia).
    rewrite tie_wavelet_matrix_get_msb.
    destruct (get_msb c val (lenN pre) (wm_alph_width w)) as [bit|]; dnorm; [|reflexivity].
    assert (Hidx : forall d, idx d (wm_layers w) (lenN pre) = Ok layer) by (intro; rewrite Hl; apply idx_app_mid).
    rewrite Hidx. dnorm.
    inversion Hr as [|? ? Hb Hr']; subst.
    assert (IH' : forall k pos, wavelet_matrix_select_helper_rec fuel c w k val pos (lenN pre + 1) =
                                 select_helper c (wm_alph_width w) r k val pos (lenN pre + 1)).
    { intros k0 pos0. rewrite <- (lenN_snoc pre layer). apply IH; [now rewrite <- app_cons_assoc | assumption | assumption | cbn [length] in Hf; lia]. }
    destruct bit; dnorm; bties.
    + destruct (b_num_zeros c layer) as [zeros|]; dnorm; [|reflexivity].
      destruct (b_rank1 c layer pos) as [[r1|]|]; dnorm; try reflexivity.
      destruct (add c r1 zeros) as [pos'|]; dnorm; [|reflexivity].
      rewrite add_ok by lia. dnorm. rewrite IH'.
      destruct (select_helper c (wm_alph_width w) r k val pos' (lenN pre + 1)) as [[k'|]|]; dnorm; try reflexivity.
      destruct (sub c k' zeros) as [d|]; dnorm; [|reflexivity]. now apply tie_backing_select1.
    + destruct (b_rank0 c layer pos) as [[r0|]|]; dnorm; try reflexivity.
      rewrite add_ok by lia. dnorm. rewrite IH'.
      destruct (select_helper c (wm_alph_width w) r k val r0 (lenN pre + 1)) as [[k'|]|]; dnorm; try reflexivity.
      now apply tie_backing_select0.
Qed.

Lemma tie_wavelet_matrix_select_helper : forall c w pre rest k val pos,
  wm_layers w = pre ++ rest -> Forall backing_range rest -> lenN (wm_layers w) < W ->
  wavelet_matrix_select_helper c w k val pos (lenN pre) = select_helper c (wm_alph_width w) rest k val pos (lenN pre).
Proof.
  intros c w pre rest k val pos Hl Hr HW. unfold wavelet_matrix_select_helper.
  apply select_helper_rec_tie; try assumption. rewrite Hl, app_length. lia.
Qed.

Lemma tie_wavelet_matrix_select : forall c w k val, Forall backing_range (wm_layers w) -> lenN (wm_layers w) < W ->
  wavelet_matrix_select c w k val = wm_select c w k val.
Proof.
  intros c w k val Hr HW. unfold wavelet_matrix_select, wm_select, wavelet_matrix_alph_size. dnorm.
  destruct (wm_alph_size w <=? val); [reflexivity|].
  apply (tie_wavelet_matrix_select_helper c w [] (wm_layers w)); auto.
Qed.

(* intersect_helper: the loop over the ranges (left by `return None`, with `continue` for an empty range) is the
   model's split_ranges *)
Definition split_out (o : option (list (N * N) * list (N * N))) : (list (N * N) * list (N * N)) + option (list N) :=
  match o with None => inr None | Some (zr, orr) => inl (orr, zr) end.

Lemma split_loop c layer : forall ranges orr zr,
  rmap brk_join (fold_res_brk (fun '(one_ranges, zero_ranges) range =>
            t3 <- backing_num_bits c layer ;;
            if (N.ltb t3 (snd range)) then (Ok (inr (inr None))) else (
            if (N.leb (snd range) (fst range)) then (Ok (inl (one_ranges, zero_ranges))) else (
            let start_pos := (fst range) in
            let end_pos := (snd range) in
            t4 <- backing_rank0 c layer start_pos ;;
            zero_start_pos <- unwrap t4 ;;
            t6 <- backing_rank0 c layer end_pos ;;
            zero_end_pos <- unwrap t6 ;;
            t8 <- backing_num_zeros c layer ;;
            t9 <- add c t8 start_pos ;;
            one_start_pos <- sub c t9 zero_start_pos ;;
            t11 <- backing_num_zeros c layer ;;
            t12 <- add c t11 end_pos ;;
            one_end_pos <- sub c t12 zero_end_pos ;;
            t14 <- sub c zero_end_pos zero_start_pos ;;
            zero_ranges <- (if (N.ltb 0 t14) then (
                let zero_ranges := (zero_ranges ++ [(zero_start_pos, zero_end_pos)]) in
                Ok zero_ranges
              ) else (
                Ok zero_ranges
              )) ;;
            t15 <- sub c one_end_pos one_start_pos ;;
            one_ranges <- (if (N.ltb 0 t15) then (
                let one_ranges := (one_ranges ++ [(one_start_pos, one_end_pos)]) in
                Ok one_ranges
              ) else (
                Ok one_ranges
              )) ;;
            Ok (inl (one_ranges, zero_ranges))
            ) )) ranges (orr, zr))
  = rmap split_out (split_ranges c layer ranges zr orr).
Proof.
  match goal with |- context [fold_res_brk ?f] => set (F := f) end.
  induction ranges as [|[sp ep] rest IH]; intros orr zr; [reflexivity|].
  rewrite fold_res_brk_cons. cbn [split_ranges]. unfold F at 1. dnorm. bties. dnorm.
  destruct (b_num_bits layer <? ep); dnorm; [reflexivity|].
  destruct (ep <=? sp); dnorm; [apply IH|].
  destruct (b_rank0 c layer sp) as [[zs|]|]; dnorm; try reflexivity.
  destruct (b_rank0 c layer ep) as [[ze|]|]; dnorm; try reflexivity.
  destruct (b_num_zeros c layer) as [nz|]; dnorm; [|reflexivity].
  destruct (add c nz sp) as [a|]; dnorm; [|reflexivity].
  destruct (sub c a zs) as [os|]; dnorm; [|reflexivity].
  destruct (add c nz ep) as [b|]; dnorm; [|reflexivity].
  destruct (sub c b ze) as [oe|]; dnorm; [|reflexivity].
  destruct (sub c ze zs) as [dz|]; dnorm; [|reflexivity].
  destruct (0 <? dz); dnorm;
    (destruct (sub c oe os) as [d1|]; dnorm; [|reflexivity]); destruct (0 <? d1); dnorm; apply IH.
Qed.

Lemma shl_1 c a : shl c a 1 = Ok (wrap (N.shiftl a 1)).
Proof. reflexivity. Qed.

Lemma intersect_helper_rec_tie c w : forall rest pre fuel ranges k prefix,
  wm_layers w = pre ++ rest -> lenN (wm_layers w) < W -> (length rest < fuel)%nat ->
  wavelet_matrix_intersect_helper_rec fuel c w ranges k (lenN pre) prefix = intersect_helper c rest ranges k prefix.
Proof.
  induction rest as [|layer r IH]; intros pre fuel ranges k prefix Hl HW Hf; (destruct fuel as [|fuel]; [cbn [length] in Hf; lia|]).
  - cbn [wavelet_matrix_intersect_helper_rec intersect_helper]. unfold wavelet_matrix_alph_width. dnorm.
    rewrite Hl, app_nil_r, N.eqb_refl. reflexivity.
  - cbn [wavelet_matrix_intersect_helper_rec intersect_helper]. unfold wavelet_matrix_alph_width. dnorm.
    assert (Hlen : lenN (wm_layers w) = lenN pre + lenN r + 1) by (rewrite Hl, lenN_app, lenN_cons; lia).
    replace (lenN pre =? lenN (wm_layers w)) with false by (symmetry; apply N.eqb_neq; lia).
    assert (Hidx : forall d, idx d (wm_layers w) (lenN pre) = Ok layer) by (intro; rewrite Hl; apply idx_app_mid).
    rewrite Hidx. dnorm. rewrite split_loop.
    assert (IH' : forall ranges prefix, wavelet_matrix_intersect_helper_rec fuel c w ranges k (lenN pre + 1) prefix =
                                         intersect_helper c r ranges k prefix).
    { intros rg pf. rewrite <- (lenN_snoc pre layer). apply IH; [now rewrite <- app_cons_assoc | assumption | cbn [length] in Hf; lia]. }
    destruct (split_ranges c layer ranges [] []) as [[[zr orr]|]|]; cbn [rmap split_out]; dnorm; try reflexivity.
    rewrite !shl_1, !add_ok by lia. dnorm. rewrite !IH'.
    destruct (k <? lenN zr); dnorm.
    + destruct (intersect_helper c r zr k (wrap (N.shiftl prefix 1))) as [[la|]|]; dnorm; try reflexivity.
      destruct (k <? lenN orr); dnorm.
      * destruct (intersect_helper c r orr k _) as [[lb|]|]; reflexivity.
      * now rewrite app_nil_r.
    + destruct (k <? lenN orr); dnorm; [|reflexivity].
      destruct (intersect_helper c r orr k _) as [[lb|]|]; reflexivity.
Qed.

Lemma tie_wavelet_matrix_intersect_helper : forall c w pre rest ranges k prefix,
  wm_layers w = pre ++ rest -> lenN (wm_layers w) < W ->
  wavelet_matrix_intersect_helper c w ranges k (lenN pre) prefix = intersect_helper c rest ranges k prefix.
Proof.
  intros c w pre rest ranges k prefix Hl HW. unfold wavelet_matrix_intersect_helper.
  apply intersect_helper_rec_tie; try assumption. rewrite Hl, app_length. lia.
Qed.

Lemma tie_wavelet_matrix_intersect : forall c w ranges k, lenN (wm_layers w) < W ->
  wavelet_matrix_intersect c w ranges k = wm_intersect c w ranges k.
Proof.
  intros c w ranges k HW. unfold wavelet_matrix_intersect, wm_intersect.
  apply (tie_wavelet_matrix_intersect_helper c w [] (wm_layers w)); auto.
Qed.

Lemma tie_wavelet_matrix_iter_new : forall c w, wavelet_matrix_iter_new c w = Ok {| wi_wm := w; wi_pos := 0 |}.
Proof. reflexivity. Qed.

Lemma tie_wavelet_matrix_iter : forall c w, wavelet_matrix_iter c w = Ok {| wi_wm := w; wi_pos := 0 |}.
Proof. reflexivity. Qed.

Lemma tie_wavelet_matrix_iter_next : forall c it,
  wavelet_matrix_iter_next c it =
  ('(p, x) <- wm_iter_next c (wi_wm it) (wi_pos it) ;; Ok ({| wi_wm := wi_wm it; wi_pos := p |}, x)).
Proof.
  intros c [w pos]. unfold wavelet_matrix_iter_next, wm_iter_next. rewrite tie_wavelet_matrix_len. dnorm.
  destruct (pos <? wm_len w); dnorm; [|reflexivity]. rewrite tie_wavelet_matrix_access.
  destruct (wm_access c w pos) as [[x|]|]; dnorm; try reflexivity.
  destruct (add c pos 1); reflexivity.
Qed.

Lemma tie_wavelet_matrix_iter_size_hint : forall c it,
  wavelet_matrix_iter_size_hint c it =
  ('(a, b) <- BitVector.iter_size_hint c (wm_len (wi_wm it)) (wi_pos it) ;; Ok (a, Some b)).
Proof.
  intros c [w pos]. unfold wavelet_matrix_iter_size_hint, iter_size_hint. rewrite tie_wavelet_matrix_len. dnorm.
  destruct (sub c (wm_len w) pos); reflexivity.
Qed.

(* =============================================================================================
   WaveletMatrix::filter and WaveletMatrix::new
   The Rust code keeps the two halves of every level in CompactVectors, the model in lists of values: the ties are
   stated for CompactVector arguments given by their contents (cv_inv v xs: v is the well-formed vector holding xs,
   Proofs/CVRep.v).
   ============================================================================================= *)
Lemma nth_opt_mid (pre : list N) x post : SeqSpec.nth_opt (pre ++ x :: post) (lenN pre) = Some x.
Proof.
  unfold SeqSpec.nth_opt. rewrite lenN_app, lenN_cons.
  destruct (N.ltb_spec (lenN pre) (lenN pre + (lenN post + 1))) as [_|H]; [|lia].
  unfold lenN. rewrite Nat2N.id. rewrite nth_error_app2 by lia. now rewrite Nat.sub_diag.
Qed.

Lemma cv_inv_lt_W v xs : cv_inv v xs -> Forall (fun x => x < W) xs.
Proof. intros (_ & _ & Hw & Hall & _). now apply (Forall_lt_W (cv_width v)). Qed.

(* one `next` of the CompactVector iterator inside a vector holding pre ++ rest *)
Lemma cv_iter_step c seq pre rest : cv_inv seq (pre ++ rest) -> cv_cap (cv_width seq) (lenN (pre ++ rest)) ->
  compact_vector_iter_next c {| ci_cv := seq; ci_pos := lenN pre |} =
  Ok match rest with
     | [] => ({| ci_cv := seq; ci_pos := lenN pre |}, None)
     | x :: _ => ({| ci_cv := seq; ci_pos := lenN pre + 1 |}, Some x)
     end.
Proof.
  intros Hinv Hcap. rewrite tie_compact_vector_iter_next. dnorm.
  rewrite (cv_iter_next_inv c seq _ Hinv Hcap) by (destruct Hcap as [_ H]; rewrite lenN_app in H; lia).
  destruct rest as [|x r].
  - rewrite app_nil_r. destruct (N.ltb_spec (lenN pre) (lenN pre)); [lia | reflexivity].
  - rewrite nth_opt_mid, lenN_app, lenN_cons.
    destruct (N.ltb_spec (lenN pre) (lenN pre + (lenN r + 1))); [reflexivity | lia].
Qed.

(* `seq.iter()` collected: the contents *)
Lemma collect_cv c seq xs : cv_inv seq xs -> cv_cap (cv_width seq) (lenN xs) -> forall rest pre acc n,
  xs = pre ++ rest -> N.of_nat (length rest) < n ->
  loopN n (fun '(it, acc) =>
      r <- compact_vector_iter_next c it ;;
      match snd r with None => Ok (inr acc) | Some a => Ok (inl (fst r, acc ++ [a])) end)
    ({| ci_cv := seq; ci_pos := lenN pre |}, acc) = Ok (acc ++ rest).
Proof.
  intros Hinv Hcap. induction rest as [|x r IH]; intros pre acc n Hl Hn; subst xs.
  - rewrite loopN_step by lia. rewrite (cv_iter_step c seq pre [] Hinv Hcap). dnorm. now rewrite app_nil_r.
  - rewrite loopN_step by lia. rewrite (cv_iter_step c seq pre (x :: r) Hinv Hcap). dnorm.
    rewrite <- (lenN_snoc pre x). rewrite (IH (pre ++ [x]) (acc ++ [x]) (n - 1)).
    + now rewrite <- app_assoc.
    + now rewrite <- app_assoc.
    + cbn [length] in Hn. lia.
Qed.

Lemma iter_collect_cv c seq xs : cv_inv seq xs -> cv_cap (cv_width seq) (lenN xs) ->
  iter_collect (compact_vector_iter_next c) {| ci_cv := seq; ci_pos := 0 |} = Ok xs.
Proof.
  intros Hinv Hcap. unfold iter_collect.
  apply (collect_cv c seq xs Hinv Hcap xs [] [] W eq_refl). destruct Hcap as [_ H]. unfold lenN in H. lia.
Qed.

(* result of the generated filter against the model's fold: the vectors hold the model's lists *)
Definition filt_rel (aw : N) (g : res (compvec * compvec * bitvec)) (m : res (list N * list N * bitvec))
    (total blen : N) : Prop :=
  match m with
  | Panic => g = Panic
  | Ok (lz, lo, bv) =>
      exists nz no, g = Ok (nz, no, bv) /\ cv_inv nz lz /\ cv_inv no lo /\ cv_width nz = aw /\ cv_width no = aw /\
                    wf bv /\ bv_len bv = blen /\ lenN lz + lenN lo = total
  end.

Arguments filt_rel : simpl never.

Definition filt_out (s : cviter * bitvec * compvec * compvec) : compvec * compvec * bitvec :=
  let '(_, bv, no, nz) := s in (nz, no, bv).

Lemma filter_loop c seq xs aw shift : cv_inv seq xs -> cv_cap (cv_width seq) (lenN xs) ->
  forall rest pre bv no nz lo lz n,
  xs = pre ++ rest -> cv_inv no lo -> cv_inv nz lz -> cv_width no = aw -> cv_width nz = aw ->
  lenN lz + lenN lo + lenN rest < 2 ^ 50 -> wf bv -> bv_len bv + lenN rest < 2 ^ 56 ->
  N.of_nat (length rest) < n ->
  filt_rel aw
    (rmap filt_out (loopN n (fun '(it1_, bv, next_ones, next_zeros) =>
        t2 <- compact_vector_iter_next c it1_ ;;
        let it1_ := (fst t2) in
        match (snd t2) with None => Ok (inr (it1_, bv, next_ones, next_zeros)) | Some val =>
        t3 <- shr c val shift ;;
        let bit := (N.eqb (N.land t3 1) 1) in
        bv <- bit_vector_push_bit c bv bit ;;
        '(next_ones, next_zeros) <- (if bit then (
            t5 <- compact_vector_push_int c next_ones val ;;
            let next_ones := (fst t5) in
            _ <- assert_ (snd t5) ;;
            Ok (next_ones, next_zeros)
          ) else (
            t6 <- compact_vector_push_int c next_zeros val ;;
            let next_zeros := (fst t6) in
            _ <- assert_ (snd t6) ;;
            Ok (next_ones, next_zeros)
          )) ;;
        Ok (inl (it1_, bv, next_ones, next_zeros))
        end) ({| ci_cv := seq; ci_pos := lenN pre |}, bv, no, nz)))
    (fold_res (wm_filter c aw shift) rest (lz, lo, bv))
    (lenN lz + lenN lo + lenN rest) (bv_len bv + lenN rest).
Proof.
  intros Hinv Hcap.
  match goal with |- context [loopN _ ?f] => set (STEP := f) end.
  assert (HxW : Forall (fun x => x < W) xs) by (eapply cv_inv_lt_W; eauto).
  induction rest as [|x r IH]; intros pre bv no nz lo lz n Hl Hno Hnz Hwo Hwz Htot Hwf Hbl Hn;
    assert (Hinv' := Hinv); assert (Hcap' := Hcap); rewrite Hl in Hinv', Hcap'.
  - rewrite loopN_step by lia. unfold STEP at 1. rewrite (cv_iter_step c seq pre [] Hinv' Hcap'). dnorm.
    cbn [fold_res filt_rel filt_out]. exists nz, no. change (lenN (@nil N)) with 0. rewrite !N.add_0_r. auto 10.
  - rewrite loopN_step by lia. unfold STEP at 1. rewrite (cv_iter_step c seq pre (x :: r) Hinv' Hcap'). dnorm.
    cbn [fold_res]. unfold wm_filter at 1.
    assert (Hx : x < W) by (rewrite Forall_forall in HxW; apply HxW; rewrite Hl; apply in_or_app; right; left; reflexivity).
    assert (Haw : aw <= 64) by (destruct Hnz as (_ & _ & H & _); lia).
    rewrite lenN_cons in Htot, Hbl. rewrite lenN_cons.
    destruct (shr c x shift) as [t|]; dnorm; [|reflexivity].
    rewrite tie_bit_vector_push_bit.
    destruct (push_bit_spec c bv (N.land t 1 =? 1) Hwf) as [bv1 [E1 [W1 B1]]]; [lia|].
    rewrite E1. dnorm.
    assert (L1 : bv_len bv1 = bv_len bv + 1).
    { rewrite <- (bits_of_length bv1 W1), B1, lenN_app, (bits_of_length bv Hwf). reflexivity. }
    rewrite (fits_spec c aw x Haw Hx). dnorm. rewrite !tie_compact_vector_push_int.
    assert (Hcap56 : forall l : list N, lenN l + 1 < 2 ^ 50 -> cv_cap aw (lenN l + 1)).
    { intros l Hlt. change (2 ^ 50) with 1125899906842624 in Hlt. unfold cv_cap, W. change (2 ^ 56) with 72057594037927936.
      pose proof (N.mul_le_mono_l aw 64 (lenN l + 1) Haw). lia. }
    destruct (N.land t 1 =? 1); dnorm.
    + destruct (cv_push_int_inv c no lo x Hno Hx) as [no' [E [Ew H]]].
      { intros _. rewrite Hwo. apply Hcap56. lia. }
      rewrite E, Hwo. unfold fitsb in *. dnorm. rewrite Hwo in H.
      destruct (x <? 2 ^ aw); dnorm; [|reflexivity].
      rewrite <- (lenN_snoc pre x).
      replace (lenN lz + lenN lo + (lenN r + 1)) with (lenN lz + lenN (lo ++ [x]) + lenN r) by (rewrite lenN_snoc; lia).
      replace (bv_len bv + (lenN r + 1)) with (bv_len bv1 + lenN r) by lia.
      apply IH; try assumption; try (rewrite Hl; now rewrite <- app_assoc); try lia.
      * rewrite lenN_snoc. lia.
      * cbn [length] in Hn. lia.
    + destruct (cv_push_int_inv c nz lz x Hnz Hx) as [nz' [E [Ew H]]].
      { intros _. rewrite Hwz. apply Hcap56. lia. }
      rewrite E, Hwz. unfold fitsb in *. dnorm. rewrite Hwz in H.
      destruct (x <? 2 ^ aw); dnorm; [|reflexivity].
      rewrite <- (lenN_snoc pre x).
      replace (lenN lz + lenN lo + (lenN r + 1)) with (lenN (lz ++ [x]) + lenN lo + lenN r) by (rewrite lenN_snoc; lia).
      replace (bv_len bv + (lenN r + 1)) with (bv_len bv1 + lenN r) by lia.
      apply IH; try assumption; try (rewrite Hl; now rewrite <- app_assoc); try lia.
      * rewrite lenN_snoc. lia.
      * cbn [length] in Hn. lia.
Qed.

(* tie of WaveletMatrix::filter: for a source vector holding xs and target vectors of width aw holding lz / lo *)
Lemma tie_wavelet_matrix_filter : forall c seq xs shift nz lz no lo bv aw,
  cv_inv seq xs -> cv_cap (cv_width seq) (lenN xs) ->
  cv_inv nz lz -> cv_inv no lo -> cv_width nz = aw -> cv_width no = aw ->
  lenN lz + lenN lo + lenN xs < 2 ^ 50 -> wf bv -> bv_len bv + lenN xs < 2 ^ 56 ->
  filt_rel aw (wavelet_matrix_filter c seq shift nz no bv) (fold_res (wm_filter c aw shift) xs (lz, lo, bv))
    (lenN lz + lenN lo + lenN xs) (bv_len bv + lenN xs).
Proof.
  intros c seq xs shift nz lz no lo bv aw Hinv Hcap Hnz Hno Hwz Hwo Htot Hwf Hbl.
  unfold wavelet_matrix_filter, compact_vector_iter. rewrite tie_compact_vector_iter_new. dnorm.
  pose proof (filter_loop c seq xs aw shift Hinv Hcap xs [] bv no nz lo lz W eq_refl Hno Hnz Hwo Hwz Htot Hwf Hbl) as H.
  assert (HW : N.of_nat (length xs) < W) by (destruct Hcap as [_ Hc]; exact Hc).
  specialize (H HW). change (lenN (@nil N)) with 0 in H.
  match type of H with filt_rel _ (rmap _ ?l) _ _ _ => destruct l as [[[[it b1] o1] z1]|] end;
    cbn [rmap filt_out bind] in *; exact H.
Qed.

(* `B::build_from_bits(bv.iter(), true, true, true)`: the bits of a well-formed vector are re-packed into the same vector *)
Lemma from_bits_bits_of c bv : wf bv -> bv_len bv < 2 ^ 56 -> from_bits c (bits_of bv) = Ok bv.
Proof.
  intros Hwf Hcap. destruct (from_bits_spec c (bits_of bv)) as [bv' [E [W' B']]].
  - now rewrite (bits_of_length bv Hwf).
  - rewrite E. f_equal. now apply canonical.
Qed.

Lemma bv_iter_collect c bv : wf bv -> bv_len bv < 2 ^ 56 ->
  (t18 <- bit_vector_iter c bv ;; iter_collect (bit_vector_iter_next c) t18) = Ok (bits_of bv).
Proof.
  intros Hwf Hcap. unfold bit_vector_iter. rewrite tie_bit_vector_iter_new. dnorm.
  assert (HW : bv_len bv < W) by (change (2 ^ 56) with 72057594037927936 in Hcap; unfold W; lia).
  rewrite iter_collect_bv by exact HW. apply (bv_bits_ok c bv Hwf Hcap).
Qed.

Lemma tie_backing_build_from_bits : forall c k bv, wf bv -> bv_len bv < 2 ^ 56 ->
  backing_build_from_bits c k (bits_of bv) true true true = rmap Some (b_build c k bv).
Proof.
  intros c k bv Hwf Hcap.
  pose proof (from_bits_bits_of c bv Hwf Hcap) as Hfb.
  unfold backing_build_from_bits, b_build. destruct k.
  - rewrite tie_rank9sel_build_from_bits, Hfb. dnorm. destruct (r9_build c bv true true); reflexivity.
  - rewrite tie_darray_build_from_bits by (now rewrite (bits_of_length bv Hwf)). rewrite Hfb. dnorm.
    destruct (da_build_cfg c bv true true); reflexivity.
  - unfold bit_vector_build_from_bits. rewrite tie_bit_vector_from_bits, Hfb. reflexivity.
Qed.

(* the loop over the levels; the generated state keeps the two halves as vectors, the model as lists *)
Lemma new_loop c k aw asz : 1 <= aw -> aw <= 64 -> forall n depth layers zeros ones lzs los,
  cv_inv zeros lzs -> cv_inv ones los -> lenN lzs + lenN los < 2 ^ 50 ->
  (t22 <- (rmap brk_join (fold_res_brk (fun '(layers, ones, zeros) depth =>
          t9 <- compact_vector_new c aw ;;
          next_zeros <- unwrap t9 ;;
          t11 <- compact_vector_new c aw ;;
          next_ones <- unwrap t11 ;;
          bv <- bit_vector_new c ;;
          t14 <- sub c aw depth ;;
          t15 <- sub c t14 1 ;;
          '(next_zeros, next_ones, bv) <- wavelet_matrix_filter c zeros t15 next_zeros next_ones bv ;;
          t16 <- sub c aw depth ;;
          t17 <- sub c t16 1 ;;
          '(next_zeros, next_ones, bv) <- wavelet_matrix_filter c ones t17 next_zeros next_ones bv ;;
          let zeros := next_zeros in
          let ones := next_ones in
          t18 <- bit_vector_iter c bv ;;
          t19 <- iter_collect (bit_vector_iter_next c) t18 ;;
          t20 <- backing_build_from_bits c k t19 true true true ;;
          match t20 with None => Ok (inr (inr None)) | Some t21 =>
          let layers := (layers ++ [t21]) in
          Ok (inl (layers, ones, zeros))
          end) (nseq_from depth n) (layers, ones, zeros))) ;;
   match t22 with inr v_ => Ok v_ | inl (layers, ones, zeros) =>
     Ok (Some {| wm_layers := layers; wm_alph_size := asz |}) end)
  = (L <- wm_layers_build c k aw n depth lzs los layers ;; Ok (Some {| wm_layers := L; wm_alph_size := asz |})).
Proof.
  intros Haw1 Haw64.
  match goal with |- context [fold_res_brk ?f] => set (F := f) end.
  assert (Hnew : compact_vector_new c aw = Ok (Some {| cv_chunks := bv_empty; cv_len := 0; cv_width := aw |})).
  { rewrite tie_compact_vector_new. unfold cv_new, width_ok.
    destruct (N.leb_spec 1 aw); [|lia]. destruct (N.leb_spec aw 64); [|lia]. reflexivity. }
  assert (Hcapw : forall v (l : list N), cv_inv v l -> lenN l < 2 ^ 50 -> cv_cap (cv_width v) (lenN l)).
  { intros v l (_ & _ & Hw & _) Hlt. change (2 ^ 50) with 1125899906842624 in Hlt. unfold cv_cap, W.
    change (2 ^ 56) with 72057594037927936. pose proof (N.mul_le_mono_l (cv_width v) 64 (lenN l) Hw). lia. }
  assert (H5056 : 2 ^ 50 < 2 ^ 56) by (vm_compute; reflexivity).
  induction n as [|n IH]; intros depth layers zeros ones lzs los Hz Ho Htot; [reflexivity|].
  cbn [nseq_from wm_layers_build]. rewrite fold_res_brk_cons. unfold F at 1.
  rewrite Hnew, tie_bit_vector_new. dnorm.
  destruct (sub c aw depth) as [t|]; dnorm; [|reflexivity].
  destruct (sub c t 1) as [shift|]; dnorm; [|reflexivity].
  set (e := {| cv_chunks := bv_empty; cv_len := 0; cv_width := aw |}).
  assert (He : cv_inv e []) by (apply cv_inv_new; exact Haw64).
  (* first pass: the zeros half *)
  pose proof (tie_wavelet_matrix_filter c zeros lzs shift e [] e [] bv_empty aw Hz
                (Hcapw _ _ Hz ltac:(lia)) He He eq_refl eq_refl) as H1.
  change (lenN (@nil N)) with 0 in H1. change (bv_len bv_empty) with 0 in H1. rewrite !N.add_0_l in H1.
  specialize (H1 ltac:(lia) wf_empty ltac:(lia)).
  destruct (fold_res (wm_filter c aw shift) lzs ([], [], bv_empty)) as [[[lz1 lo1] bv1]|]; unfold filt_rel in H1.
  2:{ rewrite H1. reflexivity. }
  destruct H1 as (nz1 & no1 & E1 & Hz1 & Ho1 & Wz1 & Wo1 & Wf1 & Bl1 & T1). rewrite E1. dnorm.
  (* second pass: the ones half *)
  pose proof (tie_wavelet_matrix_filter c ones los shift nz1 lz1 no1 lo1 bv1 aw Ho
                (Hcapw _ _ Ho ltac:(lia)) Hz1 Ho1 Wz1 Wo1 ltac:(lia) Wf1 ltac:(lia)) as H2.
  destruct (fold_res (wm_filter c aw shift) los (lz1, lo1, bv1)) as [[[lz2 lo2] bv2]|]; unfold filt_rel in H2.
  2:{ rewrite H2. reflexivity. }
  destruct H2 as (nz2 & no2 & E2 & Hz2 & Ho2 & Wz2 & Wo2 & Wf2 & Bl2 & T2). rewrite E2. dnorm.
  unfold bit_vector_iter. rewrite tie_bit_vector_iter_new. dnorm.
  rewrite iter_collect_bv by (unfold W; change (2 ^ 56) with 72057594037927936 in *; change (2 ^ 50) with 1125899906842624 in *; lia).
  rewrite (bv_bits_ok c bv2 Wf2) by (unfold cap_ok; lia). dnorm.
  rewrite (tie_backing_build_from_bits c k bv2 Wf2) by lia.
  destruct (b_build c k bv2) as [l|]; dnorm; [|reflexivity].
  rewrite <- N.add_1_r. apply IH; [exact Hz2 | exact Ho2 | lia].
Qed.

(* WaveletMatrix::new(seq) for a vector `seq` holding the values xs (fewer than 2^50 of them): the model on xs *)
Lemma tie_wavelet_matrix_new : forall c k seq xs, cv_inv seq xs -> lenN xs < 2 ^ 50 ->
  wavelet_matrix_new c k seq = wm_new c k xs.
Proof.
  intros c k seq xs Hinv Hlen. unfold wavelet_matrix_new, wm_new, compact_vector_is_empty, compact_vector_len,
    compact_vector_iter. rewrite tie_compact_vector_iter_new. dnorm.
  assert (Hcap : cv_cap (cv_width seq) (lenN xs)).
  { destruct Hinv as (_ & _ & Hw & _). change (2 ^ 50) with 1125899906842624 in Hlen. unfold cv_cap, W.
    change (2 ^ 56) with 72057594037927936. pose proof (N.mul_le_mono_l (cv_width seq) 64 (lenN xs) Hw). lia. }
  assert (Hcl : cv_len seq = lenN xs) by (destruct Hinv as (_ & H & _); exact H). rewrite Hcl.
  destruct xs as [|x0 r]; [reflexivity|].
  replace (lenN (x0 :: r) =? 0) with false by (symmetry; apply N.eqb_neq; rewrite lenN_cons; lia).
  rewrite (iter_collect_cv c seq (x0 :: r) Hinv Hcap). dnorm. cbn [list_max_opt unwrap]. dnorm.
  replace (fold_left N.max r x0) with (fold_left N.max (x0 :: r) 0) by (cbn [fold_left]; now rewrite N.max_r by lia).
  destruct (add c (fold_left N.max (x0 :: r) 0) 1) as [asz|] eqn:Ea; dnorm; [|reflexivity].
  pose proof (add_lt_W _ _ _ _ Ea) as HaW. rewrite tie_utils_needed_bits, (needed_bits_spec c asz HaW). dnorm.
  pose proof (bitlen_range asz HaW) as [Hb1 Hb64].
  assert (Hnew : compact_vector_new c (bitlen asz) =
                 Ok (Some {| cv_chunks := bv_empty; cv_len := 0; cv_width := bitlen asz |})).
  { rewrite tie_compact_vector_new. unfold cv_new, width_ok.
    destruct (N.leb_spec 1 (bitlen asz)); [|lia]. destruct (N.leb_spec (bitlen asz) 64); [|lia]. reflexivity. }
  rewrite Hnew at 1. dnorm.
  rewrite nrange_0_from.
  apply (new_loop c k (bitlen asz) asz Hb1 Hb64 (N.to_nat (bitlen asz)) 0 [] seq _ (x0 :: r) []).
  - exact Hinv.
  - apply cv_inv_new. exact Hb64.
  - change (lenN (@nil N)) with 0. lia.
Qed.

From Sucds Require Import Proofs.BVMutLemmas Proofs.DP_Hist.

(* =============================================================================================
   DacsOpt::compute_opt_widths: the dynamic program
   The Rust code keeps the two tables row-major (`dp_s[j][r]`, rows j = 0..=num_bits, columns r < max_levels), the
   model keeps them as lists of columns.  `rep t cols`: the table t is the transpose of the columns, 0 elsewhere.
   ============================================================================================= *)
(* simulation of a generated computation by a model computation on related states *)
Definition sim {A B} (R : A -> B -> Prop) (g : res A) (m : res B) : Prop :=
  match m with Ok b => exists a, g = Ok a /\ R a b | Panic => g = Panic end.

Lemma sim_bind {A B A' B'} (R : A -> B -> Prop) (R' : A' -> B' -> Prop) g m kg km :
  sim R g m -> (forall a b, R a b -> sim R' (kg a) (km b)) -> sim R' (bind g kg) (bind m km).
Proof.
  intros H K. destruct m as [b|]; cbn [sim] in H.
  - destruct H as [a [-> Hr]]. cbn [bind]. now apply K.
  - rewrite H. reflexivity.
Qed.

Lemma sim_same {A A' B'} (R' : A' -> B' -> Prop) (m : res A) kg km :
  (forall a, sim R' (kg a) (km a)) -> sim R' (bind m kg) (bind m km).
Proof. intros K. destruct m as [a|]; cbn [bind]; [apply K | reflexivity]. Qed.

Lemma sim_eq {A} (g m : res A) : sim eq g m -> g = m.
Proof. destruct m as [b|]; cbn [sim]; [intros [a [-> ->]]; reflexivity | auto]. Qed.

(* folds over consecutive numbers, the relation indexed by the next number *)
Lemma fold_sim_range {S T} (R : N -> S -> T -> Prop) (G : S -> N -> res S) (M : T -> N -> res T) : forall n a s t,
  (forall j s t, a <= j -> j < a + N.of_nat n -> R j s t -> sim (R (j + 1)) (G s j) (M t j)) ->
  R a s t -> sim (R (a + N.of_nat n)) (fold_res G (nseq_from a n) s) (fold_res M (nseq_from a n) t).
Proof.
  induction n as [|n IH]; intros a s t Hstep Hr.
  - cbn [nseq_from fold_res sim]. exists s. rewrite N.add_0_r. auto.
  - cbn [nseq_from fold_res]. eapply sim_bind; [apply (Hstep a s t); [lia | lia | exact Hr]|].
    intros s' t' Hr'. replace (a + N.of_nat (Datatypes.S n)) with (N.succ a + N.of_nat n) by lia.
    apply IH; [|now rewrite <- N.add_1_r]. intros j s0 t0 H1 H2. apply Hstep; lia.
Qed.

(* ---------- two-dimensional tables ---------- *)
Definition get2 (t : list (list N)) (j r : N) : N := nthN (nthN t j []) r 0.
Definition set2 (t : list (list N)) (j r v : N) : list (list N) := setN t j (setN (nthN t j []) r v).
Definition shape (t : list (list N)) (rows cols : N) : Prop :=
  lenN t = rows /\ forall j, j < rows -> lenN (nthN t j []) = cols.

Lemma shape_set2 t R C j r v : shape t R C -> j < R -> shape (set2 t j r v) R C.
Proof.
  intros [Hl Hr] Hj. unfold set2. split; [now rewrite lenN_setN|].
  intros j' Hj'. rewrite nthN_setN by lia.
  destruct (N.eqb_spec j' j) as [->|]; [rewrite lenN_setN|]; now apply Hr.
Qed.

Lemma get2_set2 t R C j r v j' r' : shape t R C -> j < R -> r < C ->
  get2 (set2 t j r v) j' r' = if (j' =? j) && (r' =? r) then v else get2 t j' r'.
Proof.
  intros [Hl Hr] Hj Hc. unfold get2, set2. rewrite nthN_setN by lia.
  destruct (N.eqb_spec j' j) as [->|]; cbn [andb]; [|reflexivity].
  rewrite nthN_setN by (rewrite Hr; lia). reflexivity.
Qed.

(* `m[j][r]` read and `m[j][r] = v` written, in range *)
Lemma read_row t R C j : shape t R C -> j < R -> idx [] t j = Ok (nthN t j []).
Proof. intros [Hl _] Hj. apply idx_ok. lia. Qed.
Lemma read_cell t R C j r : shape t R C -> j < R -> r < C -> idx 0 (nthN t j []) r = Ok (get2 t j r).
Proof. intros [_ Hr] Hj Hc. apply idx_ok. rewrite Hr; lia. Qed.

(* the table t holds the columns cols (entry 0 where a column is missing or too short) *)
Definition rep (t cols : list (list N)) (nb ml : N) : Prop :=
  shape t (nb + 1) ml /\ forall j r, j <= nb -> r < ml -> get2 t j r = nthN (nthN cols r []) j 0.

Lemma rep_init nb ml : rep (repeat (repeat 0 (N.to_nat ml)) (N.to_nat (nb + 1))) [] nb ml.
Proof.
  split.
  - split; [apply lenN_repeatN|]. intros j Hj. rewrite BVMutLemmas.nthN_repeat.
    destruct (N.ltb_spec j (nb + 1)); [apply lenN_repeatN | lia].
  - intros j r Hj Hr. unfold get2. rewrite BVMutLemmas.nthN_repeat. destruct (N.ltb_spec j (nb + 1)); [|lia].
    rewrite BVMutLemmas.nthN_repeat. destruct (N.ltb_spec r ml); [|lia].
    rewrite (nthN_oob (@nil (list N))) by (rewrite lenN_nil; lia). now rewrite nthN_oob by (rewrite lenN_nil; lia).
Qed.

(* writing entry (j, r) where r is the last column and the column has j or j + 1 entries *)
Lemma rep_set2 t cols pre tl nb ml j v :
  rep t (cols ++ [pre ++ tl]) nb ml -> lenN cols < ml -> lenN pre = j -> lenN tl <= 1 -> j <= nb ->
  rep (set2 t j (lenN cols) v) (cols ++ [pre ++ [v]]) nb ml.
Proof.
  intros [Hs Hg] Hr Hp Ht Hj. split; [apply shape_set2; [exact Hs | lia]|].
  intros j' r' Hj' Hr'. rewrite (get2_set2 t (nb + 1) ml) by (try exact Hs; lia). rewrite Hg by assumption.
  destruct (N.eqb_spec r' (lenN cols)) as [->|Hne].
  - rewrite andb_true_r, !nthN_last. destruct (N.eqb_spec j' j) as [->|Hne].
    + rewrite <- Hp. now rewrite nthN_last.
    + destruct (N.ltb_spec j' j) as [Hlt|Hge].
      * rewrite !nthN_app_l by lia. reflexivity.
      * rewrite !nthN_oob; [reflexivity | rewrite ?lenN_snoc, ?lenN_app; lia ..].
  - rewrite andb_false_r. destruct (N.ltb_spec r' (lenN cols)) as [Hlt|Hge].
    + rewrite !nthN_app_l by exact Hlt. reflexivity.
    + rewrite !(nthN_oob (cols ++ _)) by (rewrite lenN_snoc; lia). reflexivity.
Qed.

(* a column may be padded with the default *)
Lemma rep_pad t cols acc tl nb ml : rep t (cols ++ [acc]) nb ml -> Forall (fun x => x = 0) tl ->
  rep t (cols ++ [acc ++ tl]) nb ml.
Proof.
  intros [Hs Hg] Htl. split; [exact Hs|]. intros j r Hj Hr. rewrite Hg by assumption.
  destruct (N.eqb_spec r (lenN cols)) as [->|Hne].
  - rewrite !nthN_last. destruct (N.ltb_spec j (lenN acc)) as [Hlt|Hge].
    + now rewrite nthN_app_l.
    + rewrite nthN_oob by exact Hge. rewrite nthN_app_r by exact Hge.
      destruct (N.ltb_spec (j - lenN acc) (lenN tl)) as [H1|H1]; [|now rewrite nthN_oob].
      rewrite Forall_forall in Htl. symmetry. apply Htl. unfold nthN. apply nth_In. unfold lenN in *. lia.
  - destruct (N.ltb_spec r (lenN cols)) as [Hlt|Hge].
    + rewrite !nthN_app_l by exact Hlt. reflexivity.
    + rewrite !(nthN_oob (cols ++ _)) by (rewrite lenN_snoc; lia). reflexivity.
Qed.

Lemma rep_new_col t cols nb ml : rep t cols nb ml -> rep t (cols ++ [[]]) nb ml.
Proof.
  intros [Hs Hg]. split; [exact Hs|]. intros j r Hj Hr. rewrite Hg by assumption.
  destruct (N.ltb_spec r (lenN cols)) as [Hlt|Hge].
  - now rewrite nthN_app_l.
  - rewrite (nthN_oob cols) by exact Hge. destruct (N.eqb_spec r (lenN cols)) as [->|Hne].
    + rewrite nthN_last. reflexivity.
    + rewrite (nthN_oob (cols ++ _)) by (rewrite lenN_snoc; lia). reflexivity.
Qed.

(* ---------- lists of consecutive numbers ---------- *)
Lemma map_succ_nseq_from : forall n a, map (fun b => b + 1) (nseq_from a n) = nseq_from (a + 1) n.
Proof.
  induction n as [|n IH]; intro a; [reflexivity|]. cbn [nseq_from map]. rewrite IH. f_equal. f_equal. lia.
Qed.

Lemma nrange_incl_1 m : nrange_incl 1 m = nseq_from 1 (N.to_nat m).
Proof. unfold nrange_incl, nrange. f_equal. lia. Qed.

Lemma map_succ_nseq m : map (fun b => b + 1) (nseq m) = nseq_from 1 (N.to_nat m).
Proof. unfold nseq. now rewrite map_succ_nseq_from. Qed.

Lemma nrange_1 m : nrange 1 m = nseq_from 1 (N.to_nat (m - 1)).
Proof. reflexivity. Qed.

(* ---------- small facts on sim ---------- *)
Lemma sim_refl_inv {A} (P : A -> Prop) (m : res A) : (forall a, m = Ok a -> P a) -> sim (fun a b => a = b /\ P a) m m.
Proof. intros H. destruct m as [a|]; cbn [sim]; [exists a; auto | reflexivity]. Qed.

Lemma sim_ok {A B} (R : A -> B -> Prop) a b : R a b -> sim R (Ok a) (Ok b).
Proof. intro H. exists a. auto. Qed.

(* an operation of the generated code that the model does not perform and that cannot fail *)
Lemma sim_skip_l {A A' B'} (R' : A' -> B' -> Prop) (g : res A) a kg m :
  g = Ok a -> sim R' (kg a) m -> sim R' (bind g kg) m.
Proof. intros -> H. exact H. Qed.
Lemma sim_skip_r {B A' B'} (R' : A' -> B' -> Prop) (m : res B) b km g :
  m = Ok b -> sim R' g (km b) -> sim R' g (bind m km).
Proof. intros -> H. exact H. Qed.

Lemma fold_res_len {A X} (f : list A -> X -> res (list A)) l :
  (forall s x s', f s x = Ok s' -> lenN s' = lenN s) -> forall s s', fold_res f l s = Ok s' -> lenN s' = lenN s.
Proof.
  intros H. induction l as [|x r IH]; intros s s' E; cbn [fold_res] in E; [now injection E as <-|].
  destruct (f s x) as [s1|] eqn:E1; cbn [bind] in E; [|discriminate]. rewrite (IH _ _ E). now apply (H s x).
Qed.

(* ---------- the model's dp_columns is a fold ---------- *)
Definition col_step (c : cfg) (nb : N) (nums : list N) (t : list (list N) * list (list N)) (_ : N)
  : res (list (list N) * list (list N)) :=
  prev <- unwrap (last_opt (fst t)) ;; cb <- dp_column c nb nums prev ;; Ok (fst t ++ [fst cb], snd t ++ [snd cb]).

Lemma dp_columns_fold c nb nums : forall n a cs cb,
  dp_columns c n nb nums cs cb = fold_res (col_step c nb nums) (nseq_from a n) (cs, cb).
Proof.
  induction n as [|n IH]; intros a cs cb; [reflexivity|].
  cbn [dp_columns nseq_from fold_res]. unfold col_step at 1. cbn [fst snd].
  destruct (unwrap (last_opt cs)) as [prev|]; cbn [bind]; [|reflexivity].
  destruct (dp_column c nb nums prev) as [x|]; cbn [bind]; [|reflexivity]. apply IH.
Qed.

(* ---------- the model's walk_widths is iter_fuel of one step ---------- *)
Definition walk_step (c : cfg) (nb nl : N) (cols_b : list (list N)) (s : N * N * list N)
  : res (N * N * list N + N * N * list N) :=
  let '(j, r, widths) := s in
  if j <? nb then
    _ <- assert_ (r <? lenN widths) ;;
    t <- sub c nl r ;; ci <- sub c t 1 ;;
    col <- idx [] cols_b ci ;;
    w <- idx 0 col j ;;
    j' <- add c j w ;; r' <- add c r 1 ;;
    Ok (inl (j', r', setN widths r w))
  else Ok (inr (j, r, widths)).

Lemma walk_widths_iter c nb nl cols_b : forall fuel j r widths,
  walk_widths c fuel nb nl cols_b j r widths = iter_fuel fuel (walk_step c nb nl cols_b) (j, r, widths).
Proof.
  induction fuel as [|f IH]; intros j r widths; [reflexivity|].
  cbn [walk_widths iter_fuel]. unfold walk_step at 1.
  destruct (j <? nb); cbn [bind]; [|reflexivity].
  destruct (assert_ (r <? lenN widths)); cbn [bind]; [|reflexivity].
  destruct (sub c nl r) as [t|]; cbn [bind]; [|reflexivity].
  destruct (sub c t 1) as [ci|]; cbn [bind]; [|reflexivity].
  destruct (idx [] cols_b ci) as [col|]; cbn [bind]; [|reflexivity].
  destruct (idx 0 col j) as [w|]; cbn [bind]; [|reflexivity].
  destruct (add c j w) as [j'|]; cbn [bind]; [|reflexivity].
  destruct (add c r 1) as [r'|]; cbn [bind]; [|reflexivity]. apply IH.
Qed.

Lemma walk_loop c nb nl cols_b j r widths : lenN widths <= 64 ->
  loopN W (walk_step c nb nl cols_b) (j, r, widths) = walk_widths c 66 nb nl cols_b j r widths.
Proof.
  intros Hw. rewrite walk_widths_iter.
  apply (loopN_fuel (walk_step c nb nl cols_b)
           (fun n s => let '(_, r, widths) := s in lenN widths <= 64 /\ lenN widths <= r + N.of_nat n)) with (n := 64%nat).
  - intros [[j0 r0] w0] s' [H1 H2] E. unfold walk_step in E. destruct (j0 <? nb); [|discriminate].
    destruct (N.ltb_spec r0 (lenN w0)); [lia|]. discriminate.
  - intros n [[j0 r0] w0] s' [H1 H2] E. unfold walk_step in E. destruct (j0 <? nb); [|discriminate].
    destruct (N.ltb_spec r0 (lenN w0)) as [Hr|Hr]; [|discriminate]. cbn [assert_ bind] in E.
    destruct (sub c nl r0) as [t|]; cbn [bind] in E; [|discriminate].
    destruct (sub c t 1) as [ci|]; cbn [bind] in E; [|discriminate].
    destruct (idx [] cols_b ci) as [col|]; cbn [bind] in E; [|discriminate].
    destruct (idx 0 col j0) as [w|]; cbn [bind] in E; [|discriminate].
    destruct (add c j0 w) as [j'|]; cbn [bind] in E; [|discriminate].
    rewrite add_ok in E by (unfold W; lia). cbn [bind] in E. injection E as <-.
    rewrite lenN_setN. split; lia.
  - split; lia.
  - lia.
  - unfold W. lia.
Qed.

Lemma rep_set2_snoc t cols acc nb ml j v :
  rep t (cols ++ [acc]) nb ml -> lenN cols < ml -> lenN acc = j -> j <= nb ->
  rep (set2 t j (lenN cols) v) (cols ++ [acc ++ [v]]) nb ml.
Proof. intros H Hr Hp Hj. apply (rep_set2 t cols acc [] nb ml j v); try assumption; [now rewrite app_nil_r | rewrite lenN_nil; lia]. Qed.

Lemma rep_set2_last t cols pre x nb ml j v :
  rep t (cols ++ [pre ++ [x]]) nb ml -> lenN cols < ml -> lenN pre = j -> j <= nb ->
  rep (set2 t j (lenN cols) v) (cols ++ [pre ++ [v]]) nb ml.
Proof. intros H Hr Hp Hj. apply (rep_set2 t cols pre [x] nb ml j v); try assumption. change (lenN [x]) with 1. lia. Qed.

Lemma sim_weaken {A B} (R R' : A -> B -> Prop) g m : sim R g m -> (forall a b, R a b -> R' a b) -> sim R' g m.
Proof. intros H K. destruct m as [b|]; cbn [sim] in *; [destruct H as [a [-> Hr]]; exists a; auto | exact H]. Qed.

Lemma sim_refl {A} (m : res A) : sim eq m m.
Proof. destruct m as [a|]; cbn [sim]; [exists a; auto | reflexivity]. Qed.

Lemma maxv_fold (vals : list N) : forall m,
  fold_res (fun maxv x => t1 <- unwrap (Some x) ;; let maxv := N.max maxv t1 in Ok maxv) vals m
  = Ok (fold_left N.max vals m).
Proof. induction vals as [|x r IH]; intro m; [reflexivity|]. cbn [fold_res fold_left unwrap bind]. apply IH. Qed.

Lemma tie_dacs_opt_compute_opt_widths : forall c vals max_levels, Forall (fun x => x < W) vals ->
  dacs_opt_compute_opt_widths c vals max_levels = compute_opt_widths c vals max_levels.
Proof.
  intros c vals ml0 HW. unfold dacs_opt_compute_opt_widths, compute_opt_widths.
  destruct (assert_ (negb (lenN vals =? 0))); cbn [bind]; [|reflexivity].
  destruct (N.eqb_spec ml0 0) as [->|Hml0]; cbn [negb assert_ bind]; [reflexivity|].
  rewrite maxv_fold. cbn [bind]. rewrite tie_utils_needed_bits. fold (max_list vals).
  pose proof (max_list_lt_W vals HW) as HmW.
  rewrite (needed_bits_spec c _ HmW). cbn [bind].
  pose proof (bitlen_range _ HmW) as [Hnb1 Hnb64]. set (nb := bitlen (max_list vals)) in *.
  set (ml := N.min ml0 nb).
  assert (Hml : 1 <= ml <= nb) by (unfold ml; lia).
  rewrite !(add_ok c nb 1) by (unfold W; lia). cbn [bind].
  (* the histogram and its suffix sums *)
  unfold nums_ints. rewrite (add_ok c nb 1) by (unfold W; lia). cbn [bind]. rewrite bind_assoc.
  rewrite (fold_res_ext _ (fun h x => nb0 <- needed_bits c x ;; i <- sub c nb0 1 ;; v <- idx 0 h i ;; v1 <- add c v 1 ;; Ok (setN h i v1))).
  2:{ intros h x. cbn [unwrap bind]. now rewrite tie_utils_needed_bits. }
  rewrite nrange_0.
  apply sim_eq.
  eapply sim_bind.
  { apply (sim_refl_inv (fun h => lenN h = nb + 1)). intros h E.
    apply fold_res_len in E; [rewrite E; apply lenN_repeatN|].
    intros s x s' E'. destruct (needed_bits c x) as [n0|]; cbn [bind] in E'; [|discriminate].
    destruct (sub c n0 1) as [i|]; cbn [bind] in E'; [|discriminate].
    destruct (idx 0 s i) as [v|]; cbn [bind] in E'; [|discriminate].
    destruct (add c v 1) as [v1|]; cbn [bind] in E'; [|discriminate]. injection E' as <-. apply lenN_setN. }
  intros h ? [<- Hh].
  rewrite (fold_res_ext (fun nums_ints0 j => t9 <- add c j 1 ;; t10 <- idx 0 nums_ints0 t9 ;; t11 <- idx 0 nums_ints0 j ;;
                           t12 <- add c t11 t10 ;; Ok (setN nums_ints0 j t12))
             (fun h j => a <- idx 0 h j ;; j1 <- add c j 1 ;; b <- idx 0 h j1 ;; s <- add c a b ;; Ok (setN h j s))).
  2:{ intros h0 j. destruct (add c j 1) as [j1|]; cbn [bind].
      - destruct (idx 0 h0 j1), (idx 0 h0 j); reflexivity.
      - destruct (idx 0 h0 j); reflexivity. }
  eapply sim_bind.
  { apply (sim_refl_inv (fun nums => lenN nums = nb + 1)). intros nums E.
    apply fold_res_len in E; [rewrite E; exact Hh|].
    intros s x s' E'. destruct (idx 0 s x) as [a0|]; cbn [bind] in E'; [|discriminate].
    destruct (add c x 1) as [j1|]; cbn [bind] in E'; [|discriminate].
    destruct (idx 0 s j1) as [b|]; cbn [bind] in E'; [|discriminate].
    destruct (add c a0 b) as [v1|]; cbn [bind] in E'; [|discriminate]. injection E' as <-. apply lenN_setN. }
  clear h Hh. intros nums ? [<- Hnums].
  (* the two debug assertions *)
  assert (Hlast : exists nl, last_opt nums = Some nl).
  { destruct nums as [|x0 r0]; [rewrite lenN_nil in Hnums; lia|]. rewrite (last_opt_nthN (x0 :: r0) nb 0 Hnums). eauto. }
  destruct Hlast as [nl Hlast].
  assert (Hd1 : (if dbg c then t13 <- idx 0 nums 0 ;; assert_ (t13 =? lenN vals) else Ok tt)
                = dassert c (nthN nums 0 0 =? lenN vals)).
  { rewrite idx_ok by lia. unfold dassert, assert_. destruct (dbg c); reflexivity. }
  assert (Hd2 : (if dbg c then t14 <- unwrap (last_opt nums) ;; assert_ (t14 =? 0) else Ok tt) = dassert c (nl =? 0)).
  { rewrite Hlast. unfold dassert, assert_. destruct (dbg c); reflexivity. }
  rewrite Hd1, Hd2, Hlast. clear Hd1 Hd2. rewrite (idx_ok 0 nums 0) by lia. cbn [unwrap bind].
  apply sim_same. intros _. apply sim_same. intros _.
  (* column 0 *)
  set (T := list (list N)).
  pose (RA := fun (j : N) (s : T * T) (t : list N * list N) =>
                rep (snd s) ([] ++ [fst t]) nb ml /\ rep (fst s) ([] ++ [snd t]) nb ml /\ lenN (fst t) = j /\ lenN (snd t) = j).
  eapply sim_bind with (R := RA nb).
  { unfold nseq.
    eapply sim_weaken; [apply (fold_sim_range RA _ _ (N.to_nat nb) 0)|].
    - intros j [tb ts] [accs accb] Hj1 Hj2 (Hs & Hb & L1 & L2). cbn [fst snd] in *. cbv beta iota.
      rewrite (sub_ok c nb j) by lia. rewrite (idx_ok 0 nums j) by lia. cbn [bind].
      destruct (mul c (nb - j) (nthN nums j 0)) as [sv|]; cbn [bind]; [|exact eq_refl].
      rewrite (read_row ts (nb + 1) ml j) by (try apply Hs; lia). cbn [bind].
      rewrite (read_cell ts (nb + 1) ml j 0) by (try apply Hs; lia). cbn [bind].
      rewrite (read_row tb (nb + 1) ml j) by (try apply Hb; lia). cbn [bind].
      rewrite (read_cell tb (nb + 1) ml j 0) by (try apply Hb; lia). cbn [bind].
      apply sim_ok. unfold RA. cbn [fst snd]. rewrite !lenN_snoc.
      split; [apply (rep_set2_snoc ts [] accs nb ml j sv); try assumption; (rewrite ?lenN_nil; lia)|].
      split; [apply (rep_set2_snoc tb [] accb nb ml j (nb - j)); try assumption; (rewrite ?lenN_nil; lia)|]. lia.
    - unfold RA. cbn [fst snd].
      split; [apply (rep_new_col _ [] nb ml), rep_init|]. split; [apply (rep_new_col _ [] nb ml), rep_init|].
      split; reflexivity.
    - intros s t. rewrite N.add_0_l, N2Nat.id. auto. }
  intros [tb ts] [accs accb] (Hs & Hb & L1 & L2). cbn [fst snd app] in Hs, Hb, L1, L2. cbv beta iota. cbn [fst snd].
  (* columns 1 .. max_levels - 1 *)
  rewrite (sub_ok c ml 1) by lia. cbn [bind]. rewrite (dp_columns_fold c nb nums _ 1).
  change (nrange 1 ml) with (nseq_from 1 (N.to_nat (ml - 1))).
  pose (colsok := fun cs : T => Forall (fun col => lenN col = nb + 1) cs).
  pose (TABS := fun (r : N) (s : T * T) (t : T * T) =>
                  rep (snd s) (fst t) nb ml /\ rep (fst s) (snd t) nb ml /\ lenN (fst t) = r /\ lenN (snd t) = r /\
                  colsok (fst t) /\ colsok (snd t)).
  eapply sim_bind with (R := TABS ml).
  { eapply sim_weaken; [apply (fold_sim_range TABS _ _ (N.to_nat (ml - 1)) 1)|].
    2:{ unfold TABS, colsok. cbn [fst snd].
        split; [apply (rep_pad ts [] accs [0] nb ml); [exact Hs | repeat constructor]|].
        split; [apply (rep_pad tb [] accb [0] nb ml); [exact Hb | repeat constructor]|].
        split; [reflexivity|]. split; [reflexivity|].
        split; (constructor; [rewrite lenN_snoc; lia | constructor]). }
    2:{ intros s t. replace (1 + N.of_nat (N.to_nat (ml - 1))) with ml by lia. auto. }
    intros r [tb0 ts0] [cs cb] Hr1 Hr2 (Hs0 & Hb0 & Lc1 & Lc2 & Cs & Cb). cbn [fst snd] in *. cbv beta iota.
    assert (Hrml : r < ml) by lia.
    unfold col_step. cbn [fst snd].
    rewrite (last_opt_nthN cs (r - 1) []) by lia. cbn [unwrap bind].
    set (prev := nthN cs (r - 1) []).
    assert (Hprev : lenN prev = nb + 1).
    { unfold colsok in Cs. rewrite Forall_forall in Cs. apply Cs. unfold prev, nthN. apply nth_In. unfold lenN in Lc1. lia. }
    unfold dp_column. rewrite !bind_assoc.
    pose (RJ := fun (j : N) (s : T * T) (cells : list (N * N)) =>
                  rep (snd s) (cs ++ [map fst cells]) nb ml /\ rep (fst s) (cb ++ [map snd cells]) nb ml /\ lenN cells = j).
    eapply sim_bind with (R := RJ nb).
    2:{ intros [tb1 ts1] cells (Hs1 & Hb1 & Lcells). cbn [fst snd bind] in *. apply sim_ok. unfold TABS, colsok. cbn [fst snd].
        rewrite !lenN_snoc.
        split; [apply rep_pad; [exact Hs1 | repeat constructor]|].
        split; [apply rep_pad; [exact Hb1 | repeat constructor]|].
        split; [lia|]. split; [lia|].
        split; apply Forall_app; (split; [assumption|]); constructor; try constructor; rewrite lenN_snoc, lenN_map; lia. }
    unfold nseq. eapply sim_weaken; [apply (fold_sim_range RJ _ _ (N.to_nat nb) 0)|].
    2:{ unfold RJ. cbn [fst snd map]. split; [now apply rep_new_col|]. split; [now apply rep_new_col|]. reflexivity. }
    2:{ intros s t. rewrite N.add_0_l, N2Nat.id. auto. }
    (* one cell *)
    intros j [tb1 ts1] cells Hj1 Hj2 (Hs1 & Hb1 & Lcells). cbn [fst snd] in *. cbv beta iota.
    assert (Hj : j < nb) by lia.
    rewrite (read_row ts1 (nb + 1) ml j) by (try apply Hs1; lia). cbn [bind].
    rewrite (read_cell ts1 (nb + 1) ml j r) by (try apply Hs1; lia). cbn [bind].
    rewrite (sub_ok c nb j) by lia. cbn [bind].
    unfold dp_cell. rewrite (idx_ok 0 nums j) by lia. rewrite (sub_ok c nb j) by lia. cbn [bind].
    rewrite nrange_incl_1, map_succ_nseq.
    pose (RB := fun (_ : N) (s : T * T) (bm : N * N) =>
                  rep (snd s) (cs ++ [map fst cells ++ [fst bm]]) nb ml /\ rep (fst s) (cb ++ [map snd cells ++ [snd bm]]) nb ml).
    eapply sim_bind with (R := RB 0).
    2:{ intros [tb2 ts2] [best bb] (Hs2 & Hb2). cbn [fst snd] in *. apply sim_ok. unfold RJ. cbn [fst snd].
        rewrite !map_app. cbn [map fst snd]. rewrite lenN_snoc. split; [assumption|]. split; [assumption|]. lia. }
    eapply sim_weaken; [apply (fold_sim_range RB _ _ (N.to_nat (nb - j)) 1)|].
    2:{ unfold RB. cbn [fst snd]. fold (set2 ts1 j r MASK64). rewrite <- Lc1 at 1.
        split; [apply rep_set2_snoc; try assumption; rewrite ?lenN_map; lia|].
        apply rep_pad; [exact Hb1 | repeat constructor]. }
    2:{ intros s t H. exact H. }
    (* one candidate width b *)
    intros b [tb2 ts2] [best bb] Hb1' Hb2' (Hs2 & Hb2). cbn [fst snd] in *. cbv beta iota.
    rewrite (add_ok c b 1) by (unfold W; lia). cbn [bind].
    destruct (mul c (b + 1) (nthN nums j 0)) as [tv|]; cbn [bind]; [|exact eq_refl].
    rewrite (add_ok c j b) by (unfold W; lia). cbn [bind].
    rewrite (read_row ts2 (nb + 1) ml (j + b)) by (try apply Hs2; lia). cbn [bind].
    rewrite (sub_ok c r 1) by lia. cbn [bind].
    rewrite (read_cell ts2 (nb + 1) ml (j + b) (r - 1)) by (try apply Hs2; lia). cbn [bind].
    rewrite (idx_ok 0 prev (j + b)) by lia. cbn [bind].
    assert (Hprevcell : get2 ts2 (j + b) (r - 1) = nthN prev (j + b) 0).
    { destruct Hs2 as [_ Hg]. rewrite Hg by lia. rewrite nthN_app_l by lia. reflexivity. }
    rewrite Hprevcell.
    destruct (add c tv (nthN prev (j + b) 0)) as [cst|]; cbn [bind]; [|exact eq_refl].
    rewrite (read_row ts2 (nb + 1) ml j) by (try apply Hs2; lia). cbn [bind].
    rewrite (read_cell ts2 (nb + 1) ml j r) by (try apply Hs2; lia). cbn [bind].
    assert (Hcur : get2 ts2 j r = best).
    { destruct Hs2 as [_ Hg]. rewrite Hg by lia. rewrite <- Lc1, nthN_last. rewrite <- Lcells, <- (lenN_map fst cells).
      apply nthN_last. }
    rewrite Hcur.
    destruct (cst <=? best); cbn [bind].
    - rewrite (read_row tb2 (nb + 1) ml j) by (try apply Hb2; lia). cbn [bind].
      rewrite (read_cell tb2 (nb + 1) ml j r) by (try apply Hb2; lia). cbn [bind].
      apply sim_ok. unfold RB. cbn [fst snd].
      fold (set2 ts2 j r cst). fold (set2 tb2 j r b).
      split; [rewrite <- Lc1 at 1 | rewrite <- Lc2 at 1]; (eapply rep_set2_last; [eassumption | lia | rewrite lenN_map; lia | lia]).
    - apply sim_ok. unfold RB. cbn [fst snd]. auto. }
  intros [tb1 ts1] [cs cb] (Hs1 & Hb1 & Lc1 & Lc2 & Cs & Cb). cbn [fst snd] in *. cbv beta iota.
  (* the number of levels: the first strict minimum of row 0 *)
  assert (Hcol : forall r, r < ml -> lenN (nthN cs r []) = nb + 1).
  { intros r Hr. unfold colsok in Cs. rewrite Forall_forall in Cs. apply Cs. unfold nthN. apply nth_In. unfold lenN in Lc1. lia. }
  assert (Hcolb : forall r, r < ml -> lenN (nthN cb r []) = nb + 1).
  { intros r Hr. unfold colsok in Cb. rewrite Forall_forall in Cb. apply Cb. unfold nthN. apply nth_In. unfold lenN in Lc2. lia. }
  rewrite (idx_ok [] cs 0) by lia. cbn [bind]. rewrite (idx_ok 0 (nthN cs 0 []) 0) by (rewrite Hcol; lia). cbn [bind].
  rewrite map_succ_nseq.
  pose (RC := fun (_ : N) (mi : N) (bm : N * N) => snd bm = mi /\ fst bm = get2 ts1 0 mi /\ mi < ml).
  eapply sim_bind with (R := RC 0).
  { eapply sim_weaken; [apply (fold_sim_range RC _ _ (N.to_nat (ml - 1)) 1)|].
    2:{ unfold RC. cbn [fst snd]. destruct Hs1 as [_ Hg]. rewrite Hg by lia. split; [reflexivity|]. split; [reflexivity|]. lia. }
    2:{ intros s t H. exact H. }
    intros r mi [bv bi] Hr1 Hr2 (E1 & E2 & Hmi). cbn [fst snd] in *. subst bi bv.
    rewrite (read_row ts1 (nb + 1) ml 0) by (try apply Hs1; lia). cbn [bind].
    rewrite (read_cell ts1 (nb + 1) ml 0 r) by (try apply Hs1; lia). cbn [bind].
    rewrite (read_cell ts1 (nb + 1) ml 0 mi) by (try apply Hs1; lia). cbn [bind].
    rewrite (idx_ok [] cs r) by lia. cbn [bind]. rewrite (idx_ok 0 (nthN cs r []) 0) by (rewrite Hcol; lia). cbn [bind].
    assert (Hv : nthN (nthN cs r []) 0 0 = get2 ts1 0 r) by (destruct Hs1 as [_ Hg]; rewrite Hg by lia; reflexivity).
    rewrite Hv. destruct (get2 ts1 0 r <? get2 ts1 0 mi); cbn [bind]; apply sim_ok; unfold RC; cbn [fst snd];
      (split; [reflexivity|]); (split; [reflexivity|]); lia. }
  intros mi [bv bi] (E1 & E2 & Hmi). cbn [fst snd] in *. subst bi bv.
  rewrite (add_ok c mi 1) by (unfold W; lia). cbn [bind].
  (* the reconstruction of the widths *)
  rewrite <- (walk_loop c nb (mi + 1) cb 0 0 (repeat 0 (N.to_nat (mi + 1)))) by (rewrite lenN_repeatN; lia).
  match goal with |- sim eq (bind (loopN W ?f _) _) _ => rewrite (loopN_ext W f (walk_step c nb (mi + 1) cb)) end.
  2:{ intros [[j r] widths]. unfold walk_step.
      destruct (N.ltb_spec j nb) as [Hj|Hj]; [|reflexivity].
      rewrite (read_row tb1 (nb + 1) ml j) by (try apply Hb1; lia). cbn [bind].
      destruct (N.ltb_spec r (lenN widths)) as [Hr|Hr]; cbn [assert_ bind].
      - destruct (sub c (mi + 1) r) as [t|]; cbn [bind]; [|reflexivity].
        destruct (sub c t 1) as [ci|]; cbn [bind]; [|reflexivity].
        destruct (N.ltb_spec ci ml) as [Hci|Hci].
        + rewrite (read_cell tb1 (nb + 1) ml j ci) by (try apply Hb1; lia). cbn [bind].
          rewrite (idx_ok [] cb ci) by lia. cbn [bind]. rewrite (idx_ok 0 (nthN cb ci []) j) by (rewrite Hcolb; lia). cbn [bind].
          assert (Hv : get2 tb1 j ci = nthN (nthN cb ci []) j 0) by (destruct Hb1 as [_ Hg]; apply Hg; lia).
          rewrite Hv. rewrite (idx_ok 0 widths r) by exact Hr. cbn [bind].
          rewrite idx_ok by (rewrite lenN_setN; exact Hr). cbn [bind].
          rewrite nthN_setN by exact Hr. rewrite N.eqb_refl. reflexivity.
        + rewrite (idx_oob 0 (nthN tb1 j []) ci) by (destruct Hb1 as [[_ Hsh] _]; rewrite Hsh; lia).
          rewrite (idx_oob [] cb ci) by lia. reflexivity.
      - destruct (sub c (mi + 1) r) as [t|]; cbn [bind]; [|reflexivity].
        destruct (sub c t 1) as [ci|]; cbn [bind]; [|reflexivity].
        destruct (idx 0 (nthN tb1 j []) ci); cbn [bind]; [|reflexivity].
        rewrite (idx_oob 0 widths r) by exact Hr. reflexivity. }
  apply sim_same. intros [[j r] widths]. apply sim_refl.
Qed.

(* from_slice and the Build impl, now against the model's dynamic program *)
Lemma tie_dacs_opt_from_slice : forall c vals max_levels, Forall (fun x => x < W) vals ->
  dacs_opt_from_slice c vals max_levels = do_from_slice c vals max_levels.
Proof.
  intros c vals ml HW. rewrite dacs_opt_from_slice_rel. unfold do_from_slice. cbv zeta.
  destruct (negb _); [reflexivity|]. destruct vals as [|x0 r]; [reflexivity|].
  now rewrite tie_dacs_opt_compute_opt_widths.
Qed.

Lemma tie_dacs_opt_build_from_slice : forall c vals, Forall (fun x => x < W) vals ->
  dacs_opt_build_from_slice c vals = do_from_slice c vals None.
Proof. intros c vals HW. unfold dacs_opt_build_from_slice. now apply tie_dacs_opt_from_slice. Qed.

(* the three helper functions of older modules regenerated for the wavelet matrix *)
Lemma tie_bit_vector_build_from_bits : forall c bits r s1 s0,
  bit_vector_build_from_bits c bits r s1 s0 = (bv <- BitVector.from_bits c bits ;; Ok (Some bv)).
Proof. intros. unfold bit_vector_build_from_bits. now rewrite tie_bit_vector_from_bits. Qed.

Lemma tie_compact_vector_is_empty : forall c v, compact_vector_is_empty c v = Ok (cv_len v =? 0).
Proof. reflexivity. Qed.

Lemma tie_compact_vector_iter : forall c v, compact_vector_iter c v = Ok {| ci_cv := v; ci_pos := 0 |}.
Proof. reflexivity. Qed.

(* =============================================================================================
   all ties of this file
   ============================================================================================= *)
Theorem loops_tie_dw_all :
  (* dacs_byte.rs *)
  (forall c, dacs_byte_default c = Ok db_default) /\
  (forall c vals, dacs_byte_from_slice c vals = rmap Some (db_from_slice c vals)) /\
  (forall c d, dacs_byte_len c d = db_len c d) /\
  (forall c d, dacs_byte_is_empty c d = (n <- db_len c d ;; Ok (n =? 0))) /\
  (forall c d, dacs_byte_num_levels c d = Ok (db_num_levels d)) /\
  (forall c d, dacs_byte_widths c d = Ok (db_widths d)) /\
  (forall c d pos, dacs_byte_access c d pos = db_access c d pos) /\
  (forall c d, dacs_byte_iter c d = Ok {| dbi_seq := d; dbi_pos := 0 |}) /\
  (forall c vals, dacs_byte_build_from_slice c vals = rmap Some (db_from_slice c vals)) /\
  (forall c d, dacs_byte_num_vals c d = db_len c d) /\
  (forall c d, dacs_byte_iter_new c d = Ok {| dbi_seq := d; dbi_pos := 0 |}) /\
  (forall c it, dacs_byte_iter_next c it =
     ('(p, x) <- db_iter_next c (dbi_seq it) (dbi_pos it) ;; Ok ({| dbi_seq := dbi_seq it; dbi_pos := p |}, x))) /\
  (forall c it, dacs_byte_iter_size_hint c it =
     (n <- db_len c (dbi_seq it) ;; '(a, b) <- BitVector.iter_size_hint c n (dbi_pos it) ;; Ok (a, Some b))) /\
  (* dacs_opt.rs *)
  (forall c, dacs_opt_default c = Ok do_default) /\
  (forall c vals max_levels, Forall (fun x => x < W) vals ->
     dacs_opt_compute_opt_widths c vals max_levels = compute_opt_widths c vals max_levels) /\
  (forall c vals widths, dacs_opt_build c vals widths = rmap Some (do_build c vals widths)) /\
  (forall c vals max_levels, Forall (fun x => x < W) vals ->
     dacs_opt_from_slice c vals max_levels = do_from_slice c vals max_levels) /\
  (forall c d, dacs_opt_len c d = do_len c d) /\
  (forall c d, dacs_opt_is_empty c d = (n <- do_len c d ;; Ok (n =? 0))) /\
  (forall c d, dacs_opt_num_levels c d = Ok (do_num_levels d)) /\
  (forall c d, dacs_opt_widths c d = Ok (do_widths d)) /\
  (forall c d pos, dacs_opt_access c d pos = do_access c d pos) /\
  (forall c d, dacs_opt_iter c d = Ok {| doi_seq := d; doi_pos := 0 |}) /\
  (forall c vals, Forall (fun x => x < W) vals -> dacs_opt_build_from_slice c vals = do_from_slice c vals None) /\
  (forall c d, dacs_opt_num_vals c d = do_len c d) /\
  (forall c d, dacs_opt_iter_new c d = Ok {| doi_seq := d; doi_pos := 0 |}) /\
  (forall c it, dacs_opt_iter_next c it =
     ('(p, x) <- do_iter_next c (doi_seq it) (doi_pos it) ;; Ok ({| doi_seq := doi_seq it; doi_pos := p |}, x))) /\
  (forall c it, dacs_opt_iter_size_hint c it =
     (n <- do_len c (doi_seq it) ;; '(a, b) <- BitVector.iter_size_hint c n (doi_pos it) ;; Ok (a, Some b))) /\
  (* the type parameter B of WaveletMatrix<B>: dispatch over Rank9Sel / DArray / BitVector *)
  (forall c b i, backing_access c b i = b_access c b i) /\
  (forall c b i, backing_rank1 c b i = b_rank1 c b i) /\
  (forall c b i, backing_rank0 c b i = b_rank0 c b i) /\
  (forall c b k, backing_range b -> backing_select1 c b k = b_select1 c b k) /\
  (forall c b k, backing_range b -> backing_select0 c b k = b_select0 c b k) /\
  (forall c b, backing_num_bits c b = Ok (b_num_bits b)) /\
  (forall c b, backing_num_ones c b = b_num_ones c b) /\
  (forall c b, backing_num_zeros c b = b_num_zeros c b) /\
  (forall c k bv, wf bv -> bv_len bv < 2 ^ 56 ->
     backing_build_from_bits c k (bits_of bv) true true true = rmap Some (b_build c k bv)) /\
  (forall c bits r s1 s0, bit_vector_build_from_bits c bits r s1 s0 = (bv <- BitVector.from_bits c bits ;; Ok (Some bv))) /\
  (forall c v, compact_vector_is_empty c v = Ok (cv_len v =? 0)) /\
  (forall c v, compact_vector_iter c v = Ok {| ci_cv := v; ci_pos := 0 |}) /\
  (* wavelet_matrix.rs *)
  (forall c seq xs shift nz lz no lo bv aw,
     cv_inv seq xs -> cv_cap (cv_width seq) (lenN xs) -> cv_inv nz lz -> cv_inv no lo -> cv_width nz = aw -> cv_width no = aw ->
     lenN lz + lenN lo + lenN xs < 2 ^ 50 -> wf bv -> bv_len bv + lenN xs < 2 ^ 56 ->
     filt_rel aw (wavelet_matrix_filter c seq shift nz no bv) (fold_res (wm_filter c aw shift) xs (lz, lo, bv))
       (lenN lz + lenN lo + lenN xs) (bv_len bv + lenN xs)) /\
  (forall c k seq xs, cv_inv seq xs -> lenN xs < 2 ^ 50 -> wavelet_matrix_new c k seq = wm_new c k xs) /\
  (forall c w, wavelet_matrix_len c w = Ok (wm_len w)) /\
  (forall c w, wavelet_matrix_is_empty c w = Ok (wm_len w =? 0)) /\
  (forall c w, wavelet_matrix_alph_size c w = Ok (wm_alph_size w)) /\
  (forall c w, wavelet_matrix_alph_width c w = Ok (wm_alph_width w)) /\
  (forall c w pos, wavelet_matrix_access c w pos = wm_access c w pos) /\
  (forall c w range val, wavelet_matrix_rank_range c w range val = wm_rank_range c w (fst range) (snd range) val) /\
  (forall c w pos val, wavelet_matrix_rank c w pos val = wm_rank c w pos val) /\
  (forall c w pre rest k val pos, wm_layers w = pre ++ rest -> Forall backing_range rest -> lenN (wm_layers w) < W ->
     wavelet_matrix_select_helper c w k val pos (lenN pre) = select_helper c (wm_alph_width w) rest k val pos (lenN pre)) /\
  (forall c w k val, Forall backing_range (wm_layers w) -> lenN (wm_layers w) < W ->
     wavelet_matrix_select c w k val = wm_select c w k val) /\
  (forall c w range k, wavelet_matrix_quantile c w range k = wm_quantile c w (fst range) (snd range) k) /\
  (forall c w pre rest ranges k prefix, wm_layers w = pre ++ rest -> lenN (wm_layers w) < W ->
     wavelet_matrix_intersect_helper c w ranges k (lenN pre) prefix = intersect_helper c rest ranges k prefix) /\
  (forall c w ranges k, lenN (wm_layers w) < W -> wavelet_matrix_intersect c w ranges k = wm_intersect c w ranges k) /\
  (forall c w, wavelet_matrix_iter c w = Ok {| wi_wm := w; wi_pos := 0 |}) /\
  (forall c w, wavelet_matrix_iter_new c w = Ok {| wi_wm := w; wi_pos := 0 |}) /\
  (forall c it, wavelet_matrix_iter_next c it =
     ('(p, x) <- wm_iter_next c (wi_wm it) (wi_pos it) ;; Ok ({| wi_wm := wi_wm it; wi_pos := p |}, x))) /\
  (forall c it, wavelet_matrix_iter_size_hint c it =
     ('(a, b) <- BitVector.iter_size_hint c (wm_len (wi_wm it)) (wi_pos it) ;; Ok (a, Some b))).
Proof.
  exact (conj tie_dacs_byte_default
  (conj tie_dacs_byte_from_slice
  (conj tie_dacs_byte_len
  (conj tie_dacs_byte_is_empty
  (conj tie_dacs_byte_num_levels
  (conj tie_dacs_byte_widths
  (conj tie_dacs_byte_access
  (conj tie_dacs_byte_iter
  (conj tie_dacs_byte_build_from_slice
  (conj tie_dacs_byte_num_vals
  (conj tie_dacs_byte_iter_new
  (conj tie_dacs_byte_iter_next
  (conj tie_dacs_byte_iter_size_hint
  (conj tie_dacs_opt_default
  (conj tie_dacs_opt_compute_opt_widths
  (conj tie_dacs_opt_build
  (conj tie_dacs_opt_from_slice
  (conj tie_dacs_opt_len
  (conj tie_dacs_opt_is_empty
  (conj tie_dacs_opt_num_levels
  (conj tie_dacs_opt_widths
  (conj tie_dacs_opt_access
  (conj tie_dacs_opt_iter
  (conj tie_dacs_opt_build_from_slice
  (conj tie_dacs_opt_num_vals
  (conj tie_dacs_opt_iter_new
  (conj tie_dacs_opt_iter_next
  (conj tie_dacs_opt_iter_size_hint
  (conj tie_backing_access
  (conj tie_backing_rank1
  (conj tie_backing_rank0
  (conj tie_backing_select1
  (conj tie_backing_select0
  (conj tie_backing_num_bits
  (conj tie_backing_num_ones
  (conj tie_backing_num_zeros
  (conj tie_backing_build_from_bits
  (conj tie_bit_vector_build_from_bits
  (conj tie_compact_vector_is_empty
  (conj tie_compact_vector_iter
  (conj tie_wavelet_matrix_filter
  (conj tie_wavelet_matrix_new
  (conj tie_wavelet_matrix_len
  (conj tie_wavelet_matrix_is_empty
  (conj tie_wavelet_matrix_alph_size
  (conj tie_wavelet_matrix_alph_width
  (conj tie_wavelet_matrix_access
  (conj tie_wavelet_matrix_rank_range
  (conj tie_wavelet_matrix_rank
  (conj tie_wavelet_matrix_select_helper
  (conj tie_wavelet_matrix_select
  (conj tie_wavelet_matrix_quantile
  (conj tie_wavelet_matrix_intersect_helper
  (conj tie_wavelet_matrix_intersect
  (conj tie_wavelet_matrix_iter
  (conj tie_wavelet_matrix_iter_new
  (conj tie_wavelet_matrix_iter_next
  tie_wavelet_matrix_iter_size_hint))))))))))))))))))))))))))))))))))))))))))))))))))))))))).
Qed.

Print Assumptions loops_tie_dw_all.

(* non-vacuity of the hypotheses, and the generated code runs inside the kernel: 3 1 4 1 5 9 2 6 in a dev and a release
   configuration -- a DacsOpt, a DacsByte, and a wavelet matrix over BitVector layers built from a CompactVector
   holding the values *)
Example loops_tie_dw_example :
  forall c, In c [ {| dbg := true; intr := false |}; {| dbg := false; intr := true |} ] ->
  let xs := [3; 1; 4; 1; 5; 9; 2; 6] in
  Forall (fun x => x < W) xs /\
  dacs_opt_compute_opt_widths c xs 64 = Ok [4] /\
  (exists d, dacs_opt_from_slice c xs None = Ok (Some d) /\ dacs_opt_access c d 5 = Ok (Some 9)) /\
  (exists d, dacs_byte_from_slice c (xs ++ [70000]) = Ok (Some d) /\ dacs_byte_access c d 8 = Ok (Some 70000)) /\
  (exists seq w, cv_from_slice c xs = Ok (Some seq) /\ cv_inv seq xs /\ lenN xs < 2 ^ 50 /\
     wavelet_matrix_new c KBitVec seq = Ok (Some w) /\ Forall backing_range (wm_layers w) /\ lenN (wm_layers w) < W /\
     wavelet_matrix_access c w 5 = Ok (Some 9) /\ wavelet_matrix_select c w 1 1 = Ok (Some 3) /\
     wavelet_matrix_intersect c w [(0, 4); (2, 8)] 1 = Ok (Some [1; 4])).
Proof.
  intros c Hc xs.
  split; [repeat constructor|].
  split; [destruct Hc as [<-|[<-|[]]]; vm_compute; reflexivity|].
  split; [destruct Hc as [<-|[<-|[]]]; eexists; (split; [vm_compute; reflexivity | vm_compute; reflexivity])|].
  split; [destruct Hc as [<-|[<-|[]]]; eexists; (split; [vm_compute; reflexivity | vm_compute; reflexivity])|].
  destruct (cv_from_slice_spec c xs) as [seq [E [Hrep _]]]; [discriminate | repeat constructor | vm_compute; reflexivity|].
  exists seq.
  assert (Hseq : seq = {| cv_chunks := {| bv_words := [1653937171]; bv_len := 32 |}; cv_len := 8; cv_width := 4 |}).
  { destruct Hc as [<-|[<-|[]]]; vm_compute in E; injection E as <-; reflexivity. }
  eexists. split; [exact E|]. split; [apply cv_rep_inv in Hrep; apply Hrep|]. split; [vm_compute; reflexivity|].
  subst seq. split; [destruct Hc as [<-|[<-|[]]]; vm_compute; reflexivity|].
  split; [repeat constructor; vm_compute; reflexivity|].
  split; [vm_compute; reflexivity|].
  repeat split; destruct Hc as [<-|[<-|[]]]; vm_compute; reflexivity.
Qed.
