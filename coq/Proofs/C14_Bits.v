(* Proofs/C14_Bits.v — helper lemmas for property C14 (broadword primitives):
   finite sweeps with a soundness lemma, bit-level splitting of a + 2^n * x, packed lanes
   (pack w l = sum of l_i * 2^(w i)) with lane-wise land/lor/lxor/add/sub/shift lemmas,
   and the splitting of popcN / selP along a lane boundary. *)
From Sucds Require Import Base.Res Spec.WordSpec Proofs.ResLemmas.
From Coq Require Import ZArith ZifyN ZifyBool ZifyNat Lia.
Ltac Zify.zify_post_hook ::= Z.div_mod_to_equations.
Open Scope N_scope.

(* ------------------------------------------------------------------------------------ *)
(* finite sweeps: binary-tree enumeration of acc + w * j for j < 2^k *)
Fixpoint forall_bits (k : nat) (acc w : N) (f : N -> bool) : bool :=
  match k with
  | O => f acc
  | S k' => forall_bits k' acc (2 * w) f && forall_bits k' (acc + w) (2 * w) f
  end.

Lemma forall_bits_sound k : forall acc w f, forall_bits k acc w f = true ->
  forall j, j < 2 ^ N.of_nat k -> f (acc + w * j) = true.
Proof.
  induction k as [|k IH]; intros acc w f H j Hj.
  - cbn [forall_bits] in H. change (2 ^ N.of_nat 0) with 1 in Hj.
    replace (acc + w * j) with acc by nia. exact H.
  - cbn [forall_bits] in H. apply andb_prop in H. destruct H as [H0 H1].
    replace (2 ^ N.of_nat (S k)) with (2 * 2 ^ N.of_nat k) in Hj
      by (rewrite Nat2N.inj_succ, N.pow_succ_r'; reflexivity).
    destruct (N.even j) eqn:Ev.
    + apply N.even_spec in Ev. destruct Ev as [j' ->].
      replace (acc + w * (2 * j')) with (acc + 2 * w * j') by lia.
      apply (IH _ _ _ H0). lia.
    + assert (Od : N.odd j = true) by (rewrite <- N.negb_even, Ev; reflexivity).
      apply N.odd_spec in Od. destruct Od as [j' ->].
      replace (acc + w * (2 * j' + 1)) with (acc + w + 2 * w * j') by lia.
      apply (IH _ _ _ H1). lia.
Qed.

Definition forall_lt_pow2 (k : nat) (f : N -> bool) : bool := forall_bits k 0 1 f.

Lemma forall_lt_pow2_sound k f : forall_lt_pow2 k f = true ->
  forall x, x < 2 ^ N.of_nat k -> f x = true.
Proof.
  intros H x Hx. unfold forall_lt_pow2 in H.
  pose proof (forall_bits_sound k 0 1 f H x Hx) as G.
  replace (0 + 1 * x) with x in G by lia. exact G.
Qed.

(* ------------------------------------------------------------------------------------ *)
(* bits of a + 2^n * x *)
Lemma testbit_split a x n i : a < 2 ^ n ->
  N.testbit (a + 2 ^ n * x) i = if i <? n then N.testbit a i else N.testbit x (i - n).
Proof.
  intro Ha. assert (Hp : 2 ^ n <> 0) by (apply N.pow_nonzero; discriminate).
  destruct (N.ltb_spec i n) as [Hi|Hi].
  - rewrite <- (N.mod_pow2_bits_low (a + 2 ^ n * x) n i Hi).
    replace (a + 2 ^ n * x) with (a + x * 2 ^ n) by lia.
    rewrite N.mod_add by exact Hp. rewrite N.mod_small by exact Ha. reflexivity.
  - replace i with ((i - n) + n) at 1 by lia.
    rewrite <- N.div_pow2_bits.
    replace (a + 2 ^ n * x) with (x * 2 ^ n + a) by lia.
    rewrite N.div_add_l by exact Hp. rewrite (N.div_small a) by exact Ha.
    rewrite N.add_0_r. reflexivity.
Qed.

Lemma testbit_small a n i : a < 2 ^ n -> n <= i -> N.testbit a i = false.
Proof.
  intros Ha Hi. destruct (N.eq_dec a 0) as [->|Hz]; [apply N.bits_0|].
  apply N.bits_above_log2. apply N.log2_lt_pow2 in Ha; lia.
Qed.

Lemma lt_pow2_bits a n : (forall i, n <= i -> N.testbit a i = false) -> a < 2 ^ n.
Proof.
  intro H. destruct (N.eq_dec a 0) as [->|Hz].
  - assert (2 ^ n <> 0) by (apply N.pow_nonzero; discriminate). lia.
  - apply N.log2_lt_pow2; [lia|].
    destruct (N.lt_ge_cases (N.log2 a) n) as [Hl|Hl]; [exact Hl|].
    pose proof (N.bit_log2 a Hz) as Hb. rewrite (H _ Hl) in Hb. discriminate.
Qed.

Section BitopSplit.
  Variable op : N -> N -> N.
  Variable bop : bool -> bool -> bool.
  Hypothesis op_spec : forall a b i, N.testbit (op a b) i = bop (N.testbit a i) (N.testbit b i).
  Hypothesis bop_ff : bop false false = false.

  Lemma bitop_lt a b n : a < 2 ^ n -> b < 2 ^ n -> op a b < 2 ^ n.
  Proof.
    intros Ha Hb. apply lt_pow2_bits. intros i Hi.
    rewrite op_spec, (testbit_small a n i Ha Hi), (testbit_small b n i Hb Hi). exact bop_ff.
  Qed.

  Lemma bitop_split a b x y n : a < 2 ^ n -> b < 2 ^ n ->
    op (a + 2 ^ n * x) (b + 2 ^ n * y) = op a b + 2 ^ n * op x y.
  Proof.
    intros Ha Hb. apply N.bits_inj. intro i.
    rewrite (testbit_split (op a b) (op x y) n i) by (apply bitop_lt; assumption).
    rewrite op_spec, (testbit_split a x n i Ha), (testbit_split b y n i Hb).
    destruct (i <? n); rewrite op_spec; reflexivity.
  Qed.
End BitopSplit.

Definition land_split := bitop_split N.land andb N.land_spec eq_refl.
Definition lor_split := bitop_split N.lor orb N.lor_spec eq_refl.
Definition lxor_split := bitop_split N.lxor xorb N.lxor_spec eq_refl.
Definition land_lt := bitop_lt N.land andb N.land_spec eq_refl.
Definition lor_lt := bitop_lt N.lor orb N.lor_spec eq_refl.
Definition lxor_lt := bitop_lt N.lxor xorb N.lxor_spec eq_refl.

Lemma lor_disjoint a x n : a < 2 ^ n -> N.lor a (2 ^ n * x) = a + 2 ^ n * x.
Proof.
  intro Ha.
  pose proof (lor_split a 0 0 x n Ha) as H.
  assert (H0 : 0 < 2 ^ n).
  { assert (2 ^ n <> 0) by (apply N.pow_nonzero; discriminate). lia. }
  specialize (H H0).
  rewrite N.mul_0_r, N.add_0_r, N.add_0_l, N.lor_0_r, N.lor_0_l in H. exact H.
Qed.

(* ------------------------------------------------------------------------------------ *)
(* packed lanes of width w *)
Fixpoint zip {A B C} (f : A -> B -> C) (l : list A) (m : list B) : list C :=
  match l, m with
  | a :: l', b :: m' => f a b :: zip f l' m'
  | _, _ => []
  end.

Lemma zip_repeat {A B C} (f : A -> B -> C) l b :
  zip f l (repeat b (length l)) = map (fun a => f a b) l.
Proof. induction l as [|a l IH]; cbn [zip repeat length map]; [reflexivity | rewrite IH; reflexivity]. Qed.

Lemma zip_length {A B C} (f : A -> B -> C) l m : length l = length m -> length (zip f l m) = length l.
Proof.
  revert m. induction l as [|a l IH]; intros [|b m] H; cbn [zip length] in *; try reflexivity; try discriminate.
  rewrite IH by lia. reflexivity.
Qed.

Lemma zip_map_l {A A' B C} (f : A' -> B -> C) (g : A -> A') l m :
  zip f (map g l) m = zip (fun a b => f (g a) b) l m.
Proof. revert m. induction l as [|a l IH]; intros [|b m]; cbn [zip map]; try reflexivity. rewrite IH. reflexivity. Qed.

Lemma zip_map_r {A B B' C} (f : A -> B' -> C) (g : B -> B') l m :
  zip f l (map g m) = zip (fun a b => f a (g b)) l m.
Proof. revert m. induction l as [|a l IH]; intros [|b m]; cbn [zip map]; try reflexivity. rewrite IH. reflexivity. Qed.

Lemma zip_same {A C} (f : A -> A -> C) l : zip f l l = map (fun a => f a a) l.
Proof. induction l as [|a l IH]; cbn [zip map]; [reflexivity | rewrite IH; reflexivity]. Qed.

Section Lanes.
  Variable w : N.

  Fixpoint pack (l : list N) : N :=
    match l with [] => 0 | a :: r => a + 2 ^ w * pack r end.

  Definition lanes (l : list N) : Prop := Forall (fun a => a < 2 ^ w) l.

  Lemma pw_pos : 0 < 2 ^ w.
  Proof. assert (2 ^ w <> 0) by (apply N.pow_nonzero; discriminate). lia. Qed.

  Lemma lanes_cons a l : lanes (a :: l) <-> a < 2 ^ w /\ lanes l.
  Proof. unfold lanes. split; intro H; [inversion H; auto | constructor; tauto]. Qed.

  Lemma pack_lt l : lanes l -> pack l < 2 ^ (w * N.of_nat (length l)).
  Proof.
    induction l as [|a l IH]; intro H.
    - cbn [pack length]. rewrite N.mul_0_r. cbn. lia.
    - apply lanes_cons in H. destruct H as [Ha Hl]. specialize (IH Hl).
      cbn [pack length]. rewrite Nat2N.inj_succ, N.mul_succ_r, N.pow_add_r.
      pose proof pw_pos. nia.
  Qed.

  Section Bitop.
    Variable op : N -> N -> N.
    Variable bop : bool -> bool -> bool.
    Hypothesis op_spec : forall a b i, N.testbit (op a b) i = bop (N.testbit a i) (N.testbit b i).
    Hypothesis bop_ff : bop false false = false.

    Lemma bitop_pack l m : lanes l -> lanes m -> length l = length m ->
      op (pack l) (pack m) = pack (zip op l m).
    Proof.
      revert m. induction l as [|a l IH]; intros [|b m] Hl Hm Hlen; cbn [length] in Hlen; try discriminate.
      - cbn [pack zip]. apply N.bits_inj. intro i. rewrite op_spec, N.bits_0. exact bop_ff.
      - apply lanes_cons in Hl. apply lanes_cons in Hm. destruct Hl as [Ha Hl]. destruct Hm as [Hb Hm].
        cbn [pack zip]. rewrite (bitop_split op bop op_spec bop_ff) by assumption.
        rewrite IH by (try assumption; lia). reflexivity.
    Qed.

    Lemma bitop_lanes l m : lanes l -> lanes m -> lanes (zip op l m).
    Proof.
      revert m. induction l as [|a l IH]; intros [|b m] Hl Hm; cbn [zip]; try constructor.
      - apply lanes_cons in Hl. apply lanes_cons in Hm.
        apply (bitop_lt op bop op_spec bop_ff); tauto.
      - apply lanes_cons in Hl. apply lanes_cons in Hm. apply IH; tauto.
    Qed.
  End Bitop.

  Definition land_pack := bitop_pack N.land andb N.land_spec eq_refl.
  Definition lor_pack := bitop_pack N.lor orb N.lor_spec eq_refl.
  Definition lxor_pack := bitop_pack N.lxor xorb N.lxor_spec eq_refl.

  Lemma add_pack l m : length l = length m -> pack l + pack m = pack (zip N.add l m).
  Proof.
    revert m. induction l as [|a l IH]; intros [|b m] Hlen; cbn [length] in Hlen; try discriminate.
    - reflexivity.
    - cbn [pack zip]. rewrite <- IH by lia. lia.
  Qed.

  Lemma pack_le l m : Forall2 N.le m l -> pack m <= pack l.
  Proof.
    intro H. induction H as [|b a m l Hba H IH]; cbn [pack]; [lia|]. pose proof pw_pos. nia.
  Qed.

  Lemma sub_pack l m : Forall2 N.le m l -> pack l - pack m = pack (zip N.sub l m).
  Proof.
    intro H. induction H as [|b a m l Hba H IH]; cbn [pack zip]; [reflexivity|].
    rewrite <- IH. pose proof (pack_le l m H). pose proof pw_pos. nia.
  Qed.

  (* (x >> s) & mask is lane-wise when every mask lane is below 2^(w-s) *)
  Lemma shr_land_split a x m y s : a < 2 ^ w -> s <= w -> m < 2 ^ (w - s) ->
    N.land (N.shiftr (a + 2 ^ w * x) s) (m + 2 ^ w * y)
    = N.land (N.shiftr a s) m + 2 ^ w * N.land (N.shiftr x s) y.
  Proof.
    intros Ha Hs Hm.
    assert (Hmw : m < 2 ^ w).
    { eapply N.lt_le_trans; [exact Hm|]. apply N.pow_le_mono_r; lia. }
    apply N.bits_inj. intro i.
    rewrite (testbit_split (N.land (N.shiftr a s) m) (N.land (N.shiftr x s) y) w i).
    2:{ apply land_lt; [|exact Hmw]. rewrite N.shiftr_div_pow2.
        eapply N.le_lt_trans; [|exact Ha]. apply N.div_le_upper_bound.
        - apply N.pow_nonzero; discriminate.
        - assert (0 < 2 ^ s) by (assert (2 ^ s <> 0) by (apply N.pow_nonzero; discriminate); lia). nia. }
    rewrite N.land_spec, N.shiftr_spec', (testbit_split a x w (i + s) Ha), (testbit_split m y w i Hmw).
    destruct (N.ltb_spec i w) as [Hi|Hi].
    - rewrite N.land_spec, N.shiftr_spec'.
      destruct (N.ltb_spec (i + s) w) as [His|His]; [reflexivity|].
      rewrite (testbit_small m (w - s) i Hm) by lia.
      rewrite (testbit_small a w (i + s) Ha) by lia.
      rewrite !andb_false_r. reflexivity.
    - destruct (N.ltb_spec (i + s) w) as [His|His]; [lia|].
      rewrite N.land_spec, N.shiftr_spec'. replace (i + s - w) with (i - w + s) by lia. reflexivity.
  Qed.

  Lemma shr_land_pack l m s : lanes l -> s <= w -> Forall (fun b => b < 2 ^ (w - s)) m ->
    length l = length m ->
    N.land (N.shiftr (pack l) s) (pack m) = pack (zip (fun a b => N.land (N.shiftr a s) b) l m).
  Proof.
    intros Hl Hs. revert m. induction l as [|a l IH]; intros [|b m] Hm Hlen; cbn [length] in Hlen; try discriminate.
    - cbn [pack zip]. rewrite N.shiftr_0_l. reflexivity.
    - apply lanes_cons in Hl. destruct Hl as [Ha Hl]. inversion Hm as [|b' m' Hb Hm']; subst.
      cbn [pack zip]. rewrite shr_land_split by assumption.
      rewrite IH by (try assumption; lia). reflexivity.
  Qed.

  (* lane j *)
  Lemma pack_nth l j : lanes l ->
    (pack l / 2 ^ (w * N.of_nat j)) mod 2 ^ w = nth j l 0.
  Proof.
    revert l. induction j as [|j IH]; intros l Hl.
    - rewrite N.mul_0_r. change (2 ^ 0) with 1. rewrite N.div_1_r.
      destruct l as [|a l]; cbn [pack nth].
      + apply N.mod_0_l. apply N.pow_nonzero; discriminate.
      + apply lanes_cons in Hl. destruct Hl as [Ha Hl].
        replace (a + 2 ^ w * pack l) with (a + pack l * 2 ^ w) by lia.
        rewrite N.mod_add by (apply N.pow_nonzero; discriminate). apply N.mod_small, Ha.
    - destruct l as [|a l]; cbn [pack nth].
      + rewrite N.div_0_l by (apply N.pow_nonzero; discriminate).
        apply N.mod_0_l. apply N.pow_nonzero; discriminate.
      + apply lanes_cons in Hl. destruct Hl as [Ha Hl].
        replace (w * N.of_nat (S j)) with (w + w * N.of_nat j) by lia. rewrite N.pow_add_r.
        rewrite <- N.div_div by (apply N.pow_nonzero; discriminate).
        replace (a + 2 ^ w * pack l) with (pack l * 2 ^ w + a) by lia.
        rewrite N.div_add_l by (apply N.pow_nonzero; discriminate).
        rewrite (N.div_small a) by exact Ha. rewrite N.add_0_r. apply IH, Hl.
  Qed.

  Lemma pack_map_ext {A} (f g : A -> N) l : (forall a, In a l -> f a = g a) -> pack (map f l) = pack (map g l).
  Proof. intro H. f_equal. apply map_ext_in, H. Qed.

  Lemma lanes_map {A} (f : A -> N) l : (forall a, In a l -> f a < 2 ^ w) -> lanes (map f l).
  Proof. intro H. apply Forall_forall. intros b Hb. apply in_map_iff in Hb. destruct Hb as [a [<- Ha]]. auto. Qed.

  Lemma lanes_repeat b n : b < 2 ^ w -> lanes (repeat b n).
  Proof. intro H. apply Forall_forall. intros a Ha. apply repeat_spec in Ha. subst. exact H. Qed.

  (* map forms with a uniform mask *)
  Lemma land_map l m n : lanes l -> m < 2 ^ w -> length l = n ->
    N.land (pack l) (pack (repeat m n)) = pack (map (fun a => N.land a m) l).
  Proof.
    intros Hl Hm <-. rewrite land_pack.
    - rewrite zip_repeat. reflexivity.
    - exact Hl.
    - apply lanes_repeat, Hm.
    - rewrite repeat_length. reflexivity.
  Qed.

  Lemma shr_land_map l m n s : lanes l -> s <= w -> m < 2 ^ (w - s) -> length l = n ->
    N.land (N.shiftr (pack l) s) (pack (repeat m n)) = pack (map (fun a => N.land (N.shiftr a s) m) l).
  Proof.
    intros Hl Hs Hm <-. rewrite shr_land_pack.
    - rewrite zip_repeat. reflexivity.
    - exact Hl.
    - exact Hs.
    - apply Forall_forall. intros a Ha. apply repeat_spec in Ha. subst. exact Hm.
    - rewrite repeat_length. reflexivity.
  Qed.

  Lemma add_map {A} (f g : A -> N) l :
    pack (map f l) + pack (map g l) = pack (map (fun a => f a + g a) l).
  Proof. induction l as [|a l IH]; cbn [map pack]; [reflexivity | rewrite <- IH; lia]. Qed.

  Lemma pack_map_le {A} (f g : A -> N) l : (forall a, In a l -> g a <= f a) ->
    pack (map g l) <= pack (map f l).
  Proof.
    induction l as [|a l IH]; intro H; cbn [map pack]; [lia|].
    assert (g a <= f a) by (apply H; left; reflexivity).
    assert (pack (map g l) <= pack (map f l)) by (apply IH; intros b Hb; apply H; right; exact Hb).
    pose proof pw_pos. nia.
  Qed.

  Lemma sub_map {A} (f g : A -> N) l : (forall a, In a l -> g a <= f a) ->
    pack (map f l) - pack (map g l) = pack (map (fun a => f a - g a) l).
  Proof.
    induction l as [|a l IH]; intro H; cbn [map pack]; [reflexivity|].
    assert (g a <= f a) by (apply H; left; reflexivity).
    assert (Hl : forall b, In b l -> g b <= f b) by (intros b Hb; apply H; right; exact Hb).
    rewrite <- IH by exact Hl. pose proof (pack_map_le f g l Hl). pose proof pw_pos. nia.
  Qed.

  (* splitting a number into n lanes *)
  Fixpoint unpack (n : nat) (x : N) : list N :=
    match n with O => [] | S n' => x mod 2 ^ w :: unpack n' (x / 2 ^ w) end.

  Lemma unpack_length n x : length (unpack n x) = n.
  Proof. revert x. induction n as [|n IH]; intro x; cbn [unpack length]; [reflexivity | rewrite IH; reflexivity]. Qed.

  Lemma unpack_lanes n x : lanes (unpack n x).
  Proof.
    revert x. induction n as [|n IH]; intro x; cbn [unpack]; [constructor|].
    apply lanes_cons. split; [|apply IH]. apply N.mod_lt. apply N.pow_nonzero; discriminate.
  Qed.

  Lemma pack_unpack n : forall x, x < 2 ^ (w * N.of_nat n) -> pack (unpack n x) = x.
  Proof.
    induction n as [|n IH]; intros x Hx.
    - rewrite N.mul_0_r in Hx. change (2 ^ 0) with 1 in Hx. cbn [unpack pack]. lia.
    - cbn [unpack pack].
      replace (w * N.of_nat (S n)) with (w + w * N.of_nat n) in Hx by lia. rewrite N.pow_add_r in Hx.
      rewrite IH.
      + pose proof (N.div_mod x (2 ^ w)) as D. assert (2 ^ w <> 0) by (apply N.pow_nonzero; discriminate). lia.
      + apply N.div_lt_upper_bound; [apply N.pow_nonzero; discriminate | exact Hx].
  Qed.
End Lanes.

(* ------------------------------------------------------------------------------------ *)
(* popcN and selP along a lane boundary *)
Lemma popcN_double x : popcN (2 * x) = popcN x.
Proof. destruct x; reflexivity. Qed.
Lemma popcN_succ_double x : popcN (2 * x + 1) = 1 + popcN x.
Proof. destruct x as [|p]; [reflexivity|]. cbn [popcN]. change (2 * N.pos p + 1) with (N.pos p~1). cbn [popcN popcP]. lia. Qed.

Lemma popcN_split n : forall a x, a < 2 ^ N.of_nat n -> popcN (a + 2 ^ N.of_nat n * x) = popcN a + popcN x.
Proof.
  induction n as [|n IH]; intros a x Ha.
  - change (2 ^ N.of_nat 0) with 1 in *. replace a with 0 by lia. rewrite N.mul_1_l. reflexivity.
  - rewrite Nat2N.inj_succ, N.pow_succ_r' in *.
    assert (Hp : 0 < 2 ^ N.of_nat n) by apply pw_pos.
    destruct (N.even a) eqn:Ev.
    + apply N.even_spec in Ev. destruct Ev as [a' ->].
      replace (2 * a' + 2 * 2 ^ N.of_nat n * x) with (2 * (a' + 2 ^ N.of_nat n * x)) by lia.
      rewrite !popcN_double. apply IH. lia.
    + assert (Od : N.odd a = true) by (rewrite <- N.negb_even, Ev; reflexivity).
      apply N.odd_spec in Od. destruct Od as [a' ->].
      replace (2 * a' + 1 + 2 * 2 ^ N.of_nat n * x) with (2 * (a' + 2 ^ N.of_nat n * x) + 1) by lia.
      rewrite !popcN_succ_double. rewrite IH by lia. lia.
Qed.

Lemma popcN_pow2 t : popcN (2 ^ t) = 1.
Proof.
  induction t as [|t IH] using N.peano_ind; [reflexivity|].
  rewrite N.pow_succ_r', popcN_double. exact IH.
Qed.

Lemma popcN_le n : forall a, a < 2 ^ N.of_nat n -> popcN a <= N.of_nat n.
Proof.
  induction n as [|n IH]; intros a Ha.
  - change (2 ^ N.of_nat 0) with 1 in Ha. replace a with 0 by lia. cbn. lia.
  - rewrite Nat2N.inj_succ, N.pow_succ_r' in *.
    destruct (N.even a) eqn:Ev.
    + apply N.even_spec in Ev. destruct Ev as [a' ->]. rewrite popcN_double.
      specialize (IH a'). lia.
    + assert (Od : N.odd a = true) by (rewrite <- N.negb_even, Ev; reflexivity).
      apply N.odd_spec in Od. destruct Od as [a' ->]. rewrite popcN_succ_double.
      specialize (IH a'). lia.
Qed.

(* selection with an explicit start position *)
Definition selN (x k pos : N) : option N :=
  match x with 0 => None | Npos p => selP p k pos end.

Lemma select_in_word_spec_selN x k : select_in_word_spec x k = selN x k 0.
Proof. reflexivity. Qed.

Lemma selN_double x k pos : selN (2 * x) k pos = selN x k (pos + 1).
Proof. destruct x; reflexivity. Qed.
Lemma selN_succ_double x k pos :
  selN (2 * x + 1) k pos = if k =? 0 then Some pos else selN x (k - 1) (pos + 1).
Proof.
  destruct x as [|p].
  - change (2 * 0 + 1) with 1. reflexivity.
  - change (2 * N.pos p + 1) with (N.pos p~1). reflexivity.
Qed.

Lemma selN_split n : forall a x k pos, a < 2 ^ N.of_nat n ->
  selN (a + 2 ^ N.of_nat n * x) k pos =
  if k <? popcN a then selN a k pos else selN x (k - popcN a) (pos + N.of_nat n).
Proof.
  induction n as [|n IH]; intros a x k pos Ha.
  - change (2 ^ N.of_nat 0) with 1 in *. replace a with 0 by lia. rewrite N.mul_1_l.
    cbn [popcN N.add]. rewrite N.add_0_l, N.sub_0_r, N.add_0_r.
    destruct (N.ltb_spec k 0); [lia | reflexivity].
  - rewrite Nat2N.inj_succ, N.pow_succ_r' in *.
    assert (Hp : 0 < 2 ^ N.of_nat n) by apply pw_pos.
    destruct (N.even a) eqn:Ev.
    + apply N.even_spec in Ev. destruct Ev as [a' ->].
      replace (2 * a' + 2 * 2 ^ N.of_nat n * x) with (2 * (a' + 2 ^ N.of_nat n * x)) by lia.
      rewrite !selN_double, popcN_double. rewrite IH by lia.
      replace (pos + 1 + N.of_nat n) with (pos + N.succ (N.of_nat n)) by lia. reflexivity.
    + assert (Od : N.odd a = true) by (rewrite <- N.negb_even, Ev; reflexivity).
      apply N.odd_spec in Od. destruct Od as [a' ->].
      replace (2 * a' + 1 + 2 * 2 ^ N.of_nat n * x) with (2 * (a' + 2 ^ N.of_nat n * x) + 1) by lia.
      rewrite !selN_succ_double, popcN_succ_double. rewrite IH by lia.
      replace (pos + 1 + N.of_nat n) with (pos + N.succ (N.of_nat n)) by lia.
      destruct (N.eqb_spec k 0) as [->|Hk].
      * destruct (N.ltb_spec 0 (1 + popcN a')); [reflexivity | lia].
      * replace (k - 1 - popcN a') with (k - (1 + popcN a')) by lia.
        destruct (N.ltb_spec (k - 1) (popcN a')); destruct (N.ltb_spec k (1 + popcN a')); try lia; reflexivity.
Qed.

Lemma selN_shift n : forall a k pos, a < 2 ^ N.of_nat n ->
  selN a k pos = match selN a k 0 with Some v => Some (pos + v) | None => None end.
Proof.
  induction n as [|n IH]; intros a k pos Ha.
  - change (2 ^ N.of_nat 0) with 1 in Ha. replace a with 0 by lia. reflexivity.
  - rewrite Nat2N.inj_succ, N.pow_succ_r' in *.
    destruct (N.even a) eqn:Ev.
    + apply N.even_spec in Ev. destruct Ev as [a' ->]. rewrite !selN_double.
      rewrite (IH a' k (pos + 1)) by lia. rewrite (IH a' k (0 + 1)) by lia.
      destruct (selN a' k 0); [f_equal; lia | reflexivity].
    + assert (Od : N.odd a = true) by (rewrite <- N.negb_even, Ev; reflexivity).
      apply N.odd_spec in Od. destruct Od as [a' ->]. rewrite !selN_succ_double.
      destruct (k =? 0); [f_equal; lia|].
      rewrite (IH a' (k - 1) (pos + 1)) by lia. rewrite (IH a' (k - 1) (0 + 1)) by lia.
      destruct (selN a' (k - 1) 0); [f_equal; lia | reflexivity].
Qed.
